(* C14, end to end, stage (iv): the ghosts of the streams and the handles of the application.
   Reader side: the bytes a handle's reads have returned (plus the chunks of its read in progress) are the
   chunks read_exact has taken from the stream in the handle's incarnation.
   Writer side: the payload an incarnation has handed to the writer task is the data of its handle. *)
From Coq Require Import ZArith List Bool Lia.
From EC Require Import Lib.Outcome Lib.Obs Model.MuxHeader Model.Mux Proofs.MuxProofs Proofs.MuxRefine Proofs.MuxControl Proofs.MuxWire Proofs.MuxPair.
Import ListNotations.
Open Scope Z_scope.

Definition pendb (s : rstream) : list Z := match s_pread s with Some p => concat (rev (pr_chunks p)) | None => [] end.
Definition returned (r : slotrec) : list Z := chunks_bytes (g_rd (sl_g r)).

Record RL (e : endpoint) : Prop := mkRL {
  R1 : forall k i s p, get_stream e k i = Some s -> s_pread s = Some p ->
         exists r, In r (e_slots e) /\ sl_id r = pr_slot p /\ sl_r r = true /\ sl_sid r = Some i /\ (sl_kind r =? 0) = (k =? 0);
  R2 : forall r i s, In r (e_slots e) -> sl_r r = true -> sl_sid r = Some i -> get_stream e (sl_kind r) i = Some s ->
         returned r ++ pendb s = rdb s;
  R4 : forall k i s, get_stream e k i = Some s -> s_rph s <> RApp -> s_pread s = None }.

(* what RL looks at *)
Definition rlv_slot (r : slotrec) := (sl_id r, sl_kind r, sl_sid r, sl_r r, g_rd (sl_g r)).
Definition rlv_stream (s : rstream) := (s_rph s, s_pread s, g_rdc (s_g s)).

Lemma RL_same : forall e e', map rlv_slot (e_slots e') = map rlv_slot (e_slots e) ->
  (forall k i, option_map rlv_stream (get_stream e' k i) = option_map rlv_stream (get_stream e k i)) ->
  RL e -> RL e'.
Proof.
  intros e e' Hs Hg [r1 r2 r4].
  assert (Hin : forall r', In r' (e_slots e') -> exists r, In r (e_slots e) /\ rlv_slot r' = rlv_slot r).
  { intros r' H. apply (in_map rlv_slot) in H. rewrite Hs in H. apply in_map_iff in H. destruct H as (r & A & B). exists r. auto. }
  assert (Hin' : forall r, In r (e_slots e) -> exists r', In r' (e_slots e') /\ rlv_slot r' = rlv_slot r).
  { intros r H. apply (in_map rlv_slot) in H. rewrite <- Hs in H. apply in_map_iff in H. destruct H as (r' & A & B). exists r'. auto. }
  assert (Hst : forall k i s', get_stream e' k i = Some s' -> exists s, get_stream e k i = Some s /\ rlv_stream s' = rlv_stream s).
  { intros k i s' H. pose proof (Hg k i) as Hv. rewrite H in Hv. destruct (get_stream e k i) as [s|]; [|discriminate].
    exists s. split; [reflexivity|]. cbn in Hv. congruence. }
  constructor.
  - intros k i s' p E' Hp. destruct (Hst k i s' E') as (s & E & Hv). unfold rlv_stream in Hv. inversion Hv as [[A B C]].
    rewrite Hp in B. destruct (r1 k i s p E (eq_sym B)) as (r & Hr & H1 & H2 & H3 & H4).
    destruct (Hin' r Hr) as (r' & Hr' & Hv'). unfold rlv_slot in Hv'. inversion Hv' as [[V1 V2 V3 V4 V5]].
    exists r'. rewrite V1, V2, V3, V4. auto.
  - intros r' i s' Hr' Hrr Hsid E'. destruct (Hin r' Hr') as (r & Hr & Hv'). unfold rlv_slot in Hv'. inversion Hv' as [[V1 V2 V3 V4 V5]].
    rewrite V2 in E'. destruct (Hst _ i s' E') as (s & E & Hv). unfold rlv_stream in Hv. inversion Hv as [[A B C]].
    unfold returned, pendb, rdb. rewrite V5, B, C. apply (r2 r i s Hr); congruence.
  - intros k i s' E' Hph. destruct (Hst k i s' E') as (s & E & Hv). unfold rlv_stream in Hv. inversion Hv as [[A B C]].
    rewrite B. apply (r4 k i s E). congruence.
Qed.
Lemma RL_upd_stream_neutral : forall e k i f, RL e -> (forall s, rlv_stream (f s) = rlv_stream s) -> RL (upd_stream e k i f).
Proof.
  intros e k i f HR Hf. apply (RL_same e); [rewrite slots_upd_stream; reflexivity| |exact HR].
  intros k' i'. rewrite get_upd. destruct (_ && _); [|reflexivity]. destruct (get_stream e k' i'); [|reflexivity]. cbn [option_map]. f_equal. apply Hf.
Qed.

Lemma RL_upd_slot_neutral : forall e x g, RL e -> (forall r, rlv_slot (g r) = rlv_slot r) -> RL (upd_slot e x g).
Proof.
  intros e x g HR Hg. apply (RL_same e); [|intros; reflexivity|exact HR].
  unfold upd_slot. cbn [set_slots e_slots]. rewrite map_map. apply map_ext. intros r. destruct (sl_id r =? x); [apply Hg|reflexivity].
Qed.

Ltac rsame e := intros; apply (RL_same e); [reflexivity|intros; reflexivity|assumption].
Lemma RL_set_d : forall e x, RL e -> RL (set_d e x). Proof. intros e; rsame e. Qed.
Lemma RL_set_qs : forall e x, RL e -> RL (set_qs e x). Proof. intros e; rsame e. Qed.
Lemma RL_set_events : forall e x, RL e -> RL (set_events e x). Proof. intros e; rsame e. Qed.
Lemma RL_set_out : forall e x l, RL e -> RL (set_out e x l). Proof. intros e; rsame e. Qed.
Lemma RL_set_fail : forall e x, RL e -> RL (set_fail e x). Proof. intros e; rsame e. Qed.
Lemma RL_set_gone : forall e, RL e -> RL (set_gone e). Proof. intros e; rsame e. Qed.
Lemma RL_add_event : forall e ev, RL e -> RL (add_event e ev). Proof. intros e; rsame e. Qed.
Lemma RL_release : forall e f, RL e -> RL (release e f). Proof. intros e; rsame e. Qed.
Lemma RL_upd_queue : forall e k c f, RL e -> RL (upd_queue e k c f). Proof. intros e; rsame e. Qed.
Lemma RL_enqueue_idle : forall e k c i, RL e -> RL (enqueue_idle e k c i). Proof. intros e; rsame e. Qed.
Lemma RL_skip : forall e s, RL e -> RL (skip e s). Proof. intros e; rsame e. Qed.
Lemma RL_emit : forall e h d, RL e -> RL (emit e h d).
Proof. intros e h d HR. unfold emit. destruct (e_gone e); [apply RL_set_fail; exact HR|]. destruct d; apply RL_set_out; exact HR. Qed.
Lemma RL_emit_frames : forall ps e k i, RL e -> RL (emit_frames e k i ps).
Proof. unfold emit_frames. induction ps as [|p ps IH]; intros e k i HR; cbn [fold_left]; [exact HR|]. apply IH, RL_emit, HR. Qed.
Lemma RL_emit_data : forall ps e k i, RL e -> RL (emit_data e k i ps).
Proof. intros. unfold emit_data. apply RL_upd_stream_neutral; [apply RL_emit_frames; assumption|intros s; reflexivity]. Qed.
Lemma RL_fold_release : forall rel e, RL e -> RL (fold_left release rel e).
Proof. induction rel as [|f rel IH]; intros e HR; cbn [fold_left]; [exact HR|]. apply IH, RL_release, HR. Qed.
Lemma RL_deliver : forall e k i f, RL e -> RL (deliver e k i f).
Proof. intros. unfold deliver. apply RL_upd_stream_neutral; [assumption|intros s; reflexivity]. Qed.

Lemma RL_after_close : forall e k i, RL e -> RL (after_close e k i).
Proof.
  intros e k i HR. unfold after_close. destruct (get_stream e k i); [|exact HR]. destruct (k =? 0).
  - apply RL_upd_stream_neutral; [exact HR|intros s; reflexivity].
  - apply RL_enqueue_idle, RL_upd_stream_neutral; [exact HR|intros s; reflexivity].
Qed.
Lemma RL_send_close : forall e k i, RL e -> RL (send_close e k i).
Proof.
  intros e k i HR. unfold send_close. destruct (get_stream e k i) as [s|]; [|exact HR].
  apply RL_after_close, RL_emit, RL_upd_stream_neutral; [|intros s0; reflexivity].
  destruct (s_wbuf s); [exact HR|apply RL_emit_data; exact HR].
Qed.

(* the general change of one stream *)
Lemma RL_upd_stream : forall e k i s f, RL e -> K e -> get_stream e k i = Some s ->
  (* a read in progress stays attributed to the same handle, a new one names the reader of this stream *)
  (forall p', s_pread (f s) = Some p' ->
     (exists p, s_pread s = Some p /\ pr_slot p' = pr_slot p) \/
     (exists r, In r (e_slots e) /\ sl_id r = pr_slot p' /\ sl_r r = true /\ sl_sid r = Some i /\ (sl_kind r =? 0) = (k =? 0))) ->
  (forall r, In r (e_slots e) -> sl_r r = true -> sl_sid r = Some i -> (sl_kind r =? 0) = (k =? 0) ->
     returned r ++ pendb (f s) = rdb (f s)) ->
  (s_rph (f s) <> RApp -> s_pread (f s) = None) ->
  RL (upd_stream e k i f).
Proof.
  intros e k i s f [r1 r2 r4] HK E Hp Hr Hn.
  assert (Hg : forall k' i' s', get_stream (upd_stream e k i f) k' i' = Some s' ->
            (same k i k' i' /\ s' = f s) \/ (other k i k' i' /\ get_stream e k' i' = Some s')).
  { intros k' i' s' E'. destruct (same_or_other k i k' i') as [Hs|Ho].
    - left. split; [exact Hs|]. rewrite (get_upd_same _ _ _ _ _ _ Hs) in E'. destruct Hs as [Hk ->].
      rewrite <- (get_same_table e k k' i' Hk), E in E'. cbn in E'. congruence.
    - right. split; [exact Ho|]. rewrite (get_upd_other _ _ _ _ _ _ Ho) in E'. exact E'. }
  constructor; rewrite ?slots_upd_stream.
  - intros k' i' s' p' E' Hp'. destruct (Hg k' i' s' E') as [[[Hk ->] ->]|[_ E0]]; [|apply (r1 k' i' s' p' E0 Hp')].
    destruct (Hp p' Hp') as [(p & Hps & Heq)|(r & A & B & C & D & F)].
    + rewrite Heq. rewrite (get_same_table e k k' i' Hk) in E. destruct (r1 k' i' s p E Hps) as (r & A & B & C & D & F). exists r. auto.
    + exists r. rewrite <- Hk. auto.
  - intros r i' s' Hin Hrr Hsid E'. destruct (Hg _ i' s' E') as [[[Hk ->] ->]|[_ E0]]; [|apply (r2 r i' s' Hin Hrr Hsid E0)].
    apply (Hr r Hin Hrr Hsid). symmetry. exact Hk.
  - intros k' i' s' E' Hph. destruct (Hg k' i' s' E') as [[_ ->]|[_ E0]]; [apply Hn; exact Hph|apply (r4 k' i' s' E0 Hph)].
Qed.
(* ---- identity bookkeeping: every handle id is waiting in one queue, or logged by one stream, once ---- *)
Definition cnt (x : Z) (l : list Z) : nat := count_occ Z.eq_dec l x.
Definition sids (s : rstream) : list Z := map fst (g_wlog (s_g s)).
Definition pend_ids (e : endpoint) : list Z := flat_map q_pend (e_qs e).
Definition tids (t : list rstream) : list Z := flat_map sids t.
Definition wlog_ids (e : endpoint) : list Z := tids (e_acc e) ++ tids (e_con e).

Lemma cnt_app : forall x a b, cnt x (a ++ b) = (cnt x a + cnt x b)%nat.
Proof. intros. unfold cnt. apply count_occ_app. Qed.
Lemma cnt_in : forall x l, In x l -> (1 <= cnt x l)%nat.
Proof. intros x l H. unfold cnt. apply (count_occ_In Z.eq_dec) in H. lia. Qed.
Lemma cnt_notin : forall x l, ~ In x l -> cnt x l = O.
Proof. intros x l H. unfold cnt. apply count_occ_not_In. exact H. Qed.
Lemma cnt_pos_in : forall x l, (1 <= cnt x l)%nat -> In x l.
Proof. intros x l H. unfold cnt in H. apply (count_occ_In Z.eq_dec). lia. Qed.

Lemma cnt_cons_eq : forall x l, cnt x (x :: l) = S (cnt x l).
Proof. intros. unfold cnt. cbn [count_occ]. destruct (Z.eq_dec x x); [reflexivity|contradiction]. Qed.
Lemma cnt_cons_ne : forall x y l, y <> x -> cnt x (y :: l) = cnt x l.
Proof. intros. unfold cnt. cbn [count_occ]. destruct (Z.eq_dec y x); [contradiction|reflexivity]. Qed.

Lemma tids_upd_nth : forall x t i s f, nth_error t i = Some s ->
  (cnt x (tids (upd_nth i f t)) + cnt x (sids s) = cnt x (tids t) + cnt x (sids (f s)))%nat.
Proof.
  intros x. induction t as [|y t IH]; intros i s f H; [destruct i; discriminate|].
  destruct i as [|i]; cbn [nth_error] in H.
  - inversion H; subst y. cbn [upd_nth tids flat_map]. fold (tids t). rewrite !cnt_app. lia.
  - cbn [upd_nth tids flat_map]. fold (tids t). fold (tids (upd_nth i f t)). rewrite !cnt_app. specialize (IH i s f H). lia.
Qed.

Lemma wlog_ids_upd : forall x e k i s f, get_stream e k i = Some s ->
  (cnt x (wlog_ids (upd_stream e k i f)) + cnt x (sids s) = cnt x (wlog_ids e) + cnt x (sids (f s)))%nat.
Proof.
  intros x e k i s f H. unfold get_stream, table in H. unfold wlog_ids, upd_stream, set_table, table.
  destruct (k =? 0); cbn [e_acc e_con set_acc set_con]; rewrite !cnt_app; pose proof (tids_upd_nth x _ i s f H); lia.
Qed.

Lemma tids_in : forall t i s x, nth_error t i = Some s -> In x (sids s) -> In x (tids t).
Proof.
  intros t i s x H Hx. unfold tids. apply in_flat_map. exists s. split; [eapply nth_error_In; exact H|exact Hx].
Qed.

Lemma tids_two : forall x t i i' s s', nth_error t i = Some s -> nth_error t i' = Some s' -> i <> i' ->
  In x (sids s) -> In x (sids s') -> (2 <= cnt x (tids t))%nat.
Proof.
  intros x. induction t as [|y t IH]; intros i i' s s' H H' Hne Hx Hx'; [destruct i; discriminate|].
  cbn [tids flat_map]. fold (tids t). rewrite cnt_app.
  destruct i as [|i]; destruct i' as [|i']; cbn [nth_error] in *; try lia.
  - inversion H; subst y. pose proof (cnt_in x _ Hx). pose proof (cnt_in x _ (tids_in t i' s' x H' Hx')). lia.
  - inversion H'; subst y. pose proof (cnt_in x _ Hx'). pose proof (cnt_in x _ (tids_in t i s x H Hx)). lia.
  - assert (i <> i') by lia. specialize (IH i i' s s' H H' H0 Hx Hx'). lia.
Qed.

Lemma wlog_ids_in : forall e k i s x, get_stream e k i = Some s -> In x (sids s) -> (1 <= cnt x (wlog_ids e))%nat.
Proof.
  intros e k i s x H Hx. unfold get_stream, table in H. unfold wlog_ids. rewrite cnt_app.
  destruct (k =? 0); pose proof (cnt_in x _ (tids_in _ i s x H Hx)); lia.
Qed.

Lemma wlog_ids_two : forall e k i k' i' s s' x, get_stream e k i = Some s -> get_stream e k' i' = Some s' ->
  other k i k' i' -> In x (sids s) -> In x (sids s') -> (2 <= cnt x (wlog_ids e))%nat.
Proof.
  intros e k i k' i' s s' x H H' Ho Hx Hx'. unfold get_stream, table in *. unfold wlog_ids. rewrite cnt_app.
  destruct (k =? 0) eqn:E1; destruct (k' =? 0) eqn:E2.
  - destruct Ho as [Ho|Ho]; [congruence|]. pose proof (tids_two x _ i i' s s' H H' Ho Hx Hx'). lia.
  - pose proof (cnt_in x _ (tids_in _ i s x H Hx)). pose proof (cnt_in x _ (tids_in _ i' s' x H' Hx')). lia.
  - pose proof (cnt_in x _ (tids_in _ i s x H Hx)). pose proof (cnt_in x _ (tids_in _ i' s' x H' Hx')). lia.
  - destruct Ho as [Ho|Ho]; [congruence|]. pose proof (tids_two x _ i i' s s' H H' Ho Hx Hx'). lia.
Qed.

(* the queues: only the queue with the matching key changes *)
Definition qmatch (k cap : Z) (q : queue) : bool := (q_kind q =? k) && (q_cap q =? cap).
Lemma pend_ids_upd : forall x qs0 k cap g q0, NoDup (map bkey qs0) -> In q0 qs0 -> q_kind q0 = k -> q_cap q0 = cap ->
  (cnt x (flat_map q_pend (map (fun q => if qmatch k cap q then g q else q) qs0)) + cnt x (q_pend q0))%nat
   = (cnt x (flat_map q_pend qs0) + cnt x (q_pend (g q0)))%nat.
Proof.
  intros x. induction qs0 as [|q l IH]; intros k cap g q0 Hnd Hin Hk Hc; [destruct Hin|].
  cbn [map] in Hnd. apply NoDup_cons_iff in Hnd. destruct Hnd as [Hni Hnd']. cbn [map flat_map]. rewrite !cnt_app.
  destruct Hin as [->|Hin].
  - unfold qmatch at 1. rewrite Hk, Hc, !Z.eqb_refl. cbn [andb].
    (* no other queue of the list matches *)
    assert (Hrest : map (fun q => if qmatch k cap q then g q else q) l = l).
    { rewrite <- (map_id l) at 2. apply map_ext_in. intros q Hq. destruct (qmatch k cap q) eqn:Em; [|reflexivity].
      exfalso. unfold qmatch in Em. apply andb_prop in Em. destruct Em as [A B]. apply Z.eqb_eq in A, B. apply Hni. apply in_map_iff. exists q. split; [|exact Hq].
      unfold bkey. rewrite A, B, Hk, Hc. reflexivity. }
    rewrite Hrest. lia.
  - assert (Hq : qmatch k cap q = false).
    { destruct (qmatch k cap q) eqn:Em; [|reflexivity]. exfalso.
      unfold qmatch in Em. apply andb_prop in Em. destruct Em as [A B]. apply Z.eqb_eq in A, B. apply Hni. apply in_map_iff. exists q0. split; [|exact Hin].
      unfold bkey. rewrite A, B, Hk, Hc. reflexivity. }
    rewrite Hq. specialize (IH k cap g q0 Hnd' Hin Hk Hc). lia.
Qed.
Definition joinx (s : rstream) : option Z := match s_wph s with WJoin x => Some x | _ => None end.

Record SU (e : endpoint) : Prop := mkSU {
  U : forall x, (cnt x (pend_ids e) + cnt x (wlog_ids e) <= 1)%nat;
  Wid : forall k i s w, get_stream e k i = Some s -> In w (sids s) ->
          exists r, In r (e_slots e) /\ sl_id r = w /\ (sl_kind r =? 0) = (k =? 0);
  S1 : forall r, In r (e_slots e) -> sl_sid r = None -> sl_woff r = 0;
  S3 : forall q x r, In q (e_qs e) -> In x (q_pend q) -> In r (e_slots e) -> sl_id r = x -> sl_sid r = None;
  S4 : forall k i s x, get_stream e k i = Some s -> joinx s = Some x ->
         (exists rest, sids s = x :: rest) /\ (forall r, In r (e_slots e) -> sl_id r = x -> sl_sid r = None) }.

Definition su_slot (r : slotrec) := (sl_id r, sl_kind r, sl_sid r, match sl_sid r with None => sl_woff r | Some _ => 0 end).
Definition su_stream (s : rstream) := (sids s, joinx s).

Lemma su_slot_eq : forall r' r, su_slot r' = su_slot r ->
  sl_id r' = sl_id r /\ sl_kind r' = sl_kind r /\ sl_sid r' = sl_sid r /\ (sl_sid r = None -> sl_woff r' = sl_woff r).
Proof.
  intros [a b c d e f g] [a' b' c' d' e' f' g'] H. unfold su_slot in H. cbn [sl_id sl_kind sl_sid sl_woff] in *.
  inversion H; subst. repeat split; auto. intros ->. assumption.
Qed.

Lemma tids_map : forall t t', map sids t' = map sids t -> tids t' = tids t.
Proof.
  intros t. induction t as [|s t IH]; intros t' H; destruct t' as [|s' t']; try discriminate; [reflexivity|].
  cbn [map] in H. inversion H as [[A B]]. cbn [tids flat_map]. fold (tids t). fold (tids t'). rewrite A, (IH t' B). reflexivity.
Qed.

Lemma su_get : forall e e' k i s', map su_stream (e_acc e') = map su_stream (e_acc e) -> map su_stream (e_con e') = map su_stream (e_con e) ->
  get_stream e' k i = Some s' -> exists s, get_stream e k i = Some s /\ su_stream s' = su_stream s.
Proof.
  intros e e' k i s' Ha Hc H. unfold get_stream, table in *.
  assert (Hm : forall l l' : list rstream, map su_stream l' = map su_stream l -> nth_error l' i = Some s' -> exists s, nth_error l i = Some s /\ su_stream s' = su_stream s).
  { intros l l' Hl Hn. pose proof (nth_error_map su_stream i l') as H1. rewrite Hn, Hl, nth_error_map in H1. cbn [option_map] in H1.
    destruct (nth_error l i) as [s|]; [|discriminate]. exists s. split; [reflexivity|]. cbn in H1. congruence. }
  destruct (k =? 0); [apply (Hm _ _ Ha H)|apply (Hm _ _ Hc H)].
Qed.

Lemma SU_same : forall e e', map q_pend (e_qs e') = map q_pend (e_qs e) -> map su_slot (e_slots e') = map su_slot (e_slots e) ->
  map su_stream (e_acc e') = map su_stream (e_acc e) -> map su_stream (e_con e') = map su_stream (e_con e) ->
  SU e -> SU e'.
Proof.
  intros e e' Hq Hs Ha Hc [u wid s1 s3 s4].
  assert (Hin : forall r', In r' (e_slots e') -> exists r, In r (e_slots e) /\ su_slot r' = su_slot r).
  { intros r' H. apply (in_map su_slot) in H. rewrite Hs in H. apply in_map_iff in H. destruct H as (r & A & B). exists r. auto. }
  assert (Hin' : forall r, In r (e_slots e) -> exists r', In r' (e_slots e') /\ su_slot r' = su_slot r).
  { intros r H. apply (in_map su_slot) in H. rewrite <- Hs in H. apply in_map_iff in H. destruct H as (r' & A & B). exists r'. auto. }
  assert (Hw : wlog_ids e' = wlog_ids e).
  { unfold wlog_ids. f_equal; apply tids_map.
    - assert (H : map fst (map su_stream (e_acc e')) = map fst (map su_stream (e_acc e))) by (rewrite Ha; reflexivity). rewrite !map_map in H. exact H.
    - assert (H : map fst (map su_stream (e_con e')) = map fst (map su_stream (e_con e))) by (rewrite Hc; reflexivity). rewrite !map_map in H. exact H. }
  constructor.
  - intros x. unfold pend_ids. rewrite !flat_map_concat_map, Hq, <- flat_map_concat_map, Hw. apply u.
  - intros k i s' w E' Hw'. destruct (su_get e e' k i s' Ha Hc E') as (s & E & Hv). inversion Hv as [[A B]]. rewrite A in Hw'.
    destruct (wid k i s w E Hw') as (r & Hr & H1 & H2). destruct (Hin' r Hr) as (r' & Hr' & Hv'). destruct (su_slot_eq _ _ Hv') as (V1 & V2 & V3 & V4).
    exists r'. rewrite V1, V2. auto.
  - intros r' Hr' Hsid. destruct (Hin r' Hr') as (r & Hr & Hv'). destruct (su_slot_eq _ _ Hv') as (V1 & V2 & V3 & V4). assert (Hs0 : sl_sid r = None) by congruence. rewrite (V4 Hs0). apply (s1 r Hr Hs0).
  - intros q' x r' Hq' Hx Hr' Hid. apply (in_map q_pend) in Hq'. rewrite Hq in Hq'. apply in_map_iff in Hq'. destruct Hq' as (q & Hqp & Hq').
    rewrite <- Hqp in Hx. destruct (Hin r' Hr') as (r & Hr & Hv'). destruct (su_slot_eq _ _ Hv') as (V1 & V2 & V3 & V4).
    rewrite V3. apply (s3 q x r Hq' Hx Hr). congruence.
  - intros k i s' x E' Hj. destruct (su_get e e' k i s' Ha Hc E') as (s & E & Hv). inversion Hv as [[A B]]. rewrite B in Hj.
    destruct (s4 k i s x E Hj) as [(rest & Hrest) Hall]. split; [exists rest; congruence|].
    intros r' Hr' Hid. destruct (Hin r' Hr') as (r & Hr & Hv'). destruct (su_slot_eq _ _ Hv') as (V1 & V2 & V3 & V4). rewrite V3. apply (Hall r Hr). congruence.
Qed.

Lemma su_upd_neutral : forall e k i f, (forall s, su_stream (f s) = su_stream s) ->
  map su_stream (e_acc (upd_stream e k i f)) = map su_stream (e_acc e) /\ map su_stream (e_con (upd_stream e k i f)) = map su_stream (e_con e).
Proof.
  intros e k i f Hf. unfold upd_stream, set_table, table. destruct (k =? 0); cbn [set_acc set_con e_acc e_con]; split; try reflexivity;
    apply map_upd_nth_same; intros s _; apply Hf.
Qed.

Lemma SU_upd_stream_neutral : forall e k i f, SU e -> (forall s, su_stream (f s) = su_stream s) -> SU (upd_stream e k i f).
Proof.
  intros e k i f HS Hf. destruct (su_upd_neutral e k i f Hf) as [A B].
  apply (SU_same e); try assumption; [rewrite qs_upd_stream; reflexivity|rewrite slots_upd_stream; reflexivity].
Qed.

Lemma SU_upd_slot_neutral : forall e x g, SU e -> (forall r, su_slot (g r) = su_slot r) -> SU (upd_slot e x g).
Proof.
  intros e x g HS Hg. apply (SU_same e); try reflexivity; [|exact HS].
  unfold upd_slot. cbn [set_slots e_slots]. rewrite map_map. apply map_ext. intros r. destruct (sl_id r =? x); [apply Hg|reflexivity].
Qed.

Ltac susame e := intros; apply (SU_same e); try reflexivity; assumption.
Lemma SU_set_d : forall e x, SU e -> SU (set_d e x). Proof. intros e; susame e. Qed.
Lemma SU_set_events : forall e x, SU e -> SU (set_events e x). Proof. intros e; susame e. Qed.
Lemma SU_set_out : forall e x l, SU e -> SU (set_out e x l). Proof. intros e; susame e. Qed.
Lemma SU_set_fail : forall e x, SU e -> SU (set_fail e x). Proof. intros e; susame e. Qed.
Lemma SU_set_gone : forall e, SU e -> SU (set_gone e). Proof. intros e; susame e. Qed.
Lemma SU_add_event : forall e ev, SU e -> SU (add_event e ev). Proof. intros e; susame e. Qed.
Lemma SU_release : forall e f, SU e -> SU (release e f). Proof. intros e; susame e. Qed.
Lemma SU_skip : forall e s, SU e -> SU (skip e s). Proof. intros e; susame e. Qed.
Lemma SU_emit : forall e h d, SU e -> SU (emit e h d).
Proof. intros e h d HS. unfold emit. destruct (e_gone e); [apply SU_set_fail; exact HS|]. destruct d; apply SU_set_out; exact HS. Qed.
Lemma SU_emit_frames : forall ps e k i, SU e -> SU (emit_frames e k i ps).
Proof. unfold emit_frames. induction ps as [|p ps IH]; intros e k i HS; cbn [fold_left]; [exact HS|]. apply IH, SU_emit, HS. Qed.
Lemma sids_sent : forall s ps, sids (g_sent s ps) = sids s.
Proof. intros s ps. unfold sids, g_sent. cbn [set_g s_g g_wlog]. destruct (g_wlog (s_g s)) as [|[w cs] t]; reflexivity. Qed.
Lemma SU_emit_data : forall ps e k i, SU e -> SU (emit_data e k i ps).
Proof.
  intros. unfold emit_data. apply SU_upd_stream_neutral; [apply SU_emit_frames; assumption|]. intros s. unfold su_stream. rewrite sids_sent. reflexivity.
Qed.
Lemma SU_fold_release : forall rel e, SU e -> SU (fold_left release rel e).
Proof. induction rel as [|f rel IH]; intros e HS; cbn [fold_left]; [exact HS|]. apply IH, SU_release, HS. Qed.
Lemma SU_enqueue_idle : forall e k c i, SU e -> SU (enqueue_idle e k c i).
Proof.
  intros e k c i HS. apply (SU_same e); try reflexivity; [|exact HS].
  unfold enqueue_idle, upd_queue. cbn [set_qs e_qs]. rewrite map_map. apply map_ext. intros q. destruct (_ && _); reflexivity.
Qed.
Lemma wlog_ids_in_inv : forall e x, In x (wlog_ids e) -> exists k i s, get_stream e k i = Some s /\ In x (sids s).
Proof.
  intros e x H. unfold wlog_ids in H. apply in_app_or in H. destruct H as [H|H]; unfold tids in H; apply in_flat_map in H; destruct H as (s & Hs & Hx);
    apply In_nth_error in Hs; destruct Hs as (i & Hi).
  - exists 0, i, s. split; [exact Hi|exact Hx].
  - exists 1, i, s. split; [exact Hi|exact Hx].
Qed.

Lemma pend_ids_in_inv : forall e x, In x (pend_ids e) -> exists q, In q (e_qs e) /\ In x (q_pend q).
Proof. intros e x H. unfold pend_ids in H. apply in_flat_map in H. exact H. Qed.

Lemma fresh_not_pending : forall e x, K e -> SU e -> ~ In x (map sl_id (e_slots e)) -> cnt x (pend_ids e) = O /\ cnt x (wlog_ids e) = O.
Proof.
  intros e x HK HS Hf. split; apply cnt_notin; intros Hin.
  - destruct (pend_ids_in_inv e x Hin) as (q & Hq & Hx). apply Hf. apply (K4e e HK q x Hq Hx).
  - destruct (wlog_ids_in_inv e x Hin) as (k & i & s & E & Hx). destruct (Wid e HS k i s x E Hx) as (r & Hr & Hid & _).
    apply Hf. rewrite <- Hid. apply in_map. exact Hr.
Qed.

Lemma SU_op_open : forall e kind cap x, K e -> SU e -> ~ In x (map sl_id (e_slots e)) -> has_queue e kind cap = true ->
  SU (op_open e kind cap x).
Proof.
  intros e kind cap x HK HS Hf Hq. destruct (fresh_not_pending e x HK HS Hf) as [Hp0 Hw0].
  unfold has_queue in Hq. apply existsb_exists in Hq. destruct Hq as (q0 & Hq0 & Hm). apply andb_prop in Hm. destruct Hm as [Hk Hc]. apply Z.eqb_eq in Hk, Hc.
  unfold op_open. set (new := mkSlot x kind None false false 0 (mkLG [] O false)).
  set (e1 := set_slots e (e_slots e ++ [new])).
  assert (Hin1 : forall r, In r (e_slots e1) -> In r (e_slots e) \/ r = new).
  { intros r Hr. unfold e1 in Hr. cbn [set_slots e_slots] in Hr. apply in_app_or in Hr. destruct Hr as [Hr|[Hr|[]]]; auto. }
  set (g := fun q => mkQueue (q_kind q) (q_cap q) (q_idle q) (q_pend q ++ [x])).
  destruct HS as [u wid s1 s3 s4].
  assert (Hqs : forall q', In q' (e_qs (upd_queue e1 kind cap g)) -> exists q, In q (e_qs e) /\ (q' = q \/ q' = g q)).
  { intros q' H. destruct (in_upd_queue _ _ _ _ _ H) as (q & Hin & ->). exists q. split; [exact Hin|]. destruct (_ && _); auto. }
  constructor.
  - intros y. change (wlog_ids (upd_queue e1 kind cap g)) with (wlog_ids e).
    pose proof (pend_ids_upd y (e_qs e) kind cap g q0 (K2 e HK) Hq0 Hk Hc) as Hp.
    change (pend_ids (upd_queue e1 kind cap g)) with (flat_map q_pend (map (fun q => if qmatch kind cap q then g q else q) (e_qs e))).
    unfold g at 2 in Hp. cbn [q_pend] in Hp. rewrite cnt_app in Hp. fold (pend_ids e) in Hp. specialize (u y).
    destruct (Z.eq_dec y x) as [->|Hne].
    + rewrite cnt_cons_eq in Hp. cbn in Hp. lia.
    + rewrite cnt_cons_ne in Hp by congruence. cbn in Hp. lia.
  - intros k i s w E Hw. destruct (wid k i s w E Hw) as (r & Hr & A & B). exists r. split; [|auto].
    change (e_slots (upd_queue e1 kind cap g)) with (e_slots e ++ [new]). apply in_or_app. left. exact Hr.
  - intros r Hr Hs. change (e_slots (upd_queue e1 kind cap g)) with (e_slots e1) in Hr. destruct (Hin1 r Hr) as [Ho| ->]; [apply s1; assumption|reflexivity].
  - intros q' y r Hq' Hy Hr Hid. change (e_slots (upd_queue e1 kind cap g)) with (e_slots e1) in Hr.
    destruct (Hqs q' Hq') as (q & Hq & [->| ->]).
    + destruct (Hin1 r Hr) as [Ho| ->]; [eapply s3; eassumption|reflexivity].
    + cbn [g q_pend] in Hy. apply in_app_or in Hy. destruct Hy as [Hy|[<-|[]]].
      * destruct (Hin1 r Hr) as [Ho| ->]; [eapply s3; eassumption|reflexivity].
      * destruct (Hin1 r Hr) as [Ho| ->]; [|reflexivity]. exfalso. apply Hf. rewrite <- Hid. apply in_map. exact Ho.
  - intros k i s y E Hj. destruct (s4 k i s y E Hj) as [A B]. split; [exact A|].
    intros r Hr Hid. change (e_slots (upd_queue e1 kind cap g)) with (e_slots e1) in Hr. destruct (Hin1 r Hr) as [Ho| ->]; [apply B; assumption|reflexivity].
Qed.
Lemma slot_by_id : forall e x, In x (map sl_id (e_slots e)) -> exists r, In r (e_slots e) /\ sl_id r = x.
Proof. intros e x H. apply in_map_iff in H. destruct H as (r & A & B). exists r. auto. Qed.

(* queue_step up to the OPEN: the waiting handle x leaves the queue and is logged by the stream *)
Lemma SU_pop_push : forall e q0 i idle x pend', K e -> SU e -> In q0 (e_qs e) -> q_idle q0 = i :: idle -> q_pend q0 = x :: pend' ->
  SU (upd_stream (emit (upd_queue e (q_kind q0) (q_cap q0) (fun _ => mkQueue (q_kind q0) (q_cap q0) idle pend')) (mk_header FK_OPEN (kind_bits (q_kind q0)) i) None)
                 (q_kind q0) i (fun s => g_push (set_wph s (WJoin x)) x)).
Proof.
  intros e q0 i idle x pend' HK HS Hin0 Hi Hp.
  assert (Hi0 : In i (q_idle q0)) by (rewrite Hi; left; reflexivity).
  assert (Hx0 : In x (q_pend q0)) by (rewrite Hp; left; reflexivity).
  destruct (K3 e HK q0 i Hin0 Hi0) as (s & E & W & C & R).
  set (k := q_kind q0) in *. set (cap := q_cap q0) in *.
  set (g := fun _ : queue => mkQueue k cap idle pend').
  set (e1 := upd_queue e k cap g). set (e2 := emit e1 (mk_header FK_OPEN (kind_bits k) i) None).
  set (f := fun s0 => g_push (set_wph s0 (WJoin x)) x).
  assert (E2 : get_stream e2 k i = Some s) by (unfold e2; rewrite get_emit; exact E).
  assert (S2 : e_slots e2 = e_slots e) by (unfold e2; rewrite slots_emit; reflexivity).
  assert (Q2 : e_qs e2 = e_qs e1) by (unfold e2; rewrite qs_emit; reflexivity).
  assert (W2 : wlog_ids e2 = wlog_ids e).
  { unfold e2, emit. destruct (e_gone e1); reflexivity. }
  destruct HS as [u wid s1 s3 s4].
  assert (Hg3 : forall k' i' s', get_stream (upd_stream e2 k i f) k' i' = Some s' ->
            (same k i k' i' /\ s' = f s) \/ (other k i k' i' /\ get_stream e k' i' = Some s')).
  { intros k' i' s' E'. destruct (same_or_other k i k' i') as [Hs|Ho].
    - left. split; [exact Hs|]. rewrite (get_upd_same _ _ _ _ _ _ Hs) in E'. destruct Hs as [Hk ->].
      rewrite <- (get_same_table e2 k k' i' Hk), E2 in E'. cbn in E'. congruence.
    - right. split; [exact Ho|]. rewrite (get_upd_other _ _ _ _ _ _ Ho) in E'. unfold e2 in E'. rewrite get_emit in E'. exact E'. }
  assert (Hqs : forall q', In q' (e_qs e1) -> (In q' (e_qs e) /\ True) \/ q' = mkQueue k cap idle pend').
  { intros q' H. destruct (in_upd_queue _ _ _ _ _ H) as (q & Hq & ->). destruct (_ && _); [right; reflexivity|left; auto]. }
  constructor; rewrite ?slots_upd_stream, ?qs_upd_stream, ?S2, ?Q2.
  - intros y.
    pose proof (pend_ids_upd y (e_qs e) k cap g q0 (K2 e HK) Hin0 eq_refl eq_refl) as Hpe. rewrite Hp in Hpe. cbn [g q_pend] in Hpe. fold (pend_ids e) in Hpe.
    pose proof (wlog_ids_upd y e2 k i s f E2) as Hwe. rewrite W2 in Hwe.
    assert (Hsf : sids (f s) = x :: sids s) by reflexivity. rewrite Hsf in Hwe.
    assert (Hpe' : pend_ids (upd_stream e2 k i f) = flat_map q_pend (map (fun q => if qmatch k cap q then g q else q) (e_qs e))).
    { unfold pend_ids. rewrite qs_upd_stream, Q2. reflexivity. }
    rewrite Hpe'. specialize (u y). destruct (Z.eq_dec y x) as [->|Hne].
    + rewrite cnt_cons_eq in Hpe, Hwe. lia.
    + rewrite cnt_cons_ne in Hpe, Hwe by congruence. lia.
  - intros k' i' s' w E' Hw. destruct (Hg3 k' i' s' E') as [[[Hk _] ->]|[_ E0]]; [|apply (wid k' i' s' w E0 Hw)].
    change (sids (f s)) with (x :: sids s) in Hw. destruct Hw as [<-|Hw].
    + destruct (slot_by_id e x (K4e e HK q0 x Hin0 Hx0)) as (r & Hr & Hid). exists r. split; [exact Hr|]. split; [exact Hid|].
      rewrite (K4p e HK q0 x r Hin0 Hx0 Hr Hid). exact Hk.
    + destruct (wid k i s w E Hw) as (r & Hr & A & B). exists r. split; [exact Hr|]. split; [exact A|]. rewrite B. exact Hk.
  - exact s1.
  - intros q' y r Hq' Hy Hr Hid. destruct (Hqs q' Hq') as [[Hq _]| ->]; [eapply s3; eassumption|].
    cbn [q_pend] in Hy. apply (s3 q0 y r Hin0); [rewrite Hp; right; exact Hy|exact Hr|exact Hid].
  - intros k' i' s' y E' Hj. destruct (Hg3 k' i' s' E') as [[_ ->]|[_ E0]].
    + cbn in Hj. inversion Hj; subst y. split; [exists (sids s); reflexivity|]. intros r Hr Hid. apply (s3 q0 x r Hin0 Hx0 Hr Hid).
    + apply (s4 k' i' s' y E0 Hj).
Qed.

(* the hand-over: the handle x that was joining gets the stream *)
Lemma SU_handover : forall e k i s x, K e -> SU e -> get_stream e k i = Some s -> s_wph s = WJoin x -> SU (handover e k i x).
Proof.
  intros e k i s x HK HS E Hw. unfold handover. apply SU_add_event.
  set (inc := match get_stream e k i with Some s0 => g_rn (s_g s0) | None => O end).
  set (f := fun s0 => g_reader (set_wph (set_rph s0 RApp) WApp)).
  set (g := fun r => mkSlot (sl_id r) (sl_kind r) (Some i) true true (sl_woff r) (mkLG [] inc false)).
  set (e1 := upd_stream e k i f).
  assert (Hj : joinx s = Some x) by (unfold joinx; rewrite Hw; reflexivity).
  destruct (S4 e HS k i s x E Hj) as [(rest & Hrest) Hnone].
  assert (Hxin : In x (sids s)) by (rewrite Hrest; left; reflexivity).
  (* x occurs nowhere else *)
  assert (Hnp : cnt x (pend_ids e) = O) by (pose proof (U e HS x); pose proof (wlog_ids_in e k i s x E Hxin); lia).
  assert (Hother : forall k' i' s', get_stream e k' i' = Some s' -> other k i k' i' -> ~ In x (sids s')).
  { intros k' i' s' E' Ho Hx'. pose proof (wlog_ids_two e k i k' i' s s' x E E' Ho Hxin Hx'). pose proof (U e HS x). lia. }
  destruct HS as [u wid s1 s3 s4].
  assert (Hg1 : forall k' i' s', get_stream e1 k' i' = Some s' ->
            (same k i k' i' /\ s' = f s) \/ (other k i k' i' /\ get_stream e k' i' = Some s')).
  { intros k' i' s' E'. destruct (same_or_other k i k' i') as [Hs|Ho].
    - left. split; [exact Hs|]. unfold e1 in E'. rewrite (get_upd_same _ _ _ _ _ _ Hs) in E'. destruct Hs as [Hk ->].
      rewrite <- (get_same_table e k k' i' Hk), E in E'. cbn in E'. congruence.
    - right. split; [exact Ho|]. unfold e1 in E'. rewrite (get_upd_other _ _ _ _ _ _ Ho) in E'. exact E'. }
  assert (Hsl : forall r', In r' (e_slots (upd_slot e1 x g)) -> exists r, In r (e_slots e) /\ ((sl_id r <> x /\ r' = r) \/ (sl_id r = x /\ r' = g r))).
  { intros r' H. destruct (in_upd_slot _ _ _ _ H) as (r & Hr & ->). unfold e1 in Hr. rewrite slots_upd_stream in Hr. exists r. split; [exact Hr|].
    destruct (sl_id r =? x) eqn:Ex; [apply Z.eqb_eq in Ex; right; auto|apply Z.eqb_neq in Ex; left; auto]. }
  assert (Hw1 : wlog_ids (upd_slot e1 x g) = wlog_ids e).
  { change (wlog_ids (upd_slot e1 x g)) with (wlog_ids e1). unfold wlog_ids, e1, upd_stream, set_table, table.
    destruct (k =? 0); cbn [set_acc set_con e_acc e_con]; f_equal; apply tids_map; apply map_upd_nth_same; intros s0 _; reflexivity. }
  constructor.
  - intros y. rewrite Hw1. change (pend_ids (upd_slot e1 x g)) with (pend_ids e1). unfold pend_ids, e1. rewrite qs_upd_stream. apply u.
  - intros k' i' s' w E' Hw'. change (get_stream (upd_slot e1 x g) k' i') with (get_stream e1 k' i') in E'.
    assert (Hex : exists r, In r (e_slots e) /\ sl_id r = w /\ (sl_kind r =? 0) = (k' =? 0)).
    { destruct (Hg1 k' i' s' E') as [[[Hk ->] ->]|[_ E0]]; [|apply (wid k' i' s' w E0 Hw')].
      change (sids (f s)) with (sids s) in Hw'. destruct (wid k i' s w E Hw') as (r & A & B & C). exists r. rewrite C, Hk. auto. }
    destruct Hex as (r & Hr & A & B). destruct (sl_id r =? x) eqn:Ex.
    + exists (g r). split; [|cbn [g sl_id sl_kind]; auto]. unfold upd_slot. cbn [set_slots e_slots]. apply in_map_iff. exists r. rewrite Ex. split; [reflexivity|].
      unfold e1. rewrite slots_upd_stream. exact Hr.
    + exists r. split; [|auto]. unfold upd_slot. cbn [set_slots e_slots]. apply in_map_iff. exists r. rewrite Ex. split; [reflexivity|].
      unfold e1. rewrite slots_upd_stream. exact Hr.
  - intros r' Hr' Hs'. destruct (Hsl r' Hr') as (r & Hr & [[Hne ->]|[He ->]]); [apply s1; assumption|discriminate].
  - intros q y r' Hq Hy Hr' Hid. change (e_qs (upd_slot e1 x g)) with (e_qs e1) in Hq. unfold e1 in Hq. rewrite qs_upd_stream in Hq.
    destruct (Hsl r' Hr') as (r & Hr & [[Hne ->]|[He ->]]); [eapply s3; eassumption|].
    exfalso. cbn [g sl_id] in Hid. rewrite <- Hid, He in Hy.
    assert (Hxp : In x (pend_ids e)) by (unfold pend_ids; apply in_flat_map; exists q; split; assumption). pose proof (cnt_in x _ Hxp). lia.
  - intros k' i' s' y E' Hj'. change (get_stream (upd_slot e1 x g) k' i') with (get_stream e1 k' i') in E'.
    destruct (Hg1 k' i' s' E') as [[_ ->]|[Ho E0]]; [cbn in Hj'; discriminate|].
    destruct (s4 k' i' s' y E0 Hj') as [(rest' & Hr') Hall]. split; [exists rest'; exact Hr'|].
    intros r' Hr'' Hid. destruct (Hsl r' Hr'') as (r & Hr & [[Hne ->]|[He ->]]); [apply Hall; assumption|].
    exfalso. cbn [g sl_id] in Hid. apply (Hother k' i' s' E0 Ho). rewrite Hr'. left. congruence.
Qed.
Lemma SU_upd_at : forall e k i s f, SU e -> get_stream e k i = Some s -> su_stream (f s) = su_stream s -> SU (upd_stream e k i f).
Proof.
  intros e k i s f HS E Hf. rewrite (upd_stream_const e k i s f E).
  assert (Hm : forall l : list rstream, nth_error l i = Some s -> map su_stream (upd_nth i (fun _ => f s) l) = map su_stream l).
  { intros l Hl. apply map_upd_nth_same. intros s0 E0. congruence. }
  apply (SU_same e); [rewrite qs_upd_stream; reflexivity|rewrite slots_upd_stream; reflexivity| | |exact HS];
    unfold get_stream, table in E; unfold upd_stream, set_table, table; destruct (k =? 0); cbn [set_acc set_con e_acc e_con]; try reflexivity; apply Hm; exact E.
Qed.

Lemma SU_upd_slot_at : forall e x g, SU e -> (forall r, In r (e_slots e) -> sl_id r = x -> su_slot (g r) = su_slot r) -> SU (upd_slot e x g).
Proof.
  intros e x g HS Hg. apply (SU_same e); try reflexivity; [|exact HS].
  unfold upd_slot. cbn [set_slots e_slots]. rewrite map_map. apply map_ext_in. intros r Hr. destruct (sl_id r =? x) eqn:Ex; [|reflexivity].
  apply Hg; [exact Hr|apply Z.eqb_eq; exact Ex].
Qed.

Lemma SU_complete_read : forall e k i p, SU e -> SU (complete_read e k i p).
Proof.
  intros. unfold complete_read. apply SU_add_event, SU_upd_slot_neutral; [|intros r; reflexivity].
  apply SU_upd_stream_neutral; [assumption|intros s; reflexivity].
Qed.

Lemma SU_read_iter : forall e k i s p e', SU e -> get_stream e k i = Some s -> read_iter e k i s p = Some e' -> SU e'.
Proof.
  intros e k i s p e' HS E H. unfold read_iter in H. destruct (read_iter_s s p) as [|s' rel done] eqn:Er; [discriminate|].
  inversion H; subst e'. clear H.
  assert (Hm : SU (fold_left release rel (upd_stream e k i (fun _ => s')))).
  { apply SU_fold_release. apply (SU_upd_at e k i s (fun _ => s') HS E).
    destruct (read_iter_s_keep _ _ _ _ _ Er) as [(A & _ & _) B]. unfold su_stream, sids, joinx. rewrite A, B. reflexivity. }
  destruct done; [|exact Hm]. destruct (s_pread s'); [|exact Hm]. apply SU_complete_read. exact Hm.
Qed.

Lemma SU_after_close : forall e k i s, SU e -> get_stream e k i = Some s -> s_wph s = WApp -> SU (after_close e k i).
Proof.
  intros e k i s HS E Hw. unfold after_close. rewrite E. destruct (k =? 0).
  - apply (SU_upd_at e k i s _ HS E). unfold su_stream, joinx. cbn. rewrite Hw. reflexivity.
  - apply SU_enqueue_idle. apply (SU_upd_at e k i s _ HS E). unfold su_stream, joinx. cbn. rewrite Hw. reflexivity.
Qed.

Lemma SU_send_close : forall e k i s, SU e -> get_stream e k i = Some s -> s_wph s = WApp -> SU (send_close e k i).
Proof.
  intros e k i s HS E Hw. unfold send_close. rewrite E.
  set (e1 := match s_wbuf s with [] => e | b => emit_data e k i [b] end).
  assert (H1 : SU e1) by (unfold e1; destruct (s_wbuf s); [exact HS|apply SU_emit_data; exact HS]).
  assert (G1 : exists s1, get_stream e1 k i = Some s1 /\ s_wph s1 = WApp).
  { unfold e1. destruct (s_wbuf s); [exists s; auto|]. rewrite get_emit_data_same, E. cbn [option_map]. eexists. split; [reflexivity|exact Hw]. }
  destruct G1 as (s1 & G1 & Hw1).
  set (e2 := upd_stream e1 k i (fun s0 => set_wbuf s0 [])).
  assert (H2 : SU e2) by (apply SU_upd_stream_neutral; [exact H1|intros s0; reflexivity]).
  assert (G2 : get_stream e2 k i = Some (set_wbuf s1 [])) by (unfold e2; rewrite get_upd, Bool.eqb_reflx, Nat.eqb_refl, G1; reflexivity).
  apply (SU_after_close _ k i (set_wbuf s1 [])); [apply SU_emit; exact H2|rewrite get_emit; exact G2|exact Hw1].
Qed.

Lemma SU_stream_step : forall e k i e', K e -> SU e -> stream_step e k i = Some e' -> SU e'.
Proof.
  intros e k i e' HK HS H. unfold stream_step in H. destruct (get_stream e k i) as [s|] eqn:E; [|discriminate].
  assert (Hmain : (match s_rph s, s_wph s with
                   | RReady, WWaitOpen => Some (enqueue_idle (upd_stream e k i (fun s => set_wph s WQueue)) k (s_cap s) i)
                   | RReady, WJoin slot => Some (handover e k i slot)
                   | _, _ => None
                   end) = Some e' -> SU e').
  { intros Hm. destruct (s_rph s); try discriminate. destruct (s_wph s) eqn:Ew; try discriminate; inversion Hm; subst e'.
    - apply SU_enqueue_idle. apply (SU_upd_at e k i s _ HS E). unfold su_stream, joinx. cbn. rewrite Ew. reflexivity.
    - apply (SU_handover e k i s slot HK HS E Ew). }
  assert (Hdisc : forall f t, SU (release (upd_stream e k i (fun _ => if fkind f =? FK_OPEN then g_open_seen (set_rph (set_inq s t) RReady) else set_inq s t)) f)).
  { intros f t. apply SU_release. apply (SU_upd_at e k i s _ HS E). destruct (fkind f =? FK_OPEN); reflexivity. }
  destruct (s_rph s) eqn:Er; destruct (s_inq s) as [|f t] eqn:Eq; destruct (s_pread s) as [p|] eqn:Ep;
    try (eapply SU_read_iter; eassumption); try (apply Hmain; exact H); try discriminate;
    try (inversion H; subst e'; apply Hdisc).
Qed.

Lemma SU_queue_step : forall e q e', K e -> SU e -> In q (e_qs e) -> queue_step e q = Some e' -> SU e'.
Proof.
  intros e q e' HK HS Hin H. unfold queue_step in H.
  destruct (q_idle q) as [|i idle] eqn:Ei; [discriminate|]. destruct (q_pend q) as [|x pend'] eqn:Ep; [discriminate|].
  pose proof (SU_pop_push e q i idle x pend' HK HS Hin Ei Ep) as H3.
  pose proof (K_pop_push e q i idle x pend' HK Hin Ei Ep) as K3'.
  set (e3 := upd_stream _ (q_kind q) i (fun s => g_push (set_wph s (WJoin x)) x)) in *.
  destruct (q_kind q =? 0) eqn:Ek; inversion H; subst e'; [|exact H3].
  assert (Hi : In i (q_idle q)) by (rewrite Ei; left; reflexivity).
  destruct (K3 e HK q i Hin Hi) as (s & E & W & C & R).
  assert (E3 : get_stream e3 (q_kind q) i = Some (g_push (set_wph s (WJoin x)) x)).
  { unfold e3. rewrite get_upd, Bool.eqb_reflx, Nat.eqb_refl, get_emit. change (get_stream (upd_queue e _ _ _) (q_kind q) i) with (get_stream e (q_kind q) i). rewrite E. reflexivity. }
  apply (SU_handover e3 (q_kind q) i _ x K3' H3 E3). reflexivity.
Qed.

Lemma SU_drain_step : forall e k i e', SU e -> drain_step e k i = Some e' -> SU e'.
Proof.
  intros e k i e' HS H. unfold drain_step in H. destruct (get_stream e k i) as [s|] eqn:E; [|discriminate].
  destruct (s_rph s); try discriminate. destruct (s_pread s) as [p|]; [|discriminate].
  destruct (read_iter e k i s p) as [e1|] eqn:Er; inversion H; subst e'.
  - eapply SU_read_iter; eassumption.
  - apply SU_complete_read. exact HS.
Qed.

Lemma SU_slot_op : forall e o r, K e -> SU e -> In r (e_slots e) -> SU (slot_op e o r).
Proof.
  intros e o r HK HS Hin. unfold slot_op. destruct (sl_sid r) as [i|] eqn:Es; [|apply SU_skip; exact HS].
  destruct (get_stream e (sl_kind r) i) as [s|] eqn:E; [|apply SU_skip; exact HS].
  destruct (K5 e HK r i Hin Es) as (s0 & E0 & W0 & R0). assert (s0 = s) by congruence. subst s0.
  destruct o; try exact HS.
  - destruct (sl_w r); [|apply SU_skip; exact HS]. unfold op_write. destruct (write_all _ _ _) as [frames buf].
    apply SU_upd_slot_at.
    + apply SU_upd_stream_neutral; [apply SU_emit_data; exact HS|intros s1; reflexivity].
    + intros r1 Hr1 Hid. rewrite slots_upd_stream, slots_emit_data in Hr1.
      assert (r1 = r) by (apply (slot_unique e r1 r HK Hr1 Hin Hid)). subst r1. unfold su_slot. cbn [sl_id sl_kind sl_sid sl_woff]. rewrite Es. reflexivity.
  - destruct (sl_w r); [|apply SU_skip; exact HS]. unfold op_flush. destruct (s_wbuf s); [exact HS|].
    apply SU_upd_stream_neutral; [apply SU_emit_data; exact HS|intros s1; reflexivity].
  - destruct (sl_r r && negb _); [|apply SU_skip; exact HS]. unfold op_read. apply SU_upd_stream_neutral; [exact HS|intros s1; reflexivity].
  - destruct (sl_w r) eqn:Ew; [|apply SU_skip; exact HS]. unfold op_dropw.
    apply (SU_send_close _ (sl_kind r) i s); [apply SU_upd_slot_neutral; [exact HS|intros r1; reflexivity]|exact E|apply W0; reflexivity].
  - destruct (sl_r r && negb _); [|apply SU_skip; exact HS]. unfold op_dropr.
    apply SU_upd_stream_neutral; [|intros s1; reflexivity].
    destruct (s_cache s); [apply SU_release|]; (apply SU_upd_slot_neutral; [exact HS|intros r1; reflexivity]).
Qed.
(* ---- reader links under the transitions that touch them ---- *)
Lemma read_iter_s_rl : forall s p s' rel done, s_pread s = Some p -> read_iter_s s p = RStep s' rel done ->
  s_rph s' = s_rph s /\
  exists p' d, s_pread s' = Some p' /\ pr_slot p' = pr_slot p /\ pendb s' = pendb s ++ d /\ rdb s' = rdb s ++ d.
Proof.
  intros s p s' rel done Hp H. unfold read_iter_s in H.
  destruct (s_closed s). { inversion H; subst. split; [reflexivity|]. exists p, []. rewrite !app_nil_r. auto. }
  assert (Hgen : forall f s1, s_rph s1 = s_rph s -> s_pread s1 = Some p -> s_g s1 = s_g s ->
    (if fkind f =? FK_CLOSE then RStep (set_closed s1 true) [f] false
      else if fkind f =? FK_DATA then
        let n := Z.to_nat (Z.min (pr_want p - pr_len p) (Z.of_nat (length (fdata f)))) in
        let got := firstn n (fdata f) in
        let rest := skipn n (fdata f) in
        let p' := mkPread (pr_slot p) (pr_want p) (pr_len p + Z.of_nat n) (got :: pr_chunks p) in
        let s2 := g_chunk (set_pread s1 (Some p')) got in
        let done := pr_len p' =? pr_want p in
        match rest with
        | [] => RStep s2 [f] done
        | _ => RStep (set_cache s2 (Some (mkFrame (fkind f) rest (fsize f)))) [] done
        end
      else RStep s1 [f] false) = RStep s' rel done ->
    s_rph s' = s_rph s /\
    exists p' d, s_pread s' = Some p' /\ pr_slot p' = pr_slot p /\ pendb s' = pendb s ++ d /\ rdb s' = rdb s ++ d).
  { intros f s1 Hr1 Hp1 Hg1 HH.
    assert (Hsame : forall sx, s_rph sx = s_rph s -> s_pread sx = Some p -> s_g sx = s_g s ->
              s_rph sx = s_rph s /\ exists p' d, s_pread sx = Some p' /\ pr_slot p' = pr_slot p /\ pendb sx = pendb s ++ d /\ rdb sx = rdb s ++ d).
    { intros sx A B C. split; [exact A|]. exists p, []. unfold pendb, rdb. rewrite B, Hp, C, !app_nil_r. auto. }
    destruct (fkind f =? FK_CLOSE); [inversion HH; subst; apply Hsame; assumption|].
    destruct (fkind f =? FK_DATA); [|inversion HH; subst; apply Hsame; assumption].
    cbv zeta in HH. set (n := Z.to_nat _) in *.
    assert (Hd : forall sx, s_rph sx = s_rph s -> s_pread sx = Some (mkPread (pr_slot p) (pr_want p) (pr_len p + Z.of_nat n) (firstn n (fdata f) :: pr_chunks p)) ->
               g_rdc (s_g sx) = firstn n (fdata f) :: g_rdc (s_g s) ->
               s_rph sx = s_rph s /\ exists p' d, s_pread sx = Some p' /\ pr_slot p' = pr_slot p /\ pendb sx = pendb s ++ d /\ rdb sx = rdb s ++ d).
    { intros sx A B C. split; [exact A|]. eexists. exists (firstn n (fdata f)). split; [exact B|]. split; [reflexivity|].
      unfold pendb, rdb. rewrite B, Hp, C. cbn [pr_chunks]. rewrite chunks_bytes_cons. cbn [rev]. rewrite concat_app. cbn [concat]. rewrite app_nil_r. auto. }
    destruct (skipn n (fdata f)); inversion HH; subst; apply Hd; cbn; try rewrite Hg1; auto. }
  destruct (s_cache s) as [fc|]; [apply (Hgen fc (set_cache s None)); auto|].
  destruct (s_inq s) as [|f t]; [discriminate|]. apply (Hgen f (set_inq s t)); auto.
Qed.

Lemma RL_complete_read : forall e k i s p, RL e -> K e -> get_stream e k i = Some s -> s_pread s = Some p ->
  RL (complete_read e k i p).
Proof.
  intros e k i s p HR HK E Hp. unfold complete_read. apply RL_add_event.
  destruct (R1 e HR k i s p E Hp) as (r0 & Hr0 & Hid0 & Hrr0 & Hsid0 & Hk0).
  set (data := concat (rev (pr_chunks p))).
  set (e1 := upd_stream e k i (fun s0 => set_pread s0 None)).
  set (g := fun r => mkSlot (sl_id r) (sl_kind r) (sl_sid r) (sl_r r) (sl_w r) (sl_woff r) (mkLG (data :: g_rd (sl_g r)) (g_inc (sl_g r)) (g_eos (sl_g r) || (pr_len p <? pr_want p)))).
  assert (Hsl : forall r', In r' (e_slots (upd_slot e1 (pr_slot p) g)) -> exists r, In r (e_slots e) /\ ((r = r0 /\ r' = g r0) \/ (sl_id r <> pr_slot p /\ r' = r))).
  { intros r' H. destruct (in_upd_slot _ _ _ _ H) as (r & Hr & ->). unfold e1 in Hr. rewrite slots_upd_stream in Hr. exists r. split; [exact Hr|].
    destruct (sl_id r =? pr_slot p) eqn:Ex; [apply Z.eqb_eq in Ex; left|apply Z.eqb_neq in Ex; right; auto].
    assert (r = r0) by (apply (slot_unique e r r0 HK Hr Hr0); congruence). subst r. auto. }
  assert (Hg1 : forall k' i' s', get_stream (upd_slot e1 (pr_slot p) g) k' i' = Some s' ->
            (same k i k' i' /\ s' = set_pread s None) \/ (other k i k' i' /\ get_stream e k' i' = Some s')).
  { intros k' i' s' E'. change (get_stream (upd_slot e1 (pr_slot p) g) k' i') with (get_stream e1 k' i') in E'. unfold e1 in E'.
    destruct (same_or_other k i k' i') as [Hs|Ho].
    - left. split; [exact Hs|]. rewrite (get_upd_same _ _ _ _ _ _ Hs) in E'. destruct Hs as [Hk ->].
      rewrite <- (get_same_table e k k' i' Hk), E in E'. cbn in E'. congruence.
    - right. split; [exact Ho|]. rewrite (get_upd_other _ _ _ _ _ _ Ho) in E'. exact E'. }
  assert (Hin0 : In (g r0) (e_slots (upd_slot e1 (pr_slot p) g))).
  { unfold upd_slot. cbn [set_slots e_slots]. apply in_map_iff. exists r0. rewrite Hid0, Z.eqb_refl. split; [reflexivity|]. unfold e1. rewrite slots_upd_stream. exact Hr0. }
  constructor.
  - intros k' i' s' p' E' Hp'. destruct (Hg1 k' i' s' E') as [[_ ->]|[Ho E0]]; [discriminate|].
    destruct (R1 e HR k' i' s' p' E0 Hp') as (r & Hr & A & B & C & D).
    destruct (Z.eq_dec (sl_id r) (pr_slot p)) as [Heq|Hne].
    + assert (r = r0) by (apply (slot_unique e r r0 HK Hr Hr0); congruence). subst r. exists (g r0). cbn [g sl_id sl_r sl_sid sl_kind]. auto.
    + exists r. split; [|auto]. unfold upd_slot. cbn [set_slots e_slots]. apply in_map_iff. exists r.
      apply Z.eqb_neq in Hne. rewrite Hne. split; [reflexivity|]. unfold e1. rewrite slots_upd_stream. exact Hr.
  - intros r' i' s' Hr' Hrr Hsid E'. destruct (Hsl r' Hr') as (r & Hr & [[-> ->]|[Hne ->]]).
    + cbn [g sl_kind sl_sid sl_r] in *. destruct (Hg1 _ i' s' E') as [[[Hk Hi] ->]|[Ho E0]].
      * unfold returned, pendb, rdb. cbn [g sl_g g_rd set_pread s_pread s_g]. rewrite chunks_bytes_cons, app_nil_r.
        pose proof (R2 e HR r0 i s Hr0 Hrr0 Hsid0) as H2. rewrite (get_same_table e _ k i Hk0) in H2. specialize (H2 E).
        unfold returned, pendb, rdb in H2. rewrite Hp in H2. exact H2.
      * exfalso. apply (same_not_other k i (sl_kind r0) i'); [split; [symmetry; exact Hk0|congruence]|exact Ho].
    + destruct (Hg1 _ i' s' E') as [[[Hk Hi] ->]|[Ho E0]]; [|apply (R2 e HR r i' s' Hr Hrr Hsid E0)].
      (* another reader of the same stream: the same handle *)
      exfalso. apply Hne. subst i'. rewrite <- Hid0. symmetry.
      destruct (K5 e HK r0 i Hr0 Hsid0) as (sa & Ea & _ & Ra). destruct (K5 e HK r i Hr Hsid) as (sb & Eb & _ & Rb).
      apply (K6 e HK r0 r i Hr0 Hr Hsid0 Hsid); [rewrite Hk0; exact Hk|unfold live; rewrite Hrr0; reflexivity|unfold live; rewrite Hrr; reflexivity].
  - intros k' i' s' E' Hph. destruct (Hg1 k' i' s' E') as [[_ ->]|[_ E0]]; [reflexivity|apply (R4 e HR k' i' s' E0 Hph)].
Qed.
Lemma RL_read_iter : forall e k i s p e', RL e -> K e -> get_stream e k i = Some s -> s_rph s = RApp -> s_pread s = Some p ->
  read_iter e k i s p = Some e' -> RL e'.
Proof.
  intros e k i s p e' HR HK E Hph Hp H. unfold read_iter in H. destruct (read_iter_s s p) as [|s' rel done] eqn:Er; [discriminate|].
  inversion H; subst e'. clear H.
  destruct (read_iter_s_rl s p s' rel done Hp Er) as (Hph' & p' & d & Hp' & Hsl & Hpb & Hrb).
  set (e1 := upd_stream e k i (fun _ => s')).
  assert (H1 : RL e1).
  { apply (RL_upd_stream e k i s (fun _ => s') HR HK E).
    - intros p0 Hp0. left. exists p. split; [exact Hp|]. congruence.
    - intros r Hr Hrr Hsid Hk. rewrite Hpb, Hrb, app_assoc. f_equal.
      pose proof (R2 e HR r i s Hr Hrr Hsid) as H2. rewrite (get_same_table e _ k i Hk) in H2. exact (H2 E).
    - intros Hx. exfalso. apply Hx. congruence. }
  assert (K1' : K e1).
  { apply (K_upd_const_neutral e k i s s' HK E). destruct (read_iter_s_ctl _ _ _ _ _ Er) as (A & B & C). unfold sctl. congruence. }
  assert (Hm : RL (fold_left release rel e1)) by (apply RL_fold_release; exact H1).
  destruct done; [|exact Hm]. rewrite Hp'.
  assert (Em : get_stream (fold_left release rel e1) k i = Some s').
  { rewrite get_fold_release. unfold e1. rewrite get_upd, Bool.eqb_reflx, Nat.eqb_refl, E. reflexivity. }
  apply (RL_complete_read _ k i s' p' Hm); [apply K_fold_release; exact K1'|exact Em|exact Hp'].
Qed.

Lemma RL_handover : forall e k i s x, RL e -> K e -> SU e -> get_stream e k i = Some s -> s_wph s = WJoin x -> s_rph s = RReady ->
  RL (handover e k i x).
Proof.
  intros e k i s x HR HK HS E Hw Hr. unfold handover. apply RL_add_event.
  set (inc := match get_stream e k i with Some s0 => g_rn (s_g s0) | None => O end).
  set (f := fun s0 => g_reader (set_wph (set_rph s0 RApp) WApp)).
  set (g := fun r => mkSlot (sl_id r) (sl_kind r) (Some i) true true (sl_woff r) (mkLG [] inc false)).
  set (e1 := upd_stream e k i f).
  assert (Hj : joinx s = Some x) by (unfold joinx; rewrite Hw; reflexivity).
  destruct (S4 e HS k i s x E Hj) as [_ Hnone].
  assert (Hpn : s_pread s = None) by (apply (R4 e HR k i s E); rewrite Hr; discriminate).
  assert (Hkc : forall r, In r (e_slots e) -> sl_id r = x -> (sl_kind r =? 0) = (k =? 0)) by (intros r Hr0 Hid; apply (K4j e HK k i s x r E Hw Hr0 Hid)).
  assert (Hg1 : forall k' i' s', get_stream e1 k' i' = Some s' ->
            (same k i k' i' /\ s' = f s) \/ (other k i k' i' /\ get_stream e k' i' = Some s')).
  { intros k' i' s' E'. destruct (same_or_other k i k' i') as [Hs|Ho].
    - left. split; [exact Hs|]. unfold e1 in E'. rewrite (get_upd_same _ _ _ _ _ _ Hs) in E'. destruct Hs as [Hk ->].
      rewrite <- (get_same_table e k k' i' Hk), E in E'. cbn in E'. congruence.
    - right. split; [exact Ho|]. unfold e1 in E'. rewrite (get_upd_other _ _ _ _ _ _ Ho) in E'. exact E'. }
  assert (Hsl : forall r', In r' (e_slots (upd_slot e1 x g)) -> exists r, In r (e_slots e) /\ ((sl_id r <> x /\ r' = r) \/ (sl_id r = x /\ r' = g r))).
  { intros r' H. destruct (in_upd_slot _ _ _ _ H) as (r & Hr0 & ->). unfold e1 in Hr0. rewrite slots_upd_stream in Hr0. exists r. split; [exact Hr0|].
    destruct (sl_id r =? x) eqn:Ex; [apply Z.eqb_eq in Ex; right; auto|apply Z.eqb_neq in Ex; left; auto]. }
  constructor.
  - intros k' i' s' p' E' Hp'. change (get_stream (upd_slot e1 x g) k' i') with (get_stream e1 k' i') in E'.
    destruct (Hg1 k' i' s' E') as [[_ ->]|[_ E0]]; [cbn in Hp'; congruence|].
    destruct (R1 e HR k' i' s' p' E0 Hp') as (r & Hr0 & A & B & C & D).
    assert (Hne : sl_id r <> x) by (intros Hx; rewrite (Hnone r Hr0 Hx) in C; discriminate).
    exists r. split; [|auto]. unfold upd_slot. cbn [set_slots e_slots]. apply in_map_iff. exists r. apply Z.eqb_neq in Hne. rewrite Hne.
    split; [reflexivity|]. unfold e1. rewrite slots_upd_stream. exact Hr0.
  - intros r' i' s' Hr' Hrr Hsid E'. change (get_stream (upd_slot e1 x g) (sl_kind r') i') with (get_stream e1 (sl_kind r') i') in E'.
    destruct (Hsl r' Hr') as (r & Hr0 & [[Hne ->]|[He ->]]).
    + destruct (Hg1 _ i' s' E') as [[[Hk Hi] ->]|[_ E0]]; [|apply (R2 e HR r i' s' Hr0 Hrr Hsid E0)].
      exfalso. subst i'. destruct (K5 e HK r i Hr0 Hsid) as (sa & Ea & _ & Ra). rewrite (get_same_table e _ k i (eq_sym Hk)) in Ea.
      assert (sa = s) by congruence. subst sa. rewrite (Ra Hrr) in Hr. discriminate.
    + cbn [g sl_kind sl_sid] in *. inversion Hsid; subst i'.
      rewrite (get_same_table e1 _ k i (Hkc r Hr0 He)) in E'. destruct (Hg1 k i s' E') as [[_ ->]|[Ho _]].
      * unfold returned, pendb, rdb. cbn. rewrite Hpn. reflexivity.
      * exfalso. apply (same_not_other k i k i); [split; reflexivity|exact Ho].
  - intros k' i' s' E' Hph. change (get_stream (upd_slot e1 x g) k' i') with (get_stream e1 k' i') in E'.
    destruct (Hg1 k' i' s' E') as [[_ ->]|[_ E0]]; [exfalso; apply Hph; reflexivity|apply (R4 e HR k' i' s' E0 Hph)].
Qed.

Lemma RL_op_open : forall e kind cap x, RL e -> RL (op_open e kind cap x).
Proof.
  intros e kind cap x [r1 r2 r4]. unfold op_open. apply RL_upd_queue.
  set (new := mkSlot x kind None false false 0 (mkLG [] O false)).
  constructor; cbn [set_slots e_slots].
  - intros k i s p E Hp. destruct (r1 k i s p E Hp) as (r & Hr & A). exists r. split; [apply in_or_app; left; exact Hr|exact A].
  - intros r i s Hr Hrr Hsid E. apply in_app_or in Hr. destruct Hr as [Hr|[<-|[]]]; [apply (r2 r i s Hr Hrr Hsid E)|discriminate].
  - exact r4.
Qed.

Lemma RL_stream_step : forall e k i e', RL e -> K e -> SU e -> stream_step e k i = Some e' -> RL e'.
Proof.
  intros e k i e' HR HK HS H. unfold stream_step in H. destruct (get_stream e k i) as [s|] eqn:E; [|discriminate].
  assert (Hmain : (match s_rph s, s_wph s with
                   | RReady, WWaitOpen => Some (enqueue_idle (upd_stream e k i (fun s => set_wph s WQueue)) k (s_cap s) i)
                   | RReady, WJoin slot => Some (handover e k i slot)
                   | _, _ => None
                   end) = Some e' -> RL e').
  { intros Hm. destruct (s_rph s) eqn:Er; try discriminate. destruct (s_wph s) eqn:Ew; try discriminate; inversion Hm; subst e'.
    - apply RL_enqueue_idle, RL_upd_stream_neutral; [exact HR|intros s0; reflexivity].
    - apply (RL_handover e k i s slot HR HK HS E Ew Er). }
  assert (Hdisc : forall f t, s_rph s = RDiscard ->
            RL (release (upd_stream e k i (fun _ => if fkind f =? FK_OPEN then g_open_seen (set_rph (set_inq s t) RReady) else set_inq s t)) f)).
  { intros f t Er. apply RL_release.
    assert (Hpn : s_pread s = None) by (apply (R4 e HR k i s E); rewrite Er; discriminate).
    apply (RL_upd_stream e k i s _ HR HK E).
    - intros p' Hp'. exfalso. destruct (fkind f =? FK_OPEN); cbn in Hp'; congruence.
    - intros r Hr Hrr Hsid Hk. exfalso. destruct (K5 e HK r i Hr Hsid) as (sa & Ea & _ & Ra). rewrite (get_same_table e _ k i Hk) in Ea.
      assert (sa = s) by congruence. subst sa. rewrite (Ra Hrr) in Er. discriminate.
    - intros _. destruct (fkind f =? FK_OPEN); cbn; exact Hpn. }
  destruct (s_rph s) eqn:Er; destruct (s_inq s) as [|f t] eqn:Eq; destruct (s_pread s) as [p|] eqn:Ep;
    try (eapply (RL_read_iter e k i s p e' HR HK E Er Ep H)); try (apply Hmain; exact H); try discriminate;
    try (inversion H; subst e'; apply Hdisc; reflexivity).
Qed.

Lemma RL_queue_step : forall e q e', RL e -> K e -> SU e -> In q (e_qs e) -> queue_step e q = Some e' -> RL e'.
Proof.
  intros e q e' HR HK HS Hin H. unfold queue_step in H.
  destruct (q_idle q) as [|i idle] eqn:Ei; [discriminate|]. destruct (q_pend q) as [|x pend'] eqn:Ep; [discriminate|].
  pose proof (SU_pop_push e q i idle x pend' HK HS Hin Ei Ep) as S3'.
  pose proof (K_pop_push e q i idle x pend' HK Hin Ei Ep) as K3'.
  assert (R3' : RL (upd_stream (emit (upd_queue e (q_kind q) (q_cap q) (fun _ => mkQueue (q_kind q) (q_cap q) idle pend')) (mk_header FK_OPEN (kind_bits (q_kind q)) i) None)
                                (q_kind q) i (fun s => g_push (set_wph s (WJoin x)) x))).
  { apply RL_upd_stream_neutral; [apply RL_emit, RL_upd_queue; exact HR|intros s; reflexivity]. }
  set (e3 := upd_stream _ (q_kind q) i (fun s => g_push (set_wph s (WJoin x)) x)) in *.
  destruct (q_kind q =? 0) eqn:Ek; inversion H; subst e'; [|exact R3'].
  assert (Hi : In i (q_idle q)) by (rewrite Ei; left; reflexivity).
  destruct (K3 e HK q i Hin Hi) as (s & E & W & C & R).
  assert (E3 : get_stream e3 (q_kind q) i = Some (g_push (set_wph s (WJoin x)) x)).
  { unfold e3. rewrite get_upd, Bool.eqb_reflx, Nat.eqb_refl, get_emit. change (get_stream (upd_queue e _ _ _) (q_kind q) i) with (get_stream e (q_kind q) i). rewrite E. reflexivity. }
  apply (RL_handover e3 (q_kind q) i _ x R3' K3' S3' E3); [reflexivity|cbn; apply R; exact Ek].
Qed.
Lemma RL_drain_step : forall e k i e', RL e -> K e -> drain_step e k i = Some e' -> RL e'.
Proof.
  intros e k i e' HR HK H. unfold drain_step in H. destruct (get_stream e k i) as [s|] eqn:E; [|discriminate].
  destruct (s_rph s) eqn:Er; try discriminate. destruct (s_pread s) as [p|] eqn:Ep; [|discriminate].
  destruct (read_iter e k i s p) as [e1|] eqn:Eri; inversion H; subst e'.
  - apply (RL_read_iter e k i s p e1 HR HK E Er Ep Eri).
  - apply (RL_complete_read e k i s p HR HK E Ep).
Qed.

Lemma RL_slot_op : forall e o r, RL e -> K e -> In r (e_slots e) -> RL (slot_op e o r).
Proof.
  intros e o r HR HK Hin. unfold slot_op. destruct (sl_sid r) as [i|] eqn:Es; [|apply RL_skip; exact HR].
  destruct (get_stream e (sl_kind r) i) as [s|] eqn:E; [|apply RL_skip; exact HR].
  destruct (K5 e HK r i Hin Es) as (s0 & E0 & W0 & R0). assert (s0 = s) by congruence. subst s0.
  destruct o; try exact HR.
  - destruct (sl_w r); [|apply RL_skip; exact HR]. unfold op_write. destruct (write_all _ _ _) as [frames buf].
    apply RL_upd_slot_neutral; [|intros r1; reflexivity]. apply RL_upd_stream_neutral; [apply RL_emit_data; exact HR|intros s1; reflexivity].
  - destruct (sl_w r); [|apply RL_skip; exact HR]. unfold op_flush. destruct (s_wbuf s); [exact HR|].
    apply RL_upd_stream_neutral; [apply RL_emit_data; exact HR|intros s1; reflexivity].
  - (* read *)
    destruct (sl_r r) eqn:Er; cbn [andb]; [|apply RL_skip; exact HR].
    destruct (s_pread s) as [p0|] eqn:Ep; cbn [negb]; [apply RL_skip; exact HR|]. unfold op_read.
    apply (RL_upd_stream e (sl_kind r) i s _ HR HK E).
    + intros p' Hp'. cbn in Hp'. inversion Hp'; subst p'. right. exists r. cbn [pr_slot]. auto.
    + intros r1 Hr1 Hrr1 Hs1 Hk1. unfold pendb, rdb. cbn [set_pread s_pread s_g pr_chunks rev concat]. rewrite app_nil_r.
      pose proof (R2 e HR r1 i s Hr1 Hrr1 Hs1) as H2. rewrite (get_same_table e _ (sl_kind r) i Hk1) in H2. specialize (H2 E).
      unfold pendb in H2. rewrite Ep, app_nil_r in H2. exact H2.
    + intros Hx. exfalso. apply Hx. cbn. apply R0. reflexivity.
  - destruct (sl_w r); [|apply RL_skip; exact HR]. unfold op_dropw.
    apply RL_send_close. apply RL_upd_slot_neutral; [exact HR|intros r1; reflexivity].
  - (* dropr *)
    destruct (sl_r r) eqn:Er; cbn [andb]; [|apply RL_skip; exact HR].
    destruct (s_pread s) as [p0|] eqn:Ep; cbn [negb]; [apply RL_skip; exact HR|]. unfold op_dropr.
    set (g := fun r0 => mkSlot (sl_id r0) (sl_kind r0) (sl_sid r0) false (sl_w r0) (sl_woff r0) (sl_g r0)).
    set (e1 := upd_slot e (sl_id r) g).
    assert (H1 : RL e1).
    { destruct HR as [r1 r2 r4].
      assert (Hsl : forall r', In r' (e_slots e1) -> exists r0, In r0 (e_slots e) /\ ((r0 = r /\ r' = g r) \/ (sl_id r0 <> sl_id r /\ r' = r0))).
      { intros r' H. destruct (in_upd_slot _ _ _ _ H) as (r0 & Hr0 & ->). exists r0. split; [exact Hr0|].
        destruct (sl_id r0 =? sl_id r) eqn:Ex; [apply Z.eqb_eq in Ex; left|apply Z.eqb_neq in Ex; right; auto].
        assert (r0 = r) by (apply (slot_unique e r0 r HK Hr0 Hin Ex)). subst r0. auto. }
      constructor.
      - intros k' i' s' p' E' Hp'. change (get_stream e1 k' i') with (get_stream e k' i') in E'.
        destruct (r1 k' i' s' p' E' Hp') as (r0 & Hr0 & A & B & C & D).
        assert (Hne : sl_id r0 <> sl_id r).
        { intros Hx. assert (r0 = r) by (apply (slot_unique e r0 r HK Hr0 Hin Hx)). subst r0.
          rewrite Es in C. inversion C; subst i'. rewrite <- (get_same_table e _ _ i D), E in E'. inversion E'; subst s'. congruence. }
        exists r0. split; [|auto]. unfold e1, upd_slot. cbn [set_slots e_slots]. apply in_map_iff. exists r0. apply Z.eqb_neq in Hne. rewrite Hne. auto.
      - intros r' i' s' Hr' Hrr Hsid E'. change (get_stream e1 (sl_kind r') i') with (get_stream e (sl_kind r') i') in E'.
        destruct (Hsl r' Hr') as (r0 & Hr0 & [[-> ->]|[Hne ->]]); [cbn in Hrr; discriminate|apply (r2 r0 i' s' Hr0 Hrr Hsid E')].
      - exact r4. }
    assert (K1' : K e1) by (apply K_upd_slot_weaken; [exact HK|intros r0; cbn; repeat split; auto; intros Hx; discriminate Hx]).
    set (e2 := match s_cache s with Some f => release e1 f | None => e1 end).
    assert (H2 : RL e2) by (unfold e2; destruct (s_cache s); [apply RL_release|]; exact H1).
    assert (K2' : K e2) by (unfold e2; destruct (s_cache s); [apply K_release|]; exact K1').
    assert (E2 : get_stream e2 (sl_kind r) i = Some s) by (unfold e2; destruct (s_cache s); exact E).
    apply (RL_upd_stream e2 (sl_kind r) i s _ H2 K2' E2).
    + intros p' Hp'. cbn in Hp'. congruence.
    + intros r1 Hr1 Hrr1 Hs1 Hk1. exfalso.
      assert (Hin1 : In r1 (e_slots e1)) by (unfold e2 in Hr1; destruct (s_cache s); exact Hr1).
      destruct (in_upd_slot _ _ _ _ Hin1) as (r0 & Hr0 & Hx). destruct (sl_id r0 =? sl_id r) eqn:Ex.
      * subst r1. cbn in Hrr1. discriminate.
      * subst r1. apply Z.eqb_neq in Ex. apply Ex.
        apply (K6 e HK r0 r i Hr0 Hin Hs1 Es Hk1); [unfold live; rewrite Hrr1; reflexivity|unfold live; rewrite Er; reflexivity].
    + intros _. cbn. exact Ep.
Qed.
(* ================= writer links ================= *)
Definition wdata (w : Z) (n : Z) : list Z := gen_bytes (data_byte w) 0 n.

Record WL (e : endpoint) : Prop := mkWL {
  W0 : forall r, In r (e_slots e) -> 0 <= sl_woff r;
  W1 : forall r i s, In r (e_slots e) -> sl_w r = true -> sl_sid r = Some i -> get_stream e (sl_kind r) i = Some s ->
         exists cs older, g_wlog (s_g s) = (sl_id r, cs) :: older /\ chunks_bytes cs ++ s_wbuf s = wdata (sl_id r) (sl_woff r);
  W2 : forall k i s j w cs r, get_stream e k i = Some s -> nth_error (g_wlog (s_g s)) j = Some (w, cs) ->
         ~ (j = O /\ s_wph s = WApp) -> In r (e_slots e) -> sl_id r = w ->
         chunks_bytes cs = wdata w (sl_woff r) /\ sl_w r = false;
  W3 : forall k i s, get_stream e k i = Some s -> s_wph s <> WApp -> s_wbuf s = [] }.

Definition wl_slot (r : slotrec) := (sl_id r, sl_kind r, sl_sid r, sl_w r, sl_woff r).
Definition wl_stream (s : rstream) := (s_wph s, s_wbuf s, g_wlog (s_g s)).

Lemma wl_slot_eq : forall r' r, wl_slot r' = wl_slot r ->
  sl_id r' = sl_id r /\ sl_kind r' = sl_kind r /\ sl_sid r' = sl_sid r /\ sl_w r' = sl_w r /\ sl_woff r' = sl_woff r.
Proof. intros r' r H. unfold wl_slot in H. inversion H. auto. Qed.
Lemma wl_stream_eq : forall s' s, wl_stream s' = wl_stream s -> s_wph s' = s_wph s /\ s_wbuf s' = s_wbuf s /\ g_wlog (s_g s') = g_wlog (s_g s).
Proof. intros s' s H. unfold wl_stream in H. inversion H. auto. Qed.

Lemma wl_get : forall e e' k i s', map wl_stream (e_acc e') = map wl_stream (e_acc e) -> map wl_stream (e_con e') = map wl_stream (e_con e) ->
  get_stream e' k i = Some s' -> exists s, get_stream e k i = Some s /\ wl_stream s' = wl_stream s.
Proof.
  intros e e' k i s' Ha Hc H. unfold get_stream, table in *.
  assert (Hm : forall l l' : list rstream, map wl_stream l' = map wl_stream l -> nth_error l' i = Some s' -> exists s, nth_error l i = Some s /\ wl_stream s' = wl_stream s).
  { intros l l' Hl Hn. pose proof (nth_error_map wl_stream i l') as H1. rewrite Hn, Hl, nth_error_map in H1. cbn [option_map] in H1.
    destruct (nth_error l i) as [s|]; [|discriminate]. exists s. split; [reflexivity|]. cbn in H1. congruence. }
  destruct (k =? 0); [apply (Hm _ _ Ha H)|apply (Hm _ _ Hc H)].
Qed.

Lemma WL_same : forall e e', map wl_slot (e_slots e') = map wl_slot (e_slots e) ->
  map wl_stream (e_acc e') = map wl_stream (e_acc e) -> map wl_stream (e_con e') = map wl_stream (e_con e) ->
  WL e -> WL e'.
Proof.
  intros e e' Hs Ha Hc [w0 w1 w2 w3].
  assert (Hin : forall r', In r' (e_slots e') -> exists r, In r (e_slots e) /\ wl_slot r' = wl_slot r).
  { intros r' H. apply (in_map wl_slot) in H. rewrite Hs in H. apply in_map_iff in H. destruct H as (r & A & B). exists r. auto. }
  constructor.
  - intros r' Hr'. destruct (Hin r' Hr') as (r & Hr & Hv). destruct (wl_slot_eq _ _ Hv) as (V1 & V2 & V3 & V4 & V5). rewrite V5. apply (w0 r Hr).
  - intros r' i s' Hr' Hw Hsid E'. destruct (Hin r' Hr') as (r & Hr & Hv). destruct (wl_slot_eq _ _ Hv) as (V1 & V2 & V3 & V4 & V5).
    rewrite V2 in E'. destruct (wl_get e e' _ i s' Ha Hc E') as (s & E & Hv'). destruct (wl_stream_eq _ _ Hv') as (A & B & C).
    rewrite C, B, V1, V5. apply (w1 r i s Hr); congruence.
  - intros k i s' j w cs r' E' Hn Hl Hr' Hid. destruct (wl_get e e' k i s' Ha Hc E') as (s & E & Hv'). destruct (wl_stream_eq _ _ Hv') as (A & B & C).
    destruct (Hin r' Hr') as (r & Hr & Hv). destruct (wl_slot_eq _ _ Hv) as (V1 & V2 & V3 & V4 & V5).
    rewrite V4, V5. apply (w2 k i s j w cs r E); try congruence; try (rewrite <- A; exact Hl).
  - intros k i s' E' Hw. destruct (wl_get e e' k i s' Ha Hc E') as (s & E & Hv'). destruct (wl_stream_eq _ _ Hv') as (A & B & C).
    rewrite B. apply (w3 k i s E). congruence.
Qed.

Lemma WL_upd_stream_neutral : forall e k i f, WL e -> (forall s, wl_stream (f s) = wl_stream s) -> WL (upd_stream e k i f).
Proof.
  intros e k i f HW Hf. apply (WL_same e); [rewrite slots_upd_stream; reflexivity| | |exact HW];
    unfold upd_stream, set_table, table; destruct (k =? 0); cbn [set_acc set_con e_acc e_con]; try reflexivity; apply map_upd_nth_same; intros s _; apply Hf.
Qed.
Lemma WL_upd_at : forall e k i s f, WL e -> get_stream e k i = Some s -> wl_stream (f s) = wl_stream s -> WL (upd_stream e k i f).
Proof.
  intros e k i s f HW E Hf. rewrite (upd_stream_const e k i s f E).
  assert (Hm : forall l : list rstream, nth_error l i = Some s -> map wl_stream (upd_nth i (fun _ => f s) l) = map wl_stream l).
  { intros l Hl. apply map_upd_nth_same. intros s0 E0. congruence. }
  apply (WL_same e); [rewrite slots_upd_stream; reflexivity| | |exact HW];
    unfold get_stream, table in E; unfold upd_stream, set_table, table; destruct (k =? 0); cbn [set_acc set_con e_acc e_con]; try reflexivity; apply Hm; exact E.
Qed.
Lemma WL_upd_slot_neutral : forall e x g, WL e -> (forall r, wl_slot (g r) = wl_slot r) -> WL (upd_slot e x g).
Proof.
  intros e x g HW Hg. apply (WL_same e); try reflexivity; [|exact HW].
  unfold upd_slot. cbn [set_slots e_slots]. rewrite map_map. apply map_ext. intros r. destruct (sl_id r =? x); [apply Hg|reflexivity].
Qed.

Ltac wsame e := intros; apply (WL_same e); try reflexivity; assumption.
Lemma WL_set_d : forall e x, WL e -> WL (set_d e x). Proof. intros e; wsame e. Qed.
Lemma WL_set_qs : forall e x, WL e -> WL (set_qs e x). Proof. intros e; wsame e. Qed.
Lemma WL_set_events : forall e x, WL e -> WL (set_events e x). Proof. intros e; wsame e. Qed.
Lemma WL_set_out : forall e x l, WL e -> WL (set_out e x l). Proof. intros e; wsame e. Qed.
Lemma WL_set_fail : forall e x, WL e -> WL (set_fail e x). Proof. intros e; wsame e. Qed.
Lemma WL_set_gone : forall e, WL e -> WL (set_gone e). Proof. intros e; wsame e. Qed.
Lemma WL_add_event : forall e ev, WL e -> WL (add_event e ev). Proof. intros e; wsame e. Qed.
Lemma WL_release : forall e f, WL e -> WL (release e f). Proof. intros e; wsame e. Qed.
Lemma WL_upd_queue : forall e k c f, WL e -> WL (upd_queue e k c f). Proof. intros e; wsame e. Qed.
Lemma WL_enqueue_idle : forall e k c i, WL e -> WL (enqueue_idle e k c i). Proof. intros e; wsame e. Qed.
Lemma WL_skip : forall e s, WL e -> WL (skip e s). Proof. intros e; wsame e. Qed.
Lemma WL_emit : forall e h d, WL e -> WL (emit e h d).
Proof. intros e h d HW. unfold emit. destruct (e_gone e); [apply WL_set_fail; exact HW|]. destruct d; apply WL_set_out; exact HW. Qed.
Lemma WL_emit_frames : forall ps e k i, WL e -> WL (emit_frames e k i ps).
Proof. unfold emit_frames. induction ps as [|p ps IH]; intros e k i HW; cbn [fold_left]; [exact HW|]. apply IH, WL_emit, HW. Qed.
Lemma WL_fold_release : forall rel e, WL e -> WL (fold_left release rel e).
Proof. induction rel as [|f rel IH]; intros e HW; cbn [fold_left]; [exact HW|]. apply IH, WL_release, HW. Qed.
Lemma WL_complete_read : forall e k i p, WL e -> WL (complete_read e k i p).
Proof.
  intros. unfold complete_read. apply WL_add_event, WL_upd_slot_neutral; [|intros r; reflexivity].
  apply WL_upd_stream_neutral; [assumption|intros s; reflexivity].
Qed.
Lemma WL_read_iter : forall e k i s p e', WL e -> get_stream e k i = Some s -> read_iter e k i s p = Some e' -> WL e'.
Proof.
  intros e k i s p e' HW E H. unfold read_iter in H. destruct (read_iter_s s p) as [|s' rel done] eqn:Er; [discriminate|].
  inversion H; subst e'. clear H.
  assert (Hm : WL (fold_left release rel (upd_stream e k i (fun _ => s')))).
  { apply WL_fold_release. apply (WL_upd_at e k i s (fun _ => s') HW E).
    destruct (read_iter_s_keep _ _ _ _ _ Er) as [(A & B & _) C]. unfold wl_stream. rewrite A, B, C. reflexivity. }
  destruct done; [|exact Hm]. destruct (s_pread s'); [|exact Hm]. apply WL_complete_read. exact Hm.
Qed.
Lemma gen_from_app : forall f n1 n2 a, gen_bytes_from f a (n1 + n2) = gen_bytes_from f a n1 ++ gen_bytes_from f (a + Z.of_nat n1) n2.
Proof.
  intros f. induction n1 as [|n1 IH]; intros n2 a.
  - cbn [Nat.add gen_bytes_from app Z.of_nat]. rewrite Z.add_0_r. reflexivity.
  - cbn [Nat.add gen_bytes_from app]. rewrite IH. f_equal. f_equal. f_equal. lia.
Qed.
Lemma gen_from_length : forall f n a, length (gen_bytes_from f a n) = n.
Proof. intros f. induction n as [|n IH]; intros a; cbn [gen_bytes_from length]; [reflexivity|]. rewrite IH. reflexivity. Qed.

Lemma wdata_app : forall w a n, 0 <= a ->
  wdata w a ++ gen_bytes (data_byte w) a n = wdata w (a + Z.of_nat (length (gen_bytes (data_byte w) a n))).
Proof.
  intros w a n Ha. unfold wdata, gen_bytes. rewrite gen_from_length.
  replace (Z.to_nat (a + Z.of_nat (Z.to_nat n))) with (Z.to_nat a + Z.to_nat n)%nat by lia.
  rewrite gen_from_app. f_equal. f_equal. lia.
Qed.

Lemma wdata_0 : forall w, wdata w 0 = [].
Proof. reflexivity. Qed.

(* the pieces of op_write / op_flush / send_close: the stream's log and buffer and the handle's offset move together *)
Lemma WL_writer_step : forall e e' k i s r cs older cs' buf' woff',
  WL e -> K e -> In r (e_slots e) -> sl_w r = true -> sl_sid r = Some i -> (sl_kind r =? 0) = (k =? 0) ->
  get_stream e k i = Some s -> g_wlog (s_g s) = (sl_id r, cs) :: older ->
  0 <= woff' -> chunks_bytes cs' ++ buf' = wdata (sl_id r) woff' ->
  (forall k' i' s0, get_stream e' k' i' = Some s0 ->
     (same k i k' i' /\ s_wph s0 = WApp /\ s_wbuf s0 = buf' /\ g_wlog (s_g s0) = (sl_id r, cs') :: older) \/
     (other k i k' i' /\ get_stream e k' i' = Some s0)) ->
  (forall r', In r' (e_slots e') -> exists r0, In r0 (e_slots e) /\
     ((r0 = r /\ sl_id r' = sl_id r /\ sl_kind r' = sl_kind r /\ sl_sid r' = sl_sid r /\ sl_w r' = true /\ sl_woff r' = woff') \/ (sl_id r0 <> sl_id r /\ r' = r0))) ->
  WL e'.
Proof.
  intros e e' k i s r cs older cs' buf' woff' HW HK Hin Hw Hsid Hk E Hlog Hw0 Heq Hg Hsl.
  assert (Hwa : s_wph s = WApp).
  { destruct (K5 e HK r i Hin Hsid) as (s0 & E0 & W0' & _). rewrite (get_same_table e _ k i Hk) in E0. assert (s0 = s) by congruence. subst s0. exact (W0' Hw). }
  constructor.
  - intros r' Hr'. destruct (Hsl r' Hr') as (r0 & Hr0 & [(-> & _ & _ & _ & _ & ->)|[_ ->]]); [exact Hw0|apply (W0 e HW r0 Hr0)].
  - intros r' i' s' Hr' Hw' Hsid' E'. destruct (Hsl r' Hr') as (r0 & Hr0 & [(-> & A1 & A2 & A3 & A4 & A5)|[Hne ->]]).
    + rewrite A2 in E'. rewrite A3, Hsid in Hsid'. inversion Hsid'; subst i'. rewrite (get_same_table e' _ k i Hk) in E'.
      destruct (Hg k i s' E') as [(_ & B1 & B2 & B3)|[Ho _]]; [|exfalso; apply (same_not_other k i k i); [split; reflexivity|exact Ho]].
      exists cs', older. rewrite A1, A5, B2, B3. auto.
    + destruct (Hg _ i' s' E') as [([Hk' Hi'] & _)|[_ E0]]; [|apply (W1 e HW r0 i' s' Hr0 Hw' Hsid' E0)].
      exfalso. subst i'. apply Hne.
      apply (K6 e HK r0 r i Hr0 Hin Hsid' Hsid); [congruence|unfold live; rewrite Hw'; apply orb_true_r|unfold live; rewrite Hw; apply orb_true_r].
  - intros k' i' s' j w cs0 r' E' Hn Hl Hr' Hid.
    assert (Hold : exists s0 j0, get_stream e k' i' = Some s0 /\ nth_error (g_wlog (s_g s0)) j0 = Some (w, cs0) /\ ~ (j0 = O /\ s_wph s0 = WApp)).
    { destruct (Hg k' i' s' E') as [([Hk' Hi'] & B1 & B2 & B3)|[_ E0]].
      - subst i'. destruct j as [|j]; [exfalso; apply Hl; auto|]. rewrite B3 in Hn. cbn [nth_error] in Hn.
        exists s, (S j). rewrite <- (get_same_table e k k' i Hk'). split; [exact E|]. split; [rewrite Hlog; exact Hn|]. intros [Hx _]; discriminate.
      - exists s', j. auto. }
    destruct Hold as (s0 & j0 & E0 & Hn0 & Hl0).
    destruct (Hsl r' Hr') as (r0 & Hr0 & [(-> & A1 & A2 & A3 & A4 & A5)|[Hne ->]]).
    + exfalso. destruct (W2 e HW k' i' s0 j0 w cs0 r E0 Hn0 Hl0 Hin) as [_ Hf]; [congruence|]. congruence.
    + apply (W2 e HW k' i' s0 j0 w cs0 r0 E0 Hn0 Hl0 Hr0 Hid).
  - intros k' i' s' E' Hph. destruct (Hg k' i' s' E') as [(_ & B1 & _)|[_ E0]]; [contradiction|apply (W3 e HW k' i' s' E0 Hph)].
Qed.
Lemma WL_op_write : forall e r i s n, WL e -> K e -> In r (e_slots e) -> sl_w r = true -> sl_sid r = Some i ->
  get_stream e (sl_kind r) i = Some s -> 0 < wfs (e_cfg e) -> Z.of_nat (length (s_wbuf s)) <= wfs (e_cfg e) ->
  WL (op_write e r i s n).
Proof.
  intros e r i s n HW HK Hin Hw Hsid E Hwf Hbl. destruct (W1 e HW r i s Hin Hw Hsid E) as (cs & older & Hlog & Heq).
  pose proof (W0 e HW r Hin) as Hw0.
  unfold op_write. set (data := gen_bytes (data_byte (sl_id r)) (sl_woff r) n).
  destruct (write_all (wfs (e_cfg e)) (s_wbuf s) data) as [frames buf] eqn:Ewa.
  destruct (write_all_spec _ _ _ _ _ Hwf Hbl Ewa) as (Hcat & _ & _).
  set (k := sl_kind r) in *.
  set (e1 := emit_data e k i frames). set (e2 := upd_stream e1 k i (fun s0 => set_wbuf s0 buf)).
  set (g := fun r0 => mkSlot (sl_id r0) (sl_kind r0) (sl_sid r0) (sl_r r0) (sl_w r0) (sl_woff r0 + Z.of_nat (length data)) (sl_g r0)).
  apply (WL_writer_step e _ k i s r cs older (rev_append frames cs) buf (sl_woff r + Z.of_nat (length data)) HW HK Hin Hw Hsid eq_refl E Hlog).
  - lia.
  - rewrite chunks_bytes_sent, <- app_assoc, Hcat, app_assoc, Heq. apply wdata_app. exact Hw0.
  - intros k' i' s0 E'. change (get_stream (upd_slot e2 (sl_id r) g) k' i') with (get_stream e2 k' i') in E'. unfold e2 in E'.
    destruct (same_or_other k i k' i') as [Hs|Ho].
    + left. split; [exact Hs|]. rewrite (get_upd_same _ _ _ _ _ _ Hs) in E'. destruct Hs as [Hk' ->].
      rewrite <- (get_same_table e1 k k' i' Hk') in E'. unfold e1 in E'. rewrite get_emit_data_same, E in E'. cbn [option_map] in E'. inversion E'; subst s0.
      cbn [set_wbuf g_sent set_g s_wph s_wbuf s_g g_wlog]. rewrite Hlog.
      destruct (K5 e HK r i' Hin Hsid) as (sa & Ea & Wa & _). assert (sa = s) by (unfold k in E; congruence). subst sa. rewrite (Wa Hw). auto.
    + right. split; [exact Ho|]. rewrite (get_upd_other _ _ _ _ _ _ Ho) in E'. unfold e1 in E'. rewrite get_emit_data_other in E' by exact Ho. exact E'.
  - intros r' Hr'. destruct (in_upd_slot _ _ _ _ Hr') as (r0 & Hr0 & ->). unfold e2 in Hr0. rewrite slots_upd_stream in Hr0. unfold e1 in Hr0. rewrite slots_emit_data in Hr0.
    exists r0. split; [exact Hr0|]. destruct (sl_id r0 =? sl_id r) eqn:Ex.
    + apply Z.eqb_eq in Ex. assert (r0 = r) by (apply (slot_unique e r0 r HK Hr0 Hin Ex)). subst r0. left. cbn [g sl_id sl_kind sl_sid sl_w sl_woff]. auto 10.
    + apply Z.eqb_neq in Ex. right. auto.
Qed.

Lemma WL_op_flush : forall e r i s, WL e -> K e -> In r (e_slots e) -> sl_w r = true -> sl_sid r = Some i ->
  get_stream e (sl_kind r) i = Some s -> WL (op_flush e r i s).
Proof.
  intros e r i s HW HK Hin Hw Hsid E. destruct (W1 e HW r i s Hin Hw Hsid E) as (cs & older & Hlog & Heq).
  pose proof (W0 e HW r Hin) as Hw0. unfold op_flush. destruct (s_wbuf s) as [|z l] eqn:Eb; [exact HW|].
  set (k := sl_kind r) in *. set (e1 := emit_data e k i [z :: l]).
  apply (WL_writer_step e _ k i s r cs older (rev_append [z :: l] cs) [] (sl_woff r) HW HK Hin Hw Hsid eq_refl E Hlog Hw0).
  - rewrite chunks_bytes_sent, app_nil_r. cbn [concat]. rewrite app_nil_r. exact Heq.
  - intros k' i' s0 E'. destruct (same_or_other k i k' i') as [Hs|Ho].
    + left. split; [exact Hs|]. rewrite (get_upd_same _ _ _ _ _ _ Hs) in E'. destruct Hs as [Hk' ->].
      rewrite <- (get_same_table e1 k k' i' Hk') in E'. unfold e1 in E'. rewrite get_emit_data_same, E in E'. cbn [option_map] in E'. inversion E'; subst s0.
      cbn [set_wbuf g_sent set_g s_wph s_wbuf s_g g_wlog]. rewrite Hlog.
      destruct (K5 e HK r i' Hin Hsid) as (sa & Ea & Wa & _). assert (sa = s) by (unfold k in E; congruence). subst sa. rewrite (Wa Hw). auto.
    + right. split; [exact Ho|]. rewrite (get_upd_other _ _ _ _ _ _ Ho) in E'. unfold e1 in E'. rewrite get_emit_data_other in E' by exact Ho. exact E'.
  - intros r' Hr'. rewrite slots_upd_stream in Hr'. unfold e1 in Hr'. rewrite slots_emit_data in Hr'. exists r'. split; [exact Hr'|].
    destruct (Z.eq_dec (sl_id r') (sl_id r)) as [Hx|Hx]; [|right; auto].
    assert (r' = r) by (apply (slot_unique e r' r HK Hr' Hin Hx)). subst r'. left. auto 10.
Qed.
Lemma send_close_self' : forall e k i s, get_stream e k i = Some s ->
  exists s', get_stream (send_close e k i) k i = Some s' /\ closedok s' /\
    g_wlog (s_g s') = match s_wbuf s with [] => g_wlog (s_g s) | b => g_wlog (s_g (g_sent s [b])) end.
Proof.
  intros e k i s E. unfold send_close. rewrite E.
  set (e1 := match s_wbuf s with [] => e | b => emit_data e k i [b] end).
  set (s1 := match s_wbuf s with [] => s | b => g_sent s [b] end).
  assert (E1 : get_stream e1 k i = Some s1).
  { unfold e1, s1. destruct (s_wbuf s); [exact E|]. rewrite get_emit_data_same, E. reflexivity. }
  set (e2 := upd_stream e1 k i (fun s0 => set_wbuf s0 [])). set (e3 := emit e2 _ None).
  assert (E3 : get_stream e3 k i = Some (set_wbuf s1 [])) by (unfold e3, e2; rewrite get_emit, get_upd, Bool.eqb_reflx, Nat.eqb_refl, E1; reflexivity).
  unfold after_close. rewrite E3.
  assert (Hl : g_wlog (s_g (set_wbuf s1 [])) = match s_wbuf s with [] => g_wlog (s_g s) | b => g_wlog (s_g (g_sent s [b])) end).
  { unfold s1. destruct (s_wbuf s); reflexivity. }
  destruct (k =? 0) eqn:Ek.
  - eexists. split; [rewrite get_upd, Bool.eqb_reflx, Nat.eqb_refl, E3; reflexivity|]. split; [split; [left; reflexivity|reflexivity]|exact Hl].
  - eexists. split; [rewrite get_enqueue_idle, get_upd, Bool.eqb_reflx, Nat.eqb_refl, E3; reflexivity|]. split; [split; [right; reflexivity|reflexivity]|exact Hl].
Qed.

Lemma WL_send_close_nolog : forall e k i s, WL e -> get_stream e k i = Some s -> g_wlog (s_g s) = [] -> s_wbuf s = [] -> WL (send_close e k i).
Proof.
  intros e k i s HW E Hl Hb. destruct (send_close_self' e k i s E) as (s' & E' & [Hc Hb'] & Hl'). rewrite Hb, Hl in Hl'.
  destruct HW as [w0 w1 w2 w3].
  assert (Hg : forall k' i' s0, get_stream (send_close e k i) k' i' = Some s0 -> (same k i k' i' /\ s0 = s') \/ (other k i k' i' /\ get_stream e k' i' = Some s0)).
  { intros k' i' s0 E0. destruct (same_or_other k i k' i') as [Hs|Ho].
    - left. split; [exact Hs|]. destruct Hs as [Hk ->]. rewrite <- (get_same_table _ k k' i' Hk) in E0. congruence.
    - right. split; [exact Ho|]. rewrite get_send_close_other in E0 by exact Ho. exact E0. }
  constructor; rewrite ?slots_send_close.
  - exact w0.
  - intros r i' s0 Hr Hw Hsid E0. destruct (Hg _ i' s0 E0) as [[[Hk Hi] ->]|[_ E1]]; [|apply (w1 r i' s0 Hr Hw Hsid E1)].
    subst i'. destruct (w1 r i s Hr Hw Hsid) as (cs & older & A & _); [rewrite <- (get_same_table e k _ i Hk); exact E|]. congruence.
  - intros k' i' s0 j w cs r E0 Hn Hlive Hr Hid. destruct (Hg k' i' s0 E0) as [[_ ->]|[_ E1]]; [rewrite Hl' in Hn; destruct j; discriminate|].
    apply (w2 k' i' s0 j w cs r E1 Hn Hlive Hr Hid).
  - intros k' i' s0 E0 Hph. destruct (Hg k' i' s0 E0) as [[_ ->]|[_ E1]]; [exact Hb'|apply (w3 k' i' s0 E1 Hph)].
Qed.

Lemma WL_op_dropw : forall e r i s, WL e -> K e -> In r (e_slots e) -> sl_w r = true -> sl_sid r = Some i ->
  get_stream e (sl_kind r) i = Some s -> WL (op_dropw e r i).
Proof.
  intros e r i s HW HK Hin Hw Hsid E. destruct (W1 e HW r i s Hin Hw Hsid E) as (cs & older & Hlog & Heq).
  unfold op_dropw. set (k := sl_kind r) in *.
  set (g := fun r0 => mkSlot (sl_id r0) (sl_kind r0) (sl_sid r0) (sl_r r0) false (sl_woff r0) (sl_g r0)).
  set (e1 := upd_slot e (sl_id r) g).
  assert (E1 : get_stream e1 k i = Some s) by exact E.
  destruct (send_close_self' e1 k i s E1) as (s' & E' & [Hc Hb'] & Hl').
  assert (Hlog' : exists cs', g_wlog (s_g s') = (sl_id r, cs') :: older /\ chunks_bytes cs' = wdata (sl_id r) (sl_woff r)).
  { destruct (s_wbuf s) as [|z l] eqn:Eb.
    - exists cs. rewrite Hl', Hlog. split; [reflexivity|]. rewrite app_nil_r in Heq. exact Heq.
    - exists (rev_append [z :: l] cs). rewrite Hl'. unfold g_sent. cbn [set_g s_g g_wlog]. rewrite Hlog. split; [reflexivity|].
      rewrite chunks_bytes_sent. cbn [concat]. rewrite app_nil_r. exact Heq. }
  destruct Hlog' as (cs' & Hlog' & Hcs').
  assert (Hg : forall k' i' s0, get_stream (send_close e1 k i) k' i' = Some s0 -> (same k i k' i' /\ s0 = s') \/ (other k i k' i' /\ get_stream e k' i' = Some s0)).
  { intros k' i' s0 E0. destruct (same_or_other k i k' i') as [Hs|Ho].
    - left. split; [exact Hs|]. destruct Hs as [Hk ->]. rewrite <- (get_same_table _ k k' i' Hk) in E0. congruence.
    - right. split; [exact Ho|]. rewrite get_send_close_other in E0 by exact Ho. exact E0. }
  assert (Hsl : forall r', In r' (e_slots (send_close e1 k i)) -> exists r0, In r0 (e_slots e) /\ ((r0 = r /\ r' = g r) \/ (sl_id r0 <> sl_id r /\ r' = r0))).
  { intros r' H. rewrite slots_send_close in H. destruct (in_upd_slot _ _ _ _ H) as (r0 & Hr0 & ->). exists r0. split; [exact Hr0|].
    destruct (sl_id r0 =? sl_id r) eqn:Ex; [apply Z.eqb_eq in Ex; left|apply Z.eqb_neq in Ex; right; auto].
    assert (r0 = r) by (apply (slot_unique e r0 r HK Hr0 Hin Ex)). subst r0. auto. }
  assert (Hwa : s_wph s = WApp).
  { destruct (K5 e HK r i Hin Hsid) as (s0 & E0 & W0' & _). assert (s0 = s) by (unfold k in E; congruence). subst s0. exact (W0' Hw). }
  constructor.
  - intros r' Hr'. destruct (Hsl r' Hr') as (r0 & Hr0 & [[-> ->]|[_ ->]]); [apply (W0 e HW r Hin)|apply (W0 e HW r0 Hr0)].
  - intros r' i' s0 Hr' Hw' Hsid' E0. destruct (Hsl r' Hr') as (r0 & Hr0 & [[-> ->]|[Hne ->]]); [cbn in Hw'; discriminate|].
    destruct (Hg _ i' s0 E0) as [[[Hk Hi] ->]|[_ E2]]; [|apply (W1 e HW r0 i' s0 Hr0 Hw' Hsid' E2)].
    exfalso. subst i'. apply Hne. apply (K6 e HK r0 r i Hr0 Hin Hsid' Hsid); [unfold k in Hk; congruence|unfold live; rewrite Hw'; apply orb_true_r|unfold live; rewrite Hw; apply orb_true_r].
  - intros k' i' s0 j w cs0 r' E0 Hn Hlive Hr' Hid.
    destruct (Hsl r' Hr') as (r0 & Hr0 & [[-> ->]|[Hne ->]]).
    + (* the handle that has just closed *)
      cbn [g sl_id sl_woff sl_w] in *. split; [|reflexivity].
      destruct (Hg k' i' s0 E0) as [[[Hk Hi] ->]|[_ E2]].
      * rewrite Hlog' in Hn. destruct j as [|j]; [cbn in Hn; inversion Hn; subst; exact Hcs'|].
        cbn [nth_error] in Hn. exfalso. destruct (W2 e HW k i s (S j) w cs0 r E) as [_ Hf]; [rewrite Hlog; exact Hn|intros [Hx _]; discriminate|exact Hin|exact Hid|]. congruence.
      * exfalso. destruct (W2 e HW k' i' s0 j w cs0 r E2 Hn Hlive Hin Hid) as [_ Hf]. congruence.
    + destruct (Hg k' i' s0 E0) as [[[Hk Hi] ->]|[_ E2]]; [|apply (W2 e HW k' i' s0 j w cs0 r0 E2 Hn Hlive Hr0 Hid)].
      rewrite Hlog' in Hn. destruct j as [|j]; [cbn in Hn; exfalso; apply Hne; congruence|]. cbn [nth_error] in Hn.
      apply (W2 e HW k i s (S j) w cs0 r0 E); [rewrite Hlog; exact Hn|intros [Hx _]; discriminate|exact Hr0|exact Hid].
  - intros k' i' s0 E0 Hph. destruct (Hg k' i' s0 E0) as [[_ ->]|[_ E2]]; [exact Hb'|apply (W3 e HW k' i' s0 E2 Hph)].
Qed.
Lemma WL_op_open : forall e kind cap x, WL e -> SU e -> ~ In x (map sl_id (e_slots e)) -> WL (op_open e kind cap x).
Proof.
  intros e kind cap x [w0 w1 w2 w3] HS Hf. unfold op_open. apply WL_upd_queue.
  set (new := mkSlot x kind None false false 0 (mkLG [] O false)).
  constructor; cbn [set_slots e_slots].
  - intros r Hr. apply in_app_or in Hr. destruct Hr as [Hr|[<-|[]]]; [apply w0; exact Hr|cbn; lia].
  - intros r i s Hr Hw Hsid E. apply in_app_or in Hr. destruct Hr as [Hr|[<-|[]]]; [apply (w1 r i s Hr Hw Hsid E)|discriminate].
  - intros k i s j w cs r E Hn Hl Hr Hid. change (get_stream (set_slots e _) k i) with (get_stream e k i) in E.
    apply in_app_or in Hr. destruct Hr as [Hr|[<-|[]]]; [apply (w2 k i s j w cs r E Hn Hl Hr Hid)|].
    exfalso. cbn in Hid. subst w. apply Hf.
    assert (Hx : In x (sids s)) by (unfold sids; apply nth_error_In in Hn; apply (in_map fst) in Hn; exact Hn).
    destruct (Wid e HS k i s x E Hx) as (r & Hr & Hidr & _). rewrite <- Hidr. apply in_map. exact Hr.
  - exact w3.
Qed.

Lemma WL_pop_push : forall e q0 i idle x pend', WL e -> K e -> SU e -> In q0 (e_qs e) -> q_idle q0 = i :: idle -> q_pend q0 = x :: pend' ->
  WL (upd_stream (emit (upd_queue e (q_kind q0) (q_cap q0) (fun _ => mkQueue (q_kind q0) (q_cap q0) idle pend')) (mk_header FK_OPEN (kind_bits (q_kind q0)) i) None)
                 (q_kind q0) i (fun s => g_push (set_wph s (WJoin x)) x)).
Proof.
  intros e q0 i idle x pend' HW HK HS Hin0 Hi Hp.
  assert (Hi0 : In i (q_idle q0)) by (rewrite Hi; left; reflexivity).
  assert (Hx0 : In x (q_pend q0)) by (rewrite Hp; left; reflexivity).
  destruct (K3 e HK q0 i Hin0 Hi0) as (s & E & W & C & R).
  set (k := q_kind q0) in *. set (e2 := emit (upd_queue e k (q_cap q0) _) _ None).
  set (f := fun s0 => g_push (set_wph s0 (WJoin x)) x).
  assert (E2 : get_stream e2 k i = Some s) by (unfold e2; rewrite get_emit; exact E).
  assert (S2 : e_slots e2 = e_slots e) by (unfold e2; rewrite slots_emit; reflexivity).
  assert (Hg3 : forall k' i' s', get_stream (upd_stream e2 k i f) k' i' = Some s' ->
            (same k i k' i' /\ s' = f s) \/ (other k i k' i' /\ get_stream e k' i' = Some s')).
  { intros k' i' s' E'. destruct (same_or_other k i k' i') as [Hs|Ho].
    - left. split; [exact Hs|]. rewrite (get_upd_same _ _ _ _ _ _ Hs) in E'. destruct Hs as [Hk ->].
      rewrite <- (get_same_table e2 k k' i' Hk), E2 in E'. cbn in E'. congruence.
    - right. split; [exact Ho|]. rewrite (get_upd_other _ _ _ _ _ _ Ho) in E'. unfold e2 in E'. rewrite get_emit in E'. exact E'. }
  assert (Hb : s_wbuf s = []) by (apply (W3 e HW k i s E); rewrite W; discriminate).
  constructor; rewrite ?slots_upd_stream, ?S2.
  - apply (W0 e HW).
  - intros r i' s' Hr Hw Hsid E'. destruct (Hg3 _ i' s' E') as [[[Hk Hi'] ->]|[_ E0]]; [|apply (W1 e HW r i' s' Hr Hw Hsid E0)].
    exfalso. subst i'. destruct (K5 e HK r i Hr Hsid) as (sa & Ea & Wa & _). rewrite (get_same_table e _ k i (eq_sym Hk)) in Ea.
    assert (sa = s) by congruence. subst sa. rewrite (Wa Hw) in W. discriminate.
  - intros k' i' s' j w cs r E' Hn Hl Hr Hid. destruct (Hg3 k' i' s' E') as [[_ ->]|[_ E0]]; [|apply (W2 e HW k' i' s' j w cs r E0 Hn Hl Hr Hid)].
    cbn [f g_push set_g set_wph s_g g_wlog] in Hn. destruct j as [|j]; cbn [nth_error] in Hn.
    + inversion Hn as [[Hwx Hcs]]. assert (Hidx : sl_id r = x) by congruence. pose proof (S3 e HS q0 x r Hin0 Hx0 Hr Hidx) as Hnone.
      rewrite (S1 e HS r Hr Hnone). split; [reflexivity|]. pose proof (K5n e HK r Hr Hnone) as Hl0. unfold live in Hl0. apply orb_false_elim in Hl0. tauto.
    + apply (W2 e HW k i s j w cs r E Hn); [intros [_ Hx]; rewrite W in Hx; discriminate|exact Hr|exact Hid].
  - intros k' i' s' E' Hph. destruct (Hg3 k' i' s' E') as [[_ ->]|[_ E0]]; [exact Hb|apply (W3 e HW k' i' s' E0 Hph)].
Qed.

Lemma sids_nth : forall s j w cs, nth_error (g_wlog (s_g s)) j = Some (w, cs) -> nth_error (sids s) j = Some w.
Proof. intros s j w cs H. unfold sids. rewrite nth_error_map, H. reflexivity. Qed.

Lemma cnt_two_positions : forall x l j1 j2, nth_error l j1 = Some x -> nth_error l j2 = Some x -> j1 <> j2 -> (2 <= cnt x l)%nat.
Proof.
  intros x. induction l as [|y l IH]; intros j1 j2 H1 H2 Hne; [destruct j1; discriminate|].
  destruct j1 as [|j1]; destruct j2 as [|j2]; cbn [nth_error] in *; try lia.
  - inversion H1; subst y. rewrite cnt_cons_eq. pose proof (cnt_in x l (nth_error_In _ _ H2)). lia.
  - inversion H2; subst y. rewrite cnt_cons_eq. pose proof (cnt_in x l (nth_error_In _ _ H1)). lia.
  - assert (j1 <> j2) by lia. specialize (IH j1 j2 H1 H2 H). destruct (Z.eq_dec y x) as [->|Hy]; [rewrite cnt_cons_eq|rewrite cnt_cons_ne by exact Hy]; lia.
Qed.

Lemma tids_ge : forall x t i s, nth_error t i = Some s -> (cnt x (sids s) <= cnt x (tids t))%nat.
Proof.
  intros x. induction t as [|y t IH]; intros i s H; [destruct i; discriminate|]. cbn [tids flat_map]. fold (tids t). rewrite cnt_app.
  destruct i as [|i]; cbn [nth_error] in H; [inversion H; subst; lia|]. specialize (IH i s H). lia.
Qed.
Lemma wlog_ids_ge : forall x e k i s, get_stream e k i = Some s -> (cnt x (sids s) <= cnt x (wlog_ids e))%nat.
Proof.
  intros x e k i s H. unfold get_stream, table in H. unfold wlog_ids. rewrite cnt_app. destruct (k =? 0); pose proof (tids_ge x _ i s H); lia.
Qed.

Lemma WL_handover : forall e k i s x, WL e -> K e -> SU e -> get_stream e k i = Some s -> s_wph s = WJoin x -> WL (handover e k i x).
Proof.
  intros e k i s x HW HK HS E Hw. unfold handover. apply WL_add_event.
  set (inc := match get_stream e k i with Some s0 => g_rn (s_g s0) | None => O end).
  set (f := fun s0 => g_reader (set_wph (set_rph s0 RApp) WApp)).
  set (g := fun r => mkSlot (sl_id r) (sl_kind r) (Some i) true true (sl_woff r) (mkLG [] inc false)).
  set (e1 := upd_stream e k i f).
  assert (Hj : joinx s = Some x) by (unfold joinx; rewrite Hw; reflexivity).
  destruct (S4 e HS k i s x E Hj) as [(rest & Hrest) Hnone].
  assert (Hlog : exists cs older, g_wlog (s_g s) = (x, cs) :: older).
  { unfold sids in Hrest. destruct (g_wlog (s_g s)) as [|[w cs] older]; [discriminate|]. cbn in Hrest. inversion Hrest; subst. eauto. }
  destruct Hlog as (cs & older & Hlog).
  assert (Hb : s_wbuf s = []) by (apply (W3 e HW k i s E); rewrite Hw; discriminate).
  assert (Hkc : forall r, In r (e_slots e) -> sl_id r = x -> (sl_kind r =? 0) = (k =? 0)) by (intros r Hr0 Hid; apply (K4j e HK k i s x r E Hw Hr0 Hid)).
  (* x is logged exactly once: at the head of this stream *)
  assert (Hx0 : nth_error (sids s) 0 = Some x) by (rewrite Hrest; reflexivity).
  assert (Honly : forall k' i' s' j cs', get_stream e k' i' = Some s' -> nth_error (g_wlog (s_g s')) j = Some (x, cs') -> same k i k' i' /\ j = O).
  { intros k' i' s' j cs' E' Hn. pose proof (sids_nth _ _ _ _ Hn) as Hn'. pose proof (U e HS x) as Hu.
    destruct (same_or_other k i k' i') as [Hs|Ho].
    - split; [exact Hs|]. destruct Hs as [Hk ->]. rewrite <- (get_same_table e k k' i' Hk) in E'. assert (s' = s) by congruence. subst s'.
      destruct (Nat.eq_dec j 0) as [->|Hne]; [reflexivity|]. exfalso.
      pose proof (cnt_two_positions x (sids s) 0 j Hx0 Hn' (fun H => Hne (eq_sym H))). pose proof (wlog_ids_ge x e k i' s E). lia.
    - exfalso. pose proof (wlog_ids_two e k i k' i' s s' x E E' Ho (nth_error_In _ _ Hx0) (nth_error_In _ _ Hn')). lia. }
  assert (Hg1 : forall k' i' s', get_stream e1 k' i' = Some s' ->
            (same k i k' i' /\ s' = f s) \/ (other k i k' i' /\ get_stream e k' i' = Some s')).
  { intros k' i' s' E'. destruct (same_or_other k i k' i') as [Hs|Ho].
    - left. split; [exact Hs|]. unfold e1 in E'. rewrite (get_upd_same _ _ _ _ _ _ Hs) in E'. destruct Hs as [Hk ->].
      rewrite <- (get_same_table e k k' i' Hk), E in E'. cbn in E'. congruence.
    - right. split; [exact Ho|]. unfold e1 in E'. rewrite (get_upd_other _ _ _ _ _ _ Ho) in E'. exact E'. }
  assert (Hsl : forall r', In r' (e_slots (upd_slot e1 x g)) -> exists r, In r (e_slots e) /\ ((sl_id r <> x /\ r' = r) \/ (sl_id r = x /\ r' = g r))).
  { intros r' H. destruct (in_upd_slot _ _ _ _ H) as (r & Hr0 & ->). unfold e1 in Hr0. rewrite slots_upd_stream in Hr0. exists r. split; [exact Hr0|].
    destruct (sl_id r =? x) eqn:Ex; [apply Z.eqb_eq in Ex; right; auto|apply Z.eqb_neq in Ex; left; auto]. }
  constructor.
  - intros r' Hr'. destruct (Hsl r' Hr') as (r & Hr & [[_ ->]|[_ ->]]); apply (W0 e HW r Hr).
  - intros r' i' s' Hr' Hw' Hsid E'. change (get_stream (upd_slot e1 x g) (sl_kind r') i') with (get_stream e1 (sl_kind r') i') in E'.
    destruct (Hsl r' Hr') as (r & Hr & [[Hne ->]|[He ->]]).
    + destruct (Hg1 _ i' s' E') as [[[Hk Hi] ->]|[_ E0]]; [|apply (W1 e HW r i' s' Hr Hw' Hsid E0)].
      exfalso. subst i'. destruct (K5 e HK r i Hr Hsid) as (sa & Ea & Wa & _). rewrite (get_same_table e _ k i (eq_sym Hk)) in Ea.
      assert (sa = s) by congruence. subst sa. rewrite (Wa Hw') in Hw. discriminate.
    + cbn [g sl_kind sl_sid sl_id sl_woff] in *. inversion Hsid; subst i'. rewrite (get_same_table e1 _ k i (Hkc r Hr He)) in E'.
      destruct (Hg1 k i s' E') as [[_ ->]|[Ho _]]; [|exfalso; apply (same_not_other k i k i); [split; reflexivity|exact Ho]].
      exists cs, older. cbn [f g_reader set_g set_wph set_rph s_g g_wlog s_wbuf]. rewrite He, Hlog, Hb, app_nil_r. split; [reflexivity|].
      destruct (W2 e HW k i s 0%nat x cs r E) as [A _]; [rewrite Hlog; reflexivity|intros [_ Hx]; rewrite Hw in Hx; discriminate|exact Hr|exact He|exact A].
  - intros k' i' s' j w cs0 r' E' Hn Hl Hr' Hid. change (get_stream (upd_slot e1 x g) k' i') with (get_stream e1 k' i') in E'.
    assert (Hold : exists s0, get_stream e k' i' = Some s0 /\ nth_error (g_wlog (s_g s0)) j = Some (w, cs0) /\ (same k i k' i' -> j <> O) /\ ~ (j = O /\ s_wph s0 = WApp)).
    { destruct (Hg1 k' i' s' E') as [[Hs ->]|[Ho E0]].
      - exists s. destruct Hs as [Hk Hi]. subst i'. rewrite <- (get_same_table e k k' i Hk). split; [exact E|]. split; [exact Hn|]. split.
        + intros _ Hj0. apply Hl. split; [exact Hj0|reflexivity].
        + intros [_ Hx]. rewrite Hw in Hx. discriminate.
      - exists s'. split; [exact E0|]. split; [exact Hn|]. split; [|exact Hl]. intros Hs. exfalso. exact (same_not_other _ _ _ _ Hs Ho). }
    destruct Hold as (s0 & E0 & Hn0 & Hj0 & Hl0).
    destruct (Hsl r' Hr') as (r & Hr & [[Hne ->]|[He ->]]); [apply (W2 e HW k' i' s0 j w cs0 r E0 Hn0 Hl0 Hr Hid)|].
    exfalso. cbn [g sl_id] in Hid. assert (Hwx : w = x) by congruence. rewrite Hwx in Hn0.
    destruct (Honly k' i' s0 j cs0 E0 Hn0) as [Hsm Hjz]. exact (Hj0 Hsm Hjz).
  - intros k' i' s' E' Hph. change (get_stream (upd_slot e1 x g) k' i') with (get_stream e1 k' i') in E'.
    destruct (Hg1 k' i' s' E') as [[_ ->]|[_ E0]]; [exfalso; apply Hph; reflexivity|apply (W3 e HW k' i' s' E0 Hph)].
Qed.
Lemma WL_set_wph_closed : forall e k i s w', WL e -> get_stream e k i = Some s -> s_wph s <> WApp -> w' <> WApp ->
  WL (upd_stream e k i (fun s0 => set_wph s0 w')).
Proof.
  intros e k i s w' [w0 w1 w2 w3] E Hw Hw'.
  assert (Hg : forall k' i' s', get_stream (upd_stream e k i (fun s0 => set_wph s0 w')) k' i' = Some s' ->
            (same k i k' i' /\ s' = set_wph s w') \/ (other k i k' i' /\ get_stream e k' i' = Some s')).
  { intros k' i' s' E'. destruct (same_or_other k i k' i') as [Hs|Ho].
    - left. split; [exact Hs|]. rewrite (get_upd_same _ _ _ _ _ _ Hs) in E'. destruct Hs as [Hk ->].
      rewrite <- (get_same_table e k k' i' Hk), E in E'. cbn in E'. congruence.
    - right. split; [exact Ho|]. rewrite (get_upd_other _ _ _ _ _ _ Ho) in E'. exact E'. }
  constructor; rewrite ?slots_upd_stream.
  - exact w0.
  - intros r i' s' Hr Hwr Hsid E'. destruct (Hg _ i' s' E') as [[[Hk Hi] ->]|[_ E0]]; [|apply (w1 r i' s' Hr Hwr Hsid E0)].
    subst i'. cbn [set_wph s_g s_wbuf]. apply (w1 r i s Hr Hwr Hsid). rewrite <- (get_same_table e k _ i Hk). exact E.
  - intros k' i' s' j w cs r E' Hn Hl Hr Hid. destruct (Hg k' i' s' E') as [[[Hk Hi] ->]|[_ E0]]; [|apply (w2 k' i' s' j w cs r E0 Hn Hl Hr Hid)].
    subst i'. cbn [set_wph s_g] in Hn. apply (w2 k i s j w cs r E Hn); [intros [_ Hx]; exact (Hw Hx)|exact Hr|exact Hid].
  - intros k' i' s' E' Hph. destruct (Hg k' i' s' E') as [[_ ->]|[_ E0]]; [cbn; apply (w3 k i s E Hw)|apply (w3 k' i' s' E0 Hph)].
Qed.

Lemma WL_stream_step : forall e k i e', WL e -> K e -> SU e -> stream_step e k i = Some e' -> WL e'.
Proof.
  intros e k i e' HW HK HS H. unfold stream_step in H. destruct (get_stream e k i) as [s|] eqn:E; [|discriminate].
  assert (Hmain : (match s_rph s, s_wph s with
                   | RReady, WWaitOpen => Some (enqueue_idle (upd_stream e k i (fun s => set_wph s WQueue)) k (s_cap s) i)
                   | RReady, WJoin slot => Some (handover e k i slot)
                   | _, _ => None
                   end) = Some e' -> WL e').
  { intros Hm. destruct (s_rph s); try discriminate. destruct (s_wph s) eqn:Ew; try discriminate; inversion Hm; subst e'.
    - apply WL_enqueue_idle. apply (WL_set_wph_closed e k i s WQueue HW E); [rewrite Ew|]; discriminate.
    - apply (WL_handover e k i s slot HW HK HS E Ew). }
  assert (Hdisc : forall f t, WL (release (upd_stream e k i (fun _ => if fkind f =? FK_OPEN then g_open_seen (set_rph (set_inq s t) RReady) else set_inq s t)) f)).
  { intros f t. apply WL_release. apply (WL_upd_at e k i s _ HW E). destruct (fkind f =? FK_OPEN); reflexivity. }
  destruct (s_rph s) eqn:Er; destruct (s_inq s) as [|f t] eqn:Eq; destruct (s_pread s) as [p|] eqn:Ep;
    try (eapply WL_read_iter; eassumption); try (apply Hmain; exact H); try discriminate;
    try (inversion H; subst e'; apply Hdisc).
Qed.

Lemma WL_queue_step : forall e q e', WL e -> K e -> SU e -> In q (e_qs e) -> queue_step e q = Some e' -> WL e'.
Proof.
  intros e q e' HW HK HS Hin H. unfold queue_step in H.
  destruct (q_idle q) as [|i idle] eqn:Ei; [discriminate|]. destruct (q_pend q) as [|x pend'] eqn:Ep; [discriminate|].
  pose proof (SU_pop_push e q i idle x pend' HK HS Hin Ei Ep) as S3'.
  pose proof (K_pop_push e q i idle x pend' HK Hin Ei Ep) as K3'.
  pose proof (WL_pop_push e q i idle x pend' HW HK HS Hin Ei Ep) as W3'.
  set (e3 := upd_stream _ (q_kind q) i (fun s => g_push (set_wph s (WJoin x)) x)) in *.
  destruct (q_kind q =? 0) eqn:Ek; inversion H; subst e'; [|exact W3'].
  assert (Hi : In i (q_idle q)) by (rewrite Ei; left; reflexivity).
  destruct (K3 e HK q i Hin Hi) as (s & E & W & C & R).
  assert (E3 : get_stream e3 (q_kind q) i = Some (g_push (set_wph s (WJoin x)) x)).
  { unfold e3. rewrite get_upd, Bool.eqb_reflx, Nat.eqb_refl, get_emit. change (get_stream (upd_queue e _ _ _) (q_kind q) i) with (get_stream e (q_kind q) i). rewrite E. reflexivity. }
  apply (WL_handover e3 (q_kind q) i _ x W3' K3' S3' E3). reflexivity.
Qed.

Lemma WL_drain_step : forall e k i e', WL e -> drain_step e k i = Some e' -> WL e'.
Proof.
  intros e k i e' HW H. unfold drain_step in H. destruct (get_stream e k i) as [s|] eqn:E; [|discriminate].
  destruct (s_rph s); try discriminate. destruct (s_pread s) as [p|]; [|discriminate].
  destruct (read_iter e k i s p) as [e1|] eqn:Er; inversion H; subst e'.
  - eapply WL_read_iter; eassumption.
  - apply WL_complete_read. exact HW.
Qed.

Lemma WL_slot_op : forall e o r, WL e -> K e -> Gok e -> 0 < wfs (e_cfg e) -> In r (e_slots e) -> WL (slot_op e o r).
Proof.
  intros e o r HW HK HG Hwf Hin. unfold slot_op. destruct (sl_sid r) as [i|] eqn:Es; [|apply WL_skip; exact HW].
  destruct (get_stream e (sl_kind r) i) as [s|] eqn:E; [|apply WL_skip; exact HW].
  destruct o; try exact HW.
  - destruct (sl_w r) eqn:Ew; [|apply WL_skip; exact HW].
    destruct (HG _ _ _ E) as (_ & G2 & _). apply (WL_op_write e r i s n HW HK Hin Ew Es E Hwf G2).
  - destruct (sl_w r) eqn:Ew; [|apply WL_skip; exact HW]. apply (WL_op_flush e r i s HW HK Hin Ew Es E).
  - destruct (sl_r r && negb _); [|apply WL_skip; exact HW]. unfold op_read. apply WL_upd_stream_neutral; [exact HW|intros s1; reflexivity].
  - destruct (sl_w r) eqn:Ew; [|apply WL_skip; exact HW]. apply (WL_op_dropw e r i s HW HK Hin Ew Es E).
  - destruct (sl_r r && negb _); [|apply WL_skip; exact HW]. unfold op_dropr.
    apply WL_upd_stream_neutral; [|intros s1; reflexivity].
    destruct (s_cache s); [apply WL_release|]; (apply WL_upd_slot_neutral; [exact HW|intros r1; reflexivity]).
Qed.
(* ================= writer links, converse: a stream in WApp has its writer handle ================= *)
Definition wc_slot (r : slotrec) := (sl_id r, sl_kind r, sl_sid r, sl_w r).
Definition wc_stream (s : rstream) := (s_wph s, sids s).
Definition WC (e : endpoint) : Prop :=
  forall k i s w rest r, get_stream e k i = Some s -> s_wph s = WApp -> sids s = w :: rest ->
    In r (e_slots e) -> sl_id r = w -> sl_w r = true /\ sl_sid r = Some i /\ (sl_kind r =? 0) = (k =? 0).

Lemma wc_slot_eq : forall r' r, wc_slot r' = wc_slot r ->
  sl_id r' = sl_id r /\ sl_kind r' = sl_kind r /\ sl_sid r' = sl_sid r /\ sl_w r' = sl_w r.
Proof. intros r' r H. unfold wc_slot in H. inversion H. auto. Qed.
Lemma wc_stream_eq : forall s' s, wc_stream s' = wc_stream s -> s_wph s' = s_wph s /\ sids s' = sids s.
Proof. intros s' s H. unfold wc_stream in H. inversion H. auto. Qed.

Lemma wc_get : forall e e' k i s', map wc_stream (e_acc e') = map wc_stream (e_acc e) -> map wc_stream (e_con e') = map wc_stream (e_con e) ->
  get_stream e' k i = Some s' -> exists s, get_stream e k i = Some s /\ wc_stream s' = wc_stream s.
Proof.
  intros e e' k i s' Ha Hc H. unfold get_stream, table in *.
  assert (Hm : forall l l' : list rstream, map wc_stream l' = map wc_stream l -> nth_error l' i = Some s' -> exists s, nth_error l i = Some s /\ wc_stream s' = wc_stream s).
  { intros l l' Hl Hn. pose proof (nth_error_map wc_stream i l') as H1. rewrite Hn, Hl, nth_error_map in H1. cbn [option_map] in H1.
    destruct (nth_error l i) as [s|]; [|discriminate]. exists s. split; [reflexivity|]. cbn in H1. congruence. }
  destruct (k =? 0); [apply (Hm _ _ Ha H)|apply (Hm _ _ Hc H)].
Qed.

Lemma WC_same : forall e e', map wc_slot (e_slots e') = map wc_slot (e_slots e) ->
  map wc_stream (e_acc e') = map wc_stream (e_acc e) -> map wc_stream (e_con e') = map wc_stream (e_con e) ->
  WC e -> WC e'.
Proof.
  intros e e' Hs Ha Hc HW k i s' w rest r' E' Hph Hsd Hr' Hid.
  assert (Hin : exists r, In r (e_slots e) /\ wc_slot r' = wc_slot r).
  { apply (in_map wc_slot) in Hr'. rewrite Hs in Hr'. apply in_map_iff in Hr'. destruct Hr' as (r & A & B). exists r. auto. }
  destruct Hin as (r & Hr & Hv). destruct (wc_slot_eq _ _ Hv) as (V1 & V2 & V3 & V4).
  destruct (wc_get e e' k i s' Ha Hc E') as (s & E & Hv'). destruct (wc_stream_eq _ _ Hv') as (A & B).
  rewrite V2, V3, V4. apply (HW k i s w rest r E); congruence.
Qed.

Lemma WC_upd_stream_neutral : forall e k i f, WC e -> (forall s, wc_stream (f s) = wc_stream s) -> WC (upd_stream e k i f).
Proof.
  intros e k i f HW Hf. apply (WC_same e); [rewrite slots_upd_stream; reflexivity| | |exact HW];
    unfold upd_stream, set_table, table; destruct (k =? 0); cbn [set_acc set_con e_acc e_con]; try reflexivity; apply map_upd_nth_same; intros s _; apply Hf.
Qed.
Lemma WC_upd_at : forall e k i s f, WC e -> get_stream e k i = Some s -> wc_stream (f s) = wc_stream s -> WC (upd_stream e k i f).
Proof.
  intros e k i s f HW E Hf. rewrite (upd_stream_const e k i s f E).
  assert (Hm : forall l : list rstream, nth_error l i = Some s -> map wc_stream (upd_nth i (fun _ => f s) l) = map wc_stream l).
  { intros l Hl. apply map_upd_nth_same. intros s0 E0. congruence. }
  apply (WC_same e); [rewrite slots_upd_stream; reflexivity| | |exact HW];
    unfold get_stream, table in E; unfold upd_stream, set_table, table; destruct (k =? 0); cbn [set_acc set_con e_acc e_con]; try reflexivity; apply Hm; exact E.
Qed.
Lemma WC_upd_slot_neutral : forall e x g, WC e -> (forall r, wc_slot (g r) = wc_slot r) -> WC (upd_slot e x g).
Proof.
  intros e x g HW Hg. apply (WC_same e); try reflexivity; [|exact HW].
  unfold upd_slot. cbn [set_slots e_slots]. rewrite map_map. apply map_ext. intros r. destruct (sl_id r =? x); [apply Hg|reflexivity].
Qed.

Ltac csame e := intros; apply (WC_same e); try reflexivity; assumption.
Lemma WC_set_d : forall e x, WC e -> WC (set_d e x). Proof. intros e; csame e. Qed.
Lemma WC_set_qs : forall e x, WC e -> WC (set_qs e x). Proof. intros e; csame e. Qed.
Lemma WC_set_events : forall e x, WC e -> WC (set_events e x). Proof. intros e; csame e. Qed.
Lemma WC_set_out : forall e x l, WC e -> WC (set_out e x l). Proof. intros e; csame e. Qed.
Lemma WC_set_fail : forall e x, WC e -> WC (set_fail e x). Proof. intros e; csame e. Qed.
Lemma WC_set_gone : forall e, WC e -> WC (set_gone e). Proof. intros e; csame e. Qed.
Lemma WC_add_event : forall e ev, WC e -> WC (add_event e ev). Proof. intros e; csame e. Qed.
Lemma WC_release : forall e f, WC e -> WC (release e f). Proof. intros e; csame e. Qed.
Lemma WC_upd_queue : forall e k c f, WC e -> WC (upd_queue e k c f). Proof. intros e; csame e. Qed.
Lemma WC_enqueue_idle : forall e k c i, WC e -> WC (enqueue_idle e k c i). Proof. intros e; csame e. Qed.
Lemma WC_skip : forall e s, WC e -> WC (skip e s). Proof. intros e; csame e. Qed.
Lemma WC_emit : forall e h d, WC e -> WC (emit e h d).
Proof. intros e h d HW. unfold emit. destruct (e_gone e); [apply WC_set_fail; exact HW|]. destruct d; apply WC_set_out; exact HW. Qed.
Lemma WC_emit_frames : forall ps e k i, WC e -> WC (emit_frames e k i ps).
Proof. unfold emit_frames. induction ps as [|p ps IH]; intros e k i HW; cbn [fold_left]; [exact HW|]. apply IH, WC_emit, HW. Qed.
Lemma WC_emit_data : forall ps e k i, WC e -> WC (emit_data e k i ps).
Proof.
  intros. unfold emit_data. apply WC_upd_stream_neutral; [apply WC_emit_frames; assumption|]. intros s. unfold wc_stream. rewrite sids_sent. reflexivity.
Qed.
Lemma WC_fold_release : forall rel e, WC e -> WC (fold_left release rel e).
Proof. induction rel as [|f rel IH]; intros e HW; cbn [fold_left]; [exact HW|]. apply IH, WC_release, HW. Qed.
Lemma WC_complete_read : forall e k i p, WC e -> WC (complete_read e k i p).
Proof.
  intros. unfold complete_read. apply WC_add_event, WC_upd_slot_neutral; [|intros r; reflexivity].
  apply WC_upd_stream_neutral; [assumption|intros s; reflexivity].
Qed.
Lemma WC_read_iter : forall e k i s p e', WC e -> get_stream e k i = Some s -> read_iter e k i s p = Some e' -> WC e'.
Proof.
  intros e k i s p e' HW E H. unfold read_iter in H. destruct (read_iter_s s p) as [|s' rel done] eqn:Er; [discriminate|].
  inversion H; subst e'. clear H.
  assert (Hm : WC (fold_left release rel (upd_stream e k i (fun _ => s')))).
  { apply WC_fold_release. apply (WC_upd_at e k i s (fun _ => s') HW E).
    destruct (read_iter_s_keep _ _ _ _ _ Er) as [(A & B & _) C]. unfold wc_stream, sids. rewrite A, C. reflexivity. }
  destruct done; [|exact Hm]. destruct (s_pread s'); [|exact Hm]. apply WC_complete_read. exact Hm.
Qed.

Lemma WC_upd_nonapp : forall e k i f, WC e -> (forall s, get_stream e k i = Some s -> s_wph (f s) <> WApp) -> WC (upd_stream e k i f).
Proof.
  intros e k i f HW Hf k' i' s' w rest r E' Hph Hsd Hr Hid. rewrite slots_upd_stream in Hr.
  destruct (same_or_other k i k' i') as [Hs|Ho].
  - exfalso. rewrite (get_upd_same _ _ _ _ _ _ Hs) in E'. destruct Hs as [Hk ->].
    destruct (get_stream e k' i') as [s|] eqn:E; [|discriminate]. cbn in E'. inversion E'; subst s'.
    apply (Hf s); [rewrite (get_same_table e k k' i' Hk); exact E|exact Hph].
  - rewrite (get_upd_other _ _ _ _ _ _ Ho) in E'. apply (HW k' i' s' w rest r E' Hph Hsd Hr Hid).
Qed.

Lemma WC_after_close : forall e k i, WC e -> WC (after_close e k i).
Proof.
  intros e k i HW. unfold after_close. destruct (get_stream e k i); [|exact HW].
  destruct (k =? 0); [|apply WC_enqueue_idle]; (apply WC_upd_nonapp; [exact HW|intros s0 _; cbn; discriminate]).
Qed.
Lemma WC_send_close : forall e k i, WC e -> WC (send_close e k i).
Proof.
  intros e k i HW. unfold send_close. destruct (get_stream e k i) as [s|]; [|exact HW].
  apply WC_after_close, WC_emit. apply WC_upd_stream_neutral; [|intros s1; reflexivity].
  destruct (s_wbuf s); [exact HW|apply WC_emit_data; exact HW].
Qed.

Lemma WC_handover : forall e k i s x, WC e -> K e -> SU e -> get_stream e k i = Some s -> s_wph s = WJoin x -> WC (handover e k i x).
Proof.
  intros e k i s x HW HK HS E Hj. unfold handover. apply WC_add_event.
  set (f := fun s0 => g_reader (set_wph (set_rph s0 RApp) WApp)).
  set (g := fun r : slotrec => mkSlot (sl_id r) (sl_kind r) (Some i) true true (sl_woff r) (mkLG [] match get_stream e k i with Some s0 => g_rn (s_g s0) | None => O end false)).
  destruct (S4 e HS k i s x E) as [(rest0 & Hsd0) Hnone]; [unfold joinx; rewrite Hj; reflexivity|].
  intros k' i' s' w rest r' E' Hph Hsd Hr' Hid.
  destruct (in_upd_slot _ _ _ _ Hr') as (r0 & Hr0 & Hrr). rewrite slots_upd_stream in Hr0.
  assert (Hid0 : sl_id r0 = w). { rewrite Hrr in Hid. destruct (sl_id r0 =? x); exact Hid. }
  change (get_stream (upd_slot (upd_stream e k i f) x g) k' i') with (get_stream (upd_stream e k i f) k' i') in E'.
  destruct (same_or_other k i k' i') as [Hs|Ho].
  - rewrite (get_upd_same _ _ _ _ _ _ Hs) in E'. destruct Hs as [Hk Hi]. subst i'.
    rewrite <- (get_same_table e k k' i Hk), E in E'. cbn [option_map] in E'. inversion E'; subst s'.
    assert (Hw : w = x). { unfold f, sids in Hsd. cbn [g_reader set_g s_g g_wlog set_wph set_rph] in Hsd. unfold sids in Hsd0. congruence. }
    assert (Hx : sl_id r0 = x) by congruence. rewrite Hx, Z.eqb_refl in Hrr. rewrite Hrr. cbn [g sl_w sl_sid sl_kind]. split; [reflexivity|]. split; [reflexivity|].
    rewrite <- Hk. apply (K4j e HK k i s x r0 E Hj Hr0 Hx).
  - rewrite (get_upd_other _ _ _ _ _ _ Ho) in E'.
    destruct (HW k' i' s' w rest r0 E' Hph Hsd Hr0 Hid0) as (A & B & C).
    destruct (sl_id r0 =? x) eqn:Ex; [apply Z.eqb_eq in Ex; rewrite (Hnone r0 Hr0 Ex) in B; discriminate|]. subst r'. auto.
Qed.

Lemma WC_op_open : forall e kind cap slot, ~ In slot (map sl_id (e_slots e)) -> SU e -> WC e -> WC (op_open e kind cap slot).
Proof.
  intros e kind cap slot Hni HS HW. unfold op_open. apply WC_upd_queue.
  intros k i s w rest r E Hph Hsd Hr Hid. cbn [set_slots e_slots] in Hr.
  change (get_stream (set_slots e _) k i) with (get_stream e k i) in E.
  apply in_app_or in Hr. destruct Hr as [Hr|[<-|[]]]; [apply (HW k i s w rest r E Hph Hsd Hr Hid)|].
  exfalso. cbn [sl_id] in Hid. subst w. destruct (Wid e HS k i s slot E) as (r0 & Hr0 & Hid0 & _); [rewrite Hsd; left; reflexivity|].
  apply Hni. rewrite <- Hid0. apply in_map. exact Hr0.
Qed.

Lemma WC_op_dropw : forall e r i s, WC e -> K e -> In r (e_slots e) -> sl_sid r = Some i ->
  get_stream e (sl_kind r) i = Some s -> WC (op_dropw e r i).
Proof.
  intros e r i s HW HK Hin Hsid E. unfold op_dropw. set (k := sl_kind r) in *.
  set (g := fun r0 => mkSlot (sl_id r0) (sl_kind r0) (sl_sid r0) (sl_r r0) false (sl_woff r0) (sl_g r0)).
  set (e1 := upd_slot e (sl_id r) g).
  assert (E1 : get_stream e1 k i = Some s) by exact E.
  destruct (send_close_self' e1 k i s E1) as (s' & E' & [Hc Hb'] & Hl').
  intros k' i' s0 w rest r' E0 Hph Hsd Hr' Hid.
  destruct (same_or_other k i k' i') as [Hs|Ho].
  - exfalso. destruct Hs as [Hk ->]. rewrite <- (get_same_table _ k k' i' Hk) in E0. assert (s0 = s') by congruence. subst s0.
    destruct Hc as [Hc|Hc]; rewrite Hc in Hph; discriminate.
  - rewrite get_send_close_other in E0 by exact Ho. change (get_stream e1 k' i') with (get_stream e k' i') in E0.
    rewrite slots_send_close in Hr'. destruct (in_upd_slot _ _ _ _ Hr') as (r0 & Hr0 & Hrr).
    assert (Hid0 : sl_id r0 = w). { rewrite Hrr in Hid. destruct (sl_id r0 =? sl_id r); exact Hid. }
    destruct (HW k' i' s0 w rest r0 E0 Hph Hsd Hr0 Hid0) as (A & B & C).
    destruct (sl_id r0 =? sl_id r) eqn:Ex; [|subst r'; auto].
    exfalso. apply Z.eqb_eq in Ex. assert (r0 = r) by (apply (slot_unique e r0 r HK Hr0 Hin Ex)). subst r0.
    assert (i' = i) by congruence. subst i'. destruct Ho as [Ho|Ho]; [apply Ho; unfold k; exact C|apply Ho; reflexivity].
Qed.

Lemma WC_stream_step : forall e k i e', WC e -> K e -> SU e -> stream_step e k i = Some e' -> WC e'.
Proof.
  intros e k i e' HW HK HS H. unfold stream_step in H. destruct (get_stream e k i) as [s|] eqn:E; [|discriminate].
  assert (Hmain : (match s_rph s, s_wph s with
                   | RReady, WWaitOpen => Some (enqueue_idle (upd_stream e k i (fun s => set_wph s WQueue)) k (s_cap s) i)
                   | RReady, WJoin slot => Some (handover e k i slot)
                   | _, _ => None
                   end) = Some e' -> WC e').
  { intros Hm. destruct (s_rph s); try discriminate. destruct (s_wph s) eqn:Ew; try discriminate; inversion Hm; subst e'.
    - apply WC_enqueue_idle. apply WC_upd_nonapp; [exact HW|intros s0 _; cbn; discriminate].
    - apply (WC_handover e k i s slot HW HK HS E Ew). }
  assert (Hdisc : forall f t, WC (release (upd_stream e k i (fun _ => if fkind f =? FK_OPEN then g_open_seen (set_rph (set_inq s t) RReady) else set_inq s t)) f)).
  { intros f t. apply WC_release. apply (WC_upd_at e k i s _ HW E). destruct (fkind f =? FK_OPEN); reflexivity. }
  destruct (s_rph s) eqn:Er; destruct (s_inq s) as [|f t] eqn:Eq; destruct (s_pread s) as [p|] eqn:Ep;
    try (eapply WC_read_iter; eassumption); try (apply Hmain; exact H); try discriminate;
    try (inversion H; subst e'; apply Hdisc).
Qed.

Lemma WC_queue_step : forall e q e', WC e -> K e -> SU e -> In q (e_qs e) -> queue_step e q = Some e' -> WC e'.
Proof.
  intros e q e' HW HK HS Hin H. unfold queue_step in H.
  destruct (q_idle q) as [|i idle] eqn:Ei; [discriminate|]. destruct (q_pend q) as [|x pend'] eqn:Ep; [discriminate|].
  pose proof (SU_pop_push e q i idle x pend' HK HS Hin Ei Ep) as S3'.
  pose proof (K_pop_push e q i idle x pend' HK Hin Ei Ep) as K3'.
  assert (W3' : WC (upd_stream (emit (upd_queue e (q_kind q) (q_cap q) (fun _ => mkQueue (q_kind q) (q_cap q) idle pend')) (mk_header FK_OPEN (kind_bits (q_kind q)) i) None)
                 (q_kind q) i (fun s => g_push (set_wph s (WJoin x)) x))).
  { apply WC_upd_nonapp; [apply WC_emit, WC_upd_queue, HW|intros s0 _; cbn; discriminate]. }
  set (e3 := upd_stream _ (q_kind q) i (fun s => g_push (set_wph s (WJoin x)) x)) in *.
  destruct (q_kind q =? 0) eqn:Ek; inversion H; subst e'; [|exact W3'].
  assert (Hi : In i (q_idle q)) by (rewrite Ei; left; reflexivity).
  destruct (K3 e HK q i Hin Hi) as (s & E & W & C & R).
  assert (E3 : get_stream e3 (q_kind q) i = Some (g_push (set_wph s (WJoin x)) x)).
  { unfold e3. rewrite get_upd, Bool.eqb_reflx, Nat.eqb_refl, get_emit. change (get_stream (upd_queue e _ _ _) (q_kind q) i) with (get_stream e (q_kind q) i). rewrite E. reflexivity. }
  apply (WC_handover e3 (q_kind q) i _ x W3' K3' S3' E3). reflexivity.
Qed.

Lemma WC_drain_step : forall e k i e', WC e -> drain_step e k i = Some e' -> WC e'.
Proof.
  intros e k i e' HW H. unfold drain_step in H. destruct (get_stream e k i) as [s|] eqn:E; [|discriminate].
  destruct (s_rph s); try discriminate. destruct (s_pread s) as [p|]; [|discriminate].
  destruct (read_iter e k i s p) as [e1|] eqn:Er; inversion H; subst e'.
  - eapply WC_read_iter; eassumption.
  - apply WC_complete_read. exact HW.
Qed.

Lemma WC_slot_op : forall e o r, WC e -> K e -> In r (e_slots e) -> WC (slot_op e o r).
Proof.
  intros e o r HW HK Hin. unfold slot_op. destruct (sl_sid r) as [i|] eqn:Es; [|apply WC_skip; exact HW].
  destruct (get_stream e (sl_kind r) i) as [s|] eqn:E; [|apply WC_skip; exact HW].
  destruct o; try exact HW.
  - destruct (sl_w r); [|apply WC_skip; exact HW]. unfold op_write. destruct (write_all _ _ _) as [frames buf].
    apply WC_upd_slot_neutral; [|intros r1; reflexivity].
    apply WC_upd_stream_neutral; [apply WC_emit_data; exact HW|intros s1; reflexivity].
  - destruct (sl_w r); [|apply WC_skip; exact HW]. unfold op_flush. destruct (s_wbuf s); [exact HW|].
    apply WC_upd_stream_neutral; [apply WC_emit_data; exact HW|intros s1; reflexivity].
  - destruct (sl_r r && negb _); [|apply WC_skip; exact HW]. unfold op_read. apply WC_upd_stream_neutral; [exact HW|intros s1; reflexivity].
  - destruct (sl_w r) eqn:Ew; [|apply WC_skip; exact HW]. apply (WC_op_dropw e r i s HW HK Hin Es E).
  - destruct (sl_r r && negb _); [|apply WC_skip; exact HW]. unfold op_dropr.
    apply WC_upd_stream_neutral; [|intros s1; reflexivity].
    destruct (s_cache s); [apply WC_release|]; (apply WC_upd_slot_neutral; [exact HW|intros r1; reflexivity]).
Qed.
(* ================= end of stream seen by a reader handle ================= *)
Definition re_slot (r : slotrec) := (sl_id r, sl_kind r, sl_sid r, sl_r r, g_eos (sl_g r)).
Definition re_stream (s : rstream) := (s_closed s, pendb s).
Definition RE (e : endpoint) : Prop :=
  forall r i s, In r (e_slots e) -> sl_r r = true -> sl_sid r = Some i -> get_stream e (sl_kind r) i = Some s ->
    g_eos (sl_g r) = true -> s_closed s = true /\ pendb s = [].

Lemma re_slot_eq : forall r' r, re_slot r' = re_slot r ->
  sl_id r' = sl_id r /\ sl_kind r' = sl_kind r /\ sl_sid r' = sl_sid r /\ sl_r r' = sl_r r /\ g_eos (sl_g r') = g_eos (sl_g r).
Proof. intros r' r H. unfold re_slot in H. inversion H. auto. Qed.

Lemma RE_same : forall e e', map re_slot (e_slots e') = map re_slot (e_slots e) ->
  e_acc e' = e_acc e -> e_con e' = e_con e -> RE e -> RE e'.
Proof.
  intros e e' Hs Ha Hc HR r' i s Hr' Hrr Hsid E Heos.
  apply (in_map re_slot) in Hr'. rewrite Hs in Hr'. apply in_map_iff in Hr'. destruct Hr' as (r & Hv & Hr).
  symmetry in Hv. destruct (re_slot_eq _ _ Hv) as (V1 & V2 & V3 & V4 & V5).
  assert (E0 : get_stream e (sl_kind r) i = Some s) by (unfold get_stream, table in *; rewrite <- Ha, <- Hc, <- V2; exact E).
  apply (HR r i s Hr); congruence.
Qed.
Ltac esame e := intros; apply (RE_same e); try reflexivity; assumption.
Lemma RE_set_d : forall e x, RE e -> RE (set_d e x). Proof. intros e; esame e. Qed.
Lemma RE_set_qs : forall e x, RE e -> RE (set_qs e x). Proof. intros e; esame e. Qed.
Lemma RE_set_events : forall e x, RE e -> RE (set_events e x). Proof. intros e; esame e. Qed.
Lemma RE_set_out : forall e x l, RE e -> RE (set_out e x l). Proof. intros e; esame e. Qed.
Lemma RE_set_fail : forall e x, RE e -> RE (set_fail e x). Proof. intros e; esame e. Qed.
Lemma RE_set_gone : forall e, RE e -> RE (set_gone e). Proof. intros e; esame e. Qed.
Lemma RE_add_event : forall e ev, RE e -> RE (add_event e ev). Proof. intros e; esame e. Qed.
Lemma RE_release : forall e f, RE e -> RE (release e f). Proof. intros e; esame e. Qed.
Lemma RE_upd_queue : forall e k c f, RE e -> RE (upd_queue e k c f). Proof. intros e; esame e. Qed.
Lemma RE_enqueue_idle : forall e k c i, RE e -> RE (enqueue_idle e k c i). Proof. intros e; esame e. Qed.
Lemma RE_skip : forall e s, RE e -> RE (skip e s). Proof. intros e; esame e. Qed.
Lemma RE_emit : forall e h d, RE e -> RE (emit e h d).
Proof. intros e h d HW. unfold emit. destruct (e_gone e); [apply RE_set_fail; exact HW|]. destruct d; apply RE_set_out; exact HW. Qed.
Lemma RE_emit_frames : forall ps e k i, RE e -> RE (emit_frames e k i ps).
Proof. unfold emit_frames. induction ps as [|p ps IH]; intros e k i HW; cbn [fold_left]; [exact HW|]. apply IH, RE_emit, HW. Qed.
Lemma RE_fold_release : forall rel e, RE e -> RE (fold_left release rel e).
Proof. induction rel as [|f rel IH]; intros e HW; cbn [fold_left]; [exact HW|]. apply IH, RE_release, HW. Qed.

(* the stream changes, "closed and nothing pending" stays *)
Lemma RE_upd_stream_mono : forall e k i f, RE e ->
  (forall s, get_stream e k i = Some s -> s_closed s = true -> pendb s = [] -> s_closed (f s) = true /\ pendb (f s) = []) ->
  RE (upd_stream e k i f).
Proof.
  intros e k i f HR Hf r i' s' Hr Hrr Hsid E' Heos. rewrite slots_upd_stream in Hr.
  destruct (same_or_other k i (sl_kind r) i') as [Hs|Ho].
  - rewrite (get_upd_same _ _ _ _ _ _ Hs) in E'. destruct Hs as [Hk ->].
    destruct (get_stream e (sl_kind r) i') as [s|] eqn:E; [|discriminate]. cbn in E'. inversion E'; subst s'.
    destruct (HR r i' s Hr Hrr Hsid E Heos) as [A B]. apply Hf; [rewrite (get_same_table e k _ i' Hk); exact E|exact A|exact B].
  - rewrite (get_upd_other _ _ _ _ _ _ Ho) in E'. apply (HR r i' s' Hr Hrr Hsid E' Heos).
Qed.
Lemma RE_upd_stream_neutral : forall e k i f, RE e -> (forall s, re_stream (f s) = re_stream s) -> RE (upd_stream e k i f).
Proof.
  intros e k i f HR Hf. apply RE_upd_stream_mono; [exact HR|]. intros s _ A B. specialize (Hf s). unfold re_stream in Hf. inversion Hf as [[H1 H2]]. rewrite H1, H2. auto.
Qed.
(* no live reader points at the stream *)
Lemma RE_upd_noreader : forall e k i f, RE e ->
  (forall r, In r (e_slots e) -> sl_r r = true -> sl_sid r = Some i -> (sl_kind r =? 0) = (k =? 0) -> False) ->
  RE (upd_stream e k i f).
Proof.
  intros e k i f HR Hno r i' s' Hr Hrr Hsid E' Heos. rewrite slots_upd_stream in Hr.
  destruct (same_or_other k i (sl_kind r) i') as [Hs|Ho].
  - exfalso. destruct Hs as [Hk ->]. apply (Hno r Hr Hrr Hsid). symmetry; exact Hk.
  - rewrite (get_upd_other _ _ _ _ _ _ Ho) in E'. apply (HR r i' s' Hr Hrr Hsid E' Heos).
Qed.
Lemma RE_upd_slot_mono : forall e x g, RE e ->
  (forall r, sl_r (g r) = true -> g_eos (sl_g (g r)) = true ->
     sl_r r = true /\ g_eos (sl_g r) = true /\ sl_sid (g r) = sl_sid r /\ sl_kind (g r) = sl_kind r) ->
  RE (upd_slot e x g).
Proof.
  intros e x g HR Hg r' i s Hr' Hrr Hsid E Heos. destruct (in_upd_slot _ _ _ _ Hr') as (r & Hr & Hx).
  change (get_stream (upd_slot e x g) (sl_kind r') i) with (get_stream e (sl_kind r') i) in E.
  destruct (sl_id r =? x); subst r'; [|apply (HR r i s Hr Hrr Hsid E Heos)].
  destruct (Hg r Hrr Heos) as (A & B & C & D). rewrite D in E. rewrite C in Hsid. apply (HR r i s Hr A Hsid E B).
Qed.
Lemma RE_emit_data : forall ps e k i, RE e -> RE (emit_data e k i ps).
Proof. intros. unfold emit_data. apply RE_upd_stream_neutral; [apply RE_emit_frames; assumption|]. intros s. reflexivity. Qed.
Lemma RE_after_close : forall e k i, RE e -> RE (after_close e k i).
Proof.
  intros e k i HW. unfold after_close. destruct (get_stream e k i); [|exact HW].
  destruct (k =? 0); [|apply RE_enqueue_idle]; (apply RE_upd_stream_neutral; [exact HW|intros s0; reflexivity]).
Qed.
Lemma RE_send_close : forall e k i, RE e -> RE (send_close e k i).
Proof.
  intros e k i HW. unfold send_close. destruct (get_stream e k i) as [s|]; [|exact HW].
  apply RE_after_close, RE_emit. apply RE_upd_stream_neutral; [|intros s1; reflexivity].
  destruct (s_wbuf s); [exact HW|apply RE_emit_data; exact HW].
Qed.

Lemma RE_complete_read : forall e k i s p, RE e -> get_stream e k i = Some s ->
  (forall r0, In r0 (e_slots e) -> sl_id r0 = pr_slot p -> sl_sid r0 = Some i /\ (sl_kind r0 =? 0) = (k =? 0)) ->
  ((pr_len p <? pr_want p) = true -> s_closed s = true) -> RE (complete_read e k i p).
Proof.
  intros e k i s p HR E Hslot Hshort. unfold complete_read. apply RE_add_event.
  set (e1 := upd_stream e k i (fun s0 => set_pread s0 None)).
  intros r' i' s' Hr' Hrr Hsid E' Heos. destruct (in_upd_slot _ _ _ _ Hr') as (r0 & Hr0 & Hx). unfold e1 in Hr0. rewrite slots_upd_stream in Hr0.
  change (get_stream (upd_slot e1 _ _) (sl_kind r') i') with (get_stream e1 (sl_kind r') i') in E'. unfold e1 in E'.
  assert (Hsame : forall kk, (k =? 0) = (kk =? 0) -> get_stream (upd_stream e k i (fun s0 => set_pread s0 None)) kk i = Some s' -> s' = set_pread s None).
  { intros kk Hk H. rewrite (get_upd_same _ _ _ _ _ _ (conj Hk eq_refl)) in H. rewrite <- (get_same_table e k kk i Hk), E in H. cbn in H. congruence. }
  destruct (sl_id r0 =? pr_slot p) eqn:Ex.
  - apply Z.eqb_eq in Ex. destruct (Hslot r0 Hr0 Ex) as [Hs0 Hk0]. subst r'. cbn [sl_kind sl_sid sl_r sl_g g_eos] in *.
    assert (i' = i) by congruence. subst i'. rewrite (Hsame (sl_kind r0) (eq_sym Hk0) E'). cbn [set_pread s_closed]. split; [|reflexivity].
    destruct (g_eos (sl_g r0)) eqn:Eo; [|cbn in Heos; apply Hshort; exact Heos].
    apply (HR r0 i s Hr0 Hrr Hsid); [rewrite (get_same_table e _ k i Hk0); exact E|exact Eo].
  - subst r'. destruct (same_or_other k i (sl_kind r0) i') as [[Hk Hi]|Ho].
    + subst i'. rewrite (Hsame (sl_kind r0) Hk E'). cbn [set_pread s_closed]. split; [|reflexivity].
      apply (HR r0 i s Hr0 Hrr Hsid); [rewrite <- (get_same_table e k _ i Hk); exact E|exact Heos].
    + rewrite (get_upd_other _ _ _ _ _ _ Ho) in E'. apply (HR r0 i' s' Hr0 Hrr Hsid E' Heos).
Qed.

Lemma read_iter_s_eos : forall s p s' rel done, read_iter_s s p = RStep s' rel done ->
  (s_closed s = true /\ s' = s /\ rel = [] /\ done = true) \/
  (s_closed s = false /\ forall p', done = true -> s_pread s' = Some p' -> pr_slot p' = pr_slot p /\ (pr_len p' <? pr_want p') = false).
Proof.
  intros s p s' rel done H. unfold read_iter_s in H.
  destruct (s_closed s) eqn:Ec. { inversion H; subst. left. auto. }
  right. split; [reflexivity|].
  assert (Hgen : forall f s1,
    (if fkind f =? FK_CLOSE then RStep (set_closed s1 true) [f] false
      else if fkind f =? FK_DATA then
        let n := Z.to_nat (Z.min (pr_want p - pr_len p) (Z.of_nat (length (fdata f)))) in
        let got := firstn n (fdata f) in
        let rest := skipn n (fdata f) in
        let p' := mkPread (pr_slot p) (pr_want p) (pr_len p + Z.of_nat n) (got :: pr_chunks p) in
        let s2 := g_chunk (set_pread s1 (Some p')) got in
        let done := pr_len p' =? pr_want p in
        match rest with
        | [] => RStep s2 [f] done
        | _ => RStep (set_cache s2 (Some (mkFrame (fkind f) rest (fsize f)))) [] done
        end
      else RStep s1 [f] false) = RStep s' rel done ->
    forall p', done = true -> s_pread s' = Some p' -> pr_slot p' = pr_slot p /\ (pr_len p' <? pr_want p') = false).
  { intros f s1 HH p' Hd Hp'.
    destruct (fkind f =? FK_CLOSE); [inversion HH; subst; discriminate|].
    destruct (fkind f =? FK_DATA); [|inversion HH; subst; discriminate].
    cbv zeta in HH. set (n := Z.to_nat _) in *.
    assert (Hx : s_pread s' = Some (mkPread (pr_slot p) (pr_want p) (pr_len p + Z.of_nat n) (firstn n (fdata f) :: pr_chunks p)) ->
              done = ((pr_len p + Z.of_nat n) =? pr_want p) -> pr_slot p' = pr_slot p /\ (pr_len p' <? pr_want p') = false).
    { intros A C. rewrite A in Hp'. inversion Hp'; subst p'. cbn [pr_slot pr_len pr_want]. split; [reflexivity|].
      rewrite Hd in C. symmetry in C. apply Z.eqb_eq in C. apply Z.ltb_ge. lia. }
    destruct (skipn n (fdata f)); inversion HH; subst; (apply Hx; [reflexivity|symmetry; assumption]). }
  destruct (s_cache s) as [fc|]; [apply (Hgen fc (set_cache s None)); exact H|].
  destruct (s_inq s) as [|f t]; [discriminate|]. apply (Hgen f (set_inq s t)); exact H.
Qed.

Lemma RE_read_iter : forall e k i s p e', RE e -> K e -> RL e -> get_stream e k i = Some s -> s_pread s = Some p ->
  read_iter e k i s p = Some e' -> RE e'.
Proof.
  intros e k i s p e' HE HK HR E Hp H. unfold read_iter in H. destruct (read_iter_s s p) as [|s' rel done] eqn:Er; [discriminate|].
  inversion H; subst e'. clear H.
  destruct (R1 e HR k i s p E Hp) as (r0 & Hr0 & Hid0 & Hrr0 & Hsid0 & Hk0).
  assert (Hslot : forall p', pr_slot p' = pr_slot p -> forall r, In r (e_slots e) -> sl_id r = pr_slot p' -> sl_sid r = Some i /\ (sl_kind r =? 0) = (k =? 0)).
  { intros p' Hp' r Hr Hid. assert (r = r0) by (apply (slot_unique e r r0 HK Hr Hr0); congruence). subst r. auto. }
  assert (Hsl : forall rel0 x, e_slots (fold_left release rel0 (upd_stream e k i (fun _ => x))) = e_slots e).
  { intros rel0 x. assert (Hf : forall l e0, e_slots (fold_left release l e0) = e_slots e0) by (induction l as [|f l IH]; intros e0; cbn [fold_left]; [reflexivity|rewrite IH; reflexivity]).
    rewrite Hf, slots_upd_stream. reflexivity. }
  assert (Em : forall x, get_stream (fold_left release rel (upd_stream e k i (fun _ => x))) k i = Some x).
  { intros x. rewrite get_fold_release, get_upd, Bool.eqb_reflx, Nat.eqb_refl, E. reflexivity. }
  destruct (read_iter_s_eos _ _ _ _ _ Er) as [(Hc & -> & -> & ->)|(Hc & Hdone)].
  - rewrite Hp. apply (RE_complete_read _ k i s p); [|apply Em|rewrite Hsl; apply (Hslot p eq_refl)|intros _; exact Hc].
    apply RE_fold_release. apply RE_upd_stream_mono; [exact HE|]. intros s0 E0 A B. assert (s0 = s) by congruence. subst s0. auto.
  - assert (He0 : g_eos (sl_g r0) = false).
    { destruct (g_eos (sl_g r0)) eqn:Eo; [|reflexivity]. destruct (HE r0 i s Hr0 Hrr0 Hsid0) as [A _]; [rewrite (get_same_table e _ k i Hk0); exact E|exact Eo|congruence]. }
    assert (H1 : RE (fold_left release rel (upd_stream e k i (fun _ => s')))).
    { apply RE_fold_release. intros r i' s1 Hr Hrr Hsid E1 Heos. rewrite slots_upd_stream in Hr.
      destruct (same_or_other k i (sl_kind r) i') as [[Hk Hi]|Ho].
      - exfalso. subst i'. assert (Hid : sl_id r0 = sl_id r).
        { apply (K6 e HK r0 r i Hr0 Hr Hsid0 Hsid); [rewrite Hk0; exact Hk|unfold live; rewrite Hrr0; reflexivity|unfold live; rewrite Hrr; reflexivity]. }
        assert (r0 = r) by (apply (slot_unique e r0 r HK Hr0 Hr Hid)). subst r. congruence.
      - rewrite (get_upd_other _ _ _ _ _ _ Ho) in E1. apply (HE r i' s1 Hr Hrr Hsid E1 Heos). }
    destruct done; [|exact H1]. destruct (s_pread s') as [p'|] eqn:Ep'; [|exact H1].
    destruct (Hdone p' eq_refl eq_refl) as [A B].
    apply (RE_complete_read _ k i s' p' H1 (Em s')); [rewrite Hsl; apply (Hslot p' A)|rewrite B; discriminate].
Qed.

Lemma no_reader_at : forall e k i s, K e -> get_stream e k i = Some s -> s_rph s <> RApp ->
  forall r, In r (e_slots e) -> sl_r r = true -> sl_sid r = Some i -> (sl_kind r =? 0) = (k =? 0) -> False.
Proof.
  intros e k i s HK E Hph r Hr Hrr Hsid Hk. destruct (K5 e HK r i Hr Hsid) as (s0 & E0 & _ & R0).
  rewrite (get_same_table e _ k i Hk) in E0. assert (s0 = s) by congruence. subst s0. exact (Hph (R0 Hrr)).
Qed.

Lemma RE_handover : forall e k i s x, RE e -> K e -> get_stream e k i = Some s -> s_rph s = RReady -> RE (handover e k i x).
Proof.
  intros e k i s x HE HK E Hph. unfold handover. apply RE_add_event. apply RE_upd_slot_mono.
  - apply RE_upd_noreader; [exact HE|]. apply (no_reader_at e k i s HK E). rewrite Hph. discriminate.
  - intros r _ Hx. cbn in Hx. discriminate.
Qed.

Lemma RE_op_open : forall e kind cap slot, RE e -> RE (op_open e kind cap slot).
Proof.
  intros e kind cap slot HE. unfold op_open. apply RE_upd_queue.
  intros r i s Hr Hrr Hsid E Heos. cbn [set_slots e_slots] in Hr. change (get_stream (set_slots e _) (sl_kind r) i) with (get_stream e (sl_kind r) i) in E.
  apply in_app_or in Hr. destruct Hr as [Hr|[<-|[]]]; [apply (HE r i s Hr Hrr Hsid E Heos)|]. cbn in Hrr. discriminate.
Qed.

Lemma RE_stream_step : forall e k i e', RE e -> K e -> RL e -> stream_step e k i = Some e' -> RE e'.
Proof.
  intros e k i e' HE HK HR H. unfold stream_step in H. destruct (get_stream e k i) as [s|] eqn:E; [|discriminate].
  assert (Hmain : (match s_rph s, s_wph s with
                   | RReady, WWaitOpen => Some (enqueue_idle (upd_stream e k i (fun s => set_wph s WQueue)) k (s_cap s) i)
                   | RReady, WJoin slot => Some (handover e k i slot)
                   | _, _ => None
                   end) = Some e' -> RE e').
  { intros Hm. destruct (s_rph s) eqn:Er; try discriminate. destruct (s_wph s) eqn:Ew; try discriminate; inversion Hm; subst e'.
    - apply RE_enqueue_idle. apply RE_upd_stream_neutral; [exact HE|intros s0; reflexivity].
    - apply (RE_handover e k i s slot HE HK E Er). }
  assert (Hdisc : s_rph s = RDiscard -> forall f t, RE (release (upd_stream e k i (fun _ => if fkind f =? FK_OPEN then g_open_seen (set_rph (set_inq s t) RReady) else set_inq s t)) f)).
  { intros Hd f t. apply RE_release. apply RE_upd_noreader; [exact HE|]. apply (no_reader_at e k i s HK E). rewrite Hd. discriminate. }
  destruct (s_rph s) eqn:Er; destruct (s_inq s) as [|f t] eqn:Eq; destruct (s_pread s) as [p|] eqn:Ep;
    try (eapply RE_read_iter; eassumption); try (apply Hmain; exact H); try discriminate;
    try (inversion H; subst e'; apply Hdisc; reflexivity).
Qed.

Lemma RE_queue_step : forall e q e', RE e -> K e -> In q (e_qs e) -> queue_step e q = Some e' -> RE e'.
Proof.
  intros e q e' HE HK Hin H. unfold queue_step in H.
  destruct (q_idle q) as [|i idle] eqn:Ei; [discriminate|]. destruct (q_pend q) as [|x pend'] eqn:Ep; [discriminate|].
  pose proof (K_pop_push e q i idle x pend' HK Hin Ei Ep) as K3'.
  assert (W3' : RE (upd_stream (emit (upd_queue e (q_kind q) (q_cap q) (fun _ => mkQueue (q_kind q) (q_cap q) idle pend')) (mk_header FK_OPEN (kind_bits (q_kind q)) i) None)
                 (q_kind q) i (fun s => g_push (set_wph s (WJoin x)) x))).
  { apply RE_upd_stream_neutral; [apply RE_emit, RE_upd_queue, HE|intros s0; reflexivity]. }
  set (e3 := upd_stream _ (q_kind q) i (fun s => g_push (set_wph s (WJoin x)) x)) in *.
  destruct (q_kind q =? 0) eqn:Ek; inversion H; subst e'; [|exact W3'].
  assert (Hi : In i (q_idle q)) by (rewrite Ei; left; reflexivity).
  destruct (K3 e HK q i Hin Hi) as (s & E & W & C & R).
  assert (E3 : get_stream e3 (q_kind q) i = Some (g_push (set_wph s (WJoin x)) x)).
  { unfold e3. rewrite get_upd, Bool.eqb_reflx, Nat.eqb_refl, get_emit. change (get_stream (upd_queue e _ _ _) (q_kind q) i) with (get_stream e (q_kind q) i). rewrite E. reflexivity. }
  apply (RE_handover e3 (q_kind q) i _ x W3' K3' E3). cbn. apply R. exact Ek.
Qed.

Lemma RE_slot_op : forall e o r, RE e -> K e -> In r (e_slots e) -> RE (slot_op e o r).
Proof.
  intros e o r HE HK Hin. unfold slot_op. destruct (sl_sid r) as [i|] eqn:Es; [|apply RE_skip; exact HE].
  destruct (get_stream e (sl_kind r) i) as [s|] eqn:E; [|apply RE_skip; exact HE].
  destruct o; try exact HE.
  - destruct (sl_w r); [|apply RE_skip; exact HE]. unfold op_write. destruct (write_all _ _ _) as [frames buf].
    apply RE_upd_slot_mono; [|intros r1 A B; cbn in *; auto].
    apply RE_upd_stream_neutral; [apply RE_emit_data; exact HE|intros s1; reflexivity].
  - destruct (sl_w r); [|apply RE_skip; exact HE]. unfold op_flush. destruct (s_wbuf s); [exact HE|].
    apply RE_upd_stream_neutral; [apply RE_emit_data; exact HE|intros s1; reflexivity].
  - destruct (sl_r r && negb _); [|apply RE_skip; exact HE]. unfold op_read.
    apply RE_upd_stream_mono; [exact HE|]. intros s1 _ A _. cbn. auto.
  - destruct (sl_w r) eqn:Ew; [|apply RE_skip; exact HE]. unfold op_dropw.
    apply RE_send_close. apply RE_upd_slot_mono; [exact HE|intros r1 A B; cbn in *; auto].
  - destruct (sl_r r && negb _) eqn:Eg; [|apply RE_skip; exact HE]. unfold op_dropr.
    apply andb_true_iff in Eg. destruct Eg as [Hrr _].
    set (g := fun r0 => mkSlot (sl_id r0) (sl_kind r0) (sl_sid r0) false (sl_w r0) (sl_woff r0) (sl_g r0)).
    assert (H1 : RE (upd_slot e (sl_id r) g)) by (apply RE_upd_slot_mono; [exact HE|intros r1 A; cbn in A; discriminate]).
    assert (Hno : forall e2, e_slots e2 = e_slots (upd_slot e (sl_id r) g) ->
              forall r', In r' (e_slots e2) -> sl_r r' = true -> sl_sid r' = Some i -> (sl_kind r' =? 0) = (sl_kind r =? 0) -> False).
    { intros e2 H2 r' Hr' Hrr' Hsid' Hk'. rewrite H2 in Hr'. destruct (in_upd_slot _ _ _ _ Hr') as (r0 & Hr0 & Hx).
      destruct (sl_id r0 =? sl_id r) eqn:Ex; subst r'; [cbn in Hrr'; discriminate|]. apply Z.eqb_neq in Ex. apply Ex.
      apply (K6 e HK r0 r i Hr0 Hin Hsid' Es Hk'); unfold live; [rewrite Hrr'|rewrite Hrr]; reflexivity. }
    apply RE_upd_noreader.
    + destruct (s_cache s); [apply RE_release|]; exact H1.
    + apply Hno. destruct (s_cache s); reflexivity.
Qed.
(* ================= all handle links, through the rounds of the pair system ================= *)
Definition HL (e : endpoint) : Prop := SU e /\ RL e /\ WL e /\ WC e /\ RE e.
Ltac hsplit := unfold HL; split; [|split; [|split; [|split]]].

Lemma hl_set_d : forall e x, HL e -> HL (set_d e x).
Proof. intros e x (A & B & C & D & E). hsplit; [apply SU_set_d|apply RL_set_d|apply WL_set_d|apply WC_set_d|apply RE_set_d]; assumption. Qed.
Lemma hl_set_out : forall e x l, HL e -> HL (set_out e x l).
Proof. intros e x l (A & B & C & D & E). hsplit; [apply SU_set_out|apply RL_set_out|apply WL_set_out|apply WC_set_out|apply RE_set_out]; assumption. Qed.
Lemma hl_set_events : forall e x, HL e -> HL (set_events e x).
Proof. intros e x (A & B & C & D & E). hsplit; [apply SU_set_events|apply RL_set_events|apply WL_set_events|apply WC_set_events|apply RE_set_events]; assumption. Qed.
Lemma hl_set_fail : forall e x, HL e -> HL (set_fail e x).
Proof. intros e x (A & B & C & D & E). hsplit; [apply SU_set_fail|apply RL_set_fail|apply WL_set_fail|apply WC_set_fail|apply RE_set_fail]; assumption. Qed.
Lemma hl_skip : forall e x, HL e -> HL (skip e x).
Proof. intros e x (A & B & C & D & E). hsplit; [apply SU_skip|apply RL_skip|apply WL_skip|apply WC_skip|apply RE_skip]; assumption. Qed.
Lemma hl_deliver : forall e k i f, HL e -> HL (deliver e k i f).
Proof.
  intros e k i f (A & B & C & D & E). hsplit; [|apply RL_deliver; exact B| | |]; unfold deliver.
  - apply SU_upd_stream_neutral; [exact A|intros s; reflexivity].
  - apply WL_upd_stream_neutral; [exact C|intros s; reflexivity].
  - apply WC_upd_stream_neutral; [exact D|intros s; reflexivity].
  - apply RE_upd_stream_neutral; [exact E|intros s; reflexivity].
Qed.

Lemma hl_disp_run : forall fuel e, HL e -> HL (fst (disp_run fuel e)).
Proof.
  induction fuel as [|fuel IH]; intros e H; cbn [disp_run]; [exact H|].
  destruct (dstep _ _ _ _) as [|d|d k i f|d code]; cbn [fst].
  - exact H.
  - specialize (IH (set_d e d) (hl_set_d e d H)). destruct (disp_run fuel (set_d e d)) as [e' b]. exact IH.
  - apply hl_deliver, hl_set_d, H.
  - apply hl_set_fail, hl_set_d, H.
Qed.

Lemma hl_stream_step : forall e k i e', K e -> HL e -> stream_step e k i = Some e' -> HL e'.
Proof.
  intros e k i e' HK (A & B & C & D & E) H. hsplit.
  - apply (SU_stream_step e k i e' HK A H).
  - apply (RL_stream_step e k i e' B HK A H).
  - apply (WL_stream_step e k i e' C HK A H).
  - apply (WC_stream_step e k i e' D HK A H).
  - apply (RE_stream_step e k i e' E HK B H).
Qed.
Lemma hl_queue_step : forall e q e', K e -> HL e -> In q (e_qs e) -> queue_step e q = Some e' -> HL e'.
Proof.
  intros e q e' HK (A & B & C & D & E) Hin H. hsplit.
  - apply (SU_queue_step e q e' HK A Hin H).
  - apply (RL_queue_step e q e' B HK A Hin H).
  - apply (WL_queue_step e q e' C HK A Hin H).
  - apply (WC_queue_step e q e' D HK A Hin H).
  - apply (RE_queue_step e q e' E HK Hin H).
Qed.

Lemma hl_streams_pass : forall n e P k i, LI e -> both e P -> HL e -> HL (fst (streams_pass e k n i)).
Proof.
  induction n as [|n IH]; intros e P k i HL0 HB HH; cbn [streams_pass]; [exact HH|].
  destruct (stream_step e k i) as [e'|] eqn:E.
  - destruct (step_stream_step e P k i e' E HL0 HB) as [HL' HB'].
    pose proof (hl_stream_step e k i e' (proj1 HL0) HH E) as HH'.
    specialize (IH e' P k (S i) HL' HB' HH'). destruct (streams_pass e' k n (S i)) as [e'' b]. exact IH.
  - apply (IH e P); assumption.
Qed.
Lemma hl_queues_pass : forall qs e P, LI e -> both e P -> HL e -> HL (fst (queues_pass e qs)).
Proof.
  induction qs as [|[k cap] qs IH]; intros e P HL0 HB HH; cbn [queues_pass]; [exact HH|].
  destruct (find _ (e_qs e)) as [q|] eqn:Ef; [|apply (IH e P); assumption].
  destruct (queue_step e q) as [e'|] eqn:E; [|apply (IH e P); assumption].
  apply find_some in Ef. destruct Ef as [Hin _].
  destruct (step_queue_step e P q e' Hin E HL0 HB) as [HL' HB'].
  pose proof (hl_queue_step e q e' (proj1 HL0) HH Hin E) as HH'.
  specialize (IH e' P HL' HB' HH'). destruct (queues_pass e' qs) as [e'' b]. exact IH.
Qed.

Lemma hl_ep_round : forall e P, LI e -> both e P -> HL e -> HL (fst (ep_round e)).
Proof.
  intros e P HL0 HB HH. unfold ep_round. pose proof HB as [_ (Hf & _)]. rewrite Hf.
  destruct (step_disp_run 4 e P HL0 HB) as [L1 B1]. pose proof (hl_disp_run 4 e HH) as H1.
  destruct (disp_run 4 e) as [e1 p1]. cbn [fst] in *.
  destruct (step_streams_pass (length (e_acc e1)) e1 P 0 0%nat L1 B1) as [L2 B2].
  pose proof (hl_streams_pass (length (e_acc e1)) e1 P 0 0%nat L1 B1 H1) as H2.
  destruct (streams_pass e1 0 (length (e_acc e1)) 0) as [e2 p2]. cbn [fst] in *.
  destruct (step_streams_pass (length (e_con e2)) e2 P 1 0%nat L2 B2) as [L3 B3].
  pose proof (hl_streams_pass (length (e_con e2)) e2 P 1 0%nat L2 B2 H2) as H3.
  destruct (streams_pass e2 1 (length (e_con e2)) 0) as [e3 p3]. cbn [fst] in *.
  pose proof (hl_queues_pass (map (fun q => (q_kind q, q_cap q)) (e_qs e3)) e3 P L3 B3 H3) as H4.
  destruct (queues_pass e3 _) as [e4 p4]. cbn [fst] in *. exact H4.
Qed.

Lemma hl_slot_op : forall e o r, In r (e_slots e) -> LI e -> HL e -> HL (slot_op e o r).
Proof.
  intros e o r Hin (HK & HG & Hcfg & _) (A & B & C & D & E). hsplit.
  - apply (SU_slot_op e o r HK A Hin).
  - apply (RL_slot_op e o r B HK Hin).
  - apply (WL_slot_op e o r C HK HG); [destruct Hcfg as (_ & Hw & _); lia|exact Hin].
  - apply (WC_slot_op e o r D HK Hin).
  - apply (RE_slot_op e o r E HK Hin).
Qed.
Lemma hl_op_open : forall e kind cap slot, ~ In slot (map sl_id (e_slots e)) -> has_queue e kind cap = true -> K e -> HL e ->
  HL (op_open e kind cap slot).
Proof.
  intros e kind cap slot Hni Hq HK (A & B & C & D & E). hsplit.
  - apply (SU_op_open e kind cap slot HK A Hni Hq).
  - apply RL_op_open. exact B.
  - apply (WL_op_open e kind cap slot C A Hni).
  - apply (WC_op_open e kind cap slot Hni A D).
  - apply RE_op_open. exact E.
Qed.

Definition hinv (s : sys) : Prop := pinv s /\ HL (sA s) /\ HL (sB s).

Lemma hinv_apply_op : forall s o, hinv s -> hinv (apply_op s o).
Proof.
  intros s o (HP & HA & HB). split; [apply pinv_apply_op; exact HP|].
  destruct HP as (Hr & LA & LB & HBo). unfold apply_op, raw_feed. rewrite Hr.
  assert (Hskip : forall x, HL (sA (mkSys (sA s) (skip (sB s) x) false)) /\ HL (sB (mkSys (sA s) (skip (sB s) x) false))).
  { intros x. cbn [sA sB]. split; [exact HA|apply hl_skip; exact HB]. }
  destruct o; cbn [op_slot andb]; try (cbn [sA sB]; auto; fail).
  - destruct (find_slot (sA s) slot) eqn:FA; destruct (find_slot (sB s) slot) eqn:FB; cbn [orb]; try apply Hskip.
    destruct (side =? 0).
    + destruct (has_queue (sA s) kind cap) eqn:Hq; cbn [negb orb]; [|apply Hskip]. cbn [sA sB]. split; [|exact HB].
      apply (hl_op_open (sA s) kind cap slot (find_slot_none _ _ FA) Hq (proj1 LA) HA).
    + destruct (has_queue (sB s) kind cap) eqn:Hq; cbn [negb orb]; [|apply Hskip]. cbn [sA sB]. split; [exact HA|].
      apply (hl_op_open (sB s) kind cap slot (find_slot_none _ _ FB) Hq (proj1 LB) HB).
  - destruct (find_slot (sA s) slot) eqn:FA; [|destruct (find_slot (sB s) slot) eqn:FB]; try apply Hskip; cbn [sA sB]; (split; [|assumption]) || (split; [assumption|]).
    + apply (hl_slot_op (sA s) _ s0 (find_slot_in _ _ _ FA) LA HA).
    + apply (hl_slot_op (sB s) _ s0 (find_slot_in _ _ _ FB) LB HB).
  - destruct (find_slot (sA s) slot) eqn:FA; [|destruct (find_slot (sB s) slot) eqn:FB]; try apply Hskip; cbn [sA sB]; (split; [|assumption]) || (split; [assumption|]).
    + apply (hl_slot_op (sA s) _ s0 (find_slot_in _ _ _ FA) LA HA).
    + apply (hl_slot_op (sB s) _ s0 (find_slot_in _ _ _ FB) LB HB).
  - destruct (find_slot (sA s) slot) eqn:FA; [|destruct (find_slot (sB s) slot) eqn:FB]; try apply Hskip; cbn [sA sB]; (split; [|assumption]) || (split; [assumption|]).
    + apply (hl_slot_op (sA s) _ s0 (find_slot_in _ _ _ FA) LA HA).
    + apply (hl_slot_op (sB s) _ s0 (find_slot_in _ _ _ FB) LB HB).
  - destruct (find_slot (sA s) slot) eqn:FA; [|destruct (find_slot (sB s) slot) eqn:FB]; try apply Hskip; cbn [sA sB]; (split; [|assumption]) || (split; [assumption|]).
    + apply (hl_slot_op (sA s) _ s0 (find_slot_in _ _ _ FA) LA HA).
    + apply (hl_slot_op (sB s) _ s0 (find_slot_in _ _ _ FB) LB HB).
  - destruct (find_slot (sA s) slot) eqn:FA; [|destruct (find_slot (sB s) slot) eqn:FB]; try apply Hskip; cbn [sA sB]; (split; [|assumption]) || (split; [assumption|]).
    + apply (hl_slot_op (sA s) _ s0 (find_slot_in _ _ _ FA) LA HA).
    + apply (hl_slot_op (sB s) _ s0 (find_slot_in _ _ _ FB) LB HB).
Qed.

Lemma hinv_transfer : forall s, hinv s -> hinv (transfer s).
Proof.
  intros s (HP & HA & HB). split; [apply pinv_transfer; exact HP|]. destruct HP as (Hr & _). unfold transfer. rewrite Hr. cbn [sA sB]. split.
  - apply hl_set_out. destruct (e_out (sB s)); [exact HA|apply hl_set_d; exact HA].
  - apply hl_set_out. destruct (e_out (sA s)); [exact HB|apply hl_set_d; exact HB].
Qed.

Lemma hinv_settle_round : forall s, hinv s -> hinv (fst (settle_round s)).
Proof.
  intros s HH. split; [apply pinv_settle_round; exact (proj1 HH)|].
  unfold settle_round. pose proof (hinv_transfer s HH) as ((Hr & LA & LB & HB) & HA1 & HB1). set (s1 := transfer s) in *. rewrite Hr.
  destruct (step_ep_round (sA s1) (sB s1) LA HB) as [LA' HB'].
  pose proof (hl_ep_round (sA s1) (sB s1) LA HB HA1) as HA2.
  pose proof (hl_ep_round (sB s1) (fst (ep_round (sA s1))) LB (both_sym _ _ HB') HB1) as HB2.
  destruct (ep_round (sA s1)) as [a pa]. destruct (ep_round (sB s1)) as [b pb]. cbn [fst sA sB] in *. auto.
Qed.

Lemma hinv_iter_until : forall p s, hinv s -> hinv (fst (iter_until p s)).
Proof.
  induction p as [p IH|p IH|]; intros s HS; cbn [iter_until].
  - pose proof (hinv_settle_round s HS) as P0. destruct (settle_round s) as [s0 c0]. cbn [fst] in P0.
    destruct c0; [|exact P0].
    pose proof (IH s0 P0) as P1. destruct (iter_until p s0) as [s1 c]. cbn [fst] in P1.
    destruct c; [|exact P1].
    pose proof (IH s1 P1) as P2. destruct (iter_until p s1) as [s2 c2]. exact P2.
  - pose proof (IH s HS) as P1. destruct (iter_until p s) as [s1 c]. cbn [fst] in P1.
    destruct c; [|exact P1].
    pose proof (IH s1 P1) as P2. destruct (iter_until p s1) as [s2 c2]. exact P2.
  - apply hinv_settle_round. exact HS.
Qed.

Lemma hinv_clear_obs : forall s, hinv s -> hinv (clear_obs s).
Proof.
  intros s (HP & HA & HB). split; [apply pinv_clear_obs; exact HP|]. unfold clear_obs. cbn [sA sB].
  split; apply hl_set_events, hl_set_out; assumption.
Qed.

Lemma hinv_step_sys : forall s o, hinv s -> hinv (step_sys s o).
Proof. intros s o HP. unfold step_sys, settle. apply hinv_iter_until, hinv_apply_op, hinv_clear_obs, HP. Qed.
Lemma hinv_fold : forall ops s, hinv s -> hinv (fold_left step_sys ops s).
Proof. induction ops as [|o ops IH]; intros s HP; cbn [fold_left]; [exact HP|]. apply IH, hinv_step_sys, HP. Qed.
(* ================= start: no handle, empty logs ================= *)
Definition tstream (s : rstream) : Prop := g_wlog (s_g s) = [] /\ s_pread s = None /\ s_wbuf s = [] /\ joinx s = None.
Definition Triv (e : endpoint) : Prop :=
  e_slots e = [] /\ Forall (fun q => q_pend q = []) (e_qs e) /\ forall k i s, get_stream e k i = Some s -> tstream s.

Lemma tids_nil : forall l, (forall s, In s l -> sids s = []) -> tids l = [].
Proof. induction l as [|s l IH]; intros H; [reflexivity|]. unfold tids in *. cbn [flat_map]. rewrite (H s (or_introl eq_refl)), IH; [reflexivity|]. intros s0 Hs. apply H. right. exact Hs. Qed.

Lemma Triv_HL : forall e, Triv e -> HL e.
Proof.
  intros e (Hs & Hq & Ht).
  assert (Hp : pend_ids e = []).
  { unfold pend_ids. induction Hq as [|q l Hq0 Hq1 IH]; [reflexivity|]. cbn [flat_map]. rewrite Hq0, IH. reflexivity. }
  assert (Hw : wlog_ids e = []).
  { unfold wlog_ids. assert (Ha : tids (e_acc e) = []).
    { apply tids_nil. intros s Hin. destruct (In_nth_error _ _ Hin) as (i & Hi). destruct (Ht 0 i s) as (A & _); [unfold get_stream, table; cbn [Z.eqb]; exact Hi|]. unfold sids. rewrite A. reflexivity. }
    assert (Hc : tids (e_con e) = []).
    { apply tids_nil. intros s Hin. destruct (In_nth_error _ _ Hin) as (i & Hi). destruct (Ht 1 i s) as (A & _); [unfold get_stream, table; cbn [Z.eqb]; exact Hi|]. unfold sids. rewrite A. reflexivity. }
    rewrite Ha, Hc. reflexivity. }
  hsplit.
  - constructor.
    + intros x. rewrite Hp, Hw. cbn. lia.
    + intros k i s w E Hin. destruct (Ht k i s E) as (A & _). unfold sids in Hin. rewrite A in Hin. destruct Hin.
    + intros r Hr. rewrite Hs in Hr. destruct Hr.
    + intros q x r _ _ Hr. rewrite Hs in Hr. destruct Hr.
    + intros k i s x E Hj. destruct (Ht k i s E) as (_ & _ & _ & D). congruence.
  - constructor.
    + intros k i s p E Hpr. destruct (Ht k i s E) as (_ & B & _). congruence.
    + intros r i s Hr. rewrite Hs in Hr. destruct Hr.
    + intros k i s E _. destruct (Ht k i s E) as (_ & B & _). exact B.
  - constructor.
    + intros r Hr. rewrite Hs in Hr. destruct Hr.
    + intros r i s Hr. rewrite Hs in Hr. destruct Hr.
    + intros k i s j w cs r E Hn. destruct (Ht k i s E) as (A & _). rewrite A in Hn. destruct j; discriminate.
    + intros k i s E _. destruct (Ht k i s E) as (_ & _ & C & _). exact C.
  - intros k i s w rest r _ _ _ Hr. rewrite Hs in Hr. destruct Hr.
  - intros r i s Hr. rewrite Hs in Hr. destruct Hr.
Qed.

Lemma Triv_same : forall e e', e_slots e' = e_slots e -> e_qs e' = e_qs e -> e_acc e' = e_acc e -> e_con e' = e_con e -> Triv e -> Triv e'.
Proof.
  intros e e' A B C D (H1 & H2 & H3). split; [congruence|]. split; [rewrite B; exact H2|].
  intros k i s E. apply (H3 k i s). unfold get_stream, table in *. rewrite <- C, <- D. exact E.
Qed.
Lemma Triv_upd_stream : forall e k i f, Triv e -> (forall s, tstream s -> tstream (f s)) -> Triv (upd_stream e k i f).
Proof.
  intros e k i f (H1 & H2 & H3) Hf. split; [rewrite slots_upd_stream; exact H1|]. split.
  - unfold upd_stream, set_table. destruct (k =? 0); exact H2.
  - intros k' i' s' E'. rewrite get_upd in E'. destruct (_ && _).
    + destruct (get_stream e k' i') as [s|] eqn:E; [|discriminate]. cbn in E'. inversion E'. apply Hf. apply (H3 k' i' s E).
    + apply (H3 k' i' s' E').
Qed.
Lemma Triv_emit : forall e h d, Triv e -> Triv (emit e h d).
Proof. intros e h d H. unfold emit. destruct (e_gone e); [|destruct d]; apply (Triv_same e); try reflexivity; exact H. Qed.
Lemma Triv_enqueue_idle : forall e k c i, Triv e -> Triv (enqueue_idle e k c i).
Proof.
  intros e k c i (H1 & H2 & H3). split; [exact H1|]. split; [|exact H3].
  unfold enqueue_idle, upd_queue. cbn [set_qs e_qs]. apply Forall_forall. intros q Hq. apply in_map_iff in Hq. destruct Hq as (q0 & <- & Hq0).
  rewrite Forall_forall in H2. destruct (_ && _); [cbn [q_pend]|]; apply (H2 q0 Hq0).
Qed.
Lemma Triv_send_close : forall e k i, Triv e -> Triv (send_close e k i).
Proof.
  intros e k i H. unfold send_close. destruct (get_stream e k i) as [s|] eqn:E; [|exact H].
  destruct H as (H1 & H2 & H3). destruct (H3 k i s E) as (_ & _ & Hb & _). rewrite Hb.
  assert (Ht : forall w, w <> WApp -> (forall x, w <> WJoin x) -> forall s0, tstream s0 -> tstream (set_wph s0 w)).
  { intros w _ Hj s0 (A & B & C & D). unfold tstream, joinx. cbn. repeat split; try assumption. destruct w; try reflexivity. exfalso. apply (Hj slot). reflexivity. }
  set (e3 := emit (upd_stream e k i (fun s0 => set_wbuf s0 [])) _ None).
  assert (T3 : Triv e3).
  { apply Triv_emit, Triv_upd_stream; [split; [exact H1|split; [exact H2|exact H3]]|]. intros s0 (A & B & C & D). unfold tstream, joinx. cbn. auto. }
  unfold after_close. destruct (get_stream e3 k i); [|exact T3].
  destruct (k =? 0); [|apply Triv_enqueue_idle]; (apply Triv_upd_stream; [exact T3|apply Ht; [discriminate|intros x; discriminate]]).
Qed.
Lemma Triv_initial_close : forall n e k i, Triv e -> Triv (initial_close e k n i).
Proof. induction n as [|n IH]; intros e k i H; cbn [initial_close]; [exact H|]. apply IH, Triv_send_close, H. Qed.

Lemma Triv_fresh : forall c acc con pacc pcon, Triv (fresh_ep c acc con pacc pcon).
Proof.
  intros. split; [reflexivity|]. split.
  - unfold fresh_ep. cbn [set_con set_acc e_qs]. apply Forall_app. split; apply Forall_forall; intros q Hq; apply in_map_iff in Hq; destruct Hq as (x & <- & _); reflexivity.
  - intros k i s E. destruct (get_fresh _ _ _ _ _ _ _ _ E) as (cap & ->). unfold tstream, new_stream, joinx. cbn. auto.
Qed.

Theorem hinv_init : forall a b, side_ok a -> side_ok b -> hinv (sys_init false a b).
Proof.
  intros a b Ha Hb. split; [apply pinv_init; assumption|].
  destruct Ha as (Va & _). destruct Hb as (Vb & _). unfold sys_init. cbn [sA sB].
  assert (Da : forall l, has_dup_keys (bt_of_list l) = false) by (intros; apply ksorted_no_dup, bt_of_list_sorted).
  rewrite (ep_init_fresh (sd_cfg b) (sd_acc b) (sd_con b) _ _ Vb (Da _) (Da _)).
  rewrite (ep_init_fresh (sd_cfg a) (sd_acc a) (sd_con a) _ _ Va (Da _) (Da _)).
  split; apply Triv_HL; cbv zeta; apply Triv_initial_close, Triv_initial_close, Triv_fresh.
Qed.

Theorem reachable_hinv : forall a b s, side_ok a -> side_ok b -> reachable false a b s -> hinv s.
Proof.
  intros a b s Ha Hb [ops ->]. apply hinv_fold. unfold sys_start, settle. apply hinv_iter_until. apply hinv_init; assumption.
Qed.
(* ================= the handles of the two applications ================= *)
Definition ep (s : sys) (sd : bool) : endpoint := if sd then sA s else sB s.

Lemma nth_error_rev : forall A (l : list A) n x, nth_error (rev l) n = Some x ->
  (n < length l)%nat /\ nth_error l (length l - S n) = Some x.
Proof.
  intros A l n x H. assert (Hn : (n < length l)%nat).
  { rewrite <- rev_length. apply nth_error_Some. congruence. }
  split; [exact Hn|].
  rewrite (nth_error_nth' (rev l) x) in H by (rewrite rev_length; exact Hn). rewrite rev_nth in H by exact Hn.
  rewrite (nth_error_nth' l x) by lia. exact H.
Qed.

Lemma is_prefix_trans : forall x y z, is_prefix x y -> is_prefix y z -> is_prefix x z.
Proof. intros x y z [m ->] [m' ->]. exists (m ++ m'). rewrite app_assoc. reflexivity. Qed.

Lemma paired_exists : forall Sx R k i sr, dinv Sx R -> get_stream R k i = Some sr -> exists ss, get_stream Sx (opp k) i = Some ss.
Proof.
  intros Sx R k i sr (_ & _ & Ha & Hc & _) E. unfold na_of, nc_of in *.
  assert (Hl : (i < length (table R k))%nat) by (apply nth_error_Some; unfold get_stream in E; congruence).
  assert (Hl' : (i < length (table Sx (opp k)))%nat).
  { unfold table, opp in *. destruct (k =? 0); cbn [Z.eqb]; lia. }
  apply nth_error_Some in Hl'. unfold get_stream. destruct (nth_error (table Sx (opp k)) i) as [ss|]; [exists ss; reflexivity|congruence].
Qed.

Lemma opp_opp : forall k, (opp (opp k) =? 0) = (k =? 0).
Proof. intros k. unfold opp. destruct (k =? 0); reflexivity. Qed.

(* one direction, on the invariants of the two endpoints *)
Lemma handle_core : forall Sx R r i sr ks ss,
  K R -> HL R -> HL Sx -> In r (e_slots R) -> sl_r r = true -> sl_sid r = Some i ->
  get_stream R (sl_kind r) i = Some sr -> get_stream Sx ks i = Some ss ->
  (exists infl, sinv ss sr infl) ->
  exists w cs rw,
    nth_error (rev (g_wlog (s_g ss))) (pred (g_rn (s_g sr))) = Some (w, cs) /\
    In rw (e_slots Sx) /\ sl_id rw = w /\ (sl_kind rw =? 0) = (ks =? 0) /\
    returned r ++ pendb sr = rdb sr /\
    is_prefix (rdb sr) (chunks_bytes cs) /\ is_prefix (chunks_bytes cs) (wdata w (sl_woff rw)) /\
    (g_eos (sl_g r) = true -> pendb sr = [] /\ returned r = wdata w (sl_woff rw) /\ sl_w rw = false).
Proof.
  intros Sx R r i sr ks ss HKR (_ & HRL & _ & _ & HRE) (HSU & _ & HWL & HWC & _) Hr Hrr Hsid Er Es [infl Hsinv].
  destruct (K5 R HKR r i Hr Hsid) as (s0 & E0 & _ & Hph). assert (s0 = sr) by congruence. subst s0. specialize (Hph Hrr).
  assert (Hrn : (1 <= g_rn (s_g sr))%nat).
  { destruct Hsinv as (_ & _ & _ & pre & _ & Hs). rewrite Hph in Hs. tauto. }
  destruct (sinv_reader ss sr infl Hsinv Hph) as (w & cs & Hn & Hpre & Hcl).
  destruct (nth_error_rev _ _ _ _ Hn) as [Hlt Hj]. set (j := (length (g_wlog (s_g ss)) - S (pred (g_rn (s_g sr))))%nat) in *.
  assert (Hw : In w (sids ss)). { unfold sids. apply (in_map fst _ (w, cs)). apply (nth_error_In _ _ Hj). }
  destruct (Wid Sx HSU ks i ss w Es Hw) as (rw & Hrw & Hid & Hk).
  exists w, cs, rw. split; [exact Hn|]. split; [exact Hrw|]. split; [exact Hid|]. split; [exact Hk|].
  split; [apply (R2 R HRL r i sr Hr Hrr Hsid Er)|]. split; [exact Hpre|].
  assert (Hnl : ~ (j = O /\ s_wph ss = WApp) -> chunks_bytes cs = wdata w (sl_woff rw) /\ sl_w rw = false).
  { intros Hx. apply (W2 Sx HWL ks i ss j w cs rw Es Hj Hx Hrw Hid). }
  split.
  - destruct j as [|j'] eqn:Ej; [destruct (s_wph ss) eqn:Ew|];
      try (destruct Hnl as [Heq _]; [intros [A B]; discriminate|exists []; rewrite app_nil_r; symmetry; exact Heq]).
    destruct (g_wlog (s_g ss)) as [|[w0 cs0] older] eqn:El; [discriminate|]. cbn [nth_error] in Hj. inversion Hj; subst w0 cs0.
    destruct (HWC ks i ss w (map fst older) rw Es Ew) as (A & B & C); [unfold sids; rewrite El; reflexivity|exact Hrw|exact Hid|].
    destruct (W1 Sx HWL rw i ss Hrw A B) as (cs1 & older1 & Hl1 & Hd1); [rewrite (get_same_table Sx _ ks i C); exact Es|].
    rewrite El in Hl1. assert (cs1 = cs) by congruence. subst cs1. exists (s_wbuf ss). rewrite <- Hid. symmetry. exact Hd1.
  - intros Heos. destruct (HRE r i sr Hr Hrr Hsid Er Heos) as [Hc Hp]. destruct (Hcl Hc) as [Heq Hor].
    destruct Hnl as [Hd Hwf].
    { intros [A B]. destruct Hor as [Hor|Hor]; [unfold j in A; lia|unfold wclosed in Hor; rewrite B in Hor; discriminate]. }
    split; [exact Hp|]. split; [|exact Hwf].
    pose proof (R2 R HRL r i sr Hr Hrr Hsid Er) as H2. rewrite Hp, app_nil_r in H2. congruence.
Qed.

(* stage (iv): in every reachable state of the pair, the bytes the reads of a live reader handle r (of
   either side) have returned are a prefix of the bytes the application of the other side has written to
   one handle rw, the writer of the matching incarnation of the paired reusable stream; once r has seen
   end of stream they are all of them and rw's write half is closed *)
Theorem handle_isolation_and_order : forall a b s (rd : bool) r i sr,
  side_ok a -> side_ok b -> reachable false a b s ->
  In r (e_slots (ep s rd)) -> sl_r r = true -> sl_sid r = Some i -> get_stream (ep s rd) (sl_kind r) i = Some sr ->
  exists ss w cs rw,
    get_stream (ep s (negb rd)) (opp (sl_kind r)) i = Some ss /\
    nth_error (rev (g_wlog (s_g ss))) (pred (g_rn (s_g sr))) = Some (w, cs) /\
    In rw (e_slots (ep s (negb rd))) /\ sl_id rw = w /\ (sl_kind rw =? 0) = (opp (sl_kind r) =? 0) /\
    returned r ++ pendb sr = rdb sr /\
    is_prefix (rdb sr) (chunks_bytes cs) /\ is_prefix (chunks_bytes cs) (wdata w (sl_woff rw)) /\
    is_prefix (returned r) (wdata w (sl_woff rw)) /\
    (g_eos (sl_g r) = true -> pendb sr = [] /\ returned r = wdata w (sl_woff rw) /\ sl_w rw = false).
Proof.
  intros a b s rd r i sr Ha Hb Hreach Hr Hrr Hsid Er.
  destruct (reachable_hinv a b s Ha Hb Hreach) as ((_ & LA & LB & [DAB DBA]) & HA & HB).
  assert (Hgen : forall Sx R, K R -> HL R -> HL Sx -> dinv Sx R -> In r (e_slots R) -> get_stream R (sl_kind r) i = Some sr ->
    exists ss w cs rw,
    get_stream Sx (opp (sl_kind r)) i = Some ss /\
    nth_error (rev (g_wlog (s_g ss))) (pred (g_rn (s_g sr))) = Some (w, cs) /\
    In rw (e_slots Sx) /\ sl_id rw = w /\ (sl_kind rw =? 0) = (opp (sl_kind r) =? 0) /\
    returned r ++ pendb sr = rdb sr /\
    is_prefix (rdb sr) (chunks_bytes cs) /\ is_prefix (chunks_bytes cs) (wdata w (sl_woff rw)) /\
    is_prefix (returned r) (wdata w (sl_woff rw)) /\
    (g_eos (sl_g r) = true -> pendb sr = [] /\ returned r = wdata w (sl_woff rw) /\ sl_w rw = false)).
  { intros Sx R HKR HLR HLS HD Hr0 Er0. destruct (paired_exists Sx R _ i sr HD Er0) as (ss & Es).
    assert (Hs : exists infl, sinv ss sr infl).
    { destruct HD as (_ & _ & _ & _ & p & rest & _ & H1). eexists. apply (H1 (opp (sl_kind r)) i ss sr Es).
      rewrite (get_same_tbl R _ (sl_kind r) i (opp_opp _)). exact Er0. }
    destruct (handle_core Sx R r i sr (opp (sl_kind r)) ss HKR HLR HLS Hr0 Hrr Hsid Er0 Es Hs) as (w & cs & rw & H1 & H2 & H3 & H4 & H5 & H6 & H7 & H8).
    exists ss, w, cs, rw. repeat (split; [assumption|]). split; [|exact H8].
    apply (is_prefix_trans _ (rdb sr)); [exists (pendb sr); symmetry; exact H5|]. apply (is_prefix_trans _ (chunks_bytes cs)); assumption. }
  destruct rd; cbn [ep negb] in *.
  - apply (Hgen (sB s) (sA s) (proj1 LA) HA HB DBA Hr Er).
  - apply (Hgen (sA s) (sB s) (proj1 LB) HB HA DAB Hr Er).
Qed.
(* ================= paired reusable streams carry the same capability ================= *)
Lemma tcaps_fresh : forall c acc con pacc pcon,
  tcaps (fresh_ep c acc con pacc pcon) = (expand (alloc (bt_of_list acc) pcon), expand (alloc (bt_of_list con) pacc)).
Proof.
  intros. unfold tcaps, fresh_ep. cbn [set_con set_acc e_acc e_con]. rewrite !map_map.
  assert (H : forall l, map (fun x => s_cap (new_stream x)) l = l) by (induction l as [|x l IH]; [reflexivity|cbn [map]; rewrite IH; reflexivity]).
  rewrite !H. reflexivity.
Qed.

Theorem paired_caps : forall a b s, side_ok a -> side_ok b -> reachable false a b s ->
  map s_cap (e_acc (sA s)) = map s_cap (e_con (sB s)) /\ map s_cap (e_con (sA s)) = map s_cap (e_acc (sB s)).
Proof.
  intros a b s (Va & _) (Vb & _) [ops ->].
  assert (P : spres (sys_init false a b) (fold_left step_sys ops (sys_start false a b))).
  { eapply spres_trans; [apply spres_settle|apply spres_fold]. }
  destruct P as [(_ & _ & _ & TA & _) (_ & _ & _ & TB & _)].
  assert (Da : forall l, has_dup_keys (bt_of_list l) = false) by (intros; apply ksorted_no_dup, bt_of_list_sorted).
  unfold sys_init in TA, TB. cbn [sA sB] in TA, TB.
  rewrite (ep_init_fresh (sd_cfg a) (sd_acc a) (sd_con a) _ _ Va (Da _) (Da _)) in TA.
  rewrite (ep_init_fresh (sd_cfg b) (sd_acc b) (sd_con b) _ _ Vb (Da _) (Da _)) in TB.
  cbv zeta in TA, TB.
  assert (Hi : forall e, tcaps (initial_close (initial_close e 0 (na_of e) 0) 1 (nc_of e) 0) = tcaps e).
  { intros e. destruct (pres_initial_close (na_of e) e 0 0%nat) as (_ & _ & _ & T1 & _).
    destruct (pres_initial_close (nc_of e) (initial_close e 0 (na_of e) 0) 1 0%nat) as (_ & _ & _ & T2 & _). congruence. }
  rewrite Hi, tcaps_fresh in TA, TB. unfold tcaps in TA, TB. inversion TA as [[A1 A2]]. inversion TB as [[B1 B2]].
  rewrite A1, A2, B1, B2. split; apply alloc_agrees; apply bt_of_list_sorted.
Qed.

Corollary paired_streams_same_capability : forall a b s ks i ss sr, side_ok a -> side_ok b -> reachable false a b s ->
  (get_stream (sA s) ks i = Some ss /\ get_stream (sB s) (opp ks) i = Some sr \/
   get_stream (sB s) ks i = Some ss /\ get_stream (sA s) (opp ks) i = Some sr) ->
  s_cap ss = s_cap sr.
Proof.
  intros a b s ks i ss sr Ha Hb Hr Hg. destruct (paired_caps a b s Ha Hb Hr) as [H1 H2].
  assert (Hm : forall l l' : list rstream, map s_cap l = map s_cap l' -> nth_error l i = Some ss -> nth_error l' i = Some sr -> s_cap ss = s_cap sr).
  { intros l l' Hl A B. pose proof (map_nth_error s_cap i l A) as A'. pose proof (map_nth_error s_cap i l' B) as B'. rewrite Hl in A'. congruence. }
  unfold get_stream, table, opp in Hg. destruct (ks =? 0); cbn [Z.eqb] in Hg; destruct Hg as [[A B]|[A B]].
  - apply (Hm _ _ H1 A B).
  - symmetry in H2. apply (Hm _ _ H2 A B).
  - apply (Hm _ _ H2 A B).
  - symmetry in H1. apply (Hm _ _ H1 A B).
Qed.
