(* C05 (first part): along every handler invocation the view, the view of the highest commit
   certificate and the view of the highest timeout certificate never decrease. *)
From Coq Require Import ZArith List Bool Lia.
From EC Require Import Lib.Outcome Lib.U64 Lib.ListW Lib.Obs Model.Msgs Model.Replica.
Import ListNotations.
Open Scope Z_scope.

Definition cqc_view (o : option cqc) : option Z := option_map (fun q => vnum (cview (qmsg q))) o.
Definition tqc_view (o : option tqc) : option Z := option_map (fun t => vnum (tqview t)) o.

(* None (no certificate yet) is below every view *)
Definition ole (a b : option Z) : Prop :=
  match a, b with
  | None, _ => True
  | Some _, None => False
  | Some x, Some y => x <= y
  end.
Lemma ole_refl a : ole a a.
Proof. destruct a; cbn; lia. Qed.
Lemma ole_trans a b c : ole a b -> ole b c -> ole a c.
Proof. destruct a, b, c; cbn; try tauto; lia. Qed.

Definition st_le (s s' : rstate) : Prop :=
  r_view s <= r_view s' /\
  ole (cqc_view (r_high_cqc s)) (cqc_view (r_high_cqc s')) /\
  ole (tqc_view (r_high_tqc s)) (tqc_view (r_high_tqc s')).

Lemma st_le_refl s : st_le s s.
Proof. unfold st_le; repeat split; try lia; apply ole_refl. Qed.
Lemma st_le_trans a b c : st_le a b -> st_le b c -> st_le a c.
Proof.
  unfold st_le; intros (H1 & H2 & H3) (H4 & H5 & H6). repeat split; try lia;
    eapply ole_trans; eassumption.
Qed.

Definition st_of {A} (x : hres A) : rstate := fst (fst x).
Definition res_of {A} (x : hres A) : outcome rerr A := snd x.

Lemma hbind_st_le {A B} s (x : hres A) (f : rstate -> A -> hres B) :
  st_le s (st_of x) -> (forall s1 a, st_le s1 (st_of (f s1 a))) -> st_le s (st_of (hbind x f)).
Proof.
  destruct x as [[s1 es] r]. unfold st_of; cbn [fst]. intros H1 H2. unfold hbind.
  destruct r as [a| |]; cbn [fst]; try assumption.
  specialize (H2 s1 a). destruct (f s1 a) as [[s2 es2] r2]. cbn [fst st_of] in *.
  eapply st_le_trans; eassumption.
Qed.

(* when the first computation does not change the state *)
Lemma hbind_st_same {A B} s (x : hres A) (f : rstate -> A -> hres B) :
  st_of x = s -> (forall a, st_le s (st_of (f s a))) -> st_le s (st_of (hbind x f)).
Proof.
  destruct x as [[s1 es] r]. unfold st_of; cbn [fst]. intros Heq H2. subst s1. unfold hbind.
  destruct r as [a| |]; cbn [fst]; try apply st_le_refl.
  specialize (H2 a). destruct (f s a) as [[s2 es2] r2]. exact H2.
Qed.

Ltac st_simpl := unfold st_of, hret, hfail, hpanic, hemit; cbn [fst snd].

Lemma save_block_le cfg s q : st_le s (st_of (save_block cfg s q)).
Proof.
  unfold save_block. destruct (cache_has _ _ _); [|st_simpl; apply st_le_refl].
  destruct (_ <? _); [st_simpl; apply st_le_refl|].
  destruct (_ =? _); st_simpl; [|apply st_le_refl].
  unfold st_le; cbn; repeat split; try lia; apply ole_refl.
Qed.

Lemma process_commit_qc_le cfg s q : st_le s (st_of (process_commit_qc cfg s q)).
Proof.
  unfold process_commit_qc.
  destruct (r_high_cqc s) as [cur|] eqn:E.
  - destruct (vnum (cview (qmsg cur)) <? vnum (cview (qmsg q))) eqn:El; [|st_simpl; apply st_le_refl].
    eapply st_le_trans; [|apply save_block_le]. unfold st_le; cbn. rewrite E; cbn.
    repeat split; try lia. apply ole_refl.
  - eapply st_le_trans; [|apply save_block_le]. unfold st_le; cbn. rewrite E; cbn.
    repeat split; try lia. apply ole_refl.
Qed.

Lemma process_timeout_qc_le cfg s t : st_le s (st_of (process_timeout_qc cfg s t)).
Proof.
  unfold process_timeout_qc. apply hbind_st_le.
  - destruct (high_qc t); [apply process_commit_qc_le|st_simpl; apply st_le_refl].
  - intros s1 _. st_simpl. destruct (r_high_tqc s1) as [old|] eqn:E.
    + destruct (vnum (tqview old) <? vnum (tqview t)) eqn:El; [|apply st_le_refl].
      unfold st_le; cbn. rewrite E; cbn. repeat split; try lia. apply ole_refl.
    + unfold st_le; cbn. rewrite E; cbn. repeat split; try lia. apply ole_refl.
Qed.

Lemma process_justification_le cfg s j : st_le s (st_of (process_justification cfg s j)).
Proof. destruct j; cbn [process_justification]; [apply process_commit_qc_le|apply process_timeout_qc_le]. Qed.

Lemma backup_state_le cfg s : st_le s (st_of (backup_state cfg s)).
Proof. st_simpl. apply st_le_refl. Qed.

(* start_new_view moves to exactly the given view *)
Lemma start_new_view_le cfg s v : r_view s <= v -> st_le s (st_of (start_new_view cfg s v)).
Proof.
  intros Hv. unfold start_new_view.
  set (s0 := set_phase (set_view s v) Prepare).
  assert (H0 : st_le s s0) by (unfold st_le, s0; cbn; repeat split; try lia; apply ole_refl).
  destruct (get_justification s0) as [j|e|p]; try (st_simpl; exact H0).
  eapply st_le_trans; [exact H0|]. apply hbind_st_le; [st_simpl; apply st_le_refl|].
  intros s1 _. apply hbind_st_le.
  - destruct (r_high_cqc s1); st_simpl; unfold st_le; cbn; repeat split; try lia; apply ole_refl.
  - intros s2 _. st_simpl. apply st_le_refl.
Qed.

Lemma start_timeout_le cfg s : st_le s (st_of (start_timeout cfg s)).
Proof.
  unfold start_timeout.
  eapply st_le_trans with (b := set_phase s PTimeout);
    [unfold st_le; cbn; repeat split; try lia; apply ole_refl|].
  apply hbind_st_le; [apply backup_state_le|]. intros s1 _. apply hbind_st_le.
  - destruct (r_view s1 =? 0); [st_simpl; apply st_le_refl|].
    destruct (get_justification s1); st_simpl; apply st_le_refl.
  - intros s2 _. st_simpl. apply st_le_refl.
Qed.

Lemma lift_st {A} s (x : outcome unit A) : st_of (lift s x) = s.
Proof. destruct x; reflexivity. Qed.

(* with overflow checks on, ViewNumber::next either yields v + 1 or panics *)
Lemma num_next_chk v r : num_next (E := unit) true v = Ok r -> r = v + 1.
Proof. unfold num_next, u64_add. destruct (_ <? _); intros H; inversion H; reflexivity. Qed.

Lemma justification_view_chk j mv : justification_view (E := unit) true j = Ok mv ->
  vnum mv = vnum (match j with JCommit q => cview (qmsg q) | JTimeout t => tqview t end) + 1.
Proof.
  unfold justification_view. destruct (num_next true _) as [n| |] eqn:E; cbn [bind]; try discriminate.
  intros H; inversion H; subst; cbn. apply num_next_chk in E. exact E.
Qed.

(* states that agree on the three monotone components *)
Definition st_eqv (s s1 : rstate) : Prop :=
  r_view s1 = r_view s /\ r_high_cqc s1 = r_high_cqc s /\ r_high_tqc s1 = r_high_tqc s.
Lemma st_eqv_refl s : st_eqv s s.
Proof. unfold st_eqv; auto. Qed.
Lemma st_eqv_le s s1 : st_eqv s s1 -> st_le s s1.
Proof. intros (H1 & H2 & H3). unfold st_le. rewrite H1, H2, H3. repeat split; try lia; apply ole_refl. Qed.

Lemma hbind_st_eqv {A B} s (x : hres A) (f : rstate -> A -> hres B) :
  st_eqv s (st_of x) -> (forall s1 a, st_eqv s s1 -> st_le s1 (st_of (f s1 a))) ->
  st_le s (st_of (hbind x f)).
Proof.
  destruct x as [[s1 es] r]. unfold st_of; cbn [fst]. intros H1 H2. unfold hbind.
  destruct r as [a| |]; cbn [fst]; try (apply st_eqv_le; assumption).
  specialize (H2 s1 a H1). destruct (f s1 a) as [[s2 es2] r2]. cbn [fst st_of] in *.
  eapply st_le_trans; [apply st_eqv_le; exact H1|exact H2].
Qed.

Lemma lift_eqv {A} s (x : outcome unit A) : st_eqv s (st_of (lift s x)).
Proof. rewrite lift_st. apply st_eqv_refl. Qed.

Lemma on_proposal_le cfg s key sig_ok payload j :
  st_le s (st_of (on_proposal cfg s key sig_ok payload j)).
Proof.
  unfold on_proposal. apply hbind_st_eqv; [apply lift_eqv|]. intros s1 mv He1.
  destruct (_ || _) eqn:Eold; [st_simpl; apply st_le_refl|].
  destruct (negb (key =? _)); [st_simpl; apply st_le_refl|].
  destruct (negb sig_ok); [st_simpl; apply st_le_refl|].
  destruct (justification_verify _ _ _ j); try (st_simpl; apply st_le_refl).
  apply orb_false_iff in Eold. destruct Eold as [Eo1 _]. apply Z.ltb_ge in Eo1.
  apply hbind_st_eqv; [apply lift_eqv|]. intros s2 [n oh] He2.
  destruct (n <? r_store_first s2); [st_simpl; apply st_le_refl|].
  apply hbind_st_eqv.
  - destruct oh as [h|].
    + destruct payload; st_simpl; apply st_eqv_refl.
    + destruct payload as [p|]; [|st_simpl; apply st_eqv_refl].
      destruct (_ <? _); [st_simpl; apply st_eqv_refl|].
      destruct (_ && _); [st_simpl; apply st_eqv_refl|].
      destruct (negb _); st_simpl; [apply st_eqv_refl|].
      unfold st_eqv; cbn; auto.
  - intros s3 hash He3.
    destruct He2 as (Hv2 & _). destruct He3 as (Hv3 & Hc3 & Ht3).
    eapply st_le_trans with (b := set_high_vote (set_phase (set_view s3 (vnum mv)) PCommit) _).
    + unfold st_le; cbn. repeat split; try lia; apply ole_refl.
    + apply hbind_st_le; [apply process_justification_le|]. intros s4 _.
      apply hbind_st_le; [apply backup_state_le|]. intros s5 _. st_simpl. apply st_le_refl.
Qed.

(* the common tail of on_commit / on_timeout: process the certificate, then start view v + 1 *)
Lemma next_view_tail_le cfg s2 (x : hres unit) v : cchk cfg = true ->
  st_le s2 (st_of x) -> r_view (st_of x) = r_view s2 -> r_view s2 <= v ->
  st_le s2 (st_of (hbind x (fun s _ => hbind (lift s (num_next (cchk cfg) v))
                                         (fun s nv => start_new_view cfg s nv)))).
Proof.
  intros Hchk Hle Hpv Hv. destruct x as [[s3 es3] r3]. unfold st_of in *; cbn [fst] in *.
  unfold hbind at 1. destruct r3 as [[]| |]; cbn [fst]; try exact Hle.
  rewrite Hchk. destruct (num_next true v) as [nv| |] eqn:En; cbn [lift]; unfold hbind, hret, hfail, hpanic;
    cbn [fst]; try exact Hle.
  apply num_next_chk in En.
  assert (Hs : st_le s3 (st_of (start_new_view cfg s3 nv))) by (apply start_new_view_le; lia).
  destruct (start_new_view cfg s3 nv) as [[? ?] ?]. cbn [fst st_of] in *.
  eapply st_le_trans; eassumption.
Qed.

Lemma process_commit_qc_view cfg s q : r_view (st_of (process_commit_qc cfg s q)) = r_view s.
Proof.
  unfold process_commit_qc, save_block.
  destruct (match r_high_cqc s with Some _ => _ | None => _ end); [|reflexivity].
  destruct (cache_has _ _ _); [|reflexivity]. destruct (_ <? _); [reflexivity|].
  destruct (_ =? _); reflexivity.
Qed.

Lemma process_timeout_qc_view cfg s t : r_view (st_of (process_timeout_qc cfg s t)) = r_view s.
Proof.
  unfold process_timeout_qc.
  assert (H : forall x : hres unit, r_view (st_of x) = r_view s ->
            r_view (st_of (hbind x (fun s0 _ => hret (if match r_high_tqc s0 with
                                                          | Some old => vnum (tqview old) <? vnum (tqview t)
                                                          | None => true end
                                                       then set_high_tqc s0 (Some t) else s0) tt))) = r_view s).
  { intros [[s1 es] r] Hx. unfold st_of in *; cbn [fst] in *. unfold hbind, hret.
    destruct r; cbn [fst]; try exact Hx. destruct (match r_high_tqc s1 with Some _ => _ | None => _ end); exact Hx. }
  apply H. destruct (high_qc t); [apply process_commit_qc_view|reflexivity].
Qed.

Ltac step_match :=
  match goal with
  | |- st_le _ (st_of (if ?b then _ else _)) => destruct b eqn:?
  | |- st_le _ (st_of (match ?x with _ => _ end)) => destruct x eqn:?
  end.
Ltac leaf := first [ apply st_le_refl | apply st_eqv_le; unfold st_eqv; cbn; auto; fail ].

Lemma on_commit_le cfg s key sig_ok c : cchk cfg = true ->
  st_le s (st_of (on_commit cfg s key sig_ok c)).
Proof.
  intros Hchk. unfold on_commit. cbv zeta.
  destruct (negb (ccontains cfg key)); [st_simpl; leaf|].
  destruct (vnum (cview c) <? r_view s) eqn:Eold; [st_simpl; leaf|]. apply Z.ltb_ge in Eold.
  repeat (step_match; try (st_simpl; leaf)).
  all: match goal with
       | |- st_le _ (st_of (hbind (process_commit_qc _ ?s2 ?qc) _)) =>
           eapply st_le_trans with (b := s2); [apply st_eqv_le; unfold st_eqv; cbn; auto|];
           apply next_view_tail_le; [assumption|apply process_commit_qc_le|apply process_commit_qc_view|cbn; lia]
       end.
Qed.

Lemma on_timeout_le cfg s key sig_ok t : cchk cfg = true ->
  st_le s (st_of (on_timeout cfg s key sig_ok t)).
Proof.
  intros Hchk. unfold on_timeout. cbv zeta.
  destruct (negb (ccontains cfg key)); [st_simpl; leaf|].
  destruct (vnum (tview t) <? r_view s) eqn:Eold; [st_simpl; leaf|]. apply Z.ltb_ge in Eold.
  repeat (step_match; try (st_simpl; leaf)).
  all: match goal with
       | |- st_le _ (st_of (hbind (process_timeout_qc _ ?s2 ?qc) _)) =>
           eapply st_le_trans with (b := s2); [apply st_eqv_le; unfold st_eqv; cbn; auto|];
           apply next_view_tail_le; [assumption|apply process_timeout_qc_le|apply process_timeout_qc_view|cbn; lia]
       end.
Qed.

Lemma process_justification_view cfg s j : r_view (st_of (process_justification cfg s j)) = r_view s.
Proof. destruct j; cbn [process_justification]; [apply process_commit_qc_view|apply process_timeout_qc_view]. Qed.

Lemma on_new_view_le cfg s key sig_ok j : st_le s (st_of (on_new_view cfg s key sig_ok j)).
Proof.
  unfold on_new_view. apply hbind_st_eqv; [apply lift_eqv|]. intros s1 mv He1.
  repeat (step_match; try (st_simpl; leaf)).
  apply hbind_st_le; [apply process_justification_le|]. intros s2 _.
  destruct (r_view s2 <? vnum mv) eqn:E; [|st_simpl; leaf].
  apply Z.ltb_lt in E. apply start_new_view_le. lia.
Qed.

(* C05: one iteration of the run loop never decreases the view or the views of the two highest
   certificates (overflow checks on: a view number of u64::MAX panics instead of wrapping) *)
Theorem rstep_monotone cfg s i : cchk cfg = true -> st_le s (st_of (rstep cfg s i)).
Proof.
  intros Hchk. destruct i as [m| |n h]; cbn [rstep].
  - destruct (m_msg m); [apply on_proposal_le|apply on_commit_le; exact Hchk
                        |apply on_timeout_le; exact Hchk|apply on_new_view_le].
  - apply start_timeout_le.
  - destruct (_ =? _); st_simpl; [|leaf]. apply st_eqv_le; unfold st_eqv; cbn; auto.
Qed.

Theorem rprologue_monotone cfg s : st_le s (st_of (rprologue cfg s)).
Proof. unfold rprologue. destruct (_ =? _); [apply start_timeout_le|st_simpl; leaf]. Qed.

(* over any sequence of inputs *)
Fixpoint rsteps (cfg : config) (s : rstate) (is : list rinput) : rstate :=
  match is with [] => s | i :: rest => rsteps cfg (st_of (rstep cfg s i)) rest end.

Theorem rsteps_monotone cfg is : cchk cfg = true -> forall s, st_le s (rsteps cfg s is).
Proof.
  intros Hchk. induction is as [|i rest IH]; intros s; cbn [rsteps]; [apply st_le_refl|].
  eapply st_le_trans; [apply rstep_monotone; exact Hchk|apply IH].
Qed.
