(* C17 — invariants of the scope model (Model/Scope.v): list plumbing, the guard/refcount
   invariant [inv1] and its preservation by every step, the life cycle of a task ([ptrans]) and
   the effect of a step on a scope ([strans]). *)
From Coq Require Import ZArith List Bool Arith Lia.
From EC Require Import Lib.Obs Model.Scope.
Import ListNotations.
Open Scope nat_scope.

(* ---------- lists ---------- *)
Lemma length_upd {A} i (x : A) l : length (upd i x l) = length l.
Proof. revert i; induction l as [|y l IH]; intros [|i]; cbn; auto. Qed.

Lemma nth_upd {A} i j (x d : A) l :
  nth j (upd i x l) d = if (j =? i) && (i <? length l) then x else nth j l d.
Proof.
  revert i j; induction l as [|y l IH]; intros i j.
  - destruct i, j; cbn; rewrite ?andb_false_r; reflexivity.
  - destruct i as [|i], j as [|j]; cbn [upd nth length]; try reflexivity.
    rewrite IH. cbn [Nat.eqb]. replace (S i <? S (length l)) with (i <? length l); [reflexivity|].
    destruct (Nat.ltb_spec i (length l)), (Nat.ltb_spec (S i) (S (length l))); auto; lia.
Qed.

(* ---------- getters / setters ---------- *)
Lemma tget_tset st t x i :
  tget (tset st t x) i = if (i =? t) && (t <? length (tasks st)) then x else tget st i.
Proof. unfold tget, tset; cbn. apply nth_upd. Qed.
Lemma tget_sset st s x i : tget (sset st s x) i = tget st i.
Proof. reflexivity. Qed.
Lemma sget_sset st s x j :
  sget (sset st s x) j = if (j =? s) && (s <? length (scopes st)) then x else sget st j.
Proof. unfold sget, sset; cbn. apply nth_upd. Qed.
Lemma sget_tset st t x j : sget (tset st t x) j = sget st j.
Proof. reflexivity. Qed.
Lemma sget_set_ph st t q j : sget (set_ph st t q) j = sget st j.
Proof. reflexivity. Qed.
Lemma tget_set_ph st t q i :
  tget (set_ph st t q) i =
  if (i =? t) && (t <? length (tasks st)) then {| ph := q; gmain := gmain (tget st t) |} else tget st i.
Proof. unfold set_ph. apply tget_tset. Qed.
Lemma len_tasks_tset st t x : length (tasks (tset st t x)) = length (tasks st).
Proof. cbn. apply length_upd. Qed.
Lemma len_tasks_sset st s x : length (tasks (sset st s x)) = length (tasks st).
Proof. reflexivity. Qed.
Lemma len_scopes_tset st t x : length (scopes (tset st t x)) = length (scopes st).
Proof. reflexivity. Qed.
Lemma len_scopes_sset st s x : length (scopes (sset st s x)) = length (scopes st).
Proof. cbn. apply length_upd. Qed.
Lemma len_tasks_set_ph st t q : length (tasks (set_ph st t q)) = length (tasks st).
Proof. apply len_tasks_tset. Qed.
Lemma len_scopes_set_ph st t q : length (scopes (set_ph st t q)) = length (scopes st).
Proof. reflexivity. Qed.
Lemma ext_tset st t x : ext (tset st t x) = ext st. Proof. reflexivity. Qed.
Lemma ext_sset st t x : ext (sset st t x) = ext st. Proof. reflexivity. Qed.
Lemma ext_set_ph st t x : ext (set_ph st t x) = ext st. Proof. reflexivity. Qed.

Lemma tget_out st t : length (tasks st) <= t -> tget st t = dflt_ts.
Proof. intros. unfold tget. apply nth_overflow. exact H. Qed.
Lemma tget_lt st t : ph (tget st t) <> PNew -> t < length (tasks st).
Proof.
  intros H. destruct (Nat.lt_ge_cases t (length (tasks st))) as [|Hge]; [assumption|].
  rewrite (tget_out st t Hge) in H. cbn in H. congruence.
Qed.

(* ---------- counting ---------- *)
Definition b2n (b : bool) : nat := if b then 1 else 0.
Fixpoint cnt (f : nat -> bool) (n : nat) : nat :=
  match n with O => 0 | S m => cnt f m + b2n (f m) end.

Lemma cnt_ext f g n : (forall i, i < n -> f i = g i) -> cnt f n = cnt g n.
Proof.
  induction n as [|n IH]; intros H; cbn; [reflexivity|].
  rewrite IH by (intros; apply H; lia). rewrite (H n) by lia. reflexivity.
Qed.
Lemma cnt_delta f g n i : i < n -> (forall j, j < n -> j <> i -> f j = g j) ->
  cnt f n + b2n (g i) = cnt g n + b2n (f i).
Proof.
  induction n as [|n IH]; intros Hi H; [lia|]. cbn.
  destruct (Nat.eq_dec i n) as [->|Hne].
  - rewrite (cnt_ext f g n) by (intros; apply H; lia). lia.
  - rewrite (H n) by lia. assert (i < n) by lia. specialize (IH H0 ltac:(intros; apply H; lia)). lia.
Qed.
Lemma cnt_zero f n : cnt f n = 0 -> forall i, i < n -> f i = false.
Proof.
  induction n as [|n IH]; intros H i Hi; [lia|]. cbn in H.
  destruct (Nat.eq_dec i n) as [->|]; [destruct (f n); cbn in H; [lia|reflexivity]|].
  apply IH; lia.
Qed.
Lemma cnt_pos f n i : i < n -> f i = true -> 1 <= cnt f n.
Proof.
  intros Hi Hf. destruct (cnt f n) eqn:E; [|lia].
  rewrite (cnt_zero f n E i Hi) in Hf. discriminate.
Qed.

(* ---------- the guard invariant ---------- *)
Definition holding (q : phase) : bool :=
  match q with PNew | PDone _ => false | _ => true end.
Definition hm (x : tstate) : bool := holding (ph x) && gmain x.
Definition hb (x : tstate) : bool := holding (ph x) && negb (gmain x).
Definition hm_at (p : prog) (st : state) (s i : nat) : bool := (scope_of p i =? s) && hm (tget st i).
Definition hb_at (p : prog) (st : state) (s i : nat) : bool := (scope_of p i =? s) && hb (tget st i).

(* cancel_rc = number of live main tasks; terminate_rc = number of live background tasks
   + 1 while the CancelGuard exists *)
Definition counts_ok (p : prog) (st : state) : Prop :=
  forall s, cancel_rc (sget st s) = cnt (hm_at p st s) (length p)
         /\ terminate_rc (sget st s) = cnt (hb_at p st s) (length p) + b2n (0 <? cancel_rc (sget st s)).

Lemma counts_step p st st' t s x ss' :
  counts_ok p st -> t < length p -> scope_of p t = s ->
  (forall i, tget st' i = if i =? t then x else tget st i) ->
  (forall j, sget st' j = if j =? s then ss' else sget st j) ->
  cancel_rc ss' + b2n (hm (tget st t)) = cancel_rc (sget st s) + b2n (hm x) ->
  terminate_rc ss' + b2n (hb (tget st t)) + b2n (0 <? cancel_rc (sget st s))
    = terminate_rc (sget st s) + b2n (hb x) + b2n (0 <? cancel_rc ss') ->
  counts_ok p st'.
Proof.
  intros Hc Ht Hs Htg Hsg Hcr Htr s0. destruct (Hc s0) as (Hc1 & Hc2).
  rewrite !Hsg. destruct (Nat.eqb_spec s0 s) as [->|Hne].
  - pose proof (cnt_delta (hm_at p st s) (hm_at p st' s) (length p) t Ht) as D1.
    pose proof (cnt_delta (hb_at p st s) (hb_at p st' s) (length p) t Ht) as D2.
    assert (E1 : forall j, j < length p -> j <> t -> hm_at p st s j = hm_at p st' s j).
    { intros j _ Hj. unfold hm_at. rewrite Htg. destruct (Nat.eqb_spec j t); [contradiction|reflexivity]. }
    assert (E2 : forall j, j < length p -> j <> t -> hb_at p st s j = hb_at p st' s j).
    { intros j _ Hj. unfold hb_at. rewrite Htg. destruct (Nat.eqb_spec j t); [contradiction|reflexivity]. }
    specialize (D1 E1). specialize (D2 E2).
    unfold hm_at in D1 at 2 4. unfold hb_at in D2 at 2 4. rewrite Htg, Hs, !Nat.eqb_refl in D1, D2.
    cbn [andb] in D1, D2. split; lia.
  - assert (E1 : cnt (hm_at p st' s0) (length p) = cnt (hm_at p st s0) (length p)).
    { apply cnt_ext. intros i _. unfold hm_at. rewrite Htg. destruct (Nat.eqb_spec i t) as [->|]; [|reflexivity].
      rewrite Hs. destruct (Nat.eqb_spec s s0); [congruence|reflexivity]. }
    assert (E2 : cnt (hb_at p st' s0) (length p) = cnt (hb_at p st s0) (length p)).
    { apply cnt_ext. intros i _. unfold hb_at. rewrite Htg. destruct (Nat.eqb_spec i t) as [->|]; [|reflexivity].
      rewrite Hs. destruct (Nat.eqb_spec s s0); [congruence|reflexivity]. }
    rewrite E1, E2. split; assumption.
Qed.

Definition prog_ok (p : prog) : bool := wf_prog p && (0 <? length p) && (scope_of p 0 =? 0).

Lemma prog_ok_scope p t : prog_ok p = true -> scope_of p t < length p.
Proof.
  unfold prog_ok. intros H. apply andb_prop in H as (H & _). apply andb_prop in H as (Hw & Hn).
  apply Nat.ltb_lt in Hn. unfold scope_of, tdef.
  destruct (Nat.lt_ge_cases t (length p)) as [Hlt|Hge].
  - unfold wf_prog in Hw. rewrite forallb_forall in Hw.
    apply Nat.ltb_lt. apply Hw. apply nth_In. exact Hlt.
  - rewrite nth_overflow by exact Hge. cbn. exact Hn.
Qed.

Lemma cur_act_some p st t pc a : cur_act p st t = Some (pc, a) ->
  ph (tget st t) = PRun pc /\ a = nth_error (td_acts (tdef p t)) pc.
Proof.
  unfold cur_act. destruct (ph (tget st t)); try discriminate. intros H. injection H as <- <-. auto.
Qed.

Ltac inv_exec H :=
  unfold exec in H;
  repeat (match type of H with
          | context [match ?x with _ => _ end] => destruct x eqn:?; try discriminate H
          | context [if ?x then _ else _] => destruct x eqn:?; try discriminate H
          end);
  try (injection H as <-);
  repeat match goal with H' : cur_act _ _ _ = Some _ |- _ => apply cur_act_some in H' as (? & ?) end;
  subst.

Ltac simp_get :=
  repeat (rewrite ?tget_set_ph, ?tget_tset, ?tget_sset, ?sget_sset, ?sget_tset, ?sget_set_ph,
          ?len_tasks_set_ph, ?len_tasks_tset, ?len_tasks_sset, ?len_scopes_set_ph, ?len_scopes_tset,
          ?len_scopes_sset, ?ext_tset, ?ext_sset, ?ext_set_ph in * ).

(* lengths *)
Lemma exec_len p st l st' : exec p st l = Some st' ->
  length (tasks st') = length (tasks st) /\ length (scopes st') = length (scopes st).
Proof.
  intros H. destruct l; inv_exec H; simp_get; auto.
  all: try (destruct res; injection H as <-; simp_get; auto).
Qed.

Definition scope_ok (ss : sstate) : Prop :=
  (s_started ss = false -> ss = dflt_ss)
  /\ (s_started ss = true -> s_terminated ss = (terminate_rc ss =? 0))
  /\ (s_started ss = true -> cancel_rc ss = 0 -> s_cancelled ss = true)
  /\ (s_returned ss = true -> s_terminated ss = true).

Record inv1 (p : prog) (st : state) : Prop := {
  i_lt : length (tasks st) = length p;
  i_ls : length (scopes st) = length p;
  i_cnt : counts_ok p st;
  i_sok : forall s, scope_ok (sget st s);
  i_started : forall t, ph (tget st t) <> PNew -> s_started (sget st (scope_of p t)) = true }.

Lemma holding_not_new q : holding q = true -> q <> PNew.
Proof. destruct q; cbn; congruence. Qed.

Lemma holder_rc p st t : inv1 p st -> holding (ph (tget st t)) = true ->
  let ss := sget st (scope_of p t) in
  1 <= terminate_rc ss /\ s_terminated ss = false /\ s_started ss = true
  /\ (gmain (tget st t) = true -> 1 <= cancel_rc ss).
Proof.
  intros I Hh ss.
  assert (Hlt : t < length p) by (rewrite <- (i_lt _ _ I); apply tget_lt, holding_not_new, Hh).
  destruct (i_cnt _ _ I (scope_of p t)) as (Hc & Ht). fold ss in Hc, Ht.
  assert (Hst : s_started ss = true) by (apply (i_started _ _ I), holding_not_new, Hh).
  assert (Hm : gmain (tget st t) = true -> 1 <= cancel_rc ss).
  { intros Hg. rewrite Hc. apply (cnt_pos _ _ t Hlt). unfold hm_at, hm.
    rewrite Nat.eqb_refl, Hh, Hg. reflexivity. }
  assert (Ht1 : 1 <= terminate_rc ss).
  { destruct (gmain (tget st t)) eqn:Hg.
    - specialize (Hm eq_refl). rewrite Ht. destruct (Nat.ltb_spec 0 (cancel_rc ss)); cbn; lia.
    - assert (1 <= cnt (hb_at p st (scope_of p t)) (length p)); [|lia].
      apply (cnt_pos _ _ t Hlt). unfold hb_at, hb. rewrite Nat.eqb_refl, Hh, Hg. reflexivity. }
  destruct (i_sok _ _ I (scope_of p t)) as (_ & Hb & _). fold ss in Hb.
  repeat split; auto. rewrite (Hb Hst). apply Nat.eqb_neq. lia.
Qed.

(* U1: a live task moves to another live phase *)
Lemma inv1_set_ph p st t q : inv1 p st ->
  holding (ph (tget st t)) = true -> holding q = true -> inv1 p (set_ph st t q).
Proof.
  intros I Hh Hq.
  assert (Hlt : t < length (tasks st)) by (apply tget_lt, holding_not_new, Hh).
  assert (Hltb : (t <? length (tasks st)) = true) by (apply Nat.ltb_lt; exact Hlt).
  constructor; simp_get; try apply I.
  - eapply (counts_step p st _ t (scope_of p t) {| ph := q; gmain := gmain (tget st t) |} (sget st (scope_of p t))).
    + apply I. + rewrite <- (i_lt _ _ I); exact Hlt. + reflexivity.
    + intros i. simp_get. rewrite Hltb, andb_true_r. reflexivity.
    + intros j. simp_get. destruct (Nat.eqb_spec j (scope_of p t)); [subst|]; reflexivity.
    + unfold hm. cbn [ph gmain]. rewrite Hh, Hq. lia.
    + unfold hb. cbn [ph gmain]. rewrite Hh, Hq. lia.
  - intros t0. simp_get. rewrite Hltb, andb_true_r. destruct (Nat.eqb_spec t0 t) as [->|].
    + intros _. apply (i_started _ _ I), holding_not_new, Hh.
    + apply I.
Qed.

(* U2: only the cancelled flag / the error of a started scope change *)
Lemma inv1_flags p st s ss' : inv1 p st ->
  s_started (sget st s) = true ->
  s_started ss' = true -> cancel_rc ss' = cancel_rc (sget st s) -> terminate_rc ss' = terminate_rc (sget st s) ->
  s_terminated ss' = s_terminated (sget st s) -> s_returned ss' = s_returned (sget st s) ->
  (s_cancelled (sget st s) = true -> s_cancelled ss' = true) ->
  inv1 p (sset st s ss').
Proof.
  intros I Hst H1 H2 H3 H4 H5 H6.
  constructor; simp_get; try apply I.
  - intros s0. destruct (i_cnt _ _ I s0) as (Hc & Ht). simp_get.
    assert (E1 : cnt (hm_at p (sset st s ss') s0) (length p) = cnt (hm_at p st s0) (length p))
      by (apply cnt_ext; reflexivity).
    assert (E2 : cnt (hb_at p (sset st s ss') s0) (length p) = cnt (hb_at p st s0) (length p))
      by (apply cnt_ext; reflexivity).
    rewrite E1, E2.
    destruct ((s0 =? s) && (s <? length (scopes st))) eqn:E; [|split; assumption].
    apply andb_prop in E as (E & _). apply Nat.eqb_eq in E. subst s0. rewrite H2, H3. split; assumption.
  - intros s0. simp_get. destruct ((s0 =? s) && (s <? length (scopes st))) eqn:E; [|apply I].
    destruct (i_sok _ _ I s) as (Ha & Hb & Hc & Hd).
    unfold scope_ok. rewrite H1, H2, H3, H4, H5. repeat split; auto; try congruence.
  - intros t Ht. simp_get. destruct ((scope_of p t =? s) && (s <? length (scopes st))) eqn:E; [exact H1|].
    apply I. exact Ht.
Qed.

Lemma inv1_ext p st : inv1 p st -> inv1 p {| tasks := tasks st; scopes := scopes st; ext := true |}.
Proof. intros I. constructor; try apply I. Qed.

(* U3: return *)
Lemma inv1_return p st r : inv1 p st ->
  s_started (sget st r) = true -> s_terminated (sget st r) = true ->
  inv1 p (sset st r (ss_return (sget st r))).
Proof.
  intros I Hs Ht. constructor; simp_get; try apply I.
  - intros s0. destruct (i_cnt _ _ I s0) as (Hc & Hr). simp_get.
    assert (E1 : cnt (hm_at p (sset st r (ss_return (sget st r))) s0) (length p) = cnt (hm_at p st s0) (length p))
      by (apply cnt_ext; reflexivity).
    assert (E2 : cnt (hb_at p (sset st r (ss_return (sget st r))) s0) (length p) = cnt (hb_at p st s0) (length p))
      by (apply cnt_ext; reflexivity).
    rewrite E1, E2.
    destruct ((s0 =? r) && (r <? length (scopes st))) eqn:E; [|split; assumption].
    apply andb_prop in E as (E & _). apply Nat.eqb_eq in E. subst s0. cbn. split; assumption.
  - intros s0. simp_get. destruct ((s0 =? r) && (r <? length (scopes st))) eqn:E; [|apply I].
    destruct (i_sok _ _ I r) as (Ha & Hb & Hc & Hd).
    unfold scope_ok. cbn. repeat split; auto; congruence.
  - intros t Hn. simp_get. destruct ((scope_of p t =? r) && (r <? length (scopes st))) eqn:E; [exact Hs|].
    apply I. exact Hn.
Qed.

(* U4: spawn of task c into the scope s of a live task t *)
Lemma inv1_spawn p st t c : prog_ok p = true -> inv1 p st ->
  holding (ph (tget st t)) = true -> ph (tget st c) = PNew -> c < length (tasks st) ->
  scope_of p c = scope_of p t ->
  let s := scope_of p t in
  let sm := take_guard (sget st s) (td_main (tdef p c)) in
  inv1 p (tset (sset st s (fst sm)) c {| ph := PRun 0; gmain := snd sm |}).
Proof.
  intros Hok I Hh Hc Hlt Hsc s sm.
  destruct (holder_rc p st t I Hh) as (Ht1 & Hnt & Hst & Hm). fold s in Ht1, Hnt, Hst, Hm.
  assert (Hs : s < length (scopes st)) by (rewrite (i_ls _ _ I); apply prog_ok_scope, Hok).
  assert (Hsb : (s <? length (scopes st)) = true) by (apply Nat.ltb_lt, Hs).
  assert (Hcb : (c <? length (tasks st)) = true) by (apply Nat.ltb_lt, Hlt).
  assert (Hfst : s_started (fst sm) = true /\ s_terminated (fst sm) = false
                 /\ s_cancelled (fst sm) = s_cancelled (sget st s) /\ s_returned (fst sm) = s_returned (sget st s)).
  { unfold sm, take_guard. destruct (td_main (tdef p c) && (0 <? cancel_rc (sget st s))); cbn; auto. }
  destruct Hfst as (F1 & F2 & F3 & F4).
  constructor; simp_get; try apply I.
  - eapply (counts_step p st _ c s {| ph := PRun 0; gmain := snd sm |} (fst sm)).
    + apply I. + rewrite <- (i_lt _ _ I); exact Hlt. + exact Hsc.
    + intros i. simp_get. rewrite Hcb, andb_true_r. reflexivity.
    + intros j. simp_get. rewrite Hsb, andb_true_r. reflexivity.
    + unfold hm. rewrite Hc. cbn [holding ph gmain andb b2n]. unfold sm, take_guard.
      destruct (td_main (tdef p c) && (0 <? cancel_rc (sget st s))); cbn; lia.
    + unfold hb. rewrite Hc. cbn [holding ph gmain andb b2n]. unfold sm, take_guard.
      destruct (td_main (tdef p c) && (0 <? cancel_rc (sget st s))) eqn:E; cbn [fst snd ss_rc cancel_rc terminate_rc negb b2n].
      * apply andb_prop in E as (_ & E). rewrite E. cbn. lia.
      * lia.
  - intros s0. simp_get. rewrite Hsb, andb_true_r. destruct (Nat.eqb_spec s0 s) as [->|]; [|apply I].
    destruct (i_sok _ _ I s) as (Ha & Hb & Hcc & Hd).
    unfold scope_ok. rewrite F1, F2, F3, F4. split; [congruence|]. split; [|split].
    + intros _. symmetry. apply Nat.eqb_neq. unfold sm, take_guard.
      destruct (td_main (tdef p c) && (0 <? cancel_rc (sget st s))); cbn; lia.
    + intros _. unfold sm, take_guard.
      destruct (td_main (tdef p c) && (0 <? cancel_rc (sget st s))); cbn; [lia|]. exact (Hcc Hst).
    + intros Hr. rewrite (Hd Hr) in Hnt. discriminate.
  - intros t0. simp_get. rewrite Hcb, Hsb, !andb_true_r. intros Hn.
    destruct (Nat.eqb_spec (scope_of p t0) s) as [|Hne]; [exact F1|].
    apply I. destruct (Nat.eqb_spec t0 c) as [E|]; [subst t0; exfalso; apply Hne; exact Hsc|exact Hn].
Qed.

(* U5: a nested scope r is started *)
Lemma inv1_nested p st r parent caller dl : prog_ok p = true -> inv1 p st ->
  s_started (sget st r) = false -> ph (tget st r) = PNew -> r < length (tasks st) -> scope_of p r = r ->
  inv1 p (tset (sset st r (ss_start parent caller dl)) r {| ph := PRun 0; gmain := true |}).
Proof.
  intros Hok I Hns Hn Hlt Hsc.
  assert (Hs : r < length (scopes st)) by (rewrite (i_ls _ _ I), <- (i_lt _ _ I); exact Hlt).
  assert (Hsb : (r <? length (scopes st)) = true) by (apply Nat.ltb_lt, Hs).
  assert (Hcb : (r <? length (tasks st)) = true) by (apply Nat.ltb_lt, Hlt).
  destruct (i_sok _ _ I r) as (Ha & _). specialize (Ha Hns).
  constructor; simp_get; try apply I.
  - eapply (counts_step p st _ r r {| ph := PRun 0; gmain := true |} (ss_start parent caller dl)).
    + apply I. + rewrite <- (i_lt _ _ I); exact Hlt. + exact Hsc.
    + intros i. simp_get. rewrite Hcb, andb_true_r. reflexivity.
    + intros j. simp_get. rewrite Hsb, andb_true_r. reflexivity.
    + unfold hm. rewrite Hn, Ha. cbn. lia.
    + unfold hb. rewrite Hn, Ha. cbn. lia.
  - intros s0. simp_get. rewrite Hsb, andb_true_r. destruct (Nat.eqb_spec s0 r) as [->|]; [|apply I].
    unfold scope_ok. cbn. repeat split; congruence.
  - intros t0. simp_get. rewrite Hcb, Hsb, !andb_true_r. intros H0.
    destruct (Nat.eqb_spec (scope_of p t0) r) as [|Hne]; [reflexivity|].
    apply I. destruct (Nat.eqb_spec t0 r) as [E|]; [subst t0; exfalso; apply Hne; exact Hsc|exact H0].
Qed.

(* U6: a task that finished drops its guard *)
Lemma inv1_drop p st t res : prog_ok p = true -> inv1 p st ->
  holding (ph (tget st t)) = true ->
  let s := scope_of p t in
  inv1 p (set_ph (sset st s (drop_guard (sget st s) (gmain (tget st t)))) t (PDone res)).
Proof.
  intros Hok I Hh s.
  destruct (holder_rc p st t I Hh) as (Ht1 & Hnt & Hst & Hm). fold s in Ht1, Hnt, Hst, Hm.
  assert (Hlt : t < length (tasks st)) by (apply tget_lt, holding_not_new, Hh).
  assert (Hs : s < length (scopes st)) by (rewrite (i_ls _ _ I); apply prog_ok_scope, Hok).
  assert (Hsb : (s <? length (scopes st)) = true) by (apply Nat.ltb_lt, Hs).
  assert (Hcb : (t <? length (tasks st)) = true) by (apply Nat.ltb_lt, Hlt).
  destruct (i_cnt _ _ I s) as (Hcn & Htn).
  set (ss' := drop_guard (sget st s) (gmain (tget st t))).
  constructor; simp_get; try apply I.
  - eapply (counts_step p st _ t s {| ph := PDone res; gmain := gmain (tget st t) |} ss').
    + apply I. + rewrite <- (i_lt _ _ I); exact Hlt. + reflexivity.
    + intros i. simp_get. rewrite Hcb, andb_true_r. reflexivity.
    + intros j. simp_get. rewrite Hsb, andb_true_r. reflexivity.
    + unfold hm. rewrite Hh. cbn [holding ph gmain andb b2n]. unfold ss', drop_guard.
      destruct (gmain (tget st t)) eqn:G; cbn [b2n].
      * specialize (Hm eq_refl). destruct (Nat.eqb_spec (cancel_rc (sget st s) - 1) 0); cbn; lia.
      * cbn. lia.
    + unfold hb. rewrite Hh. cbn [holding ph gmain andb b2n]. unfold ss', drop_guard.
      destruct (gmain (tget st t)) eqn:G; cbn [negb b2n].
      * specialize (Hm eq_refl). destruct (Nat.eqb_spec (cancel_rc (sget st s) - 1) 0) as [E|E]; cbn [ss_rc cancel_rc terminate_rc].
        -- destruct (Nat.ltb_spec 0 (cancel_rc (sget st s))); [|lia]. cbn. lia.
        -- destruct (Nat.ltb_spec 0 (cancel_rc (sget st s))); [|lia].
           destruct (Nat.ltb_spec 0 (cancel_rc (sget st s) - 1)); [|lia]. cbn. lia.
      * cbn [ss_rc cancel_rc terminate_rc]. lia.
  - intros s0. simp_get. rewrite Hsb, andb_true_r. destruct (Nat.eqb_spec s0 s) as [->|]; [|apply I].
    destruct (i_sok _ _ I s) as (Ha & Hb & Hcc & Hd).
    assert (Hnr : s_returned (sget st s) = false).
    { destruct (s_returned (sget st s)) eqn:R; [|reflexivity]. rewrite (Hd eq_refl) in Hnt. discriminate. }
    unfold scope_ok, ss', drop_guard. rewrite Hnt.
    destruct (gmain (tget st t)) eqn:G.
    + specialize (Hm eq_refl). destruct (Nat.eqb_spec (cancel_rc (sget st s) - 1) 0) as [E|E]; cbn.
      * rewrite orb_false_r. repeat split; auto; congruence.
      * repeat split; auto; try congruence. intros _. rewrite Hnt in Hb. symmetry. apply Nat.eqb_neq. lia.
    + cbn. rewrite orb_false_r. repeat split; auto; congruence.
  - intros t0. simp_get. rewrite Hcb, Hsb, !andb_true_r. intros Hn.
    assert (Hss : s_started ss' = true).
    { unfold ss', drop_guard. destruct (gmain (tget st t)); [destruct (cancel_rc (sget st s) - 1 =? 0)|]; cbn; exact Hst. }
    destruct (Nat.eqb_spec (scope_of p t0) s); [exact Hss|].
    apply I. destruct (Nat.eqb_spec t0 t) as [E|]; [|exact Hn]. subst t0. apply holding_not_new, Hh.
Qed.

Lemma holding_run st t pc : ph (tget st t) = PRun pc -> holding (ph (tget st t)) = true.
Proof. intros ->. reflexivity. Qed.

Lemma inv1_init p : prog_ok p = true -> inv1 p (init p).
Proof.
  intros Hok. assert (Hn : 0 < length p).
  { unfold prog_ok in Hok. apply andb_prop in Hok as (H & _). apply andb_prop in H as (_ & H). apply Nat.ltb_lt, H. }
  assert (Hs0 : scope_of p 0 = 0).
  { unfold prog_ok in Hok. apply andb_prop in Hok as (_ & H). apply Nat.eqb_eq, H. }
  assert (Hnb : (0 <? length p) = true) by (apply Nat.ltb_lt, Hn).
  assert (Tg : forall i, tget (init p) i = if i =? 0 then {| ph := PRun 0; gmain := true |} else dflt_ts).
  { intros i. unfold tget, init. cbn [tasks]. rewrite nth_upd, repeat_length, Hnb, andb_true_r.
    destruct (i =? 0); [reflexivity|]. destruct (Nat.lt_ge_cases i (length p)).
    - apply nth_repeat. - apply nth_overflow. rewrite repeat_length. assumption. }
  assert (Sg : forall j, sget (init p) j = if j =? 0 then ss_start None None false else dflt_ss).
  { intros i. unfold sget, init. cbn [scopes]. rewrite nth_upd, repeat_length, Hnb, andb_true_r.
    destruct (i =? 0); [reflexivity|]. destruct (Nat.lt_ge_cases i (length p)).
    - apply nth_repeat. - apply nth_overflow. rewrite repeat_length. assumption. }
  constructor.
  - unfold init. cbn [tasks]. rewrite length_upd, repeat_length. reflexivity.
  - unfold init. cbn [scopes]. rewrite length_upd, repeat_length. reflexivity.
  - intros s. rewrite Sg.
    assert (E1 : cnt (hm_at p (init p) s) (length p) = if s =? 0 then 1 else 0).
    { assert (Pm : forall j, j < length p -> j <> 0 -> false = hm_at p (init p) s j).
      { intros j _ Hj. unfold hm_at. rewrite Tg. destruct (Nat.eqb_spec j 0); [contradiction|].
        cbn. rewrite andb_false_r. reflexivity. }
      pose proof (cnt_delta (fun _ => false) (hm_at p (init p) s) (length p) 0 Hn Pm) as D.
      assert (Z : cnt (fun _ => false) (length p) = 0) by (clear; induction (length p); cbn; lia).
      rewrite Z in D. unfold hm_at in D at 1. rewrite Tg, Hs0 in D.
      cbn [hm holding ph gmain] in D.
      rewrite (Nat.eqb_sym s 0). destruct (0 =? s); cbn in D |- *; lia. }
    assert (E2 : cnt (hb_at p (init p) s) (length p) = 0).
    { rewrite (cnt_ext _ (fun _ => false)).
      - clear; induction (length p); cbn; lia.
      - intros i _. unfold hb_at. rewrite Tg. destruct (i =? 0); cbn; rewrite ?andb_false_r; reflexivity. }
    rewrite E1, E2. destruct (s =? 0); cbn; split; reflexivity.
  - intros s. rewrite Sg. destruct (s =? 0); unfold scope_ok; cbn; repeat split; congruence.
  - intros t. rewrite Tg, Sg. destruct (Nat.eqb_spec t 0) as [->|]; [|cbn; congruence].
    rewrite Hs0. reflexivity.
Qed.

Lemma inv1_step p st l st' : prog_ok p = true -> inv1 p st -> exec p st l = Some st' -> inv1 p st'.
Proof.
  intros Hok I H. destruct l.
  - (* LSpawn *)
    inv_exec H.
    repeat match goal with H : _ && _ = true |- _ => apply andb_prop in H as (? & ?) end.
    match goal with H : take_guard _ _ = _ |- _ => rename H into Htg end.
    match goal with H : ph (tget st t) = PRun _ |- _ => rename H into Hrun end.
    match goal with H : (c <? _) = true |- _ => apply Nat.ltb_lt in H; rename H into Hclt end.
    match goal with H : (scope_of p c =? _) = true |- _ => apply Nat.eqb_eq in H; rename H into Hsc end.
    pose proof (inv1_spawn p st t c Hok I (holding_run _ _ _ Hrun)) as U.
    cbv zeta in U. rewrite Htg in U. cbn [fst snd] in U.
    apply inv1_set_ph; [apply U; auto| |reflexivity].
    + destruct (ph (tget st c)); try discriminate; reflexivity.
    + simp_get. destruct ((t =? c) && (c <? length (tasks st))); [reflexivity|]. rewrite Hrun. reflexivity.
  - (* LNested *)
    inv_exec H.
    repeat match goal with H : _ && _ = true |- _ => apply andb_prop in H as (? & ?) end.
    match goal with H : ph (tget st t) = PRun _ |- _ => rename H into Hrun end.
    match goal with H : (r <? _) = true |- _ => apply Nat.ltb_lt in H; rename H into Hclt end.
    match goal with H : (scope_of p r =? _) = true |- _ => apply Nat.eqb_eq in H; rename H into Hsc end.
    match goal with H : negb _ = true |- _ => apply negb_true_iff in H; rename H into Hns end.
    apply inv1_set_ph; [apply inv1_nested; auto| |reflexivity].
    + destruct (ph (tget st r)); try discriminate; reflexivity.
    + simp_get. destruct ((t =? r) && (r <? length (tasks st))); [reflexivity|]. rewrite Hrun. reflexivity.
  - (* LObs *) inv_exec H. apply inv1_set_ph; auto. eapply holding_run; eassumption.
  - (* LJoin *) inv_exec H; apply inv1_set_ph; auto; eapply holding_run; eassumption.
  - (* LCancel *)
    inv_exec H. match goal with H : ph (tget st t) = PRun _ |- _ => rename H into Hrun end.
    pose proof (holder_rc p st t I (holding_run _ _ _ Hrun)) as (_ & _ & Hst & _).
    apply inv1_set_ph; [apply inv1_flags; auto| |reflexivity].
    simp_get. rewrite Hrun. reflexivity.
  - (* LEnd *)
    inv_exec H; apply inv1_set_ph; auto;
      match goal with H : ph (tget st t) = _ |- _ => rewrite H; reflexivity end.
  - (* LRet *)
    unfold exec in H.
    destruct (s_started (sget st r) && s_terminated (sget st r) && negb (s_returned (sget st r))
              && tres_eqb res (scope_result st r)) eqn:C; [|discriminate].
    repeat match goal with H : _ && _ = true |- _ => apply andb_prop in H as (? & ?) end.
    pose proof (inv1_return p st r I ltac:(assumption) ltac:(assumption)) as U.
    destruct (s_caller (sget st r)); [|injection H as <-; exact U].
    destruct (ph (tget st n)) eqn:Hp; try discriminate. injection H as <-.
    apply inv1_set_ph; [exact U| |destruct res; reflexivity].
    simp_get. rewrite Hp. reflexivity.
  - (* LExt *) injection H as <-. apply inv1_ext, I.
  - (* LSetErr *)
    inv_exec H.
    match goal with H : ph (tget st t) = PEnded _ |- _ => rename H into Hrun end.
    assert (Hh : holding (ph (tget st t)) = true) by (rewrite Hrun; reflexivity).
    pose proof (holder_rc p st t I Hh) as (_ & _ & Hst & _).
    apply inv1_set_ph; [apply inv1_flags; auto| |reflexivity];
      try (simp_get; rewrite Hrun; reflexivity);
      unfold set_err; destruct (s_err (sget st (scope_of p t))), r; cbn; auto.
  - (* LDrop *)
    inv_exec H; apply inv1_drop; auto;
      match goal with H : ph (tget st t) = _ |- _ => rewrite H; reflexivity end.
  - (* LProp *)
    inv_exec H.
    repeat match goal with H : _ && _ = true |- _ => apply andb_prop in H as (? & ?) end.
    apply inv1_flags; auto.
Qed.

Lemma run_app p st ls1 ls2 :
  run p st (ls1 ++ ls2) = match run p st ls1 with Some st1 => run p st1 ls2 | None => None end.
Proof. revert st; induction ls1 as [|l ls IH]; intros st; cbn; [reflexivity|]. destruct (exec p st l); auto. Qed.

Lemma inv1_run p st ls st' : prog_ok p = true -> inv1 p st -> run p st ls = Some st' -> inv1 p st'.
Proof.
  intros Hok. revert st. induction ls as [|l ls IH]; intros st I H; cbn in H.
  - injection H as <-. exact I.
  - destruct (exec p st l) eqn:E; [|discriminate]. eapply IH; [|exact H]. eapply inv1_step; eassumption.
Qed.

Lemma inv1_reachable p st : prog_ok p = true -> reachable p st -> inv1 p st.
Proof. intros Hok (ls & H). eapply inv1_run; [exact Hok|apply inv1_init, Hok|exact H]. Qed.

(* life cycle of a task *)
Inductive ptrans : label -> nat -> phase -> phase -> Prop :=
| pt_spawn t c : ptrans (LSpawn t c) c PNew (PRun 0)
| pt_root t r : ptrans (LNested t r) r PNew (PRun 0)
| pt_spawner t c pc : ptrans (LSpawn t c) t (PRun pc) (PRun (S pc))
| pt_nested t r pc : ptrans (LNested t r) t (PRun pc) (PWaitRet pc)
| pt_obs t pc : ptrans (LObs t) t (PRun pc) (PRun (S pc))
| pt_join t c o pc : o <> JPanic -> ptrans (LJoin t c o) t (PRun pc) (PRun (S pc))
| pt_joinp t c pc : ptrans (LJoin t c JPanic) t (PRun pc) (PMustEnd RPanic)
| pt_cancel t pc : ptrans (LCancel t) t (PRun pc) (PRun (S pc))
| pt_end t pc r : ptrans (LEnd t r) t (PRun pc) (PEnded r)
| pt_mustend t r : ptrans (LEnd t r) t (PMustEnd r) (PEnded r)
| pt_ret_ok r t pc : ptrans (LRet r ROk) t (PWaitRet pc) (PRun (S pc))
| pt_ret_fail r res t pc : res <> ROk -> ptrans (LRet r res) t (PWaitRet pc) (PMustEnd res)
| pt_seterr t r : r <> ROk -> ptrans (LSetErr t r) t (PEnded r) (PErrSet r)
| pt_drop_ok t : ptrans (LDrop t) t (PEnded ROk) (PDone ROk)
| pt_drop t r : ptrans (LDrop t) t (PErrSet r) (PDone r).

Ltac split_if :=
  repeat match goal with
         | |- context [if (?a =? ?b) && ?c then _ else _] =>
             destruct (Nat.eqb_spec a b); [subst; destruct c eqn:?|]; cbn [andb]
         end.

Lemma tres_eqb_eq a b : tres_eqb a b = true -> a = b.
Proof. destruct a, b; cbn; try discriminate; auto. intros H. apply Z.eqb_eq in H. congruence. Qed.

Ltac pt_fin :=
  try congruence;
  repeat match goal with E : ph (tget _ _) = _ |- _ => rewrite E in * end;
  cbn [ph gmain] in *;
  try congruence;
  first [ left; reflexivity
        | right; split; [auto; fail | ]; constructor; try discriminate; fail
        | idtac ].

Ltac get_new st :=
  repeat match goal with H : _ && _ = true |- _ => apply andb_prop in H as (? & ?) end;
  match goal with H : match ph (tget st ?c) with _ => _ end = true |- _ =>
    destruct (ph (tget st c)) eqn:?; try discriminate H end.

Lemma exec_ptrans p st l st' : exec p st l = Some st' ->
  forall i, tget st' i = tget st i \/ (gmain (tget st' i) = gmain (tget st i) \/ ph (tget st i) = PNew)
                                       /\ ptrans l i (ph (tget st i)) (ph (tget st' i)).
Proof.
  intros H. destruct l.
  - inv_exec H. get_new st. intros i. simp_get. split_if; pt_fin.
  - inv_exec H. get_new st. intros i. simp_get. split_if; pt_fin.
  - inv_exec H. intros i. simp_get. split_if; pt_fin.
  - inv_exec H; intros i; simp_get; split_if; pt_fin.
  - inv_exec H. intros i. simp_get. split_if; pt_fin.
  - inv_exec H; intros i; simp_get; split_if; pt_fin.
    right. split; [auto|]. destruct r, r0; cbn in Heqb; try discriminate; try constructor.
    apply Z.eqb_eq in Heqb. subst. constructor.
  - unfold exec in H.
    destruct (s_started (sget st r) && s_terminated (sget st r) && negb (s_returned (sget st r))
              && tres_eqb res (scope_result st r)) eqn:C; [|discriminate].
    destruct (s_caller (sget st r)); [|injection H as <-; intros i; simp_get; auto].
    destruct (ph (tget st n)) eqn:Hp; try discriminate. injection H as <-.
    intros i. simp_get. split_if; pt_fin. right. split; [auto|].
    destruct res; constructor; discriminate.
  - injection H as <-. intros i. left. reflexivity.
  - inv_exec H; intros i; simp_get; split_if; pt_fin.
    apply andb_prop in Heqb as (E1 & E2). apply tres_eqb_eq in E1. subst r0.
    right. split; [auto|]. constructor. destruct r; cbn in E2; congruence.
  - inv_exec H; intros i; simp_get; split_if; pt_fin.
  - inv_exec H. intros i. simp_get. auto.
Qed.

(* what a step does to a scope *)
Inductive strans (p : prog) (st : state) : label -> nat -> sstate -> sstate -> Prop :=
| st_same l j a : strans p st l j a a
| st_cancel t a : strans p st (LCancel t) (scope_of p t) a (ss_cancel a)
| st_prop j a : s_started a = true ->
    (parent_cancelled st a || (s_dl a && ext st)) = true -> strans p st (LProp j) j a (ss_cancel a)
| st_seterr t r a : ph (tget st t) = PEnded r -> r <> ROk ->
    strans p st (LSetErr t r) (scope_of p t) a (set_err a r)
| st_drop t a : holding (ph (tget st t)) = true ->
    strans p st (LDrop t) (scope_of p t) a (drop_guard a (gmain (tget st t)))
| st_take t c a : holding (ph (tget st t)) = true ->
    strans p st (LSpawn t c) (scope_of p t) a (fst (take_guard a (td_main (tdef p c))))
| st_ret j res a : s_started a = true -> s_terminated a = true -> s_returned a = false ->
    res = scope_result st j -> strans p st (LRet j res) j a (ss_return a)
| st_start t r dl a : s_started a = false -> holding (ph (tget st t)) = true ->
    strans p st (LNested t r) r a (ss_start (Some (scope_of p t)) (Some t) dl).

Ltac split_ifs :=
  repeat match goal with
         | |- context [if (?a =? ?b) && ?c then _ else _] =>
             destruct (Nat.eqb_spec a b); [subst; destruct c eqn:?|]; cbn [andb]
         end.


Lemma exec_strans p st l st' : exec p st l = Some st' ->
  forall j, strans p st l j (sget st j) (sget st' j).
Proof.
  intros H. destruct l.
  - inv_exec H. intros j. simp_get. split_ifs; try constructor.
    replace s with (fst (take_guard (sget st (scope_of p t)) (td_main (tdef p c)))) by (rewrite Heqp0; reflexivity).
    constructor. match goal with E : ph (tget st t) = _ |- _ => rewrite E; reflexivity end.
  - inv_exec H. get_new st. intros j. simp_get. split_ifs; try constructor.
    + apply negb_true_iff. assumption. + match goal with E : ph (tget st t) = _ |- _ => rewrite E; reflexivity end.
  - inv_exec H. intros j. simp_get. constructor.
  - inv_exec H; intros j; simp_get; constructor.
  - inv_exec H. intros j. simp_get. split_ifs; constructor.
  - inv_exec H; intros j; simp_get; constructor.
  - unfold exec in H.
    destruct (s_started (sget st r) && s_terminated (sget st r) && negb (s_returned (sget st r))
              && tres_eqb res (scope_result st r)) eqn:C; [|discriminate].
    repeat match goal with H : _ && _ = true |- _ => apply andb_prop in H as (? & ?) end.
    assert (forall j, strans p st (LRet r res) j (sget st j) (sget (sset st r (ss_return (sget st r))) j)) as A.
    { intros j. simp_get. split_ifs; try constructor; auto.
      - apply negb_true_iff. assumption. - apply tres_eqb_eq. assumption. }
    destruct (s_caller (sget st r)); [|injection H as <-; exact A].
    destruct (ph (tget st n)) eqn:Hp; try discriminate. injection H as <-. intros j. rewrite sget_set_ph. apply A.
  - injection H as <-. intros j. constructor.
  - inv_exec H. apply andb_prop in Heqb as (E1 & E2). apply tres_eqb_eq in E1. subst.
    intros j; simp_get; split_ifs; try constructor; auto.
    intros ->. cbn in E2. discriminate.
  - inv_exec H; intros j; simp_get; split_ifs; try constructor;
      match goal with E : ph (tget st _) = _ |- _ => rewrite E; reflexivity end.
  - inv_exec H. repeat match goal with H : _ && _ = true |- _ => apply andb_prop in H as (? & ?) end.
    intros j. simp_get. split_ifs; try constructor; auto.
Qed.
