(* C18 lemmas, part 4: batches processed under changing schedules (committee changes). *)
From Coq Require Import ZArith List Bool Lia Permutation.
From EC Require Import Lib.Outcome Lib.U64 Lib.Obs Model.AddrBook Proofs.AddrBookProofs Proofs.AddrBookHistory.
Import ListNotations.
Open Scope Z_scope.

(* ------------------------------------------------------------------ *)
(* committee changes: every batch is processed under the schedule of its time *)

Fixpoint run_updatesC (b : book) (bs : list (list Z * list entry)) : book :=
  match bs with
  | [] => b
  | (c, d) :: bs' => run_updatesC (fst (update_watch c d b)) bs'
  end.

(* the validly signed announcements, accepted while their key was a member *)
Fixpoint seenC (b : book) (bs : list (list Z * list entry)) : list entry :=
  match bs with
  | [] => []
  | (c, d) :: bs' =>
      accepted_valid c d (snd (update_watch c d b)) ++ seenC (fst (update_watch c d b)) bs'
  end.

Lemma run_updatesC_run : forall chk bs b,
  run_updatesC b bs = run chk b (map (fun cd => OUpdate (fst cd) (snd cd)) bs).
Proof.
  intros chk bs. induction bs as [|[c d] bs IH]; intros b; cbn [run_updatesC run map step fst snd];
    [reflexivity|apply IH].
Qed.

Lemma run_updatesC_const : forall c bs b, run_updatesC b (map (fun d => (c, d)) bs) = run_updates c b bs.
Proof.
  intros c bs. induction bs as [|d bs IH]; intros b; cbn [run_updatesC run_updates map]; [reflexivity|apply IH].
Qed.

Lemma run_updatesC_app : forall bs1 bs2 b, run_updatesC b (bs1 ++ bs2) = run_updatesC (run_updatesC b bs1) bs2.
Proof.
  induction bs1 as [|[c d] bs1 IH]; intros bs2 b; cbn [run_updatesC app]; [reflexivity|apply IH].
Qed.

Lemma run_maxC : forall bs b s, is_max_of b s -> is_max_of (run_updatesC b bs) (s ++ seenC b bs).
Proof.
  induction bs as [|[c d] bs IH]; intros b s Hmax; cbn [run_updatesC seenC].
  - rewrite app_nil_r. exact Hmax.
  - rewrite app_assoc. apply IH. apply step_max. exact Hmax.
Qed.

Theorem book_is_newest_seenC : forall bs k,
  match get k (run_updatesC [] bs) with
  | Some e => In e (seenC [] bs) /\
              forall e', In e' (seenC [] bs) -> ekey e' = k -> ~ newer (emsg e') (emsg e)
  | None => forall e', In e' (seenC [] bs) -> ekey e' <> k
  end.
Proof.
  intros bs. apply (run_maxC bs [] []). intros k e' [].
Qed.

(* two nodes - each with its own sequence of schedules - agree on key k as soon as the same
   announcements of k were accepted by both while k was a member *)
Theorem book_convergentC_key : forall bs1 bs2 k,
  (forall e, ekey e = k -> (In e (seenC [] bs1) <-> In e (seenC [] bs2))) ->
  unique_stamps_of k (seenC [] bs1) ->
  get k (run_updatesC [] bs1) = get k (run_updatesC [] bs2).
Proof.
  intros bs1 bs2 k Hsame Huniq.
  pose proof (book_is_newest_seenC bs1 k) as H1. pose proof (book_is_newest_seenC bs2 k) as H2.
  destruct (get k (run_updatesC [] bs1)) as [e1|] eqn:G1; destruct (get k (run_updatesC [] bs2)) as [e2|] eqn:G2.
  - destruct H1 as [I1 D1]. destruct H2 as [I2 D2].
    pose proof (get_key _ _ _ G1) as K1. pose proof (get_key _ _ _ G2) as K2.
    assert (N1 : ~ newer (emsg e2) (emsg e1)) by (apply D1; [apply Hsame; assumption|exact K2]).
    assert (N2 : ~ newer (emsg e1) (emsg e2)) by (apply D2; [apply Hsame; assumption|exact K1]).
    destruct (newer_total _ _ N1 N2) as [Hv Ht].
    f_equal. apply Huniq; [exact I1|apply Hsame; assumption|exact K1|exact K2|congruence|congruence].
  - destruct H1 as [I1 _]. pose proof (get_key _ _ _ G1) as K1.
    exfalso. apply (H2 e1); [apply Hsame; assumption|exact K1].
  - destruct H2 as [I2 _]. pose proof (get_key _ _ _ G2) as K2.
    exfalso. apply (H1 e2); [apply Hsame; assumption|exact K2].
  - reflexivity.
Qed.

Theorem book_convergentC : forall bs1 bs2,
  (forall e, In e (seenC [] bs1) <-> In e (seenC [] bs2)) ->
  unique_stamps (seenC [] bs1) ->
  run_updatesC [] bs1 = run_updatesC [] bs2.
Proof.
  intros bs1 bs2 Hsame Hu. apply ssorted_ext.
  - rewrite (run_updatesC_run true). apply ssorted_run. exact I.
  - rewrite (run_updatesC_run true). apply ssorted_run. exact I.
  - intros k. apply book_convergentC_key.
    + intros e _. apply Hsame.
    + intros e1 e2 I1 I2 K1 K2. apply Hu; [exact I1|exact I2|congruence].
Qed.

(* a key that has left the schedule: its entry stays and is frozen *)
Theorem left_committee_frozen : forall bs b k,
  (forall c d, In (c, d) bs -> mem k c = false) ->
  get k (run_updatesC b bs) = get k b.
Proof.
  induction bs as [|[c d] bs IH]; intros b k H; cbn [run_updatesC]; [reflexivity|].
  rewrite IH; [|intros c' d' Hin; apply (H c' d'); right; exact Hin].
  apply non_members_ignored. apply (H c d). left. reflexivity.
Qed.

(* the switch point matters: the same announcements in the same order, the schedule changed from
   [0;1] to [0;2] one batch earlier at the second node *)
Lemma committee_switch_point_matters_wit :
  let e1 := sign 1 {| na_addr := 11; na_version := 0; na_ts := 0 |} in
  let e2 := sign 2 {| na_addr := 22; na_version := 0; na_ts := 0 |} in
  let x := run_updatesC [] [([0; 1], [e1; e2]); ([0; 2], [e1; e2])] in
  let y := run_updatesC [] [([0; 2], [e1; e2]); ([0; 2], [e1; e2])] in
  dial x 1 = Some 11 /\ dial x 2 = Some 22 /\ dial y 1 = None /\ dial y 2 = Some 22.
Proof. cbv zeta. repeat split; reflexivity. Qed.
