(* Wire layer: varint / value / tag-value round trips, stability of the reader under appended
   input, shape of what the reader returns. *)
From Coq Require Import String ZArith List Bool Lia.
From EC Require Import Model.Wire.
Import ListNotations.
Open Scope Z_scope.

Ltac Zify.zify_post_hook ::= Z.div_mod_to_equations.

(* ---- varints ---- *)

Lemma varint_dec_enc : forall f x r,
  0 <= x < 128 ^ (Z.of_nat (S f)) ->
  varint_dec (S f) (varint_enc f x ++ r) = Some (x, r).
Proof.
  induction f as [|f IH]; intros x r Hx.
  - cbn [varint_enc varint_dec app]. change (128 ^ Z.of_nat 1) with 128 in Hx.
    destruct (x <? 128) eqn:E; [reflexivity | apply Z.ltb_ge in E; lia].
  - cbn [varint_enc]. destruct (x <? 128) eqn:E.
    + cbn [varint_dec app]. rewrite E. reflexivity.
    + apply Z.ltb_ge in E.
      change (varint_dec (S (S f)) (((x mod 128 + 128) :: varint_enc f (x / 128)) ++ r))
        with (if x mod 128 + 128 <? 128 then Some (x mod 128 + 128, varint_enc f (x / 128) ++ r)
              else match varint_dec (S f) (varint_enc f (x / 128) ++ r) with
                   | Some (v, r') => Some ((x mod 128 + 128 - 128) + 128 * v, r')
                   | None => None
                   end).
      destruct (x mod 128 + 128 <? 128) eqn:E2; [apply Z.ltb_lt in E2; lia|].
      rewrite IH.
      * f_equal. f_equal. lia.
      * replace (Z.of_nat (S (S f))) with (Z.of_nat (S f) + 1) in Hx by lia.
        rewrite Z.pow_add_r in Hx by lia. change (128 ^ 1) with 128 in Hx. lia.
Qed.

Lemma two64_pow : two64 = 2 * 128 ^ 9. Proof. reflexivity. Qed.

Lemma varint_dec10_encode : forall x r, 0 <= x < two64 ->
  varint_dec 10 (encode_varint x ++ r) = Some (x, r).
Proof.
  intros x r Hx. unfold encode_varint. apply varint_dec_enc.
  change (128 ^ Z.of_nat 10) with (128 * 128 ^ 9). rewrite two64_pow in Hx. lia.
Qed.

Theorem varint_roundtrip : forall x r, 0 <= x < two64 ->
  read_varint64 (encode_varint x ++ r) = Some (x, r).
Proof.
  intros x r Hx. unfold read_varint64. rewrite varint_dec10_encode by assumption.
  rewrite Z.mod_small by assumption. reflexivity.
Qed.

Lemma varint32_roundtrip : forall x r, 0 <= x < two32 ->
  read_varint32 (encode_varint x ++ r) = Some (x, r).
Proof.
  intros x r Hx. unfold read_varint32. rewrite varint_dec10_encode by (unfold two32, two64 in *; lia).
  rewrite Z.mod_small by assumption. reflexivity.
Qed.

(* the encoder emits bytes, at least one *)
Lemma varint_enc_bytes : forall f x, 0 <= x < 128 ^ (Z.of_nat (S f)) ->
  Forall byte_ok (varint_enc f x).
Proof.
  induction f as [|f IH]; intros x Hx; cbn [varint_enc].
  - change (128 ^ Z.of_nat 1) with 128 in Hx. constructor; [unfold byte_ok; lia | constructor].
  - destruct (x <? 128) eqn:E.
    + apply Z.ltb_lt in E. constructor; [unfold byte_ok; lia | constructor].
    + constructor; [unfold byte_ok; lia|]. apply IH.
      replace (Z.of_nat (S (S f))) with (Z.of_nat (S f) + 1) in Hx by lia.
      rewrite Z.pow_add_r in Hx by lia. change (128 ^ 1) with 128 in Hx. lia.
Qed.

Lemma encode_varint_bytes : forall x, 0 <= x < two64 -> Forall byte_ok (encode_varint x).
Proof.
  intros x Hx. apply varint_enc_bytes.
  change (128 ^ Z.of_nat 10) with (128 * 128 ^ 9). rewrite two64_pow in Hx. lia.
Qed.

Lemma varint_enc_nonempty : forall f x, varint_enc f x <> [].
Proof. destruct f; intros x; cbn [varint_enc]; [|destruct (x <? 128)]; discriminate. Qed.

Lemma encode_varint_length : forall x, (1 <= length (encode_varint x))%nat.
Proof.
  intros x. pose proof (varint_enc_nonempty 9 x) as H. unfold encode_varint.
  destruct (varint_enc 9 x); [congruence | cbn; lia].
Qed.

(* the reader ignores what follows the varint: any spelling it accepts, it accepts in context *)
Lemma varint_dec_app : forall f bs v r r', varint_dec f bs = Some (v, r) ->
  varint_dec f (bs ++ r') = Some (v, r ++ r').
Proof.
  induction f as [|f IH]; intros bs v r r' H; [discriminate|].
  destruct bs as [|b bs]; [discriminate|]. cbn [varint_dec app] in *.
  destruct (b <? 128).
  - inversion H; subst. reflexivity.
  - destruct (varint_dec f bs) as [[v' r0]|] eqn:E; [|discriminate].
    inversion H; subst. rewrite (IH _ _ _ r' E). reflexivity.
Qed.

(* every accepted spelling is at least one byte and leaves a suffix of the input *)
Lemma varint_dec_suffix : forall f bs v r, varint_dec f bs = Some (v, r) ->
  exists p, bs = p ++ r /\ (1 <= length p)%nat.
Proof.
  induction f as [|f IH]; intros bs v r H; [discriminate|].
  destruct bs as [|b bs]; [discriminate|]. cbn [varint_dec] in H.
  destruct (b <? 128).
  - inversion H; subst. exists [v]. split; [reflexivity | cbn; lia].
  - destruct (varint_dec f bs) as [[v' r0]|] eqn:E; [|discriminate].
    inversion H; subst. destruct (IH _ _ _ E) as [p [Hp Hl]].
    exists (b :: p). split; [cbn; congruence | cbn; lia].
Qed.

(* ---- values ---- *)

Lemma split_at_app : forall (a r : bytes), split_at (length a) (a ++ r) = Some (a, r).
Proof.
  intros a r. unfold split_at. rewrite app_length.
  destruct (length a <=? length a + length r)%nat eqn:E; [|apply Nat.leb_gt in E; lia].
  rewrite firstn_app, Nat.sub_diag, firstn_all. cbn [firstn]. rewrite app_nil_r.
  rewrite skipn_app, Nat.sub_diag, skipn_all. reflexivity.
Qed.

Lemma read_len_encode : forall p r, Z.of_nat (length p) < two32 ->
  read_len (encode_len_delim p ++ r) = Some (p, r).
Proof.
  intros p r Hp. unfold read_len, encode_len_delim. rewrite <- app_assoc.
  rewrite varint32_roundtrip by lia. rewrite app_length.
  destruct (Z.of_nat (length p) <=? Z.of_nat (length p + length r)) eqn:E; [|apply Z.leb_gt in E; lia].
  rewrite Nat2Z.id. rewrite firstn_app, Nat.sub_diag, firstn_all. cbn [firstn]. rewrite app_nil_r.
  rewrite skipn_app, Nat.sub_diag, skipn_all. reflexivity.
Qed.

Theorem wval_roundtrip : forall w v r, wval_ok w v ->
  read_wval w (encode_wval v ++ r) = Some (v, r).
Proof.
  intros w v r H. destruct w, v; cbn [wval_ok] in H; try contradiction; cbn [read_wval encode_wval].
  - rewrite varint_roundtrip by assumption. reflexivity.
  - rewrite <- H. rewrite split_at_app. reflexivity.
  - rewrite read_len_encode by assumption. reflexivity.
  - rewrite <- H. rewrite split_at_app. reflexivity.
Qed.

(* ---- tags ---- *)

Lemma tag_roundtrip : forall num w, wire_of_tag (num * 8 + wire_raw w) = Some w /\ (num * 8 + wire_raw w) / 8 = num.
Proof.
  intros num w. unfold wire_of_tag.
  assert (H : (num * 8 + wire_raw w) mod 8 = wire_raw w) by (destruct w; cbn [wire_raw]; lia).
  rewrite H. split; [destruct w; reflexivity | destruct w; cbn [wire_raw]; lia].
Qed.

Lemma tag_range : forall num w, 1 <= num < 536870912 -> 0 <= num * 8 + wire_raw w < two32.
Proof. intros num w H. unfold two32. destruct w; cbn [wire_raw]; lia. Qed.

(* ---- tag / value sequences ---- *)

Lemma parse_tlvs_fuel_encode : forall l f, Forall tlv_ok l -> (length l <= f)%nat ->
  parse_tlvs_fuel f (encode_tlvs l) = Some l.
Proof.
  induction l as [|t l IH]; intros f Hok Hf.
  - destruct f; reflexivity.
  - inversion Hok as [|? ? [Hnum Hv] Hok']; subst.
    destruct f as [|f]; [cbn in Hf; lia|].
    cbn [encode_tlvs flat_map]. fold (encode_tlvs l).
    unfold encode_tlv at 1, encode_tag. rewrite <- !app_assoc.
    destruct (encode_varint (tnum t * 8 + wire_raw (twire t))) as [|b0 bs0] eqn:Etag.
    { exfalso. pose proof (encode_varint_length (tnum t * 8 + wire_raw (twire t))) as Hl.
      rewrite Etag in Hl. cbn in Hl. lia. }
    cbn [app parse_tlvs_fuel]. change (b0 :: bs0 ++ encode_wval (tval t) ++ encode_tlvs l)
      with ((b0 :: bs0) ++ encode_wval (tval t) ++ encode_tlvs l).
    rewrite <- Etag. rewrite varint32_roundtrip by (apply tag_range; assumption).
    destruct (tag_roundtrip (tnum t) (twire t)) as [Hw Hd]. rewrite Hw.
    rewrite wval_roundtrip by assumption.
    rewrite IH by (try assumption; cbn in Hf; lia).
    rewrite Hd. destruct t; reflexivity.
Qed.

Lemma encode_tlvs_length : forall l, (length l <= length (encode_tlvs l))%nat.
Proof.
  induction l as [|t l IH]; [cbn; lia|].
  cbn [encode_tlvs flat_map length]. fold (encode_tlvs l). rewrite app_length.
  unfold encode_tlv, encode_tag. rewrite app_length.
  pose proof (encode_varint_length (tnum t * 8 + wire_raw (twire t))). lia.
Qed.

Theorem tlv_roundtrip : forall l, Forall tlv_ok l -> parse_tlvs (encode_tlvs l) = Some l.
Proof.
  intros l H. unfold parse_tlvs. apply parse_tlvs_fuel_encode; [assumption | apply encode_tlvs_length].
Qed.

(* what the reader returns has the shape of its wire type *)
Definition wval_shape (w : wire) (v : wval) : Prop :=
  match w, v with
  | WVarint, VVar _ | WI64, VFix _ | WI32, VFix _ | WLen, VLen _ => True
  | _, _ => False
  end.

Lemma read_wval_shape : forall w bs v r, read_wval w bs = Some (v, r) -> wval_shape w v.
Proof.
  intros w bs v r H. destruct w; cbn [read_wval] in H.
  - destruct (read_varint64 bs) as [[? ?]|]; inversion H; exact I.
  - destruct (split_at 8 bs) as [[? ?]|]; inversion H; exact I.
  - destruct (read_len bs) as [[? ?]|]; inversion H; exact I.
  - destruct (split_at 4 bs) as [[? ?]|]; inversion H; exact I.
Qed.

(* unpack of a packed payload written by the canonical writer *)
Lemma unpack_fuel_step : forall f w bs, bs <> [] ->
  unpack_fuel (S f) w bs =
  match read_wval w bs with
  | None => None
  | Some (v, r) => match unpack_fuel f w r with None => None | Some vs => Some (v :: vs) end
  end.
Proof. intros f w bs H. destruct bs; [congruence | reflexivity]. Qed.

Lemma app_nonempty : forall (a b : bytes), a <> [] -> a ++ b <> [].
Proof. intros a b H. destruct a; [congruence | discriminate]. Qed.

Lemma unpack_fuel_encode : forall w vs f, Forall (wval_ok w) vs -> w <> WLen -> (length vs <= f)%nat ->
  unpack_fuel f w (flat_map raw_of_wval vs) = Some vs.
Proof.
  induction vs as [|v vs IH]; intros f Hok Hw Hf.
  - destruct f; reflexivity.
  - inversion Hok as [|? ? Hv Hok']; subst. destruct f as [|f]; [cbn in Hf; lia|].
    cbn [flat_map].
    assert (Hraw : raw_of_wval v = encode_wval v)
      by (destruct w, v; cbn [wval_ok] in Hv; try contradiction; try reflexivity; congruence).
    assert (Hne : raw_of_wval v <> []).
    { destruct w, v; cbn [wval_ok] in Hv; try contradiction; cbn [raw_of_wval]; try congruence.
      - apply varint_enc_nonempty.
      - destruct raw; discriminate.
      - destruct raw; discriminate. }
    rewrite unpack_fuel_step by (apply app_nonempty; assumption).
    rewrite Hraw. rewrite wval_roundtrip by assumption.
    rewrite IH by (try assumption; cbn in Hf; lia). reflexivity.
Qed.
