(* Layer B, part 4: agreement and certificate uniqueness for the concrete protocol model
   (Model/Protocol.v), obtained from the Layer A theorems (Proofs/SafetyAbstract.v) through
   the simulation of Proofs/ProtocolRefinesInv.v.  All statements are in terms of the model's
   own definitions (boolean knownness of signatures, cqc_verify, the ghost logs). *)
From Coq Require Import ZArith List Bool Lia Arith Permutation.
From EC Require Import Lib.Outcome Lib.U64 Lib.ListW Lib.Obs Model.Msgs Model.Replica Model.ReplicaRun
  Model.Protocol Model.SafetyAbs
  Proofs.MsgsFacts Proofs.QCProofs Proofs.ReplicaCrash
  Proofs.SafetyAbsLib Proofs.SafetyAbsLocal Proofs.SafetyAbstract
  Proofs.ProtocolRefinesAbs Proofs.ProtocolRefinesStep Proofs.ProtocolRefinesInv.
Import SafetyAbs.
Import ListNotations.
Open Scope Z_scope.

Section Main.
  Variable P : params.
  Hypothesis HP : params_ok P.

  Notation C := (p_C P).
  Notation W := (cweights (p_C P)).
  Notation hon := (honestb P).
  Notation byz := (abyz P).

  (* the boolean check of the model is equivalent to the proposition used in the proofs *)
  Lemma sent_commitb_iff soup k c : sent_commitb soup k c = true <-> sent soup k (MCommit c).
  Proof.
    split; [apply sent_commitb_sent|]. unfold sent, sent_commitb. intros H. apply existsb_exists.
    eexists. split; [exact H|]. cbn [m_sig_ok m_key m_msg]. rewrite Z.eqb_refl.
    rewrite (decides_refl _ commit_eqb_spec). reflexivity.
  Qed.

  Lemma cqc_knownb_iff soup q : cqc_knownb P soup q = true <-> kq hon soup q.
  Proof.
    split; [apply cqc_knownb_kq|]. intros H. unfold cqc_knownb. apply forallb_forall.
    intros [k sr] Hin. cbn [fst snd]. destruct sr as [c|id]; [|reflexivity].
    destruct (hon k) eqn:Eh; [|reflexivity]. cbn [negb orb]. apply sent_commitb_iff. auto.
  Qed.

  (* a verifying certificate without forged honest signatures *)
  Definition good_cqc (s : gstate) (q : cqc) : Prop :=
    cqc_verify (p_g P) (p_e P) C q = Ok tt /\ cqc_knownb P (g_soup s) q = true.

  Lemma good_GQ s q : good_cqc s q <-> GQ P (g_soup s) q.
  Proof. unfold good_cqc, GQ, gq. cbn [pcfg cg ce cC]. rewrite cqc_knownb_iff. tauto. Qed.

  (* ---------- the simulation ---------- *)
  Theorem refines_layer_a s :
    preach P s -> exists a, reachable W byz (p_first P) a /\ ginv P s a.
  Proof. intros H. destruct (preach_inv P HP s H) as [a G]. exists a. split; [apply G|exact G]. Qed.

  Lemma good_valid s a q : ginv P s a -> good_cqc s q -> valid_cqc W byz a (abs_cqc q).
  Proof.
    intros G Hq. apply good_GQ in Hq.
    exact (gq_valid P (g_soup s) (g_plog s) a q (gi_commit _ _ _ G) (gi_votes _ _ _ G) Hq).
  Qed.

  (* ---------- C02 ---------- *)
  Theorem certificate_unique_concrete s q q' :
    preach P s -> good_cqc s q -> good_cqc s q' ->
    hnum (cprop (qmsg q)) = hnum (cprop (qmsg q')) -> hpay (cprop (qmsg q)) = hpay (cprop (qmsg q')).
  Proof.
    intros Hr Hq Hq' Hn. destruct (preach_inv P HP s Hr) as [a G].
    pose proof (certificate_unique W byz (p_first P) (committee_ok_W P HP) a (abs_cqc q) (abs_cqc q')
                  (gi_reach _ _ _ G) (good_valid s a q G Hq) (good_valid s a q' G Hq')) as H.
    cbn [abs_cqc aq_block abs_hdr bnum] in H. specialize (H Hn). inversion H. reflexivity.
  Qed.

  (* an honest key's commit votes: durable writes recording a vote, and votes on the network *)
  Definition voted (s : gstate) (k : Z) (c : commit) : Prop :=
    (exists d, In (k, d) (g_plog s) /\ d_phase d = PCommit /\ d_high_vote d = Some c /\ d_view d = vnum (cview c)) \/
    In {| m_key := k; m_sig_ok := true; m_msg := MCommit c |} (g_soup s).

  Theorem repropose_concrete s q k c :
    preach P s -> good_cqc s q -> hon k = true -> voted s k c ->
    vnum (cview (qmsg q)) < vnum (cview c) ->
    hnum (cprop (qmsg q)) < hnum (cprop c) \/ cprop c = cprop (qmsg q).
  Proof.
    intros Hr Hq Hk Hv Hlt. destruct (preach_inv P HP s Hr) as [a G].
    assert (Hd : exists d, In (k, d) (g_plog s) /\ d_phase d = PCommit /\ d_high_vote d = Some c /\
                           d_view d = vnum (cview c)).
    { destruct Hv as [Hv|Hv]; [exact Hv|]. exact (gi_commit _ _ _ G k c Hk Hv). }
    destruct Hd as (d & Hin & Hp & Hhv & Hdv).
    destruct (honestb_index P k Hk) as (i & Hi & <-).
    destruct (gi_votes _ _ _ G i d c Hi Hin Hp Hhv) as [cq Hcq].
    pose proof (repropose_after_possible_commit W byz (p_first P) (committee_ok_W P HP) a
                  (aq_view (abs_cqc q)) (aq_block (abs_cqc q)) (aq_signers (abs_cqc q)) (gi_reach _ _ _ G)
                  (valid_is_PQ W byz a _ (good_valid s a q G Hq)) _ Hcq) as H.
    cbn [v_view v_block abs_cqc aq_view aq_block abs_hdr bnum] in H.
    destruct H as [H|H]; [rewrite Hdv; exact Hlt|left; exact H|right].
    apply abs_hdr_inj. exact H.
  Qed.

  (* ---------- C01 ---------- *)
  Theorem committed_are_certified s k n h :
    preach P s -> In (k, n, h) (g_qlog s) ->
    exists q, good_cqc s q /\ hnum (cprop (qmsg q)) = n /\ hpay (cprop (qmsg q)) = h.
  Proof.
    intros Hr Hin. destruct (preach_inv P HP s Hr) as [a G].
    destruct (gi_qlog _ _ _ G k n h Hin) as (q & Hq & Hn & Hh). exists q. split; [apply good_GQ; exact Hq|auto].
  Qed.

  Theorem agreement s k k' n h h' :
    preach P s -> In (k, n, h) (g_qlog s) -> In (k', n, h') (g_qlog s) -> h = h'.
  Proof.
    intros Hr H1 H2.
    destruct (committed_are_certified s k n h Hr H1) as (q & Hq & Hn & Hh).
    destruct (committed_are_certified s k' n h' Hr H2) as (q' & Hq' & Hn' & Hh').
    rewrite <- Hh, <- Hh'. apply (certificate_unique_concrete s q q' Hr Hq Hq'). congruence.
  Qed.

  (* what node k queued, in order *)
  Definition queued_numbers (s : gstate) (k : Z) : list Z :=
    map (fun x => snd (fst x)) (filter (fun x => fst (fst x) =? k) (g_qlog s)).

  Lemma consec_nth l : forall a i, consec a l -> (i < length l)%nat -> nth i l 0 = a + Z.of_nat i.
  Proof.
    induction l as [|n l IH]; intros a i Hc Hi; cbn [length] in Hi; [lia|].
    destruct Hc as [-> Hc]. destruct i as [|i]; cbn [nth]; [lia|].
    rewrite (IH (a + 1) i Hc) by lia. lia.
  Qed.

  Theorem append_only s k i :
    preach P s -> hon k = true -> (i < length (queued_numbers s k))%nat ->
    nth i (queued_numbers s k) 0 = p_first P + Z.of_nat i.
  Proof.
    intros Hr Hk Hi. destruct (preach_inv P HP s Hr) as [a G].
    apply consec_nth; [|exact Hi]. exact (ni_consec _ _ _ _ _ (gi_node _ _ _ G k Hk)).
  Qed.

  (* the block store's next number is where the node's queue ends (also for stopped nodes) *)
  Theorem store_next_is_queue_end s k :
    preach P s -> hon k = true ->
    r_store_next (n_live (g_node s k)) = p_first P + Z.of_nat (length (queued_numbers s k)).
  Proof.
    intros Hr Hk. destruct (preach_inv P HP s Hr) as [a G].
    exact (ni_next _ _ _ _ _ (gi_node _ _ _ G k Hk)).
  Qed.

  (* certificates held by honest nodes and certificates inside messages of the soup are never forged *)
  Theorem held_certificates_good s k q :
    preach P s -> hon k = true ->
    r_high_cqc (n_live (g_node s k)) = Some q \/ d_high_cqc (n_dur (g_node s k)) = Some q ->
    good_cqc s q.
  Proof.
    intros Hr Hk Hq. destruct (preach_inv P HP s Hr) as [a G]. apply good_GQ.
    pose proof (gi_node _ _ _ G k Hk) as NI. destruct Hq as [Hq|Hq].
    - exact (co_cqc _ _ _ _ (ni_certs _ _ _ _ _ NI) q Hq).
    - exact (proj1 (ni_dur _ _ _ _ _ NI) q Hq).
  Qed.

  Theorem soup_certificates_known s m q :
    preach P s -> In m (g_soup s) ->
    (exists p, m_msg m = MProposal p (JCommit q)) \/ m_msg m = MNewView (JCommit q) \/
    (exists t, m_msg m = MTimeout t /\ thq t = Some q) ->
    cqc_knownb P (g_soup s) q = true.
  Proof.
    intros Hr Hin Hm. destruct (preach_inv P HP s Hr) as [a G]. apply cqc_knownb_iff.
    pose proof (gi_soup _ _ _ G m Hin) as Hk.
    destruct Hm as [[p Hm]|[Hm|(t & Hm & Ht)]]; rewrite Hm in Hk; cbn [kmsg kj] in Hk; auto.
  Qed.

  (* no equivocation of honest keys, inherited from Layer A through the history *)
  Theorem no_equivocation_concrete s k c c' :
    preach P s -> hon k = true -> voted s k c -> voted s k c' ->
    vnum (cview c) = vnum (cview c') -> cprop c = cprop c'.
  Proof.
    intros Hr Hk Hv Hv' Hvw. destruct (preach_inv P HP s Hr) as [a G].
    assert (Hd : forall c0, voted s k c0 -> exists d, In (k, d) (g_plog s) /\ d_phase d = PCommit /\
                   d_high_vote d = Some c0 /\ d_view d = vnum (cview c0)).
    { intros c0 [H|H]; [exact H|]. exact (gi_commit _ _ _ G k c0 Hk H). }
    destruct (Hd c Hv) as (d & Hin & Hp & Hhv & Hdv). destruct (Hd c' Hv') as (d' & Hin' & Hp' & Hhv' & Hdv').
    destruct (honestb_index P k Hk) as (i & Hi & <-).
    destruct (gi_votes _ _ _ G i d c Hi Hin Hp Hhv) as [cq Hcq].
    destruct (gi_votes _ _ _ G i d' c' Hi Hin' Hp' Hhv') as [cq' Hcq'].
    pose proof (no_equivocation W byz (p_first P) (committee_ok_W P HP) a _ _ (gi_reach _ _ _ G) Hcq Hcq' eq_refl) as H.
    cbn [v_view] in H. rewrite Hdv, Hdv' in H. specialize (H Hvw). inversion H as [[H1 H2 H3]].
    apply abs_hdr_inj. unfold abs_hdr. congruence.
  Qed.
End Main.
