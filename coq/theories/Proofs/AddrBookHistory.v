(* C18 lemmas, part 2: histories of one node's address book (authenticity, monotonicity,
   rejected batches, non-members) and convergence of nodes that saw the same announcements. *)
From Coq Require Import ZArith List Bool Lia Permutation.
From EC Require Import Lib.Outcome Lib.U64 Lib.Obs Model.AddrBook Proofs.AddrBookProofs.
Import ListNotations.
Open Scope Z_scope.

(* ------------------------------------------------------------------ *)
(* histories of one node's book *)

Lemma run_app : forall chk ops1 ops2 b, run chk b (ops1 ++ ops2) = run chk (run chk b ops1) ops2.
Proof.
  intros chk ops1. induction ops1 as [|o ops1 IH]; intros ops2 b; cbn [run app]; [reflexivity|apply IH].
Qed.

Lemma ssorted_step : forall chk b o, ssorted b -> ssorted (fst (step chk b o)).
Proof.
  intros chk b [c d|k a t] Hs; cbn [step]; [apply ssorted_update_watch|apply ssorted_announce]; exact Hs.
Qed.

Lemma ssorted_run : forall chk ops b, ssorted b -> ssorted (run chk b ops).
Proof.
  intros chk ops. induction ops as [|o ops IH]; intros b Hs; cbn [run]; [exact Hs|].
  apply IH. apply ssorted_step. exact Hs.
Qed.

(* where an entry can come from *)
Definition introduced (o : op) (e : entry) : Prop :=
  match o with
  | OUpdate c d => In e d /\ mem (ekey e) c = true
  | OAnnounce k a t => exists v, e = sign k {| na_addr := a; na_version := v; na_ts := t |}
  end.

Definition good (ops : list op) (b : book) : Prop :=
  forall k e, get k b = Some e -> verify e = true /\ Exists (fun o => introduced o e) ops.

Lemma good_weaken : forall pre o b, good pre b -> good (pre ++ [o]) b.
Proof.
  intros pre o b H k e He. destruct (H k e He) as [Hv Hex]. split; [exact Hv|].
  apply Exists_app. left. exact Hex.
Qed.

Lemma step_good : forall chk pre b o, good pre b -> good (pre ++ [o]) (fst (step chk b o)).
Proof.
  intros chk pre b o Hg. destruct o as [c d|k a t]; cbn [step].
  - destruct (update_watch c d b) as [b' r] eqn:E. cbn [fst]. intros k e He.
    pose proof (update_watch_step _ _ _ _ _ E k) as Hs. unfold key_step in Hs. rewrite He in Hs.
    destruct Hs as [Hs|(H1 & H2 & H3 & _)].
    + apply (good_weaken pre (OUpdate c d) b Hg k e Hs).
    + split; [exact H3|]. apply Exists_app. right. constructor. cbn [introduced].
      split; [exact H1|]. rewrite (get_key _ _ _ He). exact H2.
  - destruct (announce_spec chk k a t b) as [[-> _]|(v & -> & _)]; [apply good_weaken; exact Hg|].
    cbn [fst]. intros k' e He. rewrite get_put in He. cbn [sign ekey] in He.
    destruct (k' =? k).
    + injection He as <-. split; [apply verify_sign|]. apply Exists_app. right. constructor.
      cbn [introduced]. exists v. reflexivity.
    + apply (good_weaken pre (OAnnounce k a t) b Hg k' e He).
Qed.

Lemma run_good : forall chk ops pre b, good pre b -> good (pre ++ ops) (run chk b ops).
Proof.
  intros chk ops. induction ops as [|o ops IH]; intros pre b Hg; cbn [run].
  - rewrite app_nil_r. exact Hg.
  - replace (pre ++ o :: ops) with ((pre ++ [o]) ++ ops) by (rewrite <- app_assoc; reflexivity).
    apply IH. apply step_good. exact Hg.
Qed.

(* book_authentic *)
Theorem book_authentic : forall chk ops k e, get k (run chk [] ops) = Some e ->
  ekey e = k /\ verify e = true /\ esig e = {| sg_key := k; sg_msg := emsg e |} /\
  Exists (fun o => introduced o e) ops.
Proof.
  intros chk ops k e He.
  assert (Hg : good [] []) by (intros k' e' H; discriminate).
  destruct (run_good chk ops [] [] Hg k e He) as [Hv Hex].
  pose proof (get_key _ _ _ He) as Hk.
  split; [exact Hk|]. split; [exact Hv|]. split; [|exact Hex].
  apply verify_spec in Hv. rewrite Hk in Hv. exact Hv.
Qed.

Theorem forged_never_stored : forall chk ops k e, verify e = false ->
  get k (run chk [] ops) <> Some e.
Proof.
  intros chk ops k e Hf He. destruct (book_authentic chk ops k e He) as (_ & Hv & _). congruence.
Qed.

(* H-ADV: an honest key's signature terms in the traffic are copies of what it signed. *)
Definition adv_ok (honest : Z -> Prop) (signed : Z -> net_address -> Prop) (ops : list op) : Prop :=
  forall c d e, In (OUpdate c d) ops -> In e d -> honest (sg_key (esig e)) ->
    signed (sg_key (esig e)) (sg_msg (esig e)).

Theorem book_honest_origin : forall honest signed self chk ops k e,
  adv_ok honest signed ops ->
  (forall k' a t, In (OAnnounce k' a t) ops -> k' = self) ->
  honest k -> k <> self ->
  get k (run chk [] ops) = Some e -> signed k (emsg e).
Proof.
  intros honest signed self chk ops k e Hadv Hself Hh Hne He.
  destruct (book_authentic chk ops k e He) as (Hk & _ & Hsig & Hex).
  apply Exists_exists in Hex. destruct Hex as (o & Ho & Hi). destruct o as [c d|k' a t]; cbn [introduced] in Hi.
  - destruct Hi as [Hin _]. pose proof (Hadv c d e Ho Hin) as H. rewrite Hsig in H. cbn [sg_key sg_msg] in H.
    apply H. exact Hh.
  - destruct Hi as (v & ->). cbn [sign ekey] in Hk. specialize (Hself _ _ _ Ho). congruence.
Qed.

(* book_monotone *)
Lemma step_mono : forall chk b o k e, get k b = Some e ->
  match o with
  | OUpdate _ _ => True
  | OAnnounce k' _ _ => chk = true \/ k <> k' \/ na_version (emsg e) < u64_max
  end ->
  exists e', get k (fst (step chk b o)) = Some e' /\ le_entry e e'.
Proof.
  intros chk b [c d|k' a t] k e He Hc; cbn [step].
  - destruct (update_watch c d b) as [b' r] eqn:E. cbn [fst].
    eapply key_step_mono; [eapply update_watch_step; exact E|exact He].
  - apply announce_mono; assumption.
Qed.

Theorem book_monotone_checked : forall ops b k e, get k b = Some e ->
  exists e', get k (run true b ops) = Some e' /\ le_entry e e'.
Proof.
  induction ops as [|o ops IH]; intros b k e He; cbn [run].
  - exists e. split; [exact He|apply le_entry_refl].
  - destruct (step_mono true b o k e He) as (e1 & H1 & L1); [destruct o; auto|].
    destruct (IH _ _ _ H1) as (e2 & H2 & L2). exists e2. split; [exact H2|].
    eapply le_entry_trans; eassumption.
Qed.

Theorem book_monotone_peer : forall chk ops b k e,
  (forall k' a t, In (OAnnounce k' a t) ops -> k' <> k) ->
  get k b = Some e ->
  exists e', get k (run chk b ops) = Some e' /\ le_entry e e'.
Proof.
  intros chk. induction ops as [|o ops IH]; intros b k e Hself He; cbn [run].
  - exists e. split; [exact He|apply le_entry_refl].
  - destruct (step_mono chk b o k e He) as (e1 & H1 & L1).
    { destruct o as [|k' a t]; [exact I|]. right. left. intros ->.
      apply (Hself k' a t); [left; reflexivity|reflexivity]. }
    destruct (IH (fst (step chk b o)) k e1) as (e2 & H2 & L2).
    { intros k' a t Hin. apply (Hself k' a t). right. exact Hin. }
    { exact H1. }
    exists e2. split; [exact H2|]. eapply le_entry_trans; eassumption.
Qed.

(* without overflow checks the node's own entry regresses at version u64::MAX *)
Lemma announce_wrap_regresses_wit :
  let e := sign 0 {| na_addr := 1; na_version := u64_max; na_ts := 0 |} in
  let b := run false [] [OUpdate [0] [e]] in
  get 0 b = Some e /\
  exists e', get 0 (run false b [OAnnounce 0 2 0]) = Some e' /\ newer (emsg e) (emsg e').
Proof.
  cbv zeta. split; [reflexivity|]. eexists. split; [vm_compute; reflexivity|].
  left. vm_compute. reflexivity.
Qed.

(* rejected_batch_no_change *)
Theorem rejected_batch_no_change : forall c d b b' e,
  update_watch c d b = (b', Err e) ->
  b' = b /\
  match e with
  | EDuplicate => ~ NoDup (map ekey d)
  | EBadSig => exists x, In x d /\ mem (ekey x) c = true /\ verify x = false
  end.
Proof.
  intros c d b b' e H. split; [eapply update_watch_not_ok; [exact H|reflexivity]|].
  eapply update_watch_err. exact H.
Qed.

(* non_members_ignored *)
Theorem non_members_ignored : forall c d b k, mem k c = false ->
  get k (fst (update_watch c d b)) = get k b.
Proof.
  intros c d b k Hm. destruct (update_watch c d b) as [b' r] eqn:E. cbn [fst].
  pose proof (update_watch_step _ _ _ _ _ E k) as Hs. unfold key_step in Hs.
  destruct (get k b') as [e'|]; [|symmetry; exact Hs].
  destruct Hs as [Hs|(_ & H2 & _)]; [symmetry; exact Hs|congruence].
Qed.

(* ------------------------------------------------------------------ *)
(* convergence *)

Definition is_max_of (b : book) (S : list entry) : Prop :=
  forall k, match get k b with
            | Some e => In e S /\ forall e', In e' S -> ekey e' = k -> ~ newer (emsg e') (emsg e)
            | None => forall e', In e' S -> ekey e' <> k
            end.

(* the validly signed member announcements of an accepted batch *)
Definition accepted_valid (c : list Z) (d : list entry) (r : outcome uerr unit) : list entry :=
  match r with
  | Ok _ => filter (fun e => mem (ekey e) c && verify e) d
  | _ => []
  end.

Fixpoint seen (c : list Z) (b : book) (bs : list (list entry)) : list entry :=
  match bs with
  | [] => []
  | d :: bs' => accepted_valid c d (snd (update_watch c d b)) ++ seen c (fst (update_watch c d b)) bs'
  end.

Fixpoint run_updates (c : list Z) (b : book) (bs : list (list entry)) : book :=
  match bs with
  | [] => b
  | d :: bs' => run_updates c (fst (update_watch c d b)) bs'
  end.

Lemma run_updates_run : forall chk c bs b, run_updates c b bs = run chk b (map (OUpdate c) bs).
Proof.
  intros chk c bs. induction bs as [|d bs IH]; intros b; cbn [run_updates run map step]; [reflexivity|apply IH].
Qed.

Lemma step_max : forall c d b S, is_max_of b S ->
  is_max_of (fst (update_watch c d b)) (S ++ accepted_valid c d (snd (update_watch c d b))).
Proof.
  intros c d b S Hmax. destruct (update_watch c d b) as [b' r] eqn:E. cbn [fst snd].
  destruct (is_ok r) eqn:Hok.
  2:{ pose proof (update_watch_not_ok _ _ _ _ _ E Hok) as ->.
      destruct r; try discriminate; cbn [accepted_valid]; rewrite app_nil_r; exact Hmax. }
  destruct r as [u| |]; try discriminate. cbn [accepted_valid].
  assert (Hcov : forall x, In x (filter (fun e => mem (ekey e) c && verify e) d) -> dominates b' x).
  { intros x Hx. apply filter_In in Hx. destruct Hx as [Hx Hf]. apply andb_true_iff in Hf.
    eapply update_watch_covers; [exact E|exact Hx|apply Hf]. }
  intros k. pose proof (update_watch_step _ _ _ _ _ E k) as Hs. unfold key_step in Hs.
  specialize (Hmax k).
  destruct (get k b') as [e|] eqn:G.
  - assert (Hacc : forall e', In e' (filter (fun e => mem (ekey e) c && verify e) d) -> ekey e' = k ->
                              ~ newer (emsg e') (emsg e)).
    { intros e' He' Hk. destruct (Hcov e' He') as (x & Hx & Hn). rewrite Hk, G in Hx.
      injection Hx as <-. exact Hn. }
    destruct Hs as [Hs|(H1 & H2 & H3 & H4)].
    + rewrite Hs in Hmax. destruct Hmax as [Hin Hdom]. split; [apply in_or_app; left; exact Hin|].
      intros e' He' Hk. apply in_app_or in He'. destruct He' as [He'|He'];
        [apply Hdom; assumption|apply Hacc; assumption].
    + split.
      * apply in_or_app. right. apply filter_In. split; [exact H1|].
        rewrite (get_key _ _ _ G), H2, H3. reflexivity.
      * intros e' He' Hk. apply in_app_or in He'. destruct He' as [He'|He']; [|apply Hacc; assumption].
        destruct (get k b) as [x|].
        -- destruct Hmax as [_ Hdom]. eapply not_newer_trans; [apply Hdom; eassumption|right; exact H4].
        -- exfalso. apply (Hmax e' He'). exact Hk.
  - rewrite Hs in Hmax. intros e' He'. apply in_app_or in He'. destruct He' as [He'|He'];
      [apply Hmax; exact He'|].
    intros Hk. destruct (Hcov e' He') as (x & Hx & _). rewrite Hk, G in Hx. discriminate.
Qed.

Lemma run_max : forall c bs b S, is_max_of b S ->
  is_max_of (run_updates c b bs) (S ++ seen c b bs).
Proof.
  intros c bs. induction bs as [|d bs IH]; intros b S Hmax; cbn [run_updates seen].
  - rewrite app_nil_r. exact Hmax.
  - rewrite app_assoc. apply IH. apply step_max. exact Hmax.
Qed.

(* no key signs two different announcements with the same (version, timestamp) *)
Definition unique_stamps (S : list entry) : Prop :=
  forall e1 e2, In e1 S -> In e2 S -> ekey e1 = ekey e2 ->
    na_version (emsg e1) = na_version (emsg e2) -> na_ts (emsg e1) = na_ts (emsg e2) -> e1 = e2.

Theorem book_is_newest_seen : forall c bs k,
  match get k (run_updates c [] bs) with
  | Some e => In e (seen c [] bs) /\
              forall e', In e' (seen c [] bs) -> ekey e' = k -> ~ newer (emsg e') (emsg e)
  | None => forall e', In e' (seen c [] bs) -> ekey e' <> k
  end.
Proof.
  intros c bs. apply (run_max c bs [] []). intros k e' [].
Qed.

Theorem book_convergent : forall c bs1 bs2,
  (forall e, In e (seen c [] bs1) <-> In e (seen c [] bs2)) ->
  unique_stamps (seen c [] bs1) ->
  run_updates c [] bs1 = run_updates c [] bs2.
Proof.
  intros c bs1 bs2 Hsame Huniq.
  apply ssorted_ext.
  - rewrite (run_updates_run true). apply ssorted_run. exact I.
  - rewrite (run_updates_run true). apply ssorted_run. exact I.
  - intros k. pose proof (book_is_newest_seen c bs1 k) as H1. pose proof (book_is_newest_seen c bs2 k) as H2.
    destruct (get k (run_updates c [] bs1)) as [e1|] eqn:G1; destruct (get k (run_updates c [] bs2)) as [e2|] eqn:G2.
    + destruct H1 as [I1 D1]. destruct H2 as [I2 D2].
      pose proof (get_key _ _ _ G1) as K1. pose proof (get_key _ _ _ G2) as K2.
      assert (N1 : ~ newer (emsg e2) (emsg e1)) by (apply D1; [apply Hsame; exact I2|exact K2]).
      assert (N2 : ~ newer (emsg e1) (emsg e2)) by (apply D2; [apply Hsame; exact I1|exact K1]).
      destruct (newer_total _ _ N1 N2) as [Hv Ht].
      f_equal. apply Huniq; [exact I1|apply Hsame; exact I2|congruence|congruence|congruence].
    + destruct H1 as [I1 _]. exfalso. apply (H2 e1); [apply Hsame; exact I1|eapply get_key; exact G1].
    + destruct H2 as [I2 _]. exfalso. apply (H1 e2); [apply Hsame; exact I2|eapply get_key; exact G2].
    + reflexivity.
Qed.

(* without the hypothesis the order of arrival decides *)
Lemma convergence_needs_unique_stamps_wit :
  let e1 := sign 0 {| na_addr := 1; na_version := 0; na_ts := 0 |} in
  let e2 := sign 0 {| na_addr := 2; na_version := 0; na_ts := 0 |} in
  (forall e, In e (seen [0] [] [[e1]; [e2]]) <-> In e (seen [0] [] [[e2]; [e1]])) /\
  dial (run_updates [0] [] [[e1]; [e2]]) 0 = Some 1 /\
  dial (run_updates [0] [] [[e2]; [e1]]) 0 = Some 2.
Proof.
  cbv zeta. split; [|split; reflexivity].
  intros e. vm_compute. tauto.
Qed.

(* ------------------------------------------------------------------ *)
(* order / grouping independence for batches that are all acceptable *)

Definition wanted (c : list Z) (e : entry) : bool := mem (ekey e) c && verify e.

(* every batch has distinct keys and no forged member announcement *)
Definition clean (c : list Z) (bs : list (list entry)) : Prop :=
  forall d, In d bs -> NoDup (map ekey d) /\ forall x, In x d -> mem (ekey x) c = true -> verify x = true.

Lemma update_watch_clean_ok : forall c d b, NoDup (map ekey d) ->
  (forall x, In x d -> mem (ekey x) c = true -> verify x = true) ->
  exists u, snd (update_watch c d b) = Ok u.
Proof.
  intros c d b Hnd Hv. pose proof (update_watch_no_panic c d b) as Hp.
  destruct (update_watch c d b) as [b' r] eqn:E. cbn [snd] in *. destruct r as [u|e|p].
  - exists u. reflexivity.
  - exfalso. pose proof (update_watch_err _ _ _ _ _ E) as H. destruct e.
    + apply H. exact Hnd.
    + destruct H as (x & Hx & Hm & Hf). rewrite (Hv x Hx Hm) in Hf. discriminate.
  - discriminate.
Qed.

Lemma seen_clean : forall c bs b, clean c bs -> seen c b bs = filter (wanted c) (concat bs).
Proof.
  intros c bs. induction bs as [|d bs IH]; intros b Hc; cbn [seen concat]; [reflexivity|].
  rewrite filter_app. destruct (Hc d (or_introl eq_refl)) as [Hnd Hv].
  destruct (update_watch_clean_ok c d b Hnd Hv) as (u & ->). cbn [accepted_valid]. f_equal.
  apply IH. intros d' Hd'. apply Hc. right. exact Hd'.
Qed.

Theorem book_order_independent : forall c bs1 bs2,
  clean c bs1 -> clean c bs2 -> Permutation (concat bs1) (concat bs2) ->
  unique_stamps (filter (wanted c) (concat bs1)) ->
  run_updates c [] bs1 = run_updates c [] bs2.
Proof.
  intros c bs1 bs2 H1 H2 Hp Hu. apply book_convergent.
  - intros e. rewrite !seen_clean by assumption. rewrite !filter_In. split; intros [Hin Hw]; (split; [|exact Hw]).
    + eapply Permutation_in; eassumption.
    + eapply Permutation_in; [apply Permutation_sym; exact Hp|exact Hin].
  - rewrite seen_clean by assumption. exact Hu.
Qed.
(* per key: an equivocating validator does not disturb the convergence of the others *)
Definition unique_stamps_of (k : Z) (s : list entry) : Prop :=
  forall e1 e2, In e1 s -> In e2 s -> ekey e1 = k -> ekey e2 = k ->
    na_version (emsg e1) = na_version (emsg e2) -> na_ts (emsg e1) = na_ts (emsg e2) -> e1 = e2.

Theorem book_convergent_key : forall c bs1 bs2 k,
  (forall e, ekey e = k -> (In e (seen c [] bs1) <-> In e (seen c [] bs2))) ->
  unique_stamps_of k (seen c [] bs1) ->
  get k (run_updates c [] bs1) = get k (run_updates c [] bs2).
Proof.
  intros c bs1 bs2 k Hsame Huniq.
  pose proof (book_is_newest_seen c bs1 k) as H1. pose proof (book_is_newest_seen c bs2 k) as H2.
  destruct (get k (run_updates c [] bs1)) as [e1|] eqn:G1; destruct (get k (run_updates c [] bs2)) as [e2|] eqn:G2.
  - destruct H1 as [I1 D1]. destruct H2 as [I2 D2].
    pose proof (get_key _ _ _ G1) as K1. pose proof (get_key _ _ _ G2) as K2.
    assert (N1 : ~ newer (emsg e2) (emsg e1)) by (apply D1; [apply Hsame; assumption|exact K2]).
    assert (N2 : ~ newer (emsg e1) (emsg e2)) by (apply D2; [apply Hsame; assumption|exact K1]).
    destruct (newer_total _ _ N1 N2) as [Hv Ht].
    f_equal. apply Huniq; [exact I1|apply Hsame; assumption|exact K1|exact K2|congruence|congruence].
  - destruct H1 as [I1 _]. pose proof (get_key _ _ _ G1) as K1.
    exfalso. apply (H2 e1); [apply Hsame; assumption|exact K1].
  - destruct H2 as [I2 _]. pose proof (get_key _ _ _ G2) as K2.
    exfalso. apply (H1 e2); [apply Hsame; assumption|exact K2].
  - reflexivity.
Qed.

(* a key that is in no schedule of the history and is not announced by the node has no entry *)
Theorem never_member_never_stored : forall chk ops k,
  (forall c d, In (OUpdate c d) ops -> mem k c = false) ->
  (forall k' a t, In (OAnnounce k' a t) ops -> k' <> k) ->
  get k (run chk [] ops) = None.
Proof.
  intros chk ops k Hu Ha. destruct (get k (run chk [] ops)) as [e|] eqn:G; [|reflexivity].
  destruct (book_authentic chk ops k e G) as (Hk & _ & _ & Hex).
  apply Exists_exists in Hex. destruct Hex as (o & Ho & Hi). destruct o as [c d|k' a t]; cbn [introduced] in Hi.
  - destruct Hi as [_ Hm]. rewrite Hk, (Hu c d Ho) in Hm. discriminate.
  - destruct Hi as (v & ->). cbn [sign ekey] in Hk. exfalso. apply (Ha k' a t Ho). exact Hk.
Qed.
