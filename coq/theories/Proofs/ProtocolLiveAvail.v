(* C06 on the protocol model, part 9: availability of the payload of a voted block.  If an honest
   node has persisted a high vote for block (n, h), then in every later reachable state some
   honest node still has the payload (n, h) among its persisted proposals (and in its cache while
   it runs), unless a good commit certificate for a block number >= n is known (the cache is
   pruned below the high commit certificate on entering a view).  This discharges the
   cached-payload hypothesis of the re-proposal commit theorem in states where nothing is
   certified at or above n. *)
From Coq Require Import ZArith List Bool Lia.
From EC Require Import Lib.Outcome Lib.U64 Lib.ListW Lib.Obs Model.Msgs Model.Replica Model.ReplicaRun
  Model.Protocol Model.ProtocolSync Proofs.QCProofs Proofs.ReplicaMono Proofs.ReplicaLive
  Proofs.ReplicaCrash Proofs.ProtocolLive Proofs.ProtocolLiveInv Proofs.ProtocolLiveCatch Proofs.ProtocolLiveNoStop.
From EC Require Proofs.ReplicaCaches Proofs.ReplicaJustified.
From EC Require Import Model.SafetyAbs Proofs.SafetyAbsLib Proofs.SafetyAbsLocal Proofs.SafetyAbstract.
From EC Require Import Proofs.ProtocolRefinesAbs Proofs.ProtocolRefinesStep.
From EC Require Proofs.ProtocolRefinesInv.
From EC Require Import Proofs.ProtocolLiveCommitStep.
From EC Require Proofs.ProtocolLiveTimeoutLock.
Import ListNotations.
Open Scope Z_scope.
Module RC := ReplicaCaches.

(* ================================================================== *)
(* 1. the proposal cache                                               *)
(* ================================================================== *)
Lemma cache_has_insert_same c n p : cache_has (cache_insert c n p) n p = true.
Proof.
  unfold cache_has, cache_insert. rewrite RC.zmap_get_set, Z.eqb_refl.
  set (old := match zmap_get c n with Some l => l | None => [] end).
  destruct (existsb (Z.eqb p) old) eqn:E; [exact E|].
  rewrite existsb_app. cbn [existsb]. rewrite Z.eqb_refl, orb_true_r. reflexivity.
Qed.

Lemma cache_has_insert_keep c n p n' p' : cache_has c n' p' = true -> cache_has (cache_insert c n p) n' p' = true.
Proof.
  unfold cache_has, cache_insert. rewrite RC.zmap_get_set. destruct (n =? n') eqn:E; [|auto].
  apply Z.eqb_eq in E. subst n'. destruct (zmap_get c n) as [l|]; [|discriminate]. intros H.
  destruct (existsb (Z.eqb p) l); [exact H|]. rewrite existsb_app, H. reflexivity.
Qed.

Lemma cache_has_filter (g : Z -> bool) c n p :
  cache_has (filter (fun e => g (fst e)) c) n p = if g n then cache_has c n p else false.
Proof. unfold cache_has. rewrite (RC.zmap_get_filter g). destruct (g n); reflexivity. Qed.

Lemma cache_has_in c n p : cache_has c n p = true -> In (n, p) (proposals_of c).
Proof.
  unfold cache_has. destruct (zmap_get c n) as [l|] eqn:E; [|discriminate]. intros H.
  apply existsb_exists in H. destruct H as (p' & Hin & Hp). apply Z.eqb_eq in Hp. subst p'.
  unfold proposals_of. apply in_flat_map. exists (n, l). split; [apply RC.zmap_get_in; exact E|].
  cbn [fst snd]. apply in_map_iff. exists p. auto.
Qed.

Lemma cache_rebuild ps n p : forall c0, cache_has c0 n p = true \/ In (n, p) ps ->
  cache_has (fold_left (fun c x => cache_insert c (fst x) (snd x)) ps c0) n p = true.
Proof.
  induction ps as [|[n1 p1] ps IH]; intros c0 H; cbn [fold_left].
  - destruct H as [H|[]]. exact H.
  - apply IH. cbn [fst snd]. destruct H as [H|[H|H]].
    + left. apply cache_has_insert_keep. exact H.
    + inversion H; subst. left. apply cache_has_insert_same.
    + right. exact H.
Qed.

(* ================================================================== *)
(* 2. a step keeps a cached payload unless it prunes below a certificate *)
(* ================================================================== *)
Section Keep.
  Variables (n h : Z).
  Definition K (s : rstate) : Prop := cache_has (r_cache s) n h = true.
  Definition Q (s : rstate) : Prop :=
    K s \/ exists q, r_high_cqc s = Some q /\ n <= hnum (cprop (qmsg q)).

  Lemma SIP_bind2 {A B} (x : hres A) (f : rstate -> A -> hres B) :
    SIP K x -> (forall s1 a, K s1 -> SIP Q (f s1 a)) -> SIP Q (hbind x f).
  Proof.
    destruct x as [[s1 es1] r1]. unfold SIP; cbn [fst]. intros H Hf. unfold hbind.
    destruct r1 as [a|e|p]; cbn [fst]; try (left; exact H).
    specialize (Hf s1 a H). destruct (f s1 a) as [[s2 es2] r2]. exact Hf.
  Qed.
  Lemma SIP_KQ {A} (x : hres A) : SIP K x -> SIP Q x.
  Proof. unfold SIP. intros H. left. exact H. Qed.

  Lemma save_block_K cfg s q : K s -> SIP K (save_block cfg s q).
  Proof.
    intros H. unfold save_block, SIP. destruct (cache_has _ _ _); [|exact H].
    destruct (_ <? _); [exact H|]. destruct (r_store_next s =? _); exact H.
  Qed.
  Lemma process_commit_qc_K cfg s q : K s -> SIP K (process_commit_qc cfg s q).
  Proof.
    intros H. unfold process_commit_qc.
    match goal with |- SIP _ (if ?c then _ else _) => destruct c end; [|exact H].
    apply save_block_K. exact H.
  Qed.
  Lemma process_timeout_qc_K cfg s t : K s -> SIP K (process_timeout_qc cfg s t).
  Proof.
    intros H. unfold process_timeout_qc. apply SIP_bind.
    - destruct (high_qc t); [apply process_commit_qc_K; exact H|exact H].
    - intros s1 _ H1. unfold SIP, hret; cbn [fst].
      match goal with |- K (if ?c then _ else _) => destruct c end; exact H1.
  Qed.
  Lemma process_justification_K cfg s j : K s -> SIP K (process_justification cfg s j).
  Proof. intros H. destruct j; [apply process_commit_qc_K|apply process_timeout_qc_K]; exact H. Qed.

  Lemma start_new_view_Q cfg s v : K s -> SIP Q (start_new_view cfg s v).
  Proof.
    intros H. unfold start_new_view.
    destruct (get_justification _); try (left; exact H).
    unfold backup_state, hbind, hemit, SIP. cbn [fst set_phase set_view r_high_cqc].
    destruct (r_high_cqc s) as [q|] eqn:E; cbn [fst]; [|left; exact H].
    destruct (hnum (cprop (qmsg q)) <? n) eqn:El.
    - left. unfold K. cbn [set_cache r_cache set_phase set_view].
      rewrite (cache_has_filter (fun x => hnum (cprop (qmsg q)) <? x)), El. exact H.
    - right. exists q. cbn [set_cache r_high_cqc set_phase set_view]. split; [exact E|]. apply Z.ltb_ge in El. exact El.
  Qed.
  Lemma start_timeout_K cfg s : K s -> SIP K (start_timeout cfg s).
  Proof.
    intros H. unfold start_timeout, hbind, backup_state, hemit, SIP.
    destruct (r_view (set_phase s PTimeout) =? 0); cbn [fst hret]; [exact H|].
    destruct (get_justification _); cbn [fst]; exact H.
  Qed.
  Lemma tail_Q cfg s v : K s ->
    SIP Q (hbind (lift s (num_next (cchk cfg) v)) (fun s nv => start_new_view cfg s nv)).
  Proof.
    intros H. apply SIP_bind2; [destruct (num_next _ _); exact H|]. intros. apply start_new_view_Q. assumption.
  Qed.

  Ltac k_match :=
    match goal with
    | |- SIP _ (if ?c then _ else _) => destruct c eqn:?
    | |- SIP _ (match ?x with _ => _ end) => destruct x eqn:?
    end; try (unfold hfail, hpanic, hret, SIP; cbn [fst]; first [assumption | (left; assumption)]).

  Lemma on_commit_Q cfg s key sig_ok c : K s -> SIP Q (on_commit cfg s key sig_ok c).
  Proof.
    intros H. unfold on_commit. k_match. cbv zeta. repeat k_match.
    match goal with |- SIP _ (hbind (process_commit_qc cfg ?s2 ?q) _) =>
      apply SIP_bind2; [apply process_commit_qc_K; exact H|] end.
    intros. apply tail_Q. assumption.
  Qed.
  Lemma on_timeout_Q cfg s key sig_ok t : K s -> SIP Q (on_timeout cfg s key sig_ok t).
  Proof.
    intros H. unfold on_timeout. k_match. cbv zeta. repeat k_match.
    match goal with |- SIP _ (hbind (process_timeout_qc cfg ?s2 ?q) _) =>
      apply SIP_bind2; [apply process_timeout_qc_K; exact H|] end.
    intros. apply tail_Q. assumption.
  Qed.
  Lemma on_new_view_Q cfg s key sig_ok j : K s -> SIP Q (on_new_view cfg s key sig_ok j).
  Proof.
    intros H. unfold on_new_view. apply SIP_bind2; [destruct (justification_view _ _); exact H|].
    intros s1 mv H1. cbv zeta. do 4 k_match.
    apply SIP_bind2; [apply process_justification_K; exact H1|]. intros s2 _ H2.
    k_match. apply start_new_view_Q. exact H2.
  Qed.
  Lemma on_proposal_K cfg s key sig_ok payload j : K s -> SIP K (on_proposal cfg s key sig_ok payload j).
  Proof.
    intros H. unfold on_proposal. apply SIP_bind; [destruct (justification_view _ _); exact H|].
    intros s1 mv H1. cbv zeta.
    repeat match goal with
    | |- SIP _ (if ?c then _ else _) => destruct c eqn:?; try exact H1
    | |- SIP _ (match ?x with _ => _ end) => destruct x eqn:?; try exact H1
    end.
    apply SIP_bind; [destruct (get_implied_block _ _ _ _); exact H1|].
    intros s2 [n0 oh] H2.
    match goal with |- SIP _ (if ?c then _ else _) => destruct c eqn:?; try exact H2 end.
    apply SIP_bind.
    - destruct oh as [h0|]; destruct payload as [p|]; try exact H2.
      repeat match goal with |- SIP _ (if ?c then _ else _) => destruct c eqn:?; try exact H2 end.
      unfold SIP, hret, K; cbn [fst set_cache r_cache]. apply cache_has_insert_keep. exact H2.
    - intros s3 hash H3. apply SIP_bind; [apply process_justification_K; exact H3|].
      intros s4 _ H4. unfold hbind, backup_state, hemit, SIP; cbn [fst]. exact H4.
  Qed.

  Lemma rstep_Q cfg s i : K s -> SIP Q (rstep cfg s i).
  Proof.
    intros H. destruct i as [m| |n0 h0]; cbn [rstep].
    - destruct (m_msg m); [apply SIP_KQ, on_proposal_K|apply on_commit_Q|apply on_timeout_Q|apply on_new_view_Q]; exact H.
    - apply SIP_KQ, start_timeout_K. exact H.
    - destruct (_ =? _); left; exact H.
  Qed.

  (* on the RMissingPreviousPayload path the state is the one the proposal handler failed in *)
  Lemma rstep_t_Q cfg s i : K s -> Q (st_of (rstep_t cfg s i)).
  Proof.
    intros H. unfold rstep_t. pose proof (rstep_Q cfg s i H) as Hq.
    destruct i as [m| |n0 h0].
    - destruct (m_msg m) as [p j|c|t|j] eqn:Em.
      + cbn [rstep] in *. rewrite Em in *. pose proof (on_proposal_K cfg s (m_key m) (m_sig_ok m) p j H) as Hk.
        destruct (on_proposal cfg s (m_key m) (m_sig_ok m) p j) as [[s' es] r]. unfold SIP, st_of in *; cbn [fst] in *.
        destruct r as [a|e|pp]; try (left; exact Hk). destruct e; try (left; exact Hk).
        pose proof (start_timeout_K cfg s' Hk) as Ht. destruct (start_timeout cfg s') as [[s2 es2] r2].
        unfold SIP in Ht; cbn [fst] in *. left. exact Ht.
      + destruct (rstep cfg s (IMsg m)) as [[s' es] r] eqn:Es. unfold SIP, st_of in *; cbn [fst] in *.
        assert (Hnm : nmr r).
        { assert (E : r = snd (rstep cfg s (IMsg m))) by (rewrite Es; reflexivity). rewrite E. cbn [rstep]. rewrite Em. apply on_commit_nm. }
        destruct r as [a|e|pp]; try exact Hq. destruct e; try exact Hq. exfalso. apply Hnm. reflexivity.
      + destruct (rstep cfg s (IMsg m)) as [[s' es] r] eqn:Es. unfold SIP, st_of in *; cbn [fst] in *.
        assert (Hnm : nmr r).
        { assert (E : r = snd (rstep cfg s (IMsg m))) by (rewrite Es; reflexivity). rewrite E. cbn [rstep]. rewrite Em. apply on_timeout_nm. }
        destruct r as [a|e|pp]; try exact Hq. destruct e; try exact Hq. exfalso. apply Hnm. reflexivity.
      + destruct (rstep cfg s (IMsg m)) as [[s' es] r] eqn:Es. unfold SIP, st_of in *; cbn [fst] in *.
        assert (Hnm : nmr r).
        { assert (E : r = snd (rstep cfg s (IMsg m))) by (rewrite Es; reflexivity). rewrite E. cbn [rstep]. rewrite Em. apply on_new_view_nm. }
        destruct r as [a|e|pp]; try exact Hq. destruct e; try exact Hq. exfalso. apply Hnm. reflexivity.
    - cbn [rstep] in *. pose proof (start_timeout_K cfg s H) as Hk.
      destruct (start_timeout cfg s) as [[s' es] r]. unfold SIP, st_of in *; cbn [fst] in *.
      destruct r as [a|e|pp]; try (left; exact Hk). destruct e; try (left; exact Hk).
      pose proof (start_timeout_K cfg s' Hk) as Ht. destruct (start_timeout cfg s') as [[s2 es2] r2].
      unfold SIP in Ht; cbn [fst] in *. left. exact Ht.
    - cbn [rstep] in *. destruct (_ =? _); unfold hret, st_of; cbn [fst]; left; exact H.
  Qed.
End Keep.

(* ================================================================== *)
(* 3. a forced re-proposal has an honest reporter of a vote for it     *)
(* ================================================================== *)
Section Reporter.
  Variable P : params.
  Hypothesis HP : params_ok P.
  Notation hon := (honestb P).
  Notation cfg := (pcfg P).
  Notation W := (cweights (p_C P)).
  Notation C := (p_C P).

  Lemma implied_reporter s tq n h :
    preach P s -> tqc_verify (p_g P) (p_e P) C tq = Ok tt -> kt hon (g_soup s) tq ->
    get_implied_block (E := unit) true C (p_first P) (JTimeout tq) = Ok (n, Some h) ->
    exists k t c, hon k = true /\ In {| m_key := k; m_sig_ok := true; m_msg := MTimeout t |} (g_soup s) /\
      thv t = Some c /\ hnum (cprop c) = n /\ hpay (cprop c) = h.
  Proof.
    intros Hr Hv Hkt Hi.
    destruct (ProtocolRefinesInv.preach_inv P HP s Hr) as [a G].
    pose proof (committee_ok_W P HP) as Hok.
    pose proof (ProtocolRefinesInv.gt_valid P (g_soup s) (g_plog s) a tq
                  (ProtocolRefinesInv.gi_commit _ _ _ G) (ProtocolRefinesInv.gi_timeout _ _ _ G)
                  (ProtocolRefinesInv.gi_votes _ _ _ G) (ProtocolRefinesInv.gi_tmos _ _ _ G) Hv Hkt) as Hval.
    assert (Hjv : justification_verify (p_g P) (p_e P) C (JTimeout tq) = Ok tt) by (apply justification_verify_iff; exact Hv).
    pose proof (implied_abs P HP (JTimeout tq) n (Some h) Hjv Hi) as Himp. cbn [abs_just is_implied] in Himp.
    destruct Himp as (hv & hqc & Hhv & Hhq & Hr0).
    destruct Hkt as [Hka Hkm]. destruct Hval as (V1 & V2 & V3 & V4 & V5).
    assert (Hb : exists b, hv = Some b /\ bnum b = n /\ bhash b = h).
    { unfold implied_of in Hr0. destruct hv as [b|]; [|discriminate].
      exists b. split; [reflexivity|]. destruct hqc as [c|].
      - destruct (bnum (aq_block c) <? bnum b); inversion Hr0; auto.
      - inversion Hr0; auto. }
    destruct Hb as (b & -> & Hbn & Hbh). destruct Hhv as [Hsub _]. unfold subquorum_block in Hsub.
    destruct (heavy_has_honest W (abyz P) Hok (reporters (abs_tqc tq) b)) as (i & Hii & Hh).
    - apply reporters_NoDup. exact V1.
    - apply reporters_Forall. exact V2.
    - pose proof (two_f_below_s W (abyz P) Hok) as H2. pose proof (thr_facts W (abyz P) Hok) as (H0 & _). lia.
    - apply reporters_in in Hii. destruct Hii as (r & u & Hin & Hrv).
      cbn [abs_tqc at_entries] in Hin. apply in_abs_entries in Hin. destruct Hin as (en & Hin & Hbit & ->).
      cbn [abs_report ar_hv] in Hrv. destruct (thv (fst en)) as [c|] eqn:Ec; [|discriminate]. cbn [abs_hv option_map] in Hrv.
      injection Hrv as _ Hbb.
      pose proof (tsigner_sig P tq en i Hv Hin Hbit) as Hs.
      exists (key_of P i), (fst en), c. split; [exact (honest_key P i Hh)|]. split; [exact (Hka _ _ Hs (honest_key P i Hh))|].
      split; [exact Ec|]. subst b. cbn [abs_hdr bnum bhash] in *. auto.
  Qed.
End Reporter.

(* ================================================================== *)
(* 4. node level: complete invocations, boots                          *)
(* ================================================================== *)
Lemma start_timeout_st cfg s : st_of (start_timeout cfg s) = set_phase s PTimeout.
Proof.
  unfold start_timeout, hbind, backup_state, hemit, st_of.
  destruct (r_view (set_phase s PTimeout) =? 0); cbn [fst hret]; [reflexivity|].
  destruct (get_justification _); reflexivity.
Qed.
Lemma rprologue_st cfg s : st_of (rprologue cfg s) = s \/ st_of (rprologue cfg s) = set_phase s PTimeout.
Proof. unfold rprologue. destruct (_ =? 0); [right; apply start_timeout_st|left; reflexivity]. Qed.

Section NodeKeep.
  Variables (n h : Z).
  Definition HasP (nd : node) : Prop :=
    In (n, h) (d_proposals (n_dur nd)) /\ (n_alive nd = true -> cache_has (r_cache (n_live nd)) n h = true).
  Definition pruned (s : rstate) : Prop := exists q, r_high_cqc s = Some q /\ n <= hnum (cprop (qmsg q)).

  (* the durable state after a list of effects whose persists are all of one state *)
  Lemma persisted_has (cfg : config) s' es d :
    (forall d0, In (EPersist d0) es -> d0 = backup cfg s') -> K n h s' -> In (n, h) (d_proposals d) ->
    In (n, h) (d_proposals (last_persist es d)).
  Proof.
    intros Hp Hk Hd. destruct (last_persist_cases es d) as [E|Hin]; [rewrite E; exact Hd|].
    rewrite (Hp _ Hin). cbn [backup d_proposals]. apply cache_has_in. exact Hk.
  Qed.

  Lemma input_HasP cfg nd i : n_alive nd = true -> HasP nd ->
    HasP (fst (node_input cfg nd i)) \/ pruned (n_live (fst (node_input cfg nd i))).
  Proof.
    intros Hal [Hd Hc]. specialize (Hc Hal). unfold node_input.
    pose proof (rstep_t_Q n h cfg (n_live nd) i Hc) as Hq. pose proof (rstep_t_shape cfg (n_live nd) i) as Hsh.
    destruct (rstep_t cfg (n_live nd) i) as [[s' es] r]. unfold st_of in Hq; cbn [fst] in Hq.
    pose proof (apply_effects_last es (n_dur nd) (r_store_next (n_live nd))) as Hl.
    destruct (apply_effects (n_dur nd) (r_store_next (n_live nd)) es) as [d' nx]. cbn [fst snd n_live n_dur n_alive] in *.
    destruct Hq as [Hk|Hp]; [left|right; exact Hp]. split; [|intros _; exact Hk]. subst d'.
    apply (persisted_has cfg s'); [|exact Hk|exact Hd].
    intros d0 Hin. exact (proj1 (shape_persist _ _ _ _ _ _ _ _ Hsh Hin)).
  Qed.

  Lemma rstart_K cfg d f nx : In (n, h) (d_proposals d) -> d_epoch d = ce cfg -> K n h (rstart cfg d f nx).
  Proof.
    intros Hd He. unfold rstart, K. rewrite He, Z.eqb_refl. cbn [r_cache]. apply cache_rebuild. right. exact Hd.
  Qed.

  Lemma boot_HasP cfg d f nx : cchk cfg = true -> In (n, h) (d_proposals d) -> d_epoch d = ce cfg ->
    HasP (fst (node_boot cfg d f nx)).
  Proof.
    intros Hchk Hd He. unfold node_boot. pose proof (rstart_K cfg d f nx Hd He) as Hk0.
    assert (Hk1 : K n h (st_of (rprologue cfg (rstart cfg d f nx)))).
    { destruct (rprologue_st cfg (rstart cfg d f nx)) as [E|E]; rewrite E; exact Hk0. }
    destruct (rprologue cfg (rstart cfg d f nx)) as [[s1 es] r] eqn:Ep. unfold st_of in Hk1; cbn [fst] in Hk1.
    pose proof (apply_effects_last es d nx) as Hl. destruct (apply_effects d nx es) as [d1 nx1]. cbn [fst snd n_live n_dur n_alive] in *.
    split; [|intros _; exact Hk1]. subst d1. apply (persisted_has cfg s1); [|exact Hk1|exact Hd].
    intros d0 Hin. exact (proj1 (shape_persist _ _ _ _ _ _ _ _ (rprologue_shape' cfg _ _ _ _ Hchk Ep) Hin)).
  Qed.

  Lemma boot_cqc cfg d f nx q : d_high_cqc d = Some q -> d_epoch d = ce cfg ->
    r_high_cqc (n_live (fst (node_boot cfg d f nx))) = Some q.
  Proof.
    intros Hq He. unfold node_boot.
    assert (H0 : r_high_cqc (rstart cfg d f nx) = Some q) by (unfold rstart; rewrite He, Z.eqb_refl; exact Hq).
    assert (H1 : r_high_cqc (st_of (rprologue cfg (rstart cfg d f nx))) = Some q).
    { destruct (rprologue_st cfg (rstart cfg d f nx)) as [E|E]; rewrite E; exact H0. }
    destruct (rprologue cfg (rstart cfg d f nx)) as [[s1 es] r]. destruct (apply_effects d nx es). exact H1.
  Qed.
  Lemma boot_hv cfg d f nx : r_high_vote (n_live (fst (node_boot cfg d f nx))) = r_high_vote (rstart cfg d f nx).
  Proof.
    unfold node_boot.
    assert (H1 : r_high_vote (st_of (rprologue cfg (rstart cfg d f nx))) = r_high_vote (rstart cfg d f nx)).
    { destruct (rprologue_st cfg (rstart cfg d f nx)) as [E|E]; rewrite E; reflexivity. }
    destruct (rprologue cfg (rstart cfg d f nx)) as [[s1 es] r]. destruct (apply_effects d nx es). exact H1.
  Qed.
End NodeKeep.

(* ================================================================== *)
(* 5. the high vote changes only when a proposal is accepted           *)
(* ================================================================== *)
Section HighVote.
  Variable hv0 : option commit.
  Definition HVeq (s : rstate) : Prop := r_high_vote s = hv0.

  Lemma save_block_HV cfg s q : HVeq s -> SIP HVeq (save_block cfg s q).
  Proof.
    intros H. unfold save_block, SIP. destruct (cache_has _ _ _); [|exact H].
    destruct (_ <? _); [exact H|]. destruct (r_store_next s =? _); exact H.
  Qed.
  Lemma process_commit_qc_HV cfg s q : HVeq s -> SIP HVeq (process_commit_qc cfg s q).
  Proof.
    intros H. unfold process_commit_qc.
    match goal with |- SIP _ (if ?c then _ else _) => destruct c end; [|exact H].
    apply save_block_HV. exact H.
  Qed.
  Lemma process_timeout_qc_HV cfg s t : HVeq s -> SIP HVeq (process_timeout_qc cfg s t).
  Proof.
    intros H. unfold process_timeout_qc. apply SIP_bind.
    - destruct (high_qc t); [apply process_commit_qc_HV; exact H|exact H].
    - intros s1 _ H1. unfold SIP, hret; cbn [fst].
      match goal with |- HVeq (if ?c then _ else _) => destruct c end; exact H1.
  Qed.
  Lemma process_justification_HV cfg s j : HVeq s -> SIP HVeq (process_justification cfg s j).
  Proof. intros H. destruct j; [apply process_commit_qc_HV|apply process_timeout_qc_HV]; exact H. Qed.
  Lemma start_new_view_HV cfg s v : HVeq s -> SIP HVeq (start_new_view cfg s v).
  Proof.
    intros H. unfold start_new_view.
    destruct (get_justification _); try exact H.
    unfold backup_state, hbind, hemit, SIP. cbn [fst set_phase set_view r_high_cqc].
    destruct (r_high_cqc s); cbn [fst]; exact H.
  Qed.
  Lemma start_timeout_HV cfg s : HVeq s -> SIP HVeq (start_timeout cfg s).
  Proof. intros H. unfold SIP. change (fst (fst (start_timeout cfg s))) with (st_of (start_timeout cfg s)). rewrite start_timeout_st. exact H. Qed.
  Lemma tail_HV cfg s v : HVeq s ->
    SIP HVeq (hbind (lift s (num_next (cchk cfg) v)) (fun s nv => start_new_view cfg s nv)).
  Proof.
    intros H. apply SIP_bind; [destruct (num_next _ _); exact H|]. intros. apply start_new_view_HV. assumption.
  Qed.

  Ltac hv_match :=
    match goal with
    | |- SIP _ (if ?c then _ else _) => destruct c eqn:?
    | |- SIP _ (match ?x with _ => _ end) => destruct x eqn:?
    end; try (unfold hfail, hpanic, hret, SIP; cbn [fst]; assumption).

  Lemma on_commit_HV cfg s key sig_ok c : HVeq s -> SIP HVeq (on_commit cfg s key sig_ok c).
  Proof.
    intros H. unfold on_commit. hv_match. cbv zeta. repeat hv_match.
    match goal with |- SIP _ (hbind (process_commit_qc cfg ?s2 ?q) _) =>
      apply SIP_bind; [apply process_commit_qc_HV; exact H|] end.
    intros. apply tail_HV. assumption.
  Qed.
  Lemma on_timeout_HV cfg s key sig_ok t : HVeq s -> SIP HVeq (on_timeout cfg s key sig_ok t).
  Proof.
    intros H. unfold on_timeout. hv_match. cbv zeta. repeat hv_match.
    match goal with |- SIP _ (hbind (process_timeout_qc cfg ?s2 ?q) _) =>
      apply SIP_bind; [apply process_timeout_qc_HV; exact H|] end.
    intros. apply tail_HV. assumption.
  Qed.
  Lemma on_new_view_HV cfg s key sig_ok j : HVeq s -> SIP HVeq (on_new_view cfg s key sig_ok j).
  Proof.
    intros H. unfold on_new_view. apply SIP_bind; [destruct (justification_view _ _); exact H|].
    intros s1 mv H1. cbv zeta. do 4 hv_match.
    apply SIP_bind; [apply process_justification_HV; exact H1|]. intros s2 _ H2.
    hv_match. apply start_new_view_HV. exact H2.
  Qed.
End HighVote.

(* what a step does to the high vote *)
Lemma rstep_t_vote cfg s i :
  r_high_vote (st_of (rstep_t cfg s i)) = r_high_vote s \/
  exists m p j mv n0 oh hash, i = IMsg m /\ m_msg m = MProposal p j /\
    justification_verify (cg cfg) (ce cfg) (cC cfg) j = Ok tt /\
    get_implied_block (E := unit) (cchk cfg) (cC cfg) (cfirst cfg) j = Ok (n0, oh) /\
    r_high_vote (st_of (rstep_t cfg s i)) = Some {| cview := mv; cprop := {| hnum := n0; hpay := hash |} |} /\
    (oh = Some hash \/ (oh = None /\ cache_has (r_cache (st_of (rstep_t cfg s i))) n0 hash = true)).
Proof.
  assert (Hst : forall s1, r_high_vote s1 = r_high_vote s -> r_high_vote (st_of (start_timeout cfg s1)) = r_high_vote s).
  { intros s1 E. rewrite start_timeout_st. exact E. }
  destruct i as [m| |n0 h0].
  - destruct (m_msg m) as [p j|c|t|j] eqn:Em.
    + unfold rstep_t. cbn [rstep]. rewrite Em.
      destruct (on_proposal_cases cfg s (m_key m) (m_sig_ok m) p j)
        as [(r & E & Hr & _)|(mv & n1 & oh & s1 & hash & Hpre & Himp & _ & Hbr & E)].
      * rewrite E. left. destruct r as [a|e|pn]; try reflexivity. destruct e; try reflexivity.
        pose proof (Hst s eq_refl) as H. destruct (start_timeout cfg s) as [[s2 es2] r2]. exact H.
      * right. exists m, p, j, mv, n1, oh, hash. split; [reflexivity|]. split; [exact Em|].
        split; [apply Hpre|]. split; [exact Himp|]. rewrite E.
        set (vote := {| cview := mv; cprop := {| hnum := n1; hpay := hash |} |}) in *.
        set (s2 := set_high_vote (set_phase (set_view s1 (vnum mv)) PCommit) (Some vote)) in *.
        pose proof (vote_tail_res cfg s2 j vote) as Hres. cbv zeta in Hres.
        assert (Hhv : SIP (HVeq (Some vote)) (hbind (process_justification cfg s2 j)
                  (fun s _ => hbind (backup_state cfg s) (fun s _ => hemit s (ESend (MCommit vote)))))).
        { apply SIP_bind; [apply process_justification_HV; reflexivity|]. intros s3 _ H3.
          unfold hbind, backup_state, hemit, SIP; cbn [fst]. exact H3. }
        assert (Hk : oh = None -> SIP (K n1 hash) (hbind (process_justification cfg s2 j)
                  (fun s _ => hbind (backup_state cfg s) (fun s _ => hemit s (ESend (MCommit vote)))))).
        { intros Eo. destruct Hbr as [(A & _)|(_ & _ & _ & _ & _ & Es1)]; [congruence|].
          apply SIP_bind.
          - apply process_justification_K. unfold K, s2. cbn [set_high_vote set_phase set_view r_cache]. rewrite Es1.
            cbn [set_cache r_cache]. apply cache_has_insert_same.
          - intros s3 _ H3. unfold hbind, backup_state, hemit, SIP; cbn [fst]. exact H3. }
        destruct (hbind (process_justification cfg s2 j) _) as [[s3 es3] r3]. unfold SIP, st_of in *. cbn [fst snd] in *.
        assert (Er : (let '(s', es, r) := (s3, es3, r3) in
                      match r with
                      | Err RMissingPreviousPayload => let '(s2', es2, r2) := start_timeout cfg s' in (s2', es ++ es2, r2)
                      | _ => (s', es, r)
                      end) = (s3, es3, r3)) by (destruct Hres as [-> | ->]; reflexivity).
        unfold rstep_t in *.
        destruct Hres as [-> | ->]; cbn [fst]; (split; [exact Hhv|]);
          (destruct oh as [h1|]; [left; destruct Hbr as [(A & _)|(A & _)]; congruence|right; split; [reflexivity|apply Hk; reflexivity]]).
    + left. rewrite rstep_t_other by (intros ? ?; rewrite Em; discriminate). cbn [rstep]. rewrite Em.
      apply (on_commit_HV (r_high_vote s)). reflexivity.
    + left. rewrite rstep_t_other by (intros ? ?; rewrite Em; discriminate). cbn [rstep]. rewrite Em.
      apply (on_timeout_HV (r_high_vote s)). reflexivity.
    + left. rewrite rstep_t_other by (intros ? ?; rewrite Em; discriminate). cbn [rstep]. rewrite Em.
      apply (on_new_view_HV (r_high_vote s)). reflexivity.
  - left. unfold rstep_t. cbn [rstep].
    pose proof (Hst s eq_refl) as H0. destruct (start_timeout cfg s) as [[s' es] r] eqn:Eo. unfold st_of in *; cbn [fst] in *.
    destruct r as [a|e|pp]; try exact H0. destruct e; try exact H0.
    pose proof (Hst s' H0) as H. destruct (start_timeout cfg s') as [[s2 es2] r2]. exact H.
  - left. unfold rstep_t. cbn [rstep]. destruct (_ =? _); reflexivity.
Qed.

(* ================================================================== *)
(* 6. node-level facts about complete invocations, boots and crashes   *)
(* ================================================================== *)
Lemma last_persist_all es b : (forall d0, In (EPersist d0) es -> d0 = b) -> (exists d0, In (EPersist d0) es) ->
  forall dd, last_persist es dd = b.
Proof.
  intros Hall [d0 Hin] dd. destruct (last_persist_cases es dd) as [E|H]; [|exact (Hall _ H)].
  revert dd E. induction es as [|e es IH]; intros dd E; [destruct Hin|].
  destruct e as [d'|m|n0 h0|j]; cbn [last_persist fold_left] in *; fold (last_persist es) in *.
  - destruct (last_persist_cases es d') as [E'|H'].
    + change (last_persist es d' = b). rewrite E'. apply Hall. left. reflexivity.
    + change (last_persist es d' = b). apply Hall. right. exact H'.
  - destruct Hin as [Hin|Hin]; [discriminate|]. apply IH; auto. intros d1 H1. apply Hall. right. exact H1.
  - destruct Hin as [Hin|Hin]; [discriminate|]. apply IH; auto. intros d1 H1. apply Hall. right. exact H1.
  - destruct Hin as [Hin|Hin]; [discriminate|]. apply IH; auto. intros d1 H1. apply Hall. right. exact H1.
Qed.

Lemma in_persists_of k es k0 d : In (k0, d) (persists_of k es) -> k0 = k /\ In (EPersist d) es.
Proof.
  unfold persists_of. intros H. apply in_flat_map in H. destruct H as (y & Hy & Hin).
  destruct y; cbn [In] in Hin; try contradiction. destruct Hin as [Hin|[]]. inversion Hin; subst. auto.
Qed.
Lemma persists_of_in k es d : In (EPersist d) es -> In (k, d) (persists_of k es).
Proof. intros H. unfold persists_of. apply in_flat_map. exists (EPersist d). split; [exact H|left; reflexivity]. Qed.

Lemma input_parts cfg nd i :
  n_live (fst (node_input cfg nd i)) = st_of (rstep_t cfg (n_live nd) i) /\
  n_dur (fst (node_input cfg nd i)) = last_persist (snd (node_input cfg nd i)) (n_dur nd) /\
  (forall d0, In (EPersist d0) (snd (node_input cfg nd i)) -> d0 = backup cfg (st_of (rstep_t cfg (n_live nd) i))).
Proof.
  unfold node_input. pose proof (rstep_t_shape cfg (n_live nd) i) as Hsh.
  destruct (rstep_t cfg (n_live nd) i) as [[s' es] r]. unfold st_of; cbn [fst].
  pose proof (apply_effects_last es (n_dur nd) (r_store_next (n_live nd))) as Hl.
  destruct (apply_effects (n_dur nd) (r_store_next (n_live nd)) es) as [d' nx]. cbn [fst snd n_live n_dur] in *.
  split; [reflexivity|]. split; [exact Hl|]. intros d0 Hin. exact (proj1 (shape_persist _ _ _ _ _ _ _ _ Hsh Hin)).
Qed.

Lemma boot_parts cfg d f nx : cchk cfg = true ->
  n_dur (fst (node_boot cfg d f nx)) = last_persist (snd (node_boot cfg d f nx)) d /\
  (forall d0, In (EPersist d0) (snd (node_boot cfg d f nx)) -> d0 = backup cfg (n_live (fst (node_boot cfg d f nx)))).
Proof.
  intros Hchk. unfold node_boot. destruct (rprologue cfg (rstart cfg d f nx)) as [[s1 es] r] eqn:Ep.
  pose proof (apply_effects_last es d nx) as Hl. destruct (apply_effects d nx es) as [d1 nx1]. cbn [fst snd n_live n_dur] in *.
  split; [exact Hl|]. intros d0 Hin.
  exact (proj1 (shape_persist _ _ _ _ _ _ _ _ (rprologue_shape' cfg _ _ _ _ Hchk Ep) Hin)).
Qed.

Lemma crash_parts cfg nd i j applied x : node_crash cfg nd i j applied = Some x ->
  exists pre d' nx',
    (forall e, In e pre -> In e (snd (fst (rstep_t cfg (n_live nd) i)))) /\
    d' = last_persist pre (n_dur nd) /\
    fst x = fst (node_boot cfg d' (r_store_first (n_live nd)) nx') /\
    snd x = pre ++ snd (node_boot cfg d' (r_store_first (n_live nd)) nx').
Proof.
  unfold node_crash. destruct (rstep_t cfg (n_live nd) i) as [[s' es] r]. cbn [fst snd].
  destruct (cut_at_persist es j applied) as [pre|] eqn:Ec; [|discriminate].
  pose proof (apply_effects_last pre (n_dur nd) (r_store_next (n_live nd))) as Hl.
  destruct (apply_effects (n_dur nd) (r_store_next (n_live nd)) pre) as [d' next']. cbn [fst] in Hl.
  destruct (node_boot cfg d' (r_store_first (n_live nd)) next') as [nd' es1] eqn:Eb.
  intros E. inversion E; subst x. exists pre, d', next'. rewrite Eb. cbn [fst snd].
  split; [intros e He; exact (cut_at_persist_incl es j applied pre Ec e He)|]. auto.
Qed.

Section NodeKeep2.
  Variables (n h : Z).
  Lemma crash_HasP cfg nd i j applied x : cchk cfg = true -> n_alive nd = true -> HasP n h nd ->
    d_epoch (n_dur nd) = ce cfg -> node_crash cfg nd i j applied = Some x ->
    HasP n h (fst x) \/ pruned n (n_live (fst x)).
  Proof.
    intros Hchk Hal [Hd Hc] Hep Hx. specialize (Hc Hal).
    destruct (crash_parts cfg nd i j applied x Hx) as (pre & d' & nx' & Hpre & Ed & Ef & _). rewrite Ef.
    destruct (last_persist_cases pre (n_dur nd)) as [E|Hin].
    - left. apply boot_HasP; [exact Hchk|rewrite Ed, E; exact Hd|rewrite Ed, E; exact Hep].
    - rewrite <- Ed in Hin. apply Hpre in Hin.
      pose proof (rstep_t_shape cfg (n_live nd) i) as Hsh. pose proof (rstep_t_Q n h cfg (n_live nd) i Hc) as Hq.
      destruct (rstep_t cfg (n_live nd) i) as [[s' es] r]. unfold st_of in Hq. cbn [fst snd] in *.
      pose proof (proj1 (shape_persist _ _ _ _ _ _ _ _ Hsh Hin)) as Eb.
      destruct Hq as [Hk|(q & Hq1 & Hq2)].
      + left. apply boot_HasP; [exact Hchk|rewrite Eb; cbn [backup d_proposals]; apply cache_has_in; exact Hk|rewrite Eb; reflexivity].
      + right. exists q. split; [|exact Hq2]. apply boot_cqc; rewrite Eb; [exact Hq1|reflexivity].
  Qed.
End NodeKeep2.

(* ================================================================== *)
(* 7. the global invariant                                             *)
(* ================================================================== *)
Section Avail.
  Variable P : params.
  Hypothesis HP : params_ok P.
  Notation hon := (honestb P).
  Notation cfg := (pcfg P).
  Variables (n h : Z).

  (* a good commit certificate for a block number >= n is known *)
  Definition Cert (soup : list sgmsg) : Prop :=
    exists q, gq (cfg 0) hon soup q /\ n <= hnum (cprop (qmsg q)).
  Definition Avail (s : gstate) : Prop :=
    (exists k, hon k = true /\ HasP n h (g_node s k)) \/ Cert (g_soup s).
  Definition votes_nh (d : durable) : Prop :=
    exists c, d_high_vote d = Some c /\ hnum (cprop c) = n /\ hpay (cprop c) = h.
  Definition PA (s : gstate) : Prop :=
    forall k d, hon k = true -> In (k, d) (g_plog s) -> votes_nh d -> Avail s.
  Definition DL (s : gstate) : Prop :=
    forall k, hon k = true -> n_dur (g_node s k) = durable_default \/ In (k, n_dur (g_node s k)) (g_plog s).

  Lemma pstep_incl s s' : pstep P s s' -> incl (g_soup s) (g_soup s') /\ incl (g_plog s) (g_plog s').
  Proof.
    intros Hs. destruct Hs; cbn [absorb add_msg g_soup g_plog]; split; intros y Hy; try exact Hy; apply in_or_app; left; exact Hy.
  Qed.

  Lemma Cert_mono soup soup' : incl soup soup' -> Cert soup -> Cert soup'.
  Proof. intros Hi (q & Hq & Hn). exists q. split; [exact (ProtocolRefinesInv.gq_mono hon soup soup' Hi (cfg 0) q Hq)|exact Hn]. Qed.

  Lemma node_facts s k : preach P s -> hon k = true ->
    (forall q, r_high_cqc (n_live (g_node s k)) = Some q -> gq (cfg 0) hon (g_soup s) q) /\
    (d_epoch (n_dur (g_node s k)) = p_e P \/ n_dur (g_node s k) = durable_default) /\
    (n_alive (g_node s k) = true -> r_high_vote (n_live (g_node s k)) = d_high_vote (n_dur (g_node s k))).
  Proof.
    intros Hr Hk. destruct (ProtocolRefinesInv.preach_inv P HP s Hr) as [a G].
    pose proof (ProtocolRefinesInv.gi_node _ _ _ G k Hk) as N.
    split; [|split].
    - intros q Hq. exact (co_cqc _ _ _ _ (ProtocolRefinesInv.ni_certs _ _ _ _ _ N) q Hq).
    - exact (ProtocolRefinesInv.ni_epoch _ _ _ _ _ N).
    - intros Hal. destruct (ProtocolRefinesInv.ni_link _ _ _ _ _ N Hal) as [(_ & _ & E) _]. exact E.
  Qed.

  Lemma pruned_Cert s k : preach P s -> hon k = true -> pruned n (n_live (g_node s k)) -> Cert (g_soup s).
  Proof.
    intros Hr Hk (q & Hq & Hn). destruct (node_facts s k Hr Hk) as (Hc & _). exists q. split; [exact (Hc q Hq)|exact Hn].
  Qed.

  Lemma HasP_epoch s k : preach P s -> hon k = true -> HasP n h (g_node s k) -> d_epoch (n_dur (g_node s k)) = ce (cfg k).
  Proof.
    intros Hr Hk [Hd _]. destruct (node_facts s k Hr Hk) as (_ & [E|E] & _); [exact E|].
    rewrite E in Hd. destruct Hd.
  Qed.

  Lemma set_node_same f k nd : set_node f k nd k = nd.
  Proof. unfold set_node. rewrite Z.eqb_refl. reflexivity. Qed.
  Lemma set_node_other f k nd k' : k' <> k -> set_node f k nd k' = f k'.
  Proof. intros H. unfold set_node. destruct (k' =? k) eqn:E; [apply Z.eqb_eq in E; congruence|reflexivity]. Qed.

  (* availability is kept by every step *)
  Lemma Avail_step s s' : preach P s -> pstep P s s' -> Avail s -> Avail s'.
  Proof.
    intros Hr Hs Ha. assert (Hr' : preach P s') by (eapply PReachStep; eassumption).
    destruct (pstep_incl s s' Hs) as [Hsoup _].
    destruct Ha as [(k' & Hk' & HH)|Hc]; [|right; exact (Cert_mono _ _ Hsoup Hc)].
    assert (Hother : forall k x, k' <> k -> s' = absorb s k x -> Avail s').
    { intros k x Hne ->. left. exists k'. split; [exact Hk'|]. cbn [absorb g_node]. rewrite set_node_other by exact Hne. exact HH. }
    assert (Hsame : forall x, s' = absorb s k' x -> HasP n h (fst x) \/ pruned n (n_live (fst x)) -> Avail s').
    { intros x -> [H1|H1].
      - left. exists k'. split; [exact Hk'|]. cbn [absorb g_node]. rewrite set_node_same. exact H1.
      - right. apply (pruned_Cert _ k' Hr' Hk'). cbn [absorb g_node]. rewrite set_node_same. exact H1. }
    pose proof (HasP_epoch s k' Hr Hk' HH) as Hep.
    destruct Hs as [s k m Hk Hal Hin|s k Hk Hal|s k i j applied x Hk Hal Hci Hcr|s k Hk
                   |s k n0 h0 q Hk Hal Hv Hkn Hn Hh|s k p j Hk Hal Hnt|s m Ha].
    - destruct (Z.eq_dec k' k) as [->|Hne]; [|eapply Hother; eauto].
      eapply Hsame; [reflexivity|]. apply input_HasP; assumption.
    - destruct (Z.eq_dec k' k) as [->|Hne]; [|eapply Hother; eauto].
      eapply Hsame; [reflexivity|]. apply input_HasP; assumption.
    - destruct (Z.eq_dec k' k) as [->|Hne]; [|eapply Hother; eauto].
      eapply Hsame; [reflexivity|]. eapply crash_HasP; try eassumption. reflexivity.
    - destruct (Z.eq_dec k' k) as [->|Hne]; [|eapply Hother; eauto].
      eapply Hsame; [reflexivity|]. left. unfold node_restart. apply boot_HasP; [reflexivity|apply HH|exact Hep].
    - destruct (Z.eq_dec k' k) as [->|Hne]; [|eapply Hother; eauto].
      eapply Hsame; [reflexivity|]. apply input_HasP; assumption.
    - left. exists k'. split; [exact Hk'|exact HH].
    - left. exists k'. split; [exact Hk'|exact HH].
  Qed.

  Lemma votes_default : ~ votes_nh durable_default.
  Proof. intros (c & Hc & _). discriminate Hc. Qed.

  Lemma rstart_hv c0 d f nx c : r_high_vote (rstart c0 d f nx) = Some c -> d_high_vote d = Some c.
  Proof. unfold rstart. destruct (d_epoch d =? ce c0); cbn [r_high_vote]; [auto|discriminate]. Qed.

  Lemma rstep_t_persist c0 st i d0 : In (EPersist d0) (snd (fst (rstep_t c0 st i))) -> d0 = backup c0 (st_of (rstep_t c0 st i)).
  Proof.
    pose proof (rstep_t_shape c0 st i) as Hsh. destruct (rstep_t c0 st i) as [[s' es] r]. unfold st_of; cbn [fst snd].
    intros Hin. exact (proj1 (shape_persist _ _ _ _ _ _ _ _ Hsh Hin)).
  Qed.

  Section Step.
    Variables s s' : gstate.
    Hypothesis Hr : preach P s.
    Hypothesis Hs : pstep P s s'.
    Hypothesis HDL : DL s.
    Hypothesis HPA : PA s.

    Lemma from_old k d : hon k = true -> In (k, d) (g_plog s) -> votes_nh d -> Avail s'.
    Proof. intros Hk Hin Hv. exact (Avail_step s s' Hr Hs (HPA k d Hk Hin Hv)). Qed.

    Lemma dur_votes k : hon k = true -> votes_nh (n_dur (g_node s k)) -> Avail s'.
    Proof.
      intros Hk Hv. destruct (HDL k Hk) as [E|Hin]; [rewrite E in Hv; destruct (votes_default Hv)|].
      exact (from_old k _ Hk Hin Hv).
    Qed.

    Lemma reproposal_case m p j : In m (g_soup s) -> m_msg m = MProposal p j ->
      justification_verify (p_g P) (p_e P) (p_C P) j = Ok tt ->
      get_implied_block (E := unit) true (p_C P) (p_first P) j = Ok (n, Some h) -> Avail s'.
    Proof.
      intros Hin Em Hver Himp. destruct (ProtocolRefinesInv.preach_inv P HP s Hr) as [a G].
      pose proof (ProtocolRefinesInv.gi_soup _ _ _ G m Hin) as Hkm. rewrite Em in Hkm. cbn [kmsg] in Hkm.
      destruct j as [q|tq].
      - cbn [get_implied_block] in Himp. destruct (num_next true (hnum (cprop (qmsg q)))); cbn [bind] in Himp; discriminate.
      - cbn [kj] in Hkm. apply justification_verify_iff in Hver.
        destruct (implied_reporter P HP s tq n h Hr Hver Hkm Himp) as (k1 & t1 & c1 & Hk1 & Hsent & Ehv & En & Eh).
        destruct (ProtocolRefinesInv.gi_timeout _ _ _ G k1 t1 Hk1 Hsent) as (d1 & Hd1 & _ & _ & Hhv & _).
        apply (from_old k1 d1 Hk1 Hd1). exists c1. rewrite Hhv. auto.
    Qed.

    (* a complete invocation of a running node whose final state carries a high vote for (n, h) *)
    Lemma full_step_votes k i : hon k = true -> n_alive (g_node s k) = true ->
      (forall m, i = IMsg m -> In m (g_soup s)) ->
      votes_nh (backup (cfg k) (st_of (rstep_t (cfg k) (n_live (g_node s k)) i))) ->
      Avail s' \/ K n h (st_of (rstep_t (cfg k) (n_live (g_node s k)) i)).
    Proof.
      intros Hk Hal Hi (c & Hc & En & Eh). cbn [backup d_high_vote] in Hc.
      destruct (rstep_t_vote (cfg k) (n_live (g_node s k)) i)
        as [E|(m & p & j & mv & n0 & oh & hash & -> & Em & Hver & Himp & Ehv & Hbr)].
      - left. apply (dur_votes k Hk). destruct (node_facts s k Hr Hk) as (_ & _ & Hl). exists c.
        rewrite <- (Hl Hal), <- E. auto.
      - rewrite Ehv in Hc. inversion Hc; subst c. cbn [cprop hnum hpay] in En, Eh. subst n0 hash.
        destruct Hbr as [->|[-> Hch]].
        + left. exact (reproposal_case m p j (Hi m eq_refl) Em Hver Himp).
        + right. exact Hch.
    Qed.
  End Step.

  Lemma HasP_of_K k (nd : node) : K n h (n_live nd) -> n_dur nd = backup (cfg k) (n_live nd) -> HasP n h nd.
  Proof. intros Hk Ed. split; [rewrite Ed; cbn [backup d_proposals]; apply cache_has_in; exact Hk|intros _; exact Hk]. Qed.

  Lemma PA_step s s' : preach P s -> pstep P s s' -> DL s -> PA s -> PA s'.
  Proof.
    intros Hr Hs HDL HPA k0 d Hk0 Hin Hv.
    assert (Hr' : preach P s') by (eapply PReachStep; eassumption).
    pose proof (from_old s s' Hr Hs HPA) as Hold.
    pose proof (dur_votes s s' Hr Hs HDL HPA) as Hdur.
    pose proof (full_step_votes s s' Hr Hs HDL HPA) as Hfull.
    (* a complete invocation *)
    assert (Hinput : forall k i, hon k = true -> n_alive (g_node s k) = true -> (forall m, i = IMsg m -> In m (g_soup s)) ->
              s' = absorb s k (node_input (cfg k) (g_node s k) i) ->
              In (k0, d) (g_plog s ++ persists_of k (snd (node_input (cfg k) (g_node s k) i))) -> Avail s').
    { intros k i Hk Hal Hi Es' Hin0. apply in_app_or in Hin0. destruct Hin0 as [Hin0|Hin0]; [exact (Hold k0 d Hk0 Hin0 Hv)|].
      apply in_persists_of in Hin0. destruct Hin0 as [-> Hin0].
      destruct (input_parts (cfg k) (g_node s k) i) as (El & Ed & Hall).
      pose proof (Hall d Hin0) as Eb. rewrite Eb in Hv.
      destruct (Hfull k i Hk Hal Hi Hv) as [Ha|HK]; [exact Ha|].
      left. exists k. split; [exact Hk|]. rewrite Es'. cbn [absorb g_node]. rewrite set_node_same.
      apply (HasP_of_K k); [rewrite El; exact HK|].
      rewrite Ed, El. apply last_persist_all; [exact Hall|exists d; exact Hin0]. }
    (* the persists of a boot *)
    assert (Hboot : forall k d' f nx, hon k = true -> In (EPersist d) (snd (node_boot (cfg k) d' f nx)) -> votes_nh d').
    { intros k d' f nx Hk Hin0. destruct (boot_parts (cfg k) d' f nx eq_refl) as (_ & Hall).
      rewrite (Hall d Hin0) in Hv. destruct Hv as (c & Hc & En & Eh). cbn [backup d_high_vote] in Hc.
      rewrite boot_hv in Hc. exists c. split; [exact (rstart_hv _ _ _ _ _ Hc)|auto]. }
    destruct Hs as [s k m Hk Hal Hinm|s k Hk Hal|s k i j applied x Hk Hal Hci Hcr|s k Hk
                   |s k n0 h0 q Hk Hal Hvq Hkn Hn Hh|s k p j Hk Hal Hnt|s m Ha]; cbn [absorb add_msg g_plog] in Hin.
    - apply (Hinput k (IMsg m) Hk Hal); [intros m' Em; inversion Em; subst; exact Hinm|reflexivity|exact Hin].
    - apply (Hinput k ITimer Hk Hal); [intros m' Em; discriminate|reflexivity|exact Hin].
    - (* crash *)
      apply in_app_or in Hin. destruct Hin as [Hin|Hin]; [exact (Hold k0 d Hk0 Hin Hv)|].
      apply in_persists_of in Hin. destruct Hin as [-> Hin].
      destruct (crash_parts (cfg k) (g_node s k) i j applied x Hcr) as (pre & d' & nx' & Hpre & Ed' & Ef & Es).
      assert (Hi : forall m, i = IMsg m -> In m (g_soup s)) by (intros m ->; exact Hci).
      assert (Hpre_case : forall d0, In (EPersist d0) pre -> votes_nh d0 -> Avail (absorb s k x)).
      { intros d0 Hin0 Hv0. pose proof (rstep_t_persist (cfg k) _ i d0 (Hpre _ Hin0)) as Eb. rewrite Eb in Hv0.
        destruct (Hfull k i Hk Hal Hi Hv0) as [Ha|HK]; [exact Ha|].
        left. exists k. split; [exact Hk|]. cbn [absorb g_node]. rewrite set_node_same, Ef.
        assert (Ed0 : d' = backup (cfg k) (st_of (rstep_t (cfg k) (n_live (g_node s k)) i))).
        { rewrite Ed'. apply last_persist_all; [|exists d0; exact Hin0].
          intros d1 H1. exact (rstep_t_persist (cfg k) _ i d1 (Hpre _ H1)). }
        apply boot_HasP; [reflexivity| |rewrite Ed0; reflexivity].
        rewrite Ed0. cbn [backup d_proposals]. apply cache_has_in. exact HK. }
      rewrite Es in Hin. apply in_app_or in Hin. destruct Hin as [Hin|Hin]; [exact (Hpre_case d Hin Hv)|].
      pose proof (Hboot k d' _ _ Hk Hin) as Hv'.
      destruct (last_persist_cases pre (n_dur (g_node s k))) as [E|Hin'].
      + apply (Hdur k Hk). rewrite <- E, <- Ed'. exact Hv'.
      + rewrite <- Ed' in Hin'. exact (Hpre_case d' Hin' Hv').
    - (* restart *)
      apply in_app_or in Hin. destruct Hin as [Hin|Hin]; [exact (Hold k0 d Hk0 Hin Hv)|].
      apply in_persists_of in Hin. destruct Hin as [-> Hin]. unfold node_restart in Hin.
      apply (Hdur k Hk). exact (Hboot k _ _ _ Hk Hin).
    - apply (Hinput k (ISync n0 h0) Hk Hal); [intros m' Em; discriminate|reflexivity|exact Hin].
    - exact (Hold k0 d Hk0 Hin Hv).
    - exact (Hold k0 d Hk0 Hin Hv).
  Qed.

  Lemma DL_step s s' : pstep P s s' -> DL s -> DL s'.
  Proof.
    intros Hs HDL k0 Hk0.
    assert (Hgen : forall k (nd' : node) es, s' = absorb s k (nd', es) ->
              (k0 = k -> n_dur nd' = n_dur (g_node s k) \/ In (EPersist (n_dur nd')) es) ->
              n_dur (g_node s' k0) = durable_default \/ In (k0, n_dur (g_node s' k0)) (g_plog s')).
    { intros k nd' es -> Hd. cbn [absorb g_node g_plog fst snd]. destruct (Z.eq_dec k0 k) as [->|Hne].
      - rewrite set_node_same. destruct (Hd eq_refl) as [E|Hin].
        + rewrite E. destruct (HDL k Hk0) as [E0|Hin0]; [left; exact E0|right; apply in_or_app; left; exact Hin0].
        + right. apply in_or_app. right. apply persists_of_in. exact Hin.
      - rewrite set_node_other by exact Hne. destruct (HDL k0 Hk0) as [E0|Hin0]; [left; exact E0|right; apply in_or_app; left; exact Hin0]. }
    assert (Hinput : forall k i, s' = absorb s k (node_input (cfg k) (g_node s k) i) ->
              n_dur (g_node s' k0) = durable_default \/ In (k0, n_dur (g_node s' k0)) (g_plog s')).
    { intros k i Es'. apply (Hgen k (fst (node_input (cfg k) (g_node s k) i)) (snd (node_input (cfg k) (g_node s k) i))).
      - rewrite Es'. destruct (node_input (cfg k) (g_node s k) i); reflexivity.
      - intros _. destruct (input_parts (cfg k) (g_node s k) i) as (_ & Ed & _). rewrite Ed.
        destruct (last_persist_cases (snd (node_input (cfg k) (g_node s k) i)) (n_dur (g_node s k))) as [E|H]; [left; exact E|right; exact H]. }
    destruct Hs as [s k m Hk Hal Hinm|s k Hk Hal|s k i j applied x Hk Hal Hci Hcr|s k Hk
                   |s k n0 h0 q Hk Hal Hvq Hkn Hn Hh|s k p j Hk Hal Hnt|s m Ha].
    - apply (Hinput k (IMsg m)). reflexivity.
    - apply (Hinput k ITimer). reflexivity.
    - destruct (crash_parts (cfg k) (g_node s k) i j applied x Hcr) as (pre & d' & nx' & Hpre & Ed' & Ef & Es).
      apply (Hgen k (fst x) (snd x)); [destruct x; reflexivity|]. intros _.
      destruct (boot_parts (cfg k) d' (r_store_first (n_live (g_node s k))) nx' eq_refl) as (Ed & _).
      rewrite Ef, Es, Ed.
      destruct (last_persist_cases (snd (node_boot (cfg k) d' (r_store_first (n_live (g_node s k))) nx')) d') as [E|H].
      + rewrite E. rewrite Ed'. destruct (last_persist_cases pre (n_dur (g_node s k))) as [E2|H2]; [left; exact E2|].
        right. apply in_or_app. left. exact H2.
      + right. apply in_or_app. right. exact H.
    - apply (Hgen k (fst (node_restart (cfg k) (g_node s k))) (snd (node_restart (cfg k) (g_node s k)))).
      + destruct (node_restart (cfg k) (g_node s k)); reflexivity.
      + intros _. unfold node_restart.
        destruct (boot_parts (cfg k) (n_dur (g_node s k)) (r_store_first (n_live (g_node s k))) (r_store_next (n_live (g_node s k))) eq_refl) as (Ed & _).
        rewrite Ed. destruct (last_persist_cases (snd (node_boot (cfg k) (n_dur (g_node s k)) (r_store_first (n_live (g_node s k))) (r_store_next (n_live (g_node s k))))) (n_dur (g_node s k))) as [E|H]; [left; exact E|right; exact H].
    - apply (Hinput k (ISync n0 h0)). reflexivity.
    - exact (HDL k0 Hk0).
    - exact (HDL k0 Hk0).
  Qed.

  Lemma init_inv : DL (ginit P) /\ PA (ginit P).
  Proof.
    split.
    - intros k Hk. cbn [ginit g_node g_plog]. unfold boot0.
      destruct (boot_parts (cfg k) durable_default (p_first P) (p_first P) eq_refl) as (Ed & _). rewrite Ed.
      destruct (last_persist_cases (snd (node_boot (cfg k) durable_default (p_first P) (p_first P))) durable_default) as [E|H]; [left; exact E|].
      right. apply in_flat_map. exists k. split; [apply hon_in_honest_keys; exact Hk|]. apply persists_of_in. exact H.
    - intros k0 d Hk0 Hin Hv. exfalso. cbn [ginit g_plog] in Hin. apply in_flat_map in Hin. destruct Hin as (k & _ & Hin).
      apply in_persists_of in Hin. destruct Hin as [-> Hin]. unfold boot0 in Hin.
      destruct (boot_parts (cfg k) durable_default (p_first P) (p_first P) eq_refl) as (_ & Hall).
      rewrite (Hall d Hin) in Hv. destruct Hv as (c & Hc & _). cbn [backup d_high_vote] in Hc. rewrite boot_hv in Hc.
      apply rstart_hv in Hc. discriminate Hc.
  Qed.

  Theorem preach_PA s : preach P s -> DL s /\ PA s.
  Proof.
    induction 1 as [|s s' Hr [IH1 IH2] Hs]; [exact init_inv|].
    split; [exact (DL_step s s' Hs IH1)|exact (PA_step s s' Hr Hs IH1 IH2)].
  Qed.
End Avail.

(* ================================================================== *)
(* 8. no commit certificate at or above a block number yet             *)
(* ================================================================== *)
Section Light.
  Variable P : params.
  Hypothesis HP : params_ok P.
  Notation hon := (honestb P).
  Notation cfg := (pcfg P).
  Notation W := (cweights (p_C P)).
  Notation C := (p_C P).

  (* validator i is Byzantine or has a commit vote for a block number >= n on the network *)
  Definition voted_bit (soup : list sgmsg) (n : Z) (i : nat) : bool :=
    abyz P i ||
    existsb (fun m => (m_key m =? key_of P i) && m_sig_ok m &&
                      match m_msg m with MCommit c => n <=? hnum (cprop c) | _ => false end) soup.
  Definition voted_bits (soup : list sgmsg) (n : Z) : list bool :=
    map (voted_bit soup n) (seq 0 (length C)).

  Lemma light_no_cqc soup n : weight W (voted_bits soup n) < quorum C ->
    forall q, gq (cfg 0) hon soup q -> hnum (cprop (qmsg q)) < n.
  Proof.
    intros Hlight q [Hv Hk]. cbn [cg ce cC pcfg] in Hv.
    destruct (Z.lt_ge_cases (hnum (cprop (qmsg q))) n) as [Hlt|Hge]; [exact Hlt|exfalso].
    pose proof Hv as Hv0. apply cqc_verify_iff in Hv. destruct Hv as (_ & Hl & Hq & _).
    assert (Hle : weight W (qsigners q) <= weight W (voted_bits soup n)).
    { apply (ProtocolLiveTimeoutLock.weight_incl P HP); [exact Hl|unfold voted_bits; rewrite map_length, seq_length; reflexivity|].
      intros i Hi.
      assert (Hlt : (i < length C)%nat) by (rewrite <- Hl; apply nth_error_Some; congruence).
      unfold voted_bits. rewrite (map_nth_error _ i (seq 0 (length C)) (ProtocolLiveTimeoutLock.nth_error_seq0 _ 0%nat i Hlt)). f_equal.
      cbn [Nat.add]. unfold voted_bit. destruct (abyz P i) eqn:Eb; [reflexivity|]. cbn [orb].
      assert (Hh : SafetyAbs.honest W (abyz P) i).
      { split; [|exact Eb]. unfold SafetyAbs.member. rewrite (W_length P). exact Hlt. }
      pose proof (signer_sig P q i Hv0 Hi) as Hsig.
      pose proof (Hk _ _ Hsig (honest_key P i Hh)) as Hsent.
      apply existsb_exists. eexists. split; [exact Hsent|]. cbn [m_key m_sig_ok m_msg].
      rewrite Z.eqb_refl. cbn [andb]. apply Z.leb_le. exact Hge. }
    lia.
  Qed.
End Light.

(* ================================================================== *)
(* 9. everything an honest node has put on the network verifies        *)
(* ================================================================== *)
Module RJ := ReplicaJustified.
Section SendsVerify.
  Variable P : params.
  Notation hon := (honestb P).
  Notation cfg := (pcfg P).

  Definition vmsg (x : cmsg) : Prop :=
    match x with
    | MCommit c => commit_verify (p_g P) (p_e P) c = Ok tt
    | MTimeout t => timeout_verify (p_g P) (p_e P) (p_C P) t = Ok tt
    | MNewView j | MProposal _ j => justification_verify (p_g P) (p_e P) (p_C P) j = Ok tt
    end.
  Definition SOK (s : gstate) : Prop :=
    forall m, In m (g_soup s) -> m_sig_ok m = true -> hon (m_key m) = true -> vmsg (m_msg m).

  Lemma sends_vmsg k es m : Forall (RJ.eff_ok (cfg k)) es -> In m (sends_of k es) -> vmsg (m_msg m).
  Proof.
    intros Hall Hin. apply ProtocolRefinesInv.in_sends_of in Hin. destruct Hin as (x & Hx & ->). cbn [m_msg].
    rewrite Forall_forall in Hall. specialize (Hall _ Hx). cbn [RJ.eff_ok] in Hall. destruct x; exact Hall.
  Qed.

  Lemma boot_effs_ok k d f nx : RJ.durable_ok (cfg k) d -> Forall (RJ.eff_ok (cfg k)) (snd (node_boot (cfg k) d f nx)).
  Proof.
    intros Hd. destruct (RJ.restart_inv (cfg k) d f nx Hd) as [_ [_ Hg]]. unfold node_boot.
    unfold RJ.effs_of in Hg. destruct (rprologue (cfg k) (rstart (cfg k) d f nx)) as [[s1 es] r]. cbn [fst snd] in Hg.
    destruct (apply_effects d nx es). exact Hg.
  Qed.

  Theorem preach_SOK s : preach P s -> SOK s.
  Proof.
    induction 1 as [|s s' Hr IH Hs].
    - intros m Hin _ _. cbn [ginit g_soup] in Hin. apply in_flat_map in Hin. destruct Hin as (k & _ & Hin).
      unfold boot0 in Hin. exact (sends_vmsg k _ m (boot_effs_ok k _ _ _ (RJ.durable_default_ok (cfg k))) Hin).
    - assert (Hnode : forall k, RJ.durable_ok (cfg k) (n_dur (g_node s k)) /\
                (n_alive (g_node s k) = true -> RC.cache_inv (cfg k) (n_live (g_node s k)) /\ RJ.certs_ok (cfg k) (n_live (g_node s k)))).
      { intros k. destruct (preach_LI P s Hr k) as [HD HI]. split; [apply HD|].
        intros Hal. destruct (HI Hal) as (Hc & Hce & _). split; [exact Hc|exact Hce]. }
      assert (Hinput : forall k i, n_alive (g_node s k) = true ->
                Forall (RJ.eff_ok (cfg k)) (snd (node_input (cfg k) (g_node s k) i))).
      { intros k i Hal. destruct (Hnode k) as [_ HI]. destruct (HI Hal) as [Hc Hce].
        destruct (RJ.good_rstep_t (cfg k) _ i Hc Hce) as [_ Hg]. unfold node_input, RJ.effs_of in *.
        destruct (rstep_t (cfg k) (n_live (g_node s k)) i) as [[s1 es] r]. destruct (apply_effects _ _ es). exact Hg. }
      intros m Hin Hsg Hh.
      destruct Hs as [s k m0 Hk Hal Hinm|s k Hk Hal|s k i j applied x Hk Hal Hci Hcr|s k Hk
                     |s k n0 h0 q Hk Hal Hvq Hkn Hn Hh0|s k p j Hk Hal Hnt|s m0 Ha]; cbn [absorb add_msg g_soup] in Hin;
        apply in_app_or in Hin; (destruct Hin as [Hin|Hin]; [exact (IH m Hin Hsg Hh)|]).
      + exact (sends_vmsg k _ m (Hinput k _ Hal) Hin).
      + exact (sends_vmsg k _ m (Hinput k _ Hal) Hin).
      + destruct (crash_parts (cfg k) (g_node s k) i j applied x Hcr) as (pre & d' & nx' & Hpre & Ed' & Ef & Es).
        destruct (Hnode k) as [HD HI]. destruct (HI Hal) as [Hc Hce].
        destruct (RJ.good_rstep_t (cfg k) _ i Hc Hce) as [_ Hg]. unfold RJ.effs_of in Hg.
        assert (Hpre_ok : Forall (RJ.eff_ok (cfg k)) pre).
        { rewrite Forall_forall in *. intros e He. apply Hg. apply Hpre. exact He. }
        apply (sends_vmsg k (snd x) m); [|exact Hin]. rewrite Es. apply Forall_app. split; [exact Hpre_ok|].
        apply boot_effs_ok. rewrite Ed'. apply RJ.last_persist_ok; assumption.
      + apply (sends_vmsg k (snd (node_restart (cfg k) (g_node s k))) m); [|exact Hin]. unfold node_restart. apply boot_effs_ok. apply (Hnode k).
      + exact (sends_vmsg k _ m (Hinput k _ Hal) Hin).
      + destruct Hin as [<-|[]]. cbn [m_msg vmsg]. exact (preach_notify_ok P s Hr k j Hnt).
      + destruct Hin as [<-|[]]. destruct Ha as [Hadv _]. rewrite (Hadv Hsg) in Hh. discriminate.
  Qed.
End SendsVerify.

(* ================================================================== *)
(* 10. an honest node votes only for a verifying proposal on the network *)
(* ================================================================== *)
Definition NCS {A} (x : hres A) : Prop := forall c, ~ In (ESend (MCommit c)) (snd (fst x)).

Lemma NCS_nil {A} s (r : outcome rerr A) : NCS (s, [], r).
Proof. intros c []. Qed.
Lemma NCS_bind {A B} (x : hres A) (f : rstate -> A -> hres B) :
  NCS x -> (forall s1 a, NCS (f s1 a)) -> NCS (hbind x f).
Proof.
  destruct x as [[s1 es1] r1]. unfold NCS; cbn [fst snd]. intros H Hf. unfold hbind.
  destruct r1 as [a|e|p]; cbn [fst snd]; try exact H.
  specialize (Hf s1 a). destruct (f s1 a) as [[s2 es2] r2]. cbn [fst snd] in *.
  intros c Hin. apply in_app_or in Hin. destruct Hin as [Hin|Hin]; [exact (H c Hin)|exact (Hf c Hin)].
Qed.
Lemma save_block_NCS cfg s q : NCS (save_block cfg s q).
Proof.
  unfold save_block. destruct (cache_has _ _ _); [|apply NCS_nil]. destruct (_ <? _); [apply NCS_nil|].
  destruct (_ =? _); [|apply NCS_nil]. intros c [H|[]]; discriminate.
Qed.
Lemma process_commit_qc_NCS cfg s q : NCS (process_commit_qc cfg s q).
Proof.
  unfold process_commit_qc.
  match goal with |- NCS (if ?c then _ else _) => destruct c end; [apply save_block_NCS|apply NCS_nil].
Qed.
Lemma process_timeout_qc_NCS cfg s t : NCS (process_timeout_qc cfg s t).
Proof.
  unfold process_timeout_qc. apply NCS_bind; [destruct (high_qc t); [apply process_commit_qc_NCS|apply NCS_nil]|].
  intros. apply NCS_nil.
Qed.
Lemma process_justification_NCS cfg s j : NCS (process_justification cfg s j).
Proof. destruct j; [apply process_commit_qc_NCS|apply process_timeout_qc_NCS]. Qed.
Lemma start_new_view_NCS cfg s v : NCS (start_new_view cfg s v).
Proof.
  unfold start_new_view. destruct (get_justification _) as [j|e|p]; try apply NCS_nil.
  unfold hbind, hemit, backup_state. destruct (r_high_cqc _); cbn [fst snd];
    intros c0 [H|[H|[H|[]]]]; discriminate.
Qed.
Lemma start_timeout_NCS cfg s : NCS (start_timeout cfg s).
Proof.
  unfold start_timeout, hbind, backup_state, hemit. intros c.
  destruct (r_view (set_phase s PTimeout) =? 0); cbn [fst snd hret].
  - intros [H|[H|[]]]; discriminate.
  - destruct (get_justification _); cbn [fst snd]; intros H;
      repeat (destruct H as [H|H]; [discriminate|]); destruct H.
Qed.
Ltac ncs_match :=
  match goal with
  | |- NCS (if ?c then _ else _) => destruct c
  | |- NCS (match ?x with _ => _ end) => destruct x
  end; try (unfold hfail, hpanic, hret; apply NCS_nil).
Lemma tail_NCS cfg s v : NCS (hbind (lift s (num_next (cchk cfg) v)) (fun s nv => start_new_view cfg s nv)).
Proof. apply NCS_bind; [destruct (num_next _ _); apply NCS_nil|]. intros. apply start_new_view_NCS. Qed.
Lemma rprologue_NCS cfg s : NCS (rprologue cfg s).
Proof. unfold rprologue. destruct (_ =? 0); [apply start_timeout_NCS|apply NCS_nil]. Qed.

(* a commit vote is sent only on accepting a proposal, for the view of its verifying justification *)
Lemma rstep_t_commit_send cfg s i c : In (ESend (MCommit c)) (snd (fst (rstep_t cfg s i))) ->
  exists m p j, i = IMsg m /\ m_msg m = MProposal p j /\
    justification_verify (cg cfg) (ce cfg) (cC cfg) j = Ok tt /\
    justification_view (E := unit) (cchk cfg) j = Ok (cview c).
Proof.
  assert (Hother : forall x : hres unit, NCS x ->
            In (ESend (MCommit c)) (snd (fst (let '(s', es, r) := x in
               match r with
               | Err RMissingPreviousPayload => let '(s2, es2, r2) := start_timeout cfg s' in (s2, es ++ es2, match r2 with Ok _ => r | _ => r2 end)
               | _ => (s', es, r)
               end))) -> False).
  { intros [[s' es] r] Hn. unfold NCS in Hn; cbn [fst snd] in Hn.
    destruct r as [a|e|p]; cbn [fst snd]; try apply Hn. destruct e; cbn [fst snd]; try apply Hn.
    pose proof (start_timeout_NCS cfg s') as H2. destruct (start_timeout cfg s') as [[s2 es2] r2].
    unfold NCS in H2; cbn [fst snd] in *. intros Hin. apply in_app_or in Hin. destruct Hin as [Hin|Hin]; [exact (Hn c Hin)|exact (H2 c Hin)]. }
  unfold rstep_t. destruct i as [m| |n0 h0]; cbn [rstep].
  - destruct (m_msg m) as [p j|c0|t|j] eqn:Em.
    + destruct (on_proposal_cases cfg s (m_key m) (m_sig_ok m) p j)
        as [(r & E & _)|(mv & n1 & oh & s1 & hash & Hpre & _ & _ & _ & E)].
      * rewrite E. intros Hin. exfalso. apply (Hother (s, [], r)); [apply NCS_nil|exact Hin].
      * rewrite E. set (vote := {| cview := mv; cprop := {| hnum := n1; hpay := hash |} |}).
        set (s2 := set_high_vote (set_phase (set_view s1 (vnum mv)) PCommit) (Some vote)).
        pose proof (vote_tail_res cfg s2 j vote) as Hres. cbv zeta in Hres.
        pose proof (process_justification_NCS cfg s2 j) as Hn.
        assert (Heffs : forall c', In (ESend (MCommit c')) (snd (fst (hbind (process_justification cfg s2 j)
                   (fun s _ => hbind (backup_state cfg s) (fun s _ => hemit s (ESend (MCommit vote))))))) -> c' = vote).
        { intros c'. destruct (process_justification cfg s2 j) as [[s3 es3] r3]. unfold NCS in Hn; cbn [fst snd] in Hn.
          unfold hbind, backup_state, hemit. destruct r3 as [a|e|pp]; cbn [fst snd].
          - intros Hin. apply in_app_or in Hin. destruct Hin as [Hin|[Hin|[Hin|[]]]]; [destruct (Hn c' Hin)|discriminate|inversion Hin; reflexivity].
          - intros Hin. destruct (Hn c' Hin).
          - intros Hin. destruct (Hn c' Hin). }
        destruct (hbind (process_justification cfg s2 j) _) as [[s3 es3] r3]. cbn [fst snd] in *.
        intros Hin.
        assert (Hin' : In (ESend (MCommit c)) es3) by (destruct Hres as [-> | ->]; exact Hin).
        rewrite (Heffs c Hin'). exists m, p, j. split; [reflexivity|]. split; [exact Em|].
        destruct Hpre as (Ejv & _ & _ & _ & Ever). split; [exact Ever|exact Ejv].
    + intros Hin. exfalso. apply (Hother (on_commit cfg s (m_key m) (m_sig_ok m) c0)); [|exact Hin].
      unfold on_commit. ncs_match. cbv zeta. repeat ncs_match.
      apply NCS_bind; [apply process_commit_qc_NCS|]. intros. apply tail_NCS.
    + intros Hin. exfalso. apply (Hother (on_timeout cfg s (m_key m) (m_sig_ok m) t)); [|exact Hin].
      unfold on_timeout. ncs_match. cbv zeta. repeat ncs_match.
      apply NCS_bind; [apply process_timeout_qc_NCS|]. intros. apply tail_NCS.
    + intros Hin. exfalso. apply (Hother (on_new_view cfg s (m_key m) (m_sig_ok m) j)); [|exact Hin].
      unfold on_new_view. apply NCS_bind; [destruct (justification_view _ _); apply NCS_nil|]. intros s1 mv. cbv zeta.
      do 4 ncs_match. apply NCS_bind; [apply process_justification_NCS|]. intros s2 _.
      ncs_match. apply start_new_view_NCS.
  - intros Hin. exfalso. apply (Hother (start_timeout cfg s)); [apply start_timeout_NCS|exact Hin].
  - intros Hin. exfalso. apply (Hother (if r_store_next s =? n0 then (set_store_next s (n0 + 1), [EQueueBlock n0 h0], Ok tt) else hret s tt)); [|exact Hin].
    destruct (_ =? _); [|apply NCS_nil]. intros c0 [H|[]]; discriminate.
Qed.

Section VoteProvenance.
  Variable P : params.
  Notation hon := (honestb P).
  Notation cfg := (pcfg P).

  Definition proposed (soup : list sgmsg) (mv : view) : Prop :=
    exists m p j, In m soup /\ m_msg m = MProposal p j /\
      justification_view (E := unit) true j = Ok mv /\
      justification_verify (p_g P) (p_e P) (p_C P) j = Ok tt.
  Definition VP (s : gstate) : Prop :=
    forall m c, In m (g_soup s) -> m_sig_ok m = true -> hon (m_key m) = true -> m_msg m = MCommit c ->
      proposed (g_soup s) (cview c).

  Lemma proposed_mono soup soup' mv : incl soup soup' -> proposed soup mv -> proposed soup' mv.
  Proof. intros Hi (m & p & j & Hin & H). exists m, p, j. split; [apply Hi; exact Hin|exact H]. Qed.

  Lemma boot_no_commit k d f nx c : ~ In (ESend (MCommit c)) (snd (node_boot (cfg k) d f nx)).
  Proof.
    unfold node_boot. pose proof (rprologue_NCS (cfg k) (rstart (cfg k) d f nx) c) as H.
    destruct (rprologue (cfg k) (rstart (cfg k) d f nx)) as [[s1 es] r]. destruct (apply_effects d nx es). exact H.
  Qed.

  Theorem preach_VP s : preach P s -> VP s.
  Proof.
    induction 1 as [|s s' Hr IH Hs].
    - intros m c Hin _ _ Em. exfalso. cbn [ginit g_soup] in Hin. apply in_flat_map in Hin. destruct Hin as (k & _ & Hin).
      apply ProtocolRefinesInv.in_sends_of in Hin. destruct Hin as (x & Hx & ->). cbn [m_msg] in Em. subst x.
      unfold boot0 in Hx. exact (boot_no_commit k _ _ _ c Hx).
    - destruct (pstep_incl P s s' Hs) as [Hsoup _].
      assert (Hfull : forall k i c, (forall m, i = IMsg m -> In m (g_soup s)) ->
                In (ESend (MCommit c)) (snd (fst (rstep_t (cfg k) (n_live (g_node s k)) i))) -> proposed (g_soup s) (cview c)).
      { intros k i c Hi Hin. destruct (rstep_t_commit_send (cfg k) _ i c Hin) as (m & p & j & -> & Em & Hver & Hjv).
        exists m, p, j. split; [exact (Hi m eq_refl)|]. split; [exact Em|]. split; [exact Hjv|exact Hver]. }
      assert (Hinput : forall k i c, (forall m, i = IMsg m -> In m (g_soup s)) ->
                In (ESend (MCommit c)) (snd (node_input (cfg k) (g_node s k) i)) -> proposed (g_soup s) (cview c)).
      { intros k i c Hi Hin. apply (Hfull k i c Hi). unfold node_input in Hin.
        destruct (rstep_t (cfg k) (n_live (g_node s k)) i) as [[s1 es] r]. destruct (apply_effects _ _ es). exact Hin. }
      intros m c Hin Hsg Hh Em. apply (proposed_mono (g_soup s) _ _ Hsoup).
      destruct Hs as [s k m0 Hk Hal Hinm|s k Hk Hal|s k i j applied x Hk Hal Hci Hcr|s k Hk
                     |s k n0 h0 q Hk Hal Hvq Hkn Hn Hh0|s k p j Hk Hal Hnt|s m0 Ha]; cbn [absorb add_msg g_soup] in Hin;
        apply in_app_or in Hin; (destruct Hin as [Hin|Hin]; [exact (IH m c Hin Hsg Hh Em)|]).
      + apply ProtocolRefinesInv.in_sends_of in Hin. destruct Hin as (y & Hy & ->). cbn [m_msg] in Em. subst y.
        apply (Hinput k (IMsg m0) c); [intros m' E'; inversion E'; subst; exact Hinm|exact Hy].
      + apply ProtocolRefinesInv.in_sends_of in Hin. destruct Hin as (y & Hy & ->). cbn [m_msg] in Em. subst y.
        apply (Hinput k ITimer c); [intros m' E'; discriminate|exact Hy].
      + apply ProtocolRefinesInv.in_sends_of in Hin. destruct Hin as (y & Hy & ->). cbn [m_msg] in Em. subst y.
        destruct (crash_parts (cfg k) (g_node s k) i j applied x Hcr) as (pre & d' & nx' & Hpre & _ & _ & Es).
        rewrite Es in Hy. apply in_app_or in Hy. destruct Hy as [Hy|Hy].
        * apply (Hfull k i c); [intros m' ->; exact Hci|apply Hpre; exact Hy].
        * destruct (boot_no_commit k _ _ _ c Hy).
      + apply ProtocolRefinesInv.in_sends_of in Hin. destruct Hin as (y & Hy & ->). cbn [m_msg] in Em. subst y.
        unfold node_restart in Hy. destruct (boot_no_commit k _ _ _ c Hy).
      + apply ProtocolRefinesInv.in_sends_of in Hin. destruct Hin as (y & Hy & ->). cbn [m_msg] in Em. subst y.
        apply (Hinput k (ISync n0 h0) c); [intros m' E'; discriminate|exact Hy].
      + destruct Hin as [<-|[]]. discriminate Em.
      + destruct Hin as [<-|[]]. destruct Ha as [Hadv _]. rewrite (Hadv Hsg) in Hh. discriminate.
  Qed.
End VoteProvenance.
