(* C03 — no vote equivocation, even across crashes.

   Part 1: the shape of the effect list of one handler invocation ([rstep], [rstep_t],
           [rprologue]): a vote is sent only after the state recording it was persisted.
   Part 2: the ghost log of everything the replica ever sent, over runs with crashes at
           persist points (write applied or not) and restarts; an invariant relating the
           log, the durable state and the live state.
   Part 3: the consequences: at most one commit vote per view, no commit vote at or below
           a view already timed out, views of votes never decrease.

   Positions are ordered lexicographically by (view, phase rank Prepare < Commit < Timeout);
   they are encoded as the integer 3 * view + rank. *)
From Coq Require Import ZArith List Bool Lia.
From EC Require Import Lib.Outcome Lib.U64 Lib.ListW Lib.Obs Model.Msgs Model.Replica Model.ReplicaRun.
Import ListNotations.
Open Scope Z_scope.

(* ================================================================== *)
(* Part 1: one handler invocation                                      *)
(* ================================================================== *)

Definition rank (p : phase) : Z := match p with Prepare => 0 | PCommit => 1 | PTimeout => 2 end.
Definition spos (s : rstate) : Z := 3 * r_view s + rank (r_phase s).
Definition dpos (d : durable) : Z := 3 * d_view d + rank (d_phase d).
(* the durable state as StateMachine::start reads it: another epoch's state is ignored *)
Definition eff_d (cfg : config) (d : durable) : durable :=
  if d_epoch d =? ce cfg then d else durable_default.

(* [core_eq s s']: s' has the view, phase and high vote of s *)
Definition core_eq (s s' : rstate) : Prop :=
  r_view s' = r_view s /\ r_phase s' = r_phase s /\ r_high_vote s' = r_high_vote s.

Definition quiet_eff (e : effect) : Prop :=
  match e with EQueueBlock _ _ | ENotifyProposer _ => True | _ => False end.
Definition is_send (e : effect) : Prop := match e with ESend _ => True | _ => False end.
(* outcomes after which the replica task stops (run_op sets rs_dead) *)
Definition deadr {A} (r : outcome rerr A) : Prop :=
  match r with Panic _ | Err RBlocked | Err RInternal => True | _ => False end.
Definition Rk {A} (r : outcome rerr A) : Prop := is_ok r = true \/ deadr r.
Definition Rany {A} (r : outcome rerr A) : Prop := True.

(* what may follow a persist of the state s' that is not a commit-vote persist *)
Definition send_ok (s' : rstate) (e : effect) : Prop :=
  match e with
  | ESend (MCommit _) => False
  | ESend (MTimeout t) =>
      r_view s' = vnum (tview t) /\ r_phase s' = PTimeout /\ r_high_vote s' = thv t
  | ESend _ => True
  | _ => False
  end.

(* The three shapes of a handler invocation from state s:
   (0) nothing persisted, nothing sent; the replica stops or view/phase/high vote are unchanged;
   (1) [.. persist s'; send (commit vote c)] with s' = (view c, Commit, Some c) strictly above s;
   (2) [.. persist s'; sends..] where the sends contain no commit vote and only timeout votes
       of s' = (view, Timeout, high vote); s <= s' (when overflow checks are on). *)
Definition shape {A} (R : outcome rerr A -> Prop) (mono : bool) (cfg : config) (s : rstate)
    (x : hres A) : Prop :=
  let '(s', es, r) := x in
  (Forall quiet_eff es /\ (deadr r \/ core_eq s s'))
  \/ (exists qs c, es = qs ++ [EPersist (backup cfg s'); ESend (MCommit c)] /\ Forall quiet_eff qs /\
        spos s < spos s' /\ r_view s' = vnum (cview c) /\ r_phase s' = PCommit /\
        r_high_vote s' = Some c /\ R r)
  \/ (exists qs rest, es = qs ++ EPersist (backup cfg s') :: rest /\ Forall quiet_eff qs /\
        (mono = true -> spos s <= spos s') /\ Forall (send_ok s') rest /\ R r).

Definition hq {A} (s0 : rstate) (x : hres A) : Prop :=
  core_eq s0 (fst (fst x)) /\ Forall quiet_eff (snd (fst x)).

Lemma core_eq_refl s : core_eq s s.
Proof. unfold core_eq; auto. Qed.
Lemma core_eq_trans a b c : core_eq a b -> core_eq b c -> core_eq a c.
Proof. unfold core_eq; intuition congruence. Qed.
Lemma core_eq_spos a b : core_eq a b -> spos b = spos a.
Proof. unfold core_eq, spos. intros (-> & -> & _). reflexivity. Qed.

Ltac ce :=
  unfold core_eq in *;
  cbn [r_view r_phase r_high_vote set_view set_phase set_high_vote set_high_cqc set_high_tqc
       set_cache set_commit_caches set_timeout_caches set_store_next] in *;
  intuition congruence.

Lemma shape_core {A} (R : outcome rerr A -> Prop) mono cfg s0 s x :
  core_eq s0 s -> shape R mono cfg s x -> shape R mono cfg s0 x.
Proof.
  intros Hc. destruct x as [[s' es] r]. unfold shape.
  rewrite (core_eq_spos _ _ Hc).
  intros [(Hq & Hd)|[H|H]]; [left|right; left; exact H|right; right; exact H].
  split; [exact Hq|]. destruct Hd as [Hd|Hd]; [left; exact Hd|right].
  eapply core_eq_trans; eassumption.
Qed.

Lemma shape_weaken {A} (R R' : outcome rerr A -> Prop) mono cfg s x :
  (forall r, R r -> R' r) -> shape R mono cfg s x -> shape R' mono cfg s x.
Proof.
  intros HR. destruct x as [[s' es] r]. unfold shape.
  intros [H|[(qs & c & H)|(qs & rest & H)]].
  - left; exact H.
  - right; left. exists qs, c. intuition.
  - right; right. exists qs, rest. intuition.
Qed.

Lemma shape_prefix {A} (R : outcome rerr A -> Prop) mono cfg s s' qs es r :
  Forall quiet_eff qs -> shape R mono cfg s (s', es, r) -> shape R mono cfg s (s', qs ++ es, r).
Proof.
  intros Hq. unfold shape.
  intros [(Hq2 & Hd)|[(qs2 & c & -> & H)|(qs2 & rest & -> & H)]].
  - left. split; [apply Forall_app; split; assumption|exact Hd].
  - right; left. exists (qs ++ qs2), c. rewrite app_assoc. split; [reflexivity|].
    destruct H as (H1 & H2). split; [apply Forall_app; split; assumption|exact H2].
  - right; right. exists (qs ++ qs2), rest. rewrite app_assoc. split; [reflexivity|].
    destruct H as (H1 & H2). split; [apply Forall_app; split; assumption|exact H2].
Qed.

Lemma hbind_q {A B} (R : outcome rerr B -> Prop) mono cfg s0 (x : hres A) (f : rstate -> A -> hres B) :
  hq s0 x ->
  (forall s1 a, core_eq s0 s1 -> snd x = Ok a -> shape R mono cfg s0 (f s1 a)) ->
  shape R mono cfg s0 (hbind x f).
Proof.
  destruct x as [[s1 es1] r1]. unfold hq; cbn [fst snd]. intros (Hc & Hq) Hf. unfold hbind.
  destruct r1 as [a|e|p].
  - specialize (Hf s1 a Hc eq_refl). destruct (f s1 a) as [[s2 es2] r2].
    apply shape_prefix; assumption.
  - left. split; [assumption|right; assumption].
  - left. split; [assumption|left; exact I].
Qed.

Lemma hq_ret {A} s0 s (a : A) : core_eq s0 s -> hq s0 (hret s a).
Proof. intros H; split; [exact H|constructor]. Qed.
Lemma hq_fail {A} s0 s e : core_eq s0 s -> hq s0 (@hfail A s e).
Proof. intros H; split; [exact H|constructor]. Qed.
Lemma hq_panic {A} s0 s p : core_eq s0 s -> hq s0 (@hpanic A s p).
Proof. intros H; split; [exact H|constructor]. Qed.
Lemma hq_lift {A} s0 s (y : outcome unit A) : core_eq s0 s -> hq s0 (lift s y).
Proof. intros H. destruct y; split; try exact H; constructor. Qed.

Lemma hq_bind {A B} s0 (x : hres A) (f : rstate -> A -> hres B) :
  hq s0 x -> (forall s1 a, core_eq s0 s1 -> hq s0 (f s1 a)) -> hq s0 (hbind x f).
Proof.
  destruct x as [[s1 es1] r1]. unfold hq; cbn [fst snd]. intros (Hc & Hq) Hf. unfold hbind.
  destruct r1 as [a|e|p]; cbn [fst snd]; try (split; assumption).
  specialize (Hf s1 a Hc). destruct (f s1 a) as [[s2 es2] r2]. cbn [fst snd] in *.
  destruct Hf as (H1 & H2). split; [exact H1|apply Forall_app; split; assumption].
Qed.

Lemma hq_save_block cfg s0 s q : core_eq s0 s -> hq s0 (save_block cfg s q).
Proof.
  intros H. unfold save_block.
  destruct (cache_has _ _ _); [|apply hq_ret; exact H].
  destruct (_ <? _); [split; [exact H|constructor]|].
  destruct (_ =? _); [|apply hq_ret; exact H].
  split; cbn [fst snd]; [ce|repeat constructor].
Qed.

Lemma hq_process_commit_qc cfg s0 s q : core_eq s0 s -> hq s0 (process_commit_qc cfg s q).
Proof.
  intros H. unfold process_commit_qc.
  match goal with |- hq _ (if ?c then _ else _) => destruct c end; [|apply hq_ret; exact H].
  apply hq_save_block. ce.
Qed.

Lemma hq_process_timeout_qc cfg s0 s t : core_eq s0 s -> hq s0 (process_timeout_qc cfg s t).
Proof.
  intros H. unfold process_timeout_qc. apply hq_bind.
  - destruct (high_qc t); [apply hq_process_commit_qc|apply hq_ret]; exact H.
  - intros s1 _ H1. apply hq_ret.
    match goal with |- core_eq _ (if ?c then _ else _) => destruct c end; [ce|exact H1].
Qed.

Lemma hq_process_justification cfg s0 s j : core_eq s0 s -> hq s0 (process_justification cfg s j).
Proof.
  intros H. destruct j; [apply hq_process_commit_qc|apply hq_process_timeout_qc]; exact H.
Qed.

(* these blocks fail only by blocking on the block store (the replica task then stops) *)
Definition okb {A} (x : hres A) : Prop :=
  match snd x with Ok _ => True | Err RBlocked => True | _ => False end.

Lemma okb_save_block cfg s q : okb (save_block cfg s q).
Proof.
  unfold save_block, okb. destruct (cache_has _ _ _); [|exact I].
  destruct (_ <? _); [exact I|]. destruct (_ =? _); exact I.
Qed.
Lemma okb_process_commit_qc cfg s q : okb (process_commit_qc cfg s q).
Proof.
  unfold process_commit_qc.
  match goal with |- okb (if ?c then _ else _) => destruct c end; [apply okb_save_block|exact I].
Qed.
Lemma okb_process_timeout_qc cfg s t : okb (process_timeout_qc cfg s t).
Proof.
  unfold process_timeout_qc.
  assert (H : okb (match high_qc t with Some q => process_commit_qc cfg s q | None => hret s tt end)).
  { destruct (high_qc t); [apply okb_process_commit_qc|exact I]. }
  destruct (match high_qc t with Some q => process_commit_qc cfg s q | None => hret s tt end)
    as [[s1 es1] r1].
  unfold okb in *; cbn [snd] in *. unfold hbind. destruct r1 as [a|e|p]; cbn [snd]; try exact H; try exact I.
Qed.
Lemma okb_process_justification cfg s j : okb (process_justification cfg s j).
Proof. destruct j; [apply okb_process_commit_qc|apply okb_process_timeout_qc]. Qed.

Lemma get_justification_no_err s e : get_justification s <> Err e.
Proof.
  unfold get_justification.
  destruct (r_high_cqc s), (r_high_tqc s); try discriminate;
    match goal with |- (if ?c then _ else _) <> _ => destruct c end; discriminate.
Qed.

Lemma rank_bounds p : 0 <= rank p <= 2.
Proof. destruct p; cbn; lia. Qed.

(* ---------- start_new_view ---------- *)
Lemma start_new_view_shape mono cfg s0 s v :
  core_eq s0 s -> (mono = true -> r_view s0 < v) ->
  shape Rk mono cfg s0 (start_new_view cfg s v).
Proof.
  intros Hc Hv. unfold start_new_view.
  set (s1 := set_phase (set_view s v) Prepare).
  destruct (get_justification s1) as [j|e|p] eqn:Ej.
  - assert (Hs1 : spos s1 = 3 * v) by (unfold spos, s1; cbn; lia).
    assert (Hgoal : forall s2, spos s2 = 3 * v ->
      shape Rk mono cfg s0 (s2, [ENotifyProposer j] ++ ([EPersist (backup cfg s2)] ++ [ESend (MNewView j)]), @Ok rerr unit tt)).
    { intros s2 H2. right; right. exists [ENotifyProposer j], [ESend (MNewView j)].
      split; [reflexivity|]. split; [repeat constructor|].
      split; [|split; [repeat constructor|left; reflexivity]].
      intros Hm. specialize (Hv Hm). rewrite H2. unfold spos. pose proof (rank_bounds (r_phase s0)). lia. }
    unfold hbind, hemit, backup_state.
    destruct (r_high_cqc s1); apply Hgoal; [|exact Hs1].
    unfold spos in *; cbn in *; lia.
  - exfalso. eapply get_justification_no_err; eassumption.
  - left. split; [constructor|left; exact I].
Qed.

(* ---------- start_timeout ---------- *)
Lemma start_timeout_shape mono cfg s0 s :
  core_eq s0 s -> shape Rk mono cfg s0 (start_timeout cfg s).
Proof.
  intros Hc. apply (shape_core Rk mono cfg s0 s _ Hc). unfold start_timeout.
  set (s1 := set_phase s PTimeout).
  assert (Hpos : spos s <= spos s1).
  { unfold spos, s1; cbn. pose proof (rank_bounds (r_phase s)). lia. }
  set (t := {| tview := {| vgen := cg cfg; vepoch := ce cfg; vnum := r_view s1 |};
               thv := r_high_vote s1; thq := r_high_cqc s1 |}).
  assert (Ht : send_ok s1 (ESend (MTimeout t))).
  { cbn. repeat split; reflexivity. }
  cbv beta iota zeta delta [hbind hemit backup_state hret hpanic hfail].
  destruct (r_view s1 =? 0); cbv beta iota.
  - unfold shape. right; right. exists [], [ESend (MTimeout t)]. split; [reflexivity|].
    split; [constructor|]. split; [intros _; exact Hpos|]. split; [repeat constructor; exact Ht|].
    left; reflexivity.
  - destruct (get_justification s1) as [j|e|p] eqn:Ej; cbv beta iota.
    + unfold shape. right; right. exists [], [ESend (MNewView j); ESend (MTimeout t)]. split; [reflexivity|].
      split; [constructor|]. split; [intros _; exact Hpos|].
      split; [repeat constructor; exact Ht|left; reflexivity].
    + exfalso. eapply get_justification_no_err; eassumption.
    + unfold shape. right; right. exists [], []. split; [reflexivity|].
      split; [constructor|]. split; [intros _; exact Hpos|]. split; [constructor|right; exact I].
Qed.

(* ---------- on_proposal ---------- *)
Ltac s0_fail := solve [left; split; [constructor|right; assumption]].
Ltac s0_dead := solve [left; split; [constructor|left; exact I]].

Lemma commit_tail mono cfg s0 s4 j vote :
  spos s0 < spos s4 -> r_view s4 = vnum (cview vote) -> r_phase s4 = PCommit ->
  r_high_vote s4 = Some vote ->
  shape Rk mono cfg s0
    (hbind (process_justification cfg s4 j) (fun s _ =>
     hbind (backup_state cfg s) (fun s _ => hemit s (ESend (MCommit vote))))).
Proof.
  intros Hp Hv Hph Hhv.
  pose proof (hq_process_justification cfg s4 s4 j (core_eq_refl s4)) as Hq.
  pose proof (okb_process_justification cfg s4 j) as Hok.
  destruct (process_justification cfg s4 j) as [[s5 es5] r5].
  unfold hq, okb in *; cbn [fst snd] in *. destruct Hq as (Hc & Hq).
  unfold hbind, backup_state, hemit. destruct r5 as [a|e|p].
  - right; left. exists es5, vote. split; [reflexivity|]. split; [exact Hq|].
    rewrite (core_eq_spos _ _ Hc). destruct Hc as (H1 & H2 & H3).
    repeat split; try congruence. left; reflexivity.
  - destruct e; try contradiction. left. split; [exact Hq|left; exact I].
  - contradiction.
Qed.

Lemma on_proposal_shape mono cfg s key sig_ok payload j :
  shape Rk mono cfg s (on_proposal cfg s key sig_ok payload j).
Proof.
  unfold on_proposal. apply hbind_q; [apply hq_lift, core_eq_refl|].
  intros s1 mv Hc1 _. cbv zeta.
  destruct ((vnum mv <? r_view s1) || ((vnum mv =? r_view s1) && negb (phase_eqb (r_phase s1) Prepare)))
    eqn:Egate; [unfold hfail; s0_fail|].
  destruct (negb (key =? cleader cfg (vnum mv))); [unfold hfail; s0_fail|].
  destruct (negb sig_ok); [unfold hfail; s0_fail|].
  destruct (justification_verify (cg cfg) (ce cfg) (cC cfg) j);
    [|unfold hfail; s0_fail|unfold hpanic; s0_dead].
  apply hbind_q; [apply hq_lift; exact Hc1|].
  intros s2 [n oh] Hc2 _.
  destruct (n <? r_store_first s2); [unfold hfail; s0_fail|].
  apply hbind_q.
  - destruct oh; destruct payload; try (apply hq_fail; exact Hc2); try (apply hq_ret; exact Hc2).
    destruct (cmaxpay cfg <? cpsize cfg z); [apply hq_fail; exact Hc2|].
    destruct ((0 <? n) && negb (n - 1 <? r_store_next s2)); [apply hq_fail; exact Hc2|].
    destruct (negb ((cfirst cfg <=? n) && cpok cfg n z)); [apply hq_fail; exact Hc2|].
    apply hq_ret. ce.
  - intros s3 hash Hc3 _.
    apply commit_tail; cbn [r_view r_phase r_high_vote set_view set_phase set_high_vote cview]; try reflexivity.
    unfold spos at 2; cbn [r_view r_phase set_view set_phase set_high_vote rank].
    destruct Hc1 as (Hv & Hph & _). unfold spos.
    apply orb_false_iff in Egate. destruct Egate as (E1 & E2).
    apply Z.ltb_ge in E1. rewrite Hv in *. rewrite Hph in *.
    destruct (Z.eq_dec (vnum mv) (r_view s)) as [Heq|Hne].
    + rewrite (proj2 (Z.eqb_eq _ _) Heq) in E2. cbn [andb] in E2.
      destruct (r_phase s); cbn in E2; try discriminate. cbn [rank]. lia.
    + pose proof (rank_bounds (r_phase s)). lia.
Qed.

(* ---------- on_commit / on_timeout / on_new_view ---------- *)
Lemma lift_ok {A} s (y : outcome unit A) a : snd (lift s y) = Ok a -> y = Ok a.
Proof. destruct y; cbn; intros H; inversion H; reflexivity. Qed.

Lemma num_next_chk v nv : @num_next unit true v = Ok nv -> nv = v + 1.
Proof.
  unfold num_next, u64_add. destruct (v + 1 <? U64); intros H; inversion H; reflexivity.
Qed.

Lemma next_view_tail mono cfg s0 s v :
  cchk cfg = mono -> core_eq s0 s -> r_view s0 <= v ->
  shape Rk mono cfg s0
    (hbind (lift s (num_next (cchk cfg) v)) (fun s nv => start_new_view cfg s nv)).
Proof.
  intros Hm Hc Hv. apply hbind_q; [apply hq_lift; exact Hc|].
  intros s1 nv Hc1 Hok. apply start_new_view_shape; [exact Hc1|].
  intros ->. apply lift_ok in Hok. rewrite Hm in Hok. apply num_next_chk in Hok. lia.
Qed.

Ltac s0_any :=
  first [ unfold hfail; s0_fail | unfold hpanic; s0_dead
        | unfold hret, hfail, hpanic; left; split; [constructor|right; ce] ].
Ltac step_match :=
  match goal with
  | |- shape _ _ _ _ (if ?c then _ else _) => destruct c eqn:?
  | |- shape _ _ _ _ (match ?x with _ => _ end) => destruct x eqn:?
  end; try s0_any.

Lemma on_commit_shape cfg s key sig_ok c :
  shape Rk (cchk cfg) cfg s (on_commit cfg s key sig_ok c).
Proof.
  unfold on_commit. pose proof (core_eq_refl s) as Hc0.
  step_match. cbv zeta.
  destruct (vnum (cview c) <? r_view s) eqn:Ev; [unfold hfail; s0_fail|].
  apply Z.ltb_ge in Ev.
  repeat step_match.
  apply hbind_q; [apply hq_process_commit_qc; ce|].
  intros s1 _ Hc1 _. apply next_view_tail; [reflexivity|exact Hc1|exact Ev].
Qed.

Lemma on_timeout_shape cfg s key sig_ok t :
  shape Rk (cchk cfg) cfg s (on_timeout cfg s key sig_ok t).
Proof.
  unfold on_timeout. pose proof (core_eq_refl s) as Hc0.
  step_match. cbv zeta.
  destruct (vnum (tview t) <? r_view s) eqn:Ev; [unfold hfail; s0_fail|].
  apply Z.ltb_ge in Ev.
  repeat step_match.
  apply hbind_q; [apply hq_process_timeout_qc; ce|].
  intros s1 _ Hc1 _. apply next_view_tail; [reflexivity|exact Hc1|exact Ev].
Qed.

Lemma on_new_view_shape mono cfg s key sig_ok j :
  shape Rk mono cfg s (on_new_view cfg s key sig_ok j).
Proof.
  unfold on_new_view. apply hbind_q; [apply hq_lift, core_eq_refl|].
  intros s1 mv Hc1 _. cbv zeta.
  do 4 step_match.
  apply hbind_q; [apply hq_process_justification; exact Hc1|].
  intros s2 _ Hc2 _.
  destruct (r_view s2 <? vnum mv) eqn:Ev.
  - apply start_new_view_shape; [exact Hc2|]. intros _. apply Z.ltb_lt in Ev.
    destruct Hc2 as (Hv & _). lia.
  - unfold hret. left; split; [constructor|right; exact Hc2].
Qed.

(* ---------- one iteration of the run loop ---------- *)
Lemma rstep_shape cfg s i : shape Rk (cchk cfg) cfg s (rstep cfg s i).
Proof.
  destruct i as [m| |n h]; cbn [rstep].
  - destruct (m_msg m).
    + apply on_proposal_shape.
    + apply on_commit_shape.
    + apply on_timeout_shape.
    + apply on_new_view_shape.
  - apply start_timeout_shape, core_eq_refl.
  - destruct (r_store_next s =? n).
    + left. split; [repeat constructor|right; ce].
    + left. split; [constructor|right; apply core_eq_refl].
Qed.

Lemma rstep_t_shape cfg s i : shape Rany (cchk cfg) cfg s (rstep_t cfg s i).
Proof.
  unfold rstep_t. pose proof (rstep_shape cfg s i) as H.
  destruct (rstep cfg s i) as [[s' es] r].
  assert (Hw : shape Rany (cchk cfg) cfg s (s', es, r)).
  { eapply shape_weaken; [|exact H]. intros; exact I. }
  destruct r as [a|e|p]; try exact Hw.
  destruct e; try exact Hw.
  (* the proposal missed its deadline: nothing was persisted or sent, the timer fires next *)
  assert (Hq : Forall quiet_eff es /\ core_eq s s').
  { unfold shape in H. destruct H as [(Hq & [Hd|Hc])|[(qs & c & H)|(qs & rest & H)]].
    - destruct Hd.
    - split; assumption.
    - destruct H as (_ & _ & _ & _ & _ & _ & [HR|HR]); [discriminate HR|destruct HR].
    - destruct H as (_ & _ & _ & _ & [HR|HR]); [discriminate HR|destruct HR]. }
  destruct Hq as (Hq & Hc).
  pose proof (start_timeout_shape (cchk cfg) cfg s s' Hc) as Ht.
  destruct (start_timeout cfg s') as [[s2 es2] r2].
  apply shape_prefix; [exact Hq|].
  assert (Hw2 : shape Rany (cchk cfg) cfg s (s2, es2, r2)).
  { eapply shape_weaken; [|exact Ht]. intros; exact I. }
  unfold shape in *.
  destruct Hw2 as [(Hq2 & Hd)|[(qs & c & H2)|(qs & rest & H2)]].
  - left. split; [exact Hq2|]. destruct Hd as [Hd|Hd]; [|right; exact Hd].
    left. destruct r2 as [a|e|p]; [destruct Hd|exact Hd|exact Hd].
  - right; left. exists qs, c. intuition.
  - right; right. exists qs, rest. intuition.
Qed.

Lemma rprologue_shape cfg s : shape Rany (cchk cfg) cfg s (rprologue cfg s).
Proof.
  unfold rprologue. destruct (r_view s =? 0).
  - eapply shape_weaken; [|apply start_timeout_shape, core_eq_refl]. intros; exact I.
  - left. split; [constructor|right; apply core_eq_refl].
Qed.

(* ---------- persist before send ---------- *)
Lemma split_after_quiet (qs tl pre post : list effect) m :
  Forall quiet_eff qs -> qs ++ tl = pre ++ ESend m :: post ->
  exists pre2, pre = qs ++ pre2 /\ tl = pre2 ++ ESend m :: post.
Proof.
  intros Hq. revert pre. induction Hq as [|q qs Hq1 Hq IH]; intros pre H.
  - exists pre. split; [reflexivity|exact H].
  - destruct pre as [|a pre].
    + cbn in H. inversion H; subst. destruct Hq1.
    + cbn in H. inversion H; subst. destruct (IH pre H2) as (pre2 & -> & Ht).
      exists pre2. split; [reflexivity|exact Ht].
Qed.

Lemma send_ok_is_send s' e : send_ok s' e -> is_send e.
Proof. destruct e; cbn; auto. Qed.

Definition persist_before_send_stmt (cfg : config) (es : list effect) : Prop :=
  (forall pre c post, es = pre ++ ESend (MCommit c) :: post ->
     exists pre' d, pre = pre' ++ [EPersist d] /\ d_epoch d = ce cfg /\
       d_view d = vnum (cview c) /\ d_phase d = PCommit /\ d_high_vote d = Some c) /\
  (forall pre t post, es = pre ++ ESend (MTimeout t) :: post ->
     exists pre' d mid, pre = pre' ++ EPersist d :: mid /\ Forall is_send mid /\ d_epoch d = ce cfg /\
       d_view d = vnum (tview t) /\ d_phase d = PTimeout /\ d_high_vote d = thv t).

Lemma shape_persist_before_send {A} (R : outcome rerr A -> Prop) mono cfg s s' es r :
  shape R mono cfg s (s', es, r) -> persist_before_send_stmt cfg es.
Proof.
  unfold shape. intros [(Hq & _)|[(qs & c0 & -> & Hq & _ & Hv & Hp & Hhv & _)|(qs & rest & -> & Hq & _ & Hr & _)]].
  - split; intros pre x post ->; exfalso; apply Forall_app in Hq; destruct Hq as (_ & Hq);
      inversion Hq as [|? ? Hx]; destruct Hx.
  - split; intros pre x post H; destruct (split_after_quiet _ _ _ _ _ Hq H) as (pre2 & -> & Ht);
      destruct pre2 as [|a [|b pre2]]; cbn in Ht; inversion Ht; subst.
    + exists qs, (backup cfg s'). repeat split; assumption.
    + destruct pre2; discriminate.
    + destruct pre2; discriminate.
  - split; intros pre x post H; destruct (split_after_quiet _ _ _ _ _ Hq H) as (pre2 & -> & Ht);
      (destruct pre2 as [|a mid]; cbn in Ht; inversion Ht as [[Ha Hrest]]; subst);
      apply Forall_app in Hr; destruct Hr as (Hmid & Hx); inversion Hx as [|? ? Hx1 _]; subst.
    + destruct Hx1.
    + destruct Hx1 as (H1 & H2 & H3).
      exists qs, (backup cfg s'), mid. repeat split; try assumption.
      eapply Forall_impl; [|exact Hmid]. apply send_ok_is_send.
Qed.

Theorem persist_before_send cfg s i :
  persist_before_send_stmt cfg (snd (fst (rstep cfg s i))).
Proof.
  pose proof (rstep_shape cfg s i) as H. destruct (rstep cfg s i) as [[s' es] r].
  eapply shape_persist_before_send; exact H.
Qed.

Theorem persist_before_send_t cfg s i :
  persist_before_send_stmt cfg (snd (fst (rstep_t cfg s i))).
Proof.
  pose proof (rstep_t_shape cfg s i) as H. destruct (rstep_t cfg s i) as [[s' es] r].
  eapply shape_persist_before_send; exact H.
Qed.

Theorem persist_before_send_prologue cfg s :
  persist_before_send_stmt cfg (snd (fst (rprologue cfg s))).
Proof.
  pose proof (rprologue_shape cfg s) as H. destruct (rprologue cfg s) as [[s' es] r].
  eapply shape_persist_before_send; exact H.
Qed.

(* ================================================================== *)
(* Part 2: runs with crashes and restarts; the ghost log               *)
(* ================================================================== *)

(* messages put on the wire by an effect list *)
Definition sends (es : list effect) : list cmsg :=
  flat_map (fun e => match e with ESend m => [m] | _ => [] end) es.

(* The effect lists that actually happened during one operation, from the pieces run_op is
   made of: for a crashed step only the prefix kept by cut_at_persist, then the prologue of
   the next incarnation. *)
Definition op_effects (cfg : config) (st : run_state) (o : rop) : list (list effect) :=
  if rs_dead st then [] else
  match o with
  | OpRestart =>
      let s := rstart cfg (rs_d st) (r_store_first (rs_s st)) (r_store_next (rs_s st)) in
      [snd (fst (rprologue cfg s))]
  | OpIn i => [snd (fst (rstep_t cfg (rs_s st) i))]
  | OpCrash i k applied =>
      let es := snd (fst (rstep_t cfg (rs_s st) i)) in
      match cut_at_persist es k applied with
      | None => [es]
      | Some pre =>
          let '(d', next') := apply_effects (rs_d st) (r_store_next (rs_s st)) pre in
          let s0 := rstart cfg d' (r_store_first (rs_s st)) next' in
          [pre; snd (fst (rprologue cfg s0))]
      end
  end.

(* agreement with run_op: the observation of an operation shows exactly these effect lists *)
Lemma run_op_obs_effects cfg st o :
  rs_dead st = false ->
  exists hd tl, snd (run_op cfg st o) = OL (hd :: map obs_effects (op_effects cfg st o) ++ [tl]).
Proof.
  intros Hd. unfold run_op, op_effects. rewrite Hd. destruct o as [i|i k a|].
  - destruct (rstep_t cfg (rs_s st) i) as [[s' es] r]. cbn [fst snd].
    destruct (apply_effects _ _ es). cbn [snd map app]. eauto.
  - destruct (rstep_t cfg (rs_s st) i) as [[s' es] r]. cbn [fst snd].
    destruct (cut_at_persist es k a) as [pre|].
    + destruct (apply_effects (rs_d st) (r_store_next (rs_s st)) pre) as [d' n'].
      destruct (rprologue cfg _) as [[s1 es1] r1]. destruct (apply_effects d' n' es1).
      cbn [fst snd map app]. eauto.
    + destruct (apply_effects _ _ es). cbn [snd map app]. eauto.
  - destruct (rprologue cfg _) as [[s1 es1] r1]. destruct (apply_effects _ _ es1).
    cbn [fst snd map app]. eauto.
Qed.
Lemma run_op_dead cfg st o :
  rs_dead st = true -> run_op cfg st o = (st, OL [OZ 9]) /\ op_effects cfg st o = [].
Proof. intros Hd. unfold run_op, op_effects. rewrite Hd. split; reflexivity. Qed.

(* the ghost log: everything ever sent, in order, across all incarnations *)
Definition op_log (cfg : config) (st : run_state) (o : rop) : list cmsg :=
  sends (concat (op_effects cfg st o)).
Fixpoint run_log (cfg : config) (st : run_state) (ops : list rop) : list cmsg :=
  match ops with
  | [] => []
  | o :: rest => op_log cfg st o ++ run_log cfg (fst (run_op cfg st o)) rest
  end.
(* the first incarnation: StateMachine::start + prologue, as run_case does *)
Definition case_init (cfg : config) (d : durable) (first next : Z) : list effect * run_state :=
  let s0 := rstart cfg d first next in
  let '(s1, es, r) := rprologue cfg s0 in
  let '(d1, _) := apply_effects d next es in
  (es, {| rs_s := s1; rs_d := d1; rs_dead := negb (is_ok r) |}).
Definition case_log (c : config * durable * Z * Z * list rop) : list cmsg :=
  let '(cfg, d, first, next, ops) := c in
  let '(es, st) := case_init cfg d first next in
  sends es ++ run_log cfg st ops.

Lemma run_ops_cons cfg st o rest :
  run_ops cfg st (o :: rest) = snd (run_op cfg st o) :: run_ops cfg (fst (run_op cfg st o)) rest.
Proof. cbn [run_ops]. destruct (run_op cfg st o). reflexivity. Qed.

(* run_case is the initial step followed by run_ops from the state case_init computes *)
Lemma run_case_init cfg d first next ops :
  exists hd tl,
    run_case (cfg, d, first, next, ops) =
    OL (OL [hd; obs_effects (fst (case_init cfg d first next)); tl]
        :: run_ops cfg (snd (case_init cfg d first next)) ops).
Proof.
  unfold run_case, case_init. destruct (rprologue cfg _) as [[s1 es] r].
  destruct (apply_effects d next es). cbn [fst snd]. eauto.
Qed.

(* ---------- apply_effects / cut_at_persist ---------- *)
Definition last_persist (es : list effect) (d : durable) : durable :=
  fold_left (fun acc e => match e with EPersist x => x | _ => acc end) es d.

Lemma apply_effects_last es : forall d n, fst (apply_effects d n es) = last_persist es d.
Proof.
  induction es as [|e es IH]; intros d n; [reflexivity|].
  destruct e; cbn [apply_effects last_persist fold_left]; apply IH.
Qed.
Lemma last_persist_app a b d : last_persist (a ++ b) d = last_persist b (last_persist a d).
Proof. apply fold_left_app. Qed.
Lemma last_persist_quiet qs d : Forall quiet_eff qs -> last_persist qs d = d.
Proof.
  intros H. revert d. induction H as [|e qs He _ IH]; intros d; [reflexivity|].
  destruct e; try destruct He; cbn; apply IH.
Qed.
Lemma last_persist_sends rest d : Forall is_send rest -> last_persist rest d = d.
Proof.
  intros H. revert d. induction H as [|e qs He _ IH]; intros d; [reflexivity|].
  destruct e; try destruct He; cbn; apply IH.
Qed.

Lemma sends_app a b : sends (a ++ b) = sends a ++ sends b.
Proof. apply flat_map_app. Qed.
Lemma sends_quiet qs : Forall quiet_eff qs -> sends qs = [].
Proof.
  induction 1 as [|e qs He _ IH]; [reflexivity|]. destruct e; try destruct He; cbn; exact IH.
Qed.

Lemma cut_quiet_prefix qs tl k a :
  Forall quiet_eff qs ->
  cut_at_persist (qs ++ tl) k a = option_map (app qs) (cut_at_persist tl k a).
Proof.
  induction 1 as [|e qs He _ IH].
  - cbn. destruct (cut_at_persist tl k a); reflexivity.
  - destruct e; try destruct He; cbn [app cut_at_persist]; rewrite IH;
      destruct (cut_at_persist tl k a); reflexivity.
Qed.
Lemma cut_sends_none rest k a : Forall is_send rest -> cut_at_persist rest k a = None.
Proof.
  induction 1 as [|e qs He _ IH]; [reflexivity|].
  destruct e; try destruct He. cbn [cut_at_persist]. rewrite IH. reflexivity.
Qed.
Lemma cut_quiet_none es k a : Forall quiet_eff es -> cut_at_persist es k a = None.
Proof.
  intros H. rewrite <- (app_nil_r es). rewrite cut_quiet_prefix by exact H. reflexivity.
Qed.
(* a step has at most one persist: the only crash point is k = 0 *)
Lemma cut_one_persist qs d rest k a pre :
  Forall quiet_eff qs -> Forall is_send rest ->
  cut_at_persist (qs ++ EPersist d :: rest) k a = Some pre ->
  k = O /\ pre = qs ++ (if a then [EPersist d] else []).
Proof.
  intros Hq Hr. rewrite cut_quiet_prefix by exact Hq. cbn [cut_at_persist].
  destruct k; cbn [option_map].
  - intros H; inversion H. split; reflexivity.
  - rewrite (cut_sends_none rest k a Hr). discriminate.
Qed.

(* ---------- the order on the log ---------- *)
Definition vpos (m : cmsg) : option Z :=
  match m with
  | MCommit c => Some (3 * vnum (cview c) + 1)
  | MTimeout t => Some (3 * vnum (tview t) + 2)
  | _ => None
  end.
Definition below (p : Z) (m : cmsg) : Prop :=
  match vpos m with Some x => x <= p | None => True end.
(* m' may come after m: a commit vote only strictly above, a timeout vote at or above *)
Definition follows (m m' : cmsg) : Prop :=
  match vpos m, m' with
  | Some x, MCommit c => x < 3 * vnum (cview c) + 1
  | Some x, MTimeout t => x <= 3 * vnum (tview t) + 2
  | _, _ => True
  end.
Fixpoint log_sorted (l : list cmsg) : Prop :=
  match l with
  | [] => True
  | m :: l' => Forall (follows m) l' /\ log_sorted l'
  end.

Lemma log_sorted_app l1 l2 :
  log_sorted l1 -> log_sorted l2 ->
  (forall m, In m l1 -> Forall (follows m) l2) -> log_sorted (l1 ++ l2).
Proof.
  induction l1 as [|m l1 IH]; intros H1 H2 H12; [exact H2|].
  destruct H1 as (Hm & H1). cbn [app log_sorted]. split.
  - apply Forall_app. split; [exact Hm|]. apply H12. left; reflexivity.
  - apply IH; try assumption. intros m' Hin. apply H12. right; exact Hin.
Qed.
Lemma log_sorted_mid l1 m l2 : log_sorted (l1 ++ m :: l2) -> Forall (follows m) l2.
Proof.
  induction l1 as [|x l1 IH]; cbn [app log_sorted]; intros (H1 & H2); [exact H1|apply IH; exact H2].
Qed.

Lemma below_follows p m m' :
  below p m ->
  match m' with
  | MCommit c => p < 3 * vnum (cview c) + 1
  | MTimeout t => p <= 3 * vnum (tview t) + 2
  | _ => True
  end -> follows m m'.
Proof.
  unfold below, follows. destruct (vpos m); [|destruct m'; auto]. destruct m'; auto; lia.
Qed.

(* ---------- the invariant ---------- *)
Record Inv (cfg : config) (st : run_state) (log : list cmsg) : Prop := {
  inv_live : rs_dead st = false -> dpos (eff_d cfg (rs_d st)) <= spos (rs_s st);
  inv_log : Forall (below (dpos (eff_d cfg (rs_d st)))) log;
  inv_sorted : log_sorted log
}.

Lemma eff_d_backup cfg s : eff_d cfg (backup cfg s) = backup cfg s.
Proof. unfold eff_d. cbn [d_epoch backup]. rewrite Z.eqb_refl. reflexivity. Qed.
Lemma dpos_backup cfg s : dpos (backup cfg s) = spos s.
Proof. reflexivity. Qed.
Lemma spos_rstart cfg d f n : spos (rstart cfg d f n) = dpos (eff_d cfg d).
Proof. unfold rstart, eff_d, spos, dpos. destruct (d_epoch d =? ce cfg); reflexivity. Qed.

Lemma below_mono p p' m : p <= p' -> below p m -> below p' m.
Proof. unfold below. destruct (vpos m); [lia|auto]. Qed.

(* the sends after a non-commit persist of s' *)
Lemma rest_votes s' rest :
  Forall (send_ok s') rest ->
  Forall (fun m => match m with
                   | MCommit _ => False
                   | MTimeout t => 3 * vnum (tview t) + 2 = spos s'
                   | _ => True
                   end) (sends rest).
Proof.
  induction 1 as [|e rest He _ IH]; [constructor|].
  destruct e as [d|m|n h|j]; try destruct He. cbn [sends flat_map app].
  constructor; [|exact IH]. destruct m as [p j|c|t|j]; try exact I.
  - exact He.
  - cbn [send_ok] in He. destruct He as (H1 & H2 & _). unfold spos. rewrite H1, H2. reflexivity.
Qed.

Lemma timeouts_sorted p l :
  Forall (fun m => match m with
                   | MCommit _ => False
                   | MTimeout t => 3 * vnum (tview t) + 2 = p
                   | _ => True
                   end) l ->
  log_sorted l /\ Forall (below p) l /\
  forall m0, below p m0 -> Forall (follows m0) l.
Proof.
  induction 1 as [|m l Hm Hl IH]; [split; [exact I|split; [constructor|intros; constructor]]|].
  destruct IH as (IH1 & IH2 & IH3).
  assert (Hb : below p m).
  { unfold below. destruct m; cbn [vpos]; try exact I; [destruct Hm|lia]. }
  split; [|split].
  - cbn [log_sorted]. split; [apply IH3; exact Hb|exact IH1].
  - constructor; assumption.
  - intros m0 H0. constructor; [|apply IH3; exact H0].
    apply (below_follows p); [exact H0|]. destruct m; try exact I; [destruct Hm|lia].
Qed.

(* one handler invocation (or prologue) of a live replica preserves the invariant *)
Lemma inv_apply cfg st log s' es (r : outcome rerr unit) n dflag :
  cchk cfg = true ->
  Inv cfg st log -> rs_dead st = false ->
  shape Rany true cfg (rs_s st) (s', es, r) ->
  (deadr r -> dflag = true) ->
  Inv cfg {| rs_s := s'; rs_d := fst (apply_effects (rs_d st) n es); rs_dead := dflag |}
      (log ++ sends es).
Proof.
  intros Hchk [Hlive Hlog Hsorted] Hd Hsh Hflag. specialize (Hlive Hd).
  rewrite apply_effects_last. unfold shape in Hsh.
  destruct Hsh as [(Hq & Hdc)|[(qs & c & -> & Hq & Hpos & Hv & Hph & Hhv & _)|(qs & rest & -> & Hq & Hpos & Hrest & _)]].
  - (* nothing persisted, nothing sent *)
    rewrite (last_persist_quiet _ _ Hq), (sends_quiet _ Hq), app_nil_r.
    constructor; cbn [rs_s rs_d rs_dead]; try assumption.
    intros Hf. destruct Hdc as [Hdc|Hc]; [rewrite (Hflag Hdc) in Hf; discriminate|].
    rewrite (core_eq_spos _ _ Hc). exact Hlive.
  - (* commit vote *)
    rewrite last_persist_app, (last_persist_quiet _ _ Hq). cbn [last_persist fold_left].
    rewrite sends_app, (sends_quiet _ Hq). cbn [sends flat_map app].
    assert (Hp' : spos s' = 3 * vnum (cview c) + 1).
    { unfold spos. rewrite Hv, Hph. reflexivity. }
    constructor; cbn [rs_s rs_d rs_dead]; rewrite ?eff_d_backup, ?dpos_backup.
    + intros _. lia.
    + apply Forall_app. split.
      * eapply Forall_impl; [|exact Hlog]. intros m. apply below_mono. lia.
      * constructor; [|constructor]. unfold below; cbn [vpos]. lia.
    + apply log_sorted_app; [exact Hsorted|cbn; auto|].
      intros m Hin. constructor; [|constructor].
      rewrite Forall_forall in Hlog. apply (below_follows _ _ _ (Hlog m Hin)). lia.
  - (* another persist, followed by new-view / timeout messages *)
    specialize (Hpos eq_refl).
    assert (Hsend : Forall is_send rest).
    { eapply Forall_impl; [|exact Hrest]. apply send_ok_is_send. }
    rewrite last_persist_app, (last_persist_quiet _ _ Hq). cbn [last_persist fold_left].
    fold (last_persist rest (backup cfg s')). rewrite (last_persist_sends _ _ Hsend).
    rewrite sends_app, (sends_quiet _ Hq). cbn [sends flat_map app].
    change (flat_map _ rest) with (sends rest).
    destruct (timeouts_sorted (spos s') (sends rest) (rest_votes s' rest Hrest)) as (T1 & T2 & T3).
    constructor; cbn [rs_s rs_d rs_dead]; rewrite ?eff_d_backup, ?dpos_backup.
    + intros _. lia.
    + apply Forall_app. split; [|exact T2].
      eapply Forall_impl; [|exact Hlog]. intros m. apply below_mono. lia.
    + apply log_sorted_app; [exact Hsorted|exact T1|].
      intros m Hin. apply T3. rewrite Forall_forall in Hlog.
      eapply below_mono; [|exact (Hlog m Hin)]. lia.
Qed.

(* restart from the durable state *)
Lemma inv_restart cfg st log f n :
  Inv cfg st log ->
  Inv cfg {| rs_s := rstart cfg (rs_d st) f n; rs_d := rs_d st; rs_dead := false |} log.
Proof.
  intros [Hlive Hlog Hsorted]. constructor; cbn [rs_s rs_d rs_dead]; try assumption.
  intros _. rewrite spos_rstart. lia.
Qed.

(* crash at a persist point of a step: nothing of the step was sent yet, and the durable
   state is the old one or the one being written *)
Lemma inv_crash cfg st log s' es (r : outcome rerr unit) k a pre n d' n' f :
  cchk cfg = true ->
  Inv cfg st log -> rs_dead st = false ->
  shape Rany true cfg (rs_s st) (s', es, r) ->
  cut_at_persist es k a = Some pre ->
  apply_effects (rs_d st) n pre = (d', n') ->
  sends pre = [] /\
  Inv cfg {| rs_s := rstart cfg d' f n'; rs_d := d'; rs_dead := false |} log.
Proof.
  intros Hchk [Hlive Hlog Hsorted] Hd Hsh Hcut Hae. specialize (Hlive Hd).
  assert (Hd' : d' = last_persist pre (rs_d st)).
  { rewrite <- (apply_effects_last pre (rs_d st) n), Hae. reflexivity. }
  unfold shape in Hsh.
  assert (Hgen : forall qs rest, es = qs ++ EPersist (backup cfg s') :: rest -> Forall quiet_eff qs ->
            Forall is_send rest -> dpos (eff_d cfg (rs_d st)) <= spos s' ->
            sends pre = [] /\
            Inv cfg {| rs_s := rstart cfg d' f n'; rs_d := d'; rs_dead := false |} log).
  { intros qs rest -> Hq Hsend Hle.
    destruct (cut_one_persist _ _ _ _ _ _ Hq Hsend Hcut) as (_ & ->).
    split.
    - rewrite sends_app, (sends_quiet _ Hq). destruct a; reflexivity.
    - constructor; cbn [rs_s rs_d rs_dead]; try assumption.
      + intros _. rewrite spos_rstart. lia.
      + subst d'. rewrite last_persist_app, (last_persist_quiet _ _ Hq).
        destruct a; cbn [last_persist fold_left]; [|exact Hlog].
        rewrite eff_d_backup, dpos_backup.
        eapply Forall_impl; [|exact Hlog]. intros m. apply below_mono. exact Hle. }
  destruct Hsh as [(Hq & _)|[(qs & c & He & Hq & Hpos & _)|(qs & rest & He & Hq & Hpos & Hrest & _)]].
  - rewrite (cut_quiet_none _ _ _ Hq) in Hcut. discriminate.
  - apply (Hgen qs [ESend (MCommit c)]); try assumption.
    + repeat constructor.
    + lia.
  - apply (Hgen qs rest); try assumption.
    + eapply Forall_impl; [|exact Hrest]. apply send_ok_is_send.
    + specialize (Hpos eq_refl). lia.
Qed.

Lemma dead_flag_step {A} (r : outcome rerr A) :
  deadr r -> match r with Panic _ | Err RBlocked | Err RInternal => true | _ => false end = true.
Proof. destruct r as [a|e|p]; [intros []| |reflexivity]. destruct e; intros H; try destruct H; reflexivity. Qed.
Lemma dead_flag_prologue {A} (r : outcome rerr A) : deadr r -> negb (is_ok r) = true.
Proof. destruct r; [intros []|reflexivity|reflexivity]. Qed.

Lemma rstep_t_shape' cfg s i s' es r :
  cchk cfg = true -> rstep_t cfg s i = (s', es, r) -> shape Rany true cfg s (s', es, r).
Proof. intros Hc He. rewrite <- He, <- Hc. apply rstep_t_shape. Qed.
Lemma rprologue_shape' cfg s s' es r :
  cchk cfg = true -> rprologue cfg s = (s', es, r) -> shape Rany true cfg s (s', es, r).
Proof. intros Hc He. rewrite <- He, <- Hc. apply rprologue_shape. Qed.

Theorem inv_run_op cfg st log o :
  cchk cfg = true -> Inv cfg st log ->
  Inv cfg (fst (run_op cfg st o)) (log ++ op_log cfg st o).
Proof.
  intros Hchk HI. unfold op_log.
  destruct (rs_dead st) eqn:Hd.
  { destruct (run_op_dead cfg st o Hd) as (-> & ->). cbn. rewrite app_nil_r. exact HI. }
  unfold run_op, op_effects. rewrite Hd. destruct o as [i|i k a|].
  - destruct (rstep_t cfg (rs_s st) i) as [[s' es] r] eqn:Es. cbn [fst snd concat].
    rewrite app_nil_r.
    pose proof (inv_apply cfg st log s' es r (r_store_next (rs_s st)) _ Hchk HI Hd
                  (rstep_t_shape' _ _ _ _ _ _ Hchk Es) (dead_flag_step r)) as H.
    destruct (apply_effects (rs_d st) (r_store_next (rs_s st)) es) as [d1 n1]. exact H.
  - destruct (rstep_t cfg (rs_s st) i) as [[s' es] r] eqn:Es. cbn [fst snd].
    pose proof (rstep_t_shape' _ _ _ _ _ _ Hchk Es) as Hsh.
    destruct (cut_at_persist es k a) as [pre|] eqn:Ecut.
    + destruct (apply_effects (rs_d st) (r_store_next (rs_s st)) pre) as [d' n'] eqn:Eae.
      destruct (inv_crash cfg st log s' es r k a pre _ d' n' (r_store_first (rs_s st))
                  Hchk HI Hd Hsh Ecut Eae) as (Hpre & HI2).
      destruct (rprologue cfg (rstart cfg d' (r_store_first (rs_s st)) n')) as [[s1 es1] r1] eqn:Ep.
      cbn [fst snd concat]. rewrite app_nil_r, sends_app, Hpre. cbn [app].
      pose proof (inv_apply cfg _ log s1 es1 r1 n' _ Hchk HI2 eq_refl
                    (rprologue_shape' _ _ _ _ _ Hchk Ep) (dead_flag_prologue r1)) as H.
      cbn [rs_s rs_d] in H.
      destruct (apply_effects d' n' es1) as [d1 n1]. exact H.
    + cbn [fst snd concat]. rewrite app_nil_r.
      pose proof (inv_apply cfg st log s' es r (r_store_next (rs_s st)) _ Hchk HI Hd
                    Hsh (dead_flag_step r)) as H.
      destruct (apply_effects (rs_d st) (r_store_next (rs_s st)) es) as [d1 n1]. exact H.
  - pose proof (inv_restart cfg st log (r_store_first (rs_s st)) (r_store_next (rs_s st)) HI) as HI2.
    destruct (rprologue cfg (rstart cfg (rs_d st) (r_store_first (rs_s st)) (r_store_next (rs_s st))))
      as [[s1 es1] r1] eqn:Ep.
    cbn [fst snd concat]. rewrite app_nil_r.
    pose proof (inv_apply cfg _ log s1 es1 r1 (r_store_next (rs_s st)) _ Hchk HI2 eq_refl
                  (rprologue_shape' _ _ _ _ _ Hchk Ep) (dead_flag_prologue r1)) as H.
    cbn [rs_s rs_d] in H.
    replace (r_store_next (rstart cfg (rs_d st) (r_store_first (rs_s st)) (r_store_next (rs_s st))))
      with (r_store_next (rs_s st)) by reflexivity.
    destruct (apply_effects (rs_d st) (r_store_next (rs_s st)) es1) as [d1 n1]. exact H.
Qed.

Theorem inv_run_ops cfg ops : forall st log,
  cchk cfg = true -> Inv cfg st log -> log_sorted (log ++ run_log cfg st ops).
Proof.
  induction ops as [|o ops IH]; intros st log Hchk HI.
  - cbn. rewrite app_nil_r. apply HI.
  - cbn [run_log]. rewrite app_assoc. apply IH; [exact Hchk|]. apply inv_run_op; assumption.
Qed.

Theorem case_log_sorted cfg d first next ops :
  cchk cfg = true -> log_sorted (case_log (cfg, d, first, next, ops)).
Proof.
  intros Hchk. unfold case_log, case_init.
  assert (HI0 : Inv cfg {| rs_s := rstart cfg d first next; rs_d := d; rs_dead := false |} []).
  { constructor; cbn [rs_s rs_d rs_dead]; [|constructor|exact I].
    intros _. rewrite spos_rstart. lia. }
  destruct (rprologue cfg (rstart cfg d first next)) as [[s1 es] r] eqn:Ep.
  pose proof (inv_apply cfg _ [] s1 es r next _ Hchk HI0 eq_refl
                (rprologue_shape' _ _ _ _ _ Hchk Ep) (dead_flag_prologue r)) as H.
  cbn [rs_s rs_d app] in H.
  destruct (apply_effects d next es) as [d1 n1]. cbn [fst] in H.
  apply inv_run_ops; assumption.
Qed.

(* ================================================================== *)
(* Part 3: consequences                                                *)
(* ================================================================== *)

Definition vote_view (m : cmsg) : option Z :=
  match m with
  | MCommit c => Some (vnum (cview c))
  | MTimeout t => Some (vnum (tview t))
  | _ => None
  end.

(* at most one commit vote per view, ever: commit votes appear in strictly increasing view order *)
Lemma sorted_commits_increasing log l1 c1 l2 c2 l3 :
  log_sorted log -> log = l1 ++ MCommit c1 :: l2 ++ MCommit c2 :: l3 ->
  vnum (cview c1) < vnum (cview c2).
Proof.
  intros Hs ->. apply log_sorted_mid in Hs. apply Forall_app in Hs. destruct Hs as (_ & Hs).
  inversion Hs as [|? ? H _]; subst. unfold follows in H; cbn [vpos] in H. lia.
Qed.

Lemma sorted_no_commit_equivocation log c1 c2 :
  log_sorted log -> In (MCommit c1) log -> In (MCommit c2) log ->
  vnum (cview c1) = vnum (cview c2) -> c1 = c2.
Proof.
  induction log as [|m log IH]; intros Hs H1 H2 Hv; [destruct H1|].
  destruct Hs as (Hm & Hs). rewrite Forall_forall in Hm.
  destruct H1 as [H1|H1], H2 as [H2|H2].
  - congruence.
  - subst m. specialize (Hm _ H2). unfold follows in Hm; cbn [vpos] in Hm. lia.
  - subst m. specialize (Hm _ H1). unfold follows in Hm; cbn [vpos] in Hm. lia.
  - apply IH; assumption.
Qed.

Lemma sorted_no_commit_after_timeout log l1 t l2 c l3 :
  log_sorted log -> log = l1 ++ MTimeout t :: l2 ++ MCommit c :: l3 ->
  vnum (tview t) < vnum (cview c).
Proof.
  intros Hs ->. apply log_sorted_mid in Hs. apply Forall_app in Hs. destruct Hs as (_ & Hs).
  inversion Hs as [|? ? H _]; subst. unfold follows in H; cbn [vpos] in H. lia.
Qed.

Lemma sorted_views_monotone log l1 m1 l2 m2 l3 v1 v2 :
  log_sorted log -> log = l1 ++ m1 :: l2 ++ m2 :: l3 ->
  vote_view m1 = Some v1 -> vote_view m2 = Some v2 -> v1 <= v2.
Proof.
  intros Hs -> H1 H2. apply log_sorted_mid in Hs. apply Forall_app in Hs. destruct Hs as (_ & Hs).
  inversion Hs as [|? ? H _]; subst. unfold follows in H.
  destruct m1; cbn in H1; inversion H1; subst; cbn [vpos] in H;
    destruct m2; cbn in H2; inversion H2; subst; lia.
Qed.

(* ---------- restart restores the last applied persist ---------- *)
Lemma rstart_restores cfg d first next :
  let d' := if d_epoch d =? ce cfg then d else durable_default in
  let s := rstart cfg d first next in
  r_view s = d_view d' /\ r_phase s = d_phase d' /\ r_high_vote s = d_high_vote d' /\
  r_high_cqc s = d_high_cqc d' /\ r_high_tqc s = d_high_tqc d' /\
  r_commit_views s = [] /\ r_commit_qcs s = [] /\ r_timeout_views s = [] /\ r_timeout_qcs s = [].
Proof. cbv zeta. unfold rstart. repeat split. Qed.

(* the state a crashed step restarts from: StateMachine::start on the last applied persist of
   the kept prefix (the old durable state if the prefix has none) *)
Lemma crash_restarts_from_last_persist cfg st i k a pre :
  rs_dead st = false ->
  cut_at_persist (snd (fst (rstep_t cfg (rs_s st) i))) k a = Some pre ->
  let d' := last_persist pre (rs_d st) in
  let n' := snd (apply_effects (rs_d st) (r_store_next (rs_s st)) pre) in
  let '(s1, es1, r1) := rprologue cfg (rstart cfg d' (r_store_first (rs_s st)) n') in
  fst (run_op cfg st (OpCrash i k a)) =
    {| rs_s := s1; rs_d := last_persist es1 d'; rs_dead := negb (is_ok r1) |}.
Proof.
  intros Hd Hcut. cbv zeta. unfold run_op. rewrite Hd.
  destruct (rstep_t cfg (rs_s st) i) as [[s' es] r]. cbn [fst snd] in Hcut. rewrite Hcut.
  rewrite <- (apply_effects_last pre (rs_d st) (r_store_next (rs_s st))).
  destruct (apply_effects (rs_d st) (r_store_next (rs_s st)) pre) as [d' n']. cbn [fst snd].
  destruct (rprologue cfg (rstart cfg d' (r_store_first (rs_s st)) n')) as [[s1 es1] r1].
  rewrite <- (apply_effects_last es1 d' n').
  destruct (apply_effects d' n' es1). reflexivity.
Qed.

Lemma restart_from_last_persist cfg st :
  rs_dead st = false ->
  let '(s1, es1, r1) := rprologue cfg (rstart cfg (rs_d st) (r_store_first (rs_s st)) (r_store_next (rs_s st))) in
  fst (run_op cfg st OpRestart) =
    {| rs_s := s1; rs_d := last_persist es1 (rs_d st); rs_dead := negb (is_ok r1) |}.
Proof.
  intros Hd. unfold run_op. rewrite Hd.
  destruct (rprologue cfg _) as [[s1 es1] r1].
  rewrite <- (apply_effects_last es1 (rs_d st) (r_store_next (rs_s st))).
  replace (r_store_next (rstart cfg (rs_d st) (r_store_first (rs_s st)) (r_store_next (rs_s st))))
    with (r_store_next (rs_s st)) by reflexivity.
  destruct (apply_effects (rs_d st) (r_store_next (rs_s st)) es1). reflexivity.
Qed.
