(* C06 on the protocol model, part 6b: a view that is abandoned.  Provenance of the recorded
   timeout views; honest timeout votes and the durable positions; unions of signer bitmaps;
   the node-level step lemma of the round in which the timeout votes are delivered. *)
From Coq Require Import ZArith List Bool Lia Permutation.
From EC Require Import Lib.Outcome Lib.U64 Lib.ListW Lib.Obs Model.Msgs Model.Replica Model.ReplicaRun
  Model.Protocol Model.ProtocolSync Proofs.QCProofs Proofs.ReplicaMono Proofs.ReplicaLive
  Proofs.ReplicaCrash Proofs.ProtocolLive Proofs.ProtocolLiveInv Proofs.ProtocolLiveCatch Proofs.ProtocolLiveNoStop.
From EC Require Proofs.ReplicaCaches Proofs.ReplicaJustified Proofs.ListWFacts.
From EC Require Import Proofs.TqcAssembly Proofs.MsgsFacts.
From EC Require Import Proofs.ProtocolRefinesAbs Proofs.ProtocolRefinesStep.
From EC Require Proofs.ProtocolRefinesInv Proofs.ProtocolRefinesMain.
From EC Require Import Proofs.ProtocolLiveCommitStep Proofs.ProtocolLiveCommitLock Proofs.ProtocolLiveTimeoutStep.
Import ListNotations.
Open Scope Z_scope.
Module RC := ReplicaCaches.

(* ================================================================== *)
(* 1. recorded timeout views of honest keys come from timeout votes on the network *)
(* ================================================================== *)
Lemma rprologue_tv cfg s : r_timeout_views (st_of (rprologue cfg s)) = r_timeout_views s.
Proof.
  unfold rprologue. destruct (_ =? 0); [|reflexivity].
  pose proof (RC.start_timeout_keeps cfg s _ eq_refl) as H. unfold RC.keeps, RC.caches in H.
  injection H as _ _ Htv _. exact Htv.
Qed.

Lemma node_boot_tv cfg d f n : r_timeout_views (n_live (fst (node_boot cfg d f n))) = [].
Proof.
  unfold node_boot. pose proof (rprologue_tv cfg (rstart cfg d f n)) as H.
  destruct (rprologue cfg (rstart cfg d f n)) as [[s1 es] r]. destruct (apply_effects d n es).
  unfold st_of in H. cbn [fst n_live] in *. rewrite H. reflexivity.
Qed.

Lemma TV_nil hon soup s : r_timeout_views s = [] -> TV hon soup s.
Proof. intros E h v _ Hg. rewrite E in Hg. discriminate. Qed.

Lemma node_crash_tv cfg nd i j applied x : node_crash cfg nd i j applied = Some x ->
  r_timeout_views (n_live (fst x)) = [].
Proof.
  unfold node_crash. destruct (rstep_t cfg (n_live nd) i) as [[s' es] r].
  destruct (cut_at_persist es j applied) as [pre|]; [|discriminate].
  destruct (apply_effects (n_dur nd) (r_store_next (n_live nd)) pre) as [d' next'].
  pose proof (node_boot_tv cfg d' (r_store_first (n_live nd)) next') as H.
  destruct (node_boot cfg d' (r_store_first (n_live nd)) next') as [nd' es1].
  intros E. inversion E; subst x. exact H.
Qed.

Theorem preach_TV P s : preach P s -> forall k, n_alive (g_node s k) = true ->
  TV (honestb P) (g_soup s) (n_live (g_node s k)).
Proof.
  induction 1 as [|s s' Hr IH Hs]; intros k0 Hal0.
  - cbn [ginit g_node]. unfold boot0. apply TV_nil, node_boot_tv.
  - assert (Hinv : forall k, n_alive (g_node s k) = true -> RC.cache_inv (pcfg P k) (n_live (g_node s k))).
    { intros k Hal. destruct (preach_LI P s Hr k) as [_ HI]. destruct (HI Hal) as (Hc & _). exact Hc. }
    assert (Hstep : forall k i, n_alive (g_node s k) = true -> (forall m, i = IMsg m -> In m (g_soup s)) ->
              TV (honestb P) (g_soup s ++ sends_of k (snd (node_input (pcfg P k) (g_node s k) i)))
                 (n_live (fst (node_input (pcfg P k) (g_node s k) i)))).
    { intros k i Hal Hi. rewrite (node_input_live P k).
      eapply TV_mono; [intros m; apply in_app_l|].
      apply TV_step; [apply Hinv; exact Hal|apply IH; exact Hal|exact Hi]. }
    destruct Hs as [s k m Hk Hal Hin|s k Hk Hal|s k i j applied x Hk Hal Hci Hcr|s k Hk
                   |s k n h q Hk Hal Hv Hkn Hn Hh|s k p j Hk Hal Hnt|s m Ha];
      cbn [absorb add_msg g_node g_soup] in *; unfold set_node in *.
    + destruct (k0 =? k) eqn:E.
      * apply Hstep; [exact Hal|]. intros m' Em. inversion Em; subst m'. exact Hin.
      * eapply TV_mono; [intros m'; apply in_app_l|]. apply IH. exact Hal0.
    + destruct (k0 =? k) eqn:E.
      * apply Hstep; [exact Hal|]. intros m' Em. discriminate.
      * eapply TV_mono; [intros m'; apply in_app_l|]. apply IH. exact Hal0.
    + destruct (k0 =? k) eqn:E.
      * apply TV_nil. eapply node_crash_tv. exact Hcr.
      * eapply TV_mono; [intros m'; apply in_app_l|]. apply IH. exact Hal0.
    + destruct (k0 =? k) eqn:E.
      * apply TV_nil. unfold node_restart. apply node_boot_tv.
      * eapply TV_mono; [intros m'; apply in_app_l|]. apply IH. exact Hal0.
    + destruct (k0 =? k) eqn:E.
      * apply Hstep; [exact Hal|]. intros m' Em. discriminate.
      * eapply TV_mono; [intros m'; apply in_app_l|]. apply IH. exact Hal0.
    + eapply TV_mono; [intros m'; apply in_app_l|]. apply IH. exact Hal0.
    + eapply TV_mono; [intros m'; apply in_app_l|]. apply IH. exact Hal0.
Qed.

(* a key recorded with the node's view or a later one is a signer of the certificate under
   construction for that view, in every reachable state *)
Theorem preach_TB P s : preach P s -> forall k, n_alive (g_node s k) = true ->
  TB (pcfg P k) (n_live (g_node s k)).
Proof.
  induction 1 as [|s s' Hr IH Hs]; intros k0 Hal0.
  - cbn [ginit g_node]. unfold boot0. apply TB_nil, node_boot_tv.
  - assert (Hinv : forall k, n_alive (g_node s k) = true -> RC.cache_inv (pcfg P k) (n_live (g_node s k))).
    { intros k Hal. destruct (preach_LI P s Hr k) as [_ HI]. destruct (HI Hal) as (Hc & _). exact Hc. }
    assert (Hstep : forall k i, n_alive (g_node s k) = true ->
              n_alive (fst (node_input (pcfg P k) (g_node s k) i)) = true ->
              TB (pcfg P k) (n_live (fst (node_input (pcfg P k) (g_node s k) i)))).
    { intros k i Hal Hal'. rewrite (node_input_live P k).
      apply TB_step; [apply Hinv; exact Hal|reflexivity|apply IH; exact Hal|].
      exact (node_input_alive_dead P k _ i Hal'). }
    destruct Hs as [s k m Hk Hal Hin|s k Hk Hal|s k i j applied x Hk Hal Hci Hcr|s k Hk
                   |s k n h q Hk Hal Hv Hkn Hn Hh|s k p j Hk Hal Hnt|s m Ha];
      cbn [absorb add_msg g_node g_soup] in *; unfold set_node in *.
    + destruct (k0 =? k) eqn:E.
      * apply Z.eqb_eq in E. subst k0. apply Hstep; [exact Hal|exact Hal0].
      * apply IH. exact Hal0.
    + destruct (k0 =? k) eqn:E.
      * apply Z.eqb_eq in E. subst k0. apply Hstep; [exact Hal|exact Hal0].
      * apply IH. exact Hal0.
    + destruct (k0 =? k) eqn:E.
      * apply TB_nil. eapply node_crash_tv. exact Hcr.
      * apply IH. exact Hal0.
    + destruct (k0 =? k) eqn:E.
      * apply TB_nil. unfold node_restart. apply node_boot_tv.
      * apply IH. exact Hal0.
    + destruct (k0 =? k) eqn:E.
      * apply Z.eqb_eq in E. subst k0. apply Hstep; [exact Hal|exact Hal0].
      * apply IH. exact Hal0.
    + apply IH. exact Hal0.
    + apply IH. exact Hal0.
Qed.

(* ================================================================== *)
(* 2. honest timeout votes on the network and the durable positions    *)
(* ================================================================== *)
Section TMsgs.
  Variable P : params.
  Hypothesis HP : params_ok P.
  Notation hon := (honestb P).
  Notation W := (cweights (p_C P)).

  Lemma no_timeout_msg_at s h t V :
    preach P s ->
    (forall k, hon k = true -> dview s k < V \/ (dview s k = V /\ dphase s k <> PTimeout)) ->
    hon h = true -> In {| m_key := h; m_sig_ok := true; m_msg := MTimeout t |} (g_soup s) ->
    vnum (tview t) < V.
  Proof.
    intros Hr HB Hh Hin. destruct (ProtocolRefinesInv.preach_inv P HP s Hr) as [a G].
    destruct (ProtocolRefinesInv.gi_timeout _ _ _ G h t Hh Hin) as (d & Hd & Hp & Hdv & _).
    destruct (honestb_index P h Hh) as (i & Hi & Hk). subst h.
    pose proof (ProtocolRefinesInv.gi_tmos _ _ _ G i d Hi Hd Hp) as Htm.
    pose proof (committee_ok_W P HP) as Hok. pose proof (ProtocolRefinesInv.gi_reach _ _ _ G) as Ha.
    destruct (SafetyAbstract.timeout_reports_latest_vote W (abyz P) (p_first P) Hok a _ Ha Htm) as (_ & Hc & _).
    cbn [SafetyAbs.t_view SafetyAbs.t_who] in Hc.
    destruct (ProtocolRefinesInv.gi_abs _ _ _ G i Hi) as (Hcur & _). rewrite Hcur in Hc.
    specialize (HB (key_of P i) Hh). unfold dview, dphase in HB. rewrite <- Hdv.
    destruct Hc as [[Hc|[Hc1 Hc2]]|Hc]; cbn [fst snd] in *.
    - lia.
    - destruct HB as [HB|[HB1 HB2]]; [lia|]. exfalso. destruct (d_phase (n_dur _)); cbn in Hc2; lia.
    - inversion Hc as [[E1 E2]]. destruct HB as [HB|[HB1 HB2]]; [lia|]. exfalso.
      destruct (d_phase (n_dur _)); try discriminate. apply HB2; reflexivity.
  Qed.
End TMsgs.

(* ================================================================== *)
(* 3. the union of the signer bitmaps of a timeout certificate         *)
(* ================================================================== *)
Lemma nth_bor a : forall b i x y, nth_error a i = Some x -> nth_error b i = Some y ->
  nth_error (bor a b) i = Some (x || y).
Proof.
  induction a as [|x0 a IH]; intros [|y0 b] i x y Ha Hb; try (destruct i; discriminate).
  destruct i as [|i]; cbn [nth_error bor] in *; [inversion Ha; inversion Hb; reflexivity|].
  apply IH; assumption.
Qed.

Lemma nth_total (s : list bool) i : (i < length s)%nat -> exists x, nth_error s i = Some x.
Proof. intros H. destruct (nth_error s i) eqn:E; [eauto|apply nth_error_None in E; lia]. Qed.

Lemma union_bit entries : forall sum i, Forall (fun en => length (snd en) = length sum) entries ->
  (i < length sum)%nat ->
  (nth_error (union_from sum entries) i = Some true <->
   nth_error sum i = Some true \/ exists en, In en entries /\ nth_error (snd en) i = Some true).
Proof.
  unfold union_from. induction entries as [|en rest IH]; intros sum i Hl Hi; cbn [map fold_left].
  - split; [auto|]. intros [H|(en & [] & _)]. exact H.
  - inversion Hl as [|? ? Hs Hr]; subst.
    assert (Hlb : length (bor sum (snd en)) = length sum) by (apply ListWFacts.bor_length; lia).
    rewrite IH; [|rewrite Hlb; exact Hr|rewrite Hlb; exact Hi].
    destruct (nth_total sum i Hi) as [x Hx]. destruct (nth_total (snd en) i ltac:(lia)) as [y Hy].
    rewrite (nth_bor sum (snd en) i x y Hx Hy). split.
    + intros [H|(en' & Hin & Hb)].
      * injection H as Hxy. apply orb_true_iff in Hxy. destruct Hxy as [E|E]; subst; [left; exact Hx|].
        right. exists en. split; [left; reflexivity|exact Hy].
      * right. exists en'. split; [right; exact Hin|exact Hb].
    + intros [H|(en' & [<-|Hin] & Hb)].
      * left. rewrite Hx in H. injection H as ->. reflexivity.
      * left. rewrite Hy in Hb. injection Hb as ->. rewrite orb_true_r. reflexivity.
      * right. exists en'. auto.
Qed.

Section TSigners.
  Variable P : params.
  Hypothesis HP : params_ok P.
  Notation hon := (honestb P).
  Notation W := (cweights (p_C P)).
  Notation C := (p_C P).

  Lemma tsigner_sig_inv t en i : tqc_inv (p_g P) (p_e P) C t -> In en (tqmap t) ->
    nth_error (snd en) i = Some true -> In (key_of P i, TTimeout (fst en)) (tqagg t).
  Proof.
    intros Hinv Hin Hb. pose proof (tqc_inv_lengths _ _ _ _ Hinv) as Hlen.
    destruct Hinv as (_ & _ & _ & Hp). rewrite Forall_forall in Hlen. specialize (Hlen en Hin).
    assert (Hi : (i < length C)%nat) by (rewrite <- Hlen; apply nth_error_Some; congruence).
    destruct (nth_error C i) as [m|] eqn:E; [|apply nth_error_None in E; lia].
    eapply Permutation_in; [symmetry; exact Hp|]. unfold tqc_claimed. apply in_flat_map.
    exists en. split; [exact Hin|]. apply in_map_iff. exists (mkey m).
    rewrite (key_of_nth P _ _ E). split; [reflexivity|]. eapply selected_keys_in; eassumption.
  Qed.

  Lemma union_len t : tqc_inv (p_g P) (p_e P) C t ->
    length (union_from (bv_new (length C)) (tqmap t)) = length C /\
    Forall (fun en => length (snd en) = length (bv_new (length C))) (tqmap t).
  Proof.
    intros Hinv. pose proof (tqc_inv_lengths _ _ _ _ Hinv) as Hlen.
    assert (H : Forall (fun en => length (snd en) = length (bv_new (length C))) (tqmap t)).
    { eapply Forall_impl; [|exact Hlen]. intros en E. cbv beta in E. rewrite E, bv_new_length. reflexivity. }
    split; [|exact H]. rewrite union_from_length by exact H. apply bv_new_length.
  Qed.

  (* every honest validator signed some entry: the certificate weighs a quorum *)
  Lemma tqc_honest_quorum t : tqc_inv (p_g P) (p_e P) C t ->
    (forall h i, hon h = true -> cindex C h = Some i -> exists en, In en (tqmap t) /\ nth_error (snd en) i = Some true) ->
    quorum C <= weight W (union_from (bv_new (length C)) (tqmap t)).
  Proof.
    intros Hinv Hall. destruct (union_len t Hinv) as [Hl Hf].
    apply (honest_bits_quorum P HP); [exact Hl|]. intros h i Hh Hi.
    apply union_bit; [exact Hf|rewrite bv_new_length; exact (cindex_lt _ _ _ Hi)|].
    right. exact (Hall h i Hh Hi).
  Qed.

  (* only Byzantine signers: lighter than a quorum *)
  Lemma tqc_byz_light t : tqc_inv (p_g P) (p_e P) C t ->
    (forall en i, In en (tqmap t) -> nth_error (snd en) i = Some true -> abyz P i = true) ->
    weight W (union_from (bv_new (length C)) (tqmap t)) < quorum C.
  Proof.
    intros Hinv Hb. destruct (union_len t Hinv) as [Hl Hf].
    apply (byz_only_light P HP); [exact Hl|]. intros i Hi.
    assert (Hlt : (i < length (bv_new (length C)))%nat).
    { rewrite bv_new_length, <- Hl. apply nth_error_Some. congruence. }
    apply (union_bit (tqmap t) (bv_new (length C)) i Hf Hlt) in Hi. destruct Hi as [Hi|(en & Hin & Hi)].
    - exfalso. exact (nth_error_bv_new_true _ _ Hi).
    - exact (Hb en i Hin Hi).
  Qed.

  (* ---------- who may have signed a timeout certificate for view V or later ---------- *)
  Lemma weight_incl bits bits' : length bits = length C -> length bits' = length C ->
    (forall i, nth_error bits i = Some true -> nth_error bits' i = Some true) ->
    weight W bits <= weight W bits'.
  Proof.
    intros Hl Hl' Hi. pose proof (committee_ok_W P HP) as Hok.
    rewrite <- (wsum_bits W bits), <- (wsum_bits W bits') by (rewrite (W_length P); assumption).
    apply (SafetyAbsLib.wsum_incl_le W (abyz P) Hok); [apply bits_idx_NoDup|].
    intros i Hin. apply in_bits_idx. apply Hi. apply in_bits_idx. exact Hin.
  Qed.

  Lemma nth_error_seq0 n : forall a i, (i < n)%nat -> nth_error (seq a n) i = Some (a + i)%nat.
  Proof.
    induction n as [|n IH]; intros a i Hi; [lia|]. destruct i as [|i]; cbn [seq nth_error]; [f_equal; lia|].
    rewrite IH by lia. f_equal. lia.
  Qed.

  (* validator i is Byzantine or has a timeout vote for view V or later on the network *)
  Definition timed_out_bit (soup : list sgmsg) (V : Z) (i : nat) : bool :=
    abyz P i ||
    existsb (fun m => (m_key m =? key_of P i) && m_sig_ok m &&
                      match m_msg m with MTimeout t => V <=? vnum (tview t) | _ => false end) soup.
  Definition timed_out_bits (soup : list sgmsg) (V : Z) : list bool :=
    map (timed_out_bit soup V) (seq 0 (length C)).

  Lemma light_no_tqc soup V : weight W (timed_out_bits soup V) < quorum C ->
    forall t, tqc_verify (p_g P) (p_e P) C t = Ok tt -> kt hon soup t -> vnum (tqview t) < V.
  Proof.
    intros Hlight t Hv [Hk _]. destruct (Z.lt_ge_cases (vnum (tqview t)) V) as [Hlt|Hge]; [exact Hlt|exfalso].
    pose proof Hv as Hv0. apply tqc_verify_iff in Hv. destruct Hv as (_ & Hen & _ & Hq & _).
    assert (Hf : Forall (fun en => length (snd en) = length (bv_new (length C))) (tqmap t)).
    { eapply Forall_impl; [|exact Hen]. intros en (_ & E & _). rewrite E, bv_new_length. reflexivity. }
    assert (Hl : length (union_from (bv_new (length C)) (tqmap t)) = length C).
    { rewrite union_from_length by exact Hf. apply bv_new_length. }
    assert (Hle : weight W (union_from (bv_new (length C)) (tqmap t)) <= weight W (timed_out_bits soup V)).
    { apply weight_incl; [exact Hl|unfold timed_out_bits; rewrite map_length, seq_length; reflexivity|].
      intros i Hi.
      assert (Hlt : (i < length C)%nat) by (rewrite <- Hl; apply nth_error_Some; congruence).
      unfold timed_out_bits. rewrite (map_nth_error _ i (seq 0 (length C)) (nth_error_seq0 _ 0%nat i Hlt)). f_equal.
      cbn [Nat.add]. unfold timed_out_bit. destruct (abyz P i) eqn:Eb; [reflexivity|]. cbn [orb].
      apply (union_bit (tqmap t) (bv_new (length C)) i Hf) in Hi; [|rewrite bv_new_length; exact Hlt].
      destruct Hi as [Hi|(en & Hin & Hi)]; [exfalso; exact (nth_error_bv_new_true _ _ Hi)|].
      assert (Hh : SafetyAbs.honest W (abyz P) i).
      { split; [|exact Eb]. unfold SafetyAbs.member. rewrite (W_length P). exact Hlt. }
      pose proof (tsigner_sig P t en i Hv0 Hin Hi) as Hsig.
      pose proof (Hk _ _ Hsig (honest_key P i Hh)) as Hsent.
      apply existsb_exists. eexists. split; [exact Hsent|]. cbn [m_key m_sig_ok m_msg].
      rewrite Z.eqb_refl. cbn [andb]. apply Z.leb_le.
      rewrite Forall_forall in Hen. destruct (Hen en Hin) as (Htv & _). rewrite Htv. exact Hge. }
    lia.
  Qed.
End TSigners.

(* ================================================================== *)
(* 4. a view without an acceptable proposal                            *)
(* ================================================================== *)
Section TL.
  Variable P : params.
  Hypothesis HP : params_ok P.
  Notation hon := (honestb P).
  Notation cfg := (pcfg P).
  Notation W := (cweights (p_C P)).
  Variables (V n : Z).
  Variable Sg : list sgmsg.
  Hypothesis Hcq : forall q, gq (cfg 0) hon Sg q -> vnum (cview (qmsg q)) < V.
  Hypothesis Htq : forall t, tqc_verify (p_g P) (p_e P) (p_C P) t = Ok tt -> kt hon Sg t -> vnum (tqview t) < V.

  (* a step that does not change the view and accepts no proposal is quiet *)
  Lemma stepQ k s m s' es r :
    RC.cache_inv (cfg k) s -> rstep_t (cfg k) s (IMsg m) = (s', es, r) -> stopsA r = false ->
    r_view s' <= r_view s ->
    (forall p' j' mv', m_msg m = MProposal p' j' -> prop_pre (cfg k) s (m_key m) (m_sig_ok m) j' mv' -> False) ->
    frame0 s s' /\ only_queue es.
  Proof.
    intros Hinv Es Hs Hle Hnop.
    pose proof (rstep_t_le (cfg k) s (IMsg m) eq_refl) as (Hmono & _).
    rewrite Es in Hmono. unfold ReplicaMono.st_of in Hmono. cbn [fst] in Hmono.
    assert (Hsame : r_view s' = r_view s) by lia.
    destruct (m_msg m) as [p' j'|c|t|j'] eqn:Em.
    - destruct (rstep_t_proposal (cfg k) s m p' j' Em) as
        [(r0 & E & Hr0)|[(mv' & n' & Hpre & _)|(mv' & n' & oh & s1 & hash & Hpre & _)]].
      + rewrite E in Es. inversion Es; subst. split; [apply frame_frame0, frame_refl|constructor].
      + exfalso. exact (Hnop p' j' mv' eq_refl Hpre).
      + exfalso. exact (Hnop p' j' mv' eq_refl Hpre).
    - rewrite rstep_t_other in Es by (intros ? ?; rewrite Em; discriminate). cbn [rstep] in Es. rewrite Em in Es.
      assert (Hs' : stopsA (snd (on_commit (cfg k) s (m_key m) (m_sig_ok m) c)) = false) by (rewrite Es; exact Hs).
      assert (Hv' : r_view (st_of (on_commit (cfg k) s (m_key m) (m_sig_ok m) c)) = r_view s) by (rewrite Es; exact Hsame).
      destruct (commit_same_view (cfg k) s (m_key m) (m_sig_ok m) c Hinv eq_refl Hs' Hv')
        as [(r0 & E & _)|(i0 & _ & _ & _ & _ & _ & _ & E)]; rewrite E in Es; inversion Es; subst s' es r.
      + split; [apply frame_frame0, frame_refl|constructor].
      + split; [apply frame0_caches|constructor].
    - rewrite rstep_t_other in Es by (intros ? ?; rewrite Em; discriminate). cbn [rstep] in Es. rewrite Em in Es.
      assert (Hs' : stopsA (snd (on_timeout (cfg k) s (m_key m) (m_sig_ok m) t)) = false) by (rewrite Es; exact Hs).
      assert (Hv' : r_view (st_of (on_timeout (cfg k) s (m_key m) (m_sig_ok m) t)) = r_view s) by (rewrite Es; exact Hsame).
      destruct (timeout_same_view (cfg k) s (m_key m) (m_sig_ok m) t Hinv eq_refl Hs' Hv') as (F & Ee & _).
      rewrite Es in F, Ee. unfold st_of in F. cbn [fst snd] in F, Ee. subst es.
      split; [apply frame_frame0; exact F|constructor].
    - rewrite rstep_t_other in Es by (intros ? ?; rewrite Em; discriminate). cbn [rstep] in Es. rewrite Em in Es.
      assert (Hv' : r_view (st_of (on_new_view (cfg k) s (m_key m) (m_sig_ok m) j')) = r_view s) by (rewrite Es; exact Hsame).
      destruct (new_view_same_view (cfg k) s (m_key m) (m_sig_ok m) j' Hv') as [(r0 & E & _)|(_ & F & Hq & _)].
      + rewrite E in Es. inversion Es; subst s' es r. split; [apply frame_frame0, frame_refl|constructor].
      + rewrite Es in F, Hq. unfold st_of in F. cbn [fst snd] in F, Hq. split; [apply frame_frame0; exact F|exact Hq].
  Qed.

  (* ---------- collecting timeout votes for view V ---------- *)
  Definition collT (k : Z) (s : rstate) : Prop :=
    r_view s = V /\ r_phase s = PTimeout /\ n <= r_store_next s /\
    (forall q, r_high_cqc s = Some q -> vnum (cview (qmsg q)) < V) /\
    (forall tq, r_high_tqc s = Some tq -> vnum (tqview tq) < V) /\
    (forall h, hon h = true -> RC.fresh (r_timeout_views s) h V \/ hasTbit (cfg k) s h V) /\
    (forall t0, zmap_get (r_timeout_qcs s) V = Some t0 -> tq_weight (cfg k) t0 < quorum (p_C P)).

  Definition enteredT (k : Z) (s' : rstate) (es : list effect) : Prop :=
    r_view s' = V + 1 /\ r_phase s' = Prepare /\ n <= r_store_next s' /\
    exists tq j' qs, r_high_tqc s' = Some tq /\ vnum (tqview tq) = V /\ get_justification s' = Ok j' /\
      only_queue qs /\ es = qs ++ [ENotifyProposer j'; EPersist (backup (cfg k) s'); ESend (MNewView j')].

  Lemma collT_keep k s s' :
    r_view s' = r_view s -> r_phase s' = r_phase s -> r_store_next s <= r_store_next s' ->
    r_timeout_views s' = r_timeout_views s -> r_timeout_qcs s' = r_timeout_qcs s ->
    (forall q, r_high_cqc s' = Some q -> vnum (cview (qmsg q)) < V) ->
    (forall tq, r_high_tqc s' = Some tq -> vnum (tqview tq) < V) ->
    collT k s -> collT k s' /\ (forall h, hasTbit (cfg k) s h V -> hasTbit (cfg k) s' h V).
  Proof.
    intros E1 E2 E3 E4 E5 Hq Ht (C1&C2&C3&C4&C5&C6&C7). split.
    - split; [congruence|]. split; [congruence|]. split; [lia|]. split; [exact Hq|]. split; [exact Ht|].
      split; [|rewrite E5; exact C7].
      intros h Hh. destruct (C6 h Hh) as [H|H]; [left; rewrite E4; exact H|right].
      unfold hasTbit in *. rewrite E4, E5. exact H.
    - intros h H. unfold hasTbit in *. rewrite E4, E5. exact H.
  Qed.

  Lemma stepT k s m s' es r :
    RC.cache_inv (cfg k) s -> rstep_t (cfg k) s (IMsg m) = (s', es, r) -> stopsA r = false ->
    kmsg hon Sg (m_msg m) ->
    (forall t, m_msg m = MTimeout t -> m_sig_ok m = true -> hon (m_key m) = true -> V <= vnum (tview t) ->
       vnum (tview t) = V /\ timeout_verify (p_g P) (p_e P) (p_C P) t = Ok tt) ->
    (forall q, r_high_cqc s' = Some q -> vnum (cview (qmsg q)) < V) ->
    (forall tq, r_high_tqc s' = Some tq -> vnum (tqview tq) <= V) ->
    collT k s ->
    enteredT k s' es \/
    (collT k s' /\ only_queue es /\
     (forall h, hon h = true -> hasTbit (cfg k) s h V -> hasTbit (cfg k) s' h V) /\
     (forall h t, hon h = true -> m = {| m_key := h; m_sig_ok := true; m_msg := MTimeout t |} ->
        vnum (tview t) = V -> hasTbit (cfg k) s' h V)).
  Proof.
    intros Hinv Es Hs Hkm HGT Hpcq Hptq HC.
    pose proof HC as (C1&C2&C3&C4&C5&C6&C7).
    destruct (m_msg m) as [p' j'|c|t|j'] eqn:Em.
    - (* proposals are rejected: the node has timed out *)
      cbn [kmsg] in Hkm.
      assert (Hno : forall mv', prop_pre (cfg k) s (m_key m) (m_sig_ok m) j' mv' -> False).
      { intros mv' Hpre. pose proof (prop_pre_phase P V Sg Hcq Htq k s _ _ j' mv' C1 Hkm Hpre) as Hp. congruence. }
      destruct (rstep_t_proposal (cfg k) s m p' j' Em) as
        [(r0 & E & Hr0)|[(mv' & n' & Hpre & _)|(mv' & n' & oh & s1 & hash & Hpre & _)]].
      + rewrite E in Es. inversion Es; subst s' es r. right. split; [exact HC|]. split; [constructor|]. split; [auto|].
        intros h t0 _ ->. discriminate Em.
      + exfalso. exact (Hno mv' Hpre).
      + exfalso. exact (Hno mv' Hpre).
    - (* commit votes cannot reach a quorum: nobody honest voted in this view *)
      rewrite rstep_t_other in Es by (intros ? ?; rewrite Em; discriminate). cbn [rstep] in Es. rewrite Em in Es.
      destruct (on_commit_cases (cfg k) s (m_key m) (m_sig_ok m) c Hinv)
        as [(r0 & E & Hr0)|(i0 & Hk & Hold & Hf & Hsg & Hver & E)].
      + rewrite E in Es. inversion Es; subst s' es r. right. split; [exact HC|]. split; [constructor|]. split; [auto|].
        intros h t0 _ ->. discriminate Em.
      + rewrite E in Es.
        destruct (weight W (qsigners (commit_q (cfg k) s (m_key m) c i0)) <? quorum (p_C P)) eqn:Ew.
        * rewrite (on_commit_accept_low (cfg k) s (m_key m) c i0 Ew) in Es. inversion Es; subst s' es r.
          right. destruct (collT_keep k s _ eq_refl eq_refl (Z.le_refl _) eq_refl eq_refl C4 C5 HC) as [H1 H2].
          split; [exact H1|]. split; [constructor|]. split; [intros h _; apply H2|]. intros h t0 _ ->. discriminate Em.
        * exfalso.
          assert (Hs2 : stopsA (snd (RC.on_commit_accept (cfg k) s (m_key m) c i0)) = false) by (rewrite Es; exact Hs).
          destruct Hinv as [Hcinv _].
          pose proof (RC.q0_facts _ _ (p_C P) (r_commit_views s) _ _ c (m_key m) i0
                        (RC.bucket_of_ok _ _ _ _ _ (vnum (cview c)) Hcinv) Hk Hf) as (Hq0m & _ & _).
          assert (HVc : V <= vnum (cview c)) by (apply Z.ltb_ge in Hold; lia).
          assert (Hnew : forall cur, r_high_cqc s = Some cur -> vnum (cview (qmsg cur)) < vnum (cview c)).
          { intros cur Hc. specialize (C4 cur Hc). lia. }
          destruct (on_commit_accept_quorum (cfg k) s (m_key m) c i0 eq_refl Ew Hold Hs2 Hq0m Hnew) as (_ & Hq' & _).
          rewrite Es in Hq'. unfold st_of in Hq'. cbn [fst] in Hq'. specialize (Hpcq _ Hq').
          assert (Hqm : qmsg (commit_q (cfg k) s (m_key m) c i0) = c) by exact Hq0m. rewrite Hqm in Hpcq. lia.
    - (* a timeout vote *)
      rewrite rstep_t_other in Es by (intros ? ?; rewrite Em; discriminate). cbn [rstep] in Es. rewrite Em in Es.
      assert (Hacc : forall i0, cindex (p_C P) (m_key m) = Some i0 ->
                RC.fresh (r_timeout_views s) (m_key m) (vnum (tview t)) -> m_sig_ok m = true ->
                (vnum (tview t) <? r_view s) = false ->
                timeout_verify (p_g P) (p_e P) (p_C P) t = Ok tt ->
                RC.on_timeout_accept (cfg k) s (m_key m) t i0 = (s', es, r) ->
                enteredT k s' es \/
                (collT k s' /\ only_queue es /\
                 (forall h, hon h = true -> hasTbit (cfg k) s h V -> hasTbit (cfg k) s' h V) /\
                 (forall h t0, hon h = true -> m = {| m_key := h; m_sig_ok := true; m_msg := MTimeout t0 |} ->
                    vnum (tview t0) = V -> hasTbit (cfg k) s' h V))).
      { intros i0 Hk Hf Hsg Hold Hver E.
        assert (HVt : V <= vnum (tview t)) by (apply Z.ltb_ge in Hold; lia).
        assert (HviewV : hon (m_key m) = true -> vnum (tview t) = V) by (intros Hh; apply (HGT t eq_refl Hsg Hh HVt)).
        pose proof Hinv as [_ Htinv].
        pose proof (proj1 (timeout_verify_iff _ _ _ _) Hver) as ([Hg He] & _).
        pose proof (RC.t0_ok _ _ _ _ _ (tview t) Htinv Hg He) as (_ & Hti0 & _). cbn [snd] in Hti0.
        pose proof (tqc_inv_lengths _ _ _ _ Hti0) as Hlen0.
        destruct (tq_weight (cfg k) (timeout_q (cfg k) s (m_key m) t i0) <? quorum (p_C P)) eqn:Ew.
        - rewrite (on_timeout_accept_low (cfg k) s (m_key m) t i0 Ew) in E. inversion E; subst s' es r. clear E.
          set (s' := set_timeout_caches s (timeout_views' s (m_key m) t) (timeout_qcs' (cfg k) s (m_key m) t i0)).
          assert (Hown : hon (m_key m) = true -> hasTbit (cfg k) s' (m_key m) V).
          { intros Hh. rewrite <- (HviewV Hh). apply tupd_hasTbit_own; [exact Hk|exact Hlen0]. }
          right. split; [|split; [constructor|split]].
          + split; [exact C1|]. split; [exact C2|]. split; [exact C3|]. split; [exact C4|]. split; [exact C5|]. split.
            * intros h Hh. destruct (Z.eq_dec h (m_key m)) as [->|Hne]; [right; apply Hown; exact Hh|].
              destruct (C6 h Hh) as [H|H].
              -- left. unfold RC.fresh. unfold s'. rewrite (tupd_views_other (cfg k) s (m_key m) t i0 h Hne). exact H.
              -- right. apply tupd_hasTbit_other; assumption.
            * intros t0 Ht0. destruct (tupd_qc_cases (cfg k) s (m_key m) t i0 V t0 Ht0) as [[_ ->]|Hold'].
              -- apply Z.ltb_lt. exact Ew.
              -- apply C7. exact Hold'.
          + intros h Hh Hb. destruct (Z.eq_dec h (m_key m)) as [->|Hne]; [apply Hown; exact Hh|].
            apply tupd_hasTbit_other; assumption.
          + intros h t0 Hh -> _. apply Hown. exact Hh.
        - left.
          assert (Hs2 : stopsA (snd (RC.on_timeout_accept (cfg k) s (m_key m) t i0)) = false) by (rewrite E; exact Hs).
          assert (Hw : quorum (p_C P) <= weight W (union_from (bv_new (length (p_C P))) (tqmap (timeout_q (cfg k) s (m_key m) t i0))))
            by (apply Z.ltb_ge in Ew; exact Ew).
          destruct (RC.on_timeout_qc_verifies (cfg k) s (m_key m) t i0 Hinv Hk Hf Hver Hw) as (_ & Hvw & _). cbv zeta in Hvw.
          assert (Hnew : forall old, r_high_tqc s = Some old ->
                    vnum (tqview old) < vnum (tqview (timeout_q (cfg k) s (m_key m) t i0))).
          { intros old Ho. specialize (C5 old Ho). unfold timeout_q. rewrite Hvw. lia. }
          destruct (on_timeout_accept_quorum (cfg k) s (m_key m) t i0 eq_refl Ew Hs2 Hnew)
            as (Hv' & Hph & Htq' & Hsn & _ & _ & j1 & qs & Hj1 & Hoq & Hes).
          rewrite E in Hv', Hph, Htq', Hsn, Hj1, Hes. unfold st_of in Hv', Hph, Htq', Hsn, Hj1, Hes.
          cbn [fst snd] in Hv', Hph, Htq', Hsn, Hj1, Hes.
          assert (EV : vnum (tview t) = V).
          { specialize (Hptq _ Htq'). unfold timeout_q in Hptq. rewrite Hvw in Hptq. lia. }
          split; [lia|]. split; [exact Hph|]. split; [lia|].
          exists (timeout_q (cfg k) s (m_key m) t i0), j1, qs. split; [exact Htq'|].
          split; [unfold timeout_q; rewrite Hvw; exact EV|]. split; [exact Hj1|]. split; [exact Hoq|exact Hes]. }
      destruct (on_timeout_cases (cfg k) s (m_key m) (m_sig_ok m) t Hinv)
        as [(r0 & E & Hr0)|(i0 & Hk & Hold & Hf & Hsg & Hver & E)].
      + rewrite E in Es. inversion Es; subst s' es r.
        right. split; [exact HC|]. split; [constructor|]. split; [auto|].
        intros h t0 Hh Em' EV0. destruct (C6 h Hh) as [Hf|Hb]; [|exact Hb]. exfalso.
        assert (Ek : m_key m = h) by (rewrite Em'; reflexivity).
        assert (Esg : m_sig_ok m = true) by (rewrite Em'; reflexivity).
        assert (Et : t = t0) by (rewrite Em' in Em; cbn in Em; inversion Em; reflexivity).
        subst t0. destruct (hon_cindex P HP h Hh) as [i0 Hi0].
        assert (Hold : (vnum (tview t) <? r_view s) = false) by (rewrite EV0, C1; apply Z.ltb_irrefl).
        assert (Hf' : RC.fresh (r_timeout_views s) h (vnum (tview t))) by (rewrite EV0; exact Hf).
        assert (Hver : timeout_verify (p_g P) (p_e P) (p_C P) t = Ok tt).
        { apply (HGT t eq_refl Esg); [rewrite Ek; exact Hh|lia]. }
        pose proof (RC.on_timeout_eq (cfg k) s h t i0 Hinv Hi0 Hold Hf' Hver) as Eq.
        rewrite Ek, Esg in E. rewrite Eq in E.
        destruct (tq_weight (cfg k) (timeout_q (cfg k) s h t i0) <? quorum (p_C P)) eqn:Ew.
        * rewrite (on_timeout_accept_low (cfg k) s h t i0 Ew) in E. inversion E. subst r0. discriminate Hr0.
        * assert (Hs2 : stopsA (snd (RC.on_timeout_accept (cfg k) s h t i0)) = false) by (rewrite E; exact Hs).
          rewrite (on_timeout_accept_high_eq (cfg k) s h t i0 Ew) in Hs2, E.
          match type of Hs2 with stopsA (snd (hbind ?x _)) = false =>
            destruct (tail_view (cfg k) x (vnum (tview t)) eq_refl (process_timeout_qc_res _ _ _) Hs2) as (_ & Hv') end.
          rewrite E in Hv'. unfold st_of in Hv'. cbn [fst] in Hv'. lia.
      + rewrite E in Es. rewrite Hsg in *. cbn [cg ce cC pcfg] in Hver. exact (Hacc i0 Hk Hf eq_refl Hold Hver Es).
    - (* a new-view message: its certificates are old *)
      rewrite rstep_t_other in Es by (intros ? ?; rewrite Em; discriminate). cbn [rstep] in Es. rewrite Em in Es.
      cbn [kmsg] in Hkm.
      assert (Hlow : forall mv', justification_view (E := unit) (cchk (cfg k)) j' = Ok mv' ->
                justification_verify (cg (cfg k)) (ce (cfg k)) (cC (cfg k)) j' = Ok tt -> vnum mv' <= r_view s).
      { intros mv' Ejv Ever. cbn [cchk cg ce cC pcfg] in *.
        pose proof (just_lt P V Sg Hcq Htq j' Hkm Ever). pose proof (jview_num j' mv' Ejv). lia. }
      pose proof (new_view_low (cfg k) s (m_key m) (m_sig_ok m) j' Hlow) as Hv'.
      destruct (new_view_same_view_t (cfg k) s (m_key m) (m_sig_ok m) j' Hv') as (T1 & T2 & T3).
      destruct (new_view_same_view (cfg k) s (m_key m) (m_sig_ok m) j' Hv') as [(r0 & E & _)|(Ever & F & Hoq & Hq)].
      + rewrite E in Es. inversion Es; subst s' es r. right. split; [exact HC|]. split; [constructor|]. split; [auto|].
        intros h t0 _ ->. discriminate Em.
      + rewrite Es in F, Hq, Hoq, T1, T2, T3. unfold st_of in F, Hq, T1, T2, T3. cbn [fst snd] in F, Hq, Hoq, T1, T2, T3. right.
        destruct F as (F1&F2&_&_&_&_&_&F8). cbn [cg ce cC pcfg] in Ever.
        pose proof (gj_of (cfg 0) hon Sg j' Hkm Ever) as Hg.
        destruct (collT_keep k s s' F1 F2 F8 T1 T2) as [H1 H2]; [| |exact HC|].
        * intros q Hq'. destruct Hq as [Hq|(q2 & Hj & Hq)].
          -- apply C4. rewrite <- Hq. exact Hq'.
          -- rewrite Hq in Hq'. inversion Hq'; subst q2.
             destruct j' as [q0|t0]; cbn [just_hq gj] in *.
             ++ inversion Hj; subst q0. apply Hcq. exact Hg.
             ++ apply Hcq. exact (gt_high_qc (cfg 0) hon Sg t0 q Hg Hj).
        * intros tq Htq'. destruct T3 as [T3|(_ & t0 & -> & T3)].
          -- apply C5. rewrite <- T3. exact Htq'.
          -- rewrite T3 in Htq'. inversion Htq'; subst t0. cbn [gj] in Hg.
             apply justification_verify_iff in Ever. apply Htq; [exact Ever|apply Hg].
        * split; [exact H1|]. split; [exact Hoq|]. split; [intros h _; apply H2|]. intros h t0 _ ->. discriminate Em.
  Qed.

  Lemma collT_full_contra k s : RC.cache_inv (cfg k) s -> collT k s ->
    (exists h, hon h = true) -> (forall h, hon h = true -> hasTbit (cfg k) s h V) -> False.
  Proof.
    intros Hinv (_&_&_&_&_&_&C7) [h0 Hh0] Hall.
    destruct (Hall h0 Hh0) as (i00 & t0 & en0 & _ & _ & Ht0 & _).
    pose proof (C7 t0 Ht0) as Hlow.
    destruct (RC.cache_inv_timeout_qc (cfg k) s V t0 Hinv Ht0) as (Hti & _). cbn [cg ce cC pcfg] in Hti.
    assert (Hq : quorum (p_C P) <= tq_weight (cfg k) t0).
    { unfold tq_weight. cbn [cC pcfg]. apply (tqc_honest_quorum P HP t0 Hti). intros h i Hh Hi.
      destruct (Hall h Hh) as (i1 & t1 & en & Hi1 & _ & Ht1 & Hin & Hb). cbn [cC pcfg] in Hi1.
      rewrite Ht0 in Ht1. inversion Ht1; subst t1. rewrite Hi in Hi1. inversion Hi1; subst i1. eauto. }
    lia.
  Qed.
End TL.
