(* canonical_raw normalises every reading of a byte string as a value to the canonical bytes of
   that value; the canonical bytes do not depend on the order in which fields were produced. *)
From Coq Require Import String ZArith List Bool Lia.
From EC Require Import Lib.Outcome Model.Wire Model.ProtoSchema Proofs.WireProofs.
Import ListNotations.
Open Scope Z_scope.

(* ---- the field map ---- *)

Definition add1 (acc : fmap) (e : Z * bytes) : fmap := fmap_add acc (fst e) [snd e].

Lemma group_raw_fold : forall l, group_raw l = fold_left add1 l [].
Proof. reflexivity. Qed.

Lemma fmap_add_add : forall m k a b, fmap_add (fmap_add m k a) k b = fmap_add m k (a ++ b).
Proof.
  induction m as [|[k' vs'] m IH]; intros k a b; cbn [fmap_add].
  - rewrite Z.ltb_irrefl, Z.eqb_refl. reflexivity.
  - destruct (k <? k') eqn:E1.
    + cbn [fmap_add]. rewrite Z.ltb_irrefl, Z.eqb_refl. reflexivity.
    + destruct (k =? k') eqn:E2; cbn [fmap_add]; rewrite E1, E2.
      * rewrite app_assoc. reflexivity.
      * rewrite IH. reflexivity.
Qed.

Lemma fmap_add_list : forall k rs acc r,
  fmap_add acc k (r :: rs) = fold_left add1 (map (pair k) rs) (fmap_add acc k [r]).
Proof.
  induction rs as [|r2 rs IH]; intros acc r; [reflexivity|].
  cbn [map fold_left]. unfold add1 at 2. cbn [fst snd].
  rewrite <- IH. rewrite fmap_add_add. reflexivity.
Qed.

Lemma fmap_add_comm : forall m k1 v1 k2 v2, k1 <> k2 ->
  fmap_add (fmap_add m k1 v1) k2 v2 = fmap_add (fmap_add m k2 v2) k1 v1.
Proof.
  induction m as [|[k vs] m IH]; intros k1 v1 k2 v2 Hne; cbn [fmap_add].
  - destruct (k2 <? k1) eqn:A; destruct (k1 <? k2) eqn:B; destruct (k2 =? k1) eqn:C; destruct (k1 =? k2) eqn:D;
      try reflexivity; try lia.
  - destruct (k1 <? k) eqn:A1; destruct (k2 <? k) eqn:A2; destruct (k1 =? k) eqn:B1; destruct (k2 =? k) eqn:B2;
      cbn [fmap_add];
      repeat match goal with
             | |- context [?a <? ?b] => let E := fresh "E" in destruct (a <? b) eqn:E
             | |- context [?a =? ?b] => let E := fresh "E" in destruct (a =? b) eqn:E
             end; try reflexivity; try lia.
    rewrite IH by assumption. reflexivity.
Qed.

Definition nonempty (kv : Z * list bytes) : Prop := snd kv <> [].

Lemma fmap_add_nonempty : forall m k v, Forall nonempty m -> Forall nonempty (fmap_add m k [v]).
Proof.
  induction m as [|[k' vs'] m IH]; intros k v H; cbn [fmap_add].
  - constructor; [unfold nonempty; cbn; discriminate | constructor].
  - inversion H as [|? ? H1 H2]; subst.
    destruct (k <? k'); [constructor; [unfold nonempty; cbn; discriminate | assumption]|].
    destruct (k =? k').
    + constructor; [|assumption]. unfold nonempty in *. cbn [snd] in *. destruct vs'; discriminate.
    + constructor; [assumption | apply IH; assumption].
Qed.

Lemma fold_nonempty : forall l m, Forall nonempty m -> Forall nonempty (fold_left add1 l m).
Proof.
  induction l as [|e l IH]; intros m H; [assumption|]. cbn [fold_left]. apply IH. apply fmap_add_nonempty. assumption.
Qed.

(* pointwise relation between two field maps built from related entry lists *)
Section FmapRel.
  Variable P : Z -> bytes -> bytes -> Prop.

  Definition fmap_rel (m1 m2 : fmap) : Prop :=
    Forall2 (fun a b => fst a = fst b /\ Forall2 (P (fst a)) (snd a) (snd b)) m1 m2.

  Lemma fmap_add_rel : forall m1 m2 k a b, fmap_rel m1 m2 -> P k a b ->
    fmap_rel (fmap_add m1 k [a]) (fmap_add m2 k [b]).
  Proof.
    intros m1 m2 k a b H HP. induction H as [|[k1 vs1] [k2 vs2] m1 m2 [Hk Hvs] Hr IH]; cbn [fmap_add].
    - constructor; [|constructor]. cbn. split; [reflexivity | constructor; [assumption | constructor]].
    - cbn [fst snd] in *. subst k2.
      destruct (k <? k1).
      + constructor; [cbn; split; [reflexivity | constructor; [assumption | constructor]]|].
        constructor; [cbn; split; [reflexivity | assumption] | assumption].
      + destruct (k =? k1) eqn:E.
        * apply Z.eqb_eq in E. subst k1. constructor; [|assumption]. cbn. split; [reflexivity|].
          apply Forall2_app; [assumption | constructor; [assumption | constructor]].
        * constructor; [cbn; split; [reflexivity | assumption] | assumption].
  Qed.

  Lemma fold_rel : forall l1 l2,
    Forall2 (fun a b => fst a = fst b /\ P (fst a) (snd a) (snd b)) l1 l2 ->
    forall m1 m2, fmap_rel m1 m2 -> fmap_rel (fold_left add1 l1 m1) (fold_left add1 l2 m2).
  Proof.
    intros l1 l2 H. induction H as [|a b l1 l2 [Hk HP] Hr IH]; intros m1 m2 Hm; [assumption|].
    cbn [fold_left]. apply IH. unfold add1. rewrite <- Hk. apply fmap_add_rel; assumption.
  Qed.
End FmapRel.

Lemma Forall2_len : forall (A B : Type) (R : A -> B -> Prop) l1 l2, Forall2 R l1 l2 -> length l1 = length l2.
Proof. intros A B R l1 l2 H. induction H; [reflexivity | cbn; congruence]. Qed.

Lemma Forall2_impl : forall (A B : Type) (R1 R2 : A -> B -> Prop),
  (forall a b, R1 a b -> R2 a b) -> forall l1 l2, Forall2 R1 l1 l2 -> Forall2 R2 l1 l2.
Proof. intros A B R1 R2 Himp l1 l2 H. induction H; constructor; auto. Qed.

Lemma Forall2_eq : forall (A : Type) (l1 l2 : list A), Forall2 eq l1 l2 -> l1 = l2.
Proof. intros A l1 l2 H. induction H; [reflexivity | subst; reflexivity]. Qed.

Lemma map_outcome_Forall2 : forall (E A B : Type) (f : A -> outcome E B) l1 l2,
  Forall2 (fun x y => f x = Ok y) l1 l2 -> map_outcome f l1 = Ok l2.
Proof.
  intros E A B f l1 l2 H. induction H as [|x y l1 l2 Hxy Hr IH]; [reflexivity|].
  cbn [map_outcome]. rewrite Hxy. cbn [bind]. rewrite IH. reflexivity.
Qed.

Lemma find_field_num : forall fs n fd, find_field fs n = Some fd -> fnum fd = n.
Proof.
  induction fs as [|f fs IH]; intros n fd H; [discriminate|]. cbn [find_field] in H.
  destruct (fnum f =? n) eqn:E; [inversion H; subst; apply Z.eqb_eq; assumption | apply IH; assumption].
Qed.

Lemma emit_field_ok : forall num k vs, vs <> [] -> exists b, emit_field num k vs = Ok b.
Proof.
  intros num k vs H. unfold emit_field.
  destruct (wire_of_kind k); try (eexists; reflexivity);
    (destruct (1 <? length vs)%nat; [eexists; reflexivity|]; destruct vs; [congruence | eexists; reflexivity]).
Qed.

Lemma raw_of_dval_scalar : forall Sc k v, raw_of_dval Sc k (dval_of_wval v) = raw_of_wval v.
Proof. intros Sc k v. destruct v; reflexivity. Qed.

(* ---- one level of the recursion ---- *)

Section Level.
  Variable Sc : schema.
  Variable recd : nat -> bytes -> option dmsg.   (* denote at the fuel below *)
  Variable recc : nat -> bytes -> cres.          (* canonical_raw at the fuel below *)
  Hypothesis IHrec : forall mi raw d, recd mi raw = Some d -> recc mi raw = Ok (canon Sc mi d).
  Variable fs : list field.

  Definition rawent (e : Z * dval) : Z * bytes :=
    let (n, v') := e in
    (n, match find_field fs n with
        | Some fd => raw_of_dval Sc (fkind fd) v'
        | None => []
        end).

  Definition Qv (k : Z) (x y : bytes) : Prop :=
    exists fd, find_field fs k = Some fd /\
      match fkind fd with
      | KMessage mi => recc mi x = Ok y
      | _ => x = y
      end.

  Definition Qe (a b : Z * bytes) : Prop := fst a = fst b /\ Qv (fst a) (snd a) (snd b).

  Lemma Forall2_Qe_map : forall fd (vs : list wval),
    find_field fs (fnum fd) = Some fd -> wire_of_kind (fkind fd) <> WLen ->
    Forall2 Qe (map (pair (fnum fd)) (map raw_of_wval vs))
               (map rawent (map (fun v => (fnum fd, dval_of_wval v)) vs)).
  Proof.
    intros fd vs Hf Hw. induction vs as [|v vs IH]; [constructor|].
    cbn [map]. constructor; [|assumption].
    unfold Qe, rawent. cbn [fst snd]. split; [reflexivity|]. exists fd. split; [assumption|].
    rewrite Hf. rewrite raw_of_dval_scalar.
    destruct (fkind fd); try reflexivity. cbn in Hw. congruence.
  Qed.

  Lemma denote_tlv_values : forall fd t es,
    find_field fs (fnum fd) = Some fd ->
    denote_tlv recd fd t = Some es ->
    exists v vs, field_values (wire_of_kind (fkind fd)) (twire t) (tval t) = Some (v :: vs) /\
                 Forall2 Qe (map (pair (fnum fd)) (v :: vs)) (map rawent es).
  Proof.
    intros fd t es Hf H. unfold denote_tlv in H. unfold field_values.
    destruct (wire_eqb (twire t) (wire_of_kind (fkind fd))) eqn:Ew.
    - exists (raw_of_wval (tval t)), []. split; [reflexivity|].
      destruct (fkind fd) eqn:Ek;
        try (inversion H; subst; cbn [map]; constructor; [|constructor];
             unfold Qe, rawent; cbn [fst snd]; split; [reflexivity|]; exists fd; split; [assumption|];
             rewrite Hf, Ek, raw_of_dval_scalar; reflexivity).
      destruct (tval t) as [z|raw|p] eqn:Ev; try discriminate.
      destruct (recd idx p) as [d0|] eqn:Er; [|discriminate].
      inversion H; subst. cbn [map]. constructor; [|constructor].
      unfold Qe, rawent. cbn [fst snd]. split; [reflexivity|]. exists fd. split; [assumption|].
      rewrite Hf, Ek. cbn [raw_of_wval]. apply IHrec in Er. exact Er.
    - destruct (twire t) eqn:Et; try discriminate.
      destruct (tval t) as [z|raw|p] eqn:Ev; try discriminate.
      destruct (is_list fd); [|discriminate].
      destruct (unpack (wire_of_kind (fkind fd)) p) as [[|v vs]|] eqn:Eu; try discriminate.
      inversion H; subst.
      exists (raw_of_wval v), (map raw_of_wval vs). split; [reflexivity|].
      apply (Forall2_Qe_map fd (v :: vs) Hf).
      intros Hc. rewrite Hc in Ew. discriminate.
  Qed.

  Lemma group_denote : forall tl d, denote_tlvs recd fs tl = Some d ->
    forall acc, exists fl, group_tlvs fs tl acc = Some (fold_left add1 fl acc) /\ Forall2 Qe fl (map rawent d).
  Proof.
    induction tl as [|t tl IH]; intros d H acc.
    - inversion H; subst. exists []. split; [reflexivity | constructor].
    - cbn [denote_tlvs] in H. cbn [group_tlvs].
      destruct (find_field fs (tnum t)) as [fd|] eqn:Ef; [|discriminate].
      destruct (field_canonical_ok fd) eqn:Eok; cbn [negb] in H; [|discriminate].
      destruct (denote_tlv recd fd t) as [es|] eqn:Ed; [|discriminate].
      destruct (denote_tlvs recd fs tl) as [d'|] eqn:Er; [|discriminate].
      inversion H; subst.
      pose proof (find_field_num _ _ _ Ef) as Hn.
      assert (Hf : find_field fs (fnum fd) = Some fd) by (rewrite Hn; assumption).
      destruct (denote_tlv_values fd t es Hf Ed) as [v [vs [Hv HQ]]].
      unfold field_canonical_ok in Eok. apply andb_true_iff in Eok. destruct Eok as [Hm Hp].
      apply negb_true_iff in Hm. rewrite Hm.
      assert (Hp' : negb (is_list fd) && negb (supports_presence fd) = false)
        by (destruct (is_list fd), (supports_presence fd); cbn in *; congruence).
      rewrite Hp'. rewrite Hv.
      destruct (IH d' eq_refl (fmap_add acc (fnum fd) (v :: vs))) as [fl [Hg HQ']].
      exists (map (pair (fnum fd)) (v :: vs) ++ fl). split.
      + rewrite Hg. rewrite fold_left_app. f_equal. f_equal.
        rewrite fmap_add_list. reflexivity.
      + rewrite map_app. apply Forall2_app; assumption.
  Qed.

  Definition sing (kv : Z * list bytes) : Prop :=
    match find_field fs (fst kv) with
    | Some fd => is_list fd = true \/ (length (snd kv) <= 1)%nat
    | None => False
    end.

  Lemma emit_rel : forall fm1 fm2, fmap_rel Qv fm1 fm2 -> Forall nonempty fm1 -> Forall sing fm1 ->
    emit_fields recc fs fm1 = Ok (emit_pure fs fm2).
  Proof.
    intros fm1 fm2 H. induction H as [|[k1 vs1] [k2 vs2] fm1 fm2 [Hk Hvs] Hr IH]; intros Hne Hs; [reflexivity|].
    cbn [fst snd] in *. subst k2.
    inversion Hne as [|? ? Hne1 Hne2]; subst. inversion Hs as [|? ? Hs1 Hs2]; subst.
    unfold nonempty in Hne1. cbn [snd] in Hne1. unfold sing in Hs1. cbn [fst snd] in Hs1.
    destruct Hvs as [|x y xs ys Hxy Hrest]; [congruence|].
    destruct Hxy as [fd [Hf Hkind]].
    cbn [emit_fields emit_pure]. rewrite Hf in *.
    assert (Hlen : length (x :: xs) = length (y :: ys))
      by (cbn [length]; f_equal; eapply Forall2_len; eassumption).
    assert (Hchk : (1 <? length (x :: xs))%nat && negb (is_list fd) = false).
    { destruct Hs1 as [Hl|Hl]; [rewrite Hl; apply andb_false_r|].
      destruct (1 <? length (x :: xs))%nat eqn:E; [apply Nat.ltb_lt in E; lia | reflexivity]. }
    rewrite Hchk.
    assert (Hall : Forall2 (Qv k1) (x :: xs) (y :: ys)) by (constructor; [exists fd; split; assumption | assumption]).
    assert (Hv : match fkind fd with
                 | KMessage mi => map_outcome (recc mi) (x :: xs)
                 | _ => Ok (x :: xs)
                 end = Ok (y :: ys)).
    { assert (Hall' : Forall2 (fun a b => match fkind fd with
                                          | KMessage mi => recc mi a = Ok b
                                          | _ => a = b
                                          end) (x :: xs) (y :: ys)).
      { eapply Forall2_impl; [|exact Hall]. intros a b [fd' [Hf' Hk']].
        assert (fd' = fd) by congruence. subst fd'. exact Hk'. }
      destruct (fkind fd) eqn:Ek;
        try (f_equal; apply Forall2_eq; exact Hall').
      apply map_outcome_Forall2. exact Hall'. }
    rewrite Hv. cbn [bind].
    destruct (emit_field_ok k1 (fkind fd) (y :: ys)) as [b Hb]; [discriminate|].
    rewrite Hb. cbn [bind]. rewrite (IH Hne2 Hs2). cbn [bind]. reflexivity.
  Qed.
End Level.

Lemma sing_of_shape : forall fs fm1 sh,
  fmap_rel (fun _ _ _ => True) fm1 sh ->
  forallb (fun kv : Z * list bytes =>
             match find_field fs (fst kv) with
             | Some fd => is_list fd || (length (snd kv) <=? 1)%nat
             | None => false
             end) sh = true ->
  Forall (sing fs) fm1.
Proof.
  intros fs fm1 sh H. induction H as [|a b fm1 sh [Hk Hl] Hr IH]; intros Hf; [constructor|].
  cbn [forallb] in Hf. apply andb_true_iff in Hf. destruct Hf as [H1 H2].
  constructor; [|apply IH; assumption].
  unfold sing. rewrite Hk. destruct (find_field fs (fst b)); [|discriminate].
  apply orb_true_iff in H1. destruct H1 as [H1|H1]; [left; assumption|].
  right. apply Nat.leb_le in H1. apply Forall2_len in Hl. lia.
Qed.

Lemma shape_rel : forall Sc recc fs d fl,
  Forall2 (Qe recc fs) fl (map (rawent Sc fs) d) ->
  Forall2 (fun a b : Z * bytes => fst a = fst b /\ (fun _ _ _ : _ => True) (fst a) (snd a) (snd b)) fl
          (map (fun e : Z * dval => (fst e, @nil Z)) d).
Proof.
  intros Sc recc fs. induction d as [|e d IH]; intros fl H; inversion H as [|a b l1 l2 [Hk _] Hr]; subst; [constructor|].
  cbn [map]. constructor; [|apply IH; assumption].
  cbn [fst snd]. split; [|exact I]. rewrite Hk. destruct e; reflexivity.
Qed.

Lemma canon_unfold : forall Sc mi m d, nth_error Sc mi = Some m ->
  canon Sc mi d = emit_pure (mfields m) (group_raw (map (rawent Sc (mfields m)) d)).
Proof. intros Sc mi m d H. unfold canon. cbn [raw_of_dval]. rewrite H. reflexivity. Qed.

Theorem canonical_normalises_fuel : forall f Sc mi b d,
  denote_fuel f Sc mi b = Some d -> canonical_raw_fuel f Sc mi b = Ok (canon Sc mi d).
Proof.
  induction f as [|f IH]; intros Sc mi b d H; [discriminate|].
  cbn [denote_fuel] in H. cbn [canonical_raw_fuel].
  destruct (nth_error Sc mi) as [m|] eqn:En; [|discriminate].
  destruct (mproto3 m) eqn:E3; cbn [negb] in H; [|discriminate].
  destruct (parse_tlvs b) as [tl|] eqn:Ep; [|discriminate].
  destruct (denote_tlvs (denote_fuel f Sc) (mfields m) tl) as [d0|] eqn:Ed; [|discriminate].
  destruct (singular_ok (mfields m) d0) eqn:Es; [|discriminate].
  inversion H; subst d0. clear H.
  unfold read_fields. rewrite E3, Ep. cbn [negb].
  destruct (group_denote Sc (denote_fuel f Sc) (canonical_raw_fuel f Sc) (IH Sc) (mfields m) tl d Ed [])
    as [fl [Hg HQ]].
  rewrite Hg. rewrite (canon_unfold Sc mi m d En). rewrite group_raw_fold.
  apply (emit_rel Sc (denote_fuel f Sc) (canonical_raw_fuel f Sc) (IH Sc)).
  - apply fold_rel; [|constructor].
    eapply Forall2_impl; [|exact HQ]. intros a b0 [Hk Hq]. split; assumption.
  - apply fold_nonempty. constructor.
  - apply (sing_of_shape (mfields m) _ (shape d)); [|exact Es].
    unfold shape. rewrite group_raw_fold. apply fold_rel; [|constructor].
    apply shape_rel with (Sc := Sc) (recc := canonical_raw_fuel f Sc) (fs := mfields m). exact HQ.
Qed.

Theorem canonical_normalises : forall Sc mi b d,
  denote Sc mi b = Some d -> canonical_raw Sc mi b = Ok (canon Sc mi d).
Proof. intros Sc mi b d H. apply canonical_normalises_fuel. exact H. Qed.

(* ---- field order does not matter ---- *)

(* the value of a message does not depend on the order of fields with different numbers, at any
   nesting depth; the relative order of the entries of one field is part of the value *)
Inductive dmsg_equiv : dmsg -> dmsg -> Prop :=
| de_refl : forall d, dmsg_equiv d d
| de_sym : forall d d', dmsg_equiv d d' -> dmsg_equiv d' d
| de_trans : forall d1 d2 d3, dmsg_equiv d1 d2 -> dmsg_equiv d2 d3 -> dmsg_equiv d1 d3
| de_swap : forall n1 v1 n2 v2 d, n1 <> n2 -> dmsg_equiv ((n1, v1) :: (n2, v2) :: d) ((n2, v2) :: (n1, v1) :: d)
| de_cons : forall e d d', dmsg_equiv d d' -> dmsg_equiv (e :: d) (e :: d')
| de_child : forall n d1 d2 d, dmsg_equiv d1 d2 -> dmsg_equiv ((n, DMsg d1) :: d) ((n, DMsg d2) :: d).

Lemma group_equiv : forall Sc d d', dmsg_equiv d d' ->
  forall fs acc, fold_left add1 (map (rawent Sc fs) d) acc = fold_left add1 (map (rawent Sc fs) d') acc.
Proof.
  intros Sc d d' H. induction H as [d | d d' H IH | d1 d2 d3 H1 IH1 H2 IH2 | n1 v1 n2 v2 d Hne | e d d' H IH | n d1 d2 d H IH];
    intros fs acc.
  - reflexivity.
  - symmetry. apply IH.
  - rewrite IH1. apply IH2.
  - cbn [map fold_left]. f_equal. unfold add1, rawent. cbn [fst snd]. apply fmap_add_comm. assumption.
  - cbn [map fold_left]. apply IH.
  - cbn [map fold_left]. f_equal. f_equal. unfold rawent.
    destruct (find_field fs n) as [fd|]; [|reflexivity].
    destruct (fkind fd); try reflexivity. cbn [raw_of_dval].
    destruct (nth_error Sc idx) as [m|]; [|reflexivity].
    f_equal. f_equal. unfold group_raw. apply (IH (mfields m) []).
Qed.

Theorem canon_order_irrelevant : forall Sc mi d d', dmsg_equiv d d' -> canon Sc mi d = canon Sc mi d'.
Proof.
  intros Sc mi d d' H. unfold canon. cbn [raw_of_dval].
  destruct (nth_error Sc mi) as [m|]; [|reflexivity].
  f_equal. unfold group_raw. apply (group_equiv Sc d d' H (mfields m) []).
Qed.

Theorem canonical_deterministic : forall Sc mi b1 b2 d1 d2,
  denote Sc mi b1 = Some d1 -> denote Sc mi b2 = Some d2 -> dmsg_equiv d1 d2 ->
  canonical_raw Sc mi b1 = canonical_raw Sc mi b2.
Proof.
  intros Sc mi b1 b2 d1 d2 H1 H2 He.
  rewrite (canonical_normalises _ _ _ _ H1), (canonical_normalises _ _ _ _ H2).
  rewrite (canon_order_irrelevant Sc mi d1 d2 He). reflexivity.
Qed.
