(* C06 on the protocol model, part 6d: the block implied by a timeout certificate when nothing
   above the last committed block has been voted or certified: the next new block. *)
From Coq Require Import ZArith List Bool Lia.
From EC Require Import Lib.Outcome Lib.U64 Lib.ListW Lib.Obs Model.Msgs Model.Replica Model.ReplicaRun
  Model.Protocol Model.ProtocolSync Proofs.QCProofs Proofs.ProtocolLive Proofs.ProtocolLiveInv
  Proofs.ProtocolLiveCatch Proofs.ProtocolLiveNoStop.
From EC Require Import Model.SafetyAbs Proofs.SafetyAbsLib Proofs.SafetyAbsLocal Proofs.SafetyAbstract.
From EC Require Import Proofs.ProtocolRefinesAbs Proofs.ProtocolRefinesStep.
From EC Require Proofs.ProtocolRefinesInv.
Import ListNotations.
Open Scope Z_scope.

Section Tidy.
  Variable P : params.
  Hypothesis HP : params_ok P.
  Notation hon := (honestb P).
  Notation cfg := (pcfg P).
  Notation W := (cweights (p_C P)).
  Notation C := (p_C P).
  Variable n : Z.

  (* what an honest timeout vote reports when nothing above block n-1 is voted or certified *)
  (* the reported votes are for blocks below vb (vb = n: nothing voted above block n-1;
     vb = n + 1: block n may have been voted) *)
  Definition tidy_report_b (vb : Z) (m : timeout) : Prop :=
    (forall c, thv m = Some c -> hnum (cprop c) < vb) /\
    ((n = p_first P /\ thq m = None) \/ exists q, thq m = Some q /\ hnum (cprop (qmsg q)) = n - 1).
  Definition tidy_report (m : timeout) : Prop := tidy_report_b n m.

  Lemma implied_tidy s tq :
    preach P s -> tqc_verify (p_g P) (p_e P) C tq = Ok tt -> kt hon (g_soup s) tq ->
    (forall q, gq (cfg 0) hon (g_soup s) q -> hnum (cprop (qmsg q)) < n) ->
    (forall h m, hon h = true -> In {| m_key := h; m_sig_ok := true; m_msg := MTimeout m |} (g_soup s) ->
       tview m = tqview tq -> tidy_report m) ->
    p_first P <= n ->
    forall n' oh, get_implied_block (E := unit) true C (p_first P) (JTimeout tq) = Ok (n', oh) ->
    n' = n /\ oh = None.
  Proof.
    intros Hr Hv Hkt HT0 HTM Hfn n' oh Hi.
    destruct (ProtocolRefinesInv.preach_inv P HP s Hr) as [a G].
    pose proof (committee_ok_W P HP) as Hok. pose proof (ProtocolRefinesInv.gi_reach _ _ _ G) as Ha.
    pose proof (ProtocolRefinesInv.gt_valid P (g_soup s) (g_plog s) a tq
                  (ProtocolRefinesInv.gi_commit _ _ _ G) (ProtocolRefinesInv.gi_timeout _ _ _ G)
                  (ProtocolRefinesInv.gi_votes _ _ _ G) (ProtocolRefinesInv.gi_tmos _ _ _ G) Hv Hkt) as Hval.
    assert (Hjv : justification_verify (p_g P) (p_e P) C (JTimeout tq) = Ok tt) by (apply justification_verify_iff; exact Hv).
    pose proof (implied_abs P HP (JTimeout tq) n' oh Hjv Hi) as Himp. cbn [abs_just is_implied] in Himp.
    destruct Himp as (hv & hqc & Hhv & Hhq & Hr0).
    destruct (tqc_verify_parts P tq Hv) as (Hen & _). rewrite Forall_forall in Hen.
    destruct Hkt as [Hka Hkm].
    (* every reported certificate is good, hence for a block below n *)
    assert (Hq_lt : forall en q, In en (tqmap tq) -> thq (fst en) = Some q -> hnum (cprop (qmsg q)) < n).
    { intros en q Hin Hq. apply HT0. split.
      - destruct (Hen en Hin) as (_ & _ & _ & Htv). apply timeout_verify_iff in Htv. destruct Htv as (_ & _ & Htv). auto.
      - exact (Hkm en Hin q Hq). }
    (* honest signers' reports are tidy *)
    assert (Hhon : forall en i, In en (tqmap tq) -> nth_error (snd en) i = Some true -> honest W (abyz P) i ->
              tidy_report (fst en)).
    { intros en i Hin Hb Hh. pose proof (tsigner_sig P tq en i Hv Hin Hb) as Hs.
      apply (HTM (key_of P i) (fst en) (honest_key P i Hh) (Hka _ _ Hs (honest_key P i Hh))).
      apply (Hen en Hin). }
    destruct Hval as (V1 & V2 & V3 & V4 & V5).
    (* some signer is honest *)
    destruct (quorum_has_honest W (abyz P) Hok _ V1 V2 V3) as (i0 & Hi0 & Hh0).
    apply in_map_iff in Hi0. destruct Hi0 as ([i0' r0] & Hf0 & Hin0). cbn [fst] in Hf0. subst i0'.
    cbn [abs_tqc at_entries] in Hin0. apply in_abs_entries in Hin0. destruct Hin0 as (en0 & Hen0 & Hb0 & ->).
    pose proof (Hhon en0 i0 Hen0 Hb0 Hh0) as [_ Htq0].
    (* the high commit certificate *)
    assert (Hfresh : match hqc with Some c => bnum (aq_block c) + 1 | None => p_first P end = n).
    { destruct hqc as [c|]; cbn [is_high_qc] in Hhq.
      - destruct Hhq as [(i & r & Hin & Hrq) Hmax].
        cbn [abs_tqc at_entries] in Hin. apply in_abs_entries in Hin. destruct Hin as (en & Hin & Hb & ->).
        cbn [abs_report ar_hq] in Hrq. destruct (thq (fst en)) as [q|] eqn:Eq; [|discriminate]. cbn [option_map] in Hrq.
        inversion Hrq; subst c. cbn [abs_cqc aq_block abs_hdr bnum].
        pose proof (Hq_lt en q Hin Eq) as Hlt.
        destruct Htq0 as [[En0 _]|(q0 & Eq0 & Hn0)].
        + (* no block below the first one can be certified *)
          exfalso.
          assert (Hvq : valid_cqc W (abyz P) a (abs_cqc q)) by (apply (V5 i (abs_report (fst en))); [cbn [abs_tqc at_entries]; apply in_abs_entries; eauto|cbn [abs_report ar_hq]; rewrite Eq; reflexivity]).
          destruct (valid_cqc_honest_vote W (abyz P) Hok a _ Hvq) as (i' & cq & _ & _ & Hvin).
          destruct (invariants_reachable W (abyz P) (p_first P) Hok a Ha) as [L _].
          pose proof (li_first _ _ _ _ L _ Hvin) as Hf. cbn [v_block abs_cqc aq_block abs_hdr bnum] in Hf. lia.
        + assert (Hle : vnum (cview (qmsg q0)) <= vnum (cview (qmsg q))).
          { apply (Hmax i0 (abs_report (fst en0)) (abs_cqc q0)).
            - cbn [abs_tqc at_entries]. apply in_abs_entries. eauto.
            - cbn [abs_report ar_hq]. rewrite Eq0. reflexivity. }
          assert (Hv0 : valid_cqc W (abyz P) a (abs_cqc q0)).
          { apply (V5 i0 (abs_report (fst en0))); [cbn [abs_tqc at_entries]; apply in_abs_entries; eauto|cbn [abs_report ar_hq]; rewrite Eq0; reflexivity]. }
          assert (Hvq : valid_cqc W (abyz P) a (abs_cqc q)).
          { apply (V5 i (abs_report (fst en))); [cbn [abs_tqc at_entries]; apply in_abs_entries; eauto|cbn [abs_report ar_hq]; rewrite Eq; reflexivity]. }
          destruct (certificates_monotone W (abyz P) (p_first P) Hok a _ _ Ha Hv0 Hvq Hle) as [Hmon _].
          cbn [abs_cqc aq_block abs_hdr bnum] in Hmon. lia.
      - destruct Htq0 as [[En0 _]|(q0 & Eq0 & _)]; [lia|]. exfalso.
        assert (Hnone : ar_hq (abs_report (fst en0)) = None).
        { apply (Hhq i0). cbn [abs_tqc at_entries]. apply in_abs_entries. eauto. }
        cbn [abs_report ar_hq] in Hnone. rewrite Eq0 in Hnone. discriminate. }
    (* the high vote, if any, is for a block below n *)
    assert (Hhvn : forall b, hv = Some b -> bnum b < n).
    { intros b E. subst hv. destruct Hhv as [Hsub _]. unfold subquorum_block in Hsub.
      destruct (heavy_has_honest W (abyz P) Hok (reporters (abs_tqc tq) b)) as (i & Hii & Hh).
      - apply reporters_NoDup. exact V1.
      - apply reporters_Forall. exact V2.
      - pose proof (two_f_below_s W (abyz P) Hok) as H2. pose proof (thr_facts W (abyz P) Hok) as (H0 & _). lia.
      - apply reporters_in in Hii. destruct Hii as (r & u & Hin & Hrv).
        cbn [abs_tqc at_entries] in Hin. apply in_abs_entries in Hin. destruct Hin as (en & Hin & Hb & ->).
        cbn [abs_report ar_hv] in Hrv. destruct (thv (fst en)) as [c|] eqn:Ec; [|discriminate]. cbn [abs_hv option_map] in Hrv.
        destruct (Hhon en i Hin Hb Hh) as [Hc _]. specialize (Hc c Ec).
        injection Hrv as _ Hbb. subst b. cbn [abs_hdr bnum]. exact Hc. }
    unfold implied_of in Hr0. rewrite Hfresh in Hr0.
    destruct hv as [b|].
    - specialize (Hhvn b eq_refl). destruct hqc as [c|].
      + assert (El : (bnum (aq_block c) <? bnum b) = false) by (apply Z.ltb_ge; lia). rewrite El in Hr0.
        inversion Hr0. auto.
      + exfalso.
        (* a voted block is not below the first one *)
        destruct Hhv as [Hsub _]. unfold subquorum_block in Hsub.
        destruct (heavy_has_honest W (abyz P) Hok (reporters (abs_tqc tq) b)) as (i & Hii & Hh).
        * apply reporters_NoDup. exact V1.
        * apply reporters_Forall. exact V2.
        * pose proof (two_f_below_s W (abyz P) Hok) as H2. pose proof (thr_facts W (abyz P) Hok) as (H0 & _). lia.
        * apply reporters_in in Hii. destruct Hii as (r & u & Hin & Hrv).
          pose proof (V4 i r Hin Hh) as Htm.
          destruct (invariants_reachable W (abyz P) (p_first P) Hok a Ha) as [L _].
          pose proof (li_thv _ _ _ _ L _ Htm) as Hthv. unfold tmo_hv_ok in Hthv. cbn [t_report] in Hthv. rewrite Hrv in Hthv.
          destruct Hthv as (_ & (cq & Hvin) & _).
          pose proof (li_first _ _ _ _ L _ Hvin) as Hf. cbn [v_block] in Hf. lia.
    - inversion Hr0. auto.
  Qed.

  (* when block n may have been voted (but nothing above it), the implied block is still number
     n: the new block n or the forced re-proposal of a voted block n *)
  Lemma implied_tidy_le s tq :
    preach P s -> tqc_verify (p_g P) (p_e P) C tq = Ok tt -> kt hon (g_soup s) tq ->
    (forall q, gq (cfg 0) hon (g_soup s) q -> hnum (cprop (qmsg q)) < n) ->
    (forall h m, hon h = true -> In {| m_key := h; m_sig_ok := true; m_msg := MTimeout m |} (g_soup s) ->
       tview m = tqview tq -> tidy_report_b (n + 1) m) ->
    p_first P <= n ->
    forall n' oh, get_implied_block (E := unit) true C (p_first P) (JTimeout tq) = Ok (n', oh) ->
    n' = n.
  Proof.
    intros Hr Hv Hkt HT0 HTM Hfn n' oh Hi.
    destruct (ProtocolRefinesInv.preach_inv P HP s Hr) as [a G].
    pose proof (committee_ok_W P HP) as Hok. pose proof (ProtocolRefinesInv.gi_reach _ _ _ G) as Ha.
    pose proof (ProtocolRefinesInv.gt_valid P (g_soup s) (g_plog s) a tq
                  (ProtocolRefinesInv.gi_commit _ _ _ G) (ProtocolRefinesInv.gi_timeout _ _ _ G)
                  (ProtocolRefinesInv.gi_votes _ _ _ G) (ProtocolRefinesInv.gi_tmos _ _ _ G) Hv Hkt) as Hval.
    assert (Hjv : justification_verify (p_g P) (p_e P) C (JTimeout tq) = Ok tt) by (apply justification_verify_iff; exact Hv).
    pose proof (implied_abs P HP (JTimeout tq) n' oh Hjv Hi) as Himp. cbn [abs_just is_implied] in Himp.
    destruct Himp as (hv & hqc & Hhv & Hhq & Hr0).
    destruct (tqc_verify_parts P tq Hv) as (Hen & _). rewrite Forall_forall in Hen.
    destruct Hkt as [Hka Hkm].
    assert (Hq_lt : forall en q, In en (tqmap tq) -> thq (fst en) = Some q -> hnum (cprop (qmsg q)) < n).
    { intros en q Hin Hq. apply HT0. split.
      - destruct (Hen en Hin) as (_ & _ & _ & Htv). apply timeout_verify_iff in Htv. destruct Htv as (_ & _ & Htv). auto.
      - exact (Hkm en Hin q Hq). }
    assert (Hhon : forall en i, In en (tqmap tq) -> nth_error (snd en) i = Some true -> honest W (abyz P) i ->
              tidy_report_b (n + 1) (fst en)).
    { intros en i Hin Hb Hh. pose proof (tsigner_sig P tq en i Hv Hin Hb) as Hs.
      apply (HTM (key_of P i) (fst en) (honest_key P i Hh) (Hka _ _ Hs (honest_key P i Hh))).
      apply (Hen en Hin). }
    destruct Hval as (V1 & V2 & V3 & V4 & V5).
    destruct (quorum_has_honest W (abyz P) Hok _ V1 V2 V3) as (i0 & Hi0 & Hh0).
    apply in_map_iff in Hi0. destruct Hi0 as ([i0' r0] & Hf0 & Hin0). cbn [fst] in Hf0. subst i0'.
    cbn [abs_tqc at_entries] in Hin0. apply in_abs_entries in Hin0. destruct Hin0 as (en0 & Hen0 & Hb0 & ->).
    pose proof (Hhon en0 i0 Hen0 Hb0 Hh0) as [_ Htq0].
    assert (Hfresh : match hqc with Some c => bnum (aq_block c) + 1 | None => p_first P end = n).
    { destruct hqc as [c|]; cbn [is_high_qc] in Hhq.
      - destruct Hhq as [(i & r & Hin & Hrq) Hmax].
        cbn [abs_tqc at_entries] in Hin. apply in_abs_entries in Hin. destruct Hin as (en & Hin & Hb & ->).
        cbn [abs_report ar_hq] in Hrq. destruct (thq (fst en)) as [q|] eqn:Eq; [|discriminate]. cbn [option_map] in Hrq.
        inversion Hrq; subst c. cbn [abs_cqc aq_block abs_hdr bnum].
        pose proof (Hq_lt en q Hin Eq) as Hlt.
        destruct Htq0 as [[En0 _]|(q0 & Eq0 & Hn0)].
        + exfalso.
          assert (Hvq : valid_cqc W (abyz P) a (abs_cqc q)) by (apply (V5 i (abs_report (fst en))); [cbn [abs_tqc at_entries]; apply in_abs_entries; eauto|cbn [abs_report ar_hq]; rewrite Eq; reflexivity]).
          destruct (valid_cqc_honest_vote W (abyz P) Hok a _ Hvq) as (i' & cq & _ & _ & Hvin).
          destruct (invariants_reachable W (abyz P) (p_first P) Hok a Ha) as [L _].
          pose proof (li_first _ _ _ _ L _ Hvin) as Hf. cbn [v_block abs_cqc aq_block abs_hdr bnum] in Hf. lia.
        + assert (Hle : vnum (cview (qmsg q0)) <= vnum (cview (qmsg q))).
          { apply (Hmax i0 (abs_report (fst en0)) (abs_cqc q0)).
            - cbn [abs_tqc at_entries]. apply in_abs_entries. eauto.
            - cbn [abs_report ar_hq]. rewrite Eq0. reflexivity. }
          assert (Hv0 : valid_cqc W (abyz P) a (abs_cqc q0)).
          { apply (V5 i0 (abs_report (fst en0))); [cbn [abs_tqc at_entries]; apply in_abs_entries; eauto|cbn [abs_report ar_hq]; rewrite Eq0; reflexivity]. }
          assert (Hvq : valid_cqc W (abyz P) a (abs_cqc q)).
          { apply (V5 i (abs_report (fst en))); [cbn [abs_tqc at_entries]; apply in_abs_entries; eauto|cbn [abs_report ar_hq]; rewrite Eq; reflexivity]. }
          destruct (certificates_monotone W (abyz P) (p_first P) Hok a _ _ Ha Hv0 Hvq Hle) as [Hmon _].
          cbn [abs_cqc aq_block abs_hdr bnum] in Hmon. lia.
      - destruct Htq0 as [[En0 _]|(q0 & Eq0 & _)]; [lia|]. exfalso.
        assert (Hnone : ar_hq (abs_report (fst en0)) = None).
        { apply (Hhq i0). cbn [abs_tqc at_entries]. apply in_abs_entries. eauto. }
        cbn [abs_report ar_hq] in Hnone. rewrite Eq0 in Hnone. discriminate. }
    (* the high vote, if any, is for a block not above n and not below the first block *)
    assert (Hhvn : forall b, hv = Some b -> p_first P <= bnum b <= n).
    { intros b E. subst hv. destruct Hhv as [Hsub _]. unfold subquorum_block in Hsub.
      destruct (heavy_has_honest W (abyz P) Hok (reporters (abs_tqc tq) b)) as (i & Hii & Hh).
      - apply reporters_NoDup. exact V1.
      - apply reporters_Forall. exact V2.
      - pose proof (two_f_below_s W (abyz P) Hok) as H2. pose proof (thr_facts W (abyz P) Hok) as (H0 & _). lia.
      - apply reporters_in in Hii. destruct Hii as (r & u & Hin & Hrv).
        pose proof (V4 i r Hin Hh) as Htm.
        destruct (invariants_reachable W (abyz P) (p_first P) Hok a Ha) as [L _].
        pose proof (li_thv _ _ _ _ L _ Htm) as Hthv. unfold tmo_hv_ok in Hthv. cbn [t_report] in Hthv. rewrite Hrv in Hthv.
        destruct Hthv as (_ & (cq & Hvin) & _).
        pose proof (li_first _ _ _ _ L _ Hvin) as Hf. cbn [v_block] in Hf.
        cbn [abs_tqc at_entries] in Hin. apply in_abs_entries in Hin. destruct Hin as (en & Hin & Hb & ->).
        cbn [abs_report ar_hv] in Hrv. destruct (thv (fst en)) as [c|] eqn:Ec; [|discriminate]. cbn [abs_hv option_map] in Hrv.
        destruct (Hhon en i Hin Hb Hh) as [Hc _]. specialize (Hc c Ec).
        injection Hrv as _ Hbb. subst b. cbn [abs_hdr bnum] in *. lia. }
    unfold implied_of in Hr0. rewrite Hfresh in Hr0.
    destruct hv as [b|].
    - specialize (Hhvn b eq_refl). destruct hqc as [c|].
      + destruct (bnum (aq_block c) <? bnum b) eqn:El; inversion Hr0; [|reflexivity].
        apply Z.ltb_lt in El. lia.
      + inversion Hr0. lia.
    - inversion Hr0. reflexivity.
  Qed.

  Lemma gq_ge_first s q : preach P s -> gq (cfg 0) hon (g_soup s) q -> p_first P <= hnum (cprop (qmsg q)).
  Proof.
    intros Hr Hq. destruct (ProtocolRefinesInv.preach_inv P HP s Hr) as [a G].
    pose proof (ProtocolRefinesInv.gq_valid P (g_soup s) (g_plog s) a q
                  (ProtocolRefinesInv.gi_commit _ _ _ G) (ProtocolRefinesInv.gi_votes _ _ _ G) Hq) as Hv.
    pose proof (committee_ok_W P HP) as Hok. pose proof (ProtocolRefinesInv.gi_reach _ _ _ G) as Ha.
    destruct (valid_cqc_honest_vote W (abyz P) Hok a _ Hv) as (i' & cq & _ & _ & Hvin).
    destruct (invariants_reachable W (abyz P) (p_first P) Hok a Ha) as [L _].
    pose proof (li_first _ _ _ _ L _ Hvin) as Hf. cbn [v_block abs_cqc aq_block abs_hdr bnum] in Hf. exact Hf.
  Qed.

  Lemma gq_mono_number s q q' : preach P s -> gq (cfg 0) hon (g_soup s) q -> gq (cfg 0) hon (g_soup s) q' ->
    vnum (cview (qmsg q)) <= vnum (cview (qmsg q')) -> hnum (cprop (qmsg q)) <= hnum (cprop (qmsg q')).
  Proof.
    intros Hr Hq Hq' Hle. destruct (ProtocolRefinesInv.preach_inv P HP s Hr) as [a G].
    pose proof (ProtocolRefinesInv.gq_valid P (g_soup s) (g_plog s) a q
                  (ProtocolRefinesInv.gi_commit _ _ _ G) (ProtocolRefinesInv.gi_votes _ _ _ G) Hq) as Hv.
    pose proof (ProtocolRefinesInv.gq_valid P (g_soup s) (g_plog s) a q'
                  (ProtocolRefinesInv.gi_commit _ _ _ G) (ProtocolRefinesInv.gi_votes _ _ _ G) Hq') as Hv'.
    pose proof (committee_ok_W P HP) as Hok. pose proof (ProtocolRefinesInv.gi_reach _ _ _ G) as Ha.
    destruct (certificates_monotone W (abyz P) (p_first P) Hok a _ _ Ha Hv Hv' Hle) as [Hmon _].
    exact Hmon.
  Qed.

  (* the tidy part of a node state *)
  Definition hv_ok_b (vb : Z) (st : rstate) : Prop := forall c, r_high_vote st = Some c -> hnum (cprop c) < vb.
  Definition hv_ok (st : rstate) : Prop := hv_ok_b n st.
  Definition cq_ok (st : rstate) : Prop :=
    (n = p_first P /\ r_high_cqc st = None) \/ exists q, r_high_cqc st = Some q /\ hnum (cprop (qmsg q)) = n - 1.
  Definition tidy_node_b (vb : Z) (st : rstate) : Prop := hv_ok_b vb st /\ cq_ok st.
  Definition tidy_node (st : rstate) : Prop := tidy_node_b n st.

  Lemma tidy_node_report_b vb st v : tidy_node_b vb st ->
    tidy_report_b vb {| tview := v; thv := r_high_vote st; thq := r_high_cqc st |}.
  Proof. intros [H1 H2]. split; [exact H1|exact H2]. Qed.
  Lemma tidy_node_report st v : tidy_node st ->
    tidy_report {| tview := v; thv := r_high_vote st; thq := r_high_cqc st |}.
  Proof. apply tidy_node_report_b. Qed.

  (* kept by a step that does not vote, in a reachable state whose certificates are below n *)
  Lemma tidy_node_keep_b vb s0 st st' :
    preach P s0 -> (forall q, gq (cfg 0) hon (g_soup s0) q -> hnum (cprop (qmsg q)) < n) ->
    (forall q, r_high_cqc st = Some q -> gq (cfg 0) hon (g_soup s0) q) ->
    (forall q, r_high_cqc st' = Some q -> gq (cfg 0) hon (g_soup s0) q) ->
    ReplicaMono.st_le st st' -> r_high_vote st' = r_high_vote st ->
    tidy_node_b vb st -> tidy_node_b vb st'.
  Proof.
    intros Hr0 HT0 Hg Hg' (_ & Hle & _) Ehv [H1 H2]. split; [unfold hv_ok_b; rewrite Ehv; exact H1|].
    destruct H2 as [[En E0]|(q & Eq & Hn)].
    - destruct (r_high_cqc st') as [q'|] eqn:Eq'; [|left; split; [exact En|first [reflexivity|exact Eq']]]. exfalso.
      assert (Hgq' : gq (cfg 0) hon (g_soup s0) q') by (first [apply (Hg' q' eq_refl)|apply (Hg' q' Eq')]).
      pose proof (HT0 q' Hgq'). pose proof (gq_ge_first s0 q' Hr0 Hgq'). lia.
    - rewrite Eq in Hle. destruct (r_high_cqc st') as [q'|] eqn:Eq'; cbn in Hle; [|contradiction].
      right. exists q'. split; [first [reflexivity|exact Eq']|].
      assert (Hgq' : gq (cfg 0) hon (g_soup s0) q') by (first [apply (Hg' q' eq_refl)|apply (Hg' q' Eq')]).
      pose proof (HT0 q' Hgq').
      pose proof (gq_mono_number s0 q q' Hr0 (Hg q Eq) Hgq' Hle). lia.
  Qed.
  Lemma tidy_node_keep s0 st st' :
    preach P s0 -> (forall q, gq (cfg 0) hon (g_soup s0) q -> hnum (cprop (qmsg q)) < n) ->
    (forall q, r_high_cqc st = Some q -> gq (cfg 0) hon (g_soup s0) q) ->
    (forall q, r_high_cqc st' = Some q -> gq (cfg 0) hon (g_soup s0) q) ->
    ReplicaMono.st_le st st' -> r_high_vote st' = r_high_vote st ->
    tidy_node st -> tidy_node st'.
  Proof. apply tidy_node_keep_b. Qed.
End Tidy.
