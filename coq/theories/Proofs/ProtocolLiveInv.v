(* C06 on the protocol model, part 2: the single-replica invariants needed for catching up,
   lifted to all reachable global states: the certificates a node holds verify
   (Proofs/ReplicaJustified.v), its caches are well formed (Proofs/ReplicaCaches.v), and beyond
   view 0 a node that has not stopped holds a certificate for at least view - 1 — so the
   new-view message it (re)transmits is for at least its own view. *)
From Coq Require Import ZArith List Bool Lia.
From EC Require Import Lib.Outcome Lib.U64 Lib.ListW Lib.Obs Model.Msgs Model.Replica Model.ReplicaRun
  Model.Protocol Model.ProtocolSync Proofs.QCProofs Proofs.ReplicaMono Proofs.ReplicaLive
  Proofs.ReplicaCrash Proofs.ProtocolLive.
From EC Require Proofs.ReplicaCaches Proofs.ReplicaJustified.
Import ListNotations.
Open Scope Z_scope.

Module RC := ReplicaCaches.
Module RJ := ReplicaJustified.

(* ================================================================== *)
(* 1. a durable write is followed by a failure only in the timer handler *)
(* ================================================================== *)
Definition PO {A} (x : hres A) : Prop := Forall quiet_eff (snd (fst x)) \/ is_ok (snd x) = true.

Lemma PO_bind {A B} s0 (x : hres A) (f : rstate -> A -> hres B) :
  hq s0 x -> (forall s1 a, PO (f s1 a)) -> PO (hbind x f).
Proof.
  destruct x as [[s1 es1] r1]. unfold hq; cbn [fst snd]. intros (_ & Hq) Hf. unfold hbind.
  destruct r1 as [a|e|p]; try (left; exact Hq).
  specialize (Hf s1 a). destruct (f s1 a) as [[s2 es2] r2]. unfold PO in *; cbn [fst snd] in *.
  destruct Hf as [Hf|Hf]; [left; apply Forall_app; split; assumption|right; exact Hf].
Qed.

Lemma PO_nil {A} s (r : outcome rerr A) : PO (s, [], r).
Proof. left. constructor. Qed.

Lemma start_new_view_PO cfg s v : PO (start_new_view cfg s v).
Proof.
  unfold start_new_view. destruct (get_justification _) as [j|e|p]; try apply PO_nil.
  unfold hbind, hemit, backup_state. destruct (r_high_cqc _); right; reflexivity.
Qed.

Ltac po_match :=
  match goal with
  | |- PO (if ?c then _ else _) => destruct c eqn:?
  | |- PO (match ?x with _ => _ end) => destruct x eqn:?
  end; try (unfold hfail, hpanic, hret; apply PO_nil).

Lemma on_proposal_PO cfg s key sig_ok payload j : PO (on_proposal cfg s key sig_ok payload j).
Proof.
  unfold on_proposal. apply (PO_bind s); [apply hq_lift, core_eq_refl|]. intros s1 mv. cbv zeta.
  do 4 po_match.
  apply (PO_bind s1); [apply hq_lift, core_eq_refl|]. intros s2 [n oh].
  po_match.
  apply (PO_bind s2).
  - destruct oh; destruct payload; try (apply hq_fail, core_eq_refl); try (apply hq_ret, core_eq_refl).
    destruct (cmaxpay cfg <? cpsize cfg z); [apply hq_fail, core_eq_refl|].
    destruct ((0 <? n) && negb (n - 1 <? r_store_next s2)); [apply hq_fail, core_eq_refl|].
    destruct (negb ((cfirst cfg <=? n) && cpok cfg n z)); [apply hq_fail, core_eq_refl|].
    apply hq_ret. ce.
  - intros s3 hash.
    match goal with |- PO (hbind (process_justification cfg ?s4 j) _) =>
      apply (PO_bind s4); [apply hq_process_justification, core_eq_refl|] end.
    intros s5 _. right. reflexivity.
Qed.

Lemma tail_PO cfg s v : PO (hbind (lift s (num_next (cchk cfg) v)) (fun s nv => start_new_view cfg s nv)).
Proof. apply (PO_bind s); [apply hq_lift, core_eq_refl|]. intros. apply start_new_view_PO. Qed.

Lemma on_commit_PO cfg s key sig_ok c : PO (on_commit cfg s key sig_ok c).
Proof.
  unfold on_commit. po_match. cbv zeta. repeat po_match.
  match goal with |- PO (hbind (process_commit_qc cfg ?s2 ?q) _) =>
    apply (PO_bind s2); [apply hq_process_commit_qc, core_eq_refl|] end.
  intros. apply tail_PO.
Qed.

Lemma on_timeout_PO cfg s key sig_ok t : PO (on_timeout cfg s key sig_ok t).
Proof.
  unfold on_timeout. po_match. cbv zeta. repeat po_match.
  match goal with |- PO (hbind (process_timeout_qc cfg ?s2 ?q) _) =>
    apply (PO_bind s2); [apply hq_process_timeout_qc, core_eq_refl|] end.
  intros. apply tail_PO.
Qed.

Lemma on_new_view_PO cfg s key sig_ok j : PO (on_new_view cfg s key sig_ok j).
Proof.
  unfold on_new_view. apply (PO_bind s); [apply hq_lift, core_eq_refl|]. intros s1 mv. cbv zeta.
  do 4 po_match.
  apply (PO_bind s1); [apply hq_process_justification, core_eq_refl|]. intros s2 _.
  po_match. apply start_new_view_PO.
Qed.

Lemma rstep_PO cfg s i : just_ok s -> PO (rstep cfg s i).
Proof.
  intros Hj. destruct i as [m| |n h]; cbn [rstep].
  - destruct (m_msg m); [apply on_proposal_PO|apply on_commit_PO|apply on_timeout_PO|apply on_new_view_PO].
  - destruct (timer_always_enabled cfg s Hj) as (d & E & _). rewrite E. right. reflexivity.
  - destruct (_ =? _); [left; repeat constructor|apply PO_nil].
Qed.

(* ================================================================== *)
(* 2. the liveness invariant of one node                               *)
(* ================================================================== *)
Section LiveInv.
  Variable P : params.
  Notation cfg0 := (pcfg P 0).

  Definition dheld (d : durable) (w : Z) : Prop :=
    ole (Some w) (cqc_view (d_high_cqc d)) \/ ole (Some w) (tqc_view (d_high_tqc d)).

  Definition LI (s : rstate) : Prop :=
    RC.cache_inv cfg0 s /\ RJ.certs_ok cfg0 s /\ just_ok s /\ 0 <= r_view s /\
    (r_view s <> 0 -> RJ.justified s).
  Definition LD (d : durable) : Prop :=
    RJ.durable_ok cfg0 d /\ ReplicaLive.dur_ok d /\ 0 <= d_view d /\
    (d_view d <> 0 -> dheld d (d_view d - 1)).

  Lemma LD_backup k s : LI s -> LD (backup (pcfg P k) s).
  Proof.
    intros (_ & Hc & Hj & Hv & Hjs). split; [exact Hc|]. split; [exact Hj|]. split; [exact Hv|exact Hjs].
  Qed.

  Lemma LD_default : LD durable_default.
  Proof.
    split; [apply RJ.durable_default_ok|]. split; [apply durable_default_ok|]. split; [cbn; lia|].
    intros H. exfalso. apply H. reflexivity.
  Qed.

  Lemma LI_rstart k d f n : LD d -> LI (rstart (pcfg P k) d f n).
  Proof.
    intros (H1 & H2 & H3 & H4). split; [apply (RC.rstart_inv (pcfg P k))|].
    split; [apply (RJ.rstart_certs_ok (pcfg P k)); exact H1|].
    split; [apply rstart_just_ok; exact H2|].
    unfold rstart. destruct (d_epoch d =? ce (pcfg P k)); cbn [r_view]; [|split; [cbn; lia|intros H; exfalso; apply H; reflexivity]].
    split; [exact H3|]. exact H4.
  Qed.

  (* a step that keeps the view keeps "justified" (certificates only grow) *)
  Lemma justified_same_view s s' : st_le s s' -> r_view s' = r_view s ->
    (r_view s <> 0 -> RJ.justified s) -> (r_view s' <> 0 -> RJ.justified s').
  Proof.
    intros Hle Hv Hj Hv'. unfold RJ.justified. rewrite Hv. apply (RJ.held_mono s s'); [exact Hle|].
    apply Hj. congruence.
  Qed.

  Lemma rstep_t_le cfg s i : cchk cfg = true -> st_le s (st_of (rstep_t cfg s i)).
  Proof.
    intros Hc. unfold rstep_t. pose proof (rstep_monotone cfg s i Hc) as H.
    destruct (rstep cfg s i) as [[s' es] r]. unfold st_of in *; cbn [fst] in *.
    destruct r as [a|err|p]; cbn [fst]; try exact H. destruct err; cbn [fst]; try exact H.
    pose proof (start_timeout_le cfg s') as Ht. destruct (start_timeout cfg s') as [[s2 es2] r2].
    unfold st_of in Ht; cbn [fst] in *. eapply st_le_trans; eassumption.
  Qed.

  (* the persisted state of a step is the final state *)
  Lemma shape_persist {A} (R : outcome rerr A -> Prop) mono cfg s s' es r d :
    shape R mono cfg s (s', es, r) -> In (EPersist d) es -> d = backup cfg s' /\ ~ Forall quiet_eff es.
  Proof.
    unfold shape. intros [(Hq & _)|[(qs & c & -> & Hq & _)|(qs & rest & -> & Hq & _ & Hr & _)]] Hin.
    - rewrite Forall_forall in Hq. destruct (Hq _ Hin).
    - split.
      + apply in_app_or in Hin. destruct Hin as [Hin|[Hin|[Hin|[]]]].
        * rewrite Forall_forall in Hq. destruct (Hq _ Hin).
        * inversion Hin; reflexivity.
        * discriminate.
      + intros Hall. apply Forall_app in Hall. destruct Hall as [_ Hall]. inversion Hall as [|? ? Hx _]. destruct Hx.
    - split.
      + apply in_app_or in Hin. destruct Hin as [Hin|[Hin|Hin]].
        * rewrite Forall_forall in Hq. destruct (Hq _ Hin).
        * inversion Hin; reflexivity.
        * rewrite Forall_forall in Hr. specialize (Hr _ Hin). destruct Hr.
      + intros Hall. apply Forall_app in Hall. destruct Hall as [_ Hall]. inversion Hall as [|? ? Hx _]. destruct Hx.
  Qed.

  Lemma rstep_t_cases cfg s i s' es r : rstep_t cfg s i = (s', es, r) ->
    rstep cfg s i = (s', es, r) \/
    (exists s1 es1, rstep cfg s i = (s1, es1, Err RMissingPreviousPayload) /\
                    core_eq s s1 /\ r_view s' = r_view s1).
  Proof.
    unfold rstep_t. pose proof (rstep_shape cfg s i) as Hs1.
    destruct (rstep cfg s i) as [[s1 es1] r1]. intros Es.
    destruct r1 as [a|err|p]; try (left; exact Es). destruct err; try (left; exact Es).
    right. exists s1, es1. split; [reflexivity|].
    assert (Hce : core_eq s s1).
    { unfold shape in Hs1.
      destruct Hs1 as [(_ & [Hd|Hce])|[(qs & c & Hx)|(qs & rest & Hx)]]; [destruct Hd|exact Hce| |].
      - destruct Hx as (_ & _ & _ & _ & _ & _ & [HR|HR]); [discriminate HR|destruct HR].
      - destruct Hx as (_ & _ & _ & _ & [HR|HR]); [discriminate HR|destruct HR]. }
    split; [exact Hce|].
    pose proof (start_timeout_view cfg s1) as Htv. destruct (start_timeout cfg s1) as [[s2 es2] r2].
    inversion Es; subst. exact Htv.
  Qed.

  Lemma not_stopped_cases (r : outcome rerr unit) : stops r = false -> ~ deadr r.
  Proof.
    intros H Hd. destruct r as [a|err|p]; cbn in *; [contradiction| |discriminate].
    destruct err; cbn in *; try contradiction; discriminate.
  Qed.

  Lemma LI_step k s i s' es r : LI s -> rstep_t (pcfg P k) s i = (s', es, r) ->
    persists_D LD es /\ (stops r = false -> LI s').
  Proof.
    intros (Hc & Hk & Hj & Hv & Hjs) Es.
    set (cfg := pcfg P k) in *.
    pose proof (RJ.good_rstep_t cfg s i Hc Hk) as [Hg1 Hg2].
    pose proof (RJ.rstep_t_inv' cfg s i Hc) as Hi.
    pose proof (rstep_t_just_ok cfg s i s' es r Hj Es) as [Hj' Hp'].
    pose proof (rstep_t_le cfg s i eq_refl) as Hle.
    pose proof (rstep_t_shape cfg s i) as Hsh.
    rewrite Es in Hg1, Hg2, Hi, Hle, Hsh. unfold st_of, RJ.effs_of in *. cbn [fst snd] in *.
    assert (Hv' : 0 <= r_view s') by (destruct Hle as (H & _); lia).
    (* when the step is a plain successful rstep, or the view is unchanged, the final state is justified *)
    assert (Hjust : rstep cfg s i = (s', es, Ok tt) \/ r_view s' = r_view s -> r_view s' <> 0 -> RJ.justified s').
    { intros [Ers|Hsame].
      - destruct (Z.eq_dec (r_view s') (r_view s)) as [E|NE];
          [apply (justified_same_view s s' Hle E Hjs)|].
        intros _. apply (RJ.view_change_justified cfg eq_refl s i s' es Hc Ers). destruct Hle as (H & _). lia.
      - apply (justified_same_view s s' Hle Hsame Hjs). }
    destruct (rstep_t_cases cfg s i s' es r Es) as [Ers|(s1 & es1 & Ers & Hce & Hv1)].
    - (* plain rstep *)
      pose proof (rstep_shape cfg s i) as Hs1. pose proof (rstep_PO cfg s i Hj) as Hpo.
      rewrite Ers in Hs1, Hpo. unfold PO in Hpo; cbn [fst snd] in Hpo.
      split.
      + unfold persists_D. rewrite Forall_forall. intros x Hx. destruct x as [d|m|n h|j]; try exact I.
        destruct (shape_persist _ _ _ _ _ _ _ d Hsh Hx) as [Hd Hnq]. subst d.
        destruct Hpo as [Hq|Hq]; [contradiction|].
        assert (Hr : r = Ok tt) by (destruct r as [[]| |]; try discriminate; reflexivity). subst r.
        split; [apply Hg1|]. split; [apply Hj'|]. split; [exact Hv'|].
        cbn [backup d_view d_high_cqc d_high_tqc]. apply Hjust. left. exact Ers.
      + intros Hs. apply not_stopped_cases in Hs.
        split; [exact Hi|]. split; [exact Hg1|]. split; [exact Hj'|]. split; [exact Hv'|].
        apply Hjust. unfold shape in Hs1.
        destruct Hs1 as [(_ & [Hd|Hce])|[(qs & c & Hx)|(qs & rest & Hx)]].
        * contradiction.
        * right. apply Hce.
        * destruct Hx as (_ & _ & _ & _ & _ & _ & [HR|HR]); [|contradiction].
          left. destruct r as [[]| |]; try discriminate; exact Ers.
        * destruct Hx as (_ & _ & _ & _ & [HR|HR]); [|contradiction].
          left. destruct r as [[]| |]; try discriminate; exact Ers.
    - (* the proposal missed its deadline and the timer fired: same view *)
      assert (Hsame : r_view s' = r_view s) by (rewrite Hv1; apply Hce).
      split.
      + unfold persists_D. rewrite Forall_forall. intros x Hx. destruct x as [d|m|n h|j]; try exact I.
        destruct (shape_persist _ _ _ _ _ _ _ d Hsh Hx) as [Hd _]. subst d.
        split; [apply Hg1|]. split; [apply Hj'|]. split; [exact Hv'|].
        cbn [backup d_view d_high_cqc d_high_tqc]. apply Hjust. right. exact Hsame.
      + intros _. split; [exact Hi|]. split; [exact Hg1|]. split; [exact Hj'|]. split; [exact Hv'|].
        apply Hjust. right. exact Hsame.
  Qed.

  Lemma LI_prologue k s s' es r : LI s -> rprologue (pcfg P k) s = (s', es, r) ->
    persists_D LD es /\ (is_ok r = true -> LI s').
  Proof.
    intros HI Ep. unfold rprologue in Ep. destruct (r_view s =? 0) eqn:E0.
    - (* start_timeout = the timer step *)
      assert (Es : rstep_t (pcfg P k) s ITimer = (s', es, r)).
      { unfold rstep_t. cbn [rstep]. rewrite Ep. destruct r as [a|err|p]; try reflexivity.
        destruct err; try reflexivity.
        destruct HI as (_ & _ & Hj & _). destruct (timer_always_enabled (pcfg P k) s Hj) as (d & E & _).
        rewrite E in Ep. inversion Ep. }
      destruct (LI_step k s ITimer s' es r HI Es) as [H1 H2]. split; [exact H1|].
      intros Hok. apply H2. destruct r; cbn in *; try discriminate. reflexivity.
    - unfold hret in Ep. inversion Ep; subst. split; [constructor|]. intros _. exact HI.
  Qed.

  Theorem preach_LI s : preach P s -> forall k, node_ok LI LD (g_node s k).
  Proof.
    apply (preach_node_ok P LI LD).
    - exact LI_step.
    - exact LI_prologue.
    - exact LI_rstart.
    - exact LD_default.
  Qed.
End LiveInv.

(* ================================================================== *)
(* 3. what a retransmission announces; catching up in two rounds       *)
(* ================================================================== *)
Definition just_vnum (j : justification) : Z :=
  match j with JCommit q => vnum (cview (qmsg q)) | JTimeout t => vnum (tqview t) end.

Lemma justification_view_ok j : just_vnum j + 1 < U64 ->
  exists mv, justification_view (E := unit) true j = Ok mv /\ vnum mv = just_vnum j + 1.
Proof.
  intros H. unfold justification_view, num_next, u64_add.
  destruct j as [q|t]; cbn [just_vnum] in H.
  - destruct (Z.ltb_spec (vnum (cview (qmsg q)) + 1) U64) as [_|Hge]; [|lia].
    cbn [bind]. eexists; split; reflexivity.
  - destruct (Z.ltb_spec (vnum (tqview t) + 1) U64) as [_|Hge]; [|lia].
    cbn [bind]. eexists; split; reflexivity.
Qed.

(* a verifying new-view message of a committee member for a view >= V is on the network *)
Definition announced (P : params) (s : gstate) (V : Z) : Prop :=
  exists i0 key j mv,
    nth_error (g_soup s) i0 = Some {| m_key := key; m_sig_ok := true; m_msg := MNewView j |} /\
    is_member P key = true /\
    justification_view (E := unit) true j = Ok mv /\
    justification_verify (p_g P) (p_e P) (p_C P) j = Ok tt /\ V <= vnum mv.

Section Announce.
  Variable P : params.
  Variable pay : Z -> Z.
  Variable fetch : gstate -> Z -> option cqc.

  (* headroom for the certificate a node would send: its view number can still be incremented *)
  Definition cert_headroom (s : gstate) (k : Z) : Prop :=
    forall j, get_justification (n_live (g_node s k)) = Ok j -> just_vnum j + 1 < U64.

  Lemma honest_member k : honestb P k = true -> is_member P k = true.
  Proof. unfold honestb. intros H. apply andb_true_iff in H. apply H. Qed.

  (* the justification a justified node holds is for at least its view - 1 *)
  Lemma justified_highest s j : RJ.certs_ok (pcfg P 0) s -> RJ.justified s ->
    get_justification s = Ok j -> r_view s - 1 <= just_vnum j.
  Proof.
    intros Hc Hj Ej. pose proof (RJ.get_justification_highest (pcfg P 0) s j Hc Ej) as Hh.
    unfold RJ.justified, RJ.held_at_least in Hj.
    destruct j as [q|t]; cbn [just_vnum]; destruct Hh as [Hq Hmax].
    - rewrite Hq in Hj. cbn [cqc_view option_map ole] in Hj. destruct Hj as [Hj|Hj]; [exact Hj|].
      destruct (r_high_tqc s) as [t|] eqn:Et; cbn [tqc_view option_map ole] in Hj; [|contradiction].
      specialize (Hmax t eq_refl). lia.
    - rewrite Hq in Hj. cbn [tqc_view option_map ole] in Hj. destruct Hj as [Hj|Hj]; [|exact Hj].
      destruct (r_high_cqc s) as [q|] eqn:Eq; cbn [cqc_view option_map ole] in Hj; [|contradiction].
      specialize (Hmax q eq_refl). lia.
  Qed.

  (* a running honest node that has retransmitted has announced (at least) its own view *)
  Theorem retransmitted_announces s k :
    preach P s -> honestb P k = true -> n_alive (g_node s k) = true ->
    retransmitted P s k -> cert_headroom s k ->
    r_view (n_live (g_node s k)) = 0 \/ announced P s (r_view (n_live (g_node s k))).
  Proof.
    intros Hr Hk Hal (_ & _ & Hnv) Hhr.
    destruct (preach_LI P s Hr k) as [_ HI]. specialize (HI Hal).
    destruct HI as (_ & Hc & _ & Hv & Hj).
    set (live := n_live (g_node s k)) in *.
    destruct (Z.eq_dec (r_view live) 0) as [E0|NE0].
    - left. exact E0.
    - right. destruct (Hnv NE0) as (j & Ej & Hin). unfold sent_by in Hin.
      apply In_nth_error in Hin. destruct Hin as [i0 Hi0].
      destruct (justification_view_ok j (Hhr j Ej)) as (mv & Emv & Hmv).
      exists i0, k, j, mv. split; [exact Hi0|]. split; [apply honest_member; exact Hk|].
      split; [exact Emv|]. split; [exact (RJ.get_justification_ok (pcfg P 0) live j Hc Ej)|].
      pose proof (justified_highest live j Hc (Hj NE0) Ej). lia.
  Qed.

  (* announced views are reached by everybody within one round *)
  Theorem announced_catch_up s V k :
    announced P s V -> honestb P k = true -> n_alive (g_node (sync_round P pay fetch s) k) = true ->
    V <= r_view (n_live (g_node (sync_round P pay fetch s) k)).
  Proof.
    intros (i0 & key & j & mv & Hn & Hm & Hv & Hver & Hle) Hk Hal.
    pose proof (catch_up_round P pay fetch s i0 key j mv k Hm Hv Hver Hn Hk Hal). lia.
  Qed.

  (* Catching up in two rounds: a node that is running at the end of a round in which its view
     did not change has retransmitted; in the next round every running honest node reaches its
     view. *)
  Theorem catch_up_two_rounds s h k :
    preach P s -> honestb P h = true -> honestb P k = true ->
    let s1 := sync_round P pay fetch s in
    let s2 := sync_round P pay fetch s1 in
    n_alive (g_node s1 h) = true ->
    r_view (n_live (g_node s1 h)) = r_view (n_live (g_node (revive_all P s) h)) ->
    cert_headroom s1 h ->
    n_alive (g_node s2 k) = true ->
    r_view (n_live (g_node s1 h)) <= r_view (n_live (g_node s2 k)).
  Proof.
    intros Hr Hh Hk s1 s2 Hal Hst Hhr Halk.
    assert (Hr1 : preach P s1) by (apply sync_round_reach; exact Hr).
    assert (Hr2 : preach P s2) by (apply sync_round_reach; exact Hr1).
    pose proof (round_retransmits P pay fetch s h Hr Hh Hal Hst) as Hre.
    destruct (retransmitted_announces s1 h Hr1 Hh Hal Hre Hhr) as [E0|Ha].
    - rewrite E0. destruct (preach_LI P s2 Hr2 k) as [_ HI]. destruct (HI Halk) as (_ & _ & _ & Hv & _). exact Hv.
    - exact (announced_catch_up s1 _ k Ha Hk Halk).
  Qed.
End Announce.
