(* C06 on the protocol model, part 6c: a waiting view without a verifying proposal on the
   network is abandoned by every honest node in the same round, two rounds later
   (timeout_two_rounds_post).  Round A: nothing moves, the view timers fire.  Round B: the
   timeout votes are delivered, every node assembles the timeout certificate (all honest votes
   weigh a quorum), enters the next view and notifies its proposer; the honest leader of the
   next view proposes. *)
From Coq Require Import ZArith List Bool Lia.
From EC Require Import Lib.Outcome Lib.U64 Lib.ListW Lib.Obs Model.Msgs Model.Replica Model.ReplicaRun
  Model.Protocol Model.ProtocolSync Proofs.QCProofs Proofs.ReplicaMono Proofs.ReplicaLive
  Proofs.ReplicaCrash Proofs.ProtocolLive Proofs.ProtocolLiveInv Proofs.ProtocolLiveCatch Proofs.ProtocolLiveNoStop.
From EC Require Proofs.ReplicaCaches Proofs.ReplicaJustified.
From EC Require Import Proofs.TqcAssembly Proofs.MsgsFacts.
From EC Require Import Proofs.ProtocolRefinesAbs Proofs.ProtocolRefinesStep.
From EC Require Proofs.ProtocolRefinesInv Proofs.ProtocolRefinesMain.
From EC Require Import Proofs.ProtocolLiveCommitStep Proofs.ProtocolLiveCommitLock Proofs.ProtocolLiveCommit
  Proofs.ProtocolLiveTimeoutStep Proofs.ProtocolLiveTimeoutLock Proofs.ProtocolLiveTidy.
Import ListNotations.
Open Scope Z_scope.
Module RC := ReplicaCaches.

Section TimeoutRounds.
  Variable P : params.
  Hypothesis HP : params_ok P.
  Variable pay : Z -> Z.
  Variable fetch : gstate -> Z -> option cqc.
  Hypothesis Henv : env_ok P pay.
  Notation hon := (honestb P).
  Notation cfg := (pcfg P).
  Variables (V n : Z).
  Hypothesis HV : 0 < V.
  Variable s : gstate.
  Hypothesis Hr : preach P s.
  Variable Bs : Z.
  Hypothesis Hh1 : p_first P + V + 2 < U64.
  Hypothesis Hh2 : Bs + 1 < U64.
  Hypothesis Hle : V + 1 <= Bs.
  Hypothesis Hsb : forall m, In m (g_soup s) -> msg_view (m_msg m) <= Bs.
  (* every honest node is in view V and has not voted in it: it waits for a proposal or has
     already timed out *)
  Hypothesis Hal : forall k, hon k = true ->
    up s k /\ hview s k = V /\ r_phase (n_live (g_node s k)) <> PCommit /\ n <= r_store_next (n_live (g_node s k)).
  (* no verifying proposal for view V is on the network *)
  Hypothesis HnoP : forall m p' j' mv', In m (g_soup s) -> m_msg m = MProposal p' j' ->
    justification_view (E := unit) true j' = Ok mv' -> vnum mv' = V ->
    justification_verify (p_g P) (p_e P) (p_C P) j' = Ok tt -> False.
  (* the honest commit votes on the network are for earlier views *)
  Hypothesis HGC : forall m c, In m (g_soup s) -> m_sig_ok m = true -> hon (m_key m) = true -> m_msg m = MCommit c ->
    vnum (cview c) < V.
  (* the honest timeout votes on the network for view V or later are for view V and verify *)
  Hypothesis HGT : forall m t0, In m (g_soup s) -> m_sig_ok m = true -> hon (m_key m) = true -> m_msg m = MTimeout t0 ->
    V <= vnum (tview t0) -> vnum (tview t0) = V /\ timeout_verify (p_g P) (p_e P) (p_C P) t0 = Ok tt.
  (* the honest nodes that have timed out do not, together with the Byzantine validators, make a
     timeout certificate for view V (or later) *)
  Hypothesis HnoT : forall t, tqc_verify (p_g P) (p_e P) (p_C P) t = Ok tt -> kt hon (g_soup s) t -> vnum (tqview t) < V.

  Let Hfirst : 0 <= p_first P := proj2 (proj2 Henv).
  Notation Sg := (g_soup s).

  Lemma ts_pos k : hon k = true -> dview s k = V.
  Proof.
    intros Hk. destruct (Hal k Hk) as (Hu & Hv & Hp & _).
    rewrite (up_dview P HP s k Hr Hk Hu). auto.
  Qed.
  Lemma tHB_s k : hon k = true -> dview s k <= V.
  Proof. intros Hk. pose proof (ts_pos k Hk). lia. Qed.
  Lemma tHcq_s q : gq (cfg 0) hon Sg q -> vnum (cview (qmsg q)) < V.
  Proof.
    intros [Hv Hkq]. destruct (cqc_honest_signer P HP q Hv) as (h & Hh & Hin).
    pose proof (Hkq h (qmsg q) Hin Hh) as Hsent.
    exact (HGC {| m_key := h; m_sig_ok := true; m_msg := MCommit (qmsg q) |} (qmsg q) Hsent eq_refl Hh eq_refl).
  Qed.
  Lemma tHtq_s t : tqc_verify (p_g P) (p_e P) (p_C P) t = Ok tt -> kt hon Sg t -> vnum (tqview t) < V.
  Proof. exact (HnoT t). Qed.

  (* honest commit votes on the network are for earlier views; honest timeout votes for view V or
     later are for view V and verify *)
  Definition GC2 (t : gstate) : Prop :=
    forall m c, In m (g_soup t) -> m_sig_ok m = true -> hon (m_key m) = true -> m_msg m = MCommit c ->
      vnum (cview c) < V.
  Definition GT2 (t : gstate) : Prop :=
    forall m t0, In m (g_soup t) -> m_sig_ok m = true -> hon (m_key m) = true -> m_msg m = MTimeout t0 ->
      V <= vnum (tview t0) -> vnum (tview t0) = V /\ timeout_verify (p_g P) (p_e P) (p_C P) t0 = Ok tt.
  Definition GAT (t : gstate) : Prop := NSI P s Bs t /\ GC2 t /\ GT2 t.

  Lemma eta_msg (m : sgmsg) : m_sig_ok m = true -> m = {| m_key := m_key m; m_sig_ok := true; m_msg := m_msg m |}.
  Proof. destruct m as [a b c]. cbn. intros ->. reflexivity. Qed.

  Lemma GAT_start : GAT s.
  Proof.
    split; [|split].
    - split; [apply RInv_start; assumption|]. split; [intros k Hk; apply (Hal k Hk)|exact Hsb].
    - exact HGC.
    - exact HGT.
  Qed.

  Definition NPW (k : Z) (soup : list sgmsg) (nd : node) : Prop :=
    n_alive nd = true /\ r_view (n_live nd) = V /\ r_phase (n_live nd) <> PCommit /\
    n <= r_store_next (n_live nd) /\ TV hon Sg (n_live nd) /\ TB (cfg k) (n_live nd).
  Lemma NPW_mono : mono NPW.
  Proof. intros k soup soup' nd _ H. exact H. Qed.

  Lemma NPW_start k : hon k = true -> lifted NPW k s.
  Proof.
    intros Hk. destruct (Hal k Hk) as (Hu & Hv & Hp & Hn). unfold lifted, NPW.
    split; [exact Hu|]. split; [exact Hv|]. split; [exact Hp|]. split; [exact Hn|].
    split; [apply preach_TV; assumption|apply preach_TB; assumption].
  Qed.

  Lemma GAT_same t t' : GAT t -> NSI P s Bs t' -> g_soup t' = g_soup t -> GAT t'.
  Proof. intros (_ & H2 & H3) HN E. split; [exact HN|]. unfold GC2, GT2. rewrite E. auto. Qed.

  Lemma deliverW i t k : (i < length Sg)%nat -> hon k = true -> GAT t -> lifted ((fun _ => NPW) i) k t ->
    GAT (deliver1 P i t k) /\ lifted ((fun _ => NPW) (S i)) k (deliver1 P i t k).
  Proof.
    intros Hi Hk HG (A1 & A2 & A3 & A4 & A5 & A6). pose proof HG as (HN & _).
    destruct (snapshot_nth P pay fetch s V Bs tHB_s t i HN Hi) as (m & Hnt & Hns & Hin & Hkm).
    assert (Hlive : live_node P t k = true) by (unfold live_node; rewrite Hk; exact A1).
    unfold deliver1. rewrite Hlive, Hnt.
    assert (Hri : round_input P (length Sg) t (IMsg m)) by (exists i; auto).
    destruct (input_facts P HP pay fetch Hfirst s Hr V Bs tHB_s Hh1 Hh2 Hle t k (IMsg m) HN Hk Hri)
      as (s' & es & r & Es & Hs & HN' & Hl' & Ha' & Hsoup & Hinv & Hoth & Hnot).
    set (t' := absorb t k (node_input (cfg k) (g_node t k) (IMsg m))) in *.
    assert (Hvle : r_view s' <= r_view (n_live (g_node t k))).
    { rewrite <- Hl', A2. apply (view_le_V P V Sg tHcq_s tHtq_s t' k ltac:(lia) (proj1 HN') Hk Ha'). }
    destruct (stepQ P k _ m s' es r Hinv Es Hs Hvle) as ((F1&F2&_&_&_&F6) & Hoq).
    { intros p' j' mv' Em (Ejv & Eold & _ & _ & Ever). cbn [cchk cg ce cC pcfg] in *.
      rewrite Em in Hkm. cbn [kmsg] in Hkm.
      pose proof (just_lt P V Sg tHcq_s tHtq_s j' Hkm Ever). pose proof (jview_num j' mv' Ejv).
      apply orb_false_iff in Eold. destruct Eold as [E1 _]. apply Z.ltb_ge in E1.
      apply (HnoP m p' j' mv' Hin Em Ejv ltac:(lia) Ever). }
    assert (Hsoup' : g_soup t' = g_soup t).
    { rewrite Hsoup, (sends_of_quiet k es (only_queue_no_sends es Hoq)). apply app_nil_r. }
    split; [exact (GAT_same t t' HG HN' Hsoup')|].
    unfold lifted, NPW. rewrite Hl'. split; [exact Ha'|]. split; [congruence|]. split; [congruence|]. split; [lia|].
    split.
    - pose proof (TV_step hon Sg (cfg k) _ (IMsg m) Hinv A5) as Htv. rewrite Es in Htv. apply Htv.
      intros m' Em. inversion Em; subst m'. exact Hin.
    - pose proof (TB_step (cfg k) _ (IMsg m) Hinv eq_refl A6) as Htb. rewrite Es in Htb. apply Htb. exact Hs.
  Qed.

  Lemma GAT_add t m : GAT t -> NSI P s Bs (add_msg t m) -> (forall c, m_msg m <> MCommit c) ->
    (forall t0, m_msg m <> MTimeout t0) -> GAT (add_msg t m).
  Proof.
    intros (_ & H2 & H3) HN Hc Ht. split; [exact HN|]. split.
    - intros m0 c Hin. cbn [add_msg g_soup] in Hin. apply in_app_or in Hin.
      destruct Hin as [Hin|[<-|[]]]; [exact (H2 m0 c Hin)|]. intros _ _ Em. exfalso. exact (Hc c Em).
    - intros m0 t0 Hin. cbn [add_msg g_soup] in Hin. apply in_app_or in Hin.
      destruct Hin as [Hin|[<-|[]]]; [exact (H3 m0 t0 Hin)|]. intros _ _ Em. exfalso. exact (Ht t0 Em).
  Qed.

  Lemma proposeW t k : hon k = true -> GAT t -> lifted NPW k t ->
    GAT (propose1 P pay t k) /\ lifted NPW k (propose1 P pay t k).
  Proof.
    intros Hk HG HW. pose proof HG as (HN & _).
    assert (HN' : NSI P s Bs (propose1 P pay t k)).
    { apply (NSI_prim P HP pay fetch Hfirst s Hr V Bs tHB_s Hh1 Hh2 Hle t _ HN). apply propose1_prim. }
    destruct (propose1_cases P pay t k) as [E|(p & j0 & E)]; rewrite E in *; [split; assumption|].
    split; [apply GAT_add; [exact HG|exact HN'| |]; intros ?; cbn; discriminate|exact HW].
  Qed.

  Lemma sync1W f t k : hon k = true -> GAT t -> lifted NPW k t ->
    GAT (sync1 P f t k) /\ lifted NPW k (sync1 P f t k).
  Proof.
    intros Hk HG HW. pose proof HG as (HN & _).
    destruct (sync1_good P f t k) as [E|(q & _ & Hal0 & Hv & Hkn & Hnum & E)]; rewrite E; [split; assumption|].
    set (nn := r_store_next (n_live (g_node t k))) in *. set (h := hpay (cprop (qmsg q))) in *.
    assert (Hri : round_input P (length Sg) t (ISync nn h)) by (exists q; auto).
    destruct (input_facts P HP pay fetch Hfirst s Hr V Bs tHB_s Hh1 Hh2 Hle t k (ISync nn h) HN Hk Hri)
      as (s' & es & r & Es & Hs & HN' & Hl' & Ha' & Hsoup & Hinv & Hoth & Hnot).
    rewrite rstep_t_sync_eq in Es. unfold nn in Es at 1. rewrite Z.eqb_refl in Es. inversion Es as [[E1 E2 E3]].
    rewrite <- E1 in Hl'. rewrite <- E2 in Hsoup. clear Es E1 E2 E3.
    cbn [sends_of flat_map] in Hsoup. rewrite app_nil_r in Hsoup.
    split; [exact (GAT_same t _ HG HN' Hsoup)|].
    destruct HW as (A & B & C & D & E0 & E1). unfold lifted, NPW. rewrite Hl'.
    cbn [set_store_next r_view r_phase r_store_next]. split; [exact Ha'|]. split; [exact B|]. split; [exact C|].
    split; [unfold nn; lia|]. split; [intros h0 v Hh Hg; exact (E0 h0 v Hh Hg)|exact E1].
  Qed.

  Lemma sync_nodeW f fuel : forall t k, hon k = true -> GAT t -> lifted NPW k t ->
    GAT (sync_node P f fuel t k) /\ lifted NPW k (sync_node P f fuel t k).
  Proof.
    induction fuel as [|fu IH]; intros t k Hk HG HW; cbn [sync_node]; [auto|].
    destruct (sync1W f t k Hk HG HW) as [HG1 HW1]. exact (IH _ k Hk HG1 HW1).
  Qed.

  Definition tW := sync_all P fetch (propose_all P pay (deliver_all P s)).

  Lemma after_syncW : GAT tW /\ (forall k, hon k = true -> lifted NPW k tW).
  Proof.
    destruct (deliver_all_inv P HP GAT (fun _ => NPW) s (fun _ => NPW_mono) deliverW GAT_start NPW_start) as [HG1 HN1].
    destruct (keys_phase P HP (propose1 P pay) GAT NPW NPW (propose1_local P pay) NPW_mono NPW_mono proposeW _ HG1 HN1) as [HG2 HN2].
    unfold tW, sync_all.
    apply (keys_phase P HP _ GAT NPW NPW (sync_node_local P _ _) NPW_mono NPW_mono (fun t k => sync_nodeW _ _ t k) _ HG2 HN2).
  Qed.

  (* ---------- the view timers ---------- *)
  Definition tmsg_of (k : Z) (t0 : timeout) : sgmsg := {| m_key := k; m_sig_ok := true; m_msg := MTimeout t0 |}.
  Definition NPT' (k : Z) (soup : list sgmsg) (nd : node) : Prop :=
    n_alive nd = true /\ r_view (n_live nd) = V /\ r_phase (n_live nd) = PTimeout /\
    n <= r_store_next (n_live nd) /\ TV hon Sg (n_live nd) /\ TB (cfg k) (n_live nd) /\
    exists t0, In (tmsg_of k t0) soup /\ vnum (tview t0) = V.
  Lemma NPT'_mono : mono NPT'.
  Proof. intros k soup soup' nd Hi (A&B&C&D&E&E'&t0&F&G). repeat split; auto. exists t0. auto. Qed.

  Lemma ts_view k : hon k = true -> r_view (n_live (g_node s k)) = V.
  Proof. intros Hk. destruct (Hal k Hk) as (_ & Hv & _). exact Hv. Qed.

  Lemma timerW t k : hon k = true -> GAT t -> lifted NPW k t ->
    GAT (timer1 P s t k) /\ lifted NPT' k (timer1 P s t k).
  Proof.
    intros Hk (HN & HC2 & HT2) (A & B & C & D & E0 & ETB).
    assert (Hlive : live_node P t k = true) by (unfold live_node; rewrite Hk; exact A).
    unfold timer1. rewrite Hlive, B, (ts_view k Hk), Z.eqb_refl. cbn [andb].
    destruct (input_facts P HP pay fetch Hfirst s Hr V Bs tHB_s Hh1 Hh2 Hle t k ITimer HN Hk I)
      as (s' & es & r & Es & Hs & HN' & Hl' & Ha' & Hsoup & Hinv & Hoth & Hnot).
    pose proof (proj1 (proj1 HN)) as Hrt.
    destruct (timer_step_eq P t k Hrt A ltac:(rewrite B; lia)) as [j0 E]. rewrite E in Es.
    destruct (preach_LI P t Hrt k) as [_ HI]. destruct (HI A) as (_ & Hcerts & _).
    pose proof (ReplicaJustified.good_rstep_t (cfg k) (n_live (g_node t k)) ITimer Hinv Hcerts) as [_ Hg].
    rewrite E in Hg. unfold ReplicaJustified.effs_of in Hg. cbn [fst snd] in Hg.
    rewrite Forall_forall in Hg.
    match type of E with _ = (_, [_; _; ESend (MTimeout ?tt0)], _) => set (t0 := tt0) in * end.
    assert (Hver : timeout_verify (p_g P) (p_e P) (p_C P) t0 = Ok tt).
    { exact (Hg (ESend (MTimeout t0)) (or_intror (or_intror (or_introl eq_refl)))). }
    inversion Es as [[E1 E2 E3]]. rewrite <- E1 in Hl'. rewrite <- E2 in Hsoup. clear Es E1 E2 E3.
    assert (EV0 : vnum (tview t0) = V) by (unfold t0; cbn [tview vnum]; exact B).
    split; [split; [exact HN'|split]|].
    - intros m0 c Hin0 Hsg Hh Em. rewrite Hsoup in Hin0. apply in_app_or in Hin0. destruct Hin0 as [Hin0|Hin0].
      + exact (HC2 m0 c Hin0 Hsg Hh Em).
      + cbn in Hin0. destruct Hin0 as [<-|[<-|[]]]; discriminate Em.
    - intros m0 t1 Hin0 Hsg Hh Em HVt. rewrite Hsoup in Hin0. apply in_app_or in Hin0. destruct Hin0 as [Hin0|Hin0].
      + exact (HT2 m0 t1 Hin0 Hsg Hh Em HVt).
      + cbn in Hin0. destruct Hin0 as [<-|[<-|[]]]; [discriminate Em|]. cbn [m_msg] in Em. inversion Em; subst t1. auto.
    - unfold lifted, NPT'. rewrite Hsoup, Hl'. cbn [set_phase r_view r_phase r_store_next].
      split; [exact Ha'|]. split; [exact B|]. split; [reflexivity|]. split; [exact D|]. split; [exact E0|].
      split; [exact ETB|].
      exists t0. split; [|exact EV0]. apply in_or_app. right. cbn. right. left. reflexivity.
  Qed.

  Definition sW := timers_all P s tW.

  Lemma trevive_s : revive_all P s = s.
  Proof. apply revive_all_id. intros k Hk. apply (Hal k Hk). Qed.
  Lemma sW_round : sync_round P pay fetch s = sW.
  Proof. unfold sync_round. cbv zeta. rewrite trevive_s. reflexivity. Qed.

  Lemma after_timersW : GAT sW /\ (forall k, hon k = true -> lifted NPT' k sW).
  Proof.
    destruct after_syncW as [HG HN]. unfold sW, timers_all.
    apply (keys_phase P HP (timer1 P s) GAT NPW NPT' (timer1_local P s) NPW_mono NPT'_mono timerW _ HG HN).
  Qed.

  (* ================================================================ *)
  (* the round in which the timeout votes are delivered                *)
  (* ================================================================ *)
  Lemma sW_reach : preach P sW.
  Proof. destruct after_timersW as [(((H & _) & _) & _) _]. exact H. Qed.
  Lemma sW_up k : hon k = true -> up sW k.
  Proof. intros Hk. destruct after_timersW as [_ HN]. apply (HN k Hk). Qed.
  Lemma sW_HB k : hon k = true -> dview sW k <= V.
  Proof.
    intros Hk. destruct after_timersW as [_ HN]. destruct (HN k Hk) as (A & B & _).
    rewrite (up_dview P HP sW k sW_reach Hk A). unfold hview. lia.
  Qed.
  Lemma sW_NSI : NSI P sW Bs sW.
  Proof.
    destruct after_timersW as [((_ & _ & Hm) & _) _].
    split; [apply RInv_start; [exact HP|exact sW_reach]|]. split; [exact sW_up|exact Hm].
  Qed.
  Lemma sW_FI : FI P Sg sW.
  Proof. destruct after_timersW as [(((_ & _ & H) & _) & _) _]. exact H. Qed.
  Lemma sW_kmsg m : In m (g_soup sW) -> kmsg hon Sg (m_msg m).
  Proof. apply (fi_soup _ _ _ sW_FI). Qed.
  Lemma sW_GC2 : GC2 sW.
  Proof. destruct after_timersW as [(_ & H & _) _]. exact H. Qed.
  Lemma sW_GT2 : GT2 sW.
  Proof. destruct after_timersW as [(_ & _ & H) _]. exact H. Qed.

  Lemma cq_ltB t k q : NSI P sW Bs t -> hon k = true -> r_high_cqc (n_live (g_node t k)) = Some q ->
    vnum (cview (qmsg q)) < V.
  Proof.
    intros (HR & Hup & _) Hk Hq. destruct (node_certs_good P (g_soup sW) t k HR Hk (Hup k Hk)) as [Hgq _].
    destruct (Hgq q Hq) as [Hv Hkq]. destruct (cqc_honest_signer P HP q Hv) as (h & Hh & Hin).
    pose proof (Hkq h (qmsg q) Hin Hh) as Hsent.
    exact (sW_GC2 {| m_key := h; m_sig_ok := true; m_msg := MCommit (qmsg q) |} (qmsg q) Hsent eq_refl Hh eq_refl).
  Qed.
  Lemma tq_leB t k tq : NSI P sW Bs t -> hon k = true -> r_high_tqc (n_live (g_node t k)) = Some tq ->
    vnum (tqview tq) <= V.
  Proof.
    intros (HR & Hup & _) Hk Hq. destruct (node_certs_good P (g_soup sW) t k HR Hk (Hup k Hk)) as [_ Hgt].
    destruct (Hgt tq Hq) as [Hv Hkt]. destruct (tqc_view_bound P HP sW tq sW_reach Hv Hkt) as (k' & Hk' & Hle0).
    pose proof (sW_HB k' Hk'). lia.
  Qed.
  Lemma viewBT t k : NSI P sW Bs t -> hon k = true -> hview t k <= V + 1.
  Proof.
    intros (HR & Hup & _) Hk.
    destruct (round_cert_bound P HP pay fetch sW t k V sW_reach HR sW_HB Hk (Hup k Hk)) as (H & _). exact H.
  Qed.

  Definition NXT (k : Z) (soup : list sgmsg) (nd : node) : Prop :=
    n_alive nd = true /\ r_view (n_live nd) = V + 1 /\ r_phase (n_live nd) = Prepare /\
    n <= r_store_next (n_live nd) /\ exists tq, n_notify nd = Some (JTimeout tq) /\ vnum (tqview tq) = V.
  Lemma NXT_mono : mono NXT.
  Proof. intros k soup soup' nd _ H. exact H. Qed.

  Definition NPBT (i : nat) (k : Z) (soup : list sgmsg) (nd : node) : Prop :=
    NXT k soup nd \/
    (n_alive nd = true /\ collT P V n k (n_live nd) /\
     forall h i0 t0, hon h = true -> (i0 < i)%nat -> nth_error (g_soup sW) i0 = Some (tmsg_of h t0) ->
       vnum (tview t0) = V -> hasTbit (cfg k) (n_live nd) h V).
  Lemma NPBT_mono i : mono (NPBT i).
  Proof. intros k soup soup' nd _ H. exact H. Qed.

  Definition NoProp1 (t : gstate) : Prop :=
    forall m p' j' mv', In m (g_soup t) -> m_msg m = MProposal p' j' ->
      justification_view (E := unit) true j' = Ok mv' -> vnum mv' = V + 1 ->
      justification_verify (p_g P) (p_e P) (p_C P) j' = Ok tt -> False.
  Lemma NoProp1_sW : NoProp1 sW.
  Proof.
    intros m p' j' mv' Hin Em Ejv EV Ever. pose proof (sW_kmsg m Hin) as Hkm. rewrite Em in Hkm. cbn [kmsg] in Hkm.
    pose proof (just_lt P V Sg tHcq_s tHtq_s j' Hkm Ever). pose proof (jview_num j' mv' Ejv). lia.
  Qed.
  Definition GBT (t : gstate) : Prop := NSI P sW Bs t /\ NoProp1 t.

  Lemma NoProp1_sends t k es : NoProp1 t -> (forall x, In (ESend x) es -> exists j0, x = MNewView j0) ->
    forall t', g_soup t' = g_soup t ++ sends_of k es -> NoProp1 t'.
  Proof.
    intros HP0 Hes t' Hsoup m p' j' mv' Hin Em. rewrite Hsoup in Hin. apply in_app_or in Hin. destruct Hin as [Hin|Hin].
    - exact (HP0 m p' j' mv' Hin Em).
    - apply ProtocolRefinesInv.in_sends_of in Hin. destruct Hin as (x & Hx & ->). cbn [m_msg] in Em.
      destruct (Hes x Hx) as [j0 ->]. discriminate Em.
  Qed.

  Lemma NXT_input t k m : NSI P sW Bs t -> hon k = true -> In m (g_soup sW) ->
    round_input P (length (g_soup sW)) t (IMsg m) -> lifted NXT k t ->
    let t' := absorb t k (node_input (cfg k) (g_node t k) (IMsg m)) in
    NSI P sW Bs t' /\ lifted NXT k t' /\ g_soup t' = g_soup t.
  Proof.
    intros HN Hk Hin Hri (A & B & C & D & q & E1 & E2) t'.
    destruct (input_facts P HP pay fetch Hfirst sW sW_reach V Bs sW_HB Hh1 Hh2 Hle t k (IMsg m) HN Hk Hri)
      as (s' & es & r & Es & Hs & HN' & Hl' & Ha' & Hsoup & Hinv & Hoth & Hnot).
    fold t' in HN', Hl', Ha', Hsoup, Hnot.
    pose proof (viewBT t' k HN' Hk) as Hvb. unfold hview in Hvb. rewrite Hl' in Hvb.
    destruct (stepC P V Sg tHcq_s tHtq_s k _ m s' es r Hinv Es Hs ltac:(lia) ltac:(lia) (sW_kmsg m Hin))
      as ((F1&F2&F3&F4&F5&F6) & Hoq).
    split; [exact HN'|]. split.
    - unfold lifted, NXT. rewrite Hl', Hnot, (notify_upd_queue _ es Hoq).
      split; [exact Ha'|]. split; [congruence|]. split; [congruence|]. split; [lia|]. exists q. auto.
    - rewrite Hsoup, (sends_of_quiet k es (only_queue_no_sends es Hoq)). apply app_nil_r.
  Qed.

  Lemma deliverBT i t k : (i < length (g_soup sW))%nat -> hon k = true -> GBT t -> lifted (NPBT i) k t ->
    GBT (deliver1 P i t k) /\ lifted (NPBT (S i)) k (deliver1 P i t k).
  Proof.
    intros Hi Hk [HN HNP] A2.
    destruct (snapshot_nth P pay fetch sW V Bs sW_HB t i HN Hi) as (m & Hnt & Hns & Hin & _).
    assert (Hkm : kmsg hon Sg (m_msg m)) by (apply sW_kmsg; exact Hin).
    assert (A1 : n_alive (g_node t k) = true) by (destruct HN as (_ & Hup & _); apply Hup; exact Hk).
    assert (Hlive : live_node P t k = true) by (unfold live_node; rewrite Hk; exact A1).
    unfold deliver1. rewrite Hlive, Hnt.
    assert (Hri : round_input P (length (g_soup sW)) t (IMsg m)) by (exists i; auto).
    set (t' := absorb t k (node_input (cfg k) (g_node t k) (IMsg m))) in *.
    destruct A2 as [HX|(_ & HC & Hbits)].
    - destruct (NXT_input t k m HN Hk Hin Hri HX) as (HN' & HX' & Hsoup). fold t' in HN', HX', Hsoup.
      split; [split; [exact HN'|]|left; exact HX'].
      intros m0 p' j' mv' Hin0. rewrite Hsoup in Hin0. exact (HNP m0 p' j' mv' Hin0).
    - destruct (input_facts P HP pay fetch Hfirst sW sW_reach V Bs sW_HB Hh1 Hh2 Hle t k (IMsg m) HN Hk Hri)
        as (s' & es & r & Es & Hs & HN' & Hl' & Ha' & Hsoup & Hinv & Hoth & Hnot).
      fold t' in HN', Hl', Ha', Hsoup, Hnot.
      assert (Hpcq : forall q, r_high_cqc s' = Some q -> vnum (cview (qmsg q)) < V).
      { intros q Eq. apply (cq_ltB t' k q HN' Hk). rewrite Hl'. exact Eq. }
      assert (Hptq : forall tq, r_high_tqc s' = Some tq -> vnum (tqview tq) <= V).
      { intros tq Eq. apply (tq_leB t' k tq HN' Hk). rewrite Hl'. exact Eq. }
      destruct (stepT P HP V n Sg tHcq_s tHtq_s k _ m s' es r Hinv Es Hs Hkm)
        as [(E1 & E2 & E3 & tq & j1 & qs & E4 & E5 & E6 & E7 & E8)|(HC' & Hoq & Hpres & Hown)].
      + intros t0 Em Hsg Hh HVt. exact (sW_GT2 m t0 Hin Hsg Hh Em HVt).
      + exact Hpcq.
      + exact Hptq.
      + exact HC.
      + (* entered the next view through the timeout certificate *)
        assert (Ej1 : j1 = JTimeout tq).
        { destruct (preach_LI P t' (proj1 (proj1 HN')) k) as [_ HI]. destruct (HI Ha') as (_ & Hc & _). rewrite Hl' in Hc.
          pose proof (ReplicaJustified.get_justification_highest (cfg k) s' j1 Hc E6) as Hh.
          destruct j1 as [q1|t1].
          - exfalso. destruct Hh as [Hq1 Hle1]. specialize (Hle1 tq E4). specialize (Hpcq q1 Hq1). lia.
          - destruct Hh as [Ht1 _]. rewrite E4 in Ht1. inversion Ht1. reflexivity. }
        subst j1.
        split; [split; [exact HN'|]|].
        * apply (NoProp1_sends t k es HNP); [|exact Hsoup].
          intros x Hx. rewrite E8 in Hx. apply in_app_or in Hx. destruct Hx as [Hx|[Hx|[Hx|[Hx|[]]]]]; try discriminate.
          -- unfold only_queue in E7. rewrite Forall_forall in E7. destruct (E7 _ Hx).
          -- inversion Hx. eauto.
        * left. unfold lifted, NXT. rewrite Hl', Hnot, E8, (notify_upd_enter _ qs _ _ _ E7).
          split; [exact Ha'|]. split; [exact E1|]. split; [exact E2|]. split; [exact E3|]. exists tq. auto.
      + split; [split; [exact HN'|]|].
        * apply (NoProp1_sends t k es HNP); [|exact Hsoup].
          intros x Hx. unfold only_queue in Hoq. rewrite Forall_forall in Hoq. destruct (Hoq _ Hx).
        * right. unfold lifted. rewrite Hl'. split; [exact Ha'|]. split; [exact HC'|].
          intros h i0 t0 Hh Hlt Hn0 EV0. destruct (Nat.eq_dec i0 i) as [->|Hne].
          -- apply (Hown h t0 Hh); [|exact EV0]. rewrite Hns in Hn0. inversion Hn0. reflexivity.
          -- apply (Hpres h Hh). apply (Hbits h i0 t0 Hh); [lia|exact Hn0|exact EV0].
  Qed.

  Lemma sW_RInv : RInv P Sg sW.
  Proof. destruct after_timersW as [((H & _) & _) _]. exact H. Qed.

  Lemma NPBT_start k : hon k = true -> lifted (NPBT 0%nat) k sW.
  Proof.
    intros Hk. destruct after_timersW as [_ HN]. destruct (HN k Hk) as (A & B & C & D & E0 & ETB & _).
    unfold lifted, NPBT. right. split; [exact A|]. split; [|intros h i0 t0 _ Hlt; lia].
    pose proof (fi_certs _ _ _ sW_FI k Hk) as K.
    destruct (node_certs_good P Sg sW k sW_RInv Hk A) as [Hgq Hgt].
    split; [exact B|]. split; [exact C|]. split; [exact D|]. split; [|split; [|split]].
    - intros q Hq. apply tHcq_s. exact (Hgq q Hq).
    - intros tq Htq. destruct (Hgt tq Htq) as [Hv Hkt]. exact (tHtq_s tq Hv Hkt).
    - intros h Hh. unfold RC.fresh.
      destruct (zmap_get (r_timeout_views (n_live (g_node sW k))) h) as [v'|] eqn:Ev; [|left; reflexivity].
      destruct (E0 h v' Hh Ev) as (t0 & Et & Hin).
      destruct (Z.lt_ge_cases v' V) as [Hlt|Hge]; [left; apply Z.leb_gt; lia|right].
      destruct (HGT _ t0 Hin eq_refl Hh eq_refl ltac:(lia)) as [EV0 _].
      rewrite Et in EV0. rewrite EV0 in Ev. apply ETB; [exact Ev|lia].
    - intros t0 Ht0.
      destruct (preach_LI P sW sW_reach k) as [_ HI]. destruct (HI A) as (Hci & _).
      destruct (RC.cache_inv_timeout_qc (cfg k) _ V t0 Hci Ht0) as (Hti & HvV & Hvo). cbn [cg ce cC pcfg] in Hti, Hvo.
      pose proof (co_tcache _ _ _ _ K V t0 (RC.zmap_get_in _ _ _ Ht0)) as [Hkt _].
      destruct (Z.lt_ge_cases (tq_weight (cfg k) t0) (quorum (p_C P))) as [Hlt|Hge]; [exact Hlt|exfalso].
      destruct (tqc_inv_verify_weight unit _ _ _ t0 Hti) as (w & Hw & Hiff).
      rewrite (tqc_weight_union unit _ _ _ t0 Hti) in Hw. inversion Hw; subst w.
      assert (Hver : tqc_verify (p_g P) (p_e P) (p_C P) t0 = Ok tt).
      { apply Hiff. split; [exact Hvo|]. unfold tq_weight in Hge. cbn [cC pcfg] in Hge. exact Hge. }
      pose proof (tHtq_s t0 Hver Hkt). lia.
  Qed.

  Definition tT1 := deliver_all P sW.

  Lemma after_deliverT : GBT tT1 /\ (forall k, hon k = true -> lifted NXT k tT1).
  Proof.
    destruct (deliver_all_inv P HP GBT NPBT sW NPBT_mono deliverBT (conj sW_NSI NoProp1_sW) NPBT_start) as [HG HB1].
    fold tT1 in HG, HB1. split; [exact HG|].
    intros k Hk. destruct (HB1 k Hk) as [HX|(A & HC & Hbits)]; [exact HX|]. exfalso.
    destruct HG as [((Hrt & _) & _) _].
    destruct (preach_LI P tT1 Hrt k) as [_ HI]. destruct (HI A) as (Hci & _).
    apply (collT_full_contra P HP V n Sg tHtq_s k _ Hci HC).
    - exists k. exact Hk.
    - intros h Hh. destruct after_timersW as [_ HN]. destruct (HN h Hh) as (_ & _ & _ & _ & _ & _ & t0 & Hin & EV0).
      apply In_nth_error in Hin. destruct Hin as [i0 Hi0].
      apply (Hbits h i0 t0 Hh); [|exact Hi0|exact EV0]. apply nth_error_Some. congruence.
  Qed.

  (* ---------- the proposers, block sync and the timers of round B ---------- *)
  Notation L' := (cleader (cfg 0) (V + 1)).
  Definition PPT (t : gstate) : Prop :=
    forall m p' j' mv', In m (g_soup t) -> m_msg m = MProposal p' j' ->
      justification_view (E := unit) true j' = Ok mv' -> vnum mv' = V + 1 ->
      justification_verify (p_g P) (p_e P) (p_C P) j' = Ok tt ->
      hon (m_key m) = true /\ m_key m = L' /\ n_notify (g_node t (m_key m)) = Some j' /\
      proposal_payload P pay j' = Some p'.
  Definition GBT3 (t : gstate) : Prop := NSI P sW Bs t /\ PPT t.

  Definition NXTP (k : Z) (soup : list sgmsg) (nd : node) : Prop :=
    NXT k soup nd /\
    (k = L' -> exists j' p, n_notify nd = Some j' /\ proposal_payload P pay j' = Some p /\
       In {| m_key := L'; m_sig_ok := true; m_msg := MProposal p j' |} soup).
  Lemma NXTP_mono : mono NXTP.
  Proof. intros k soup soup' nd Hi [A B]. split; [exact A|]. intros E. destruct (B E) as (j' & p & H1 & H2 & H3). exists j', p. auto. Qed.

  Lemma jview_timeout tq : vnum (tqview tq) = V ->
    justification_view (E := unit) true (JTimeout tq) =
      Ok {| vgen := vgen (tqview tq); vepoch := vepoch (tqview tq); vnum := V + 1 |}.
  Proof.
    intros E. unfold justification_view, num_next, u64_add. rewrite E.
    assert (H : (V + 1 <? U64) = true) by (apply Z.ltb_lt; lia). rewrite H. reflexivity.
  Qed.

  Lemma payload_some t k j0 : NSI P sW Bs t -> hon k = true -> n_notify (g_node t k) = Some j0 ->
    justification_verify (p_g P) (p_e P) (p_C P) j0 = Ok tt /\ exists p, proposal_payload P pay j0 = Some p.
  Proof.
    intros ((Hrt & _ & HF) & _ & _) Hk Hn.
    pose proof (preach_notify_ok P t Hrt k _ Hn) as Hv. split; [exact Hv|].
    pose proof (fi_notify _ _ _ HF k _ Hk Hn) as Hkj.
    destruct (proposal_arith P HP sW j0 V sW_reach Hkj sW_HB ltac:(lia) Hv) as [[n' oh] E].
    unfold proposal_payload. rewrite E. destruct oh; eauto.
  Qed.

  Lemma proposeT t k : hon k = true -> GBT3 t -> lifted NXT k t ->
    GBT3 (propose1 P pay t k) /\ lifted NXTP k (propose1 P pay t k).
  Proof.
    intros Hk [HN HPP] HX. pose proof HX as (A & B & C & D & tq & E1 & E2).
    assert (HN' : NSI P sW Bs (propose1 P pay t k)).
    { apply (NSI_prim P HP pay fetch Hfirst sW sW_reach V Bs sW_HB Hh1 Hh2 Hle t _ HN). apply propose1_prim. }
    destruct (payload_some t k _ HN Hk E1) as [Hver [p Hp]].
    assert (Hlive : live_node P t k = true) by (unfold live_node; rewrite Hk; exact A).
    unfold propose1 in *. rewrite Hlive, E1, (jview_timeout tq E2) in *. cbn [vnum] in *. rewrite Hp in *.
    change (cleader (pcfg P k) (V + 1)) with L' in *.
    destruct (L' =? k) eqn:El.
    - apply Z.eqb_eq in El.
      split; [split; [exact HN'|]|].
      + intros m p' j' mv' Hin Em Ejv EV Ever. cbn [add_msg g_soup g_node] in *. apply in_app_or in Hin.
        destruct Hin as [Hin|[<-|[]]]; [exact (HPP m p' j' mv' Hin Em Ejv EV Ever)|].
        cbn [m_msg m_key] in *. inversion Em; subst p' j'.
        split; [exact Hk|]. split; [symmetry; exact El|]. split; [exact E1|exact Hp].
      + unfold lifted, NXTP. cbn [add_msg g_soup g_node]. split; [exact HX|]. intros _. exists (JTimeout tq), p.
        split; [exact E1|]. split; [exact Hp|]. apply in_or_app. right. left. rewrite El. reflexivity.
    - split; [split; [exact HN'|exact HPP]|]. unfold lifted, NXTP. split; [exact HX|].
      intros E. apply Z.eqb_neq in El. congruence.
  Qed.

  Lemma PPT_of_NoProp t : NoProp1 t -> PPT t.
  Proof. intros H m p' j' mv' Hin Em Ejv EV Ever. exfalso. exact (H m p' j' mv' Hin Em Ejv EV Ever). Qed.

  Lemma sync1T f t k : hon k = true -> GBT3 t -> lifted NXTP k t ->
    GBT3 (sync1 P f t k) /\ lifted NXTP k (sync1 P f t k).
  Proof.
    intros Hk [HN HPP] HXP.
    destruct (sync1_good P f t k) as [E|(q0 & _ & Hal0 & Hv & Hkn & Hnum & E)]; rewrite E; [split; [split|]; assumption|].
    set (nn := r_store_next (n_live (g_node t k))) in *. set (h := hpay (cprop (qmsg q0))) in *.
    assert (Hri : round_input P (length (g_soup sW)) t (ISync nn h)) by (exists q0; auto).
    destruct (input_facts P HP pay fetch Hfirst sW sW_reach V Bs sW_HB Hh1 Hh2 Hle t k (ISync nn h) HN Hk Hri)
      as (s' & es & r & Es & Hs & HN' & Hl' & Ha' & Hsoup & Hinv & Hoth & Hnot).
    rewrite rstep_t_sync_eq in Es. unfold nn in Es at 1. rewrite Z.eqb_refl in Es. inversion Es as [[E1 E2 E3]].
    rewrite <- E1 in Hl'. rewrite <- E2 in Hsoup, Hnot. clear Es E1 E2 E3.
    cbn [sends_of flat_map] in Hsoup. rewrite app_nil_r in Hsoup.
    assert (Hnot' : n_notify (g_node (absorb t k (node_input (cfg k) (g_node t k) (ISync nn h))) k) = n_notify (g_node t k)).
    { rewrite Hnot. apply notify_upd_queue. repeat constructor. }
    split; [split; [exact HN'|]|].
    - intros m p' j' mv' Hin Em Ejv EV Ever. rewrite Hsoup in Hin.
      destruct (HPP m p' j' mv' Hin Em Ejv EV Ever) as (B1 & B2 & B3 & B4).
      split; [exact B1|]. split; [exact B2|]. split; [|exact B4].
      destruct (Z.eq_dec (m_key m) k) as [Ek|Hne]; [rewrite Ek, Hnot', <- Ek; exact B3|rewrite (Hoth _ Hne); exact B3].
    - destruct HXP as [(A & B & C & D & q & E1 & E2) HL]. unfold lifted, NXTP, NXT. rewrite Hsoup, Hl', Hnot'.
      cbn [set_store_next r_view r_phase r_store_next].
      split; [|exact HL]. split; [exact Ha'|]. split; [exact B|]. split; [exact C|]. split; [unfold nn; lia|]. exists q. auto.
  Qed.

  Lemma sync_nodeT f fuel : forall t k, hon k = true -> GBT3 t -> lifted NXTP k t ->
    GBT3 (sync_node P f fuel t k) /\ lifted NXTP k (sync_node P f fuel t k).
  Proof.
    induction fuel as [|fu IH]; intros t k Hk HG HV0; cbn [sync_node]; [auto|].
    destruct (sync1T f t k Hk HG HV0) as [HG1 HV1]. exact (IH _ k Hk HG1 HV1).
  Qed.

  Lemma sW_view k : hon k = true -> r_view (n_live (g_node sW k)) = V.
  Proof. intros Hk. destruct after_timersW as [_ HN]. apply (HN k Hk). Qed.

  Lemma timerT t k : hon k = true -> GBT3 t -> lifted NXTP k t ->
    GBT3 (timer1 P sW t k) /\ lifted NXTP k (timer1 P sW t k).
  Proof.
    intros Hk HG HXP. pose proof HXP as [(_ & B & _) _].
    unfold timer1. rewrite B, (sW_view k Hk).
    assert (E : (V + 1 =? V) = false) by (apply Z.eqb_neq; lia). rewrite E, andb_false_r. auto.
  Qed.

  Definition sT := sync_round P pay fetch sW.

  Lemma after_roundT : GBT3 sT /\ (forall k, hon k = true -> lifted NXTP k sT).
  Proof.
    destruct after_deliverT as [[HN HNP] HX].
    destruct (keys_phase P HP (propose1 P pay) GBT3 NXT NXTP (propose1_local P pay) NXT_mono NXTP_mono proposeT _
                (conj HN (PPT_of_NoProp _ HNP)) HX) as [HG2 HN2].
    destruct (keys_phase P HP _ GBT3 NXTP NXTP (sync_node_local P (fetch (propose_all P pay tT1)) (length (g_qlog (propose_all P pay tT1))))
                NXTP_mono NXTP_mono (fun t k => sync_nodeT _ _ t k) _ HG2 HN2) as [HG3 HN3].
    assert (E : sT = timers_all P sW (sync_all P fetch (propose_all P pay tT1))).
    { unfold sT, sync_round. cbv zeta.
      assert (Hrev : revive_all P sW = sW) by (apply revive_all_id; intros k Hk; apply sW_up; exact Hk).
      rewrite Hrev. reflexivity. }
    rewrite E. unfold timers_all.
    apply (keys_phase P HP (timer1 P sW) GBT3 NXTP NXTP (timer1_local P sW) NXTP_mono NXTP_mono timerT _ HG3 HN3).
  Qed.

  Lemma two_roundsT : sync_rounds P pay fetch 2 s = sT.
  Proof. cbn [sync_rounds]. rewrite sW_round. reflexivity. Qed.

  Theorem timeout_mixed_post :
    let s2 := sync_rounds P pay fetch 2 s in
    preach P s2 /\ (forall m, In m (g_soup s2) -> msg_view (m_msg m) <= Bs) /\
    (forall k, hon k = true ->
       up s2 k /\ hview s2 k = V + 1 /\ r_phase (n_live (g_node s2 k)) = Prepare /\
       n <= r_store_next (n_live (g_node s2 k))) /\
    (hon L' = true ->
       exists tq p, vnum (tqview tq) = V /\
         justification_verify (p_g P) (p_e P) (p_C P) (JTimeout tq) = Ok tt /\
         kt hon (g_soup s2) tq /\
         proposal_payload P pay (JTimeout tq) = Some p /\
         In {| m_key := L'; m_sig_ok := true; m_msg := MProposal p (JTimeout tq) |} (g_soup s2) /\
         (forall m p' j' mv', In m (g_soup s2) -> m_msg m = MProposal p' j' -> m_key m = L' -> m_sig_ok m = true ->
            justification_view (E := unit) true j' = Ok mv' -> vnum mv' = V + 1 ->
            justification_verify (p_g P) (p_e P) (p_C P) j' = Ok tt -> p' = p /\ j' = JTimeout tq)) /\
    (hon L' = false ->
       forall m p' j' mv', In m (g_soup s2) -> m_msg m = MProposal p' j' ->
         justification_view (E := unit) true j' = Ok mv' -> vnum mv' = V + 1 ->
         justification_verify (p_g P) (p_e P) (p_C P) j' = Ok tt -> False).
  Proof.
    cbv zeta. rewrite two_roundsT. destruct after_roundT as [[HN HPP] HX].
    pose proof HN as ((Hrt & _ & _) & _ & Hmsg).
    split; [exact Hrt|]. split; [exact Hmsg|]. split; [|split].
    - intros k Hk. destruct (HX k Hk) as [(A & B & C & D & _) _]. unfold up, hview. auto.
    - intros HL. destruct (HX L' HL) as [(A & B & C & D & tq & E1 & E2) HLq].
      destruct (HLq eq_refl) as (j' & p & Hj' & Hp & Hin). rewrite E1 in Hj'. inversion Hj'; subst j'.
      destruct (payload_some sT L' _ HN HL E1) as [Hver _].
      assert (Hkt : kt hon (g_soup sT) tq).
      { destruct HN as ((_ & (l & Hl) & HF) & _ & _). pose proof (fi_notify _ _ _ HF L' _ HL E1) as Hk0. cbn [kj] in Hk0.
        apply (ProtocolRefinesInv.kt_mono hon (g_soup sW) (g_soup sT)); [|exact Hk0].
        rewrite Hl. intros m0 Hm0. apply in_or_app. left. exact Hm0. }
      exists tq, p. split; [exact E2|]. split; [exact Hver|]. split; [exact Hkt|]. split; [exact Hp|]. split; [exact Hin|].
      intros m p' j' mv' Hin' Em Ek Esg Ejv EV Ever.
      destruct (HPP m p' j' mv' Hin' Em Ejv EV Ever) as (_ & _ & B3 & B4).
      rewrite Ek, E1 in B3. inversion B3; subst j'. rewrite Hp in B4. inversion B4. auto.
    - intros HL m p' j' mv' Hin Em Ejv EV Ever.
      destruct (HPP m p' j' mv' Hin Em Ejv EV Ever) as (B1 & B2 & _). rewrite B2 in B1. congruence.
  Qed.

  (* ================================================================ *)
  (* the tidy part: nothing above block n-1 voted or certified         *)
  (* ================================================================ *)
  Notation live t k := (n_live (g_node t k)).

  (* vb bounds the block numbers of the honest high votes: vb = n (nothing voted above block n-1)
     or vb = n + 1 (block n may have been voted) *)
  Variable vb : Z.

  Lemma tidy_step s0 t k i : preach P s0 -> (forall k', hon k' = true -> dview s0 k' <= V) ->
    NSI P s0 Bs t -> hon k = true -> round_input P (length (g_soup s0)) t i ->
    (forall q, gq (cfg 0) hon (g_soup s0) q -> hnum (cprop (qmsg q)) < n) ->
    tidy_node_b P n vb (live t k) ->
    let t' := absorb t k (node_input (cfg k) (g_node t k) i) in
    r_phase (live t' k) <> PCommit ->
    tidy_node_b P n vb (live t' k) /\
    forall m, In m (g_soup t') -> In m (g_soup t) \/
      (m_key m = k /\ ((exists j0, m_msg m = MNewView j0) \/
                      (exists t0, m_msg m = MTimeout t0 /\ tidy_report_b P n vb t0))).
  Proof.
    intros Hr0 HB0 HN Hk Hri HT0 HX t' Hph.
    destruct (input_facts P HP pay fetch Hfirst s0 Hr0 V Bs HB0 Hh1 Hh2 Hle t k i HN Hk Hri)
      as (s' & es & r & Es & Hs & HN' & Hl' & Ha' & Hsoup & Hinv & Hoth & Hnot).
    fold t' in HN', Hl', Ha', Hsoup. rewrite Hl' in *.
    pose proof HN as (HR & Hup & _). pose proof HN' as (HR' & _ & _).
    destruct (node_certs_good P (g_soup s0) t k HR Hk (Hup k Hk)) as [Hg _].
    destruct (node_certs_good P (g_soup s0) t' k HR' Hk Ha') as [Hg' _]. rewrite Hl' in Hg'.
    pose proof (rstep_t_le (cfg k) (live t k) i eq_refl) as Hle0. rewrite Es in Hle0.
    unfold ReplicaMono.st_of in Hle0. cbn [fst] in Hle0.
    destruct i as [m| |nn h].
    - (* a message *)
      destruct Hri as (idx & Hidx & Hm).
      destruct HR as (Hrt & (l & Hl) & HF).
      assert (HinS : In m (g_soup s0)).
      { rewrite Hl, nth_error_app1 in Hm by exact Hidx. eapply nth_error_In; exact Hm. }
      assert (HS : Sum (cfg k) hon (g_soup s0) (live t k) (rstep_t (cfg k) (live t k) (IMsg m))).
      { apply rstep_t_Sum; [reflexivity|apply (fi_certs _ _ _ HF k Hk)|]. split.
        - apply (fi_soup _ _ _ HF). eapply nth_error_In; exact Hm.
        - intros Hsg _. unfold ProtocolRefinesStep.sent. destruct m as [mk ms mm]. cbn in *. subst ms. exact HinS. }
      rewrite Es in HS. destruct HS as (_ & _ & HT).
      destruct HT as [(Hqe & Hd)|[(qs & c & j0 & _ & _ & Hv)|(qs & rest & Ees & Hqe & (Ehv & _ & Hrest))]].
      + destruct Hd as [Hd|Hce]; [exfalso; destruct r as [?|[]|?]; cbn in *; try contradiction; discriminate|].
        split; [apply (tidy_node_keep_b P HP n vb s0 _ s' Hr0 HT0 Hg Hg' Hle0 (proj2 (proj2 Hce)) HX)|].
        intros m0 Hin0. rewrite Hsoup in Hin0. apply in_app_or in Hin0. destruct Hin0 as [Hin0|Hin0]; [left; exact Hin0|].
        exfalso. apply ProtocolRefinesInv.in_sends_of in Hin0. destruct Hin0 as (x & Hx & _).
        rewrite Forall_forall in Hqe. exact (Hqe _ Hx).
      + exfalso. apply Hph. apply Hv.
      + assert (HX' : tidy_node_b P n vb s') by (apply (tidy_node_keep_b P HP n vb s0 _ s' Hr0 HT0 Hg Hg' Hle0 Ehv HX)).
        split; [exact HX'|].
        intros m0 Hin0. rewrite Hsoup in Hin0. apply in_app_or in Hin0. destruct Hin0 as [Hin0|Hin0]; [left; exact Hin0|].
        right. apply ProtocolRefinesInv.in_sends_of in Hin0. destruct Hin0 as (x & Hx & ->). cbn [m_key m_msg]. split; [reflexivity|].
        rewrite Ees in Hx. apply in_app_or in Hx. destruct Hx as [Hx|[Hx|Hx]].
        * exfalso. rewrite Forall_forall in Hqe. exact (Hqe _ Hx).
        * discriminate.
        * rewrite Forall_forall in Hrest. specialize (Hrest _ Hx). cbn [send_spec] in Hrest.
          destruct x as [? ?|?|t0|j0]; try contradiction; [right|left; eauto].
          destruct Hrest as [_ ->]. eexists. split; [reflexivity|]. apply tidy_node_report_b. exact HX'.
    - (* the timer *)
      destruct HR as (Hrt & (l & Hl) & HF).
      assert (HS : Sum (cfg k) hon (g_soup s0) (live t k) (rstep_t (cfg k) (live t k) ITimer)).
      { apply rstep_t_Sum; [reflexivity|apply (fi_certs _ _ _ HF k Hk)|exact I]. }
      rewrite Es in HS. destruct HS as (_ & _ & HT).
      destruct HT as [(Hqe & Hd)|[(qs & c & j0 & _ & _ & Hv)|(qs & rest & Ees & Hqe & (Ehv & _ & Hrest))]].
      + destruct Hd as [Hd|Hce]; [exfalso; destruct r as [?|[]|?]; cbn in *; try contradiction; discriminate|].
        split; [apply (tidy_node_keep_b P HP n vb s0 _ s' Hr0 HT0 Hg Hg' Hle0 (proj2 (proj2 Hce)) HX)|].
        intros m0 Hin0. rewrite Hsoup in Hin0. apply in_app_or in Hin0. destruct Hin0 as [Hin0|Hin0]; [left; exact Hin0|].
        exfalso. apply ProtocolRefinesInv.in_sends_of in Hin0. destruct Hin0 as (x & Hx & _).
        rewrite Forall_forall in Hqe. exact (Hqe _ Hx).
      + exfalso. apply Hph. apply Hv.
      + assert (HX' : tidy_node_b P n vb s') by (apply (tidy_node_keep_b P HP n vb s0 _ s' Hr0 HT0 Hg Hg' Hle0 Ehv HX)).
        split; [exact HX'|].
        intros m0 Hin0. rewrite Hsoup in Hin0. apply in_app_or in Hin0. destruct Hin0 as [Hin0|Hin0]; [left; exact Hin0|].
        right. apply ProtocolRefinesInv.in_sends_of in Hin0. destruct Hin0 as (x & Hx & ->). cbn [m_key m_msg]. split; [reflexivity|].
        rewrite Ees in Hx. apply in_app_or in Hx. destruct Hx as [Hx|[Hx|Hx]].
        * exfalso. rewrite Forall_forall in Hqe. exact (Hqe _ Hx).
        * discriminate.
        * rewrite Forall_forall in Hrest. specialize (Hrest _ Hx). cbn [send_spec] in Hrest.
          destruct x as [? ?|?|t0|j0]; try contradiction; [right|left; eauto].
          destruct Hrest as [_ ->]. eexists. split; [reflexivity|]. apply tidy_node_report_b. exact HX'.
    - (* block sync *)
      rewrite rstep_t_sync_eq in Es.
      destruct (r_store_next (live t k) =? nn); inversion Es; subst s' es r.
      + split; [exact HX|]. intros m0 Hin0. rewrite Hsoup in Hin0. cbn [sends_of flat_map] in Hin0. rewrite app_nil_r in Hin0. left; exact Hin0.
      + split; [exact HX|]. intros m0 Hin0. rewrite Hsoup in Hin0. cbn [sends_of flat_map] in Hin0. rewrite app_nil_r in Hin0. left; exact Hin0.
  Qed.

  Hypothesis HT0 : forall q, gq (cfg 0) hon Sg q -> hnum (cprop (qmsg q)) < n.
  Hypothesis HX : forall k, hon k = true -> tidy_node_b P n vb (live s k).
  (* the honest nodes that have already timed out in view V reported nothing above block n-1 *)
  Hypothesis HXT : forall m t0, In m Sg -> m_sig_ok m = true -> hon (m_key m) = true -> m_msg m = MTimeout t0 ->
    vnum (tview t0) = V -> tidy_report_b P n vb t0.

  (* honest commit votes on the network are those of the start; honest timeout votes for view V
     carry tidy reports *)
  Definition EG (t : gstate) : Prop :=
    (forall m c, In m (g_soup t) -> m_sig_ok m = true -> hon (m_key m) = true -> m_msg m = MCommit c -> In m Sg) /\
    (forall m t0, In m (g_soup t) -> m_sig_ok m = true -> hon (m_key m) = true -> m_msg m = MTimeout t0 ->
       vnum (tview t0) = V -> tidy_report_b P n vb t0).

  Lemma EG_start : EG s.
  Proof.
    split; [intros m c Hin _ _ _; exact Hin|].
    exact HXT.
  Qed.

  Lemma EG_T0 t : EG t -> forall q, gq (cfg 0) hon (g_soup t) q -> hnum (cprop (qmsg q)) < n.
  Proof.
    intros [HE _] q [Hv Hk]. apply HT0. split; [exact Hv|].
    intros h c Hin Hh. exact (HE _ c (Hk h c Hin Hh) eq_refl Hh eq_refl).
  Qed.

  Lemma EG_step t t' : EG t ->
    (forall m, In m (g_soup t') -> In m (g_soup t) \/
       ((forall c, m_msg m <> MCommit c) /\ (forall t0, m_msg m = MTimeout t0 -> tidy_report_b P n vb t0))) ->
    EG t'.
  Proof.
    intros [H1 H2] Hnew. split.
    - intros m c Hin Hsg Hh Em. destruct (Hnew m Hin) as [Hold|[Hc _]]; [eauto|]. exfalso. exact (Hc c Em).
    - intros m t0 Hin Hsg Hh Em EV0. destruct (Hnew m Hin) as [Hold|[_ Ht]]; [eauto|]. exact (Ht t0 Em).
  Qed.

  Definition TN (k : Z) (soup : list sgmsg) (nd : node) : Prop := tidy_node_b P n vb (n_live nd).
  Definition andNP (A B : Z -> list sgmsg -> node -> Prop) (k : Z) (soup : list sgmsg) (nd : node) : Prop :=
    A k soup nd /\ B k soup nd.
  Lemma andNP_mono A B : mono A -> mono B -> mono (andNP A B).
  Proof. intros HA HB k soup soup' nd Hi [H1 H2]. split; [eapply HA|eapply HB]; eassumption. Qed.
  Lemma TN_mono : mono TN.
  Proof. intros k soup soup' nd _ H. exact H. Qed.

  (* the shapes of the steps of a round *)
  Lemma deliver1_absorb s0 t k i : NSI P s0 Bs t -> (forall k', hon k' = true -> dview s0 k' <= V) -> hon k = true ->
    (i < length (g_soup s0))%nat ->
    exists m, deliver1 P i t k = absorb t k (node_input (cfg k) (g_node t k) (IMsg m)) /\
              round_input P (length (g_soup s0)) t (IMsg m).
  Proof.
    intros HN HB0 Hk Hi. destruct (snapshot_nth P pay fetch s0 V Bs HB0 t i HN Hi) as (m & Hnt & _).
    exists m. unfold deliver1, live_node. destruct HN as (_ & Hup & _). rewrite Hk, (Hup k Hk), Hnt. cbn [andb].
    split; [reflexivity|]. exists i. auto.
  Qed.

  Lemma step_tidy s0 t k i :
    preach P s0 -> (forall k', hon k' = true -> dview s0 k' <= V) -> NSI P s0 Bs t -> hon k = true ->
    round_input P (length (g_soup s0)) t i -> EG s0 -> EG t -> lifted TN k t ->
    let t' := absorb t k (node_input (cfg k) (g_node t k) i) in
    r_phase (live t' k) <> PCommit -> EG t' /\ lifted TN k t'.
  Proof.
    intros Hr0 HB0 HN Hk Hri HE0 HE HT t' Hph.
    destruct (tidy_step s0 t k i Hr0 HB0 HN Hk Hri (EG_T0 s0 HE0) HT Hph) as [H1 H2].
    split; [|exact H1]. apply (EG_step t t' HE). intros m Hin. destruct (H2 m Hin) as [Hold|(_ & [(j0 & E)|(t0 & E & Ht)])].
    - left. exact Hold.
    - right. split; [intros c; congruence|intros t0; congruence].
    - right. split; [intros c; congruence|]. intros t1 E1. rewrite E in E1. inversion E1; subst t1. exact Ht.
  Qed.

  (* adding the tidy part to a step lemma of the rounds *)
  Lemma enrich (f : gstate -> Z -> gstate) s0 (G : gstate -> Prop) (NP NP' : Z -> list sgmsg -> node -> Prop) t k :
    preach P s0 -> (forall k', hon k' = true -> dview s0 k' <= V) -> EG s0 -> hon k = true ->
    (forall t0, G t0 -> NSI P s0 Bs t0) ->
    (forall t0, lifted NP' k t0 -> r_phase (live t0 k) <> PCommit) ->
    (G t -> lifted NP k t -> G (f t k) /\ lifted NP' k (f t k)) ->
    (f t k = t \/
     (exists p j0, f t k = add_msg t {| m_key := k; m_sig_ok := true; m_msg := MProposal p j0 |}) \/
     (exists i, f t k = absorb t k (node_input (cfg k) (g_node t k) i) /\ round_input P (length (g_soup s0)) t i)) ->
    G t /\ EG t -> lifted (andNP NP TN) k t ->
    (G (f t k) /\ EG (f t k)) /\ lifted (andNP NP' TN) k (f t k).
  Proof.
    intros Hr0 HB0 HE0 Hk HGN Hph Hold Hshape [HG HE] [HNP HT].
    destruct (Hold HG HNP) as [HG' HNP'].
    destruct Hshape as [E|[(p & j0 & E)|(i & E & Hri)]]; rewrite E in *.
    - split; [split; assumption|split; assumption].
    - split; [split; [exact HG'|]|split; [exact HNP'|exact HT]].
      apply (EG_step t _ HE). intros m Hin. cbn [add_msg g_soup] in Hin. apply in_app_or in Hin.
      destruct Hin as [Hin|[<-|[]]]; [left; exact Hin|right]. split; intros ?; cbn; discriminate.
    - destruct (step_tidy s0 t k i Hr0 HB0 (HGN t HG) Hk Hri HE0 HE HT (Hph _ HNP')) as [HE' HT'].
      split; [split; assumption|split; assumption].
  Qed.

  Lemma sync1_shape s0 f t k :
    sync1 P f t k = t \/
    (exists p j0, sync1 P f t k = add_msg t {| m_key := k; m_sig_ok := true; m_msg := MProposal p j0 |}) \/
    (exists i, sync1 P f t k = absorb t k (node_input (cfg k) (g_node t k) i) /\ round_input P (length (g_soup s0)) t i).
  Proof.
    destruct (sync1_good P f t k) as [E|(q & _ & _ & Hv & Hkn & Hnum & E)]; [left; exact E|right; right].
    eexists. split; [exact E|]. exists q. auto.
  Qed.
  Lemma timer1_shape s0 sr t k :
    timer1 P sr t k = t \/
    (exists p j0, timer1 P sr t k = add_msg t {| m_key := k; m_sig_ok := true; m_msg := MProposal p j0 |}) \/
    (exists i, timer1 P sr t k = absorb t k (node_input (cfg k) (g_node t k) i) /\ round_input P (length (g_soup s0)) t i).
  Proof. unfold timer1. destruct (_ && _); [right; right; exists ITimer; split; [reflexivity|exact I]|left; reflexivity]. Qed.
  Lemma propose1_shape s0 t k :
    propose1 P pay t k = t \/
    (exists p j0, propose1 P pay t k = add_msg t {| m_key := k; m_sig_ok := true; m_msg := MProposal p j0 |}) \/
    (exists i, propose1 P pay t k = absorb t k (node_input (cfg k) (g_node t k) i) /\ round_input P (length (g_soup s0)) t i).
  Proof. destruct (propose1_cases P pay t k) as [E|E]; [left; exact E|right; left; exact E]. Qed.
  Lemma deliver1_shape s0 t k i : NSI P s0 Bs t -> (forall k', hon k' = true -> dview s0 k' <= V) -> hon k = true ->
    (i < length (g_soup s0))%nat ->
    deliver1 P i t k = t \/
    (exists p j0, deliver1 P i t k = add_msg t {| m_key := k; m_sig_ok := true; m_msg := MProposal p j0 |}) \/
    (exists i0, deliver1 P i t k = absorb t k (node_input (cfg k) (g_node t k) i0) /\ round_input P (length (g_soup s0)) t i0).
  Proof. intros HN HB0 Hk Hi. destruct (deliver1_absorb s0 t k i HN HB0 Hk Hi) as (m & E & Hri). right; right. eauto. Qed.

  Lemma ph_W t0 k : lifted NPW k t0 -> r_phase (live t0 k) <> PCommit.
  Proof. intros (_ & _ & H & _). exact H. Qed.
  Lemma ph_T' t0 k : lifted NPT' k t0 -> r_phase (live t0 k) <> PCommit.
  Proof. intros (_ & _ & H & _). rewrite H. discriminate. Qed.

  (* ---------- round A with the tidy part ---------- *)
  Definition GAT2 (t : gstate) : Prop := GAT t /\ EG t.
  Lemma GAT_NSI t0 : GAT t0 -> NSI P s Bs t0.
  Proof. intros H. apply H. Qed.

  Lemma after_timersW2 : GAT2 sW /\ (forall k, hon k = true -> lifted (andNP NPT' TN) k sW).
  Proof.
    assert (HmW : mono (andNP NPW TN)) by (apply andNP_mono; [exact NPW_mono|exact TN_mono]).
    assert (HmT : mono (andNP NPT' TN)) by (apply andNP_mono; [exact NPT'_mono|exact TN_mono]).
    destruct (deliver_all_inv P HP GAT2 (fun _ => andNP NPW TN) s (fun _ => HmW)) as [HG1 HN1].
    { intros i t k Hi Hk HG HNP.
      apply (enrich (deliver1 P i) s GAT NPW NPW t k Hr tHB_s EG_start Hk GAT_NSI (fun t0 => ph_W t0 k)
               (deliverW i t k Hi Hk) (deliver1_shape s t k i (GAT_NSI t (proj1 HG)) tHB_s Hk Hi) HG HNP). }
    { split; [exact GAT_start|exact EG_start]. }
    { intros k Hk. split; [exact (NPW_start k Hk)|exact (HX k Hk)]. }
    destruct (keys_phase P HP (propose1 P pay) GAT2 (andNP NPW TN) (andNP NPW TN) (propose1_local P pay) HmW HmW) with (t := deliver_all P s) as [HG2 HN2].
    { intros t k Hk HG HNP.
      apply (enrich (propose1 P pay) s GAT NPW NPW t k Hr tHB_s EG_start Hk GAT_NSI (fun t0 => ph_W t0 k)
               (proposeW t k Hk) (propose1_shape s t k) HG HNP). }
    { exact HG1. } { exact HN1. }
    destruct (keys_phase P HP (sync_node P (fetch (propose_all P pay (deliver_all P s))) (length (g_qlog (propose_all P pay (deliver_all P s)))))
                GAT2 (andNP NPW TN) (andNP NPW TN) (sync_node_local P _ _) HmW HmW) with (t := propose_all P pay (deliver_all P s)) as [HG3 HN3].
    { intros t k Hk. generalize t. clear t.
      induction (length (g_qlog (propose_all P pay (deliver_all P s)))) as [|fu IH]; intros t HG HNP; cbn [sync_node]; [auto|].
      destruct (enrich (sync1 P (fetch (propose_all P pay (deliver_all P s)))) s GAT NPW NPW t k Hr tHB_s EG_start Hk GAT_NSI (fun t0 => ph_W t0 k)
                  (sync1W _ t k Hk) (sync1_shape s _ t k) HG HNP) as [HG' HNP'].
      exact (IH _ HG' HNP'). }
    { exact HG2. } { exact HN2. }
    unfold sW, timers_all, tW, sync_all.
    apply (keys_phase P HP (timer1 P s) GAT2 (andNP NPW TN) (andNP NPT' TN) (timer1_local P s) HmW HmT); [|exact HG3|exact HN3].
    intros t k Hk HG HNP.
    apply (enrich (timer1 P s) s GAT NPW NPT' t k Hr tHB_s EG_start Hk GAT_NSI (fun t0 => ph_T' t0 k)
             (timerW t k Hk) (timer1_shape s s t k) HG HNP).
  Qed.

  (* ---------- round B with the tidy part ---------- *)
  Lemma sW_EG : EG sW.
  Proof. destruct after_timersW2 as [[_ H] _]. exact H. Qed.
  Lemma ph_BT i t0 k : lifted (NPBT i) k t0 -> r_phase (live t0 k) <> PCommit.
  Proof. intros [(_ & _ & H & _)|(_ & (_ & H & _) & _)]; rewrite H; discriminate. Qed.
  Lemma ph_X t0 k : lifted NXT k t0 -> r_phase (live t0 k) <> PCommit.
  Proof. intros (_ & _ & H & _). rewrite H. discriminate. Qed.
  Lemma ph_XP t0 k : lifted NXTP k t0 -> r_phase (live t0 k) <> PCommit.
  Proof. intros [H _]. exact (ph_X t0 k H). Qed.
  Lemma GBT_NSI t0 : GBT t0 -> NSI P sW Bs t0.
  Proof. intros H. apply H. Qed.
  Lemma GBT3_NSI t0 : GBT3 t0 -> NSI P sW Bs t0.
  Proof. intros H. apply H. Qed.

  Lemma after_roundT2 : EG sT /\ (forall k, hon k = true -> lifted TN k sT).
  Proof.
    destruct after_timersW2 as [_ HTW].
    assert (Hm1 : forall i, mono (andNP (NPBT i) TN)) by (intros i; apply andNP_mono; [apply NPBT_mono|exact TN_mono]).
    assert (HmX : mono (andNP NXT TN)) by (apply andNP_mono; [exact NXT_mono|exact TN_mono]).
    assert (HmP : mono (andNP NXTP TN)) by (apply andNP_mono; [exact NXTP_mono|exact TN_mono]).
    destruct (deliver_all_inv P HP (fun t => GBT t /\ EG t) (fun i => andNP (NPBT i) TN) sW Hm1) as [HG1 HN1].
    { intros i t k Hi Hk HG HNP.
      apply (enrich (deliver1 P i) sW GBT (NPBT i) (NPBT (S i)) t k sW_reach sW_HB sW_EG Hk GBT_NSI (fun t0 => ph_BT (S i) t0 k)
               (deliverBT i t k Hi Hk) (deliver1_shape sW t k i (GBT_NSI t (proj1 HG)) sW_HB Hk Hi) HG HNP). }
    { split; [exact (conj sW_NSI NoProp1_sW)|exact sW_EG]. }
    { intros k Hk. split; [exact (NPBT_start k Hk)|]. destruct (HTW k Hk) as [_ H]. exact H. }
    fold tT1 in HG1, HN1.
    (* after the deliveries every node is in the next view *)
    destruct after_deliverT as [_ HXall].
    assert (HN1' : forall k, hon k = true -> lifted (andNP NXT TN) k tT1).
    { intros k Hk. split; [exact (HXall k Hk)|]. destruct (HN1 k Hk) as [_ H]. exact H. }
    destruct HG1 as [[HNt HNPt] HEt].
    destruct (keys_phase P HP (propose1 P pay) (fun t => GBT3 t /\ EG t) (andNP NXT TN) (andNP NXTP TN) (propose1_local P pay) HmX HmP) with (t := tT1) as [HG2 HN2].
    { intros t k Hk HG HNP.
      apply (enrich (propose1 P pay) sW GBT3 NXT NXTP t k sW_reach sW_HB sW_EG Hk GBT3_NSI (fun t0 => ph_XP t0 k)
               (proposeT t k Hk) (propose1_shape sW t k) HG HNP). }
    { split; [exact (conj HNt (PPT_of_NoProp _ HNPt))|exact HEt]. } { exact HN1'. }
    destruct (keys_phase P HP (sync_node P (fetch (propose_all P pay tT1)) (length (g_qlog (propose_all P pay tT1))))
                (fun t => GBT3 t /\ EG t) (andNP NXTP TN) (andNP NXTP TN) (sync_node_local P _ _) HmP HmP) with (t := propose_all P pay tT1) as [HG3 HN3].
    { intros t k Hk. generalize t. clear t.
      induction (length (g_qlog (propose_all P pay tT1))) as [|fu IH]; intros t HG HNP; cbn [sync_node]; [auto|].
      destruct (enrich (sync1 P (fetch (propose_all P pay tT1))) sW GBT3 NXTP NXTP t k sW_reach sW_HB sW_EG Hk GBT3_NSI (fun t0 => ph_XP t0 k)
                  (sync1T _ t k Hk) (sync1_shape sW _ t k) HG HNP) as [HG' HNP'].
      exact (IH _ HG' HNP'). }
    { exact HG2. } { exact HN2. }
    assert (E : sT = timers_all P sW (sync_all P fetch (propose_all P pay tT1))).
    { unfold sT, sync_round. cbv zeta.
      assert (Hrev : revive_all P sW = sW) by (apply revive_all_id; intros k Hk; apply sW_up; exact Hk).
      rewrite Hrev. reflexivity. }
    rewrite E. unfold timers_all, sync_all.
    destruct (keys_phase P HP (timer1 P sW) (fun t => GBT3 t /\ EG t) (andNP NXTP TN) (andNP NXTP TN) (timer1_local P sW) HmP HmP) with
      (t := fold_left (sync_node P (fetch (propose_all P pay tT1)) (length (g_qlog (propose_all P pay tT1)))) (honest_keys P) (propose_all P pay tT1)) as [HG4 HN4].
    { intros t k Hk HG HNP.
      apply (enrich (timer1 P sW) sW GBT3 NXTP NXTP t k sW_reach sW_HB sW_EG Hk GBT3_NSI (fun t0 => ph_XP t0 k)
               (timerT t k Hk) (timer1_shape sW sW t k) HG HNP). }
    { exact HG3. } { exact HN3. }
    split; [apply HG4|]. intros k Hk. apply (HN4 k Hk).
  Qed.

  (* what the tidy hypotheses add to the result of the two rounds *)
  Theorem timeout_mixed_tidy :
    let s2 := sync_rounds P pay fetch 2 s in
    (forall q, gq (cfg 0) hon (g_soup s2) q -> hnum (cprop (qmsg q)) < n) /\
    (forall k, hon k = true -> tidy_node_b P n vb (live s2 k)) /\
    (forall h m, hon h = true -> In {| m_key := h; m_sig_ok := true; m_msg := MTimeout m |} (g_soup s2) ->
       vnum (tview m) = V -> tidy_report_b P n vb m).
  Proof.
    cbv zeta. rewrite two_roundsT. destruct after_roundT2 as [HE HT].
    split; [exact (EG_T0 sT HE)|]. split; [exact HT|].
    intros h m Hh Hin EV0. destruct HE as [_ H2]. exact (H2 _ m Hin eq_refl Hh eq_refl EV0).
  Qed.
End TimeoutRounds.

(* the case in which every honest node still waits for a proposal: the three hypotheses on the
   votes on the network hold by themselves *)
Section TimeoutRoundsPrepare.
  Variable P : params.
  Hypothesis HP : params_ok P.
  Variable pay : Z -> Z.
  Variable fetch : gstate -> Z -> option cqc.
  Hypothesis Henv : env_ok P pay.
  Notation hon := (honestb P).
  Notation cfg := (pcfg P).
  Variables (V n : Z).
  Hypothesis HV : 0 < V.
  Variable s : gstate.
  Hypothesis Hr : preach P s.
  Variable Bs : Z.
  Hypothesis Hh1 : p_first P + V + 2 < U64.
  Hypothesis Hh2 : Bs + 1 < U64.
  Hypothesis Hle : V + 1 <= Bs.
  Hypothesis Hsb : forall m, In m (g_soup s) -> msg_view (m_msg m) <= Bs.
  Hypothesis Hal : forall k, hon k = true ->
    up s k /\ hview s k = V /\ r_phase (n_live (g_node s k)) = Prepare /\ n <= r_store_next (n_live (g_node s k)).
  Hypothesis HnoP : forall m p' j' mv', In m (g_soup s) -> m_msg m = MProposal p' j' ->
    justification_view (E := unit) true j' = Ok mv' -> vnum mv' = V ->
    justification_verify (p_g P) (p_e P) (p_C P) j' = Ok tt -> False.
  Notation Sg := (g_soup s).
  Notation L' := (cleader (cfg 0) (V + 1)).
  Notation live t k := (n_live (g_node t k)).

  Lemma tp_pos k : hon k = true -> dview s k = V /\ dphase s k = Prepare.
  Proof.
    intros Hk. destruct (Hal k Hk) as (Hu & Hv & Hp & _).
    rewrite (up_dview P HP s k Hr Hk Hu), (up_dphase P HP s k Hr Hk Hu). auto.
  Qed.
  Lemma tp_al k : hon k = true ->
    up s k /\ hview s k = V /\ r_phase (n_live (g_node s k)) <> PCommit /\ n <= r_store_next (n_live (g_node s k)).
  Proof. intros Hk. destruct (Hal k Hk) as (A & B & C & D). repeat split; auto. rewrite C. discriminate. Qed.
  Lemma tp_eta (m : sgmsg) : m_sig_ok m = true -> m = {| m_key := m_key m; m_sig_ok := true; m_msg := m_msg m |}.
  Proof. destruct m as [a b c]. cbn. intros ->. reflexivity. Qed.
  Lemma tp_GC m c : In m Sg -> m_sig_ok m = true -> hon (m_key m) = true -> m_msg m = MCommit c -> vnum (cview c) < V.
  Proof.
    intros Hin Hsg Hh Em. rewrite (tp_eta m Hsg), Em in Hin.
    exact (no_commit_msg_at P HP s (m_key m) c V Hr (fun k Hk => or_intror (tp_pos k Hk)) Hh Hin).
  Qed.
  Lemma tp_noT m t0 : In m Sg -> m_sig_ok m = true -> hon (m_key m) = true -> m_msg m = MTimeout t0 -> vnum (tview t0) < V.
  Proof.
    intros Hin Hsg Hh Em. rewrite (tp_eta m Hsg), Em in Hin.
    apply (no_timeout_msg_at P HP s (m_key m) t0 V Hr); [|exact Hh|exact Hin].
    intros k Hk. right. destruct (tp_pos k Hk) as [E1 E2]. split; [exact E1|rewrite E2; discriminate].
  Qed.
  Lemma tp_GT m t0 : In m Sg -> m_sig_ok m = true -> hon (m_key m) = true -> m_msg m = MTimeout t0 ->
    V <= vnum (tview t0) -> vnum (tview t0) = V /\ timeout_verify (p_g P) (p_e P) (p_C P) t0 = Ok tt.
  Proof. intros Hin Hsg Hh Em HVt. pose proof (tp_noT m t0 Hin Hsg Hh Em). lia. Qed.
  Lemma tp_tq t : tqc_verify (p_g P) (p_e P) (p_C P) t = Ok tt -> kt hon Sg t -> vnum (tqview t) < V.
  Proof.
    apply (no_tqc_at P HP s t V Hr). intros k Hk. right. destruct (tp_pos k Hk) as [E1 E2].
    split; [exact E1|rewrite E2; discriminate].
  Qed.

  Definition timeout_two_rounds_post :=
    timeout_mixed_post P HP pay fetch Henv V n HV s Hr Bs Hh1 Hh2 Hle Hsb tp_al HnoP tp_GC tp_GT tp_tq.

  Hypothesis HT0 : forall q, gq (cfg 0) hon Sg q -> hnum (cprop (qmsg q)) < n.
  (* vb bounds the block numbers of the honest high votes *)
  Variable vb : Z.
  Hypothesis HXb : forall k, hon k = true -> tidy_node_b P n vb (live s k).
  Lemma tp_XTb m t0 : In m Sg -> m_sig_ok m = true -> hon (m_key m) = true -> m_msg m = MTimeout t0 ->
    vnum (tview t0) = V -> tidy_report_b P n vb t0.
  Proof. intros Hin Hsg Hh Em EV0. pose proof (tp_noT m t0 Hin Hsg Hh Em). lia. Qed.

  Definition timeout_two_rounds_tidy_b :=
    timeout_mixed_tidy P HP pay fetch Henv V n HV s Hr Bs Hh1 Hh2 Hle Hsb tp_al HnoP tp_GC tp_GT tp_tq vb HT0 HXb tp_XTb.
End TimeoutRoundsPrepare.

Definition timeout_two_rounds_tidy P HP pay fetch Henv V n HV s Hr Bs Hh1 Hh2 Hle Hsb Hal HnoP HT0 HX :=
  timeout_two_rounds_tidy_b P HP pay fetch Henv V n HV s Hr Bs Hh1 Hh2 Hle Hsb Hal HnoP HT0 n HX.
