(* C06 on the protocol model, part 1: the synchronous round only produces reachable states;
   a generic principle lifting single-replica invariants to all reachable global states;
   no reachable state deadlocks a replica (the view timer is always enabled and retransmits). *)
From Coq Require Import ZArith List Bool Lia.
From EC Require Import Lib.Outcome Lib.U64 Lib.ListW Lib.Obs Model.Msgs Model.Replica Model.ReplicaRun
  Model.Protocol Model.ProtocolSync Proofs.QCProofs Proofs.ReplicaMono Proofs.ReplicaLive.
From EC Require Proofs.ReplicaCrash.
Import ListNotations.
Open Scope Z_scope.

(* ================================================================== *)
(* 1. sync_round is made of pstep transitions                          *)
(* ================================================================== *)
Lemma fold_reach {A} P (f : gstate -> A -> gstate) (l : list A) :
  (forall s x, preach P s -> preach P (f s x)) -> forall s, preach P s -> preach P (fold_left f l s).
Proof.
  intros Hf. induction l as [|x l IH]; intros s Hs; cbn [fold_left]; [exact Hs|]. apply IH, Hf, Hs.
Qed.

Lemma live_node_true P s k : live_node P s k = true -> honestb P k = true /\ n_alive (g_node s k) = true.
Proof. unfold live_node. intros H. apply andb_true_iff in H. exact H. Qed.

Lemma revive1_reach P s k : preach P s -> preach P (revive1 P s k).
Proof.
  intros Hs. unfold revive1. destruct (honestb P k && negb (n_alive (g_node s k))) eqn:E; [|exact Hs].
  apply andb_true_iff in E. destruct E as [E _]. eapply PReachStep; [exact Hs|]. apply PRestart. exact E.
Qed.

Lemma deliver1_reach P i s k : preach P s -> preach P (deliver1 P i s k).
Proof.
  intros Hs. unfold deliver1. destruct (live_node P s k) eqn:E; [|exact Hs].
  apply live_node_true in E. destruct E as [E1 E2].
  destruct (nth_error (g_soup s) i) as [m|] eqn:En; [|exact Hs].
  eapply PReachStep; [exact Hs|]. apply PDeliver; auto. eapply nth_error_In; eauto.
Qed.

Lemma propose1_reach P pay s k : preach P s -> preach P (propose1 P pay s k).
Proof.
  intros Hs. unfold propose1. destruct (live_node P s k) eqn:E; [|exact Hs].
  apply live_node_true in E. destruct E as [E1 E2].
  destruct (n_notify (g_node s k)) as [j|] eqn:En; [|exact Hs].
  destruct (justification_view true j) as [mv| |]; try exact Hs.
  destruct (cleader (pcfg P k) (vnum mv) =? k); [|exact Hs].
  destruct (proposal_payload P pay j) as [p|]; [|exact Hs].
  eapply PReachStep; [exact Hs|]. apply PPropose; auto.
Qed.

Lemma find_cert_spec P s n q : find_cert P s n = Some q ->
  hnum (cprop (qmsg q)) = n /\ cqc_verify (p_g P) (p_e P) (p_C P) q = Ok tt /\
  cqc_knownb P (g_soup s) q = true.
Proof.
  unfold find_cert. intros H. apply find_some in H. destruct H as [_ H].
  apply andb_true_iff in H. destruct H as [H H3]. apply andb_true_iff in H. destruct H as [H1 H2].
  apply Z.eqb_eq in H1. split; [exact H1|]. split; [|exact H3].
  destruct (cqc_verify (p_g P) (p_e P) (p_C P) q) as [[]| |]; [reflexivity|discriminate|discriminate].
Qed.

Lemma sync1_good P f s k :
  sync1 P f s k = s \/
  exists q, honestb P k = true /\ n_alive (g_node s k) = true /\
    cqc_verify (p_g P) (p_e P) (p_C P) q = Ok tt /\ cqc_knownb P (g_soup s) q = true /\
    hnum (cprop (qmsg q)) = r_store_next (n_live (g_node s k)) /\
    sync1 P f s k = absorb s k (node_input (pcfg P k) (g_node s k)
                      (ISync (r_store_next (n_live (g_node s k))) (hpay (cprop (qmsg q))))).
Proof.
  unfold sync1. destruct (live_node P s k) eqn:E; [|left; reflexivity].
  apply live_node_true in E. destruct E as [E1 E2]. cbv zeta.
  destruct (f (r_store_next (n_live (g_node s k)))) as [q|]; [|left; reflexivity].
  match goal with |- context [if ?c then _ else _] => destruct c eqn:Ec end; [|left; reflexivity].
  right. exists q.
  apply andb_true_iff in Ec. destruct Ec as [Ec _]. apply andb_true_iff in Ec. destruct Ec as [Ec H3].
  apply andb_true_iff in Ec. destruct Ec as [H1 H2]. apply Z.eqb_eq in H1.
  repeat split; auto.
  destruct (cqc_verify (p_g P) (p_e P) (p_C P) q) as [[]| |]; [reflexivity|discriminate|discriminate].
Qed.

Lemma sync1_reach P f s k : preach P s -> preach P (sync1 P f s k).
Proof.
  intros Hs. destruct (sync1_good P f s k) as [E|(q & H1 & H2 & H3 & H4 & H5 & E)]; rewrite E; [exact Hs|].
  eapply PReachStep; [exact Hs|]. apply (PSync P s k _ _ q); auto.
Qed.

Lemma sync_node_reach P f fuel : forall s k, preach P s -> preach P (sync_node P f fuel s k).
Proof.
  induction fuel as [|fu IH]; intros s k Hs; cbn [sync_node]; [exact Hs|]. apply IH, sync1_reach, Hs.
Qed.

Lemma timer1_reach P s0 s k : preach P s -> preach P (timer1 P s0 s k).
Proof.
  intros Hs. unfold timer1.
  destruct (live_node P s k && _) eqn:E; [|exact Hs].
  apply andb_true_iff in E. destruct E as [E _]. apply live_node_true in E. destruct E as [E1 E2].
  eapply PReachStep; [exact Hs|]. apply PTimer; auto.
Qed.

Theorem sync_round_reach P pay fetch s : preach P s -> preach P (sync_round P pay fetch s).
Proof.
  intros Hs. unfold sync_round. cbv zeta.
  assert (H0 : preach P (revive_all P s)).
  { unfold revive_all. apply fold_reach; [intros; apply revive1_reach; assumption|exact Hs]. }
  unfold timers_all. apply fold_reach; [intros; apply timer1_reach; assumption|].
  unfold sync_all. apply fold_reach; [intros; apply sync_node_reach; assumption|].
  unfold propose_all. apply fold_reach; [intros; apply propose1_reach; assumption|].
  unfold deliver_all. apply fold_reach; [|exact H0].
  intros s1 i H1. unfold deliver_msg. apply fold_reach; [intros; apply deliver1_reach; assumption|exact H1].
Qed.

Theorem sync_rounds_reach P pay fetch n : forall s, preach P s -> preach P (sync_rounds P pay fetch n s).
Proof.
  induction n as [|n IH]; intros s Hs; cbn [sync_rounds]; [exact Hs|]. apply IH, sync_round_reach, Hs.
Qed.

(* ================================================================== *)
(* 2. lifting single-replica invariants to reachable global states     *)
(* ================================================================== *)
Section NodeInv.
  Variable P : params.
  Variable I : rstate -> Prop.        (* of the volatile state of a node that has not stopped *)
  Variable D : durable -> Prop.       (* of everything ever made durable *)
  Definition persists_D (es : list effect) : Prop :=
    Forall (fun e => match e with EPersist d => D d | _ => True end) es.

  Hypothesis step_ok : forall k s i s' es r, I s -> rstep_t (pcfg P k) s i = (s', es, r) ->
    persists_D es /\ (stops r = false -> I s').
  Hypothesis prologue_ok : forall k s s' es r, I s -> rprologue (pcfg P k) s = (s', es, r) ->
    persists_D es /\ (is_ok r = true -> I s').
  Hypothesis start_ok : forall k d f n, D d -> I (rstart (pcfg P k) d f n).
  Hypothesis default_ok : D durable_default.

  Definition node_ok (nd : node) : Prop := D (n_dur nd) /\ (n_alive nd = true -> I (n_live nd)).

  Lemma apply_effects_D es : forall d n, D d -> persists_D es -> D (fst (apply_effects d n es)).
  Proof.
    induction es as [|e es IH]; intros d n Hd Hes; cbn [apply_effects fst]; [exact Hd|].
    inversion Hes as [|e0 es0 He Hes']; subst.
    destruct e as [d'|m|n0 h|j]; apply IH; first [assumption | exact He].
  Qed.

  Lemma cut_D es k applied pre : cut_at_persist es k applied = Some pre -> persists_D es -> persists_D pre.
  Proof.
    intros Hc Hes. unfold persists_D in *. rewrite Forall_forall in *. intros e Hin.
    apply Hes. eapply cut_at_persist_incl; eassumption.
  Qed.

  Lemma node_boot_ok k d f n : D d -> node_ok (fst (node_boot (pcfg P k) d f n)).
  Proof.
    intros Hd. unfold node_boot.
    destruct (rprologue (pcfg P k) (rstart (pcfg P k) d f n)) as [[s1 es] r] eqn:Ep.
    destruct (prologue_ok k _ s1 es r (start_ok k d f n Hd) Ep) as [H1 H2].
    pose proof (apply_effects_D es d n Hd H1) as H3.
    destruct (apply_effects d n es) as [d1 n1]. cbn [fst] in *. split; cbn [n_dur n_alive n_live]; assumption.
  Qed.

  Lemma node_input_ok k nd i : node_ok nd -> n_alive nd = true -> node_ok (fst (node_input (pcfg P k) nd i)).
  Proof.
    intros [Hd Hl] Ha. specialize (Hl Ha). unfold node_input.
    destruct (rstep_t (pcfg P k) (n_live nd) i) as [[s' es] r] eqn:Es.
    destruct (step_ok k _ i s' es r Hl Es) as [H1 H2].
    pose proof (apply_effects_D es (n_dur nd) (r_store_next (n_live nd)) Hd H1) as H3.
    destruct (apply_effects (n_dur nd) (r_store_next (n_live nd)) es) as [d' n']. cbn [fst] in *.
    split; cbn [n_dur n_alive n_live]; [exact H3|]. intros Hs. apply H2. apply negb_true_iff. exact Hs.
  Qed.

  Lemma node_crash_ok k nd i j applied x : node_ok nd -> n_alive nd = true ->
    node_crash (pcfg P k) nd i j applied = Some x -> node_ok (fst x).
  Proof.
    intros [Hd Hl] Ha. specialize (Hl Ha). unfold node_crash.
    destruct (rstep_t (pcfg P k) (n_live nd) i) as [[s' es] r] eqn:Es.
    destruct (step_ok k _ i s' es r Hl Es) as [H1 _].
    destruct (cut_at_persist es j applied) as [pre|] eqn:Ec; [|discriminate].
    pose proof (apply_effects_D pre (n_dur nd) (r_store_next (n_live nd)) Hd (cut_D _ _ _ _ Ec H1)) as H3.
    destruct (apply_effects (n_dur nd) (r_store_next (n_live nd)) pre) as [d' next']. cbn [fst] in H3.
    pose proof (node_boot_ok k d' (r_store_first (n_live nd)) next' H3) as Hb.
    destruct (node_boot (pcfg P k) d' (r_store_first (n_live nd)) next') as [nd' es1].
    intros Hx; inversion Hx; subst. exact Hb.
  Qed.

  Lemma set_node_get f k nd k' : set_node f k nd k' = if k' =? k then nd else f k'.
  Proof. reflexivity. Qed.

  Theorem preach_node_ok s : preach P s -> forall k, node_ok (g_node s k).
  Proof.
    induction 1 as [|s s' Hr IH Hs]; intros k0.
    - cbn [ginit g_node]. unfold boot0. apply node_boot_ok. exact default_ok.
    - destruct Hs as [s k m Hk Hal Hin|s k Hk Hal|s k i j applied x Hk Hal Hci Hcr|s k Hk
                     |s k n h q Hk Hal Hv Hkn Hn Hh|s k p j Hk Hal Hnt|s m Ha];
        cbn [absorb add_msg g_node]; try (apply IH); rewrite set_node_get;
        (destruct (k0 =? k) eqn:E; [|apply IH]).
      + apply node_input_ok; auto.
      + apply node_input_ok; auto.
      + eapply node_crash_ok; eauto.
      + unfold node_restart. apply node_boot_ok. apply (IH k).
      + apply node_input_ok; auto.
  Qed.
End NodeInv.

(* ================================================================== *)
(* 3. no deadlock                                                      *)
(* ================================================================== *)
Theorem preach_just_ok P s : preach P s -> forall k,
  ReplicaLive.dur_ok (n_dur (g_node s k)) /\ just_ok (n_live (g_node s k)).
Proof.
  intros Hr k.
  (* the volatile part holds whatever the outcome of a step, also for stopped nodes *)
  assert (Hall : forall s0, preach P s0 -> forall k0,
            ReplicaLive.dur_ok (n_dur (g_node s0 k0)) /\ just_ok (n_live (g_node s0 k0))).
  { clear. intros s0 Hr0.
    induction Hr0 as [|s s' Hr IH Hs]; intros k0.
    - cbn [ginit g_node]. unfold boot0, node_boot.
      destruct (rprologue (pcfg P k0) (rstart (pcfg P k0) durable_default (p_first P) (p_first P)))
        as [[s1 es] r] eqn:Ep.
      destruct (apply_effects durable_default (p_first P) es) as [d1 n1] eqn:Ea. cbn [fst n_dur n_live].
      destruct (restart_ok _ _ _ _ _ _ _ _ _ _ durable_default_ok Ep Ea) as [H1 H2]. auto.
    - assert (Hin : forall k nd i, ReplicaLive.dur_ok (n_dur nd) -> just_ok (n_live nd) ->
                ReplicaLive.dur_ok (n_dur (fst (node_input (pcfg P k) nd i))) /\
                just_ok (n_live (fst (node_input (pcfg P k) nd i)))).
      { intros k nd i Hd Hl. unfold node_input.
        destruct (rstep_t (pcfg P k) (n_live nd) i) as [[s1 es] r] eqn:Es.
        destruct (rstep_t_just_ok _ _ _ _ _ _ Hl Es) as [H1 H2].
        pose proof (apply_effects_ok es (n_dur nd) (r_store_next (n_live nd)) Hd H2) as H3.
        destruct (apply_effects (n_dur nd) (r_store_next (n_live nd)) es) as [d' n']. cbn [fst n_dur n_live] in *. auto. }
      assert (Hboot : forall k d f n, ReplicaLive.dur_ok d ->
                ReplicaLive.dur_ok (n_dur (fst (node_boot (pcfg P k) d f n))) /\
                just_ok (n_live (fst (node_boot (pcfg P k) d f n)))).
      { intros k d f n Hd. unfold node_boot.
        destruct (rprologue (pcfg P k) (rstart (pcfg P k) d f n)) as [[s1 es] r] eqn:Ep.
        destruct (apply_effects d n es) as [d1 n1] eqn:Ea. cbn [fst n_dur n_live].
        destruct (restart_ok _ _ _ _ _ _ _ _ _ _ Hd Ep Ea) as [H1 H2]. auto. }
      destruct Hs as [s k m Hk Hal Hin0|s k Hk Hal|s k i j applied x Hk Hal Hci Hcr|s k Hk
                     |s k n h q Hk Hal Hv Hkn Hn Hh|s k p j Hk Hal Hnt|s m Ha];
        cbn [absorb add_msg g_node]; try (apply IH); unfold set_node;
        (destruct (k0 =? k) eqn:E; [|apply IH]).
      + apply Hin; apply IH.
      + apply Hin; apply IH.
      + unfold node_crash in Hcr. destruct (IH k) as [Hd Hl].
        destruct (rstep_t (pcfg P k) (n_live (g_node s k)) i) as [[s1 es] r] eqn:Es.
        destruct (rstep_t_just_ok _ _ _ _ _ _ Hl Es) as [_ H2].
        destruct (cut_at_persist es j applied) as [pre|] eqn:Ec; [|discriminate].
        pose proof (apply_effects_ok pre (n_dur (g_node s k)) (r_store_next (n_live (g_node s k))) Hd
                      (cut_at_persist_ok es j applied pre Ec H2)) as H3.
        destruct (apply_effects (n_dur (g_node s k)) (r_store_next (n_live (g_node s k))) pre) as [d' next'].
        cbn [fst] in H3.
        pose proof (Hboot k d' (r_store_first (n_live (g_node s k))) next' H3) as Hb.
        destruct (node_boot (pcfg P k) d' (r_store_first (n_live (g_node s k))) next') as [nd' es1].
        inversion Hcr; subst x. exact Hb.
      + unfold node_restart. apply Hboot. apply IH.
      + apply Hin; apply IH. }
  exact (Hall s Hr k).
Qed.

(* In every reachable state the view timer of every honest node that has not stopped is
   enabled: the handler succeeds, the node stays up in the same view, in phase Timeout, the
   durable state records it, and it (re)transmits its timeout vote for the current view and,
   beyond view 0, a new-view message carrying its highest certificate. *)
Theorem no_deadlock P s k : preach P s -> n_alive (g_node s k) = true ->
  let live := n_live (g_node s k) in
  let x := node_input (pcfg P k) (g_node s k) ITimer in
  n_alive (fst x) = true /\ n_live (fst x) = set_phase live PTimeout /\
  r_view (n_live (fst x)) = r_view live /\ r_phase (n_live (fst x)) = PTimeout /\
  d_view (n_dur (fst x)) = r_view live /\ d_phase (n_dur (fst x)) = PTimeout /\
  In (ESend (MTimeout {| tview := {| vgen := p_g P; vepoch := p_e P; vnum := r_view live |};
                         thv := r_high_vote live; thq := r_high_cqc live |})) (snd x) /\
  (r_view live <> 0 -> exists j, get_justification live = Ok j /\ In (ESend (MNewView j)) (snd x)).
Proof.
  intros Hr Hal live x. destruct (preach_just_ok P s Hr k) as [_ Hj]. fold live in Hj.
  destruct (timer_always_enabled (pcfg P k) live Hj) as (d & E & Ed & Hg).
  assert (Hgj : get_justification (set_phase live PTimeout) = get_justification live)
    by (apply get_justification_ext; reflexivity).
  unfold x, node_input. fold live. unfold rstep_t. cbn [rstep]. rewrite E.
  cbn [apply_effects]. rewrite Hgj in *.
  set (rest := (if r_view live =? 0 then [] else match get_justification live with Ok j => [ESend (MNewView j)] | _ => [] end)
               ++ [ESend (MTimeout {| tview := {| vgen := cg (pcfg P k); vepoch := ce (pcfg P k); vnum := r_view live |};
                                      thv := r_high_vote live; thq := r_high_cqc live |})]).
  assert (Hrest : forall d0 n0, apply_effects d0 n0 rest = (d0, n0)).
  { intros d0 n0. unfold rest. destruct (r_view live =? 0); [reflexivity|].
    destruct (get_justification live); reflexivity. }
  rewrite Hrest. cbn [fst snd n_alive n_live n_dur stops negb set_phase r_view r_phase].
  subst d. cbn [backup d_view d_phase set_phase r_view r_phase].
  repeat split; auto.
  - right. apply in_or_app. right. left. reflexivity.
  - intros Hv. destruct (Hg Hv) as [j Ej]. exists j. split; [exact Ej|].
    right. apply in_or_app. left. unfold rest. apply Z.eqb_neq in Hv. rewrite Hv, Ej. left. reflexivity.
Qed.

(* ================================================================== *)
(* 4. catching up                                                      *)
(* ================================================================== *)
Lemma start_new_view_view cfg s v : r_view (st_of (start_new_view cfg s v)) = v.
Proof.
  unfold start_new_view. destruct (get_justification _) as [j|e|p]; try reflexivity.
  unfold hbind, hemit, backup_state, st_of. cbn [fst].
  destruct (r_high_cqc _); reflexivity.
Qed.

Lemma start_timeout_view cfg s : r_view (st_of (start_timeout cfg s)) = r_view s.
Proof.
  unfold start_timeout, hbind, backup_state, hemit, st_of. cbn [fst].
  destruct (r_view (set_phase s PTimeout) =? 0); cbn [fst hret]; [reflexivity|].
  destruct (get_justification _); reflexivity.
Qed.

(* a verifying new-view message for a higher view moves the replica to that view, unless the
   replica stops (it can only stop on a gap in its block store) *)
Lemma catch_up_or_stop_rstep cfg s key j mv :
  ccontains cfg key = true ->
  justification_view (E := unit) (cchk cfg) j = Ok mv ->
  justification_verify (cg cfg) (ce cfg) (cC cfg) j = Ok tt ->
  r_view s < vnum mv ->
  let x := rstep cfg s (IMsg {| m_key := key; m_sig_ok := true; m_msg := MNewView j |}) in
  stops (snd x) = true \/ (snd x = Ok tt /\ r_view (st_of x) = vnum mv).
Proof.
  intros Hkey Hview Hver Hlt. cbv zeta. cbn [rstep m_msg m_key m_sig_ok]. unfold on_new_view.
  rewrite Hview. cbn [lift]. rewrite hbind_hret.
  assert (E1 : vnum mv <? r_view s = false) by (apply Z.ltb_ge; lia).
  assert (E2 : vnum mv =? r_view s = false) by (apply Z.eqb_neq; lia).
  rewrite E1, E2, Hkey. cbn [orb andb negb]. rewrite Hver.
  pose proof (process_justification_view cfg s j) as Hv.
  pose proof (process_justification_cert cfg s j) as [Hc _].
  pose proof (ReplicaCrash.okb_process_justification cfg s j) as Hok.
  destruct (process_justification cfg s j) as [[s2 es2] r2].
  unfold st_of, ReplicaCrash.okb in *; cbn [fst snd] in *. unfold hbind.
  destruct r2 as [[]|err|p].
  - assert (E3 : r_view s2 <? vnum mv = true) by (apply Z.ltb_lt; lia). rewrite E3.
    pose proof (start_new_view_view cfg s2 (vnum mv)) as Hnv.
    destruct (get_justification_ok s2 Hc) as [j' Ej'].
    rewrite (start_new_view_ok cfg s2 (vnum mv) j' Ej') in *. cbn [fst snd st_of] in *.
    right. split; [reflexivity|exact Hnv].
  - destruct err; try contradiction. left. reflexivity.
  - contradiction.
Qed.

Lemma catch_up_or_stop cfg s key j mv :
  ccontains cfg key = true ->
  justification_view (E := unit) (cchk cfg) j = Ok mv ->
  justification_verify (cg cfg) (ce cfg) (cC cfg) j = Ok tt ->
  r_view s < vnum mv ->
  let x := rstep_t cfg s (IMsg {| m_key := key; m_sig_ok := true; m_msg := MNewView j |}) in
  stops (snd x) = true \/ r_view (st_of x) = vnum mv.
Proof.
  intros Hkey Hview Hver Hlt. cbv zeta. unfold rstep_t.
  pose proof (catch_up_or_stop_rstep cfg s key j mv Hkey Hview Hver Hlt) as H. cbv zeta in H.
  destruct (rstep cfg s _) as [[s' es] r]. unfold st_of in *; cbn [fst snd] in *.
  destruct H as [H|[-> H]]; [|right; exact H].
  destruct r as [a|err|p]; cbn in H; try discriminate; [|left; reflexivity].
  destruct err; cbn in H; try discriminate; left; reflexivity.
Qed.

Lemma rstep_t_view_mono cfg s i : cchk cfg = true -> r_view s <= r_view (st_of (rstep_t cfg s i)).
Proof.
  intros Hc. unfold rstep_t. pose proof (rstep_monotone cfg s i Hc) as [H _].
  destruct (rstep cfg s i) as [[s' es] r]. unfold st_of in *; cbn [fst] in *.
  destruct r as [a|err|p]; cbn [fst]; try exact H. destruct err; cbn [fst]; try exact H.
  pose proof (start_timeout_view cfg s') as Ht. destruct (start_timeout cfg s') as [[s2 es2] r2].
  unfold st_of in Ht; cbn [fst] in *. lia.
Qed.

Lemma node_input_view_mono P k nd i :
  r_view (n_live nd) <= r_view (n_live (fst (node_input (pcfg P k) nd i))).
Proof.
  unfold node_input. pose proof (rstep_t_view_mono (pcfg P k) (n_live nd) i eq_refl) as H.
  destruct (rstep_t (pcfg P k) (n_live nd) i) as [[s' es] r].
  destruct (apply_effects _ _ es). unfold st_of in H. cbn [fst n_live] in *. exact H.
Qed.

(* the state of one node across a delivery *)
Lemma deliver1_node P i s k k0 :
  g_node (deliver1 P i s k) k0 =
  if (k0 =? k) && live_node P s k then
    match nth_error (g_soup s) i with
    | Some m => fst (node_input (pcfg P k) (g_node s k) (IMsg m))
    | None => g_node s k0
    end
  else g_node s k0.
Proof.
  unfold deliver1. destruct (live_node P s k); [|rewrite andb_false_r; reflexivity].
  rewrite andb_true_r. destruct (nth_error (g_soup s) i) as [m|].
  - cbn [absorb g_node fst]. unfold set_node. reflexivity.
  - destruct (k0 =? k); reflexivity.
Qed.

Lemma deliver1_soup P i s k : exists l, g_soup (deliver1 P i s k) = g_soup s ++ l.
Proof.
  unfold deliver1. destruct (live_node P s k); [|exists []; symmetry; apply app_nil_r].
  destruct (nth_error (g_soup s) i); [|exists []; symmetry; apply app_nil_r].
  cbn [absorb g_soup]. eauto.
Qed.

Lemma nth_error_app_some {A} (l l' : list A) i x : nth_error l i = Some x -> nth_error (l ++ l') i = Some x.
Proof.
  intros H. rewrite nth_error_app1; [exact H|]. apply nth_error_Some. congruence.
Qed.

Section CatchUp.
  Variable P : params.
  Variables (key : Z) (j : justification) (mv : view) (i0 : nat).
  Hypothesis Hkey : is_member P key = true.
  Hypothesis Hview : justification_view (E := unit) true j = Ok mv.
  Hypothesis Hver : justification_verify (p_g P) (p_e P) (p_C P) j = Ok tt.

  Let m0 := {| m_key := key; m_sig_ok := true; m_msg := MNewView j |}.

  (* node k has not stopped => it is at least in the view of the message *)
  Definition caught (k : Z) (s : gstate) : Prop :=
    n_alive (g_node s k) = true -> vnum mv <= r_view (n_live (g_node s k)).

  Lemma ccontains_member k : ccontains (pcfg P k) key = true.
  Proof.
    unfold ccontains. cbn [pcfg cC]. unfold is_member in Hkey. apply existsb_exists in Hkey.
    destruct Hkey as (mb & Hin & Hk). apply Z.eqb_eq in Hk.
    destruct (cindex (p_C P) key) as [i|] eqn:E; [reflexivity|]. exfalso.
    unfold cindex in E. clear - Hin Hk E. revert E. generalize 0%nat.
    induction (p_C P) as [|m1 C IH]; intros n E; [destruct Hin|].
    cbn [cindex_from] in E. destruct (mkey m1 =? key) eqn:E1; [discriminate|].
    destruct Hin as [->|Hin]; [rewrite Hk, Z.eqb_refl in E1; discriminate|]. eapply IH; eauto.
  Qed.

  Lemma node_input_alive_dead P' k nd i : n_alive (fst (node_input (pcfg P' k) nd i)) = true ->
    stops (snd (rstep_t (pcfg P' k) (n_live nd) i)) = false.
  Proof.
    unfold node_input. destruct (rstep_t (pcfg P' k) (n_live nd) i) as [[s' es] r].
    destruct (apply_effects _ _ es). cbn [fst snd n_alive]. apply negb_true_iff.
  Qed.

  Lemma node_input_live P' k nd i :
    n_live (fst (node_input (pcfg P' k) nd i)) = st_of (rstep_t (pcfg P' k) (n_live nd) i).
  Proof.
    unfold node_input, st_of. destruct (rstep_t (pcfg P' k) (n_live nd) i) as [[s' es] r].
    destruct (apply_effects _ _ es). reflexivity.
  Qed.

  (* any delivery preserves "caught" *)
  Lemma caught_preserved k i s k' : caught k s -> caught k (deliver1 P i s k').
  Proof.
    intros Hc. unfold caught. rewrite deliver1_node.
    destruct ((k =? k') && live_node P s k') eqn:E; [|exact Hc].
    apply andb_true_iff in E. destruct E as [E1 E2]. apply Z.eqb_eq in E1. subst k'.
    apply live_node_true in E2. destruct E2 as [_ Hal].
    destruct (nth_error (g_soup s) i) as [m|]; [|exact Hc].
    intros _. specialize (Hc Hal).
    pose proof (node_input_view_mono P k (g_node s k) (IMsg m)). lia.
  Qed.

  (* the delivery of the message itself establishes it *)
  Lemma caught_established k s :
    nth_error (g_soup s) i0 = Some m0 -> honestb P k = true -> caught k (deliver1 P i0 s k).
  Proof.
    intros Hn Hk. unfold caught. rewrite deliver1_node, Z.eqb_refl. cbn [andb].
    destruct (live_node P s k) eqn:El.
    - rewrite Hn. intros Hal. apply node_input_alive_dead in Hal.
      rewrite node_input_live.
      destruct (Z_lt_le_dec (r_view (n_live (g_node s k))) (vnum mv)) as [Hlt|Hge].
      + destruct (catch_up_or_stop (pcfg P k) (n_live (g_node s k)) key j mv (ccontains_member k) Hview Hver Hlt)
          as [Hs|Hv].
        * fold m0 in Hs. congruence.
        * fold m0 in Hv. lia.
      + pose proof (rstep_t_view_mono (pcfg P k) (n_live (g_node s k)) (IMsg m0) eq_refl). lia.
    - intros Hal. unfold live_node in El. rewrite Hk, Hal in El. discriminate.
  Qed.

  Lemma deliver_msg_soup i s : exists l, g_soup (deliver_msg P s i) = g_soup s ++ l.
  Proof.
    unfold deliver_msg. generalize (honest_keys P). intros ks. revert s.
    induction ks as [|k ks IH]; intros s; cbn [fold_left]; [exists []; symmetry; apply app_nil_r|].
    destruct (IH (deliver1 P i s k)) as [l Hl]. destruct (deliver1_soup P i s k) as [l' Hl'].
    rewrite Hl, Hl', <- app_assoc. eauto.
  Qed.

  Lemma caught_deliver_msg_pres k i s : caught k s -> caught k (deliver_msg P s i).
  Proof.
    unfold deliver_msg. generalize (honest_keys P). intros ks. revert s.
    induction ks as [|k' ks IH]; intros s Hc; cbn [fold_left]; [exact Hc|].
    apply IH. apply caught_preserved. exact Hc.
  Qed.

  Lemma caught_deliver_msg_est k s :
    nth_error (g_soup s) i0 = Some m0 -> honestb P k = true -> caught k (deliver_msg P s i0).
  Proof.
    intros Hn Hk. assert (Hin : In k (honest_keys P)).
    { unfold honest_keys. apply filter_In. split; [|exact Hk].
      unfold honestb in Hk. apply andb_true_iff in Hk. destruct Hk as [Hm _].
      unfold is_member in Hm. apply existsb_exists in Hm. destruct Hm as (mb & Hin & Hkk).
      apply Z.eqb_eq in Hkk. subst k. apply in_map. exact Hin. }
    unfold deliver_msg. revert s Hn Hin. generalize (honest_keys P). intros ks.
    induction ks as [|k' ks IH]; intros s Hn Hin; [destruct Hin|]. cbn [fold_left].
    destruct (Z.eq_dec k' k) as [->|Hne].
    - fold (deliver_msg P (deliver1 P i0 s k) i0).
      clear IH Hin. pose proof (caught_established k s Hn Hk) as Hc.
      revert Hc. generalize (deliver1 P i0 s k). induction ks as [|k2 ks IH2]; intros s1 Hc; cbn [fold_left]; [exact Hc|].
      apply IH2. apply caught_preserved. exact Hc.
    - destruct Hin as [Hin|Hin]; [congruence|]. apply IH; [|exact Hin].
      destruct (deliver1_soup P i0 s k') as [l Hl]. rewrite Hl. apply nth_error_app_some. exact Hn.
  Qed.

  (* Catch-up over the delivery phase of a round: if the soup contains a verifying new-view
     message (from any committee member) for view V, then after the phase every honest node that
     has not stopped is in a view >= V. *)
  Theorem catch_up_deliver_all s k :
    nth_error (g_soup s) i0 = Some m0 -> honestb P k = true -> caught k (deliver_all P s).
  Proof.
    intros Hn Hk. unfold deliver_all.
    assert (Hi : (i0 < length (g_soup s))%nat) by (apply nth_error_Some; congruence).
    assert (Hsplit : exists l1 l2, seq 0 (length (g_soup s)) = l1 ++ i0 :: l2).
    { apply in_split. apply in_seq. lia. }
    destruct Hsplit as (l1 & l2 & ->). rewrite fold_left_app. cbn [fold_left].
    assert (Hn1 : nth_error (g_soup (fold_left (deliver_msg P) l1 s)) i0 = Some m0).
    { clear - Hn. revert s Hn. induction l1 as [|i l1 IH]; intros s Hn; cbn [fold_left]; [exact Hn|].
      apply IH. destruct (deliver_msg_soup i s) as [l Hl]. rewrite Hl. apply nth_error_app_some. exact Hn. }
    pose proof (caught_deliver_msg_est k _ Hn1 Hk) as Hc.
    revert Hc. generalize (deliver_msg P (fold_left (deliver_msg P) l1 s) i0).
    induction l2 as [|i l2 IH]; intros s1 Hc; cbn [fold_left]; [exact Hc|].
    apply IH. apply caught_deliver_msg_pres. exact Hc.
  Qed.
End CatchUp.

(* ================================================================== *)
(* 5. the whole round: catching up and retransmission                  *)
(* ================================================================== *)
Lemma absorb_soup s k x : g_soup (absorb s k x) = g_soup s ++ sends_of k (snd x).
Proof. reflexivity. Qed.

Lemma revive1_soup P s k : exists l, g_soup (revive1 P s k) = g_soup s ++ l.
Proof.
  unfold revive1. destruct (_ && _); [rewrite absorb_soup; eauto|exists []; symmetry; apply app_nil_r].
Qed.

Lemma fold_soup_ext {A} (f : gstate -> A -> gstate) (l : list A) :
  (forall s x, exists l', g_soup (f s x) = g_soup s ++ l') ->
  forall s, exists l', g_soup (fold_left f l s) = g_soup s ++ l'.
Proof.
  intros Hf. induction l as [|x l IH]; intros s; cbn [fold_left]; [exists []; symmetry; apply app_nil_r|].
  destruct (IH (f s x)) as [l1 H1]. destruct (Hf s x) as [l2 H2]. rewrite H1, H2, <- app_assoc. eauto.
Qed.

Section Round.
  Variable P : params.
  Variable pay : Z -> Z.
  Variable fetch : gstate -> Z -> option cqc.

  Lemma caught_input mv k s k' i :
    caught mv k s -> (k' = k -> n_alive (g_node s k) = true) ->
    caught mv k (absorb s k' (node_input (pcfg P k') (g_node s k') i)).
  Proof.
    intros Hc Hal. unfold caught. cbn [absorb g_node fst]. unfold set_node.
    destruct (k =? k') eqn:E; [|exact Hc]. apply Z.eqb_eq in E. subst k'.
    intros _. specialize (Hc (Hal eq_refl)).
    pose proof (node_input_view_mono P k (g_node s k) i). lia.
  Qed.

  Lemma caught_propose mv k s k' : caught mv k s -> caught mv k (propose1 P pay s k').
  Proof.
    intros Hc. unfold propose1. destruct (live_node P s k'); [|exact Hc].
    destruct (n_notify _); [|exact Hc]. destruct (justification_view true _); try exact Hc.
    destruct (_ =? _); [|exact Hc]. destruct (proposal_payload _ _ _); exact Hc.
  Qed.

  Lemma caught_sync1 f mv k s k' : caught mv k s -> caught mv k (sync1 P f s k').
  Proof.
    intros Hc. destruct (sync1_good P f s k') as [E|(q & H1 & H2 & _ & _ & _ & E)]; rewrite E; [exact Hc|].
    apply caught_input; [exact Hc|]. intros ->. exact H2.
  Qed.

  Lemma caught_sync_node f mv k fuel : forall s k', caught mv k s -> caught mv k (sync_node P f fuel s k').
  Proof.
    induction fuel as [|fu IH]; intros s k' Hc; cbn [sync_node]; [exact Hc|]. apply IH, caught_sync1, Hc.
  Qed.

  Lemma caught_timer1 mv k s0 s k' : caught mv k s -> caught mv k (timer1 P s0 s k').
  Proof.
    intros Hc. unfold timer1. destruct (live_node P s k' && _) eqn:E; [|exact Hc].
    apply andb_true_iff in E. destruct E as [E _].
    apply caught_input; [exact Hc|]. intros ->. apply live_node_true in E. apply E.
  Qed.

  Lemma fold_caught {A} mv k (f : gstate -> A -> gstate) (l : list A) :
    (forall s x, caught mv k s -> caught mv k (f s x)) ->
    forall s, caught mv k s -> caught mv k (fold_left f l s).
  Proof.
    intros Hf. induction l as [|x l IH]; intros s Hs; cbn [fold_left]; [exact Hs|]. apply IH, Hf, Hs.
  Qed.

  (* Catch-up over one synchronous round: if at the start of the round the soup contains a
     verifying new-view message of a committee member for view V, then at the end of the round
     every honest node that is up is in a view >= V. *)
  Theorem catch_up_round s i0 key j mv k :
    is_member P key = true ->
    justification_view (E := unit) true j = Ok mv ->
    justification_verify (p_g P) (p_e P) (p_C P) j = Ok tt ->
    nth_error (g_soup s) i0 = Some {| m_key := key; m_sig_ok := true; m_msg := MNewView j |} ->
    honestb P k = true ->
    n_alive (g_node (sync_round P pay fetch s) k) = true ->
    vnum mv <= r_view (n_live (g_node (sync_round P pay fetch s) k)).
  Proof.
    intros Hkey Hview Hver Hn Hk. change (caught mv k (sync_round P pay fetch s)).
    unfold sync_round. cbv zeta.
    assert (Hn0 : nth_error (g_soup (revive_all P s)) i0 =
                  Some {| m_key := key; m_sig_ok := true; m_msg := MNewView j |}).
    { unfold revive_all. destruct (fold_soup_ext (revive1 P) (honest_keys P) (revive1_soup P) s) as [l Hl].
      rewrite Hl. apply nth_error_app_some. exact Hn. }
    pose proof (catch_up_deliver_all P key j mv i0 Hkey Hview Hver (revive_all P s) k Hn0 Hk) as Hc.
    unfold timers_all. apply fold_caught; [intros; apply caught_timer1; assumption|].
    unfold sync_all. apply fold_caught; [intros; apply caught_sync_node; assumption|].
    unfold propose_all. apply fold_caught; [intros; apply caught_propose; assumption|]. exact Hc.
  Qed.

  (* ---------- retransmission at the end of the round ---------- *)
  Definition sent_by (s : gstate) (k : Z) (x : cmsg) : Prop :=
    In {| m_key := k; m_sig_ok := true; m_msg := x |} (g_soup s).

  (* what the timer leaves behind, in terms of the node's state afterwards *)
  Definition retransmitted (s : gstate) (k : Z) : Prop :=
    let live := n_live (g_node s k) in
    r_phase live = PTimeout /\
    sent_by s k (MTimeout {| tview := {| vgen := p_g P; vepoch := p_e P; vnum := r_view live |};
                             thv := r_high_vote live; thq := r_high_cqc live |}) /\
    (r_view live <> 0 -> exists j, get_justification live = Ok j /\ sent_by s k (MNewView j)).

  Definition timer_due (s0 s : gstate) (k : Z) : Prop :=
    n_alive (g_node s k) = true -> r_view (n_live (g_node s k)) = r_view (n_live (g_node s0 k)) ->
    retransmitted s k.

  Lemma in_sends_of' k es x : In (ESend x) es -> In {| m_key := k; m_sig_ok := true; m_msg := x |} (sends_of k es).
  Proof.
    intros H. unfold sends_of. apply in_flat_map. exists (ESend x). split; [exact H|left; reflexivity].
  Qed.

  Lemma timer1_fires s0 s k : preach P s ->
    live_node P s k = true -> r_view (n_live (g_node s k)) = r_view (n_live (g_node s0 k)) ->
    retransmitted (timer1 P s0 s k) k.
  Proof.
    intros Hr Hl Hv. unfold timer1. rewrite Hl, (proj2 (Z.eqb_eq _ _) Hv). cbn [andb].
    apply live_node_true in Hl. destruct Hl as [_ Hal].
    destruct (no_deadlock P s k Hr Hal) as (_ & Hst & _ & _ & _ & _ & Ht & Hn). cbv zeta in *.
    unfold retransmitted. cbn [absorb g_node g_soup fst snd]. unfold set_node. rewrite Z.eqb_refl.
    rewrite Hst. cbn [set_phase r_phase r_view r_high_vote r_high_cqc]. split; [reflexivity|]. split.
    - unfold sent_by. cbn [g_soup]. apply in_or_app. right. apply in_sends_of'. exact Ht.
    - intros Hv0. destruct (Hn Hv0) as [j [Ej Hin]]. exists j. split.
      + rewrite <- Ej. apply get_justification_ext; reflexivity.
      + unfold sent_by. cbn [g_soup]. apply in_or_app. right. apply in_sends_of'. exact Hin.
  Qed.

  Lemma timer1_keeps s0 s k k' : k' <> k -> retransmitted s k -> retransmitted (timer1 P s0 s k') k.
  Proof.
    intros Hne (H1 & H2 & H3). unfold timer1. destruct (_ && _); [|repeat split; assumption].
    unfold retransmitted, sent_by. cbn [absorb g_node g_soup fst]. unfold set_node.
    destruct (k =? k') eqn:E; [apply Z.eqb_eq in E; congruence|].
    split; [exact H1|]. split; [apply in_or_app; left; exact H2|].
    intros Hv. destruct (H3 Hv) as [j [Ej Hin]]. exists j. split; [exact Ej|apply in_or_app; left; exact Hin].
  Qed.

  Lemma timer1_node_other s0 s k k' : k' <> k -> g_node (timer1 P s0 s k') k = g_node s k.
  Proof.
    intros Hne. unfold timer1. destruct (_ && _); [|reflexivity].
    cbn [absorb g_node]. unfold set_node. destruct (k =? k') eqn:E; [apply Z.eqb_eq in E; congruence|reflexivity].
  Qed.

  Lemma timer_due_step s0 s k k' : preach P s -> timer_due s0 s k -> timer_due s0 (timer1 P s0 s k') k.
  Proof.
    intros Hr Hd. destruct (Z.eq_dec k' k) as [->|Hne].
    - (* the node's own turn: it fires if due, otherwise nothing changes *)
      destruct (live_node P s k && (r_view (n_live (g_node s k)) =? r_view (n_live (g_node s0 k)))) eqn:E.
      + apply andb_true_iff in E. destruct E as [E1 E2]. apply Z.eqb_eq in E2.
        intros _ _. apply timer1_fires; assumption.
      + unfold timer1. rewrite E. exact Hd.
    - unfold timer_due. rewrite (timer1_node_other s0 s k k' Hne). intros Ha Hv.
      apply timer1_keeps; [exact Hne|]. apply Hd; assumption.
  Qed.

  Lemma timer_due_own s0 s k : preach P s -> honestb P k = true -> timer_due s0 (timer1 P s0 s k) k.
  Proof.
    intros Hr Hk.
    destruct (live_node P s k && (r_view (n_live (g_node s k)) =? r_view (n_live (g_node s0 k)))) eqn:E.
    - apply andb_true_iff in E. destruct E as [E1 E2]. apply Z.eqb_eq in E2.
      intros _ _. apply timer1_fires; assumption.
    - unfold timer1. rewrite E. intros Ha Hv. exfalso.
      unfold live_node in E. rewrite Hk, Ha, (proj2 (Z.eqb_eq _ _) Hv) in E. discriminate.
  Qed.

  Lemma hon_in_honest_keys k : honestb P k = true -> In k (honest_keys P).
  Proof.
    intros Hk. unfold honest_keys. apply filter_In. split; [|exact Hk].
    unfold honestb in Hk. apply andb_true_iff in Hk. destruct Hk as [Hm _].
    unfold is_member in Hm. apply existsb_exists in Hm. destruct Hm as (mb & Hin & Hkk).
    apply Z.eqb_eq in Hkk. subst k. apply in_map. exact Hin.
  Qed.

  Lemma timers_all_due s0 s k : preach P s -> honestb P k = true -> timer_due s0 (timers_all P s0 s) k.
  Proof.
    intros Hr Hk. unfold timers_all. pose proof (hon_in_honest_keys k Hk) as Hin.
    revert s Hr Hin. generalize (honest_keys P). intros ks.
    induction ks as [|k' ks IH]; intros s Hr Hin; [destruct Hin|]. cbn [fold_left].
    destruct (Z.eq_dec k' k) as [->|Hne].
    - pose proof (timer_due_own s0 s k Hr Hk) as Hd.
      pose proof (timer1_reach P s0 s k Hr) as Hr1.
      clear IH Hin. revert Hd Hr1. generalize (timer1 P s0 s k). induction ks as [|k2 ks IH2]; intros s1 Hd Hr1;
        cbn [fold_left]; [exact Hd|].
      apply IH2; [apply timer_due_step; assumption|apply timer1_reach; exact Hr1].
    - destruct Hin as [Hin|Hin]; [congruence|]. apply IH; [apply timer1_reach; exact Hr|exact Hin].
  Qed.

  (* No lost message stays lost: at the end of every synchronous round, every honest node that is
     up and whose view did not change during the round is in phase Timeout and has (re)sent its
     timeout vote for its view and, beyond view 0, a new-view message with its highest
     certificate; these are delivered to everybody in the next round. *)
  Theorem round_retransmits s k : preach P s -> honestb P k = true ->
    let s' := sync_round P pay fetch s in
    n_alive (g_node s' k) = true ->
    r_view (n_live (g_node s' k)) = r_view (n_live (g_node (revive_all P s) k)) ->
    retransmitted s' k.
  Proof.
    intros Hr Hk s'. unfold s', sync_round. cbv zeta.
    apply timers_all_due; [|exact Hk].
    assert (H0 : preach P (revive_all P s)).
    { unfold revive_all. apply fold_reach; [intros; apply revive1_reach; assumption|exact Hr]. }
    unfold sync_all. apply fold_reach; [intros; apply sync_node_reach; assumption|].
    unfold propose_all. apply fold_reach; [intros; apply propose1_reach; assumption|].
    unfold deliver_all. apply fold_reach; [|exact H0].
    intros s1 i H1. unfold deliver_msg. apply fold_reach; [intros; apply deliver1_reach; assumption|exact H1].
  Qed.
End Round.
