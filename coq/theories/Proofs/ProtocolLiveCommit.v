(* C06 on the protocol model, part 5c: a view with the leader's proposal on the network is
   decided within two synchronous rounds (commit_two_rounds).  Round A: every honest node
   votes; the timers fire at the end.  Round B: the votes precede the timeouts on the network;
   up to the first timeout no timeout certificate for the view can exist (knownness frozen at
   the network before the timers), so every node reaches the commit quorum (all honest votes
   weigh a quorum), stores the block and enters the next view; the rest of the round keeps
   that. *)
From Coq Require Import ZArith List Bool Lia.
From EC Require Import Lib.Outcome Lib.U64 Lib.ListW Lib.Obs Model.Msgs Model.Replica Model.ReplicaRun
  Model.Protocol Model.ProtocolSync Proofs.QCProofs Proofs.ReplicaMono Proofs.ReplicaLive
  Proofs.ReplicaCrash Proofs.ProtocolLive Proofs.ProtocolLiveInv Proofs.ProtocolLiveCatch Proofs.ProtocolLiveNoStop.
From EC Require Proofs.ReplicaCaches Proofs.ReplicaJustified Proofs.TqcAssembly.
From EC Require Import Proofs.ProtocolRefinesAbs Proofs.ProtocolRefinesStep.
From EC Require Proofs.ProtocolRefinesInv Proofs.ProtocolRefinesMain.
From EC Require Import Proofs.ProtocolLiveCommitStep Proofs.ProtocolLiveCommitLock.
Import ListNotations.
Open Scope Z_scope.
Module RC := ReplicaCaches.

(* ================================================================== *)
(* 1. folding a step over the honest nodes                             *)
(* ================================================================== *)
Lemma fold_keys (f : gstate -> Z -> gstate) (K : Z -> Prop) (G : gstate -> Prop) (N N' : Z -> gstate -> Prop) :
  (forall t k, K k -> G t -> N k t -> G (f t k) /\ N' k (f t k)) ->
  (forall t k k', k' <> k -> (N k' t -> N k' (f t k)) /\ (N' k' t -> N' k' (f t k))) ->
  forall ks, NoDup ks -> (forall k, In k ks -> K k) -> forall t, G t -> (forall k, In k ks -> N k t) ->
  G (fold_left f ks t) /\ (forall k, In k ks -> N' k (fold_left f ks t)) /\
  (forall k', ~ In k' ks -> (N k' t -> N k' (fold_left f ks t)) /\ (N' k' t -> N' k' (fold_left f ks t))).
Proof.
  intros Hstep Hother. induction ks as [|k ks IH]; intros Hnd HK t HG HN; cbn [fold_left].
  - split; [exact HG|]. split; [intros k []|]. intros k' _. split; auto.
  - inversion Hnd as [|? ? Hnotin Hnd']; subst.
    destruct (Hstep t k (HK k (or_introl eq_refl)) HG (HN k (or_introl eq_refl))) as [HG1 HN1].
    assert (HN' : forall k0, In k0 ks -> N k0 (f t k)).
    { intros k0 Hin. apply (Hother t k k0); [intros ->; contradiction|]. apply HN. right. exact Hin. }
    destruct (IH Hnd' (fun k0 H => HK k0 (or_intror H)) (f t k) HG1 HN') as (H1 & H2 & H3).
    split; [exact H1|]. split.
    + intros k0 [<-|Hin]; [|apply H2; exact Hin]. apply (H3 k Hnotin). exact HN1.
    + intros k' Hk'. assert (Hne : k' <> k) by (intros ->; apply Hk'; left; reflexivity).
      assert (Hk2 : ~ In k' ks) by (intros H; apply Hk'; right; exact H).
      destruct (Hother t k k' Hne) as [A B]. destruct (H3 k' Hk2) as [A2 B2]. split; auto.
Qed.

Lemma honest_keys_NoDup P : params_ok P -> NoDup (honest_keys P).
Proof. intros (H & _). unfold honest_keys. apply NoDup_filter. exact H. Qed.

Lemma honest_keys_hon P k : In k (honest_keys P) -> honestb P k = true.
Proof. unfold honest_keys. intros H. apply filter_In in H. apply H. Qed.

(* node predicates that depend on the node and, monotonically, on the network *)
Definition lifted (NP : Z -> list sgmsg -> node -> Prop) (k : Z) (t : gstate) : Prop :=
  NP k (g_soup t) (g_node t k).
Definition mono (NP : Z -> list sgmsg -> node -> Prop) : Prop :=
  forall k soup soup' nd, (forall m, In m soup -> In m soup') -> NP k soup nd -> NP k soup' nd.
Definition local (f : gstate -> Z -> gstate) : Prop :=
  forall t k, (forall k', k' <> k -> g_node (f t k) k' = g_node t k') /\ exists l, g_soup (f t k) = g_soup t ++ l.

Lemma lifted_other f NP : local f -> mono NP -> forall t k k', k' <> k -> lifted NP k' t -> lifted NP k' (f t k).
Proof.
  intros Hl Hm t k k' Hne H. unfold lifted in *. destruct (Hl t k) as [Hn [l Hs]].
  rewrite (Hn k' Hne), Hs. eapply Hm; [|exact H]. intros m Hin. apply in_or_app. left. exact Hin.
Qed.

Lemma absorb_local t k x : (forall k', k' <> k -> g_node (absorb t k x) k' = g_node t k') /\
  exists l, g_soup (absorb t k x) = g_soup t ++ l.
Proof.
  split; [|cbn [absorb g_soup]; eauto]. intros k' Hne. cbn [absorb g_node]. unfold set_node.
  destruct (k' =? k) eqn:E; [apply Z.eqb_eq in E; contradiction|reflexivity].
Qed.
Lemma id_local (t : gstate) (k : Z) : (forall k', k' <> k -> g_node t k' = g_node t k') /\ exists l, g_soup t = g_soup t ++ l.
Proof. split; [reflexivity|exists []; symmetry; apply app_nil_r]. Qed.

Lemma deliver1_local P i : local (deliver1 P i).
Proof. intros t k. unfold deliver1. destruct (live_node P t k); [|apply id_local]. destruct (nth_error _ _); [apply absorb_local|apply id_local]. Qed.
Lemma propose1_local P pay : local (propose1 P pay).
Proof.
  intros t k. unfold propose1. destruct (live_node P t k); [|apply id_local]. destruct (n_notify _); [|apply id_local].
  destruct (justification_view true _); try apply id_local. destruct (_ =? _); [|apply id_local].
  destruct (proposal_payload _ _ _); [|apply id_local]. split; [reflexivity|cbn [add_msg g_soup]; eauto].
Qed.
Lemma propose1_cases P pay t k : propose1 P pay t k = t \/
  exists p j, propose1 P pay t k = add_msg t {| m_key := k; m_sig_ok := true; m_msg := MProposal p j |}.
Proof.
  unfold propose1. destruct (live_node P t k); [|left; reflexivity]. destruct (n_notify _) as [j|]; [|left; reflexivity].
  destruct (justification_view true j) as [mv| |]; try (left; reflexivity).
  match goal with |- context [if ?c then _ else _] => destruct c end; [|left; reflexivity].
  destruct (proposal_payload _ _ _) as [p|]; [|left; reflexivity]. right. eauto.
Qed.

Lemma sync1_local P f : local (sync1 P f).
Proof.
  intros t k. destruct (sync1_good P f t k) as [E|(q & _ & _ & _ & _ & _ & E)]; rewrite E; [apply id_local|apply absorb_local].
Qed.
Lemma local_trans (f g : gstate -> Z -> gstate) : local f -> local g -> local (fun t k => g (f t k) k).
Proof.
  intros Hf Hg t k. destruct (Hf t k) as [A [l1 B]]. destruct (Hg (f t k) k) as [A2 [l2 B2]]. split.
  - intros k' Hne. rewrite (A2 k' Hne). apply A. exact Hne.
  - exists (l1 ++ l2). rewrite B2, B, app_assoc. reflexivity.
Qed.
Lemma sync_node_local P f fuel : local (sync_node P f fuel).
Proof.
  induction fuel as [|fu IH]; intros t k; cbn [sync_node]; [apply id_local|].
  destruct (sync1_local P f t k) as [A [l1 B]]. destruct (IH (sync1 P f t k) k) as [A2 [l2 B2]]. split.
  - intros k' Hne. rewrite (A2 k' Hne). apply A. exact Hne.
  - exists (l1 ++ l2). rewrite B2, B, app_assoc. reflexivity.
Qed.
Lemma timer1_local P s0 : local (timer1 P s0).
Proof. intros t k. unfold timer1. destruct (_ && _); [apply absorb_local|apply id_local]. Qed.

(* ================================================================== *)
(* 2. one delivery, one timer, inside a round that keeps everybody running *)
(* ================================================================== *)
Section RoundFacts.
  Variable P : params.
  Hypothesis HP : params_ok P.
  Variable pay : Z -> Z.
  Variable fetch : gstate -> Z -> option cqc.
  Hypothesis Hfirst : 0 <= p_first P.
  Notation hon := (honestb P).
  Notation cfg := (pcfg P).
  Variable s0 : gstate.
  Hypothesis Hr0 : preach P s0.
  Variables B Bs : Z.
  Hypothesis HB : forall k, hon k = true -> dview s0 k <= B.
  Hypothesis Hh1 : p_first P + B + 2 < U64.
  Hypothesis Hh2 : Bs + 1 < U64.
  Hypothesis Hle : B + 1 <= Bs.

  Lemma input_facts t k i :
    NSI P s0 Bs t -> hon k = true -> round_input P (length (g_soup s0)) t i ->
    let t' := absorb t k (node_input (cfg k) (g_node t k) i) in
    exists s' es r, rstep_t (cfg k) (n_live (g_node t k)) i = (s', es, r) /\ stopsA r = false /\
      NSI P s0 Bs t' /\ n_live (g_node t' k) = s' /\ n_alive (g_node t' k) = true /\
      g_soup t' = g_soup t ++ sends_of k es /\
      RC.cache_inv (cfg k) (n_live (g_node t k)) /\
      (forall k', k' <> k -> g_node t' k' = g_node t k') /\
      n_notify (g_node t' k) = notify_upd (n_notify (g_node t k)) es.
  Proof.
    intros HN Hk Hi t'. pose proof HN as (HR & Hup & _). pose proof HR as (Hr & _ & _).
    assert (Hlive : live_node P t k = true) by (unfold live_node; rewrite Hk; apply Hup; exact Hk).
    assert (HN' : NSI P s0 Bs t').
    { apply (NSI_prim P HP pay fetch Hfirst s0 Hr0 B Bs HB Hh1 Hh2 Hle t t' HN). apply RPinput; assumption. }
    destruct (rstep_t (cfg k) (n_live (g_node t k)) i) as [[s' es] r] eqn:Es. exists s', es, r.
    split; [reflexivity|].
    assert (Hnode : g_node t' k = fst (node_input (cfg k) (g_node t k) i)).
    { unfold t'. cbn [absorb g_node]. unfold set_node. rewrite Z.eqb_refl. reflexivity. }
    assert (Hal' : n_alive (g_node t' k) = true) by (destruct HN' as (_ & Hup' & _); apply Hup'; exact Hk).
    split.
    { rewrite Hnode in Hal'. pose proof (node_input_alive_dead P k _ i Hal') as H. rewrite Es in H. exact H. }
    split; [exact HN'|]. split.
    { rewrite Hnode, (node_input_live P k). rewrite Es. reflexivity. }
    split; [exact Hal'|]. split.
    { unfold t'. rewrite absorb_soup. f_equal. unfold node_input. rewrite Es. destruct (apply_effects _ _ es). reflexivity. }
    split.
    { destruct (preach_LI P t Hr k) as [_ HI]. destruct (HI (Hup k Hk)) as (Hc & _). exact Hc. }
    split; [apply absorb_local|].
    rewrite Hnode. unfold node_input. rewrite Es. destruct (apply_effects _ _ es). reflexivity.
  Qed.

  (* the message at a snapshot index, seen from a state later in the round *)
  Lemma snapshot_nth t i : NSI P s0 Bs t -> (i < length (g_soup s0))%nat ->
    exists m, nth_error (g_soup t) i = Some m /\ nth_error (g_soup s0) i = Some m /\ In m (g_soup s0) /\
              kmsg hon (g_soup s0) (m_msg m).
  Proof.
    intros ((_ & (l & Hl) & HF) & _ & _) Hi.
    destruct (nth_error (g_soup s0) i) as [m|] eqn:En; [|apply nth_error_None in En; lia].
    exists m. assert (Hin : In m (g_soup s0)) by (eapply nth_error_In; exact En).
    split; [rewrite Hl, nth_error_app1 by exact Hi; exact En|]. split; [reflexivity|]. split; [exact Hin|].
    apply (fi_soup _ _ _ HF). rewrite Hl. apply in_or_app. left. exact Hin.
  Qed.
End RoundFacts.

Section DeliverAll.
  Variable P : params.
  Hypothesis HP : params_ok P.
  Notation hon := (honestb P).

  Lemma keys_phase (f : gstate -> Z -> gstate) (G : gstate -> Prop) (NP NP' : Z -> list sgmsg -> node -> Prop) :
    local f -> mono NP -> mono NP' ->
    (forall t k, hon k = true -> G t -> lifted NP k t -> G (f t k) /\ lifted NP' k (f t k)) ->
    forall t, G t -> (forall k, hon k = true -> lifted NP k t) ->
    G (fold_left f (honest_keys P) t) /\ (forall k, hon k = true -> lifted NP' k (fold_left f (honest_keys P) t)).
  Proof.
    intros Hl Hm Hm' Hstep t HG HN.
    destruct (fold_keys f (fun k => hon k = true) G (lifted NP) (lifted NP') Hstep
                (fun t k k' Hne => conj (lifted_other f NP Hl Hm t k k' Hne) (lifted_other f NP' Hl Hm' t k k' Hne))
                (honest_keys P) (honest_keys_NoDup P HP) (honest_keys_hon P) t HG
                (fun k Hin => HN k (honest_keys_hon P k Hin))) as (H1 & H2 & _).
    split; [exact H1|]. intros k Hk. apply H2. apply hon_in_honest_keys. exact Hk.
  Qed.

  Lemma deliver_range_inv (G : gstate -> Prop) (NP : nat -> Z -> list sgmsg -> node -> Prop) (lo hi : nat) :
    (forall i, mono (NP i)) ->
    (forall i t k, (lo <= i < hi)%nat -> hon k = true -> G t -> lifted (NP i) k t ->
       G (deliver1 P i t k) /\ lifted (NP (S i)) k (deliver1 P i t k)) ->
    forall len start t, (lo <= start)%nat -> (start + len = hi)%nat -> G t ->
      (forall k, hon k = true -> lifted (NP start) k t) ->
      G (fold_left (deliver_msg P) (seq start len) t) /\
      (forall k, hon k = true -> lifted (NP hi) k (fold_left (deliver_msg P) (seq start len) t)).
  Proof.
    intros Hm Hstep. induction len as [|len IH]; intros start t Hlo Hsum HGt HNt; cbn [seq fold_left].
    - rewrite Nat.add_0_r in Hsum. subst hi. auto.
    - destruct (keys_phase (deliver1 P start) G (NP start) (NP (S start)) (deliver1_local P start) (Hm start) (Hm (S start))
                  (fun t k => Hstep start t k ltac:(lia)) t HGt HNt) as [HG1 HN1].
      exact (IH (S start) (deliver_msg P t start) ltac:(lia) ltac:(lia) HG1 HN1).
  Qed.

  Lemma deliver_all_inv (G : gstate -> Prop) (NP : nat -> Z -> list sgmsg -> node -> Prop) s0 :
    (forall i, mono (NP i)) ->
    (forall i t k, (i < length (g_soup s0))%nat -> hon k = true -> G t -> lifted (NP i) k t ->
       G (deliver1 P i t k) /\ lifted (NP (S i)) k (deliver1 P i t k)) ->
    G s0 -> (forall k, hon k = true -> lifted (NP 0%nat) k s0) ->
    G (deliver_all P s0) /\ (forall k, hon k = true -> lifted (NP (length (g_soup s0))) k (deliver_all P s0)).
  Proof.
    intros Hm Hstep HG HN. unfold deliver_all.
    assert (H : forall len start t, (start + len = length (g_soup s0))%nat -> G t ->
              (forall k, hon k = true -> lifted (NP start) k t) ->
              G (fold_left (deliver_msg P) (seq start len) t) /\
              (forall k, hon k = true -> lifted (NP (start + len)%nat) k (fold_left (deliver_msg P) (seq start len) t))).
    { induction len as [|len IH]; intros start t Hsum HGt HNt; cbn [seq fold_left].
      - rewrite Nat.add_0_r. auto.
      - destruct (keys_phase (deliver1 P start) G (NP start) (NP (S start)) (deliver1_local P start) (Hm start) (Hm (S start))
                    (fun t k => Hstep start t k ltac:(lia)) t HGt HNt) as [HG1 HN1].
        destruct (IH (S start) (deliver_msg P t start) ltac:(lia) HG1 HN1) as [HG2 HN2].
        split; [exact HG2|]. replace (start + S len)%nat with (S start + len)%nat by lia. exact HN2. }
    exact (H (length (g_soup s0)) 0%nat s0 eq_refl HG HN).
  Qed.
End DeliverAll.

(* ================================================================== *)
(* 3. the round in which the proposal is delivered                     *)
(* ================================================================== *)
Section CommitRounds.
  Variable P : params.
  Hypothesis HP : params_ok P.
  Variable pay : Z -> Z.
  Variable fetch : gstate -> Z -> option cqc.
  Hypothesis Henv : env_ok P pay.
  Notation hon := (honestb P).
  Notation cfg := (pcfg P).
  Variables (V n : Z) (j : justification) (mv : view).
  Variables (po : option Z) (hh : Z) (oh : option Z).
  Hypothesis Hjv : justification_view (E := unit) true j = Ok mv.
  Hypothesis Hmv : vnum mv = V.
  Hypothesis Hjver : justification_verify (p_g P) (p_e P) (p_C P) j = Ok tt.
  Hypothesis Himp : get_implied_block (E := unit) true (p_C P) (p_first P) j = Ok (n, oh).
  Hypothesis Hkind :
    (oh = None /\ po = Some hh /\ p_pok P n hh = true /\ p_psize P hh <= p_maxpay P) \/
    (oh = Some hh /\ po = None).
  Hypothesis Hfn : p_first P <= n.
  Hypothesis HV : 0 < V.
  Notation L := (cleader (cfg 0) V).
  Notation cstar := {| cview := mv; cprop := {| hnum := n; hpay := hh |} |}.
  Notation mstar := {| m_key := L; m_sig_ok := true; m_msg := MProposal po j |}.

  Variable s : gstate.
  Hypothesis Hr : preach P s.
  Variable Bs : Z.
  Hypothesis Hh1 : p_first P + V + 2 < U64.
  Hypothesis Hh2 : Bs + 1 < U64.
  Hypothesis Hle : V + 1 <= Bs.
  Hypothesis Hsb : forall m, In m (g_soup s) -> msg_view (m_msg m) <= Bs.
  Hypothesis Hal : forall k, hon k = true ->
    up s k /\ hview s k = V /\ r_phase (n_live (g_node s k)) = Prepare /\ n <= r_store_next (n_live (g_node s k)).
  Hypothesis Hstar : In mstar (g_soup s).
  Hypothesis Huq : uniq_prop P V j po (g_soup s).

  Let Hfirst : 0 <= p_first P := proj2 (proj2 Henv).
  Notation Sg := (g_soup s).

  Lemma s_pos k : hon k = true -> dview s k = V /\ dphase s k = Prepare.
  Proof.
    intros Hk. destruct (Hal k Hk) as (Hu & Hv & Hp & _).
    rewrite (up_dview P HP s k Hr Hk Hu), (up_dphase P HP s k Hr Hk Hu). auto.
  Qed.
  Lemma HB_s k : hon k = true -> dview s k <= V.
  Proof. intros Hk. destruct (s_pos k Hk) as [E _]. lia. Qed.
  Lemma Hcq_s q : gq (cfg 0) hon Sg q -> vnum (cview (qmsg q)) < V.
  Proof. apply (no_cqc_at P HP s q V Hr). intros k Hk. right. apply s_pos. exact Hk. Qed.
  Lemma Htq_s t : tqc_verify (p_g P) (p_e P) (p_C P) t = Ok tt -> kt hon Sg t -> vnum (tqview t) < V.
  Proof.
    apply (no_tqc_at P HP s t V Hr). intros k Hk. right. destruct (s_pos k Hk) as [E1 E2].
    split; [exact E1|rewrite E2; discriminate].
  Qed.

  Definition GA2 (t : gstate) : Prop :=
    forall m c, In m (g_soup t) -> m_sig_ok m = true -> hon (m_key m) = true -> m_msg m = MCommit c ->
      V <= vnum (cview c) -> c = cstar.
  Definition GAinv (t : gstate) : Prop := NSI P s Bs t /\ GA2 t.

  Lemma GA_start : GAinv s.
  Proof.
    split.
    - split; [apply RInv_start; assumption|]. split; [intros k Hk; apply (Hal k Hk)|exact Hsb].
    - intros m c Hin Hsg Hh Em HVc. exfalso.
      assert (Hin' : In {| m_key := m_key m; m_sig_ok := true; m_msg := MCommit c |} Sg).
      { destruct m as [mk ms mm]. cbn in *. subst. exact Hin. }
      pose proof (no_commit_msg_at P HP s (m_key m) c V Hr (fun k Hk => or_intror (s_pos k Hk)) Hh Hin'). lia.
  Qed.

  (* the nodes that have the payload of the proposed block cached at the start *)
  Definition ck (k : Z) : Prop := cached n hh (n_live (g_node s k)).
  Definition CVK (k : Z) (st : rstate) : Prop := CV hon Sg st /\ (ck k -> cached n hh st).
  (* ... or cache it when they vote for a new block *)
  Definition ck' (k : Z) : Prop := ck k \/ oh = None.

  Definition NPA (i : nat) (k : Z) (soup : list sgmsg) (nd : node) : Prop :=
    n_alive nd = true /\ nodeA P V n mv hh oh soup k (n_live nd) /\ CVK k (n_live nd) /\
    (forall i0, (i0 < i)%nat -> nth_error Sg i0 = Some mstar -> voted n mv hh oh soup k (n_live nd)).

  Lemma voted_mono soup soup' k st : (forall m, In m soup -> In m soup') ->
    voted n mv hh oh soup k st -> voted n mv hh oh soup' k st.
  Proof. intros Hi (A & B & C & D). repeat split; auto. Qed.

  Lemma nodeA_mono soup soup' k st : (forall m, In m soup -> In m soup') ->
    nodeA P V n mv hh oh soup k st -> nodeA P V n mv hh oh soup' k st.
  Proof.
    intros Hi (A & B & C & D). split; [exact A|]. split; [exact B|]. split; [exact C|].
    destruct D as [D|D]; [left; exact D|right; eapply voted_mono; eassumption].
  Qed.

  Lemma NPA_mono i : mono (NPA i).
  Proof.
    intros k soup soup' nd Hi (A & B & C & D). split; [exact A|]. split; [eapply nodeA_mono; eassumption|].
    split; [exact C|]. intros i0 Hlt Hn. eapply voted_mono; [exact Hi|]. exact (D i0 Hlt Hn).
  Qed.

  Lemma NPA_start k : hon k = true -> lifted (NPA 0%nat) k s.
  Proof.
    intros Hk. destruct (Hal k Hk) as (Hu & Hv & Hp & Hn). unfold lifted, NPA.
    split; [exact Hu|]. split; [|split; [split; [apply preach_CV; assumption|intros H; exact H]|intros i0 Hlt; lia]].
    split; [exact Hv|]. split; [exact Hn|]. split; [|left; exact Hp].
    destruct (ProtocolRefinesInv.preach_inv P HP s Hr) as [a G].
    exact (ProtocolRefinesInv.ni_first _ _ _ _ _ (ProtocolRefinesInv.gi_node _ _ _ G k Hk)).
  Qed.

  Lemma deliverA i t k : (i < length Sg)%nat -> hon k = true -> GAinv t -> lifted (NPA i) k t ->
    GAinv (deliver1 P i t k) /\ lifted (NPA (S i)) k (deliver1 P i t k).
  Proof.
    intros Hi Hk [HN HG2] (A1 & A2 & A3 & A4).
    destruct (snapshot_nth P pay fetch s V Bs HB_s t i HN Hi) as (m & Hnt & Hns & Hin & Hkm).
    assert (Hlive : live_node P t k = true) by (unfold live_node; rewrite Hk; exact A1).
    unfold deliver1. rewrite Hlive, Hnt.
    assert (Hri : round_input P (length Sg) t (IMsg m)) by (exists i; auto).
    destruct (input_facts P HP pay fetch Hfirst s Hr V Bs HB_s Hh1 Hh2 Hle t k (IMsg m) HN Hk Hri)
      as (s' & es & r & Es & Hs & HN' & Hl' & Ha' & Hsoup & Hinv & Hoth & Hnot).
    set (t' := absorb t k (node_input (cfg k) (g_node t k) (IMsg m))) in *.
    assert (Hvle : r_view s' <= V).
    { rewrite <- Hl'. apply (view_le_V P V Sg Hcq_s Htq_s t' k ltac:(lia) (proj1 HN') Hk Ha'). }
    destruct (stepA P V n j mv po hh oh Hjv Hmv Hjver Himp Hkind Hfn Sg Hcq_s Htq_s Huq k _ m (g_soup t) s' es r
                Hinv Es Hs Hvle Hin Hkm A2) as (B1 & B2 & B3 & B4 & B5).
    split; [split; [exact HN'|]|].
    - intros m0 c Hin0 Hsg Hh Em HVc. rewrite Hsoup in Hin0. apply in_app_or in Hin0. destruct Hin0 as [Hin0|Hin0].
      + exact (HG2 m0 c Hin0 Hsg Hh Em HVc).
      + apply ProtocolRefinesInv.in_sends_of in Hin0. destruct Hin0 as (x & Hx & ->). cbn [m_msg] in Em. subst x.
        specialize (B3 _ Hx). inversion B3. reflexivity.
    - unfold lifted, NPA. rewrite Hsoup, Hl'. split; [exact Ha'|]. split; [exact B1|]. split.
      + destruct A3 as [A3 A3c]. split; [|intros Hc; apply B5, A3c, Hc].
        pose proof (CV_step hon Sg (cfg k) _ (IMsg m) Hinv A3) as Hcv. rewrite Es in Hcv. apply Hcv.
        intros m' Em. inversion Em; subst m'. exact Hin.
      + intros i0 Hlt Hn0. destruct (Nat.eq_dec i0 i) as [->|Hne].
        * apply B2. rewrite Hns in Hn0. inversion Hn0. reflexivity.
        * apply B4. apply (A4 i0); [lia|exact Hn0].
  Qed.

  (* after the deliveries everybody has voted *)
  Definition NPV (k : Z) (soup : list sgmsg) (nd : node) : Prop :=
    n_alive nd = true /\ nodeA P V n mv hh oh soup k (n_live nd) /\ CVK k (n_live nd) /\
    voted n mv hh oh soup k (n_live nd).
  Lemma NPV_mono : mono NPV.
  Proof.
    intros k soup soup' nd Hi (A & B & C & D). split; [exact A|]. split; [eapply nodeA_mono; eassumption|].
    split; [exact C|eapply voted_mono; eassumption].
  Qed.

  Lemma after_deliver :
    GAinv (deliver_all P s) /\ (forall k, hon k = true -> lifted NPV k (deliver_all P s)).
  Proof.
    destruct (deliver_all_inv P HP GAinv NPA s NPA_mono deliverA GA_start NPA_start) as [HG HN].
    split; [exact HG|]. intros k Hk. destruct (HN k Hk) as (A & B & C & D).
    apply In_nth_error in Hstar. destruct Hstar as [i0 Hi0].
    split; [exact A|]. split; [exact B|]. split; [exact C|]. apply (D i0); [|exact Hi0].
    apply nth_error_Some. congruence.
  Qed.

  Lemma GA2_add t m : GA2 t -> (forall c, m_msg m <> MCommit c) -> GA2 (add_msg t m).
  Proof.
    intros HG Hm m0 c Hin Hsg Hh Em HVc. cbn [add_msg g_soup] in Hin. apply in_app_or in Hin.
    destruct Hin as [Hin|[<-|[]]]; [exact (HG m0 c Hin Hsg Hh Em HVc)|]. exfalso. exact (Hm c Em).
  Qed.

  Lemma proposeA t k : hon k = true -> GAinv t -> lifted NPV k t ->
    GAinv (propose1 P pay t k) /\ lifted NPV k (propose1 P pay t k).
  Proof.
    intros Hk [HN HG2] HV0.
    assert (HN' : NSI P s Bs (propose1 P pay t k)).
    { apply (NSI_prim P HP pay fetch Hfirst s Hr V Bs HB_s Hh1 Hh2 Hle t _ HN). apply propose1_prim. }
    split; [split; [exact HN'|]|].
    - destruct (propose1_cases P pay t k) as [E|(p & j0 & E)]; rewrite E; [exact HG2|].
      apply GA2_add; [exact HG2|]. intros c. cbn. discriminate.
    - unfold lifted in *. destruct (propose1_local P pay t k) as [_ [l Hl]].
      assert (Hnode : g_node (propose1 P pay t k) k = g_node t k).
      { destruct (propose1_cases P pay t k) as [E|(p & j0 & E)]; rewrite E; reflexivity. }
      rewrite Hnode, Hl. eapply NPV_mono; [|exact HV0]. intros m Hin. apply in_or_app. left. exact Hin.
  Qed.

  Lemma after_propose :
    GAinv (propose_all P pay (deliver_all P s)) /\
    (forall k, hon k = true -> lifted NPV k (propose_all P pay (deliver_all P s))).
  Proof.
    destruct after_deliver as [HG HN]. unfold propose_all.
    apply (keys_phase P HP (propose1 P pay) GAinv NPV NPV (propose1_local P pay) NPV_mono NPV_mono proposeA _ HG HN).
  Qed.

  Lemma rstep_t_sync_eq c st nn h :
    rstep_t c st (ISync nn h) =
    if r_store_next st =? nn then (set_store_next st (nn + 1), [EQueueBlock nn h], Ok tt) else (st, [], Ok tt).
  Proof. unfold rstep_t. cbn [rstep]. destruct (_ =? _); reflexivity. Qed.

  Lemma sync1A f t k : hon k = true -> GAinv t -> lifted NPV k t ->
    GAinv (sync1 P f t k) /\ lifted NPV k (sync1 P f t k).
  Proof.
    intros Hk [HN HG2] HV0.
    destruct (sync1_good P f t k) as [E|(q & _ & Hal0 & Hv & Hkn & Hnum & E)]; rewrite E; [split; [split|]; assumption|].
    set (nn := r_store_next (n_live (g_node t k))) in *. set (h := hpay (cprop (qmsg q))) in *.
    assert (Hri : round_input P (length Sg) t (ISync nn h)) by (exists q; auto).
    destruct (input_facts P HP pay fetch Hfirst s Hr V Bs HB_s Hh1 Hh2 Hle t k (ISync nn h) HN Hk Hri)
      as (s' & es & r & Es & Hs & HN' & Hl' & Ha' & Hsoup & Hinv & Hoth & Hnot).
    rewrite rstep_t_sync_eq in Es. unfold nn in Es at 1. rewrite Z.eqb_refl in Es. inversion Es as [[E1 E2 E3]].
    rewrite <- E1 in Hl'. rewrite <- E2 in Hsoup. clear Es E1 E2 E3.
    cbn [sends_of flat_map] in Hsoup. rewrite app_nil_r in Hsoup.
    destruct HV0 as (A & B & C & D).
    assert (F : frame0 (n_live (g_node t k)) (set_store_next (n_live (g_node t k)) (nn + 1))).
    { unfold frame0; cbn. repeat split; try reflexivity. unfold nn. lia. }
    split; [split; [exact HN'|]|].
    - intros m0 c Hin0. rewrite Hsoup in Hin0. exact (HG2 m0 c Hin0).
    - unfold lifted, NPV. rewrite Hsoup, Hl'. split; [exact Ha'|].
      split; [exact (nodeA_frame P V n mv hh oh _ _ k _ _ F (fun m H => H) B)|].
      split; [|exact (voted_frame n mv hh oh _ _ k _ _ F (fun m H => H) D)].
      destruct C as [C Cc]. split; [intros h0 v Hh Hg; exact (C h0 v Hh Hg)|exact Cc].
  Qed.

  Lemma sync_nodeA f fuel : forall t k, hon k = true -> GAinv t -> lifted NPV k t ->
    GAinv (sync_node P f fuel t k) /\ lifted NPV k (sync_node P f fuel t k).
  Proof.
    induction fuel as [|fu IH]; intros t k Hk HG HV0; cbn [sync_node]; [auto|].
    destruct (sync1A f t k Hk HG HV0) as [HG1 HV1]. exact (IH _ k Hk HG1 HV1).
  Qed.

  Definition tA := sync_all P fetch (propose_all P pay (deliver_all P s)).

  Lemma after_sync : GAinv tA /\ (forall k, hon k = true -> lifted NPV k tA).
  Proof.
    destruct after_propose as [HG HN]. unfold tA, sync_all.
    apply (keys_phase P HP _ GAinv NPV NPV (sync_node_local P _ _) NPV_mono NPV_mono
             (fun t k => sync_nodeA _ _ t k) _ HG HN).
  Qed.

  (* ---------- the view timers at the end of the round ---------- *)
  Lemma timer_step_eq t k : preach P t -> up t k -> r_view (n_live (g_node t k)) <> 0 ->
    exists j0, rstep_t (cfg k) (n_live (g_node t k)) ITimer =
      (set_phase (n_live (g_node t k)) PTimeout,
       [EPersist (backup (cfg k) (set_phase (n_live (g_node t k)) PTimeout)); ESend (MNewView j0);
        ESend (MTimeout {| tview := {| vgen := p_g P; vepoch := p_e P; vnum := r_view (n_live (g_node t k)) |};
                           thv := r_high_vote (n_live (g_node t k)); thq := r_high_cqc (n_live (g_node t k)) |})], Ok tt).
  Proof.
    intros Hrt Hu Hv. destruct (preach_LI P t Hrt k) as [_ HI]. destruct (HI Hu) as (_ & _ & _ & _ & Hj).
    specialize (Hj Hv). unfold ReplicaJustified.justified, ReplicaJustified.held_at_least in Hj.
    assert (Hc : r_high_cqc (n_live (g_node t k)) <> None \/ r_high_tqc (n_live (g_node t k)) <> None).
    { destruct Hj as [Hj|Hj]; [left|right]; intros E; rewrite E in Hj; cbn in Hj; contradiction. }
    destruct (start_timeout_ok (cfg k) _ Hv Hc) as (j0 & _ & E). exists j0.
    unfold rstep_t. cbn [rstep]. rewrite E. reflexivity.
  Qed.

  Definition NPT (k : Z) (soup : list sgmsg) (nd : node) : Prop :=
    n_alive nd = true /\ r_view (n_live nd) = V /\ r_phase (n_live nd) = PTimeout /\
    (ck' k -> cached n hh (n_live nd)) /\ n <= r_store_next (n_live nd) /\
    CV hon Sg (n_live nd) /\ In (votemsg n mv hh k) soup.
  Lemma NPT_mono : mono NPT.
  Proof. intros k soup soup' nd Hi (A&B&C&D&E&F&G). repeat split; auto. Qed.

  Lemma s_view k : hon k = true -> r_view (n_live (g_node s k)) = V.
  Proof. intros Hk. destruct (Hal k Hk) as (_ & Hv & _). exact Hv. Qed.

  Lemma timerA t k : hon k = true -> GAinv t -> lifted NPV k t ->
    GAinv (timer1 P s t k) /\ lifted NPT k (timer1 P s t k).
  Proof.
    intros Hk [HN HG2] (A & (B1 & B2 & B3 & B4) & C & (D1 & D2 & D3 & D4)).
    assert (Hlive : live_node P t k = true) by (unfold live_node; rewrite Hk; exact A).
    unfold timer1. rewrite Hlive, B1, (s_view k Hk), Z.eqb_refl. cbn [andb].
    destruct (input_facts P HP pay fetch Hfirst s Hr V Bs HB_s Hh1 Hh2 Hle t k ITimer HN Hk I)
      as (s' & es & r & Es & Hs & HN' & Hl' & Ha' & Hsoup & Hinv & Hoth & Hnot).
    destruct (timer_step_eq t k (proj1 (proj1 HN)) A ltac:(rewrite B1; lia)) as [j0 E]. rewrite E in Es.
    inversion Es as [[E1 E2 E3]]. rewrite <- E1 in Hl'. rewrite <- E2 in Hsoup. clear Es E1 E2 E3.
    split; [split; [exact HN'|]|].
    - intros m0 c Hin0 Hsg Hh Em HVc. rewrite Hsoup in Hin0. apply in_app_or in Hin0. destruct Hin0 as [Hin0|Hin0].
      + exact (HG2 m0 c Hin0 Hsg Hh Em HVc).
      + cbn in Hin0. destruct Hin0 as [<-|[<-|[]]]; discriminate Em.
    - unfold lifted, NPT. rewrite Hsoup, Hl'. cbn [set_phase r_view r_phase r_cache r_store_next].
      split; [exact Ha'|]. split; [exact B1|]. split; [reflexivity|].
      split; [intros [Hc|Hc]; [exact (proj2 C Hc)|exact (D3 Hc)]|]. split; [exact B2|].
      split; [exact (proj1 C)|]. apply in_or_app. left. exact D4.
  Qed.

  Definition sA := timers_all P s tA.

  Lemma revive_s : revive_all P s = s.
  Proof. apply revive_all_id. intros k Hk. apply (Hal k Hk). Qed.

  Lemma sA_round : sync_round P pay fetch s = sA.
  Proof. unfold sync_round. cbv zeta. rewrite revive_s. reflexivity. Qed.

  Lemma after_timers : GAinv sA /\ (forall k, hon k = true -> lifted NPT k sA).
  Proof.
    destruct after_sync as [HG HN]. unfold sA, timers_all.
    apply (keys_phase P HP (timer1 P s) GAinv NPV NPT (timer1_local P s) NPV_mono NPT_mono timerA _ HG HN).
  Qed.

  (* ================================================================ *)
  (* 4. the round in which the votes are delivered                     *)
  (* ================================================================ *)
  Notation Sg2 := (g_soup tA).

  Lemma tA_reach : preach P tA.
  Proof. destruct after_sync as [[((H & _) & _) _] _]. exact H. Qed.

  Lemma tA_pos k : hon k = true -> dview tA k = V /\ dphase tA k = PCommit.
  Proof.
    intros Hk. destruct after_sync as [_ HN]. destruct (HN k Hk) as (A & (B1 & _) & _ & (D1 & _)).
    rewrite (up_dview P HP tA k tA_reach Hk A), (up_dphase P HP tA k tA_reach Hk A). auto.
  Qed.

  Lemma HcqB q : gq (cfg 0) hon Sg2 q -> vnum (cview (qmsg q)) <= V.
  Proof.
    intros Hq. destruct (cqc_view_bound P HP tA q tA_reach Hq) as (k & Hk & Hle0).
    destruct (tA_pos k Hk) as [E _]. lia.
  Qed.
  Lemma HtqB t : tqc_verify (p_g P) (p_e P) (p_C P) t = Ok tt -> kt hon Sg2 t -> vnum (tqview t) < V.
  Proof.
    apply (no_tqc_at P HP tA t V tA_reach). intros k Hk. right. destruct (tA_pos k Hk) as [E1 E2].
    split; [exact E1|rewrite E2; discriminate].
  Qed.

  Lemma votes_in k : hon k = true -> In (votemsg n mv hh k) Sg2.
  Proof. intros Hk. destruct after_sync as [_ HN]. destruct (HN k Hk) as (_ & _ & _ & (_ & _ & _ & D4)). exact D4. Qed.

  Lemma fold_local_soup (f : gstate -> Z -> gstate) : local f -> forall ks t, exists l, g_soup (fold_left f ks t) = g_soup t ++ l.
  Proof.
    intros Hl. induction ks as [|k ks IH]; intros t; cbn [fold_left]; [exists []; symmetry; apply app_nil_r|].
    destruct (Hl t k) as [_ [l1 E1]]. destruct (IH (f t k)) as [l2 E2]. exists (l1 ++ l2). rewrite E2, E1, app_assoc. reflexivity.
  Qed.

  Lemma sA_soup : exists Tm, g_soup sA = Sg2 ++ Tm.
  Proof. unfold sA, timers_all. apply fold_local_soup. apply timer1_local. Qed.

  Lemma sA_reach : preach P sA.
  Proof. destruct after_timers as [[((H & _) & _) _] _]. exact H. Qed.

  Lemma sA_up k : hon k = true -> up sA k.
  Proof. intros Hk. destruct after_timers as [_ HN]. apply (HN k Hk). Qed.

  Lemma sA_HB k : hon k = true -> dview sA k <= V.
  Proof.
    intros Hk. destruct after_timers as [_ HN]. destruct (HN k Hk) as (A & B & _).
    rewrite (up_dview P HP sA k sA_reach Hk A). unfold hview. lia.
  Qed.

  Lemma sA_NSI : NSI P sA Bs sA.
  Proof.
    destruct after_timers as [[(_ & _ & Hm) _] _].
    split; [apply RInv_start; [exact HP|exact sA_reach]|]. split; [exact sA_up|exact Hm].
  Qed.

  Lemma sA_FI : FI P Sg sA.
  Proof. destruct after_timers as [[((_ & _ & H) & _) _] _]. exact H. Qed.

  Lemma Sg_Sg2 : incl Sg Sg2.
  Proof. destruct after_sync as [[((_ & (l & Hl) & _) & _) _] _]. rewrite Hl. intros m Hin. apply in_or_app. left. exact Hin. Qed.

  Lemma sA_RInv2 : RInv P Sg2 sA.
  Proof.
    split; [exact sA_reach|]. split; [exact sA_soup|].
    destruct sA_FI as [F1 F2 F3]. split.
    - intros k Hk. exact (ProtocolRefinesInv.certs_ok_mono hon Sg Sg2 Sg_Sg2 (cfg k) _ (F1 k Hk)).
    - intros k j0 Hk Hj. exact (ProtocolRefinesInv.kj_mono hon Sg Sg2 Sg_Sg2 j0 (F2 k j0 Hk Hj)).
    - intros m Hin. exact (ProtocolRefinesInv.kmsg_mono hon Sg Sg2 Sg_Sg2 _ (F3 m Hin)).
  Qed.

  Lemma sA_GA2 : GA2 sA.
  Proof. destruct after_timers as [[_ H] _]. exact H. Qed.

  (* stage 1: the part of the network that existed before the timers fired *)
  Definition GB1 (t : gstate) : Prop := NSI P sA Bs t /\ RInv P Sg2 t.

  (* a node that has entered view V+1: block n stored, its proposer notified of a commit
     certificate for the committed vote *)
  Definition NX (k : Z) (soup : list sgmsg) (nd : node) : Prop :=
    n_alive nd = true /\ r_view (n_live nd) = V + 1 /\ r_phase (n_live nd) = Prepare /\
    (n <= r_store_next (n_live nd) /\ (ck' k -> n < r_store_next (n_live nd))) /\
    exists q, n_notify nd = Some (JCommit q) /\ qmsg q = cstar.
  Lemma NX_mono : mono NX.
  Proof. intros k soup soup' nd _ H. exact H. Qed.

  Definition NPB (i : nat) (k : Z) (soup : list sgmsg) (nd : node) : Prop :=
    NX k soup nd \/
    (n_alive nd = true /\ (i <= length Sg2)%nat /\
     (coll P V n mv hh k (n_live nd) /\ (ck' k -> cached n hh (n_live nd))) /\
     forall h i0, hon h = true -> (i0 < i)%nat -> nth_error Sg2 i0 = Some (votemsg n mv hh h) ->
       hasbit (cfg k) (n_live nd) h cstar).
  Lemma NPB_mono i : mono (NPB i).
  Proof. intros k soup soup' nd _ H. exact H. Qed.

  Lemma last_notify_queue qs : only_queue qs -> forall acc,
    fold_left (fun acc e => match e with ENotifyProposer j => Some j | _ => acc end) qs acc = acc.
  Proof.
    induction 1 as [|e qs He _ IH]; intros acc; [reflexivity|]. cbn [fold_left].
    destruct e; try contradiction. apply IH.
  Qed.
  Lemma notify_upd_queue old es : only_queue es -> notify_upd old es = old.
  Proof. intros H. unfold notify_upd, last_notify. rewrite (last_notify_queue es H). reflexivity. Qed.
  Lemma notify_upd_enter old qs j0 d x : only_queue qs ->
    notify_upd old (qs ++ [ENotifyProposer j0; EPersist d; ESend x]) = Some j0.
  Proof.
    intros H. unfold notify_upd, last_notify. rewrite fold_left_app, (last_notify_queue qs H). reflexivity.
  Qed.

  Lemma cstar_from_cert q : gq (cfg 0) hon Sg2 q -> V <= vnum (cview (qmsg q)) -> qmsg q = cstar.
  Proof.
    intros [Hv Hk] HVq. destruct (cqc_honest_signer P HP q Hv) as (h & Hh & Hin).
    pose proof (Hk h (qmsg q) Hin Hh) as Hsent. unfold ProtocolRefinesStep.sent in Hsent.
    destruct sA_soup as [Tm ETm].
    apply (sA_GA2 {| m_key := h; m_sig_ok := true; m_msg := MCommit (qmsg q) |} (qmsg q)); auto.
    rewrite ETm. apply in_or_app. left. exact Hsent.
  Qed.

  (* the view bound of round B: nobody gets beyond V+1 *)
  Lemma viewB t k : NSI P sA Bs t -> hon k = true -> hview t k <= V + 1.
  Proof.
    intros (HR & Hup & _) Hk.
    destruct (round_cert_bound P HP pay fetch sA t k V sA_reach HR sA_HB Hk (Hup k Hk)) as (H & _). exact H.
  Qed.

  Lemma sA_kmsg m : In m (g_soup sA) -> kmsg hon Sg (m_msg m).
  Proof. apply (fi_soup _ _ _ sA_FI). Qed.

  (* a node in view V+1 stays as it is under everything of the snapshot *)
  Lemma NX_input t k m : NSI P sA Bs t -> hon k = true -> In m (g_soup sA) ->
    round_input P (length (g_soup sA)) t (IMsg m) -> lifted NX k t ->
    let t' := absorb t k (node_input (cfg k) (g_node t k) (IMsg m)) in
    NSI P sA Bs t' /\ lifted NX k t' /\ g_soup t' = g_soup t.
  Proof.
    intros HN Hk Hin Hri (A & B & C & D & q & E1 & E2) t'.
    destruct (input_facts P HP pay fetch Hfirst sA sA_reach V Bs sA_HB Hh1 Hh2 Hle t k (IMsg m) HN Hk Hri)
      as (s' & es & r & Es & Hs & HN' & Hl' & Ha' & Hsoup & Hinv & Hoth & Hnot).
    fold t' in HN', Hl', Ha', Hsoup, Hnot.
    pose proof (viewB t' k HN' Hk) as Hvb. unfold hview in Hvb. rewrite Hl' in Hvb.
    destruct (stepC P V Sg Hcq_s Htq_s k _ m s' es r Hinv Es Hs ltac:(lia) ltac:(lia) (sA_kmsg m Hin))
      as ((F1&F2&F3&F4&F5&F6) & Hoq).
    split; [exact HN'|]. split.
    - unfold lifted, NX. rewrite Hl', Hnot, (notify_upd_queue _ es Hoq).
      split; [exact Ha'|]. split; [congruence|]. split; [congruence|].
      split; [destruct D as [D1 D2]; split; [lia|intros H; specialize (D2 H); lia]|]. exists q. auto.
    - rewrite Hsoup, (sends_of_quiet k es (only_queue_no_sends es Hoq)). apply app_nil_r.
  Qed.

  (* no proposal for view V+1 with a verifying justification is on the network before the
     propose step of this round *)
  Definition NoProp (t : gstate) : Prop :=
    forall m p' j' mv', In m (g_soup t) -> m_msg m = MProposal p' j' ->
      justification_view (E := unit) true j' = Ok mv' -> vnum mv' = V + 1 ->
      justification_verify (p_g P) (p_e P) (p_C P) j' = Ok tt -> False.

  Lemma NoProp_sA : NoProp sA.
  Proof.
    intros m p' j' mv' Hin Em Ejv EV Ever. pose proof (sA_kmsg m Hin) as Hkm. rewrite Em in Hkm. cbn [kmsg] in Hkm.
    pose proof (just_lt P V Sg Hcq_s Htq_s j' Hkm Ever). pose proof (jview_num j' mv' Ejv). lia.
  Qed.

  Definition GB1' (t : gstate) : Prop := GB1 t /\ NoProp t.

  Lemma NoProp_sends t k es : NoProp t -> (forall x, In (ESend x) es -> exists j0, x = MNewView j0) ->
    forall t', g_soup t' = g_soup t ++ sends_of k es -> NoProp t'.
  Proof.
    intros HP0 Hes t' Hsoup m p' j' mv' Hin Em. rewrite Hsoup in Hin. apply in_app_or in Hin. destruct Hin as [Hin|Hin].
    - exact (HP0 m p' j' mv' Hin Em).
    - apply ProtocolRefinesInv.in_sends_of in Hin. destruct Hin as (x & Hx & ->). cbn [m_msg] in Em.
      destruct (Hes x Hx) as [j0 ->]. discriminate Em.
  Qed.

  Lemma deliverB1 i t k : (0 <= i < length Sg2)%nat -> hon k = true -> GB1' t -> lifted (NPB i) k t ->
    GB1' (deliver1 P i t k) /\ lifted (NPB (S i)) k (deliver1 P i t k).
  Proof.
    intros Hi Hk [[HN HR2] HNP] A2.
    destruct sA_soup as [Tm ETm].
    assert (Hi' : (i < length (g_soup sA))%nat) by (rewrite ETm, app_length; lia).
    destruct (snapshot_nth P pay fetch sA V Bs sA_HB t i HN Hi') as (m & Hnt & Hns & Hin & _).
    assert (Hns2 : nth_error Sg2 i = Some m) by (rewrite ETm, nth_error_app1 in Hns by lia; exact Hns).
    assert (Hkm : kmsg hon Sg (m_msg m)) by (apply sA_kmsg; exact Hin).
    assert (A1 : n_alive (g_node t k) = true) by (destruct HN as (_ & Hup & _); apply Hup; exact Hk).
    assert (Hlive : live_node P t k = true) by (unfold live_node; rewrite Hk; exact A1).
    unfold deliver1. rewrite Hlive, Hnt.
    assert (Hri : round_input P (length (g_soup sA)) t (IMsg m)) by (exists i; auto).
    set (t' := absorb t k (node_input (cfg k) (g_node t k) (IMsg m))) in *.
    assert (HR2' : RInv P Sg2 t').
    { apply (RInv_prim P Sg2 sA t t' HR2). apply RPinput; [exact Hlive|]. exists i. split; [lia|exact Hnt]. }
    destruct A2 as [HX|(_ & Hile & [HC HCc] & Hbits)].
    - destruct (NX_input t k m HN Hk Hin Hri HX) as (HN' & HX' & Hsoup). fold t' in HN', HX', Hsoup.
      split; [split; [split; assumption|]|left; exact HX'].
      intros m0 p' j' mv' Hin0. rewrite Hsoup in Hin0. exact (HNP m0 p' j' mv' Hin0).
    - destruct (input_facts P HP pay fetch Hfirst sA sA_reach V Bs sA_HB Hh1 Hh2 Hle t k (IMsg m) HN Hk Hri)
        as (s' & es & r & Es & Hs & HN' & Hl' & Ha' & Hsoup & Hinv & Hoth & Hnot).
      fold t' in HN', Hl', Ha', Hsoup, Hnot.
      destruct (node_certs_good P Sg2 t' k HR2' Hk Ha') as [Hgq Hgt]. rewrite Hl' in Hgq, Hgt.
      assert (Hptq : forall tq, r_high_tqc s' = Some tq -> vnum (tqview tq) < V).
      { intros tq Etq. destruct (Hgt tq Etq) as [Hv0 Hk0]. exact (HtqB tq Hv0 Hk0). }
      destruct (stepB P HP V n j mv hh Hjv Hmv Hjver Sg Hcq_s Htq_s k _ m s' es r Hinv Es Hs Hkm)
        as [(E1 & E2 & [E3a E3b] & q & j1 & qs & E4 & E5 & E6 & E7 & E8)|(HC' & Hoq & Hpres & Hown & Hcache)].
      + intros c Em Hsg Hh HVc. exact (sA_GA2 m c Hin Hsg Hh Em HVc).
      + exact Hptq.
      + intros q Eq HVq. exact (cstar_from_cert q (Hgq q Eq) HVq).
      + exact HC.
      + (* entered the next view *)
        assert (Ej1 : j1 = JCommit q).
        { destruct (preach_LI P t' (proj1 (proj1 HN')) k) as [_ HI]. destruct (HI Ha') as (_ & Hc & _). rewrite Hl' in Hc.
          pose proof (ReplicaJustified.get_justification_highest (cfg k) s' j1 Hc E6) as Hh.
          destruct j1 as [q1|t1].
          - destruct Hh as [Hq1 _]. rewrite E4 in Hq1. inversion Hq1. reflexivity.
          - exfalso. destruct Hh as [Ht1 Hlt]. specialize (Hlt q E4). rewrite E5 in Hlt. cbn [cview] in Hlt.
            specialize (Hptq t1 Ht1). lia. }
        subst j1.
        split; [split; [split; assumption|]|].
        * apply (NoProp_sends t k es HNP); [|exact Hsoup].
          intros x Hx. rewrite E8 in Hx. apply in_app_or in Hx. destruct Hx as [Hx|[Hx|[Hx|[Hx|[]]]]]; try discriminate.
          -- unfold only_queue in E7. rewrite Forall_forall in E7. destruct (E7 _ Hx).
          -- inversion Hx. eauto.
        * left. unfold lifted, NX. rewrite Hl', Hnot, E8, (notify_upd_enter _ qs _ _ _ E7).
          split; [exact Ha'|]. split; [exact E1|]. split; [exact E2|].
          split; [split; [exact E3a|intros Hc; apply E3b, HCc, Hc]|]. exists q. auto.
      + split; [split; [split; assumption|]|].
        * apply (NoProp_sends t k es HNP); [|exact Hsoup].
          intros x Hx. unfold only_queue in Hoq. rewrite Forall_forall in Hoq. destruct (Hoq _ Hx).
        * right. unfold lifted. rewrite Hl'. split; [exact Ha'|]. split; [lia|].
          split; [split; [exact HC'|intros Hc; unfold cached; rewrite Hcache; apply HCc, Hc]|].
          intros h i0 Hh Hlt Hn0. destruct (Nat.eq_dec i0 i) as [->|Hne].
          -- apply (Hown h Hh). rewrite Hns2 in Hn0. inversion Hn0. reflexivity.
          -- apply (Hpres h Hh). apply (Hbits h i0 Hh); [lia|exact Hn0].
  Qed.

  Lemma no_votes_in_Sg h c : hon h = true -> In {| m_key := h; m_sig_ok := true; m_msg := MCommit c |} Sg ->
    vnum (cview c) < V.
  Proof. intros Hh Hin. exact (no_commit_msg_at P HP s h c V Hr (fun k Hk => or_intror (s_pos k Hk)) Hh Hin). Qed.

  Lemma NPB_start k : hon k = true -> lifted (NPB 0%nat) k sA.
  Proof.
    intros Hk. destruct after_timers as [_ HN]. destruct (HN k Hk) as (A & B & C & D & E & F & G).
    unfold lifted, NPB. right. split; [exact A|]. split; [lia|]. split; [|intros h i0 _ Hlt; lia].
    pose proof (fi_certs _ _ _ sA_FI k Hk) as K. split; [|exact D].
    split; [exact B|]. split; [rewrite C; discriminate|]. split; [exact I|]. split; [exact E|]. split; [|split].
    - intros q Hq. apply Hcq_s. exact (co_cqc _ _ _ _ K q Hq).
    - intros h Hh. left. unfold RC.fresh.
      destruct (zmap_get (r_commit_views (n_live (g_node sA k))) h) as [v'|] eqn:Ev; [|reflexivity].
      destruct (F h v' Hh Ev) as (c & Ec & Hin). pose proof (no_votes_in_Sg h c Hh Hin). apply Z.leb_gt. lia.
    - intros q Hq.
      assert (Hb : exists b, zmap_get (r_commit_qcs (n_live (g_node sA k))) V = Some b /\ cmap_get b cstar = Some q).
      { unfold qc_at in Hq. destruct (zmap_get _ V) as [b|]; [|discriminate]. eauto. }
      destruct Hb as (b & Hb1 & Hb2).
      destruct (co_ccache _ _ _ _ K V b cstar q (RC.zmap_get_in _ _ _ Hb1) (RC.cmap_get_in _ _ _ Hb2)) as [Hinv Hkq].
      destruct (preach_LI P sA sA_reach k) as [_ HI]. destruct (HI A) as (Hci & _).
      destruct (RC.cache_inv_commit_qc (cfg k) _ V b cstar q Hci Hb1 Hb2) as (_ & Hqm & _).
      apply (byz_only_light P HP); [apply Hinv|].
      intros i Hi. destruct (abyz P i) eqn:Eb; [reflexivity|]. exfalso.
      assert (Hh : SafetyAbs.honest (cweights (p_C P)) (abyz P) i).
      { split; [|exact Eb]. unfold SafetyAbs.member. rewrite (W_length P). destruct Hinv as [Hl _]. cbn [cC pcfg] in Hl.
        rewrite <- Hl. apply nth_error_Some. congruence. }
      pose proof (signer_sig_inv P q i Hinv Hi) as Hsig. rewrite Hqm in Hsig.
      pose proof (Hkq _ _ Hsig (honest_key P i Hh)) as Hsent.
      pose proof (no_votes_in_Sg _ _ (honest_key P i Hh) Hsent) as Hlt. cbn [cview] in Hlt. lia.
  Qed.

  Definition tB1 := fold_left (deliver_msg P) (seq 0 (length Sg2)) sA.

  Lemma after_stage1 : (NSI P sA Bs tB1 /\ NoProp tB1) /\ (forall k, hon k = true -> lifted NX k tB1).
  Proof.
    destruct (deliver_range_inv P HP GB1' NPB 0 (length Sg2) NPB_mono deliverB1 (length Sg2) 0%nat sA
                (le_n _) eq_refl (conj (conj sA_NSI sA_RInv2) NoProp_sA) NPB_start) as [[[HN HR2] HNP] HB1].
    fold tB1 in HN, HR2, HNP, HB1. split; [split; assumption|].
    intros k Hk. destruct (HB1 k Hk) as [HX|(A & _ & [HC _] & Hbits)]; [exact HX|]. exfalso.
    destruct (preach_LI P tB1 (proj1 HR2) k) as [_ HI]. destruct (HI A) as (Hci & _).
    apply (coll_full_contra P HP V n mv hh Hmv Sg Hcq_s k _ Hci HC).
    - exists k. exact Hk.
    - intros h Hh. pose proof (votes_in h Hh) as Hin. apply In_nth_error in Hin. destruct Hin as [i0 Hi0].
      apply (Hbits h i0 Hh); [|exact Hi0]. apply nth_error_Some. congruence.
  Qed.

  (* stage 2: the messages sent by the timers of the previous round change nothing *)
  Definition GB2 (t : gstate) : Prop := NSI P sA Bs t /\ NoProp t.

  Lemma deliverB2 i t k : (length Sg2 <= i < length (g_soup sA))%nat -> hon k = true -> GB2 t ->
    lifted ((fun _ => NX) i) k t -> GB2 (deliver1 P i t k) /\ lifted ((fun _ => NX) (S i)) k (deliver1 P i t k).
  Proof.
    intros Hi Hk [HN HNP] HX.
    destruct (snapshot_nth P pay fetch sA V Bs sA_HB t i HN (proj2 Hi)) as (m & Hnt & Hns & Hin & _).
    assert (A1 : n_alive (g_node t k) = true) by apply HX.
    assert (Hlive : live_node P t k = true) by (unfold live_node; rewrite Hk; exact A1).
    unfold deliver1. rewrite Hlive, Hnt.
    assert (Hri : round_input P (length (g_soup sA)) t (IMsg m)) by (exists i; split; [apply Hi|exact Hnt]).
    destruct (NX_input t k m HN Hk Hin Hri HX) as (HN' & HX' & Hsoup).
    split; [split; [exact HN'|]|exact HX'].
    intros m0 p' j' mv' Hin0. rewrite Hsoup in Hin0. exact (HNP m0 p' j' mv' Hin0).
  Qed.

  Definition tB2 := deliver_all P sA.

  Lemma tB2_eq : tB2 = fold_left (deliver_msg P) (seq (length Sg2) (length (g_soup sA) - length Sg2)) tB1.
  Proof.
    unfold tB2, deliver_all, tB1. destruct sA_soup as [Tm ETm].
    assert (EN : length (g_soup sA) = (length Sg2 + (length (g_soup sA) - length Sg2))%nat)
      by (rewrite ETm, app_length; lia).
    rewrite EN at 1. rewrite seq_app, fold_left_app. reflexivity.
  Qed.

  Lemma after_deliverB : GB2 tB2 /\ (forall k, hon k = true -> lifted NX k tB2).
  Proof.
    destruct after_stage1 as [HG HX]. rewrite tB2_eq.
    destruct sA_soup as [Tm ETm].
    apply (deliver_range_inv P HP GB2 (fun _ => NX) (length Sg2) (length (g_soup sA)) (fun _ => NX_mono) deliverB2
             (length (g_soup sA) - length Sg2) (length Sg2) tB1 (le_n _)); [|exact HG|exact HX].
    rewrite ETm, app_length. lia.
  Qed.


  (* ---------- the proposers, block sync and the timers of round B ---------- *)
  Notation L' := (cleader (cfg 0) (V + 1)).
  Definition propmsg (q : cqc) : sgmsg :=
    {| m_key := L'; m_sig_ok := true; m_msg := MProposal (Some (pay (n + 1))) (JCommit q) |}.

  (* every verifying proposal for view V+1 on the network is the one its honest leader sent for
     the justification it was notified of *)
  Definition PP (t : gstate) : Prop :=
    forall m p' j' mv', In m (g_soup t) -> m_msg m = MProposal p' j' ->
      justification_view (E := unit) true j' = Ok mv' -> vnum mv' = V + 1 ->
      justification_verify (p_g P) (p_e P) (p_C P) j' = Ok tt ->
      hon (m_key m) = true /\ m_key m = L' /\ p' = Some (pay (n + 1)) /\
      exists q, j' = JCommit q /\ n_notify (g_node t (m_key m)) = Some (JCommit q).
  Definition GB3 (t : gstate) : Prop := NSI P sA Bs t /\ PP t.

  Definition NXP (k : Z) (soup : list sgmsg) (nd : node) : Prop :=
    NX k soup nd /\ (k = L' -> exists q, n_notify nd = Some (JCommit q) /\ In (propmsg q) soup).
  Lemma NXP_mono : mono NXP.
  Proof. intros k soup soup' nd Hi [A B]. split; [exact A|]. intros E. destruct (B E) as (q & Hq & Hin). exists q. auto. Qed.

  Lemma notify_good t k q : NSI P sA Bs t -> hon k = true -> n_notify (g_node t k) = Some (JCommit q) ->
    cqc_verify (p_g P) (p_e P) (p_C P) q = Ok tt /\ hnum (cprop (qmsg q)) <= p_first P + vnum (cview (qmsg q)).
  Proof.
    intros ((Hrt & _ & HF) & _ & _) Hk Hn.
    pose proof (preach_notify_ok P t Hrt k _ Hn) as Hv. apply justification_verify_iff in Hv.
    pose proof (fi_notify _ _ _ HF k _ Hk Hn) as Hkq. cbn [kj] in Hkq.
    split; [exact Hv|]. apply (gq_number_bound P HP sA q sA_reach). split; assumption.
  Qed.

  Lemma jview_commit q : qmsg q = cstar ->
    justification_view (E := unit) true (JCommit q) = Ok {| vgen := vgen mv; vepoch := vepoch mv; vnum := V + 1 |}.
  Proof.
    intros E. unfold justification_view. rewrite E. cbn [cview]. unfold num_next, u64_add. rewrite Hmv.
    assert (H : (V + 1 <? U64) = true) by (apply Z.ltb_lt; lia). rewrite H. reflexivity.
  Qed.

  Lemma implied_commit q : qmsg q = cstar -> n + 1 < U64 ->
    get_implied_block (E := unit) true (p_C P) (p_first P) (JCommit q) = Ok (n + 1, None).
  Proof.
    intros E Hn. cbn [get_implied_block]. rewrite E. cbn [cprop hnum]. unfold num_next, u64_add.
    assert (H : (n + 1 <? U64) = true) by (apply Z.ltb_lt; exact Hn). rewrite H. reflexivity.
  Qed.

  Lemma proposeB t k : hon k = true -> GB3 t -> lifted NX k t ->
    GB3 (propose1 P pay t k) /\ lifted NXP k (propose1 P pay t k).
  Proof.
    intros Hk [HN HPP] HX. pose proof HX as (A & B & C & D & q & E1 & E2).
    assert (HN' : NSI P sA Bs (propose1 P pay t k)).
    { apply (NSI_prim P HP pay fetch Hfirst sA sA_reach V Bs sA_HB Hh1 Hh2 Hle t _ HN). apply propose1_prim. }
    destruct (notify_good t k q HN Hk E1) as [Hqv Hqn]. rewrite E2 in Hqn. cbn [cprop hnum cview] in Hqn. rewrite Hmv in Hqn.
    assert (Hn1 : n + 1 < U64) by lia.
    assert (Hlive : live_node P t k = true) by (unfold live_node; rewrite Hk; exact A).
    unfold propose1 in *. rewrite Hlive, E1, (jview_commit q E2) in *. cbn [vnum] in *.
    unfold proposal_payload in *. rewrite (implied_commit q E2 Hn1) in *.
    change (cleader (pcfg P k) (V + 1)) with L' in *.
    destruct (L' =? k) eqn:El.
    - apply Z.eqb_eq in El.
      split; [split; [exact HN'|]|].
      + intros m p' j' mv' Hin Em Ejv EV Ever. cbn [add_msg g_soup g_node] in *. apply in_app_or in Hin.
        destruct Hin as [Hin|[<-|[]]]; [exact (HPP m p' j' mv' Hin Em Ejv EV Ever)|].
        cbn [m_msg m_key] in *. inversion Em; subst p' j'.
        split; [exact Hk|]. split; [symmetry; exact El|]. split; [reflexivity|]. exists q. auto.
      + unfold lifted, NXP. cbn [add_msg g_soup g_node]. split; [exact HX|]. intros _. exists q. split; [exact E1|].
        apply in_or_app. right. left. unfold propmsg. rewrite El. reflexivity.
    - split; [split; [exact HN'|exact HPP]|]. unfold lifted, NXP. split; [exact HX|].
      intros E. apply Z.eqb_neq in El. congruence.
  Qed.

  Definition tB3 := propose_all P pay tB2.

  Lemma PP_of_NoProp t : NoProp t -> PP t.
  Proof. intros H m p' j' mv' Hin Em Ejv EV Ever. exfalso. exact (H m p' j' mv' Hin Em Ejv EV Ever). Qed.

  Lemma after_proposeB : GB3 tB3 /\ (forall k, hon k = true -> lifted NXP k tB3).
  Proof.
    destruct after_deliverB as [[HN HNP] HX]. unfold tB3, propose_all.
    apply (keys_phase P HP (propose1 P pay) GB3 NX NXP (propose1_local P pay) NX_mono NXP_mono proposeB _
             (conj HN (PP_of_NoProp _ HNP)) HX).
  Qed.

  Lemma sync1B f t k : hon k = true -> GB3 t -> lifted NXP k t ->
    GB3 (sync1 P f t k) /\ lifted NXP k (sync1 P f t k).
  Proof.
    intros Hk [HN HPP] HXP.
    destruct (sync1_good P f t k) as [E|(q0 & _ & Hal0 & Hv & Hkn & Hnum & E)]; rewrite E; [split; [split|]; assumption|].
    set (nn := r_store_next (n_live (g_node t k))) in *. set (h := hpay (cprop (qmsg q0))) in *.
    assert (Hri : round_input P (length (g_soup sA)) t (ISync nn h)) by (exists q0; auto).
    destruct (input_facts P HP pay fetch Hfirst sA sA_reach V Bs sA_HB Hh1 Hh2 Hle t k (ISync nn h) HN Hk Hri)
      as (s' & es & r & Es & Hs & HN' & Hl' & Ha' & Hsoup & Hinv & Hoth & Hnot).
    rewrite rstep_t_sync_eq in Es. unfold nn in Es at 1. rewrite Z.eqb_refl in Es. inversion Es as [[E1 E2 E3]].
    rewrite <- E1 in Hl'. rewrite <- E2 in Hsoup, Hnot. clear Es E1 E2 E3.
    cbn [sends_of flat_map] in Hsoup. rewrite app_nil_r in Hsoup.
    assert (Hnot' : n_notify (g_node (absorb t k (node_input (cfg k) (g_node t k) (ISync nn h))) k) = n_notify (g_node t k)).
    { rewrite Hnot. apply notify_upd_queue. repeat constructor. }
    split; [split; [exact HN'|]|].
    - intros m p' j' mv' Hin Em Ejv EV Ever. rewrite Hsoup in Hin.
      destruct (HPP m p' j' mv' Hin Em Ejv EV Ever) as (B1 & B2 & B3 & q & B4 & B5).
      split; [exact B1|]. split; [exact B2|]. split; [exact B3|]. exists q. split; [exact B4|].
      destruct (Z.eq_dec (m_key m) k) as [Ek|Hne]; [rewrite Ek, Hnot', <- Ek; exact B5|rewrite (Hoth _ Hne); exact B5].
    - destruct HXP as [(A & B & C & D & q & E1 & E2) HL]. unfold lifted, NXP, NX. rewrite Hsoup, Hl', Hnot'.
      cbn [set_store_next r_view r_phase r_store_next].
      split; [|exact HL]. split; [exact Ha'|]. split; [exact B|]. split; [exact C|]. split; [unfold nn; lia|]. exists q. auto.
  Qed.

  Lemma sync_nodeB f fuel : forall t k, hon k = true -> GB3 t -> lifted NXP k t ->
    GB3 (sync_node P f fuel t k) /\ lifted NXP k (sync_node P f fuel t k).
  Proof.
    induction fuel as [|fu IH]; intros t k Hk HG HV0; cbn [sync_node]; [auto|].
    destruct (sync1B f t k Hk HG HV0) as [HG1 HV1]. exact (IH _ k Hk HG1 HV1).
  Qed.

  Definition tB4 := sync_all P fetch tB3.

  Lemma after_syncB : GB3 tB4 /\ (forall k, hon k = true -> lifted NXP k tB4).
  Proof.
    destruct after_proposeB as [HG HN]. unfold tB4, sync_all.
    apply (keys_phase P HP _ GB3 NXP NXP (sync_node_local P _ _) NXP_mono NXP_mono
             (fun t k => sync_nodeB _ _ t k) _ HG HN).
  Qed.

  Lemma sA_view k : hon k = true -> r_view (n_live (g_node sA k)) = V.
  Proof. intros Hk. destruct after_timers as [_ HN]. apply (HN k Hk). Qed.

  Lemma timerB t k : hon k = true -> GB3 t -> lifted NXP k t ->
    GB3 (timer1 P sA t k) /\ lifted NXP k (timer1 P sA t k).
  Proof.
    intros Hk HG HXP. pose proof HXP as [(_ & B & _) _].
    unfold timer1. rewrite B, (sA_view k Hk).
    assert (E : (V + 1 =? V) = false) by (apply Z.eqb_neq; lia). rewrite E, andb_false_r. auto.
  Qed.

  Definition sB := sync_round P pay fetch sA.

  Lemma sB_eq : sB = timers_all P sA tB4.
  Proof.
    unfold sB, sync_round. cbv zeta.
    assert (Hrev : revive_all P sA = sA) by (apply revive_all_id; intros k Hk; apply sA_up; exact Hk).
    rewrite Hrev. reflexivity.
  Qed.

  Lemma after_roundB : GB3 sB /\ (forall k, hon k = true -> lifted NXP k sB).
  Proof.
    destruct after_syncB as [HG HN]. rewrite sB_eq. unfold timers_all.
    apply (keys_phase P HP (timer1 P sA) GB3 NXP NXP (timer1_local P sA) NXP_mono NXP_mono timerB _ HG HN).
  Qed.

  Lemma two_rounds : sync_rounds P pay fetch 2 s = sB.
  Proof. cbn [sync_rounds]. rewrite sA_round. reflexivity. Qed.

  (* ---------- block sync of round B: the nodes without the payload fetch the block ---------- *)
  Hypothesis Hwit : oh = None \/ exists k0, hon k0 = true /\ ck k0.
  Hypothesis Hfetch : oh <> None -> fetch_ok_at P fetch (sync_point P pay (sync_round P pay fetch s)).

  Lemma tB3_sp : sync_point P pay (sync_round P pay fetch s) = tB3.
  Proof.
    rewrite sA_round. unfold sync_point, tB3, tB2.
    assert (Hrev : revive_all P sA = sA) by (apply revive_all_id; intros k Hk; apply sA_up; exact Hk).
    rewrite Hrev. reflexivity.
  Qed.

  Lemma stored_in_qlog t k : preach P t -> hon k = true -> n < r_store_next (n_live (g_node t k)) ->
    exists h', In (k, n, h') (g_qlog t).
  Proof.
    intros Hrt Hk Hgt.
    pose proof (ProtocolRefinesMain.store_next_is_queue_end P HP t k Hrt Hk) as Hsn.
    set (i := Z.to_nat (n - p_first P)).
    assert (Hi : (i < length (ProtocolRefinesMain.queued_numbers t k))%nat) by (unfold i; lia).
    pose proof (ProtocolRefinesMain.append_only P HP t k i Hrt Hk Hi) as Hnth.
    assert (Hin : In (nth i (ProtocolRefinesMain.queued_numbers t k) 0) (ProtocolRefinesMain.queued_numbers t k))
      by (apply nth_In; exact Hi).
    unfold ProtocolRefinesMain.queued_numbers in Hin at 2. apply in_map_iff in Hin. destruct Hin as ([[k' m] h] & Em & Hf).
    apply filter_In in Hf. destruct Hf as [Hq Hkk]. cbn [fst snd] in Em, Hkk. apply Z.eqb_eq in Hkk. subst k'.
    exists h. replace n with m; [exact Hq|]. rewrite Em, Hnth. unfold i. lia.
  Qed.

  Definition NXQ (k : Z) (soup : list sgmsg) (nd : node) : Prop := NXP k soup nd /\ n < r_store_next (n_live nd).
  Lemma NXQ_mono : mono NXQ.
  Proof. intros k soup soup' nd Hi [A B]. split; [eapply NXP_mono; eassumption|exact B]. Qed.

  Definition GB4 (t : gstate) : Prop :=
    GB3 t /\ g_soup t = g_soup tB3 /\ exists l, g_qlog t = g_qlog tB3 ++ l.

  Lemma sync1B4 f t k : hon k = true -> GB4 t -> lifted NXP k t ->
    GB4 (sync1 P f t k) /\ lifted NXP k (sync1 P f t k) /\
    r_store_next (n_live (g_node t k)) <= r_store_next (n_live (g_node (sync1 P f t k) k)).
  Proof.
    intros Hk (HG & Hsoup0 & (l & Hq0)) HXP. destruct (sync1B f t k Hk HG HXP) as [HG' HXP'].
    destruct (sync1_good P f t k) as [E|(q0 & _ & _ & _ & _ & _ & E)].
    - rewrite E in *. split; [split; [exact HG'|split; [exact Hsoup0|eauto]]|split; [exact HXP'|lia]].
    - rewrite E in *.
      destruct (node_input_sync (cfg k) (g_node t k) (r_store_next (n_live (g_node t k))) (hpay (cprop (qmsg q0))))
        as (s' & Hn & Hs' & Hse).
      split; [split; [exact HG'|split]|split; [exact HXP'|]].
      + cbn [absorb g_soup]. rewrite (sends_of_key 0 k _ Hse), app_nil_r. exact Hsoup0.
      + cbn [absorb g_qlog]. rewrite Hq0, <- app_assoc. eauto.
      + cbn [absorb g_node]. unfold set_node. rewrite Z.eqb_refl, Hn. cbn [n_live].
        destruct Hs' as [-> | ->]; cbn [set_store_next r_store_next]; lia.
  Qed.

  (* the first fetch stores block n at a node that does not have it *)
  Lemma sync1_fires t k q : hon k = true -> GB4 t -> lifted NXP k t ->
    r_store_next (n_live (g_node t k)) = n ->
    fetch tB3 n = Some q -> cqc_verify (p_g P) (p_e P) (p_C P) q = Ok tt -> cqc_knownb P (g_soup tB3) q = true ->
    hnum (cprop (qmsg q)) = n -> (exists k', In (k', n, hpay (cprop (qmsg q))) (g_qlog tB3)) ->
    n < r_store_next (n_live (g_node (sync1 P (fetch tB3) t k) k)).
  Proof.
    intros Hk (HG & Hsoup0 & (l & Hq0)) HXP Hsn Hf Hv Hkn Hn (k' & Hin).
    assert (A : n_alive (g_node t k) = true) by apply HXP.
    unfold sync1, live_node. rewrite Hk, A. cbn [andb]. cbv zeta. rewrite Hsn, Hf, Hn, Z.eqb_refl, Hv, Hsoup0, Hkn.
    assert (Hsq : someone_queued t n (hpay (cprop (qmsg q))) = true).
    { unfold someone_queued. apply existsb_exists. exists (k', n, hpay (cprop (qmsg q))). split.
      - rewrite Hq0. apply in_or_app. left. exact Hin.
      - cbn [fst snd]. rewrite !Z.eqb_refl. reflexivity. }
    rewrite Hsq. cbn [andb is_ok].
    cbn [absorb g_node]. unfold set_node. rewrite Z.eqb_refl, (node_input_live P k), rstep_t_sync_eq, Hsn, Z.eqb_refl.
    unfold st_of. cbn. lia.
  Qed.

  Lemma sync_nodeB4 f fuel : forall t k, hon k = true -> GB4 t -> lifted NXP k t ->
    GB4 (sync_node P f fuel t k) /\ lifted NXP k (sync_node P f fuel t k) /\
    r_store_next (n_live (g_node t k)) <= r_store_next (n_live (g_node (sync_node P f fuel t k) k)).
  Proof.
    induction fuel as [|fu IH]; intros t k Hk HG HXP; cbn [sync_node]; [split; [exact HG|split; [exact HXP|lia]]|].
    destruct (sync1B4 f t k Hk HG HXP) as (HG1 & HX1 & Hm1).
    destruct (IH _ k Hk HG1 HX1) as (HG2 & HX2 & Hm2). split; [exact HG2|]. split; [exact HX2|lia].
  Qed.

  (* what the fetch oracle returns for block n at the sync point, when some honest node stored it *)
  Lemma fetch_facts : oh <> None -> (exists k0, hon k0 = true /\ n < r_store_next (n_live (g_node tB3 k0))) ->
    preach P tB3 ->
    exists q, fetch tB3 n = Some q /\ cqc_verify (p_g P) (p_e P) (p_C P) q = Ok tt /\
      cqc_knownb P (g_soup tB3) q = true /\ hnum (cprop (qmsg q)) = n /\
      (exists k', In (k', n, hpay (cprop (qmsg q))) (g_qlog tB3)) /\ (1 <= length (g_qlog tB3))%nat.
  Proof.
    intros Hoh (k0 & Hk0 & Hgt) Hrt. destruct (stored_in_qlog tB3 k0 Hrt Hk0 Hgt) as [h' Hin].
    pose proof (Hfetch Hoh) as Hfo. rewrite tB3_sp in Hfo.
    destruct (Hfo k0 n h' Hk0 Hin) as (q & Hf & Hv & Hkn & Hn & Hh).
    exists q. repeat split; auto.
    - exists k0. rewrite Hh. exact Hin.
    - destruct (g_qlog tB3); [destruct Hin|cbn; lia].
  Qed.

  Lemma tB3_GB4 : GB4 tB3.
  Proof. destruct after_proposeB as [HG _]. split; [exact HG|]. split; [reflexivity|exists []; symmetry; apply app_nil_r]. Qed.

  Lemma tB3_reach : preach P tB3.
  Proof. destruct after_proposeB as [[((H & _) & _) _] _]. exact H. Qed.

  Lemma after_syncB4 : GB3 tB4 /\ (forall k, hon k = true -> lifted NXQ k tB4).
  Proof.
    destruct after_proposeB as [_ HN]. unfold tB4, sync_all.
    assert (Hfa : oh = None \/ exists q, fetch tB3 n = Some q /\ cqc_verify (p_g P) (p_e P) (p_C P) q = Ok tt /\
              cqc_knownb P (g_soup tB3) q = true /\ hnum (cprop (qmsg q)) = n /\
              (exists k', In (k', n, hpay (cprop (qmsg q))) (g_qlog tB3)) /\ (1 <= length (g_qlog tB3))%nat).
    { destruct Hwit as [E|(k0 & Hk0 & Hc0)]; [left; exact E|].
      assert (Hd : oh = None \/ oh <> None) by (clear; destruct oh; [right; discriminate|left; reflexivity]).
      destruct Hd as [E|Hne]; [left; exact E|right].
      apply fetch_facts; [exact Hne| |exact tB3_reach].
      exists k0. split; [exact Hk0|]. destruct (HN k0 Hk0) as [(_ & _ & _ & [_ D2] & _) _]. apply D2. left. exact Hc0. }
    destruct (keys_phase P HP (sync_node P (fetch tB3) (length (g_qlog tB3))) GB4 NXP NXQ (sync_node_local P _ _) NXP_mono NXQ_mono)
      with (t := tB3) as [HG HQ].
    - intros t k Hk HG HXP. destruct (sync_nodeB4 (fetch tB3) (length (g_qlog tB3)) t k Hk HG HXP) as (HG' & HX' & Hm).
      split; [exact HG'|]. split; [exact HX'|].
      pose proof HXP as [(_ & _ & _ & [D1 D2] & _) _].
      destruct Hfa as [E|(q & Hf & Hv & Hkn & Hn & Hin & Hlen)]; [specialize (D2 (or_intror E)); lia|].
      destruct (Z.eq_dec (r_store_next (n_live (g_node t k))) n) as [En|Hne]; [|lia].
      destruct (length (g_qlog tB3)) as [|fu] eqn:El; [lia|]. cbn [sync_node] in *.
      pose proof (sync1_fires t k q Hk HG HXP En Hf Hv Hkn Hn Hin) as Hfire.
      destruct (sync1B4 (fetch tB3) t k Hk HG HXP) as (HG1 & HX1 & _).
      destruct (sync_nodeB4 (fetch tB3) fu _ k Hk HG1 HX1) as (_ & _ & Hm2). lia.
    - exact tB3_GB4.
    - exact HN.
    - split; [apply HG|exact HQ].
  Qed.

  Lemma timerB4 t k : hon k = true -> GB3 t -> lifted NXQ k t ->
    GB3 (timer1 P sA t k) /\ lifted NXQ k (timer1 P sA t k).
  Proof.
    intros Hk HG [HXP HQ]. pose proof HXP as [(_ & B & _) _].
    unfold timer1. rewrite B, (sA_view k Hk).
    assert (E : (V + 1 =? V) = false) by (apply Z.eqb_neq; lia). rewrite E, andb_false_r. split; [exact HG|split; assumption].
  Qed.

  Lemma after_roundB4 : GB3 sB /\ (forall k, hon k = true -> lifted NXQ k sB).
  Proof.
    destruct after_syncB4 as [HG HN]. rewrite sB_eq. unfold timers_all.
    apply (keys_phase P HP (timer1 P sA) GB3 NXQ NXQ (timer1_local P sA) NXQ_mono NXQ_mono timerB4 _ HG HN).
  Qed.

  (* ---------- the result ---------- *)
  Theorem commit_two_rounds_post :
    let s2 := sync_rounds P pay fetch 2 s in
    preach P s2 /\ (forall m, In m (g_soup s2) -> msg_view (m_msg m) <= Bs) /\
    (forall k, hon k = true ->
       up s2 k /\ hview s2 k = V + 1 /\ r_phase (n_live (g_node s2 k)) = Prepare /\
       n + 1 <= r_store_next (n_live (g_node s2 k))) /\
    (hon L' = true ->
       exists q, qmsg q = cstar /\ justification_verify (p_g P) (p_e P) (p_C P) (JCommit q) = Ok tt /\
         get_implied_block (E := unit) true (p_C P) (p_first P) (JCommit q) = Ok (n + 1, None) /\
         In (propmsg q) (g_soup s2) /\
         uniq_prop P (V + 1) (JCommit q) (Some (pay (n + 1))) (g_soup s2)) /\
    (hon L' = false ->
       forall m p' j' mv', In m (g_soup s2) -> m_msg m = MProposal p' j' ->
         justification_view (E := unit) true j' = Ok mv' -> vnum mv' = V + 1 ->
         justification_verify (p_g P) (p_e P) (p_C P) j' = Ok tt -> False).
  Proof.
    cbv zeta. rewrite two_rounds. destruct after_roundB4 as [[HN HPP] HX].
    pose proof HN as ((Hrt & _ & _) & _ & Hmsg).
    split; [exact Hrt|]. split; [exact Hmsg|]. split; [|split].
    - intros k Hk. destruct (HX k Hk) as [[(A & B & C & D & _) _] HQ]. unfold up, hview. repeat split; auto. lia.
    - intros HL. destruct (HX L' HL) as [[(A & B & C & D & q0 & E1 & E2) HLq] _].
      destruct (HLq eq_refl) as (q & Hq & Hin). rewrite E1 in Hq. inversion Hq; subst q0.
      destruct (notify_good sB L' q HN HL E1) as [Hqv Hqn]. rewrite E2 in Hqn. cbn [cprop hnum cview] in Hqn. rewrite Hmv in Hqn.
      exists q. split; [exact E2|]. split; [apply justification_verify_iff; exact Hqv|].
      split; [apply implied_commit; [exact E2|lia]|]. split; [exact Hin|].
      intros m p' j' mv' Hin' Em Ek Esg Ejv EV Ever.
      destruct (HPP m p' j' mv' Hin' Em Ejv EV Ever) as (_ & _ & B3 & q1 & B4 & B5).
      rewrite Ek, E1 in B5. inversion B5; subst q1. auto.
    - intros HL m p' j' mv' Hin Em Ejv EV Ever.
      destruct (HPP m p' j' mv' Hin Em Ejv EV Ever) as (B1 & B2 & _). rewrite B2 in B1. congruence.
  Qed.

  Theorem commit_two_rounds : forall k, hon k = true ->
    up (sync_rounds P pay fetch 2 s) k /\ V < hview (sync_rounds P pay fetch 2 s) k /\
    n < r_store_next (n_live (g_node (sync_rounds P pay fetch 2 s) k)).
  Proof.
    intros k Hk. destruct commit_two_rounds_post as (_ & _ & H & _). destruct (H k Hk) as (A & B & _ & D).
    split; [exact A|]. split; lia.
  Qed.
End CommitRounds.

(* ================================================================== *)
(* 5. consecutive views with honest leaders: one block every two rounds *)
(* ================================================================== *)
Section Chain.
  Variable P : params.
  Hypothesis HP : params_ok P.
  Variable pay : Z -> Z.
  Variable fetch : gstate -> Z -> option cqc.
  Hypothesis Henv : env_ok P pay.
  Notation hon := (honestb P).
  Notation leader := (cleader (pcfg P 0)).

  (* every honest node waits in view V with the blocks below n stored *)
  Definition lock (s : gstate) (V n : Z) : Prop :=
    forall k, hon k = true ->
      up s k /\ hview s k = V /\ r_phase (n_live (g_node s k)) = Prepare /\ n <= r_store_next (n_live (g_node s k)).
  (* the one verifying proposal of the leader of V on the network is for the new block n *)
  Definition pending (s : gstate) (V n : Z) : Prop :=
    exists j mv,
      justification_view (E := unit) true j = Ok mv /\ vnum mv = V /\
      justification_verify (p_g P) (p_e P) (p_C P) j = Ok tt /\
      get_implied_block (E := unit) true (p_C P) (p_first P) j = Ok (n, None) /\
      In {| m_key := leader V; m_sig_ok := true; m_msg := MProposal (Some (pay n)) j |} (g_soup s) /\
      uniq_prop P V j (Some (pay n)) (g_soup s).

  Lemma sync_rounds_add a : forall b s,
    sync_rounds P pay fetch (a + b) s = sync_rounds P pay fetch b (sync_rounds P pay fetch a s).
  Proof. induction a as [|a IH]; intros b s; cbn [Nat.add sync_rounds]; [reflexivity|apply IH]. Qed.

  Theorem honest_chain (Bs : Z) : Bs + 1 < U64 -> forall r s V n,
    preach P s -> p_first P <= n -> 0 < V -> p_first P + V + Z.of_nat r + 1 < U64 -> V + Z.of_nat r <= Bs ->
    (forall m, In m (g_soup s) -> msg_view (m_msg m) <= Bs) ->
    lock s V n -> ((1 <= r)%nat -> pending s V n) ->
    (forall i, (1 <= i < r)%nat -> hon (leader (V + Z.of_nat i)) = true) ->
    let s' := sync_rounds P pay fetch (2 * r) s in
    preach P s' /\ (forall m, In m (g_soup s') -> msg_view (m_msg m) <= Bs) /\
    lock s' (V + Z.of_nat r) (n + Z.of_nat r) /\
    ((1 <= r)%nat -> hon (leader (V + Z.of_nat r)) = true -> pending s' (V + Z.of_nat r) (n + Z.of_nat r)).
  Proof.
    intros HBs. induction r as [|r IH]; intros s V n Hr Hfn HV Hh1 Hh2 Hsb Hlock Hpend Hhon; cbv zeta.
    - cbn [Nat.mul sync_rounds]. rewrite !Z.add_0_r. split; [exact Hr|]. split; [exact Hsb|]. split; [exact Hlock|]. intros H; lia.
    - destruct (Hpend ltac:(lia)) as (j & mv & Hjv & Hmv & Hjver & Himp & Hin & Huq).
      assert (Hkind : (@None Z = None /\ Some (pay n) = Some (pay n) /\ p_pok P n (pay n) = true /\ p_psize P (pay n) <= p_maxpay P) \/
                      (@None Z = Some (pay n) /\ Some (pay n) = None)).
      { left. destruct Henv as (Hpok & Hsz & _). auto. }
      pose proof (commit_two_rounds_post P HP pay fetch Henv V n j mv (Some (pay n)) (pay n) None Hjv Hmv Hjver Himp Hkind Hfn HV s Hr Bs
                    ltac:(lia) HBs ltac:(lia) Hsb Hlock Hin Huq (or_introl eq_refl) (fun H => False_ind _ (H eq_refl))) as Hpost.
      cbv zeta in Hpost. destruct Hpost as (Hr2 & Hsb2 & Hlock2 & Hnext & _).
      replace (2 * S r)%nat with (2 + 2 * r)%nat by lia. rewrite sync_rounds_add.
      set (s2 := sync_rounds P pay fetch 2 s) in *.
      assert (Hpend2 : hon (leader (V + 1)) = true -> pending s2 (V + 1) (n + 1)).
      { intros HL. destruct (Hnext HL) as (q & Hq & Hv & Hi & Hinq & Huq2).
        exists (JCommit q), {| vgen := vgen mv; vepoch := vepoch mv; vnum := V + 1 |}.
        split.
        { unfold justification_view. rewrite Hq. cbn [cview]. unfold num_next, u64_add. rewrite Hmv.
          assert (H : (V + 1 <? U64) = true) by (apply Z.ltb_lt; lia). rewrite H. reflexivity. }
        split; [reflexivity|]. split; [exact Hv|].
        split; [exact Hi|]. split; [exact Hinq|exact Huq2]. }
      destruct (IH s2 (V + 1) (n + 1) Hr2 ltac:(lia) ltac:(lia) ltac:(lia) ltac:(lia) Hsb2 Hlock2) as (A & B & C & D).
      + intros Hr1. apply Hpend2. replace (V + 1) with (V + Z.of_nat 1) by lia. apply Hhon. lia.
      + intros i Hi. replace (V + 1 + Z.of_nat i) with (V + Z.of_nat (S i)) by lia. apply Hhon. lia.
      + replace (V + Z.of_nat (S r)) with (V + 1 + Z.of_nat r) by lia.
        replace (n + Z.of_nat (S r)) with (n + 1 + Z.of_nat r) by lia.
        split; [exact A|]. split; [exact B|]. split; [exact C|].
        intros _ HL. destruct r as [|r'].
        * cbn [Nat.mul sync_rounds] in *. rewrite !Z.add_0_r in *. apply Hpend2. exact HL.
        * apply D; [lia|exact HL].
  Qed.
End Chain.
