(* Liveness-side facts about the replica model: the view timer is always enabled (a replica
   with a non-zero view always holds a certificate to justify it, in memory and on disk, across
   crashes and restarts), and a valid new-view message for a higher view always moves the
   replica to that view unless the block store has a gap. *)
From Coq Require Import ZArith List Bool Lia.
From EC Require Import Lib.Outcome Lib.U64 Lib.ListW Lib.Obs Model.Msgs Model.Replica Model.ReplicaRun Proofs.ReplicaMono.
Import ListNotations.
Open Scope Z_scope.

Definition cert (s : rstate) : Prop := r_high_cqc s <> None \/ r_high_tqc s <> None.
Definition just_ok (s : rstate) : Prop := r_view s <> 0 -> cert s.
Definition dur_ok (d : durable) : Prop := d_view d <> 0 -> d_high_cqc d <> None \/ d_high_tqc d <> None.
Definition persist_ok (e : effect) : Prop := match e with EPersist d => dur_ok d | _ => True end.
Definition rs_ok (st : run_state) : Prop := just_ok (rs_s st) /\ dur_ok (rs_d st).
(* the CommitQC that processing justification j hands to save_block, if any *)
Definition just_cqc (j : justification) : option cqc := match j with JCommit q => Some q | JTimeout t => high_qc t end.
(* save_block would wait for a gap in the block store (the only way process_justification fails) *)
Definition blocks_on (s : rstate) (q : cqc) : Prop :=
  cache_has (r_cache s) (hnum (cprop (qmsg q))) (hpay (cprop (qmsg q))) = true /\ r_store_next s < hnum (cprop (qmsg q)).

(* ---------- 1. a certificate is all get_justification needs ---------- *)
Theorem get_justification_ok : forall s, cert s -> exists j, get_justification s = Ok j.
Proof.
  intros s Hc. unfold get_justification.
  destruct (r_high_cqc s) as [q|] eqn:Eq; destruct (r_high_tqc s) as [t|] eqn:Et; cbn [option_map view_cmp_ge].
  - destruct (if vgen _ =? vgen _ then _ else _); eauto.
  - eauto.
  - eauto.
  - destruct Hc as [Hc|Hc]; congruence.
Qed.

(* get_justification only looks at the two certificates *)
Lemma get_justification_ext s s' :
  r_high_cqc s' = r_high_cqc s -> r_high_tqc s' = r_high_tqc s -> get_justification s' = get_justification s.
Proof. intros H1 H2. unfold get_justification. rewrite H1, H2. reflexivity. Qed.

(* ---------- 2. the timer handler never fails ---------- *)
Theorem timer_always_enabled : forall cfg s, just_ok s ->
  exists d,
    start_timeout cfg s =
      (set_phase s PTimeout,
       EPersist d ::
         (if r_view s =? 0 then []
          else match get_justification (set_phase s PTimeout) with
               | Ok j => [ESend (MNewView j)]
               | _ => []
               end) ++
         [ESend (MTimeout {| tview := {| vgen := cg cfg; vepoch := ce cfg; vnum := r_view s |};
                             thv := r_high_vote s; thq := r_high_cqc s |})],
       Ok tt) /\
    d = backup cfg (set_phase s PTimeout) /\
    (r_view s <> 0 -> exists j, get_justification (set_phase s PTimeout) = Ok j).
Proof.
  intros cfg s Hj. exists (backup cfg (set_phase s PTimeout)).
  assert (Hg : r_view s <> 0 -> exists j, get_justification (set_phase s PTimeout) = Ok j).
  { intros Hv. apply get_justification_ok. exact (Hj Hv). }
  split; [|split; [reflexivity|exact Hg]].
  unfold start_timeout, backup_state, hemit. cbn [hbind]. cbn [r_view set_phase].
  destruct (r_view s =? 0) eqn:Ev.
  - reflexivity.
  - apply Z.eqb_neq in Ev. destruct (Hg Ev) as [j Ej]. rewrite Ej. reflexivity.
Qed.

Corollary timer_step_enabled : forall cfg s, just_ok s ->
  snd (rstep cfg s ITimer) = Ok tt /\ r_view (fst (fst (rstep cfg s ITimer))) = r_view s.
Proof.
  intros cfg s Hj. cbn [rstep]. destruct (timer_always_enabled cfg s Hj) as (d & E & _).
  rewrite E. split; reflexivity.
Qed.

(* ---------- 3. invariant: a non-zero view is always justified ---------- *)
Definition efs {A} (x : hres A) : list effect := snd (fst x).
(* the final state satisfies P (whatever the outcome) and every persisted state is dur_ok *)
Definition hgood {A} (P : rstate -> Prop) (x : hres A) : Prop :=
  P (st_of x) /\ Forall persist_ok (efs x).

Lemma hgood_weaken {A} (P Q : rstate -> Prop) (x : hres A) :
  (forall s, P s -> Q s) -> hgood P x -> hgood Q x.
Proof. intros HPQ [H1 H2]. split; [apply HPQ; exact H1|exact H2]. Qed.

Lemma hgood_pure {A} (P : rstate -> Prop) s (r : outcome rerr A) : P s -> hgood P (s, [], r).
Proof. intros H. split; [exact H|constructor]. Qed.

Lemma hbind_good {A B} (P Q : rstate -> Prop) (x : hres A) (f : rstate -> A -> hres B) :
  hgood P x -> (forall s, P s -> Q s) -> (forall s1 a, P s1 -> hgood Q (f s1 a)) ->
  hgood Q (hbind x f).
Proof.
  destruct x as [[s1 es] r]. unfold hgood, st_of, efs; cbn [fst snd]. intros [H1 H2] HPQ Hf.
  unfold hbind. destruct r as [a|e|p]; cbn [fst snd]; try (split; [apply HPQ; exact H1|exact H2]).
  specialize (Hf s1 a H1). destruct (f s1 a) as [[s2 es2] r2]. cbn [fst snd] in *.
  destruct Hf as [H3 H4]. split; [exact H3|]. apply Forall_app. split; assumption.
Qed.

Lemma hbind_hret {A B} s (a : A) (f : rstate -> A -> hres B) : hbind (hret s a) f = f s a.
Proof. unfold hbind, hret. destruct (f s a) as [[s2 es2] r2]. reflexivity. Qed.

Lemma lift_good {A} (P : rstate -> Prop) s (x : outcome unit A) : P s -> hgood P (lift s x).
Proof. intros H. destruct x; apply hgood_pure; exact H. Qed.

Lemma cert_just_ok s : cert s -> just_ok s.
Proof. intros H _. exact H. Qed.

Theorem backup_dur_ok : forall cfg s, just_ok s -> dur_ok (backup cfg s).
Proof. intros cfg s H. exact H. Qed.

Theorem durable_default_ok : dur_ok durable_default.
Proof. intros H. exfalso. apply H. reflexivity. Qed.

Theorem rstart_just_ok : forall cfg d first next, dur_ok d -> just_ok (rstart cfg d first next).
Proof.
  intros cfg d first next Hd. unfold rstart, just_ok, cert. cbn [r_view r_high_cqc r_high_tqc].
  destruct (d_epoch d =? ce cfg); [exact Hd|exact durable_default_ok].
Qed.

Lemma backup_state_good (P : rstate -> Prop) cfg s : P s -> just_ok s -> hgood P (backup_state cfg s).
Proof.
  intros HP Hj. split; [exact HP|]. unfold backup_state, hemit, efs; cbn [fst snd].
  constructor; [apply backup_dur_ok; exact Hj|constructor].
Qed.

Ltac cert_simpl :=
  unfold just_ok, cert in *;
  cbn [r_view r_high_cqc r_high_tqc set_view set_phase set_high_vote set_high_cqc set_high_tqc
       set_cache set_commit_caches set_timeout_caches set_store_next] in *.

(* save_block touches neither the view nor the certificates *)
Lemma save_block_good (P : rstate -> Prop) cfg s q :
  P s -> P (set_store_next s (hnum (cprop (qmsg q)) + 1)) -> hgood P (save_block cfg s q).
Proof.
  intros H1 H2. unfold save_block.
  destruct (cache_has _ _ _); [|apply hgood_pure; exact H1].
  destruct (_ <? _); [apply hgood_pure; exact H1|].
  destruct (_ =? _); [|apply hgood_pure; exact H1].
  split; [exact H2|]. unfold efs; cbn [fst snd]. constructor; [exact I|constructor].
Qed.

(* process_commit_qc always leaves a commit certificate behind, whatever the state before *)
Lemma process_commit_qc_good cfg s q :
  hgood (fun s' => r_high_cqc s' <> None) (process_commit_qc cfg s q).
Proof.
  unfold process_commit_qc.
  destruct (r_high_cqc s) as [cur|] eqn:E.
  - destruct (_ <? _).
    + apply save_block_good; cbn [r_high_cqc set_high_cqc set_store_next]; congruence.
    + apply hgood_pure. congruence.
  - apply save_block_good; cbn [r_high_cqc set_high_cqc set_store_next]; congruence.
Qed.

Lemma process_commit_qc_cert cfg s q : hgood cert (process_commit_qc cfg s q).
Proof.
  eapply hgood_weaken; [|apply process_commit_qc_good]. intros s' H. left. exact H.
Qed.

(* process_timeout_qc: after success the timeout certificate is set; if the inner commit
   certificate blocks, the commit certificate has already been stored *)
Lemma process_timeout_qc_cert cfg s t : hgood cert (process_timeout_qc cfg s t).
Proof.
  unfold process_timeout_qc.
  assert (Hf : forall s1 (a : unit),
            hgood cert (hret (if match r_high_tqc s1 with
                                    | Some old => vnum (tqview old) <? vnum (tqview t)
                                    | None => true
                                    end then set_high_tqc s1 (Some t) else s1) tt)).
  { intros s1 _. apply hgood_pure. right.
    destruct (r_high_tqc s1) as [old|] eqn:E.
    - destruct (_ <? _); cbn [r_high_tqc set_high_tqc]; congruence.
    - cbn [r_high_tqc set_high_tqc]. congruence. }
  destruct (high_qc t) as [q|].
  - eapply hbind_good with (P := cert); [apply process_commit_qc_cert|auto|]. intros s1 a _. apply (Hf s1 tt).
  - rewrite hbind_hret. apply (Hf s tt).
Qed.

Lemma process_justification_cert cfg s j : hgood cert (process_justification cfg s j).
Proof. destruct j; cbn [process_justification]; [apply process_commit_qc_cert|apply process_timeout_qc_cert]. Qed.

(* start_new_view from a state with a certificate: exact result *)
Definition prune_cache (s : rstate) : rstate :=
  match r_high_cqc s with
  | Some q => set_cache s (filter (fun e => hnum (cprop (qmsg q)) <? fst e) (r_cache s))
  | None => s
  end.

Lemma prune_cache_view s : r_view (prune_cache s) = r_view s.
Proof. unfold prune_cache. destruct (r_high_cqc s); reflexivity. Qed.
Lemma prune_cache_cqc s : r_high_cqc (prune_cache s) = r_high_cqc s.
Proof. unfold prune_cache. destruct (r_high_cqc s) eqn:E; [cbn [r_high_cqc set_cache]|]; auto. Qed.
Lemma prune_cache_tqc s : r_high_tqc (prune_cache s) = r_high_tqc s.
Proof. unfold prune_cache. destruct (r_high_cqc s); reflexivity. Qed.

Lemma start_new_view_ok cfg s v j : get_justification s = Ok j ->
  let s' := prune_cache (set_phase (set_view s v) Prepare) in
  start_new_view cfg s v =
    (s', [ENotifyProposer j; EPersist (backup cfg s'); ESend (MNewView j)], Ok tt).
Proof.
  intros Ej s'. unfold start_new_view.
  rewrite (get_justification_ext s (set_phase (set_view s v) Prepare)) by reflexivity.
  rewrite Ej. unfold backup_state, hemit. cbn [hbind app]. reflexivity.
Qed.

Lemma start_new_view_cert cfg s v : cert s -> hgood cert (start_new_view cfg s v).
Proof.
  intros Hc. destruct (get_justification_ok s Hc) as [j Ej].
  rewrite (start_new_view_ok cfg s v j Ej).
  assert (Hc' : cert (prune_cache (set_phase (set_view s v) Prepare))).
  { unfold cert. rewrite prune_cache_cqc, prune_cache_tqc. exact Hc. }
  split; [exact Hc'|]. unfold efs; cbn [fst snd].
  constructor; [exact I|]. constructor; [apply backup_dur_ok, cert_just_ok, Hc'|].
  constructor; [exact I|constructor].
Qed.

(* the common tail of on_commit / on_timeout *)
Lemma next_view_tail_good cfg (x : hres unit) (o : outcome unit Z) :
  hgood cert x ->
  hgood just_ok (hbind x (fun s _ => hbind (lift s o) (fun s nv => start_new_view cfg s nv))).
Proof.
  intros Hx. apply hgood_weaken with (P := cert); [apply cert_just_ok|].
  eapply hbind_good with (P := cert); [exact Hx|auto|]. intros s1 _ H1.
  eapply hbind_good with (P := cert); [apply lift_good; exact H1|auto|]. intros s2 nv H2.
  apply start_new_view_cert. exact H2.
Qed.

Ltac good_match :=
  match goal with
  | |- hgood _ (if ?b then _ else _) => destruct b eqn:?
  | |- hgood _ (match ?x with _ => _ end) => destruct x eqn:?
  end.
Ltac good_leaf :=
  unfold hret, hfail, hpanic; apply hgood_pure; cert_simpl; assumption.

Lemma on_proposal_good cfg s key sig_ok payload j : just_ok s ->
  hgood just_ok (on_proposal cfg s key sig_ok payload j).
Proof.
  intros Hj. unfold on_proposal.
  eapply hbind_good with (P := just_ok); [apply lift_good; exact Hj|auto|]. intros s1 mv H1.
  repeat (good_match; try good_leaf).
  eapply hbind_good with (P := just_ok); [apply lift_good; exact H1|auto|]. intros s2 [n oh] H2.
  good_match; [good_leaf|].
  eapply hbind_good with (P := just_ok); [|auto|].
  - repeat (good_match; try good_leaf).
  - intros s3 hash H3. apply hgood_weaken with (P := cert); [apply cert_just_ok|].
    eapply hbind_good with (P := cert); [apply process_justification_cert|auto|]. intros s4 _ H4.
    eapply hbind_good with (P := cert); [apply backup_state_good; [exact H4|apply cert_just_ok, H4]|auto|].
    intros s5 _ H5. split; [exact H5|]. unfold hemit, efs; cbn [fst snd]. repeat constructor.
Qed.

Lemma on_commit_good cfg s key sig_ok c : just_ok s -> hgood just_ok (on_commit cfg s key sig_ok c).
Proof.
  intros Hj. unfold on_commit. cbv zeta.
  repeat (good_match; try good_leaf).
  all: apply next_view_tail_good, process_commit_qc_cert.
Qed.

Lemma on_timeout_good cfg s key sig_ok t : just_ok s -> hgood just_ok (on_timeout cfg s key sig_ok t).
Proof.
  intros Hj. unfold on_timeout. cbv zeta.
  repeat (good_match; try good_leaf).
  all: apply next_view_tail_good, process_timeout_qc_cert.
Qed.

Lemma on_new_view_good cfg s key sig_ok j : just_ok s -> hgood just_ok (on_new_view cfg s key sig_ok j).
Proof.
  intros Hj. unfold on_new_view.
  eapply hbind_good with (P := just_ok); [apply lift_good; exact Hj|auto|]. intros s1 mv H1.
  repeat (good_match; try good_leaf).
  apply hgood_weaken with (P := cert); [apply cert_just_ok|].
  eapply hbind_good with (P := cert); [apply process_justification_cert|auto|]. intros s2 _ H2.
  good_match; [apply start_new_view_cert; exact H2|apply hgood_pure; exact H2].
Qed.

Lemma start_timeout_good cfg s : just_ok s -> hgood just_ok (start_timeout cfg s).
Proof.
  intros Hj. destruct (timer_always_enabled cfg s Hj) as (d & E & Ed & _). rewrite E.
  assert (Hp : just_ok (set_phase s PTimeout)) by exact Hj.
  split; [exact Hp|]. unfold efs; cbn [fst snd]. constructor.
  - subst d. apply backup_dur_ok. exact Hp.
  - apply Forall_app. split; [|repeat constructor].
    destruct (r_view s =? 0); [constructor|]. destruct (get_justification _); repeat constructor.
Qed.

Lemma rstep_good cfg s i : just_ok s -> hgood just_ok (rstep cfg s i).
Proof.
  intros Hj. destruct i as [m| |n h]; cbn [rstep].
  - destruct (m_msg m); [apply on_proposal_good|apply on_commit_good|apply on_timeout_good|apply on_new_view_good];
      exact Hj.
  - apply start_timeout_good. exact Hj.
  - destruct (_ =? _); [|good_leaf]. split; [exact Hj|]. unfold efs; cbn [fst snd]. repeat constructor.
Qed.

Lemma hgood_elim {A} (P : rstate -> Prop) (x : hres A) s' es r :
  hgood P x -> x = (s', es, r) -> P s' /\ Forall persist_ok es.
Proof. intros H E. subst x. exact H. Qed.

Theorem rstep_just_ok : forall cfg s i s' es r, just_ok s -> rstep cfg s i = (s', es, r) ->
  just_ok s' /\ Forall persist_ok es.
Proof. intros cfg s i s' es r Hj E. eapply hgood_elim; [apply rstep_good; exact Hj|exact E]. Qed.

Lemma rstep_t_good cfg s i : just_ok s -> hgood just_ok (rstep_t cfg s i).
Proof.
  intros Hj. unfold rstep_t. pose proof (rstep_good cfg s i Hj) as Hg.
  destruct (rstep cfg s i) as [[s1 es1] r1]. destruct Hg as [H1 H2]. unfold st_of, efs in H1, H2; cbn [fst snd] in H1, H2.
  assert (Hsame : hgood just_ok (s1, es1, r1)) by (split; assumption).
  destruct r1 as [a|e|p]; try exact Hsame. destruct e; try exact Hsame.
  pose proof (start_timeout_good cfg s1 H1) as Hg2.
  destruct (start_timeout cfg s1) as [[s2 es2] r2]. destruct Hg2 as [H3 H4].
  split; [exact H3|]. unfold efs in *; cbn [fst snd] in *. apply Forall_app. split; assumption.
Qed.

Theorem rstep_t_just_ok : forall cfg s i s' es r, just_ok s -> rstep_t cfg s i = (s', es, r) ->
  just_ok s' /\ Forall persist_ok es.
Proof. intros cfg s i s' es r Hj E. eapply hgood_elim; [apply rstep_t_good; exact Hj|exact E]. Qed.

Lemma rprologue_good cfg s : just_ok s -> hgood just_ok (rprologue cfg s).
Proof.
  intros Hj. unfold rprologue. destruct (_ =? _); [apply start_timeout_good; exact Hj|good_leaf].
Qed.

Theorem rprologue_just_ok : forall cfg s s' es r, just_ok s -> rprologue cfg s = (s', es, r) ->
  just_ok s' /\ Forall persist_ok es.
Proof. intros cfg s s' es r Hj E. eapply hgood_elim; [apply rprologue_good; exact Hj|exact E]. Qed.

(* ---------- run level: crashes and restarts ---------- *)
Lemma apply_effects_ok es : forall d next, dur_ok d -> Forall persist_ok es ->
  dur_ok (fst (apply_effects d next es)).
Proof.
  induction es as [|e es IH]; intros d next Hd Hes; cbn [apply_effects fst]; [exact Hd|].
  inversion Hes as [|e0 es0 He Hes']; subst.
  destruct e as [d'|m|n h|j]; apply IH; first [assumption | exact He].
Qed.

Lemma option_map_some {A B} (f : A -> B) (o : option A) b :
  option_map f o = Some b -> exists a, o = Some a /\ b = f a.
Proof. destruct o as [a|]; cbn; intros H; inversion H; eauto. Qed.

(* a crash prefix only contains effects of the step *)
Lemma cut_at_persist_incl es : forall k applied pre,
  cut_at_persist es k applied = Some pre -> forall e, In e pre -> In e es.
Proof.
  induction es as [|e0 es IH]; intros k applied pre Hc e Hin; cbn [cut_at_persist] in Hc; [discriminate|].
  assert (Hrec : forall k', option_map (cons e0) (cut_at_persist es k' applied) = Some pre -> In e (e0 :: es)).
  { intros k' Hm. apply option_map_some in Hm. destruct Hm as (pre' & Hp & ->).
    destruct Hin as [->|Hin]; [left; reflexivity|right; eapply IH; eassumption]. }
  destruct e0 as [d|m|n h|j]; try (eapply Hrec; exact Hc).
  destruct k as [|k']; [|eapply Hrec; exact Hc].
  inversion Hc; subst pre. destruct applied; [|contradiction].
  destruct Hin as [->|[]]. left; reflexivity.
Qed.

Lemma cut_at_persist_ok es k applied pre :
  cut_at_persist es k applied = Some pre -> Forall persist_ok es -> Forall persist_ok pre.
Proof.
  intros Hc Hes. apply Forall_forall. intros e Hin.
  eapply Forall_forall; [exact Hes|]. eapply cut_at_persist_incl; eassumption.
Qed.

Lemma restart_ok cfg d first next next' s1 es1 r1 d1 n1 : dur_ok d ->
  rprologue cfg (rstart cfg d first next) = (s1, es1, r1) ->
  apply_effects d next' es1 = (d1, n1) ->
  just_ok s1 /\ dur_ok d1.
Proof.
  intros Hd Ep Ea.
  destruct (rprologue_just_ok cfg _ s1 es1 r1 (rstart_just_ok cfg d first next Hd) Ep) as [H1 H2].
  split; [exact H1|]. pose proof (apply_effects_ok es1 d next' Hd H2) as H3.
  rewrite Ea in H3. exact H3.
Qed.

Theorem run_op_rs_ok : forall cfg st o, rs_ok st -> rs_ok (fst (run_op cfg st o)).
Proof.
  intros cfg st o [Hs Hd]. unfold run_op.
  destruct (rs_dead st); [split; assumption|].
  destruct o as [i|i k applied|].
  - destruct (rstep_t cfg (rs_s st) i) as [[s' es] r] eqn:Es.
    destruct (rstep_t_just_ok cfg _ i s' es r Hs Es) as [H1 H2].
    pose proof (apply_effects_ok es (rs_d st) (r_store_next (rs_s st)) Hd H2) as H3.
    destruct (apply_effects (rs_d st) (r_store_next (rs_s st)) es) as [d' n']. cbn [fst] in *.
    split; assumption.
  - destruct (rstep_t cfg (rs_s st) i) as [[s' es] r] eqn:Es.
    destruct (rstep_t_just_ok cfg _ i s' es r Hs Es) as [H1 H2].
    destruct (cut_at_persist es k applied) as [pre|] eqn:Ec.
    + pose proof (cut_at_persist_ok es k applied pre Ec H2) as Hpre.
      pose proof (apply_effects_ok pre (rs_d st) (r_store_next (rs_s st)) Hd Hpre) as H3.
      destruct (apply_effects (rs_d st) (r_store_next (rs_s st)) pre) as [d' next']. cbn [fst] in H3.
      destruct (rprologue cfg (rstart cfg d' (r_store_first (rs_s st)) next')) as [[s1 es1] r1] eqn:Ep.
      destruct (apply_effects d' next' es1) as [d1 n1] eqn:Ea. cbn [fst].
      exact (restart_ok cfg d' _ _ _ s1 es1 r1 d1 n1 H3 Ep Ea).
    + pose proof (apply_effects_ok es (rs_d st) (r_store_next (rs_s st)) Hd H2) as H3.
      destruct (apply_effects (rs_d st) (r_store_next (rs_s st)) es) as [d' n']. cbn [fst] in *.
      split; assumption.
  - cbv zeta.
    destruct (rprologue cfg (rstart cfg (rs_d st) (r_store_first (rs_s st)) (r_store_next (rs_s st))))
      as [[s1 es1] r1] eqn:Ep.
    destruct (apply_effects (rs_d st) _ es1) as [d1 n1] eqn:Ea. cbn [fst].
    exact (restart_ok cfg (rs_d st) _ _ _ s1 es1 r1 d1 n1 Hd Ep Ea).
Qed.

(* the run state after a list of operations (the state threaded through run_ops) *)
Fixpoint run_sts (cfg : config) (st : run_state) (ops : list rop) : run_state :=
  match ops with
  | [] => st
  | o :: rest => run_sts cfg (fst (run_op cfg st o)) rest
  end.

Lemma run_ops_cons cfg st o rest :
  run_ops cfg st (o :: rest) = snd (run_op cfg st o) :: run_ops cfg (fst (run_op cfg st o)) rest.
Proof. cbn [run_ops]. destruct (run_op cfg st o) as [st' ob]. reflexivity. Qed.

Theorem run_sts_rs_ok : forall cfg ops st, rs_ok st -> rs_ok (run_sts cfg st ops).
Proof.
  intros cfg ops. induction ops as [|o rest IH]; intros st H; cbn [run_sts]; [exact H|].
  apply IH, run_op_rs_ok, H.
Qed.

(* from any dur_ok persisted state (run_case: StateMachine::start + prologue, then operations) *)
Theorem reachable_timer_enabled_from : forall cfg d first next ops, dur_ok d ->
  let s0 := rstart cfg d first next in
  let '(s1, es, r) := rprologue cfg s0 in
  let '(d1, _) := apply_effects d next es in
  forall st, st = run_sts cfg {| rs_s := s1; rs_d := d1; rs_dead := negb (is_ok r) |} ops ->
    rs_ok st /\ snd (rstep cfg (rs_s st) ITimer) = Ok tt /\
    r_view (fst (fst (rstep cfg (rs_s st) ITimer))) = r_view (rs_s st).
Proof.
  intros cfg d first next ops Hd s0. subst s0.
  destruct (rprologue cfg (rstart cfg d first next)) as [[s1 es] r] eqn:Ep.
  destruct (apply_effects d next es) as [d1 n1] eqn:Ea.
  intros st ->.
  assert (H0 : rs_ok {| rs_s := s1; rs_d := d1; rs_dead := negb (is_ok r) |}).
  { exact (restart_ok cfg d first next next s1 es r d1 n1 Hd Ep Ea). }
  pose proof (run_sts_rs_ok cfg ops _ H0) as H1.
  split; [exact H1|]. apply timer_step_enabled. exact (proj1 H1).
Qed.

Theorem reachable_timer_enabled : forall cfg first next ops,
  let s0 := rstart cfg durable_default first next in
  let '(s1, es, r) := rprologue cfg s0 in
  let '(d1, _) := apply_effects durable_default next es in
  forall st, st = run_sts cfg {| rs_s := s1; rs_d := d1; rs_dead := negb (is_ok r) |} ops ->
    snd (rstep cfg (rs_s st) ITimer) = Ok tt.
Proof.
  intros cfg first next ops s0.
  pose proof (reachable_timer_enabled_from cfg durable_default first next ops durable_default_ok) as H.
  cbv zeta in H. subst s0.
  destruct (rprologue cfg (rstart cfg durable_default first next)) as [[s1 es] r].
  destruct (apply_effects durable_default next es) as [d1 n1].
  intros st E. exact (proj1 (proj2 (H st E))).
Qed.

(* ---------- 4. catching up: a valid new-view for a higher view is always adopted ---------- *)
Lemma save_block_ok cfg s q : ~ blocks_on s q -> res_of (save_block cfg s q) = Ok tt.
Proof.
  intros Hnb. unfold save_block, blocks_on in *.
  destruct (cache_has _ _ _) eqn:Ec; [|reflexivity].
  destruct (_ <? _) eqn:El; [apply Z.ltb_lt in El; exfalso; apply Hnb; split; [reflexivity|exact El]|].
  destruct (_ =? _); reflexivity.
Qed.

Lemma process_commit_qc_ok cfg s q : ~ blocks_on s q -> res_of (process_commit_qc cfg s q) = Ok tt.
Proof.
  intros Hnb. unfold process_commit_qc.
  destruct (match r_high_cqc s with Some _ => _ | None => _ end); [|reflexivity].
  apply save_block_ok. exact Hnb.
Qed.

Lemma process_timeout_qc_ok cfg s t : (forall q, high_qc t = Some q -> ~ blocks_on s q) ->
  res_of (process_timeout_qc cfg s t) = Ok tt.
Proof.
  intros Hnb. unfold process_timeout_qc. destruct (high_qc t) as [q|].
  - pose proof (process_commit_qc_ok cfg s q (Hnb q eq_refl)) as Hr.
    destruct (process_commit_qc cfg s q) as [[s1 es1] r1]. unfold res_of in Hr; cbn [snd] in Hr. subst r1.
    reflexivity.
  - reflexivity.
Qed.

Lemma process_justification_ok cfg s j : (forall q, just_cqc j = Some q -> ~ blocks_on s q) ->
  res_of (process_justification cfg s j) = Ok tt.
Proof.
  intros Hnb. destruct j as [q|t]; cbn [process_justification just_cqc] in *.
  - apply process_commit_qc_ok. apply Hnb. reflexivity.
  - apply process_timeout_qc_ok. exact Hnb.
Qed.

(* exact form: the state after processing the justification, moved to the new view *)
Theorem catch_up_exact : forall cfg s key j mv,
  ccontains cfg key = true ->
  justification_view (E := unit) (cchk cfg) j = Ok mv ->
  justification_verify (cg cfg) (ce cfg) (cC cfg) j = Ok tt ->
  r_view s < vnum mv ->
  (forall q, just_cqc j = Some q -> ~ blocks_on s q) ->
  exists s2 es2 j',
    process_justification cfg s j = (s2, es2, Ok tt) /\
    get_justification s2 = Ok j' /\
    let s' := prune_cache (set_phase (set_view s2 (vnum mv)) Prepare) in
    rstep cfg s (IMsg {| m_key := key; m_sig_ok := true; m_msg := MNewView j |}) =
      (s', es2 ++ [ENotifyProposer j'; EPersist (backup cfg s'); ESend (MNewView j')], Ok tt) /\
    get_justification s' = Ok j'.
Proof.
  intros cfg s key j mv Hkey Hview Hver Hlt Hnb.
  pose proof (process_justification_ok cfg s j Hnb) as Hr.
  pose proof (process_justification_view cfg s j) as Hv.
  pose proof (process_justification_cert cfg s j) as [Hc _].
  destruct (process_justification cfg s j) as [[s2 es2] r2] eqn:Ep.
  unfold res_of, st_of in *; cbn [fst snd] in *. subst r2.
  destruct (get_justification_ok s2 Hc) as [j' Ej'].
  exists s2, es2, j'. split; [reflexivity|]. split; [exact Ej'|]. cbv zeta.
  set (s' := prune_cache (set_phase (set_view s2 (vnum mv)) Prepare)).
  assert (Ej'' : get_justification s' = Ok j').
  { rewrite <- Ej'. apply get_justification_ext; unfold s'.
    - rewrite prune_cache_cqc. reflexivity.
    - rewrite prune_cache_tqc. reflexivity. }
  split; [|exact Ej''].
  cbn [rstep m_msg m_key m_sig_ok]. unfold on_new_view. rewrite Hview. cbn [lift]. rewrite hbind_hret.
  assert (E1 : vnum mv <? r_view s = false) by (apply Z.ltb_ge; lia).
  assert (E2 : vnum mv =? r_view s = false) by (apply Z.eqb_neq; lia).
  rewrite E1, E2, Hkey. cbn [orb andb negb]. rewrite Hver, Ep. cbn [hbind].
  assert (E3 : r_view s2 <? vnum mv = true) by (apply Z.ltb_lt; lia).
  rewrite E3. rewrite (start_new_view_ok cfg s2 (vnum mv) j' Ej'). reflexivity.
Qed.

Theorem catch_up : forall cfg s key j mv,
  ccontains cfg key = true ->
  justification_view (E := unit) (cchk cfg) j = Ok mv ->
  justification_verify (cg cfg) (ce cfg) (cC cfg) j = Ok tt ->
  r_view s < vnum mv ->
  (forall q, just_cqc j = Some q -> ~ blocks_on s q) ->
  exists s' es,
    rstep cfg s (IMsg {| m_key := key; m_sig_ok := true; m_msg := MNewView j |}) = (s', es, Ok tt) /\
    r_view s' = vnum mv /\
    In (ESend (MNewView match get_justification s' with Ok j' => j' | _ => j end)) es.
Proof.
  intros cfg s key j mv Hkey Hview Hver Hlt Hnb.
  destruct (catch_up_exact cfg s key j mv Hkey Hview Hver Hlt Hnb) as (s2 & es2 & j' & _ & _ & H).
  cbv zeta in H. destruct H as [Es Ej]. eexists _, _. split; [exact Es|]. split.
  - rewrite prune_cache_view. reflexivity.
  - rewrite Ej. apply in_or_app. right. right. right. left. reflexivity.
Qed.

