(* C12 — lemmas about the node model (both directions) of Model/Pool.v *)
From Coq Require Import ZArith List Bool Lia.
From EC Require Import Lib.Outcome Lib.U64 Model.Handshake Model.Pool
  Proofs.HandshakeProofs Proofs.PoolProofs.
Import ListNotations.
Open Scope Z_scope.

(* what registration of connection c under key k certifies, per direction *)
Definition in_certified (nc : ncfg) (c k : Z) : Prop :=
  exists r, decide (cfg_in nc) c r = Ok k /\ accepted c (nc_gen nc) k r.
Definition out_certified (nc : ncfg) (c k : Z) : Prop :=
  exists p r, decide (cfg_out nc p) c r = Ok k /\ k = p /\ accepted c (nc_gen nc) k r.

Definition ninv (nc : ncfg) (st : nstate) : Prop :=
  ginv (n_in st) /\ ginv (n_out st) /\
  p_allowed (g_pool (n_in st)) = nc_in_allowed nc /\ p_limit (g_pool (n_in st)) = nc_in_limit nc /\
  p_allowed (g_pool (n_out st)) = nc_out_allowed nc /\ p_limit (g_pool (n_out st)) = 0 /\
  (forall c k, In (c, k) (g_live (n_in st)) -> in_certified nc c k) /\
  (forall c k, In (c, k) (g_live (n_out st)) -> out_certified nc c k).

Lemma ninit_inv nc : 0 <= nc_in_limit nc <= u64_max -> ninv nc (ninit nc).
Proof.
  intros H. unfold ninv, ninit. cbn [n_in n_out].
  split; [apply ginit_inv, H|]. split; [apply ginit_inv; unfold u64_max; lia|].
  cbn. repeat split; try reflexivity; intros c k [].
Qed.

Lemma decide_in_certified nc c r k : decide (cfg_in nc) c r = Ok k -> in_certified nc c k.
Proof.
  intros H. exists r. split; [exact H|]. apply decide_sound in H. exact (proj1 H).
Qed.

Lemma decide_out_certified nc p c r k : decide (cfg_out nc p) c r = Ok k -> out_certified nc c k.
Proof.
  intros H. exists p, r. split; [exact H|]. apply decide_sound in H. destruct H as (Ha & Hp).
  split; [exact (Hp p eq_refl)|exact Ha].
Qed.

Lemma nstep_inv nc st e : ninv nc st -> exists st', nstep nc st e = Ok st' /\ ninv nc st' /\
  (forall a, e = NConn a -> n_out st' = n_out st) /\
  (forall p a, e = NDial p a -> n_in st' = n_in st) /\
  (forall p, e = NDialDead p -> n_in st' = n_in st /\ n_out st' = n_out st).
Proof.
  intros (Hi & Ho & Hai & Hli & Hao & Hlo & Hci & Hco). destruct e as [a|p a|p|c]; cbn [nstep].
  - destruct (gstep_inv (n_in st) (GConn (Z.of_nat (length (n_recs st)))
        (decide (cfg_in nc) (Z.of_nat (length (n_recs st))) (resolve (n_recs st) a))) Hi)
      as (g' & -> & Hg' & Ha & Hl & Hlive).
    eexists. split; [reflexivity|]. cbn [n_in n_out]. split.
    + unfold ninv. cbn [n_in n_out]. rewrite Ha, Hl.
      split; [exact Hg'|]. split; [exact Ho|]. repeat split; try assumption.
      intros c k Hin. destruct (Hlive c k Hin) as [H|H]; [exact (Hci c k H)|].
      injection H as Hc Hd. subst c. eapply decide_in_certified. exact Hd.
    + split; [reflexivity|]. split; [discriminate|discriminate].
  - destruct (gstep_inv (n_out st) (GConn (Z.of_nat (length (n_recs st)))
        (decide (cfg_out nc p) (Z.of_nat (length (n_recs st)))
           (resolve (n_recs st ++ [emit_open (cfg_out nc p) (Z.of_nat (length (n_recs st)))]) a))) Ho)
      as (g' & -> & Hg' & Ha & Hl & Hlive).
    eexists. split; [reflexivity|]. cbn [n_in n_out]. split.
    + unfold ninv. cbn [n_in n_out]. rewrite Ha, Hl.
      split; [exact Hi|]. split; [exact Hg'|]. repeat split; try assumption.
      intros c k Hin. destruct (Hlive c k Hin) as [H|H]; [exact (Hco c k H)|].
      injection H as Hc Hd. subst c. eapply decide_out_certified. exact Hd.
    + split; [discriminate|]. split; [reflexivity|discriminate].
  - eexists. split; [reflexivity|]. cbn [n_in n_out]. split; [unfold ninv; cbn [n_in n_out]; tauto|].
    split; [discriminate|]. split; [discriminate|]. intros p0 _. split; reflexivity.
  - destruct (gstep_inv (n_in st) (GDisc (Z.of_nat c)) Hi) as (gi & -> & Hgi & Hai' & Hli' & Hlvi).
    destruct (gstep_inv (n_out st) (GDisc (Z.of_nat c)) Ho) as (go & -> & Hgo & Hao' & Hlo' & Hlvo).
    eexists. split; [reflexivity|]. cbn [n_in n_out]. split.
    + unfold ninv. cbn [n_in n_out]. rewrite Hai', Hli', Hao', Hlo'.
      split; [exact Hgi|]. split; [exact Hgo|]. repeat split; try assumption.
      * intros c' k Hin. destruct (Hlvi c' k Hin) as [H|H]; [exact (Hci _ _ H)|discriminate H].
      * intros c' k Hin. destruct (Hlvo c' k Hin) as [H|H]; [exact (Hco _ _ H)|discriminate H].
    + split; [discriminate|]. split; discriminate.
Qed.

Lemma nrun_inv nc evs : forall st, ninv nc st -> exists st', nrun nc st evs = Ok st' /\ ninv nc st'.
Proof.
  induction evs as [|e evs IH]; intros st Hst; cbn [nrun].
  - exists st. tauto.
  - destruct (nstep_inv nc st e Hst) as (st1 & -> & H1 & _). exact (IH st1 H1).
Qed.

(* ---------- statements used by Properties/C12.v ---------- *)

Lemma node_thm nc evs : 0 <= nc_in_limit nc <= u64_max ->
  exists st, nrun nc (ninit nc) evs = Ok st /\
    (* one connection per identity and direction; pools = identities of the live connections *)
    NoDup (map snd (g_live (n_in st))) /\ NoDup (map snd (g_live (n_out st))) /\
    (forall k, In k (p_current (g_pool (n_in st))) <-> In k (map snd (g_live (n_in st)))) /\
    (forall k, In k (p_current (g_pool (n_out st))) <-> In k (map snd (g_live (n_out st)))) /\
    (* quota inbound; configured peers only outbound *)
    extras (g_pool (n_in st)) <= nc_in_limit nc /\
    (forall k, In k (p_current (g_pool (n_out st))) -> In k (nc_out_allowed nc)) /\
    (* what a registration certifies *)
    (forall c k, In (c, k) (g_live (n_in st)) -> in_certified nc c k) /\
    (forall c k, In (c, k) (g_live (n_out st)) -> out_certified nc c k).
Proof.
  intros H. destruct (nrun_inv nc evs _ (ninit_inv nc H)) as (st & Hr & Hinv).
  destruct Hinv as ((Hpi & _ & Hsi & Hiffi) & (Hpo & _ & Hso & Hiffo) & Hai & Hli & Hao & Hlo & Hci & Hco).
  exists st. split; [exact Hr|]. repeat split; try assumption; try apply Hiffi; try apply Hiffo.
  - destruct (pinv_extras _ Hpi) as (_ & He). rewrite Hli in He. exact He.
  - destruct (pinv_extras _ Hpo) as (_ & He). rewrite Hlo, extras_cnt, Hao in He. exact (cnt_zero _ _ He).
Qed.

Lemma one_connection_per_peer_thm nc evs st c1 c2 k : 0 <= nc_in_limit nc <= u64_max ->
  nrun nc (ninit nc) evs = Ok st ->
  (In (c1, k) (g_live (n_out st)) -> In (c2, k) (g_live (n_out st)) -> c1 = c2) /\
  (In (c1, k) (g_live (n_in st)) -> In (c2, k) (g_live (n_in st)) -> c1 = c2).
Proof.
  intros H Hr. destruct (node_thm nc evs H) as (st' & Hr' & Hni & Hno & _).
  rewrite Hr in Hr'. injection Hr' as <-.
  split; intros H1 H2; [exact (nodup_snd_fun _ _ _ _ Hno H1 H2)|exact (nodup_snd_fun _ _ _ _ Hni H1 H2)].
Qed.

Lemma directions_independent_thm nc st e st' : nstep nc st e = Ok st' ->
  (forall a, e = NConn a -> n_out st' = n_out st) /\
  (forall p a, e = NDial p a -> n_in st' = n_in st).
Proof.
  intros Hs. split.
  - intros a ->. cbn [nstep] in Hs.
    destruct (gstep (n_in st) _) as [g'| |]; try discriminate. injection Hs as <-. reflexivity.
  - intros p a ->. cbn [nstep] in Hs.
    destruct (gstep (n_out st) _) as [g'| |]; try discriminate. injection Hs as <-. reflexivity.
Qed.
