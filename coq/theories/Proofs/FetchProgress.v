(* C19, progress: the lowest requested number is handed over after a bounded number of moves of
   any acceptor that announces it, whatever everybody else does (bounded weak fairness), and
   higher requests never delay it. *)
From Coq Require Import ZArith List Bool Arith Lia.
From EC Require Import Lib.Obs Model.Fetch Proofs.FetchProofs.
Import ListNotations.
Open Scope Z_scope.

Section Progress.
Variable p : nat.     (* the connection whose acceptor we schedule fairly *)
Variable n : Z.       (* the lowest requested number *)

Definition pmove (a : action) : bool :=
  match a with
  | AStart q | AWake q | AAvail q | ATake q => Nat.eqb q p
  | _ => false
  end.

(* "request n is pending and lowest, peer p announces it and keeps the connection and a reserved call" *)
Definition cond (s : state) : Prop :=
  qmin (s_q s) = Some n /\
  p_alive (s_peers s p) = true /\
  contains (p_avail (s_peers s p)) n = true /\
  (p_acc (s_peers s p) = AIdle -> p_permits (s_peers s p) <> O).

(* worst-case number of moves of p's acceptor before it removes n *)
Definition stage (s : state) : nat :=
  match p_acc (s_peers s p) with
  | AIdle => 3%nat
  | AChosen m => if m =? n then 1%nat else 4%nat
  | AWatch seen (Some m) => if m =? n then (if seen =? s_ver s then 2%nat else 3%nat) else 5%nat
  | AWatch _ None => 3%nat
  end.

Lemma stage_le_5 : forall s, (stage s <= 5)%nat.
Proof.
  intros s. unfold stage. destruct (p_acc (s_peers s p)) as [|seen [m|]|m]; try lia.
  - destruct (m =? n); [destruct (seen =? s_ver s)|]; lia.
  - destruct (m =? n); lia.
Qed.

Fixpoint pmoves (l : list action) : nat :=
  match l with [] => O | a :: l' => Nat.add (if pmove a then 1%nat else 0%nat) (pmoves l') end.

(* version bumps caused by anybody but p's acceptor *)
Fixpoint obumps (s : state) (l : list action) : nat :=
  match l with
  | [] => O
  | a :: l' =>
      match step s a with
      | Some s' => Nat.add (if pmove a then 0%nat else if s_ver s' =? s_ver s then 0%nat else 1%nat) (obumps s' l')
      | None => O
      end
  end.

(* the condition holds in every state of the execution *)
Fixpoint all_cond (s : state) (l : list action) : Prop :=
  cond s /\ match l with
            | [] => True
            | a :: l' => match step s a with Some s' => all_cond s' l' | None => False end
            end.

Lemma min_in_queue : forall s, qmin (s_q s) = Some n -> exists c, qlookup n (s_q s) = Some c.
Proof. intros s H. apply in_keys_lookup. apply qmin_some in H. apply H. Qed.

Lemma upd_same : forall {A} (f : nat -> A) i x, upd f i x i = x.
Proof. intros. unfold upd. rewrite Nat.eqb_refl. reflexivity. Qed.

Lemma pmove_stage : forall s a s', cond s -> step s a = Some s' -> cond s' -> pmove a = true ->
  (stage s' + 1 <= stage s)%nat.
Proof.
  intros s a s' (Hmin & Hal & Hav & Hperm) Hstep (Hmin' & _) Hp.
  destruct a; cbn [pmove] in Hp; try discriminate Hp; apply Nat.eqb_eq in Hp; subst p0;
    inv_step Hstep; unfold stage;
    cbn [s_q s_ver s_peers set_peer with_acc p_acc] in *; rewrite ?upd_same; cbn [p_acc with_acc].
  - (* AStart *)
    match goal with H : p_acc _ = AIdle |- _ => rewrite H end.
    rewrite Hmin, Z.eqb_refl, Z.eqb_refl. lia.
  - (* AWake *)
    match goal with H : p_acc _ = AWatch _ _ |- _ => rewrite H end.
    rewrite Hmin, Z.eqb_refl, Z.eqb_refl.
    match goal with H : (?a =? ?b) = false |- _ => rewrite H end.
    repeat match goal with
           | |- context [match ?x with Some _ => _ | None => _ end] => destruct x
           | |- context [if ?x then _ else _] => destruct x
           end; lia.
  - (* AAvail *)
    match goal with H : p_acc _ = AWatch _ _ |- _ => rewrite H end.
    repeat match goal with
           | |- context [if ?x then _ else _] => destruct x
           end; lia.
  - (* ATake, found *)
    match goal with H : p_acc _ = AChosen _ |- _ => rewrite H end.
    destruct (Z.eqb_spec n0 n) as [->|Hne]; [|lia].
    exfalso. apply qmin_some in Hmin'. destruct Hmin' as [Hin _].
    apply in_keys_qremove in Hin. tauto.
  - (* ATake, gone *)
    match goal with H : p_acc _ = AChosen _ |- _ => rewrite H end.
    rewrite Hmin, Z.eqb_refl, Z.eqb_refl.
    destruct (Z.eqb_spec n0 n) as [->|Hne]; [|lia].
    exfalso. destruct (min_in_queue _ Hmin) as [c Hc]. congruence.
Qed.

Lemma other_acc_same : forall s a s', p_alive (s_peers s p) = true ->
  step s a = Some s' -> pmove a = false ->
  p_acc (s_peers s' p) = p_acc (s_peers s p).
Proof.
  intros s a s' Hal Hstep Hp.
  destruct a; cbn [pmove] in Hp; inv_step Hstep; try reflexivity;
    cbn [s_peers set_peer set_req]; unfold upd;
    try (match goal with |- context [Nat.eqb p ?q] => destruct (Nat.eqb_spec p q) as [->|] end);
    try reflexivity; cbn [p_acc with_acc];
    try (rewrite Nat.eqb_refl in Hp; discriminate Hp).
  congruence.
Qed.

Lemma other_stage : forall s a s', p_alive (s_peers s p) = true ->
  step s a = Some s' -> pmove a = false ->
  le (stage s') (Nat.add (stage s) (if s_ver s' =? s_ver s then 0%nat else 1%nat)).
Proof.
  intros s a s' Hal Hstep Hp. unfold stage. rewrite (other_acc_same _ _ _ Hal Hstep Hp).
  destruct (p_acc (s_peers s p)) as [|seen [m|]|m]; try lia.
  - destruct (m =? n); [|lia].
    destruct (Z.eqb_spec (s_ver s') (s_ver s)) as [->|]; [lia|].
    destruct (seen =? s_ver s'), (seen =? s_ver s); lia.
Qed.

Lemma stage_run : forall l s s', all_cond s l -> run s l = Some s' ->
  (pmoves l + stage s' <= stage s + obumps s l)%nat.
Proof.
  induction l as [|a l IH]; intros s s' Hc Hr; cbn [run pmoves obumps all_cond] in *.
  - injection Hr as <-. lia.
  - destruct Hc as [Hc Hrest]. destruct (step s a) as [s1|] eqn:Es; [|contradiction].
    specialize (IH _ _ Hrest Hr).
    assert (Hc1 : cond s1) by (destruct l; cbn [all_cond] in Hrest; apply Hrest).
    destruct (pmove a) eqn:Ep.
    + pose proof (pmove_stage _ _ _ Hc Es Hc1 Ep). lia.
    + pose proof (other_stage _ _ _ (proj1 (proj2 Hc)) Es Ep). lia.
Qed.

(* Bounded weak fairness for the lowest request: in ANY execution (any interleaving of everybody's
   actions, environment included) during which n stays the lowest queued number, p keeps announcing
   it and never runs out of reserved calls, p's acceptor makes at most 5 moves plus one per
   version bump caused by others.  Hence if p's acceptor is scheduled more often than that, the
   condition must have ended: n left the queue (handed over or cancelled) or a lower request came. *)
Theorem lowest_served_bounded : forall l s s', all_cond s l -> run s l = Some s' ->
  (pmoves l <= 5 + obumps s l)%nat.
Proof.
  intros l s s' Hc Hr. pose proof (stage_run _ _ _ Hc Hr). pose proof (stage_le_5 s). lia.
Qed.

Corollary lowest_served_or_condition_ends : forall l s s', cond s -> run s l = Some s' ->
  (pmoves l > 5 + obumps s l)%nat -> ~ all_cond s l.
Proof. intros l s s' _ Hr Hgt Hc. pose proof (lowest_served_bounded _ _ _ Hc Hr). lia. Qed.

(* When p's acceptor itself removes n while the condition holds, the call is owned by p. *)
Lemma p_take_hands_over : forall s s', cond s ->
  p_acc (s_peers s p) = AChosen n -> step s (ATake p) = Some s' ->
  exists c, qlookup n (s_q s) = Some c /\ held_by s' p n c /\ qlookup n (s_q s') = None.
Proof.
  intros s s' (Hmin & Hal & _) Hacc Hstep. destruct (min_in_queue _ Hmin) as [c Hc]. exists c.
  unfold step in Hstep. cbv zeta in Hstep. rewrite Hacc, Hc, Hal in Hstep. injection Hstep as <-.
  split; [exact Hc|]. split.
  - unfold held_by. cbn [s_held]. apply in_or_app; right; left; reflexivity.
  - cbn [s_q]. apply qlookup_qremove_eq.
Qed.

(* While the condition holds, p's acceptor always has an enabled move (so a weakly fair scheduler
   does schedule it): this is where the no-lost-wake-up invariant is used. *)
Lemma p_never_stuck : forall s, reachable s -> cond s ->
  exists a s', pmove a = true /\ step s a = Some s'.
Proof.
  intros s Hr (Hmin & Hal & Hav & Hperm).
  destruct (p_acc (s_peers s p)) as [|seen m|m] eqn:Ea.
  - destruct (p_permits (s_peers s p)) as [|k] eqn:Ek; [exfalso; apply Hperm; reflexivity|].
    exists (AStart p). eexists. split; [cbn; apply Nat.eqb_refl|].
    unfold step. cbv zeta. rewrite Ea, Ek. reflexivity.
  - destruct (Z.eqb_spec seen (s_ver s)) as [E|E].
    + assert (Hne : s_q s <> []) by (intros C; rewrite C in Hmin; discriminate).
      destruct (no_lost_wakeup _ _ _ _ Hr Ea) as [_ H]. rewrite (H E Hne), Hmin in Ea.
      exists (AAvail p). eexists. split; [cbn; apply Nat.eqb_refl|].
      unfold step. cbv zeta. rewrite Ea, Hav. reflexivity.
    + exists (AWake p). eexists. split; [cbn; apply Nat.eqb_refl|].
      unfold step. cbv zeta. rewrite Ea. destruct (Z.eqb_spec seen (s_ver s)); [contradiction|reflexivity].
  - exists (ATake p). destruct (qlookup m (s_q s)) eqn:El; eexists; (split; [cbn; apply Nat.eqb_refl|]);
      unfold step; cbv zeta; rewrite Ea, El; reflexivity.
Qed.

(* k-bounded fairness towards p's acceptor: it moves at least once in any k consecutive actions *)
Fixpoint kfair (k gap : nat) (l : list action) : Prop :=
  match l with
  | [] => True
  | a :: l' => if pmove a then kfair k 0 l' else (S gap < k)%nat /\ kfair k (S gap) l'
  end.

Lemma kfair_length : forall k l gap, kfair k gap l -> (gap < k)%nat ->
  (length l + gap < k * (pmoves l + 1))%nat.
Proof.
  intros k. induction l as [|a l IH]; intros gap Hf Hg; cbn [kfair pmoves length] in *.
  - nia.
  - destruct (pmove a).
    + specialize (IH 0%nat Hf ltac:(lia)). nia.
    + destruct Hf as [Hg' Hf]. specialize (IH (S gap) Hf Hg'). cbn [Nat.add]. lia.
Qed.

(* Bounded progress: under k-bounded fairness the situation "n is the lowest queued number, p
   announces it, stays connected and has a reserved call" cannot last k * (6 + B) steps, B = number
   of version bumps by others in the meantime: before that, n has been removed from the queue
   (handed over or cancelled) or a lower request has been inserted. *)
Theorem lowest_served_within : forall k l s s', all_cond s l -> run s l = Some s' ->
  kfair k 0 l -> (0 < k)%nat -> (length l < k * (6 + obumps s l))%nat.
Proof.
  intros k l s s' Hc Hr Hf Hk.
  pose proof (lowest_served_bounded _ _ _ Hc Hr). pose proof (kfair_length _ _ _ Hf Hk). nia.
Qed.

End Progress.

(* Higher requests never delay lower ones: inserting a number above the current lowest neither
   changes the lowest number nor signals (wakes, restarts) any acceptor. *)
Theorem higher_insert_silent : forall s r m att n0 s',
  r_st (s_reqs s r) = RInsert m att -> qmin (s_q s) = Some n0 -> n0 < m ->
  step s (RIns r) = Some s' ->
  s_ver s' = s_ver s /\ qmin (s_q s') = Some n0 /\
  (forall q, p_acc (s_peers s' q) = p_acc (s_peers s q)).
Proof.
  intros s r m att n0 s' Hr Hmin Hlt Hstep.
  unfold step in Hstep. cbv zeta in Hstep. rewrite Hr in Hstep. injection Hstep as <-.
  cbn [s_ver s_q s_peers].
  assert (Hq : qmin (qinsert m (r, att) (s_q s)) = Some n0).
  { apply qmin_some. apply qmin_some in Hmin. destruct Hmin as [Hin Hle]. split.
    - unfold qinsert. cbn [keys map fst In]. right. apply in_keys_qremove. split; [exact Hin|lia].
    - intros k Hk. unfold qinsert in Hk. cbn [keys map fst In] in Hk. destruct Hk as [<-|Hk]; [lia|].
      apply in_keys_qremove in Hk. apply Hle. tauto. }
  split; [|split; [exact Hq|reflexivity]].
  unfold bump, is_min. rewrite Hq. cbn [oz_eqb]. destruct (Z.eqb_spec n0 m); [lia|reflexivity].
Qed.

(* After the hand-over: success completes the request (failure re-queues it: dropped_request_requeues). *)
Theorem held_call_completes : forall s p i e l' r n att,
  take_pth p i (s_held s) = Some (e, l') -> h_chan e = (r, att) ->
  r_st (s_reqs s r) = RWait n att ->
  exists s1 s2, step s (ESucceed p i) = Some s1 /\ step s1 (RWakeSent r) = Some s2 /\
                r_st (s_reqs s2 r) = RDone true.
Proof.
  intros s p i e l' r n att Ht Hc Hw. eexists. eexists.
  split; [unfold step; rewrite Ht; reflexivity|].
  split.
  - unfold step. cbv zeta. cbn [s_reqs s_sent]. rewrite Hw, Hc. cbn [chan_mem].
    unfold chan_eqb. cbn [fst snd]. rewrite !Nat.eqb_refl. cbn [andb orb]. reflexivity.
  - cbn [s_reqs set_req]. rewrite upd_same. reflexivity.
Qed.
