(* C14, end to end: the byte-level wire between two multiplexers.  Logical frames, their
   serialisation, tokens (the chunking-insensitive meaning of a frame sequence), and the dispatcher
   as a parser: whatever the chunking of the byte stream, the frames it delivers to a stream are the
   frames addressed to that stream, in order. *)
From Coq Require Import ZArith List Bool Lia.
From EC Require Import Lib.Outcome Lib.Obs Model.MuxHeader Model.Mux Proofs.MuxProofs.
Import ListNotations.
Open Scope Z_scope.

(* ---- logical frames and tokens ---- *)
Record lframe := mkLF { lh : Z; lp : list Z }.
Inductive tok := TO | TC | TB (b : Z).

Definition ser (f : lframe) : list Z :=
  header_raw (lh f) ++
  match classify (lh f) with KData => header_raw (Z.of_nat (length (lp f))) ++ lp f | _ => [] end.

Definition ktoks (k : fkind_class) (data : list Z) : list tok :=
  match k with KOpen => [TO] | KClose => [TC] | KData => map TB data | KBad => [] end.
Definition ltoks (f : lframe) : list tok := ktoks (classify (lh f)) (lp f).
(* frames as the dispatcher hands them to a stream *)
Definition ftoks (f : frame) : list tok :=
  if fkind f =? FK_OPEN then [TO] else if fkind f =? FK_CLOSE then [TC] else map TB (fdata f).

(* the stream of the receiver a header is routed to *)
Definition tk (h : Z) : Z := if stream_kind h =? SK_ACCEPT then 1 else 0.
Definition ti (h : Z) : nat := Z.to_nat (stream_id h).
Definition selh (k : Z) (i : nat) (h : Z) : bool := (tk h =? k) && Nat.eqb (ti h) i.
Definition sel (k : Z) (i : nat) (f : lframe) : bool := selh k i (lh f).

Definition hdr_valid (na nc : nat) (h : Z) : Prop :=
  0 <= h < 65536 /\ stream_id h < Z.of_nat (if stream_kind h =? SK_ACCEPT then nc else na).
Definition lf_ok (na nc : nat) (f : lframe) : Prop :=
  hdr_valid na nc (lh f) /\
  match classify (lh f) with
  | KData => 1 <= Z.of_nat (length (lp f)) < 65536 /\ Forall is_byte (lp f)
  | KBad => False
  | _ => lp f = []
  end.

Lemma header_bytes_roundtrip : forall h, header_of_bytes (h mod 256) (h / 256) = h.
Proof. intros h. unfold header_of_bytes. pose proof (Z.div_mod h 256). lia. Qed.

(* ---- a reference parser: serialisation is uniquely decodable ---- *)
Fixpoint parse (fuel : nat) (bs : list Z) : option (list lframe) :=
  match fuel with
  | O => match bs with [] => Some [] | _ => None end
  | S fuel' =>
      match bs with
      | [] => Some []
      | b0 :: b1 :: r =>
          let h := header_of_bytes b0 b1 in
          match classify h with
          | KData =>
              match r with
              | l0 :: l1 :: r' =>
                  match split_exact (Z.to_nat (header_of_bytes l0 l1)) r' with
                  | Some (p, r'') => option_map (cons (mkLF h p)) (parse fuel' r'')
                  | None => None
                  end
              | _ => None
              end
          | _ => option_map (cons (mkLF h [])) (parse fuel' r)
          end
      | _ => None
      end
  end.

Lemma split_exact_app : forall A (a b : list A), split_exact (length a) (a ++ b) = Some (a, b).
Proof. intros A. induction a as [|x a IH]; intros b; cbn [length split_exact app]; [reflexivity|]. rewrite IH. reflexivity. Qed.

Theorem parse_ser : forall na nc fs fuel, Forall (lf_ok na nc) fs -> (length fs <= fuel)%nat ->
  parse fuel (concat (map ser fs)) = Some fs.
Proof.
  intros na nc. induction fs as [|f fs IH]; intros fuel Hok Hf.
  - destruct fuel; reflexivity.
  - destruct fuel as [|fuel]; [cbn in Hf; lia|]. inversion Hok as [|? ? Hfok Hrest]; subst.
    destruct f as [h p]. destruct Hfok as [Hv Hk]. cbn [lh lp] in *.
    cbn [map concat]. unfold ser at 1. cbn [lh lp]. unfold header_raw at 1. cbn [app parse].
    rewrite header_bytes_roundtrip.
    destruct (classify h) eqn:Ec.
    + subst p. cbn [app]. rewrite IH; [reflexivity|exact Hrest|cbn in Hf; lia].
    + destruct Hk as [Hl Hb]. unfold header_raw. cbn [app]. rewrite header_bytes_roundtrip, Nat2Z.id.
      rewrite split_exact_app. rewrite IH; [reflexivity|exact Hrest|cbn in Hf; lia].
    + subst p. cbn [app]. rewrite IH; [reflexivity|exact Hrest|cbn in Hf; lia].
    + destruct Hk.
Qed.
(* ---- the dispatcher as an incremental parser ---- *)
(* [p]: the part of the payload of the frame in progress that is still in the transport *)
Definition hb (st : dstate) (p : list Z) : list Z :=
  match st with DLen _ => header_raw (Z.of_nat (length p)) ++ p | DAcq _ _ | DChunk _ _ _ => p | _ => [] end.

Definition head_ok (na nc : nat) (st : dstate) (p : list Z) : Prop :=
  match st with
  | DHdr => p = []
  | DLen h => hdr_valid na nc h /\ classify h = KData /\ 1 <= Z.of_nat (length p) < 65536
  | DAcq0 h => hdr_valid na nc h /\ (classify h = KOpen \/ classify h = KClose) /\ p = []
  | DAcq h len => hdr_valid na nc h /\ classify h = KData /\ len = Z.of_nat (length p) /\ 1 <= len
  | DChunk h len size => hdr_valid na nc h /\ classify h = KData /\ len = Z.of_nat (length p) /\ 1 <= len /\ 0 <= size <= len
  | DStop => False
  end.

Definition head_toks (st : dstate) (p : list Z) (k : Z) (i : nat) : list tok :=
  match st with
  | DAcq0 h => if selh k i h then ktoks (classify h) [] else []
  | DLen h | DAcq h _ | DChunk h _ _ => if selh k i h then map TB p else []
  | _ => []
  end.

(* [wout]: bytes the peer has written that have not reached [d_in] yet (any chunking) *)
Definition wire_ok (na nc : nat) (d : dcore) (wout : list Z) (p : list Z) (rest : list lframe) : Prop :=
  d_closed d = false /\
  d_in d ++ wout = hb (d_st d) p ++ concat (map ser rest) /\
  head_ok na nc (d_st d) p /\ Forall (lf_ok na nc) rest.

(* tokens still to be delivered to stream (k, i) *)
Definition pend (k : Z) (i : nat) (d : dcore) (p : list Z) (rest : list lframe) : list tok :=
  head_toks (d_st d) p k i ++ flat_map ltoks (filter (sel k i) rest).

Lemma app_eq_prefix : forall A (a x p y : list A), a ++ x = p ++ y -> (length a <= length p)%nat ->
  a = firstn (length a) p /\ x = skipn (length a) p ++ y.
Proof.
  intros A. induction a as [|u a IH]; intros x p y H Hl; cbn [length firstn skipn app] in *; [auto|].
  destruct p as [|v p]; [cbn in Hl; lia|]. cbn [app] in H. inversion H; subst v.
  destruct (IH x p y H2) as [A1 A2]; [cbn in Hl; lia|]. cbn [firstn skipn]. split; [f_equal; exact A1|exact A2].
Qed.

Lemma classify_frame_kind : forall h, match classify h with KOpen => frame_kind h = FK_OPEN | KData => frame_kind h = FK_DATA | KClose => frame_kind h = FK_CLOSE | KBad => True end.
Proof.
  intros h. unfold classify. destruct (frame_kind h =? FK_OPEN) eqn:E1; [apply Z.eqb_eq; exact E1|].
  destruct (frame_kind h =? FK_DATA) eqn:E2; [apply Z.eqb_eq; exact E2|].
  destruct (frame_kind h =? FK_CLOSE) eqn:E3; [apply Z.eqb_eq; exact E3|exact I].
Qed.

Lemma hdr_valid_target : forall na nc h, hdr_valid na nc h ->
  (tk h = 0 /\ (ti h < na)%nat) \/ (tk h = 1 /\ (ti h < nc)%nat).
Proof.
  intros na nc h [Hr Hs]. unfold tk, ti. pose proof (Z.land_nonneg h ID_MASK) as Hn.
  assert (0 <= stream_id h) by (unfold stream_id; apply Z.land_nonneg; right; unfold ID_MASK; lia).
  destruct (stream_kind h =? SK_ACCEPT); [right|left]; split; try reflexivity; lia.
Qed.

(* One step of the dispatcher on a well-formed wire: it never fails; the tokens pending for every
   stream are unchanged, except that a delivered frame carries exactly the tokens it removes from
   the front of its own stream's pending tokens. *)
Theorem dstep_wire : forall c na nc d wout p rest,
  0 <= rfs c -> wire_ok na nc d wout p rest ->
  match dstep c na nc d with
  | DBlocked => True
  | DFailed _ _ => False
  | DProgress d' => exists p' rest', wire_ok na nc d' wout p' rest' /\
                      forall k i, pend k i d' p' rest' = pend k i d p rest
  | DDeliver d' k i f => exists p' rest', wire_ok na nc d' wout p' rest' /\
                      (k = tk match d_st d with DAcq0 h | DChunk h _ _ => h | _ => 0 end) /\
                      (i = ti match d_st d with DAcq0 h | DChunk h _ _ => h | _ => 0 end) /\
                      ((k = 0 /\ (i < na)%nat) \/ (k = 1 /\ (i < nc)%nat)) /\
                      pend k i d p rest = ftoks f ++ pend k i d' p' rest' /\
                      (forall k' i', selh k' i' match d_st d with DAcq0 h | DChunk h _ _ => h | _ => 0 end = false ->
                                     pend k' i' d' p' rest' = pend k' i' d p rest) /\
                      (fkind f = FK_OPEN \/ fkind f = FK_CLOSE \/ fkind f = FK_DATA)
  end.
Proof.
  intros c na nc d wout p rest Hrfs (Hcl & Heq & Hh & Hrest).
  unfold dstep. destruct d as [cnt siz st inp cl cons rcv]. cbn [d_st d_in d_cnt d_siz d_closed] in *. subst cl.
  destruct st as [|h|h|h len|h len size|]; cbn [head_ok hb] in *.
  - (* DHdr *)
    subst p. cbn [app] in Heq.
    destruct (split_exact 2 inp) as [[[|b0 [|b1 [|? ?]]] rin]|] eqn:Es; try exact I;
      try (destruct (split_exact_spec _ _ _ _ Es) as [_ Hl]; cbn in Hl; lia).
    destruct (split_exact_spec _ _ _ _ Es) as [-> _]. cbn [app] in Heq.
    destruct rest as [|f rest]; [discriminate|]. inversion Hrest as [|? ? Hf Hr]; subst.
    destruct f as [h pl]. destruct Hf as [Hv Hk]. cbn [lh lp] in *.
    cbn [map concat] in Heq. unfold ser in Heq. cbn [lh lp] in Heq. unfold header_raw at 1 in Heq. cbn [app] in Heq.
    inversion Heq as [[E0 E1 Et]]. rewrite header_bytes_roundtrip.
    destruct Hv as [Hrg Hs]. pose proof Hs as Hs0. apply Z.leb_gt in Hs. rewrite Hs.
    destruct (classify h) eqn:Ec.
    + subst pl. exists [], rest. split.
      * unfold wire_ok. cbn [take_bytes d_closed d_in d_st hb head_ok app]. repeat split; auto; try lia.
      * intros k i. unfold pend. cbn [take_bytes d_st head_toks filter]. unfold sel at 2. cbn [lh].
        destruct (selh k i h); [|reflexivity]. cbn [flat_map]. unfold ltoks. cbn [lh lp]. rewrite Ec. reflexivity.
    + destruct Hk as [Hl Hb]. exists pl, rest. split.
      * unfold wire_ok. cbn [take_bytes d_closed d_in d_st hb head_ok]. repeat split; auto; try lia.
      * intros k i. unfold pend. cbn [take_bytes d_st head_toks filter]. unfold sel at 2. cbn [lh].
        destruct (selh k i h); [|reflexivity]. cbn [flat_map]. unfold ltoks. cbn [lh lp]. rewrite Ec. reflexivity.
    + subst pl. exists [], rest. split.
      * unfold wire_ok. cbn [take_bytes d_closed d_in d_st hb head_ok app]. repeat split; auto; try lia.
      * intros k i. unfold pend. cbn [take_bytes d_st head_toks filter]. unfold sel at 2. cbn [lh].
        destruct (selh k i h); [|reflexivity]. cbn [flat_map]. unfold ltoks. cbn [lh lp]. rewrite Ec. reflexivity.
    + destruct Hk.
  - (* DLen *)
    destruct Hh as (Hv & Hk & Hl). pose proof Hv as [Hv1 Hv2]. unfold header_raw in Heq. cbn [app] in Heq.
    destruct (split_exact 2 inp) as [[[|b0 [|b1 [|? ?]]] rin]|] eqn:Es; try exact I;
      try (destruct (split_exact_spec _ _ _ _ Es) as [_ Hl']; cbn in Hl'; lia).
    destruct (split_exact_spec _ _ _ _ Es) as [-> _]. cbn [app] in Heq.
    inversion Heq as [[E0 E1 Et]]. rewrite header_bytes_roundtrip.
    assert (E0' : (Z.of_nat (length p) =? 0) = false) by (apply Z.eqb_neq; lia). rewrite E0'.
    exists p, rest. split.
    + unfold wire_ok. cbn [take_bytes d_closed d_in d_st hb head_ok]. repeat split; auto; lia.
    + intros k i. reflexivity.
  - (* DAcq0 *)
    destruct Hh as (Hv & Hk & ->). pose proof Hv as [Hv1 Hv2].
    destruct (1 <=? cnt); [|exact I].
    exists [], rest. split; [|split; [|split; [|split; [|split; [|split]]]]].
    + unfold wire_ok. cbn [set_st add_permits d_closed d_in d_st hb head_ok]. repeat split; auto.
    + reflexivity.
    + reflexivity.
    + destruct (hdr_valid_target _ _ _ Hv) as [[A B]|[A B]]; unfold tk, ti in *; rewrite A; auto.
    + unfold pend. cbn [set_st add_permits d_st head_toks]. unfold selh, tk, ti. rewrite Z.eqb_refl, Nat.eqb_refl. cbn [andb app].
      f_equal. unfold ftoks. cbn [fkind fdata]. pose proof (classify_frame_kind h) as Hc.
      destruct Hk as [Hk|Hk]; rewrite Hk in *; rewrite Hc; reflexivity.
    + intros k' i' Hs. unfold pend. cbn [set_st add_permits d_st head_toks]. rewrite Hs. reflexivity.
    + cbn [fkind]. pose proof (classify_frame_kind h) as Hc. destruct Hk as [Hk|Hk]; rewrite Hk in Hc; auto.
  - (* DAcq *)
    destruct Hh as (Hv & Hk & Hlen & Hl1). pose proof Hv as [Hv1 Hv2].
    destruct ((1 <=? cnt) && (Z.min len (rfs c) <=? siz)); [|exact I].
    exists p, rest. split.
    + unfold wire_ok. cbn [set_st add_permits d_closed d_in d_st hb head_ok]. repeat split; auto; lia.
    + intros k i. reflexivity.
  - (* DChunk *)
    destruct Hh as (Hv & Hk & Hlen & Hl1 & Hsz). pose proof Hv as [Hv1 Hv2].
    destruct (split_exact (Z.to_nat size) inp) as [[data rin]|] eqn:Es; [|exact I].
    destruct (split_exact_spec _ _ _ _ Es) as [-> Hld]. rewrite <- app_assoc in Heq.
    destruct (app_eq_prefix _ _ _ _ _ Heq) as [Hd Hx]; [lia|].
    set (p' := skipn (length data) p) in *.
    assert (Hp : p = data ++ p') by (rewrite Hd; apply (eq_sym (firstn_skipn _ _))).
    assert (Hlp : Z.of_nat (length p') = len - size).
    { unfold p'. rewrite skipn_length. lia. }
    exists p', rest. split; [|split; [|split; [|split; [|split; [|split]]]]].
    + unfold wire_ok. cbn [take_bytes d_closed d_in d_st]. split; [reflexivity|].
      destruct (len - size =? 0) eqn:E0.
      * apply Z.eqb_eq in E0. assert (p' = []) by (destruct p'; [reflexivity|cbn [length] in Hlp; lia]).
        cbn [hb head_ok]. rewrite H in Hx. cbn [app] in Hx. repeat split; auto.
      * apply Z.eqb_neq in E0. cbn [hb head_ok]. repeat split; auto; lia.
    + reflexivity.
    + reflexivity.
    + destruct (hdr_valid_target _ _ _ Hv) as [[A B]|[A B]]; unfold tk, ti in *; rewrite A; auto.
    + unfold pend. cbn [take_bytes d_st head_toks]. unfold selh at 1, tk, ti. rewrite Z.eqb_refl, Nat.eqb_refl. cbn [andb].
      unfold ftoks. cbn [fkind fdata]. change (FK_DATA =? FK_OPEN) with false. change (FK_DATA =? FK_CLOSE) with false. cbv iota.
      rewrite Hp at 1. rewrite map_app, <- app_assoc. f_equal. f_equal.
      destruct (len - size =? 0) eqn:E0; cbn [head_toks].
      * apply Z.eqb_eq in E0. assert (p' = []) by (destruct p'; [reflexivity|cbn [length] in Hlp; lia]). rewrite H. reflexivity.
      * unfold selh, tk, ti. rewrite Z.eqb_refl, Nat.eqb_refl. reflexivity.
    + intros k' i' Hs. unfold pend. cbn [take_bytes d_st head_toks]. rewrite Hs.
      destruct (len - size =? 0); cbn [head_toks]; [reflexivity|rewrite Hs; reflexivity].
    + cbn [fkind]. auto.
  - destruct Hh.
Qed.
(* ---- what a reusable stream has sent, as tokens ---- *)
Definition chunks_bytes (cs : list (list Z)) : list Z := concat (rev cs).

Fixpoint Efn (wlog : list (Z * list (list Z))) (closed : bool) : list tok :=
  match wlog with
  | [] => if closed then [TC] else []
  | (w, cs) :: older => Efn older true ++ [TO] ++ map TB (chunks_bytes cs) ++ (if closed then [TC] else [])
  end.
Definition wclosed (s : rstream) : bool := match s_wph s with WApp | WJoin _ => false | _ => true end.
Definition Etoks (s : rstream) : list tok := Efn (g_wlog (s_g s)) (wclosed s).

(* the tokens after the n-th OPEN *)
Fixpoint inc_tail (n : nat) (l : list tok) {struct l} : list tok :=
  match n, l with
  | O, _ => l
  | _, [] => []
  | S n', TO :: t => inc_tail n' t
  | S _, _ :: t => inc_tail n t
  end.
Fixpoint count_TO (l : list tok) : nat :=
  match l with [] => O | TO :: t => S (count_TO t) | _ :: t => count_TO t end.
Definition noTO (l : list tok) : Prop := count_TO l = O.

Lemma count_TO_app : forall a b, count_TO (a ++ b) = (count_TO a + count_TO b)%nat.
Proof. induction a as [|x a IH]; intros b; [reflexivity|]. destruct x; cbn [app count_TO]; rewrite IH; reflexivity. Qed.

Lemma count_TO_bytes : forall bs, count_TO (map TB bs) = O.
Proof. induction bs as [|b bs IH]; [reflexivity|exact IH]. Qed.

Lemma inc_tail_0 : forall l, inc_tail 0 l = l.
Proof. destruct l; reflexivity. Qed.

Lemma inc_tail_app : forall l n t, (n <= count_TO l)%nat -> inc_tail n (l ++ t) = inc_tail n l ++ t.
Proof.
  induction l as [|x l IH]; intros n t H.
  - cbn [count_TO] in H. assert (n = O) by lia. subst n. rewrite !inc_tail_0. reflexivity.
  - destruct n as [|n]; [reflexivity|]. destruct x; cbn [app inc_tail count_TO] in *; apply IH; lia.
Qed.

(* skipping a TO-free prefix and then one OPEN *)
Lemma inc_tail_noTO : forall pre n l, noTO pre -> inc_tail (S n) (pre ++ TO :: l) = inc_tail n l.
Proof.
  induction pre as [|x pre IH]; intros n l H; [reflexivity|]. unfold noTO in *.
  destruct x; cbn [app inc_tail count_TO] in *; try discriminate; apply IH; exact H.
Qed.

Lemma inc_tail_suffix : forall n l, exists pre, l = pre ++ inc_tail n l.
Proof.
  intros n l. revert n. induction l as [|x l IH]; intros n; [exists []; destruct n; reflexivity|].
  destruct n as [|n]; [exists []; reflexivity|]. destruct x; cbn [inc_tail].
  - destruct (IH n) as (pre & Hp). exists (TO :: pre). cbn [app]. f_equal. exact Hp.
  - destruct (IH (S n)) as (pre & Hp). exists (TC :: pre). cbn [app]. f_equal. exact Hp.
  - destruct (IH (S n)) as (pre & Hp). exists (TB b :: pre). cbn [app]. f_equal. exact Hp.
Qed.

(* inc_tail (S n) l = x means l = pre ++ TO :: more with exactly n OPENs in pre ... stated as: one more step *)
Lemma inc_tail_step : forall n l pre t, inc_tail n l = pre ++ TO :: t -> noTO pre -> inc_tail (S n) l = t.
Proof.
  intros n l. revert n. induction l as [|x l IH]; intros n pre t H Hn.
  - destruct n; cbn in H; destruct pre; discriminate.
  - destruct n as [|n].
    + rewrite inc_tail_0 in H. rewrite H. rewrite (inc_tail_noTO pre 0 t Hn). apply inc_tail_0.
    + destruct x; cbn [inc_tail] in *; eapply IH; eassumption.
Qed.

Lemma count_TO_inc_tail : forall n l, (count_TO (inc_tail n l) + n <= count_TO l + 0)%nat \/ inc_tail n l = [].
Proof.
  intros n l. revert n. induction l as [|x l IH]; intros n; [right; destruct n; reflexivity|].
  destruct n as [|n]; [left; rewrite inc_tail_0; lia|].
  destruct x; cbn [inc_tail count_TO]; destruct (IH n) as [H|H]; destruct (IH (S n)) as [H'|H']; auto; left; lia.
Qed.

(* if an OPEN is still ahead after n OPENs, the sender has sent more than n OPENs *)
Lemma inc_tail_has_TO : forall n l pre t, inc_tail n l = pre ++ TO :: t -> (S n <= count_TO l)%nat.
Proof.
  intros n l pre t H. destruct (count_TO_inc_tail n l) as [Hc|Hc].
  - rewrite H, count_TO_app in Hc. cbn [count_TO] in Hc. lia.
  - rewrite Hc in H. destruct pre; discriminate.
Qed.

Lemma count_TO_Efn : forall wlog c, count_TO (Efn wlog c) = length wlog.
Proof.
  induction wlog as [|[w cs] older IH]; intros c; cbn [Efn length]; [destruct c; reflexivity|].
  rewrite !count_TO_app, IH, count_TO_bytes. cbn [count_TO]. destruct c; cbn [count_TO]; lia.
Qed.

(* appending to what a stream has sent *)
Lemma Efn_open : forall wlog w, Efn ((w, []) :: wlog) false = Efn wlog true ++ [TO].
Proof. intros. reflexivity. Qed.

Lemma chunks_bytes_sent : forall ps cs, chunks_bytes (rev_append ps cs) = chunks_bytes cs ++ concat ps.
Proof.
  intros ps cs. unfold chunks_bytes. rewrite rev_append_rev, rev_app_distr, rev_involutive, concat_app. reflexivity.
Qed.

Lemma Efn_sent : forall w cs older ps, Efn ((w, rev_append ps cs) :: older) false = Efn ((w, cs) :: older) false ++ map TB (concat ps).
Proof.
  intros. cbn [Efn]. rewrite chunks_bytes_sent, map_app, !app_nil_r, <- !app_assoc. reflexivity.
Qed.

Lemma Efn_close : forall wlog, Efn wlog true = Efn wlog false ++ [TC].
Proof.
  destruct wlog as [|[w cs] older]; cbn [Efn]; [reflexivity|]. rewrite app_nil_r, <- !app_assoc. reflexivity.
Qed.

(* ---- shape of what a stream has sent: CLOSE, then one block per incarnation (oldest first) ---- *)
Definition inc_body (cl : bool) (e : Z * list (list Z)) : list tok :=
  map TB (chunks_bytes (snd e)) ++ (if cl then [TC] else []).
Fixpoint incs_toks (l : list (Z * list (list Z))) (lastclosed : bool) : list tok :=
  match l with
  | [] => []
  | e :: t => match t with
              | [] => TO :: inc_body lastclosed e
              | _ => TO :: inc_body true e ++ incs_toks t lastclosed
              end
  end.

Lemma incs_toks_cons : forall x t c, t <> [] -> incs_toks (x :: t) c = TO :: inc_body true x ++ incs_toks t c.
Proof. intros x t c H. destruct t; [contradiction|reflexivity]. Qed.

Lemma incs_toks_snoc : forall l e c, incs_toks (l ++ [e]) c = incs_toks l true ++ TO :: inc_body c e.
Proof.
  induction l as [|x l IH]; intros e c; [reflexivity|].
  change ((x :: l) ++ [e]) with (x :: (l ++ [e])). rewrite incs_toks_cons by (destruct l; discriminate). rewrite IH.
  destruct l as [|y l].
  - reflexivity.
  - rewrite (incs_toks_cons x (y :: l)) by discriminate. cbn [app]. rewrite <- app_assoc. reflexivity.
Qed.

Lemma Efn_incs : forall wlog c,
  Efn wlog c = (match wlog with [] => if c then [TC] else [] | _ => [TC] end) ++ incs_toks (rev wlog) c.
Proof.
  induction wlog as [|[w cs] older IH]; intros c; [cbn; destruct c; reflexivity|].
  cbn [Efn rev]. rewrite incs_toks_snoc, (IH true). unfold inc_body. cbn [snd].
  destruct older; cbn [app]; rewrite <- ?app_assoc; reflexivity.
Qed.

Lemma noTO_body : forall c e, noTO (inc_body c e).
Proof. intros c e. unfold noTO, inc_body. rewrite count_TO_app, count_TO_bytes. destruct c; reflexivity. Qed.

(* after the (j+1)-th OPEN: the bytes of that incarnation, then nothing (still open) or CLOSE ... *)
Lemma inc_tail_incs : forall l j pre c e, noTO pre -> nth_error l j = Some e ->
  exists tl, inc_tail (S j) (pre ++ incs_toks l c) = map TB (chunks_bytes (snd e)) ++ tl /\
             ((tl = [] /\ S j = length l /\ c = false) \/ (exists tl', tl = TC :: tl' /\ ((S j < length l)%nat \/ c = true))).
Proof.
  induction l as [|x l IH]; intros j pre c e Hn Hj; [destruct j; discriminate|].
  cbn [incs_toks]. destruct l as [|y l].
  - destruct j as [|j]; [|destruct j; discriminate]. cbn [nth_error] in Hj. inversion Hj; subst x.
    rewrite inc_tail_noTO by exact Hn. rewrite inc_tail_0. unfold inc_body.
    exists (if c then [TC] else []). split; [reflexivity|]. destruct c; [right; eexists; split; [reflexivity|right; reflexivity]|left; auto].
  - rewrite inc_tail_noTO by exact Hn. destruct j as [|j].
    + cbn [nth_error] in Hj. inversion Hj; subst x. rewrite inc_tail_0. unfold inc_body. rewrite <- app_assoc.
      eexists. split; [reflexivity|]. right. eexists. split; [reflexivity|left; cbn [length]; lia].
    + cbn [nth_error] in Hj. destruct (IH j (inc_body true x) c e (noTO_body _ _) Hj) as (tl & Ht & Hs).
      exists tl. split; [exact Ht|]. destruct Hs as [(A & B & C)|(tl' & A & B)]; [left; cbn [length] in *; auto|].
      right. exists tl'. split; [exact A|]. destruct B as [B|B]; [left; cbn [length] in *; lia|right; exact B].
Qed.

Theorem Etail_shape : forall wlog c n, (1 <= n <= length wlog)%nat ->
  exists w cs tl, nth_error (rev wlog) (pred n) = Some (w, cs) /\
    inc_tail n (Efn wlog c) = map TB (chunks_bytes cs) ++ tl /\
    ((tl = [] /\ n = length wlog /\ c = false) \/ (exists tl', tl = TC :: tl' /\ ((n < length wlog)%nat \/ c = true))).
Proof.
  intros wlog c n Hn. destruct n as [|j]; [lia|]. cbn [pred].
  destruct (nth_error (rev wlog) j) as [[w cs]|] eqn:E.
  2:{ apply nth_error_None in E. rewrite rev_length in E. lia. }
  rewrite Efn_incs.
  assert (Hp : noTO (match wlog with [] => if c then [TC] else [] | _ => [TC] end)) by (destruct wlog; [destruct c|]; reflexivity).
  destruct (inc_tail_incs (rev wlog) j _ c (w, cs) Hp E) as (tl & Ht & Hs).
  exists w, cs, tl. split; [reflexivity|]. split; [exact Ht|]. rewrite rev_length in Hs. exact Hs.
Qed.

(* comparing two token strings that both start with bytes *)
Lemma tb_split : forall a b x y, map TB a ++ x = map TB b ++ y ->
  (exists c, b = a ++ c /\ x = map TB c ++ y) \/ (exists c, a = b ++ c /\ y = map TB c ++ x).
Proof.
  induction a as [|u a IH]; intros b x y H.
  - left. exists b. split; [reflexivity|exact H].
  - destruct b as [|v b].
    + right. exists (u :: a). split; [reflexivity|]. symmetry. exact H.
    + cbn [map app] in H. inversion H; subst v. destruct (IH b x y H2) as [(c & -> & Hx)|(c & -> & Hy)].
      * left. exists c. auto.
      * right. exists c. auto.
Qed.
