(* Typed layer: ProtoFmt::read (ProtoFmt::build v) = v on the property's domain, and the
   BTreeMap of TimeoutQC does not depend on the insertion order. *)
From Coq Require Import String ZArith List Bool Lia Sorting.Sorted Permutation.
From EC Require Import Lib.Outcome Model.Wire Model.ProtoSchema Model.ProtoTyped.
Import ListNotations.
Open Scope list_scope.
Open Scope Z_scope.

Ltac Zify.zify_post_hook ::= Z.to_euclidean_division_equations.

(* ---- integers ---- *)
Lemma as_i64_of_i64 : forall x, i64_min <= x <= i64_max -> as_i64 (of_i64 x) = x.
Proof.
  intros x H. unfold as_i64, of_i64, i64_min, i64_max, two63, two64 in *.
  destruct (x mod 18446744073709551616 <? 9223372036854775808) eqn:E;
    [apply Z.ltb_lt in E | apply Z.ltb_ge in E]; lia.
Qed.

Lemma as_i32_of_i64_small : forall x, 0 <= x < two31 -> as_i32 (of_i64 x) = x.
Proof.
  intros x H. unfold as_i32, of_i64, two31, two32, two64 in *.
  destruct ((x mod 18446744073709551616) mod 4294967296 <? 2147483648) eqn:E;
    [apply Z.ltb_lt in E | apply Z.ltb_ge in E]; lia.
Qed.

(* ---- Duration / Timestamp ---- *)
Definition dur_dom (tn : Z) : Prop :=
  dur_in_range tn = true /\ (i64_min < Z.quot tn NS \/ 0 <= Z.rem tn NS).

Lemma get1_two_1 : forall a b, get1 1 [(1, a); (2, b)] = Some a.
Proof. reflexivity. Qed.
Lemma get1_two_2 : forall a b, get1 2 [(1, a); (2, b)] = Some b.
Proof. reflexivity. Qed.

Theorem roundtrip_duration : forall chk tn, dur_dom tn ->
  exists d, build_duration chk tn = Ok d /\ read_duration d = Ok tn.
Proof.
  intros chk tn [Hr Hs]. unfold build_duration.
  unfold dur_in_range in Hr. apply andb_true_iff in Hr. destruct Hr as [Hlo Hhi].
  apply Z.leb_le in Hlo. apply Z.leb_le in Hhi.
  assert (Hq : tn = NS * Z.quot tn NS + Z.rem tn NS) by (apply Z.quot_rem'; unfold NS; lia).
  assert (Hb : - NS < Z.rem tn NS < NS) by (unfold NS; lia).
  set (s := Z.quot tn NS) in *. set (n := Z.rem tn NS) in *.
  destruct (n <? 0) eqn:En; [apply Z.ltb_lt in En | apply Z.ltb_ge in En].
  - destruct (s =? i64_min) eqn:Es; [apply Z.eqb_eq in Es; unfold i64_min in *; lia | apply Z.eqb_neq in Es].
    eexists. split; [reflexivity|].
    unfold read_duration, req_var. rewrite get1_two_1, get1_two_2. cbn [bind].
    rewrite as_i64_of_i64 by (unfold i64_min, i64_max in *; lia).
    rewrite as_i32_of_i64_small by (unfold NS, two31 in *; lia).
    replace ((s - 1) * NS + (n + NS)) with tn by lia.
    fold s n. unfold dur_in_range. fold s.
    destruct (i64_min <=? s) eqn:A; [|apply Z.leb_gt in A; lia].
    destruct (s <=? i64_max) eqn:B; [|apply Z.leb_gt in B; lia]. cbn [andb negb].
    destruct (i64_min <? s) eqn:C; [reflexivity | apply Z.ltb_ge in C; unfold i64_min in *; lia].
  - eexists. split; [reflexivity|].
    unfold read_duration, req_var. rewrite get1_two_1, get1_two_2. cbn [bind].
    rewrite as_i64_of_i64 by (unfold i64_min, i64_max in *; lia).
    rewrite as_i32_of_i64_small by (unfold NS, two31 in *; lia).
    replace (s * NS + n) with tn by lia.
    fold s n. unfold dur_in_range. fold s.
    destruct (i64_min <=? s) eqn:A; [|apply Z.leb_gt in A; lia].
    destruct (s <=? i64_max) eqn:B; [|apply Z.leb_gt in B; lia]. cbn [andb negb].
    destruct (0 <=? n) eqn:C; [rewrite orb_true_r; reflexivity | apply Z.leb_gt in C; lia].
Qed.

(* what decoding accepts can always be encoded again (repair 3005ef8) *)
Theorem decoded_duration_encodable : forall d tn, read_duration d = Ok tn -> dur_dom tn.
Proof.
  intros d tn H. unfold read_duration in H.
  destruct (req_var 1 d) as [s| |]; cbn [bind] in H; try discriminate.
  destruct (req_var 2 d) as [n| |]; cbn [bind] in H; try discriminate.
  destruct (dur_in_range (as_i64 s * NS + as_i32 n)) eqn:E; cbn [negb] in H; [|discriminate].
  destruct ((i64_min <? Z.quot (as_i64 s * NS + as_i32 n) NS) || (0 <=? Z.rem (as_i64 s * NS + as_i32 n) NS)) eqn:E2;
    [|discriminate].
  inversion H; subst. split; [assumption|].
  apply orb_true_iff in E2. destruct E2 as [E2|E2]; [left; apply Z.ltb_lt; assumption | right; apply Z.leb_le; assumption].
Qed.

(* ---- SocketAddr ---- *)
Definition sockaddr_dom (a : sockaddr) : Prop :=
  (length (sa_ip a) = 4%nat \/ length (sa_ip a) = 16%nat) /\ 0 <= sa_port a < 65536.

Theorem roundtrip_sockaddr : forall a, sockaddr_dom a -> read_sockaddr (build_sockaddr a) = Ok a.
Proof.
  intros [ip port] [Hip Hport]. cbn [sa_ip sa_port] in *.
  unfold read_sockaddr, build_sockaddr, req_bytes, req_var. cbn [sa_ip sa_port].
  rewrite get1_two_1, get1_two_2. cbn [bind].
  assert (Hl : (length ip =? 4)%nat || (length ip =? 16)%nat = true)
    by (destruct Hip as [H|H]; rewrite H; reflexivity).
  rewrite Hl. cbn [negb]. unfold as_u32, two32.
  rewrite Z.mod_small by lia.
  destruct (port <? 65536) eqn:E; [reflexivity | apply Z.ltb_ge in E; lia].
Qed.

(* ---- BitVector ---- *)
Lemma bits_of_byte_of_bits : forall b0 b1 b2 b3 b4 b5 b6 b7,
  bits_of_byte (byte_of_bits b0 b1 b2 b3 b4 b5 b6 b7) = [b0; b1; b2; b3; b4; b5; b6; b7].
Proof. intros [] [] [] [] [] [] [] []; vm_compute; reflexivity. Qed.

Lemma bits_roundtrip : forall l, firstn (length l) (bytes_to_bits (bits_to_bytes l)) = l.
Proof.
  fix IH 1. intros l.
  destruct l as [|b0 [|b1 [|b2 [|b3 [|b4 [|b5 [|b6 [|b7 r]]]]]]]];
    try (cbn [bits_to_bytes bytes_to_bits flat_map]; rewrite bits_of_byte_of_bits; reflexivity).
  - reflexivity.
  - cbn [bits_to_bytes bytes_to_bits flat_map]. rewrite bits_of_byte_of_bits.
    cbn [length app firstn]. fold (bytes_to_bits (bits_to_bytes r)). rewrite IH. reflexivity.
Qed.

Lemma bits_to_bytes_length : forall l, Z.of_nat (length l) <= 8 * Z.of_nat (length (bits_to_bytes l)).
Proof.
  fix IH 1. intros l.
  destruct l as [|b0 [|b1 [|b2 [|b3 [|b4 [|b5 [|b6 [|b7 r]]]]]]]];
    try (clear IH; cbn [bits_to_bytes length]; lia).
  cbn [bits_to_bytes length]. specialize (IH r). lia.
Qed.

(* padding bits of the encoding are zero: the bytes are a function of the bits alone *)
Theorem roundtrip_bitvec : forall l, read_bitvec (build_bitvec l) = Ok l.
Proof.
  intros l. unfold read_bitvec, build_bitvec, req_var, req_bytes.
  rewrite get1_two_1, get1_two_2. cbn [bind].
  pose proof (bits_to_bytes_length l) as H.
  destruct (8 * Z.of_nat (length (bits_to_bytes l)) <? Z.of_nat (length l)) eqn:E;
    [apply Z.ltb_lt in E; lia|].
  rewrite Nat2Z.id. rewrite bits_roundtrip. reflexivity.
Qed.

(* ---- hashes, signatures ---- *)
Lemma roundtrip_hash : forall h, length h = 32%nat -> read_hash (build_hash h) = Ok h.
Proof. intros h H. unfold read_hash, build_hash, req_bytes. cbn. rewrite H. reflexivity. Qed.

Section Typed.
  Variable sig_ok : bytes -> bool.

  Lemma roundtrip_sig : forall s, sig_ok s = true -> read_sig sig_ok (build_sig s) = Ok s.
  Proof. intros s H. unfold read_sig, build_sig, req_bytes. cbn. rewrite H. reflexivity. Qed.

  Definition view_dom (v : View) : Prop := length (v_genesis v) = 32%nat.
  Definition header_dom (h : BlockHeader) : Prop := length (bh_payload h) = 32%nat.
  Definition commit_dom (c : ReplicaCommit) : Prop := view_dom (rc_view c) /\ header_dom (rc_proposal c).
  Definition commit_qc_dom (q : CommitQC) : Prop := commit_dom (cq_msg q) /\ sig_ok (cq_sig q) = true.
  Definition opt_dom {A} (P : A -> Prop) (o : option A) : Prop := match o with Some a => P a | None => True end.
  Definition timeout_dom (t : ReplicaTimeout) : Prop :=
    view_dom (rt_view t) /\ opt_dom commit_dom (rt_high_vote t) /\ opt_dom commit_qc_dom (rt_high_qc t).

  Theorem roundtrip_view : forall v, view_dom v -> read_view (build_view v) = Ok v.
  Proof.
    intros [g n e] H. unfold view_dom in H. cbn [v_genesis] in H.
    unfold read_view, build_view, req_msg, req_var. cbn [v_genesis v_number v_epoch].
    change (get1 1 [(1, DMsg (build_hash g)); (2, DVar n); (3, DVar e)]) with (Some (DMsg (build_hash g))).
    change (get1 2 [(1, DMsg (build_hash g)); (2, DVar n); (3, DVar e)]) with (Some (DVar n)).
    change (get1 3 [(1, DMsg (build_hash g)); (2, DVar n); (3, DVar e)]) with (Some (DVar e)).
    cbn [bind]. rewrite roundtrip_hash by assumption. reflexivity.
  Qed.

  Theorem roundtrip_header : forall h, header_dom h -> read_header (build_header h) = Ok h.
  Proof.
    intros [n p] H. unfold header_dom in H. cbn [bh_payload] in H.
    unfold read_header, build_header, req_msg, req_var. cbn [bh_number bh_payload].
    rewrite get1_two_1, get1_two_2. cbn [bind]. rewrite roundtrip_hash by assumption. reflexivity.
  Qed.

  Theorem roundtrip_commit : forall c, commit_dom c -> read_commit (build_commit c) = Ok c.
  Proof.
    intros [v p] [Hv Hp]. cbn [rc_view rc_proposal] in *.
    unfold read_commit, build_commit, req_msg. cbn [rc_view rc_proposal].
    rewrite get1_two_1, get1_two_2. cbn [bind].
    rewrite roundtrip_view by assumption. cbn [bind].
    rewrite roundtrip_header by assumption. reflexivity.
  Qed.

  Theorem roundtrip_commit_qc : forall q, commit_qc_dom q -> read_commit_qc sig_ok (build_commit_qc q) = Ok q.
  Proof.
    intros [m s g] [Hm Hg]. cbn [cq_msg cq_signers cq_sig] in *.
    unfold read_commit_qc, build_commit_qc, req_msg. cbn [cq_msg cq_signers cq_sig].
    change (get1 1 [(1, DMsg (build_commit m)); (2, DMsg (build_bitvec s)); (3, DMsg (build_sig g))])
      with (Some (DMsg (build_commit m))).
    change (get1 2 [(1, DMsg (build_commit m)); (2, DMsg (build_bitvec s)); (3, DMsg (build_sig g))])
      with (Some (DMsg (build_bitvec s))).
    change (get1 3 [(1, DMsg (build_commit m)); (2, DMsg (build_bitvec s)); (3, DMsg (build_sig g))])
      with (Some (DMsg (build_sig g))).
    cbn [bind]. rewrite roundtrip_commit by assumption. cbn [bind].
    rewrite roundtrip_bitvec. cbn [bind]. rewrite roundtrip_sig by assumption. reflexivity.
  Qed.

  Theorem roundtrip_timeout : forall t, timeout_dom t -> read_timeout sig_ok (build_timeout t) = Ok t.
  Proof.
    intros [v hv hq] [Hv [Hhv Hhq]]. cbn [rt_view rt_high_vote rt_high_qc] in *.
    unfold read_timeout, build_timeout, read_opt, opt_msg, req_msg. cbn [rt_view rt_high_vote rt_high_qc].
    destruct hv as [c|]; destruct hq as [q|]; cbn [opt_dom] in *; cbn [build_opt app];
      repeat match goal with
             | |- context [get1 ?n ?l] =>
                 let r := eval cbv [get1 get_all filter map fst snd last Z.eqb Pos.eqb] in (get1 n l) in
                 change (get1 n l) with r
             end; cbn [bind];
      rewrite roundtrip_view by assumption; cbn [bind];
      try (rewrite roundtrip_commit by assumption; cbn [bind]);
      try (rewrite roundtrip_commit_qc by assumption; cbn [bind]);
      reflexivity.
  Qed.

  (* ---- TimeoutQC ---- *)
  Definition key_gt (a b : ReplicaTimeout * list bool) : Prop := cmp_timeout (fst b) (fst a) = Gt.
  (* the BTreeMap invariant: keys strictly increasing (every later key greater than every earlier one) *)
  Definition tmap_sorted (m : tmap) : Prop := StronglySorted key_gt m.
  Definition timeout_qc_dom (q : TimeoutQC) : Prop :=
    view_dom (tq_view q) /\ tmap_sorted (tq_map q) /\ Forall (fun e => timeout_dom (fst e)) (tq_map q) /\
    sig_ok (tq_sig q) = true.

  Lemma get_all_app : forall n a b, get_all n (a ++ b) = get_all n a ++ get_all n b.
  Proof. intros n a b. unfold get_all. rewrite filter_app, map_app. reflexivity. Qed.

  Lemma get_all_map_same : forall (A : Type) n (f : A -> dval) (l : list A),
    get_all n (map (fun e => (n, f e)) l) = map f l.
  Proof.
    intros A n f l. unfold get_all. induction l as [|a l IH]; [reflexivity|].
    cbn [map filter fst]. rewrite Z.eqb_refl. cbn [map snd]. f_equal. exact IH.
  Qed.

  Lemma get_all_map_other : forall (A : Type) n k (f : A -> dval) (l : list A), k <> n ->
    get_all n (map (fun e => (k, f e)) l) = [].
  Proof.
    intros A n k f l H. unfold get_all. induction l as [|a l IH]; [reflexivity|].
    cbn [map filter fst]. destruct (k =? n) eqn:E; [apply Z.eqb_eq in E; congruence | exact IH].
  Qed.

  Lemma insert_last : forall k v m, Forall (fun e => cmp_timeout k (fst e) = Gt) m ->
    tmap_insert k v m = m ++ [(k, v)].
  Proof.
    intros k v m H. induction H as [|[k' v'] m Hk Hr IH]; [reflexivity|].
    cbn [tmap_insert app]. cbn [fst] in Hk. rewrite Hk. rewrite IH. reflexivity.
  Qed.

  Lemma read_pairs_build : forall m acc,
    Forall (fun e => timeout_dom (fst e)) m ->
    read_pairs sig_ok (map (fun e => DMsg (build_timeout (fst e))) m) (map (fun e => DMsg (build_bitvec (snd e))) m) acc
    = Ok (fold_left (fun a e => tmap_insert (fst e) (snd e) a) m acc).
  Proof.
    induction m as [|[k v] m IH]; intros acc H; [reflexivity|].
    inversion H as [|? ? Hk Hr]; subst. cbn [map read_pairs fst snd fold_left].
    rewrite roundtrip_timeout by assumption. cbn [bind]. rewrite roundtrip_bitvec. cbn [bind].
    apply IH. assumption.
  Qed.

  Lemma fold_insert_sorted : forall m acc, StronglySorted key_gt (acc ++ m) ->
    fold_left (fun a e => tmap_insert (fst e) (snd e) a) m acc = acc ++ m.
  Proof.
    induction m as [|[k v] m IH]; intros acc H; [rewrite app_nil_r; reflexivity|].
    cbn [fold_left fst snd]. rewrite insert_last.
    - rewrite IH; rewrite <- app_assoc; [reflexivity | exact H].
    - clear IH. induction acc as [|a acc IHa]; [constructor|].
      cbn [app] in H. inversion H as [|? ? Hs Hf]; subst.
      constructor; [|apply IHa; assumption].
      rewrite Forall_forall in Hf. specialize (Hf (k, v)).
      unfold key_gt in Hf. cbn [fst] in Hf. apply Hf. apply in_or_app. right. left. reflexivity.
  Qed.

  Lemma get_all_build_qc : forall v m g,
    let d := build_timeout_qc {| tq_view := v; tq_map := m; tq_sig := g |} in
    get_all 1 d = [DMsg (build_view v)] /\
    get_all 2 d = map (fun e => DMsg (build_timeout (fst e))) m /\
    get_all 3 d = map (fun e => DMsg (build_bitvec (snd e))) m /\
    get_all 4 d = [DMsg (build_sig g)].
  Proof.
    intros v m g. unfold build_timeout_qc. cbn [tq_view tq_map tq_sig]. cbv zeta.
    repeat split; rewrite !get_all_app.
    - rewrite (get_all_map_other _ 1 2), (get_all_map_other _ 1 3) by lia. reflexivity.
    - rewrite (get_all_map_same _ 2), (get_all_map_other _ 2 3) by lia.
      change (get_all 2 [(1, DMsg (build_view v))]) with (@nil dval).
      change (get_all 2 [(4, DMsg (build_sig g))]) with (@nil dval).
      cbn [app]. rewrite app_nil_r. reflexivity.
    - rewrite (get_all_map_same _ 3), (get_all_map_other _ 3 2) by lia.
      change (get_all 3 [(1, DMsg (build_view v))]) with (@nil dval).
      change (get_all 3 [(4, DMsg (build_sig g))]) with (@nil dval).
      cbn [app]. rewrite app_nil_r. reflexivity.
    - rewrite (get_all_map_other _ 4 2), (get_all_map_other _ 4 3) by lia. reflexivity.
  Qed.

  Theorem roundtrip_timeout_qc : forall q, timeout_qc_dom q ->
    read_timeout_qc sig_ok (build_timeout_qc q) = Ok q.
  Proof.
    intros [v m g] [Hv [Hs [Hm Hg]]]. cbn [tq_view tq_map tq_sig] in *.
    destruct (get_all_build_qc v m g) as [G1 [G2 [G3 G4]]]. cbv zeta in G1, G2, G3, G4.
    unfold read_timeout_qc, req_msg, get1. rewrite G1, G2, G3, G4.
    rewrite read_pairs_build by assumption. cbn [bind].
    rewrite (fold_insert_sorted m []) by exact Hs. cbn [app map last bind].
    rewrite roundtrip_view by assumption. cbn [bind].
    rewrite roundtrip_sig by assumption. reflexivity.
  Qed.
End Typed.

(* ---- insertion order of a sorted map is irrelevant (any strict total order on keys) ---- *)
Section InsertOrder.
  Variables K V : Type.
  Variable cmp : K -> K -> comparison.
  Hypothesis cmp_antisym : forall a b, cmp b a = CompOpp (cmp a b).
  Hypothesis cmp_trans_lt : forall a b c, cmp a b = Lt -> cmp b c = Lt -> cmp a c = Lt.
  Hypothesis cmp_eq : forall a b, cmp a b = Eq -> a = b.

  (* BTreeMap::insert on an association list sorted by key *)
  Fixpoint ins (k : K) (v : V) (m : list (K * V)) : list (K * V) :=
    match m with
    | [] => [(k, v)]
    | (k', v') :: r =>
        match cmp k k' with
        | Lt => (k, v) :: m
        | Eq => (k', v) :: r
        | Gt => (k', v') :: ins k v r
        end
    end.

  Definition lt_all (k : K) (m : list (K * V)) : Prop := Forall (fun e => cmp k (fst e) = Lt) m.
  Inductive sorted : list (K * V) -> Prop :=
  | sorted_nil : sorted []
  | sorted_cons : forall k v m, lt_all k m -> sorted m -> sorted ((k, v) :: m).

  Lemma lt_all_trans : forall a b m, cmp a b = Lt -> lt_all b m -> lt_all a m.
  Proof.
    intros a b m Hab H. induction H as [|e m He Hr IH]; constructor; [|assumption].
    eapply cmp_trans_lt; eassumption.
  Qed.

  Lemma gt_lt : forall a b, cmp a b = Gt -> cmp b a = Lt.
  Proof. intros a b H. rewrite cmp_antisym, H. reflexivity. Qed.
  Lemma lt_gt : forall a b, cmp a b = Lt -> cmp b a = Gt.
  Proof. intros a b H. rewrite cmp_antisym, H. reflexivity. Qed.
  Lemma cmp_refl : forall a, cmp a a = Eq.
  Proof. intros a. pose proof (cmp_antisym a a) as H. destruct (cmp a a); cbn in H; congruence. Qed.

  Lemma lt_all_ins : forall a k v m, cmp a k = Lt -> lt_all a m -> lt_all a (ins k v m).
  Proof.
    intros a k v m Hak H. induction H as [|[k' v'] m He Hr IH]; cbn [ins].
    - constructor; [exact Hak | constructor].
    - destruct (cmp k k'); constructor; try assumption; try (constructor; assumption).
  Qed.

  Lemma ins_sorted : forall k v m, sorted m -> sorted (ins k v m).
  Proof.
    intros k v m H. induction H as [|k' v' m Hlt Hs IH]; cbn [ins].
    - constructor; constructor.
    - destruct (cmp k k') eqn:E.
      + constructor; assumption.
      + constructor; [|constructor; assumption].
        constructor; [exact E | eapply lt_all_trans; eassumption].
      + constructor; [|assumption]. apply lt_all_ins; [apply gt_lt; assumption | assumption].
  Qed.

  Ltac cmp_solve :=
    repeat (cbn [ins CompOpp];
            match goal with
            | H : cmp ?a ?b = _ |- context [cmp ?a ?b] => rewrite H
            end);
    try reflexivity.

  Lemma ins_comm : forall k1 v1 k2 v2 m, cmp k1 k2 <> Eq ->
    ins k1 v1 (ins k2 v2 m) = ins k2 v2 (ins k1 v1 m).
  Proof.
    intros k1 v1 k2 v2 m Hne. induction m as [|[k v] m IH].
    - cbn [ins]. rewrite (cmp_antisym k1 k2). destruct (cmp k1 k2); cbn [CompOpp]; try reflexivity. congruence.
    - destruct (cmp k2 k) eqn:E2; destruct (cmp k1 k) eqn:E1.
      + exfalso. apply Hne. apply cmp_eq in E1. apply cmp_eq in E2. subst. apply cmp_refl.
      + apply cmp_eq in E2. subst k2. pose proof (cmp_refl k) as R. pose proof (lt_gt _ _ E1) as G. cmp_solve.
      + apply cmp_eq in E2. subst k2. pose proof (cmp_refl k) as R. pose proof (gt_lt _ _ E1) as G. cmp_solve.
      + apply cmp_eq in E1. subst k1. pose proof (cmp_refl k) as R. pose proof (lt_gt _ _ E2) as G. cmp_solve.
      + destruct (cmp k1 k2) eqn:E; [congruence | pose proof (lt_gt _ _ E) as G | pose proof (gt_lt _ _ E) as G]; cmp_solve.
      + assert (E : cmp k2 k1 = Lt) by (eapply cmp_trans_lt; [exact E2 | apply gt_lt; exact E1]).
        pose proof (lt_gt _ _ E) as G. cmp_solve.
      + apply cmp_eq in E1. subst k1. pose proof (cmp_refl k) as R. pose proof (gt_lt _ _ E2) as G. cmp_solve.
      + assert (E : cmp k1 k2 = Lt) by (eapply cmp_trans_lt; [exact E1 | apply gt_lt; exact E2]).
        pose proof (lt_gt _ _ E) as G. cmp_solve.
      + cmp_solve. rewrite IH. reflexivity.
  Qed.

  Definition insf (a : list (K * V)) (e : K * V) : list (K * V) := ins (fst e) (snd e) a.
  Definition of_list (l : list (K * V)) : list (K * V) := fold_left insf l [].

  (* entries are pairwise identical or have different keys *)
  Definition pairwise (l : list (K * V)) : Prop :=
    forall a b, In a l -> In b l -> a = b \/ cmp (fst a) (fst b) <> Eq.

  Lemma fold_ins_perm : forall l l', Permutation l l' -> pairwise l ->
    forall acc, fold_left insf l acc = fold_left insf l' acc.
  Proof.
    intros l l' H. induction H as [|x l l' H IH|x y l|l1 l2 l3 H1 IH1 H2 IH2]; intros Hp acc.
    - reflexivity.
    - cbn [fold_left]. apply IH. intros a b Ha Hb. apply Hp; right; assumption.
    - cbn [fold_left]. f_equal. unfold insf.
      destruct (Hp x y) as [E|E]; [right; left; reflexivity | left; reflexivity | subst; reflexivity |].
      apply ins_comm. exact E.
    - rewrite IH1 by assumption. apply IH2.
      intros a b Ha Hb. apply Hp; eapply Permutation_in; try eassumption; apply Permutation_sym; assumption.
  Qed.

  Theorem map_insertion_order_irrelevant : forall l l', Permutation l l' -> pairwise l -> of_list l = of_list l'.
  Proof. intros l l' H Hp. apply fold_ins_perm; assumption. Qed.

  Theorem of_list_sorted : forall l, sorted (of_list l).
  Proof.
    intros l. unfold of_list. assert (H : sorted []) by constructor. revert H. generalize (@nil (K * V)).
    induction l as [|e l IH]; intros acc H; [assumption|]. cbn [fold_left]. apply IH. apply ins_sorted. assumption.
  Qed.
End InsertOrder.

(* the toy instance: the hypotheses are satisfiable (keys = Z with Z.compare) *)
Example insertion_order_Z :
  of_list Z Z Z.compare [(3, 30); (1, 10); (2, 20)] = of_list Z Z Z.compare [(2, 20); (3, 30); (1, 10)].
Proof. reflexivity. Qed.

(* the TimeoutQC map: the model's tmap_insert is [ins] for the transcribed Ord *)
Lemma tmap_insert_is_ins : forall k v m, tmap_insert k v m = ins _ _ cmp_timeout k v m.
Proof.
  intros k v m. induction m as [|[k' v'] m IH]; [reflexivity|]. cbn [tmap_insert ins].
  destruct (cmp_timeout k k'); try reflexivity; try (f_equal; exact IH).
Qed.

Lemma tmap_of_list_is_of_list : forall l, tmap_of_list l = of_list _ _ cmp_timeout l.
Proof. intros l. reflexivity. Qed.

(* ---- the transcribed derived Ord of ReplicaTimeout is a strict total order ---- *)
Definition ord_laws {A : Type} (c : A -> A -> comparison) : Prop :=
  (forall a b, c b a = CompOpp (c a b)) /\
  (forall a b x, c a b = Lt -> c b x = Lt -> c a x = Lt) /\
  (forall a b, c a b = Eq -> a = b).

Lemma ord_refl : forall (A : Type) (c : A -> A -> comparison), ord_laws c -> forall a, c a a = Eq.
Proof. intros A c [H _] a. pose proof (H a a) as E. destruct (c a a); cbn in E; congruence. Qed.

Definition cmp_pair {A B : Type} (ca : A -> A -> comparison) (cb : B -> B -> comparison) (x y : A * B) : comparison :=
  lex (ca (fst x) (fst y)) (cb (snd x) (snd y)).

Lemma ord_pair : forall (A B : Type) (ca : A -> A -> comparison) (cb : B -> B -> comparison),
  ord_laws ca -> ord_laws cb -> ord_laws (cmp_pair ca cb).
Proof.
  intros A B ca cb Ha Hb. pose proof (ord_refl _ _ Ha) as Ra.
  destruct Ha as [Sa [Ta Ea]]. destruct Hb as [Sb [Tb Eb]].
  unfold cmp_pair, lex. repeat split.
  - intros [a1 b1] [a2 b2]. cbn [fst snd]. rewrite (Sa a1 a2), (Sb b1 b2).
    destruct (ca a1 a2); reflexivity.
  - intros [a1 b1] [a2 b2] [a3 b3]. cbn [fst snd]. intros H1 H2.
    destruct (ca a1 a2) eqn:E1.
    + apply Ea in E1. subst a2. destruct (ca a1 a3) eqn:E2; try congruence. eapply Tb; eassumption.
    + destruct (ca a2 a3) eqn:E2; try discriminate.
      * apply Ea in E2. subst a3. rewrite E1. reflexivity.
      * rewrite (Ta _ _ _ E1 E2). reflexivity.
    + discriminate.
  - intros [a1 b1] [a2 b2]. cbn [fst snd]. intros H.
    destruct (ca a1 a2) eqn:E1; try discriminate. apply Ea in E1. apply Eb in H. subst. reflexivity.
Qed.

Lemma ord_inj : forall (A B : Type) (c : B -> B -> comparison) (t : A -> B),
  ord_laws c -> (forall a b, t a = t b -> a = b) -> ord_laws (fun a b => c (t a) (t b)).
Proof.
  intros A B c t [S [T E]] Hinj. repeat split.
  - intros a b. apply S.
  - intros a b x. apply T.
  - intros a b H. apply Hinj. apply E. exact H.
Qed.

Lemma ord_Z : ord_laws Z.compare.
Proof.
  repeat split.
  - intros a b. apply Z.compare_antisym.
  - intros a b x H1 H2. rewrite Z.compare_lt_iff in *. lia.
  - intros a b. apply Z.compare_eq.
Qed.

Lemma ord_bool : ord_laws cmp_bool.
Proof.
  repeat split.
  - intros [] []; reflexivity.
  - intros [] [] []; cbn; congruence.
  - intros [] []; cbn; congruence.
Qed.

Fixpoint cmp_list {A : Type} (c : A -> A -> comparison) (a b : list A) : comparison :=
  match a, b with
  | [], [] => Eq
  | [], _ => Lt
  | _, [] => Gt
  | x :: a', y :: b' => lex (c x y) (cmp_list c a' b')
  end.

Lemma ord_list : forall (A : Type) (c : A -> A -> comparison), ord_laws c -> ord_laws (cmp_list c).
Proof.
  intros A c Hc. pose proof (ord_refl _ _ Hc) as Rc. destruct Hc as [S [T E]]. repeat split.
  - induction a as [|x a IH]; destruct b as [|y b]; try reflexivity.
    cbn [cmp_list]. unfold lex. rewrite (S x y), (IH b). destruct (c x y); reflexivity.
  - induction a as [|x a IH]; intros [|y b] [|z l] H1 H2; cbn [cmp_list] in *; try discriminate; try reflexivity.
    unfold lex in *.
    destruct (c x y) eqn:E1.
    + apply E in E1. subst y. destruct (c x z); try congruence. eapply IH; eassumption.
    + destruct (c y z) eqn:E2; try discriminate.
      * apply E in E2. subst z. rewrite E1. reflexivity.
      * rewrite (T _ _ _ E1 E2). reflexivity.
    + discriminate.
  - induction a as [|x a IH]; intros [|y b] H; cbn [cmp_list] in H; try discriminate; try reflexivity.
    unfold lex in H. destruct (c x y) eqn:E1; try discriminate.
    apply E in E1. subst y. f_equal. apply IH. exact H.
Qed.

Lemma ord_opt : forall (A : Type) (c : A -> A -> comparison), ord_laws c -> ord_laws (cmp_opt c).
Proof.
  intros A c [S [T E]]. repeat split.
  - intros [a|] [b|]; cbn [cmp_opt]; try reflexivity. apply S.
  - intros [a|] [b|] [x|]; cbn [cmp_opt]; try discriminate; try reflexivity. apply T.
  - intros [a|] [b|]; cbn [cmp_opt]; try discriminate; try reflexivity. intros H. f_equal. apply E. exact H.
Qed.

Lemma ord_ext : forall (A : Type) (c c' : A -> A -> comparison),
  (forall a b, c a b = c' a b) -> ord_laws c' -> ord_laws c.
Proof.
  intros A c c' H [S [T E]]. repeat split.
  - intros a b. rewrite !H. apply S.
  - intros a b x. rewrite !H. apply T.
  - intros a b. rewrite H. apply E.
Qed.

Lemma ord_bytes : ord_laws cmp_bytes.
Proof.
  apply (ord_ext _ _ (cmp_list Z.compare)); [|exact (ord_list Z Z.compare ord_Z)].
  induction a as [|x a IH]; destruct b as [|y b]; try reflexivity. cbn [cmp_bytes cmp_list]. rewrite IH. reflexivity.
Qed.
Lemma ord_bits : ord_laws cmp_bits.
Proof.
  apply (ord_ext _ _ (cmp_list cmp_bool)); [|exact (ord_list bool cmp_bool ord_bool)].
  induction a as [|x a IH]; destruct b as [|y b]; try reflexivity. cbn [cmp_bits cmp_list]. rewrite IH. reflexivity.
Qed.

Lemma ord_view : ord_laws cmp_view.
Proof.
  apply (ord_inj View _ (cmp_pair cmp_bytes (cmp_pair Z.compare Z.compare))
           (fun v => (v_genesis v, (v_epoch v, v_number v)))).
  - apply ord_pair; [exact ord_bytes | apply ord_pair; exact ord_Z].
  - intros [g1 n1 e1] [g2 n2 e2] H. cbn in H. inversion H; subst. reflexivity.
Qed.

Lemma ord_header : ord_laws cmp_header.
Proof.
  apply (ord_inj BlockHeader _ (cmp_pair Z.compare cmp_bytes) (fun h => (bh_number h, bh_payload h))).
  - apply ord_pair; [exact ord_Z | exact ord_bytes].
  - intros [n1 p1] [n2 p2] H. cbn in H. inversion H; subst. reflexivity.
Qed.

Lemma ord_commit : ord_laws cmp_commit.
Proof.
  apply (ord_inj ReplicaCommit _ (cmp_pair cmp_view cmp_header) (fun c => (rc_view c, rc_proposal c))).
  - apply ord_pair; [exact ord_view | exact ord_header].
  - intros [v1 p1] [v2 p2] H. cbn in H. inversion H; subst. reflexivity.
Qed.

Lemma ord_commit_qc : ord_laws cmp_commit_qc.
Proof.
  apply (ord_inj CommitQC _ (cmp_pair cmp_commit (cmp_pair cmp_bits cmp_bytes))
           (fun q => (cq_msg q, (cq_signers q, cq_sig q)))).
  - apply ord_pair; [exact ord_commit | apply ord_pair; [exact ord_bits | exact ord_bytes]].
  - intros [m1 s1 g1] [m2 s2 g2] H. cbn in H. inversion H; subst. reflexivity.
Qed.

Theorem ord_timeout : ord_laws cmp_timeout.
Proof.
  apply (ord_inj ReplicaTimeout _ (cmp_pair cmp_view (cmp_pair (cmp_opt cmp_commit) (cmp_opt cmp_commit_qc)))
           (fun t => (rt_view t, (rt_high_vote t, rt_high_qc t)))).
  - apply ord_pair; [exact ord_view | apply ord_pair; apply ord_opt; [exact ord_commit | exact ord_commit_qc]].
  - intros [v1 a1 b1] [v2 a2 b2] H. cbn in H. inversion H; subst. reflexivity.
Qed.

Theorem timeoutqc_insertion_order_irrelevant : forall l l',
  Permutation l l' -> pairwise _ _ cmp_timeout l -> tmap_of_list l = tmap_of_list l'.
Proof.
  intros l l' Hp Hd. rewrite !tmap_of_list_is_of_list.
  destruct ord_timeout as [S [T E]].
  apply map_insertion_order_irrelevant; assumption.
Qed.

(* the map built from any list of entries satisfies the BTreeMap invariant *)
Theorem tmap_of_list_sorted : forall l, sorted _ _ cmp_timeout (tmap_of_list l).
Proof.
  intros l. rewrite tmap_of_list_is_of_list. destruct ord_timeout as [S [T E]].
  apply of_list_sorted; assumption.
Qed.
