From Coq Require Import ZArith List Lia Bool.
From EC Require Import Lib.ListW.
Import ListNotations.
Open Scope Z_scope.

Lemma weight_nonneg ws : all_pos ws -> forall bm, 0 <= weight ws bm.
Proof.
  induction 1 as [|w ws Hw _ IH]; intros bm; destruct bm as [|b bm]; cbn [weight]; try lia.
  specialize (IH bm). destruct b; lia.
Qed.

Lemma total_nonneg ws : all_pos ws -> 0 <= total ws.
Proof. induction 1; cbn [total]; lia. Qed.

Lemma weight_le_total ws : all_pos ws -> forall bm, weight ws bm <= total ws.
Proof.
  induction 1 as [|w ws Hw Hall IH]; intros bm; destruct bm as [|b bm]; cbn [weight total]; try lia.
  - pose proof (total_nonneg ws Hall). lia.
  - specialize (IH bm). destruct b; lia.
Qed.

Lemma weight_and_or ws : forall a b, length a = length ws -> length b = length ws ->
  weight ws (band a b) + weight ws (bor a b) = weight ws a + weight ws b.
Proof.
  induction ws as [|w ws IH]; intros a b Ha Hb; destruct a as [|x a]; destruct b as [|y b];
    cbn in *; try lia.
  specialize (IH a b ltac:(lia) ltac:(lia)). destruct x, y; cbn; lia.
Qed.

Lemma weight_not ws : forall a, length a = length ws ->
  weight ws (bnot a) = total ws - weight ws a.
Proof.
  induction ws as [|w ws IH]; intros a Ha; destruct a as [|x a]; cbn in *; try lia.
  specialize (IH a ltac:(lia)). unfold bnot in IH. destruct x; cbn; lia.
Qed.

Lemma band_length a : forall b, length a = length b -> length (band a b) = length a.
Proof. induction a as [|x a IH]; intros [|y b] H; cbn in *; try lia. rewrite IH; lia. Qed.
Lemma bor_length a : forall b, length a = length b -> length (bor a b) = length a.
Proof. induction a as [|x a IH]; intros [|y b] H; cbn in *; try lia. rewrite IH; lia. Qed.
Lemma bnot_length a : length (bnot a) = length a.
Proof. apply map_length. Qed.

Lemma weight_or_le ws : all_pos ws -> forall a b, length a = length ws -> length b = length ws ->
  weight ws (bor a b) <= weight ws a + weight ws b.
Proof.
  intros Hp a b Ha Hb. pose proof (weight_and_or ws a b Ha Hb).
  pose proof (weight_nonneg ws Hp (band a b)). lia.
Qed.

(* Two bitmaps of weight >= q overlap in weight >= 2q - n. *)
Lemma weight_inter_ge ws : all_pos ws -> forall a b q, length a = length ws -> length b = length ws ->
  q <= weight ws a -> q <= weight ws b -> 2 * q - total ws <= weight ws (band a b).
Proof.
  intros Hp a b q Ha Hb Hqa Hqb. pose proof (weight_and_or ws a b Ha Hb).
  pose proof (weight_le_total ws Hp (bor a b)). lia.
Qed.
