(* Proofs about Model/Fetcher.v (run_block_fetcher): one live request per number, the window
   [persisted.next, persisted.next + limit), nothing requested that is already queued (at rest). *)
From Coq Require Import ZArith List Bool Arith Lia FinFun.
From EC Require Import Lib.Obs Model.Fetcher.
Import ListNotations.
Open Scope Z_scope.

Definition tnums (s : fstate) : list Z := map fst (f_tasks s).

(* ---------- task list facts ---------- *)
Lemma tphase_in : forall n l ph, tphase n l = Some ph -> In (n, ph) l.
Proof.
  intros n l ph. induction l as [|[k x] l IH]; cbn [tphase]; [discriminate|].
  destruct (Z.eqb_spec k n) as [->|]; intros H; [injection H as ->; left; reflexivity|right; auto].
Qed.

Lemma tphase_in_nums : forall n l ph, tphase n l = Some ph -> In n (map fst l).
Proof. intros n l ph H. apply tphase_in in H. apply (in_map fst) in H. exact H. Qed.

Lemma tphase_none : forall n l, tphase n l = None <-> ~ In n (map fst l).
Proof.
  intros n l. induction l as [|[k x] l IH]; cbn [tphase map fst In]; [tauto|].
  destruct (Z.eqb_spec k n) as [->|]; [split; [discriminate|tauto]|]. rewrite IH. tauto.
Qed.

Lemma tset_nums : forall n ph l, map fst (tset n ph l) = map fst l.
Proof.
  intros n ph l. induction l as [|[k x] l IH]; cbn [tset map fst]; [reflexivity|].
  destruct (k =? n); cbn [map fst]; [reflexivity|rewrite IH; reflexivity].
Qed.

Lemma tset_length : forall n ph l, length (tset n ph l) = length l.
Proof. intros. rewrite <- (map_length fst), tset_nums, map_length. reflexivity. Qed.

Lemma tphase_tset : forall m n ph l,
  tphase m (tset n ph l) =
  if m =? n then match tphase n l with Some _ => Some ph | None => None end else tphase m l.
Proof.
  intros m n ph l. induction l as [|[k x] l IH]; cbn [tset tphase].
  - destruct (m =? n); reflexivity.
  - destruct (Z.eqb_spec k n) as [->|Hkn]; cbn [tphase].
    + destruct (Z.eqb_spec n m) as [->|]; [rewrite Z.eqb_refl; reflexivity|].
      destruct (Z.eqb_spec m n); [congruence|reflexivity].
    + destruct (Z.eqb_spec k m) as [->|].
      * destruct (Z.eqb_spec m n); [congruence|reflexivity].
      * exact IH.
Qed.

Lemma tremove_in : forall n l k, NoDup (map fst l) ->
  (In k (map fst (tremove n l)) <-> In k (map fst l) /\ k <> n).
Proof.
  intros n l k. induction l as [|[k0 x] l IH]; cbn [tremove map fst In]; intros Hnd; [tauto|].
  inversion Hnd as [|? ? Hnin Hnd']; subst.
  destruct (Z.eqb_spec k0 n) as [->|Hne].
  - split; [intros H; split; [tauto|intros ->; contradiction]|intros [[->|H] Hn]; [congruence|exact H]].
  - cbn [map fst In]. rewrite (IH Hnd'). split; [intros [<-|H]; tauto|tauto].
Qed.

Lemma tremove_nodup : forall n l, NoDup (map fst l) -> NoDup (map fst (tremove n l)).
Proof.
  intros n l. induction l as [|[k0 x] l IH]; cbn [tremove map fst]; intros Hnd; [constructor|].
  inversion Hnd as [|? ? Hnin Hnd']; subst. destruct (k0 =? n); [exact Hnd'|].
  cbn [map fst]. constructor; [|auto]. intros C. apply (tremove_in n l k0 Hnd') in C. tauto.
Qed.

Lemma tremove_length : forall n l, (length (tremove n l) <= length l)%nat.
Proof.
  intros n l. induction l as [|[k0 x] l IH]; cbn [tremove length]; [lia|].
  destruct (k0 =? n); cbn [length]; lia.
Qed.

Lemma tphase_tremove : forall m n l, NoDup (map fst l) ->
  tphase m (tremove n l) = if m =? n then None else tphase m l.
Proof.
  intros m n l. induction l as [|[k x] l IH]; cbn [tremove tphase map fst]; intros Hnd.
  - destruct (m =? n); reflexivity.
  - inversion Hnd as [|? ? Hnin Hnd']; subst. destruct (Z.eqb_spec k n) as [->|Hkn].
    + destruct (Z.eqb_spec m n) as [->|Hmn].
      * apply tphase_none. exact Hnin.
      * destruct (Z.eqb_spec n m); [congruence|reflexivity].
    + cbn [tphase]. destruct (Z.eqb_spec k m) as [->|].
      * destruct (Z.eqb_spec m n); [congruence|reflexivity].
      * exact (IH Hnd').
Qed.

Lemma tphase_app1 : forall n l k ph,
  tphase n (l ++ [(k, ph)]) =
  match tphase n l with Some x => Some x | None => if k =? n then Some ph else None end.
Proof.
  intros n l k ph. induction l as [|[k0 x] l IH]; cbn [app tphase]; [reflexivity|].
  destruct (k0 =? n); [reflexivity|exact IH].
Qed.

(* ---------- counting ---------- *)
Definition zrange (a : Z) (k : nat) : list Z := map (fun i => a + Z.of_nat i) (seq 0 k).

Lemma zrange_in : forall a k x, In x (zrange a k) <-> a <= x < a + Z.of_nat k.
Proof.
  intros a k x. unfold zrange. rewrite in_map_iff. split.
  - intros (i & <- & Hi). apply in_seq in Hi. lia.
  - intros H. exists (Z.to_nat (x - a)). split; [lia|]. apply in_seq. lia.
Qed.

Lemma zrange_nodup : forall a k, NoDup (zrange a k).
Proof.
  intros a k. unfold zrange. apply Injective_map_NoDup; [|apply seq_NoDup].
  intros i j H. lia.
Qed.

Lemma range_count : forall a b l, (forall x, a <= x < b -> In x l) -> b - a <= Z.of_nat (length l).
Proof.
  intros a b l H. destruct (Z_le_gt_dec b a); [lia|].
  assert (Hl : (length (zrange a (Z.to_nat (b - a))) <= length l)%nat).
  { apply NoDup_incl_length; [apply zrange_nodup|]. intros x Hx. apply H. apply zrange_in in Hx. lia. }
  unfold zrange in Hl. rewrite map_length, seq_length in Hl. lia.
Qed.

Lemma nodup_snoc : forall {A} (l : list A) x, NoDup l -> ~ In x l -> NoDup (l ++ [x]).
Proof.
  intros A l x. induction l as [|a l IH]; cbn [app]; intros Hnd Hx; [constructor; [intros []|constructor]|].
  inversion Hnd; subst. constructor.
  - intros C. apply in_app_or in C. destruct C as [C|[<-|[]]]; [contradiction|]. apply Hx. left; reflexivity.
  - apply IH; [assumption|]. intros C. apply Hx. right; exact C.
Qed.

(* ---------- invariant ---------- *)
Definition finv (s : fstate) : Prop :=
  NoDup (tnums s) /\
  (forall n, In n (tnums s) -> f_start s <= n < f_next s) /\
  (length (f_tasks s) <= f_limit s)%nat /\
  (forall n, f_start s <= n < f_next s -> f_pnext s <= n -> In n (tnums s)) /\
  (forall n, tphase n (f_tasks s) = Some PPersist -> n < f_qnext s) /\
  f_pnext s <= f_qnext s /\ f_start s <= f_qnext s /\ f_start s <= f_next s.

Definition freachable (limit : nat) (q0 p0 : Z) (s : fstate) : Prop :=
  p0 <= q0 /\ exists l, frun (finit limit q0 p0) l = Some s.

Lemma finv_init : forall limit q0 p0, p0 <= q0 -> finv (finit limit q0 p0).
Proof.
  intros. unfold finv, tnums; cbn. repeat split; try lia; try constructor; try contradiction; try discriminate.
Qed.

Ltac finv_step H :=
  unfold fstep in H;
  repeat match type of H with
  | (match ?x with _ => _ end) = Some _ => destruct x eqn:?; try discriminate H
  | (if ?x then _ else _) = Some _ => destruct x eqn:?; try discriminate H
  end;
  try (injection H as <-).

Lemma finv_step : forall s a s', finv s -> fstep s a = Some s' -> finv s'.
Proof.
  intros s a s' (Hnd & Hrng & Hlen & Hcov & Hper & Hpq & Hsq & Hsn) Hstep.
  destruct a; finv_step Hstep; unfold finv, tnums in *;
    cbn [f_limit f_start f_next f_tasks f_qnext f_pnext with_tasks].
  - (* FSpawn *)
    apply Nat.ltb_lt in Heqb. rewrite map_app, app_length. cbn [map fst length].
    split; [apply nodup_snoc; [exact Hnd|intros C; apply Hrng in C; lia]|].
    split; [intros n Hn; apply in_app_or in Hn; destruct Hn as [Hn|[<-|[]]]; [apply Hrng in Hn|]; lia|].
    split; [lia|].
    split.
    { intros n Hn Hp. apply in_or_app. destruct (Z.eq_dec n (f_next s)) as [->|]; [right; left; reflexivity|].
      left. apply Hcov; lia. }
    split.
    { intros n Hn. rewrite tphase_app1 in Hn. destruct (tphase n (f_tasks s)) eqn:E.
      - injection Hn as ->. apply Hper. exact E.
      - destruct (f_next s =? n); discriminate. }
    lia.
  - (* FQueued *)
    rewrite tset_nums, tset_length.
    split; [exact Hnd|]. split; [exact Hrng|]. split; [exact Hlen|]. split; [exact Hcov|].
    split; [|lia].
    intros m Hm. rewrite tphase_tset in Hm. destruct (Z.eqb_spec m n) as [E|E].
    + rewrite E. apply Z.ltb_lt. assumption.
    + apply Hper. exact Hm.
  - (* FDone *)
    apply Z.ltb_lt in Heqb.
    split; [apply tremove_nodup; exact Hnd|].
    split; [intros m Hm; apply (tremove_in n _ _ Hnd) in Hm; apply Hrng; tauto|].
    split; [pose proof (tremove_length n (f_tasks s)); lia|].
    split; [intros m Hm Hp; apply (tremove_in n _ _ Hnd); split; [apply Hcov; assumption|lia]|].
    split; [|lia].
    intros m Hm. rewrite (tphase_tremove _ _ _ Hnd) in Hm. destruct (m =? n); [discriminate|].
    apply Hper. exact Hm.
  - (* EQueue *)
    split; [exact Hnd|]. split; [exact Hrng|]. split; [exact Hlen|]. split; [exact Hcov|].
    split; [|lia]. intros n Hn. specialize (Hper n Hn). lia.
  - (* EPersist *)
    apply Z.ltb_lt in Heqb.
    split; [exact Hnd|]. split; [exact Hrng|]. split; [exact Hlen|].
    split; [intros n Hn Hp; apply Hcov; lia|]. split; [exact Hper|lia].
Qed.

Lemma finv_run : forall l s s', finv s -> frun s l = Some s' -> finv s'.
Proof.
  induction l as [|a l IH]; intros s s' Hi Hr; cbn [frun] in Hr; [injection Hr as <-; exact Hi|].
  destruct (fstep s a) as [s1|] eqn:E; [|discriminate]. eapply IH; [eapply finv_step; eassumption|exact Hr].
Qed.

Lemma freachable_inv : forall limit q0 p0 s, freachable limit q0 p0 s -> finv s.
Proof. intros limit q0 p0 s [Hp [l Hl]]. eapply finv_run; [apply finv_init; exact Hp|exact Hl]. Qed.

(* ---------- theorems ---------- *)
Lemma nodup_filter_fst : forall (f : Z * phase -> bool) l, NoDup (map fst l) -> NoDup (map fst (filter f l)).
Proof.
  intros f l. induction l as [|x l IH]; cbn [filter map]; intros H; [constructor|].
  inversion H as [|? ? Hnin Hnd]; subst. destruct (f x); cbn [map]; [|auto].
  constructor; [|auto]. intros C. apply Hnin. apply in_map_iff in C. destruct C as (y & Hy & Hin).
  apply filter_In in Hin. rewrite <- Hy. apply in_map. tauto.
Qed.

Lemma in_tphase : forall n ph l, NoDup (map fst l) -> In (n, ph) l -> tphase n l = Some ph.
Proof.
  intros n ph l. induction l as [|[k x] l IH]; cbn [tphase map fst In]; intros Hnd Hin; [contradiction|].
  inversion Hnd as [|? ? Hnin Hnd']; subst. destruct Hin as [E|Hin].
  - injection E as -> ->. rewrite Z.eqb_refl. reflexivity.
  - destruct (Z.eqb_spec k n) as [->|]; [|auto]. exfalso. apply Hnin. apply (in_map fst) in Hin. exact Hin.
Qed.

Lemma live_iff : forall s n, NoDup (tnums s) -> (In n (live s) <-> tphase n (f_tasks s) = Some PReq).
Proof.
  intros s n Hnd. unfold live. rewrite in_map_iff. split.
  - intros ([k ph] & <- & Hin). apply filter_In in Hin. destruct Hin as [Hin Hph]. cbn [snd fst] in *.
    destruct ph; [|discriminate]. apply in_tphase; assumption.
  - intros H. exists (n, PReq). split; [reflexivity|]. apply filter_In. split; [apply tphase_in; exact H|reflexivity].
Qed.

(* exactly one live request per number *)
Theorem one_live_request_per_number : forall s, finv s -> NoDup (live s).
Proof. intros s (Hnd & _). unfold live. apply nodup_filter_fst. exact Hnd. Qed.

(* the loop never runs ahead of the persisted head by more than the limit *)
Theorem fetcher_window : forall s, finv s ->
  f_next s <= Z.max (f_pnext s) (f_start s) + Z.of_nat (f_limit s).
Proof.
  intros s (Hnd & Hrng & Hlen & Hcov & _).
  pose proof (range_count (Z.max (f_pnext s) (f_start s)) (f_next s) (tnums s)) as H.
  unfold tnums in H at 2. rewrite map_length in H.
  assert (forall x, Z.max (f_pnext s) (f_start s) <= x < f_next s -> In x (tnums s)) by (intros x Hx; apply Hcov; lia).
  specialize (H H0). lia.
Qed.

Theorem live_in_window : forall s n, finv s -> In n (live s) ->
  f_start s <= n < Z.max (f_pnext s) (f_start s) + Z.of_nat (f_limit s).
Proof.
  intros s n Hi Hn. pose proof (fetcher_window s Hi). destruct Hi as (Hnd & Hrng & _).
  apply (live_iff s n Hnd) in Hn. apply tphase_in_nums in Hn. apply Hrng in Hn. lia.
Qed.

(* every number is requested at most once, in increasing order: the numbers spawned along any
   execution are consecutive *)
Fixpoint spawned (s : fstate) (l : list faction) : list Z :=
  match l with
  | [] => []
  | a :: l' =>
      match fstep s a with
      | Some s' => (match a with FSpawn => [f_next s] | _ => [] end) ++ spawned s' l'
      | None => []
      end
  end.

Lemma fstep_next : forall s a s', fstep s a = Some s' ->
  f_next s' = match a with FSpawn => f_next s + 1 | _ => f_next s end.
Proof. intros s a s' H. destruct a; finv_step H; reflexivity. Qed.

Theorem spawned_consecutive : forall l s s', frun s l = Some s' ->
  f_next s <= f_next s' /\ spawned s l = zrange (f_next s) (Z.to_nat (f_next s' - f_next s)).
Proof.
  induction l as [|a l IH]; intros s s' Hr; cbn [frun spawned] in *.
  - injection Hr as <-. rewrite Z.sub_diag. split; [lia|reflexivity].
  - destruct (fstep s a) as [s1|] eqn:E; [|discriminate]. destruct (IH _ _ Hr) as [Hle Hsp].
    pose proof (fstep_next _ _ _ E) as Hn. rewrite Hsp. destruct a; rewrite Hn in *; cbn [app]; try (split; [lia|reflexivity]).
    split; [lia|]. replace (Z.to_nat (f_next s' - f_next s)) with (S (Z.to_nat (f_next s' - (f_next s + 1)))) by lia.
    unfold zrange. cbn [seq map]. f_equal; [lia|]. rewrite <- seq_shift, map_map. apply map_ext. intros i. lia.
Qed.

(* a live request for a number that is already queued is being cancelled: FQueued is enabled *)
Theorem queued_number_request_is_cancelled : forall s n, finv s -> In n (live s) -> n < f_qnext s ->
  exists s', fstep s (FQueued n) = Some s' /\ ~ In n (live s').
Proof.
  intros s n Hi Hn Hq. destruct Hi as (Hnd & Hi). apply (live_iff s n Hnd) in Hn.
  eexists. split.
  - unfold fstep. rewrite Hn. apply Z.ltb_lt in Hq. rewrite Hq. reflexivity.
  - intros C. apply live_iff in C; cbn [f_tasks with_tasks tnums] in *.
    + rewrite tphase_tset, Z.eqb_refl, Hn in C. discriminate.
    + unfold tnums. cbn [f_tasks with_tasks]. rewrite tset_nums. exact Hnd.
Qed.

(* at rest (no fetcher move enabled) the live requests are exactly the numbers that are not yet
   queued inside the window of `limit` numbers above the persisted head *)
Definition fquiescent (s : fstate) : Prop :=
  fstep s FSpawn = None /\ (forall n, fstep s (FQueued n) = None) /\ (forall n, fstep s (FDone n) = None).

Lemma nodup_incl_range : forall l a b, NoDup l -> (forall x, In x l -> a <= x < b) -> Z.of_nat (length l) <= Z.max 0 (b - a).
Proof.
  intros l a b Hnd H. destruct (Z_le_gt_dec b a).
  - destruct l as [|x l]; [cbn; lia|]. specialize (H x (or_introl eq_refl)). lia.
  - assert (Hl : (length l <= length (zrange a (Z.to_nat (b - a))))%nat).
    { apply NoDup_incl_length; [exact Hnd|]. intros x Hx. apply zrange_in. specialize (H x Hx). lia. }
    unfold zrange in Hl. rewrite map_length, seq_length in Hl. lia.
Qed.

Theorem quiescent_requests_exact : forall s, finv s -> fquiescent s -> (0 < f_limit s)%nat ->
  f_next s = Z.max (f_pnext s) (f_start s) + Z.of_nat (f_limit s) /\
  forall n, In n (live s) <-> f_qnext s <= n < f_next s.
Proof.
  intros s Hi (Hsp & Hq & Hd) Hpos. pose proof (fetcher_window s Hi) as Hwin.
  destruct Hi as (Hnd & Hrng & Hlen & Hcov & Hper & Hpq & Hsq & Hsn).
  assert (Hfull : length (f_tasks s) = f_limit s).
  { unfold fstep in Hsp. destruct (Nat.ltb_spec (length (f_tasks s)) (f_limit s)); [discriminate|lia]. }
  assert (Hlow : forall n, In n (tnums s) -> f_pnext s <= n).
  { intros n Hn. destruct (Z_le_gt_dec (f_pnext s) n); [assumption|exfalso].
    destruct (tphase n (f_tasks s)) as [[|]|] eqn:E.
    - specialize (Hq n). unfold fstep in Hq. rewrite E in Hq.
      destruct (Z.ltb_spec n (f_qnext s)); [discriminate|lia].
    - specialize (Hd n). unfold fstep in Hd. rewrite E in Hd.
      destruct (Z.ltb_spec n (f_pnext s)); [discriminate|lia].
    - apply tphase_none in E. contradiction. }
  assert (Hcnt : Z.of_nat (length (tnums s)) <= Z.max 0 (f_next s - Z.max (f_pnext s) (f_start s))).
  { apply nodup_incl_range; [exact Hnd|]. intros x Hx. specialize (Hlow x Hx). specialize (Hrng x Hx). lia. }
  unfold tnums in Hcnt. rewrite map_length, Hfull in Hcnt.
  split; [lia|].
  intros n. rewrite (live_iff s n Hnd). split.
  - intros E. pose proof (tphase_in_nums _ _ _ E) as Hin. specialize (Hrng n Hin).
    specialize (Hq n). unfold fstep in Hq. rewrite E in Hq.
    destruct (Z.ltb_spec n (f_qnext s)); [discriminate|lia].
  - intros Hn. assert (Hin : In n (tnums s)) by (apply Hcov; lia).
    destruct (tphase n (f_tasks s)) as [[|]|] eqn:E; [reflexivity| |].
    + specialize (Hper n E). lia.
    + apply tphase_none in E. contradiction.
Qed.

(* ---------- the simulation used by the correspondence only takes fetcher steps ---------- *)
Ltac fstep_witness H :=
  cbv zeta in H;
  repeat match type of H with
  | (if ?x then _ else _) = Some _ => destruct x eqn:?
  | (match ?x with _ => _ end) = Some _ => destruct x eqn:?; try discriminate H
  end; injection H as <-; cbn [fs upd_fs]; eauto.

Theorem sim_step_is_fstep : forall s s', sim_step s = Some s' -> exists a, fstep (fs s) a = Some (fs s').
Proof.
  intros s s' H. unfold sim_step in H. destruct (step_mgr s) as [s1|] eqn:E.
  - injection H as <-. unfold step_mgr in E. fstep_witness E.
  - unfold step_fetcher in H. fstep_witness H.
Qed.

Lemma find_task_none : forall f l, find_task f l = None -> forall t, In t l -> f t = false.
Proof.
  intros f l. induction l as [|x l IH]; cbn [find_task]; intros H t Ht; [contradiction|].
  destruct (f x) eqn:E; [discriminate|]. destruct Ht as [<-|Ht]; auto.
Qed.

Lemma find_task_some : forall f l n, find_task f l = Some n -> exists ph, In (n, ph) l /\ f (n, ph) = true.
Proof.
  intros f l n. induction l as [|[k x] l IH]; cbn [find_task]; intros H; [discriminate|].
  destruct (f (k, x)) eqn:E.
  - injection H as <-. exists x. split; [left; reflexivity|exact E].
  - destruct (IH H) as (ph & Hin & Hf). exists ph. split; [right; exact Hin|exact Hf].
Qed.

(* when the simulation stops, no fetcher move is enabled *)
Theorem sim_rest_is_quiescent : forall s, finv (fs s) -> sim_step s = None -> fquiescent (fs s).
Proof.
  intros s (Hnd & _) H. unfold sim_step in H. destruct (step_mgr s); [discriminate|].
  unfold step_fetcher in H. cbv zeta in H.
  destruct (find_task _ _) as [n1|] eqn:F1.
  { exfalso. destruct (find_task_some _ _ _ F1) as (ph & Hin & Hf). cbn [fst snd] in Hf.
    apply andb_true_iff in Hf. destruct Hf as [Hph Hlt]. destruct ph; [|discriminate].
    unfold fstep in H. rewrite (in_tphase _ _ _ Hnd Hin), Hlt in H. discriminate. }
  destruct (find_task (fun t => phase_eqb (snd t) PPersist && (fst t <? f_pnext (fs s))) _) as [n2|] eqn:F2.
  { exfalso. destruct (find_task_some _ _ _ F2) as (ph & Hin & Hf). cbn [fst snd] in Hf.
    apply andb_true_iff in Hf. destruct Hf as [Hph Hlt]. destruct ph; [discriminate|].
    unfold fstep in H. rewrite (in_tphase _ _ _ Hnd Hin), Hlt in H. unfold upd_fs in H. discriminate. }
  split; [|split].
  - destruct (fstep (fs s) FSpawn); [discriminate|reflexivity].
  - intros n. unfold fstep. destruct (tphase n (f_tasks (fs s))) as [[|]|] eqn:E; try reflexivity.
    pose proof (find_task_none _ _ F1 _ (tphase_in _ _ _ E)) as Hf. cbn [fst snd phase_eqb andb] in Hf.
    rewrite Hf. reflexivity.
  - intros n. unfold fstep. destruct (tphase n (f_tasks (fs s))) as [[|]|] eqn:E; try reflexivity.
    pose proof (find_task_none _ _ F2 _ (tphase_in _ _ _ E)) as Hf. cbn [fst snd phase_eqb andb] in Hf.
    rewrite Hf. reflexivity.
Qed.

Lemma settle_finv : forall fuel s s' b, finv (fs s) -> settle fuel s = (s', b) -> finv (fs s').
Proof.
  induction fuel as [|fuel IH]; intros s s' b Hi H; cbn [settle] in H; [injection H as <- _; exact Hi|].
  destruct (sim_step s) as [s1|] eqn:E; [|injection H as <- _; exact Hi].
  destruct (sim_step_is_fstep _ _ E) as [a Ha]. eapply IH; [eapply finv_step; eassumption|exact H].
Qed.

Lemma settle_quiescent : forall fuel s s', finv (fs s) -> settle fuel s = (s', true) -> fquiescent (fs s').
Proof.
  induction fuel as [|fuel IH]; intros s s' Hi H; cbn [settle] in H; [discriminate|].
  destruct (sim_step s) as [s1|] eqn:E.
  - destruct (sim_step_is_fstep _ _ E) as [a Ha]. eapply IH; [eapply finv_step; eassumption|exact H].
  - injection H as <-. apply sim_rest_is_quiescent; assumption.
Qed.
