(* Layer A of the safety argument, part 3 (DESIGN.md Appendix A): possible quorums, the
   invariants I1, I2, I3 of the abstract vote-history system, proved inductive over all
   reachable states, and the consequences (certificate uniqueness and monotonicity,
   re-proposal after a possible commit, no equivocation, no vote at or below a timeout). *)
From Coq Require Import ZArith List Bool Lia Arith.
From EC Require Import Model.SafetyAbs Proofs.SafetyAbsLib Proofs.SafetyAbsLocal.
Import ListNotations.
Open Scope Z_scope.
Ltac Zify.zify_post_hook ::= Z.div_mod_to_equations.

Lemma block_eq_dec (a b : block) : {a = b} + {a <> b}.
Proof. decide equality; apply Z.eq_dec. Qed.

Section Safety.
  Variable weights : list Z.
  Variable byz : nat -> bool.
  Variable first_block : Z.
  Hypothesis Hok : committee_ok weights byz.

  Notation wsum := (wsum weights).
  Notation member := (member weights).
  Notation honest := (honest weights byz).
  Notation n_total := (n_total weights).
  Notation f_max := (f_max weights).
  Notation q_thr := (q_thr weights).
  Notation s_thr := (s_thr weights).
  Notation valid_cqc := (valid_cqc weights byz).
  Notation valid_tqc := (valid_tqc weights byz).
  Notation valid_just := (valid_just weights byz).
  Notation step := (step weights byz first_block).
  Notation reachable := (reachable weights byz first_block).
  Notation is_implied := (is_implied weights first_block).
  Notation is_high_vote := (is_high_vote weights).
  Notation subquorum_block := (subquorum_block weights).
  Notation implied_of := (implied_of first_block).
  Notation linv := (linv weights byz first_block).

  (* ---------------- possible quorums ---------------- *)
  Definition PQ (st : astate) (v : Z) (b : block) (Q : list nat) : Prop :=
    NoDup Q /\ Forall member Q /\ q_thr <= wsum Q /\
    forall i, In i Q -> honest i ->
      (exists cq, In {| v_who := i; v_view := v; v_block := b; v_cq := cq |} (votes st)) \/
      pos_lt (cur st i) (v, Commit).

  (* I1 *)
  Definition I1 (st : astate) : Prop :=
    forall v b Q vt, PQ st v b Q -> In vt (votes st) -> v < v_view vt ->
      bnum b < bnum (v_block vt) \/ v_block vt = b.

  (* I2 *)
  Definition I2 (st : astate) : Prop :=
    forall c c', valid_cqc st c -> valid_cqc st c' -> aq_view c <= aq_view c' ->
      bnum (aq_block c) <= bnum (aq_block c') /\
      (aq_view c = aq_view c' -> aq_block c = aq_block c').

  (* I3 as in the appendix *)
  Definition I3 (st : astate) : Prop :=
    forall v b Q vt, PQ st v b Q -> In vt (votes st) -> In (v_who vt) Q -> honest (v_who vt) ->
      v < v_view vt -> bnum b < bnum (v_block vt) ->
      exists c, v_cq vt = Some c /\ bnum b <= bnum (aq_block c).

  (* the form that is proved inductive: it holds for every voter, member of Q or not *)
  Definition I3s (st : astate) : Prop :=
    forall v b Q vt, PQ st v b Q -> In vt (votes st) ->
      v < v_view vt -> bnum b < bnum (v_block vt) ->
      exists c, v_cq vt = Some c /\ bnum b <= bnum (aq_block c).

  Lemma I3s_I3 st : I3s st -> I3 st.
  Proof. intros H v b Q vt HPQ Hin _ _. apply (H v b Q vt HPQ Hin). Qed.

  (* a valid commit certificate is a possible quorum *)
  Lemma valid_is_PQ st c : valid_cqc st c -> PQ st (aq_view c) (aq_block c) (aq_signers c).
  Proof.
    intros [H1 [H2 [H3 H4]]]. split; [|split; [|split]]; auto.
  Qed.

  (* steps only destroy possible quorums *)
  Lemma PQ_step_back st st' v b Q : step st st' -> PQ st' v b Q -> PQ st v b Q.
  Proof.
    intros Hs [H1 [H2 [H3 H4]]]. split; [|split; [|split]]; auto.
    intros i Hi Hh. destruct (H4 i Hi Hh) as [[cq Hin]|Hlt].
    - destruct Hs; cbn [votes] in Hin; try (left; exists cq; exact Hin).
      destruct Hin as [E|Hin]; [|left; exists cq; exact Hin].
      inversion E; subst. right. assumption.
    - right. eapply pos_le_lt_trans; [|exact Hlt].
      apply (step_cur_mono weights byz first_block _ _ Hs).
  Qed.

  (* ---------------- I2 (generalised to a possible quorum on the left) ---------------- *)
  Lemma pq_vs_cert st v b0 Q c :
    linv st -> I1 st -> PQ st v b0 Q -> valid_cqc st c -> v <= aq_view c ->
    bnum b0 <= bnum (aq_block c) /\ (v = aq_view c -> aq_block c = b0).
  Proof.
    intros L HI1 HPQ Hval Hle. destruct (Z.eq_dec v (aq_view c)) as [E|NE].
    - destruct HPQ as [Q1 [Q2 [Q3 Q4]]]. destruct Hval as [V1 [V2 [V3 V4]]].
      destruct (quorums_share_honest weights byz Hok Q (aq_signers c) Q1 Q2 Q3 V1 V2 V3)
        as [i [HiQ [HiS Hh]]].
      destruct (V4 i HiS Hh) as [cq Hin].
      destruct (Q4 i HiQ Hh) as [[cq0 Hin0]|Hlt].
      + pose proof (li_l1 _ _ _ _ L _ _ Hin Hin0 eq_refl (eq_sym E)) as Heq.
        apply (f_equal v_block) in Heq. cbn [v_block] in Heq.
        split; [rewrite Heq; lia|auto].
      + exfalso. pose proof (li_vcur _ _ _ _ L _ Hin) as Hc. cbn [v_who v_view] in Hc.
        rewrite <- E in Hc. exact (vote_not_before _ _ Hc Hlt).
    - destruct (valid_cqc_honest_vote weights byz Hok st c Hval) as [i [cq [_ [_ Hin]]]].
      assert (Hlt : v < aq_view c) by lia.
      destruct (HI1 v b0 Q _ HPQ Hin Hlt) as [H|H]; cbn [v_block] in H.
      + split; [lia|intros; lia].
      + split; [rewrite H; lia|intros; lia].
  Qed.

  Lemma I2_of st : linv st -> I1 st -> I2 st.
  Proof.
    intros L HI1 c c' Hc Hc' Hle.
    destruct (pq_vs_cert st _ _ _ c' L HI1 (valid_is_PQ st c Hc) Hc' Hle) as [H1 H2].
    split; auto. intros E. symmetry. auto.
  Qed.

  (* ---------------- the counting argument ---------------- *)
  (* what an honest member of a possible quorum reports in a later timeout certificate *)
  Lemma member_report st v b0 Q t i r :
    linv st -> I1 st -> I3s st -> PQ st v b0 Q -> valid_tqc st t -> v <= at_view t ->
    In i Q -> honest i -> In (i, r) (at_entries t) ->
    exists u b', ar_hv r = Some (u, b') /\ v <= u <= at_view t /\
      (b' = b0 \/ bnum b0 < bnum b') /\
      (bnum b0 < bnum b' ->
         exists c, ar_hq r = Some c /\ valid_cqc st c /\ bnum b0 <= bnum (aq_block c)).
  Proof.
    intros L HI1 HI3 HPQ Hval Hv HiQ Hh Hin.
    pose proof HPQ as [Q1 [Q2 [Q3 Q4]]]. destruct Hval as [V1 [V2 [V3 [V4 V5]]]].
    pose proof (V4 i r Hin Hh) as Htm.
    pose proof (li_tcur _ _ _ _ L _ Htm) as Hc. cbn [t_who t_view] in Hc.
    destruct (Q4 i HiQ Hh) as [[cq0 Hin0]|Hlt];
      [|exfalso; exact (timeout_not_before _ _ _ Hc Hv Hlt)].
    pose proof (li_thv _ _ _ _ L _ Htm) as Hthv. unfold tmo_hv_ok in Hthv.
    cbn [t_report t_who t_view] in Hthv.
    destruct (ar_hv r) as [[u b']|] eqn:Ehv.
    2: { specialize (Hthv _ Hin0 eq_refl). cbn [v_view] in Hthv. lia. }
    destruct Hthv as [Hu [[cq' Hin'] Hmax]].
    pose proof (Hmax _ Hin0 eq_refl Hv) as Hvu. cbn [v_view] in Hvu.
    exists u, b'. split; [reflexivity|]. split; [lia|].
    destruct (Z.eq_dec u v) as [E|NE].
    - subst u. pose proof (li_l1 _ _ _ _ L _ _ Hin' Hin0 eq_refl eq_refl) as Heq.
      apply (f_equal v_block) in Heq. cbn [v_block] in Heq. subst b'.
      split; [left; reflexivity|]. intros; lia.
    - assert (Hlt : v < u) by lia.
      destruct (HI1 v b0 Q _ HPQ Hin' Hlt) as [H|H]; cbn [v_block] in H.
      + split; [right; exact H|]. intros _.
        destruct (HI3 v b0 Q _ HPQ Hin' Hlt H) as [c0 [Hc0 Hn0]]. cbn [v_cq] in Hc0. subst cq'.
        destruct (li_vcq _ _ _ _ L _ c0 Hin' eq_refl) as [Hval0 _].
        destruct (li_thq _ _ _ _ L _ Htm) as [Hqv Hqm]. cbn [t_report t_who t_view] in Hqv, Hqm.
        destruct (Hqm _ c0 Hin' eq_refl Hu eq_refl) as [c' [Hr Hle]].
        exists c'. split; [exact Hr|]. split; [apply Hqv; exact Hr|].
        destruct (I2_of st L HI1 c0 c' Hval0 (Hqv _ Hr) Hle) as [Hb _]. lia.
      + split; [left; exact H|]. intros Hcontra. subst b'. lia.
  Qed.

  (* the high certificate dominates every reported certificate, also in block number *)
  Lemma high_qc_ge st t n i r c' hqc :
    linv st -> I1 st -> valid_tqc st t ->
    In (i, r) (at_entries t) -> ar_hq r = Some c' -> n <= bnum (aq_block c') ->
    is_high_qc t hqc -> exists c, hqc = Some c /\ n <= bnum (aq_block c).
  Proof.
    intros L HI1 [V1 [V2 [V3 [V4 V5]]]] Hin Hr Hn Hhq. destruct hqc as [c|]; cbn [is_high_qc] in Hhq.
    - destruct Hhq as [[i2 [r2 [Hin2 Hr2]]] Hmax]. exists c. split; auto.
      pose proof (Hmax _ _ _ Hin Hr) as Hle.
      destruct (I2_of st L HI1 c' c (V5 _ _ _ Hin Hr) (V5 _ _ _ Hin2 Hr2) Hle) as [Hb _]. lia.
    - specialize (Hhq _ _ Hin). congruence.
  Qed.

  (* two choices of the high certificate certify the same block *)
  Lemma high_qc_same st t c cq :
    linv st -> I1 st -> valid_tqc st t ->
    is_high_qc t (Some c) -> is_high_qc t cq ->
    exists c2, cq = Some c2 /\ aq_block c2 = aq_block c.
  Proof.
    intros L HI1 [V1 [V2 [V3 [V4 V5]]]] [[i [r [Hin Hr]]] Hmax] Hcq.
    destruct cq as [c2|]; cbn [is_high_qc] in Hcq.
    - destruct Hcq as [[i2 [r2 [Hin2 Hr2]]] Hmax2]. exists c2. split; auto.
      pose proof (Hmax _ _ _ Hin2 Hr2) as Hle1. pose proof (Hmax2 _ _ _ Hin Hr) as Hle2.
      destruct (I2_of st L HI1 c2 c (V5 _ _ _ Hin2 Hr2) (V5 _ _ _ Hin Hr) Hle1) as [_ Hb].
      apply Hb. lia.
    - specialize (Hcq _ _ Hin). congruence.
  Qed.

  (* every sub-quorum of reporters contains an honest member of the possible quorum *)
  Lemma subquorum_witness st v b0 Q t b' :
    PQ st v b0 Q -> valid_tqc st t -> subquorum_block t b' ->
    exists i r u, In i Q /\ honest i /\ In (i, r) (at_entries t) /\ ar_hv r = Some (u, b').
  Proof.
    intros [Q1 [Q2 [Q3 Q4]]] [V1 [V2 [V3 [V4 V5]]]] Hsub.
    destruct (subquorum_meets weights byz Hok Q (reporters t b')) as [i [HiR [HiQ Hh]]]; auto.
    - apply reporters_NoDup; auto.
    - apply reporters_Forall; auto.
    - apply reporters_in in HiR. destruct HiR as [r [u [Hin Hr]]]. exists i, r, u. auto.
  Qed.

  (* if there is no high vote, some honest member of the possible quorum reports a higher number *)
  Lemma no_high_vote_witness st v b0 Q t :
    linv st -> I1 st -> I3s st -> PQ st v b0 Q -> valid_tqc st t -> v <= at_view t ->
    is_high_vote t None ->
    exists i r u b', In i Q /\ honest i /\ In (i, r) (at_entries t) /\
      ar_hv r = Some (u, b') /\ bnum b0 < bnum b'.
  Proof.
    intros L HI1 HI3 HPQ Hval Hv Hnone.
    pose proof HPQ as [Q1 [Q2 [Q3 Q4]]]. pose proof Hval as [V1 [V2 [V3 [V4 V5]]]].
    destruct Hnone as [Hno|[b1 [b2 [Hne [Hs1 Hs2]]]]].
    - pose proof (quorums_share_subquorum weights byz Hok Q (map fst (at_entries t))
                    Q1 Q2 Q3 V1 V2 V3) as HH.
      assert (Hlight : wsum (reporters t b0) < s_thr).
      { specialize (Hno b0). unfold SafetyAbs.subquorum_block in Hno. lia. }
      destruct (heavier_not_incl weights byz Hok
                  (hon_of byz (inter Q (map fst (at_entries t)))) (reporters t b0))
        as [i [HiH Hnr]].
      + apply hon_of_NoDup. apply inter_NoDup. exact Q1.
      + lia.
      + apply in_hon_of in HiH. destruct HiH as [HiI Hb]. apply in_inter in HiI.
        destruct HiI as [HiQ HiS].
        assert (Hh : honest i).
        { split; auto. rewrite Forall_forall in Q2. auto. }
        destruct (entry_of_signer t i HiS) as [r Hin].
        destruct (member_report st v b0 Q t i r L HI1 HI3 HPQ Hval Hv HiQ Hh Hin)
          as [u [b' [Ehv [_ [Hcase _]]]]].
        destruct Hcase as [E|Hgt].
        * subst b'. exfalso. apply Hnr. eapply in_reporters; eauto.
        * exists i, r, u, b'. auto.
    - assert (Hex : exists b', b' <> b0 /\ subquorum_block t b').
      { destruct (block_eq_dec b1 b0) as [E|NE].
        - exists b2. split; auto. congruence.
        - exists b1. auto. }
      destruct Hex as [b' [Hneq Hsub]].
      destruct (subquorum_witness st v b0 Q t b' HPQ Hval Hsub)
        as [i [r [u [HiQ [Hh [Hin Hr]]]]]].
      destruct (member_report st v b0 Q t i r L HI1 HI3 HPQ Hval Hv HiQ Hh Hin)
        as [u2 [b2' [Ehv [_ [Hcase _]]]]].
      rewrite Hr in Ehv. inversion Ehv; subst u2 b2'.
      destruct Hcase as [E|Hgt]; [contradiction|].
      exists i, r, u, b'. auto.
  Qed.

  (* the new vote justified by a timeout certificate of view >= v respects the possible quorum *)
  Lemma timeout_vote_ok st v b0 Q t b r cq :
    linv st -> I1 st -> I3s st -> PQ st v b0 Q -> valid_tqc st t -> v <= at_view t ->
    is_implied (AJTimeout t) r -> agrees b r -> is_high_qc t cq ->
    (bnum b0 < bnum b \/ b = b0) /\
    (bnum b0 < bnum b -> exists c, cq = Some c /\ bnum b0 <= bnum (aq_block c)).
  Proof.
    intros L HI1 HI3 HPQ Hval Hv Himp Hagr Hcq.
    cbn [SafetyAbs.is_implied] in Himp. destruct Himp as [hv [hqc [Hhv [Hhq Hr]]]].
    assert (Hsame : forall c, hqc = Some c -> bnum b0 <= bnum (aq_block c) ->
              exists c2, cq = Some c2 /\ bnum b0 <= bnum (aq_block c2)).
    { intros c E Hn. subst hqc.
      destruct (high_qc_same st t c cq L HI1 Hval Hhq Hcq) as [c2 [E2 Hb]].
      exists c2. split; auto. rewrite Hb. exact Hn. }
    destruct hv as [b'|].
    - destruct Hhv as [Hsub _].
      destruct (subquorum_witness st v b0 Q t b' HPQ Hval Hsub)
        as [i [ri [u [HiQ [Hh [Hin Hri]]]]]].
      destruct (member_report st v b0 Q t i ri L HI1 HI3 HPQ Hval Hv HiQ Hh Hin)
        as [u2 [b2 [E [_ [Hcase Hq]]]]].
      rewrite Hri in E. inversion E; subst u2 b2. clear E.
      assert (Hge : bnum b0 <= bnum b') by (destruct Hcase as [E|E]; [subst; lia|lia]).
      destruct hqc as [c|]; unfold SafetyAbs.implied_of in Hr.
      + destruct (Z.ltb_spec (bnum (aq_block c)) (bnum b')) as [Hlt|Hnlt].
        * subst r. destruct Hagr as [Hn Hh2]. cbn [fst snd] in Hn, Hh2.
          assert (Eb : b = b') by (apply block_ext; auto). subst b. split.
          -- destruct Hcase as [E|E]; [right; exact E|left; exact E].
          -- intros Hgt. destruct Hcase as [E|_]; [subst; lia|].
             destruct (Hq Hgt) as [c' [Hrc [_ Hnc]]].
             eapply high_qc_ge; eauto.
        * subst r. destruct Hagr as [Hn _]. cbn [fst] in Hn. split; [left; lia|].
          intros _. apply (Hsame c eq_refl). lia.
      + subst r. destruct Hagr as [Hn Hh2]. cbn [fst snd] in Hn, Hh2.
        assert (Eb : b = b') by (apply block_ext; auto). subst b. split.
        * destruct Hcase as [E|E]; [right; exact E|left; exact E].
        * intros Hgt. destruct Hcase as [E|_]; [subst; lia|].
          destruct (Hq Hgt) as [c' [Hrc _]]. cbn [is_high_qc] in Hhq.
          specialize (Hhq _ _ Hin). congruence.
    - destruct (no_high_vote_witness st v b0 Q t L HI1 HI3 HPQ Hval Hv Hhv)
        as [i [ri [u [b' [HiQ [Hh [Hin [Hri Hgt]]]]]]]].
      destruct (member_report st v b0 Q t i ri L HI1 HI3 HPQ Hval Hv HiQ Hh Hin)
        as [u2 [b2 [E [_ [_ Hq]]]]].
      rewrite Hri in E. inversion E; subst u2 b2. clear E.
      destruct (Hq Hgt) as [c' [Hrc [_ Hnc]]].
      destruct (high_qc_ge st t _ i ri c' hqc L HI1 Hval Hin Hrc Hnc Hhq) as [c [Ec Hn]].
      subst hqc. unfold SafetyAbs.implied_of in Hr. subst r.
      destruct Hagr as [Hb _]. cbn [fst] in Hb. split; [left; lia|].
      intros _. eapply high_qc_ge; eauto.
  Qed.

  (* the new vote justified by a commit certificate of view >= v respects the possible quorum *)
  Lemma commit_vote_ok st v b0 Q c b r :
    linv st -> I1 st -> PQ st v b0 Q -> valid_cqc st c -> v <= aq_view c ->
    is_implied (AJCommit c) r -> agrees b r ->
    bnum b0 < bnum b /\ bnum b0 <= bnum (aq_block c).
  Proof.
    intros L HI1 HPQ Hval Hv Himp [Hn _]. cbn [SafetyAbs.is_implied] in Himp. subst r.
    cbn [fst] in Hn. destruct (pq_vs_cert st v b0 Q c L HI1 HPQ Hval Hv) as [Hle _]. lia.
  Qed.

  Lemma vote_ok st v b0 Q j w b cq :
    linv st -> I1 st -> I3s st -> PQ st v b0 Q ->
    valid_just st j -> just_view j + 1 = w -> v < w ->
    (exists r, is_implied j r /\ agrees b r) -> processed_cq j cq ->
    (bnum b0 < bnum b \/ b = b0) /\
    (bnum b0 < bnum b -> exists c, cq = Some c /\ bnum b0 <= bnum (aq_block c)).
  Proof.
    intros L HI1 HI3 HPQ Hvj Hjv Hlt [r [Himp Hagr]] Hpc.
    destruct j as [c|t]; cbn [SafetyAbs.valid_just just_view processed_cq] in *.
    - destruct (commit_vote_ok st v b0 Q c b r L HI1 HPQ Hvj ltac:(lia) Himp Hagr) as [H1 H2].
      split; [left; exact H1|]. intros _. exists c. auto.
    - eapply timeout_vote_ok; eauto. lia.
  Qed.

  (* ---------------- preservation of I1 and I3 ---------------- *)
  Lemma I13_step st st' :
    linv st -> I1 st -> I3s st -> step st st' -> I1 st' /\ I3s st'.
  Proof.
    intros L HI1 HI3 Hs.
    assert (Hback : forall v b Q, PQ st' v b Q -> PQ st v b Q)
      by (intros v b Q; apply PQ_step_back; exact Hs).
    revert Hback. destruct Hs; intros Hback.
    - assert (Hnew : forall v b0 Q, PQ st v b0 Q -> v < w ->
                (bnum b0 < bnum b \/ b = b0) /\
                (bnum b0 < bnum b -> exists c, cq = Some c /\ bnum b0 <= bnum (aq_block c))).
      { intros v b0 Q HPQ Hlt. eapply vote_ok; eauto. }
      split.
      + intros v b0 Q vt HPQ [E|Hin] Hlt.
        * subst vt. cbn [v_view v_block] in *.
          destruct (Hnew v b0 Q (Hback _ _ _ HPQ) Hlt) as [Hn1 _]. exact Hn1.
        * eapply HI1; eauto.
      + intros v b0 Q vt HPQ [E|Hin] Hlt Hgt.
        * subst vt. cbn [v_view v_block v_cq] in *.
          destruct (Hnew v b0 Q (Hback _ _ _ HPQ) Hlt) as [_ Hn2]. auto.
        * eapply HI3; eauto.
    - split; intros v b0 Q vt HPQ Hin; cbn [votes] in Hin; [eapply HI1|eapply HI3]; eauto.
    - split; intros v b0 Q vt HPQ Hin; cbn [votes] in Hin; [eapply HI1|eapply HI3]; eauto.
    - split; intros v b0 Q vt HPQ Hin; cbn [votes] in Hin; [eapply HI1|eapply HI3]; eauto.
  Qed.

  (* the isolated counting step, as a named statement *)
  Lemma timeout_step_preserves_I1 st i w b t cq :
    linv st -> I1 st -> I3s st ->
    honest i -> pos_lt (cur st i) (w, Commit) ->
    valid_tqc st t -> at_view t + 1 = w ->
    (exists r, is_implied (AJTimeout t) r /\ agrees b r) -> is_high_qc t cq ->
    I1 {| cur := upd (cur st) i (w, Commit);
          hvote := upd (hvote st) i (Some (w, b));
          hq := upd (hq st) i (max_cq (hq st i) cq);
          votes := {| v_who := i; v_view := w; v_block := b; v_cq := cq |} :: votes st;
          timeouts := timeouts st |}.
  Proof.
    intros L HI1 HI3 Hh Hcur Hval Hw Himp Hcq.
    apply (I13_step st _ L HI1 HI3).
    apply (StepVote weights byz first_block st i w b (AJTimeout t) cq); auto.
  Qed.

  Theorem invariants_reachable st : reachable st -> linv st /\ I1 st /\ I3s st.
  Proof.
    induction 1 as [|st st' Hr [L [HI1 HI3]] Hs].
    - split; [apply linv_init|]. split.
      + intros v b Q vt _ Hin. destruct Hin.
      + intros v b Q vt _ Hin. destruct Hin.
    - split; [eapply linv_step; eauto|]. eapply I13_step; eauto.
  Qed.

  (* ---------------- the theorems ---------------- *)
  Theorem I1_reachable st : reachable st -> I1 st.
  Proof. intros H. apply (invariants_reachable st H). Qed.

  Theorem I2_reachable st : reachable st -> I2 st.
  Proof. intros H. destruct (invariants_reachable st H) as [L [H1 _]]. apply I2_of; auto. Qed.

  Theorem I3_reachable st : reachable st -> I3 st.
  Proof. intros H. apply I3s_I3. apply (invariants_reachable st H). Qed.

  Theorem I3s_reachable st : reachable st -> I3s st.
  Proof. intros H. apply (invariants_reachable st H). Qed.

  Theorem certificate_unique st c c' :
    reachable st -> valid_cqc st c -> valid_cqc st c' ->
    bnum (aq_block c) = bnum (aq_block c') -> aq_block c = aq_block c'.
  Proof.
    intros Hr. destruct (invariants_reachable st Hr) as [L [HI1 _]].
    assert (Hone : forall c c', valid_cqc st c -> valid_cqc st c' ->
              aq_view c <= aq_view c' -> bnum (aq_block c) = bnum (aq_block c') ->
              aq_block c = aq_block c').
    { intros a a' Ha Ha' Hle Hn.
      destruct (Z.eq_dec (aq_view a) (aq_view a')) as [E|NE].
      - apply (I2_of st L HI1 a a' Ha Ha' Hle). exact E.
      - destruct (valid_cqc_honest_vote weights byz Hok st a' Ha') as [i [cq [_ [_ Hin]]]].
        assert (Hlt : aq_view a < aq_view a') by lia.
        destruct (HI1 _ _ _ _ (valid_is_PQ st a Ha) Hin Hlt) as [H|H]; cbn [v_block] in H.
        + lia.
        + symmetry. exact H. }
    intros Hc Hc' Hn. destruct (Z.le_ge_cases (aq_view c) (aq_view c')) as [Hle|Hle].
    - apply Hone; auto.
    - symmetry. apply Hone; auto.
  Qed.

  Theorem certificates_monotone st c c' :
    reachable st -> valid_cqc st c -> valid_cqc st c' -> aq_view c <= aq_view c' ->
    bnum (aq_block c) <= bnum (aq_block c') /\
    (aq_view c = aq_view c' -> aq_block c = aq_block c').
  Proof. intros Hr. apply (I2_reachable st Hr). Qed.

  Theorem repropose_after_possible_commit st v b Q :
    reachable st -> PQ st v b Q ->
    forall vt, In vt (votes st) -> v < v_view vt ->
      bnum b < bnum (v_block vt) \/ v_block vt = b.
  Proof. intros Hr HPQ vt Hin Hlt. exact (I1_reachable st Hr v b Q vt HPQ Hin Hlt). Qed.

  (* L1 *)
  Theorem no_equivocation st vt vt' :
    reachable st -> In vt (votes st) -> In vt' (votes st) ->
    v_who vt = v_who vt' -> v_view vt = v_view vt' -> vt = vt'.
  Proof.
    intros Hr. apply (li_l1 _ _ _ _ (linv_reachable weights byz first_block Hok st Hr)).
  Qed.

  (* LT, state form: the timeout reports the latest vote at a view <= t *)
  Theorem timeout_reports_latest_vote st tm :
    reachable st -> In tm (timeouts st) ->
    honest (t_who tm) /\ pos_le (t_view tm, Timeout) (cur st (t_who tm)) /\
    match ar_hv (t_report tm) with
    | Some (u, b) =>
        u <= t_view tm /\
        (exists cq, In {| v_who := t_who tm; v_view := u; v_block := b; v_cq := cq |} (votes st)) /\
        (forall vt, In vt (votes st) -> v_who vt = t_who tm -> v_view vt <= t_view tm ->
                    v_view vt <= u)
    | None => forall vt, In vt (votes st) -> v_who vt = t_who tm -> t_view tm < v_view vt
    end.
  Proof.
    intros Hr Hin. pose proof (linv_reachable weights byz first_block Hok st Hr) as L.
    split; [eapply li_thon; eauto|]. split; [eapply li_tcur; eauto|].
    exact (li_thv _ _ _ _ L tm Hin).
  Qed.

  (* LT, transition form *)
  Theorem no_vote_at_or_below_timeout_step st st' tm vt :
    reachable st -> In tm (timeouts st) -> step st st' ->
    In vt (votes st') -> ~ In vt (votes st) -> v_who vt = t_who tm ->
    t_view tm < v_view vt.
  Proof.
    intros Hr. apply no_vote_at_or_below_timeout.
    apply (linv_reachable weights byz first_block Hok st Hr).
  Qed.

  (* ---------------- the local facts, over reachable states ---------------- *)
  Theorem local_votes_honest st vt : reachable st -> In vt (votes st) -> honest (v_who vt).
  Proof. intros Hr. apply (li_vhon _ _ _ _ (linv_reachable weights byz first_block Hok st Hr)). Qed.

  Theorem local_cur_after_vote st vt :
    reachable st -> In vt (votes st) -> pos_le (v_view vt, Commit) (cur st (v_who vt)).
  Proof. intros Hr. apply (li_vcur _ _ _ _ (linv_reachable weights byz first_block Hok st Hr)). Qed.

  Theorem local_votes_increasing st : reachable st -> votes_increasing (votes st).
  Proof. intros Hr. apply (li_sorted _ _ _ _ (linv_reachable weights byz first_block Hok st Hr)). Qed.

  Theorem local_hvote_latest st i :
    reachable st ->
    match hvote st i with
    | Some (u, b) =>
        (exists cq, In {| v_who := i; v_view := u; v_block := b; v_cq := cq |} (votes st)) /\
        (forall vt, In vt (votes st) -> v_who vt = i -> v_view vt <= u)
    | None => forall vt, In vt (votes st) -> v_who vt <> i
    end.
  Proof. intros Hr. apply (li_hvote _ _ _ _ (linv_reachable weights byz first_block Hok st Hr)). Qed.

  Theorem local_hq_valid st i c : reachable st -> hq st i = Some c -> valid_cqc st c.
  Proof. intros Hr. apply (li_hqvalid _ _ _ _ (linv_reachable weights byz first_block Hok st Hr)). Qed.

  Theorem local_vote_cq st vt c :
    reachable st -> In vt (votes st) -> v_cq vt = Some c ->
    valid_cqc st c /\ exists c', hq st (v_who vt) = Some c' /\ aq_view c <= aq_view c'.
  Proof. intros Hr. apply (li_vcq _ _ _ _ (linv_reachable weights byz first_block Hok st Hr)). Qed.

  Theorem local_timeout_hq st tm :
    reachable st -> In tm (timeouts st) ->
    (forall c, ar_hq (t_report tm) = Some c -> valid_cqc st c) /\
    (forall vt c, In vt (votes st) -> v_who vt = t_who tm -> v_view vt <= t_view tm ->
       v_cq vt = Some c ->
       exists c', ar_hq (t_report tm) = Some c' /\ aq_view c <= aq_view c').
  Proof. intros Hr. apply (li_thq _ _ _ _ (linv_reachable weights byz first_block Hok st Hr)). Qed.

  Theorem local_voted_ge_first st vt :
    reachable st -> In vt (votes st) -> first_block <= bnum (v_block vt).
  Proof. intros Hr. apply (li_first _ _ _ _ (linv_reachable weights byz first_block Hok st Hr)). Qed.

  Theorem local_cur_monotone st st' i : step st st' -> pos_le (cur st i) (cur st' i).
  Proof. intros Hs. apply (step_cur_mono weights byz first_block st st' Hs). Qed.

  Theorem local_hq_monotone st st' i c :
    step st st' -> hq st i = Some c -> exists c', hq st' i = Some c' /\ aq_view c <= aq_view c'.
  Proof. intros Hs. apply (step_hq_mono weights byz first_block st st' Hs). Qed.

  Theorem validity_monotone st st' :
    step st st' ->
    (forall c, valid_cqc st c -> valid_cqc st' c) /\ (forall t, valid_tqc st t -> valid_tqc st' t).
  Proof.
    intros Hs. split; intros x;
      [apply (valid_cqc_step weights byz first_block st st')
      |apply (valid_tqc_step weights byz first_block st st')]; exact Hs.
  Qed.
End Safety.
