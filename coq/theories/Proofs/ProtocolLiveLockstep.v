(* C06 on the protocol model, part 7: progress from a lockstep state.  A lockstep state: every
   honest node waits in view V with the blocks below n stored, nothing above block n-1 is voted
   or certified (tidy), and the network holds the one proposal of an honest leader of V for the
   new block n, or no verifying proposal for V if that leader is Byzantine.  A view with a
   Byzantine (silent) leader costs two rounds and leaves a lockstep state for the next view; a
   view with an honest leader commits block n within two rounds. *)
From Coq Require Import ZArith List Bool Lia.
From EC Require Import Lib.Outcome Lib.U64 Lib.ListW Lib.Obs Model.Msgs Model.Replica Model.ReplicaRun
  Model.Protocol Model.ProtocolSync Proofs.QCProofs Proofs.ProtocolLive Proofs.ProtocolLiveInv
  Proofs.ProtocolLiveCatch Proofs.ProtocolLiveNoStop.
From EC Require Import Proofs.ProtocolRefinesAbs Proofs.ProtocolRefinesStep.
From EC Require Import Proofs.ProtocolLiveCommitStep Proofs.ProtocolLiveCommitLock Proofs.ProtocolLiveCommit
  Proofs.ProtocolLiveTimeoutStep Proofs.ProtocolLiveTimeoutLock Proofs.ProtocolLiveTidy Proofs.ProtocolLiveTimeout
  Proofs.ProtocolLiveAvail.
From EC Require Proofs.ProtocolRefinesInv.
Import ListNotations.
Open Scope Z_scope.

Section Lockstep.
  Variable P : params.
  Hypothesis HP : params_ok P.
  Variable pay : Z -> Z.
  Variable fetch : gstate -> Z -> option cqc.
  Hypothesis Henv : env_ok P pay.
  Notation hon := (honestb P).
  Notation cfg := (pcfg P).
  Notation leader := (cleader (pcfg P 0)).

  Definition noprop (s : gstate) (V : Z) : Prop :=
    forall m p' j' mv', In m (g_soup s) -> m_msg m = MProposal p' j' ->
      justification_view (E := unit) true j' = Ok mv' -> vnum mv' = V ->
      justification_verify (p_g P) (p_e P) (p_C P) j' = Ok tt -> False.
  Definition tidy (s : gstate) (n : Z) : Prop :=
    (forall q, gq (cfg 0) hon (g_soup s) q -> hnum (cprop (qmsg q)) < n) /\
    (forall k, hon k = true -> tidy_node P n (n_live (g_node s k))).
  Definition lockstep (s : gstate) (V n : Z) : Prop :=
    p_first P <= n /\ lock P s V n /\ tidy s n /\
    (hon (leader V) = true -> pending P pay s V n) /\
    (hon (leader V) = false -> noprop s V).

  (* a view with a Byzantine leader: two rounds later the next view, in lockstep *)
  Lemma lockstep_timeout Bs s V n : Bs + 1 < U64 -> preach P s -> 0 < V ->
    p_first P + V + 2 < U64 -> V + 1 <= Bs -> (forall m, In m (g_soup s) -> msg_view (m_msg m) <= Bs) ->
    lockstep s V n -> hon (leader V) = false ->
    let s2 := sync_rounds P pay fetch 2 s in
    preach P s2 /\ (forall m, In m (g_soup s2) -> msg_view (m_msg m) <= Bs) /\ lockstep s2 (V + 1) n.
  Proof.
    intros HBs Hr HV Hh1 Hle Hsb (Hfn & Hlock & [HT0 HX] & _ & Hnp) HL. cbv zeta. specialize (Hnp HL).
    destruct (timeout_two_rounds_post P HP pay fetch Henv V n HV s Hr Bs Hh1 HBs Hle Hsb Hlock Hnp)
      as (Hr2 & Hsb2 & Hlock2 & Hhon & Hbyz).
    destruct (timeout_two_rounds_tidy P HP pay fetch Henv V n HV s Hr Bs Hh1 HBs Hle Hsb Hlock Hnp HT0 HX)
      as (HT02 & HX2 & HTM2).
    split; [exact Hr2|]. split; [exact Hsb2|].
    split; [exact Hfn|]. split; [exact Hlock2|]. split; [split; assumption|]. split; [|exact Hbyz].
    intros HL'. destruct (Hhon HL') as (tq & p & EV & Hver & Hkt & Hp & Hin & Huq).
    assert (Htv : tqc_verify (p_g P) (p_e P) (p_C P) tq = Ok tt) by (apply justification_verify_iff in Hver; exact Hver).
    unfold proposal_payload in Hp.
    destruct (get_implied_block (E := unit) true (p_C P) (p_first P) (JTimeout tq)) as [[n' oh]| |] eqn:Ei; try discriminate.
    destruct (implied_tidy P HP n _ tq Hr2 Htv Hkt HT02) with (n' := n') (oh := oh) as [-> ->]; [|exact Hfn|exact Ei|].
    { intros h m Hh Hm Etv. apply (HTM2 h m Hh Hm). rewrite Etv. exact EV. }
    inversion Hp; subst p.
    exists (JTimeout tq), {| vgen := vgen (tqview tq); vepoch := vepoch (tqview tq); vnum := V + 1 |}.
    split.
    { unfold justification_view, num_next, u64_add. rewrite EV.
      assert (H : (V + 1 <? U64) = true) by (apply Z.ltb_lt; lia). rewrite H. reflexivity. }
    split; [reflexivity|]. split; [exact Hver|]. split; [exact Ei|]. split; [exact Hin|].
    intros m p' j' mv' Hin' Em Ek Esg Ejv EV' Ever. exact (Huq m p' j' mv' Hin' Em Ek Esg Ejv EV' Ever).
  Qed.

  (* the commit theorem for a new block *)
  Lemma commit_new_block Bs s V n j mv : Bs + 1 < U64 ->
    justification_view (E := unit) true j = Ok mv -> vnum mv = V ->
    justification_verify (p_g P) (p_e P) (p_C P) j = Ok tt ->
    get_implied_block (E := unit) true (p_C P) (p_first P) j = Ok (n, None) ->
    p_first P <= n -> 0 < V -> preach P s -> p_first P + V + 2 < U64 -> V + 1 <= Bs ->
    (forall m, In m (g_soup s) -> msg_view (m_msg m) <= Bs) -> lock P s V n ->
    In {| m_key := leader V; m_sig_ok := true; m_msg := MProposal (Some (pay n)) j |} (g_soup s) ->
    uniq_prop P V j (Some (pay n)) (g_soup s) ->
    forall k, hon k = true ->
      up (sync_rounds P pay fetch 2 s) k /\ V < hview (sync_rounds P pay fetch 2 s) k /\
      n < r_store_next (n_live (g_node (sync_rounds P pay fetch 2 s) k)).
  Proof.
    intros HBs Hjv Hmv Hjver Himp Hfn HV Hr Hh1 Hle Hsb Hlock Hin Huq.
    assert (Hkind : (@None Z = None /\ Some (pay n) = Some (pay n) /\ p_pok P n (pay n) = true /\ p_psize P (pay n) <= p_maxpay P) \/
                    (@None Z = Some (pay n) /\ Some (pay n) = None)).
    { left. destruct Henv as (Hpok & Hsz & _). auto. }
    exact (commit_two_rounds P HP pay fetch Henv V n j mv (Some (pay n)) (pay n) None Hjv Hmv Hjver Himp Hkind Hfn HV s Hr Bs
             Hh1 HBs Hle Hsb Hlock Hin Huq (or_introl eq_refl) (fun H => False_ind _ (H eq_refl))).
  Qed.

  (* progress: the first honest leader among V .. V+nb gets block n stored by everybody *)
  Theorem progress_from_lockstep (Bs : Z) : Bs + 1 < U64 -> forall nb s V n,
    preach P s -> 0 < V -> p_first P + V + Z.of_nat nb + 2 < U64 -> V + Z.of_nat nb + 1 <= Bs ->
    (forall m, In m (g_soup s) -> msg_view (m_msg m) <= Bs) ->
    lockstep s V n ->
    (exists i, (i <= nb)%nat /\ hon (leader (V + Z.of_nat i)) = true) ->
    exists r, (1 <= r <= nb + 1)%nat /\
      forall k, hon k = true ->
        up (sync_rounds P pay fetch (2 * r) s) k /\
        n < r_store_next (n_live (g_node (sync_rounds P pay fetch (2 * r) s) k)).
  Proof.
    intros HBs. induction nb as [|nb IH]; intros s V n Hr HV Hh1 Hle Hsb HLS (i & Hi & Hhi).
    - assert (i = 0%nat) by lia. subst i. rewrite Z.add_0_r in Hhi.
      destruct HLS as (Hfn & Hlock & _ & Hpend & _).
      destruct (Hpend Hhi) as (j & mv & Hjv & Hmv & Hjver & Himp & Hin & Huq).
      exists 1%nat. split; [lia|]. intros k Hk.
      destruct (commit_new_block Bs s V n j mv HBs Hjv Hmv Hjver Himp Hfn HV Hr ltac:(lia) ltac:(lia) Hsb Hlock Hin Huq k Hk)
        as (A & _ & C). auto.
    - destruct (hon (leader V)) eqn:EL.
      + destruct HLS as (Hfn & Hlock & _ & Hpend & _).
        destruct (Hpend EL) as (j & mv & Hjv & Hmv & Hjver & Himp & Hin & Huq).
        exists 1%nat. split; [lia|]. intros k Hk.
        destruct (commit_new_block Bs s V n j mv HBs Hjv Hmv Hjver Himp Hfn HV Hr ltac:(lia) ltac:(lia) Hsb Hlock Hin Huq k Hk)
          as (A & _ & C). auto.
      + destruct (lockstep_timeout Bs s V n HBs Hr HV ltac:(lia) ltac:(lia) Hsb HLS EL) as (Hr2 & Hsb2 & HLS2).
        assert (Hex : exists i', (i' <= nb)%nat /\ hon (leader (V + 1 + Z.of_nat i')) = true).
        { destruct i as [|i']; [rewrite Z.add_0_r in Hhi; congruence|].
          exists i'. split; [lia|]. replace (V + 1 + Z.of_nat i') with (V + Z.of_nat (S i')) by lia. exact Hhi. }
        destruct (IH _ (V + 1) n Hr2 ltac:(lia) ltac:(lia) ltac:(lia) Hsb2 HLS2 Hex) as (r & Hrr & Hall).
        exists (S r). split; [lia|]. intros k Hk.
        replace (2 * S r)%nat with (2 + 2 * r)%nat by lia. rewrite (sync_rounds_add P pay fetch 2).
        exact (Hall k Hk).
  Qed.

  (* ================================================================ *)
  (* the weaker lockstep: block n may already have been voted          *)
  (* ================================================================ *)
  (* nothing at or above block n is certified, nothing above block n is voted: the honest high
     votes may be for block n itself (from an earlier view that did not complete) *)
  Definition tidy_le (s : gstate) (n : Z) : Prop :=
    (forall q, gq (cfg 0) hon (g_soup s) q -> hnum (cprop (qmsg q)) < n) /\
    (forall k, hon k = true -> tidy_node_b P n (n + 1) (n_live (g_node s k))).
  (* the one verifying proposal of the leader of V on the network is the forced re-proposal of
     block n with payload hash h *)
  Definition repending (s : gstate) (V n : Z) : Prop :=
    exists h j mv,
      justification_view (E := unit) true j = Ok mv /\ vnum mv = V /\
      justification_verify (p_g P) (p_e P) (p_C P) j = Ok tt /\
      get_implied_block (E := unit) true (p_C P) (p_first P) j = Ok (n, Some h) /\
      In {| m_key := leader V; m_sig_ok := true; m_msg := MProposal None j |} (g_soup s) /\
      uniq_prop P V j None (g_soup s).
  Definition wlockstep (s : gstate) (V n : Z) : Prop :=
    p_first P <= n /\ lock P s V n /\ tidy_le s n /\
    (hon (leader V) = true -> pending P pay s V n \/ repending s V n) /\
    (hon (leader V) = false -> noprop s V).

  Lemma tidy_node_le n st : tidy_node P n st -> tidy_node_b P n (n + 1) st.
  Proof. intros [H1 H2]. split; [intros c Hc; specialize (H1 c Hc); lia|exact H2]. Qed.

  Lemma lockstep_weak s V n : lockstep s V n -> wlockstep s V n.
  Proof.
    intros (A & B & [C1 C2] & D & E). split; [exact A|]. split; [exact B|]. split.
    - split; [exact C1|]. intros k Hk. apply tidy_node_le. exact (C2 k Hk).
    - split; [intros H; left; exact (D H)|exact E].
  Qed.

  (* a view with a Byzantine leader: two rounds later the next view, in weak lockstep *)
  Lemma wlockstep_timeout Bs s V n : Bs + 1 < U64 -> preach P s -> 0 < V ->
    p_first P + V + 2 < U64 -> V + 1 <= Bs -> (forall m, In m (g_soup s) -> msg_view (m_msg m) <= Bs) ->
    wlockstep s V n -> hon (leader V) = false ->
    let s2 := sync_rounds P pay fetch 2 s in
    preach P s2 /\ (forall m, In m (g_soup s2) -> msg_view (m_msg m) <= Bs) /\ wlockstep s2 (V + 1) n.
  Proof.
    intros HBs Hr HV Hh1 Hle Hsb (Hfn & Hlock & [HT0 HX] & _ & Hnp) HL. cbv zeta. specialize (Hnp HL).
    destruct (timeout_two_rounds_post P HP pay fetch Henv V n HV s Hr Bs Hh1 HBs Hle Hsb Hlock Hnp)
      as (Hr2 & Hsb2 & Hlock2 & Hhon & Hbyz).
    destruct (timeout_two_rounds_tidy_b P HP pay fetch Henv V n HV s Hr Bs Hh1 HBs Hle Hsb Hlock Hnp HT0 (n + 1) HX)
      as (HT02 & HX2 & HTM2).
    split; [exact Hr2|]. split; [exact Hsb2|].
    split; [exact Hfn|]. split; [exact Hlock2|]. split; [split; assumption|]. split; [|exact Hbyz].
    intros HL'. destruct (Hhon HL') as (tq & p & EV & Hver & Hkt & Hp & Hin & Huq).
    assert (Htv : tqc_verify (p_g P) (p_e P) (p_C P) tq = Ok tt) by (apply justification_verify_iff in Hver; exact Hver).
    unfold proposal_payload in Hp.
    destruct (get_implied_block (E := unit) true (p_C P) (p_first P) (JTimeout tq)) as [[n' oh]| |] eqn:Ei; try discriminate.
    assert (En : n' = n).
    { apply (implied_tidy_le P HP n _ tq Hr2 Htv Hkt HT02) with (oh := oh); [|exact Hfn|exact Ei].
      intros h m Hh Hm Etv. apply (HTM2 h m Hh Hm). rewrite Etv. exact EV. }
    subst n'.
    assert (Ejv : justification_view (E := unit) true (JTimeout tq) =
                  Ok {| vgen := vgen (tqview tq); vepoch := vepoch (tqview tq); vnum := V + 1 |}).
    { unfold justification_view, num_next, u64_add. rewrite EV.
      assert (H : (V + 1 <? U64) = true) by (apply Z.ltb_lt; lia). rewrite H. reflexivity. }
    destruct oh as [h|]; inversion Hp; subst p.
    - right. exists h, (JTimeout tq), {| vgen := vgen (tqview tq); vepoch := vepoch (tqview tq); vnum := V + 1 |}.
      split; [exact Ejv|]. split; [reflexivity|]. split; [exact Hver|]. split; [exact Ei|]. split; [exact Hin|].
      intros m p' j' mv' Hin' Em Ek Esg Ejv' EV' Ever. exact (Huq m p' j' mv' Hin' Em Ek Esg Ejv' EV' Ever).
    - left. exists (JTimeout tq), {| vgen := vgen (tqview tq); vepoch := vepoch (tqview tq); vnum := V + 1 |}.
      split; [exact Ejv|]. split; [reflexivity|]. split; [exact Hver|]. split; [exact Ei|]. split; [exact Hin|].
      intros m p' j' mv' Hin' Em Ek Esg Ejv' EV' Ever. exact (Huq m p' j' mv' Hin' Em Ek Esg Ejv' EV' Ever).
  Qed.

  (* the same from a state in which some honest nodes have already timed out in view V *)
  Lemma mixed_wlockstep Bs s V n : Bs + 1 < U64 -> preach P s -> 0 < V ->
    p_first P + V + 2 < U64 -> V + 1 <= Bs -> (forall m, In m (g_soup s) -> msg_view (m_msg m) <= Bs) ->
    p_first P <= n ->
    (forall k, hon k = true ->
       up s k /\ hview s k = V /\ r_phase (n_live (g_node s k)) <> PCommit /\ n <= r_store_next (n_live (g_node s k))) ->
    noprop s V ->
    (forall t, tqc_verify (p_g P) (p_e P) (p_C P) t = Ok tt -> kt hon (g_soup s) t -> vnum (tqview t) < V) ->
    tidy_le s n ->
    (forall m t0, In m (g_soup s) -> m_sig_ok m = true -> hon (m_key m) = true -> m_msg m = MTimeout t0 ->
       vnum (tview t0) = V -> tidy_report_b P n (n + 1) t0) ->
    let s2 := sync_rounds P pay fetch 2 s in
    preach P s2 /\ (forall m, In m (g_soup s2) -> msg_view (m_msg m) <= Bs) /\ wlockstep s2 (V + 1) n.
  Proof.
    intros HBs Hr HV Hh1 Hle Hsb Hfn Hal Hnp HnoT [HT0 HX] HXT. cbv zeta.
    assert (Hdv : forall k, hon k = true -> dview s k = V).
    { intros k Hk. destruct (Hal k Hk) as (Hu & Hv & _). rewrite (up_dview P HP s k Hr Hk Hu). exact Hv. }
    assert (Heta : forall m : sgmsg, m_sig_ok m = true -> m = {| m_key := m_key m; m_sig_ok := true; m_msg := m_msg m |}).
    { intros [a b c]. cbn. intros ->. reflexivity. }
    assert (HGC : forall m c, In m (g_soup s) -> m_sig_ok m = true -> hon (m_key m) = true -> m_msg m = MCommit c ->
              vnum (cview c) < V).
    { intros m c Hin Hsg Hh Em.
      destruct (preach_VP P s Hr m c Hin Hsg Hh Em) as (m' & p & j & Hinm & Em' & Ejv & Ever).
      rewrite (Heta m Hsg), Em in Hin.
      assert (HB : forall k, hon k = true -> dview s k < V + 1 \/ (dview s k = V + 1 /\ dphase s k = Prepare))
        by (intros k Hk; left; rewrite (Hdv k Hk); lia).
      pose proof (no_commit_msg_at P HP s (m_key m) c (V + 1) Hr HB Hh Hin) as Hlt.
      destruct (Z.eq_dec (vnum (cview c)) V) as [E|E]; [|lia].
      exfalso. exact (Hnp m' p j (cview c) Hinm Em' Ejv E Ever). }
    assert (HGT : forall m t0, In m (g_soup s) -> m_sig_ok m = true -> hon (m_key m) = true -> m_msg m = MTimeout t0 ->
              V <= vnum (tview t0) -> vnum (tview t0) = V /\ timeout_verify (p_g P) (p_e P) (p_C P) t0 = Ok tt).
    { intros m t0 Hin Hsg Hh Em HVt.
      pose proof (preach_SOK P s Hr m Hin Hsg Hh) as Hok. rewrite Em in Hok. cbn [vmsg] in Hok.
      rewrite (Heta m Hsg), Em in Hin.
      assert (HB : forall k, hon k = true -> dview s k < V + 1 \/ (dview s k = V + 1 /\ dphase s k <> PTimeout))
        by (intros k Hk; left; rewrite (Hdv k Hk); lia).
      pose proof (no_timeout_msg_at P HP s (m_key m) t0 (V + 1) Hr HB Hh Hin) as Hlt.
      split; [lia|exact Hok]. }
    destruct (timeout_mixed_post P HP pay fetch Henv V n HV s Hr Bs Hh1 HBs Hle Hsb Hal Hnp HGC HGT HnoT)
      as (Hr2 & Hsb2 & Hlock2 & Hhon & Hbyz).
    destruct (timeout_mixed_tidy P HP pay fetch Henv V n HV s Hr Bs Hh1 HBs Hle Hsb Hal Hnp HGC HGT HnoT (n + 1) HT0 HX HXT)
      as (HT02 & HX2 & HTM2).
    split; [exact Hr2|]. split; [exact Hsb2|].
    split; [exact Hfn|]. split; [exact Hlock2|]. split; [split; assumption|]. split; [|exact Hbyz].
    intros HL'. destruct (Hhon HL') as (tq & p & EV & Hver & Hkt & Hp & Hin & Huq).
    assert (Htv : tqc_verify (p_g P) (p_e P) (p_C P) tq = Ok tt) by (apply justification_verify_iff in Hver; exact Hver).
    unfold proposal_payload in Hp.
    destruct (get_implied_block (E := unit) true (p_C P) (p_first P) (JTimeout tq)) as [[n' oh]| |] eqn:Ei; try discriminate.
    assert (En : n' = n).
    { apply (implied_tidy_le P HP n _ tq Hr2 Htv Hkt HT02) with (oh := oh); [|exact Hfn|exact Ei].
      intros h m Hh Hm Etv. apply (HTM2 h m Hh Hm). rewrite Etv. exact EV. }
    subst n'.
    assert (Ejv : justification_view (E := unit) true (JTimeout tq) =
                  Ok {| vgen := vgen (tqview tq); vepoch := vepoch (tqview tq); vnum := V + 1 |}).
    { unfold justification_view, num_next, u64_add. rewrite EV.
      assert (H : (V + 1 <? U64) = true) by (apply Z.ltb_lt; lia). rewrite H. reflexivity. }
    destruct oh as [h|]; inversion Hp; subst p.
    - right. exists h, (JTimeout tq), {| vgen := vgen (tqview tq); vepoch := vepoch (tqview tq); vnum := V + 1 |}.
      split; [exact Ejv|]. split; [reflexivity|]. split; [exact Hver|]. split; [exact Ei|]. split; [exact Hin|].
      intros m p' j' mv' Hin' Em Ek Esg Ejv' EV' Ever. exact (Huq m p' j' mv' Hin' Em Ek Esg Ejv' EV' Ever).
    - left. exists (JTimeout tq), {| vgen := vgen (tqview tq); vepoch := vepoch (tqview tq); vnum := V + 1 |}.
      split; [exact Ejv|]. split; [reflexivity|]. split; [exact Hver|]. split; [exact Ei|]. split; [exact Hin|].
      intros m p' j' mv' Hin' Em Ek Esg Ejv' EV' Ever. exact (Huq m p' j' mv' Hin' Em Ek Esg Ejv' EV' Ever).
  Qed.

  (* the payload of a pending forced re-proposal is cached by some honest node *)
  Lemma repending_cached s V n h j : preach P s -> lock P s V n ->
    (forall q, gq (cfg 0) hon (g_soup s) q -> hnum (cprop (qmsg q)) < n) ->
    justification_verify (p_g P) (p_e P) (p_C P) j = Ok tt ->
    get_implied_block (E := unit) true (p_C P) (p_first P) j = Ok (n, Some h) ->
    In {| m_key := leader V; m_sig_ok := true; m_msg := MProposal None j |} (g_soup s) ->
    exists k0, hon k0 = true /\ cache_has (r_cache (n_live (g_node s k0))) n h = true.
  Proof.
    intros Hr Hlock HT0 Hjver Himp Hin.
    destruct (ProtocolRefinesInv.preach_inv P HP s Hr) as [a G].
    pose proof (ProtocolRefinesInv.gi_soup _ _ _ G _ Hin) as Hkm. cbn [m_msg kmsg] in Hkm.
    destruct j as [q|tq].
    - cbn [get_implied_block] in Himp. destruct (num_next true (hnum (cprop (qmsg q)))); cbn [bind] in Himp; discriminate.
    - cbn [kj] in Hkm. apply justification_verify_iff in Hjver.
      destruct (implied_reporter P HP s tq n h Hr Hjver Hkm Himp) as (k1 & t1 & c1 & Hk1 & Hsent & Ehv & En & Eh).
      destruct (ProtocolRefinesInv.gi_timeout _ _ _ G k1 t1 Hk1 Hsent) as (d1 & Hd1 & _ & _ & Hhv & _).
      destruct (preach_PA P HP n h s Hr) as [_ HPA].
      destruct (HPA k1 d1 Hk1 Hd1 ltac:(exists c1; rewrite Hhv; auto)) as [(k0 & Hk0 & H1 & H2)|(q & Hq & Hn)].
      + exists k0. split; [exact Hk0|]. apply H2. apply (Hlock k0 Hk0).
      + specialize (HT0 q Hq). lia.
  Qed.

  (* the commit theorem for a forced re-proposal *)
  Lemma commit_reproposal Bs s V n h j mv : Bs + 1 < U64 ->
    justification_view (E := unit) true j = Ok mv -> vnum mv = V ->
    justification_verify (p_g P) (p_e P) (p_C P) j = Ok tt ->
    get_implied_block (E := unit) true (p_C P) (p_first P) j = Ok (n, Some h) ->
    p_first P <= n -> 0 < V -> preach P s -> p_first P + V + 2 < U64 -> V + 1 <= Bs ->
    (forall m, In m (g_soup s) -> msg_view (m_msg m) <= Bs) -> lock P s V n ->
    (forall q, gq (cfg 0) hon (g_soup s) q -> hnum (cprop (qmsg q)) < n) ->
    In {| m_key := leader V; m_sig_ok := true; m_msg := MProposal None j |} (g_soup s) ->
    uniq_prop P V j None (g_soup s) ->
    fetch_ok_at P fetch (sync_point P pay (sync_round P pay fetch s)) ->
    forall k, hon k = true ->
      up (sync_rounds P pay fetch 2 s) k /\ V < hview (sync_rounds P pay fetch 2 s) k /\
      n < r_store_next (n_live (g_node (sync_rounds P pay fetch 2 s) k)).
  Proof.
    intros HBs Hjv Hmv Hjver Himp Hfn HV Hr Hh1 Hle Hsb Hlock HT0 Hin Huq Hfo.
    destruct (repending_cached s V n h j Hr Hlock HT0 Hjver Himp Hin) as (k0 & Hk0 & Hc0).
    assert (Hkind : (Some h = None /\ @None Z = Some h /\ p_pok P n h = true /\ p_psize P h <= p_maxpay P) \/
                    (Some h = Some h /\ @None Z = None)) by (right; auto).
    exact (commit_two_rounds P HP pay fetch Henv V n j mv None h (Some h) Hjv Hmv Hjver Himp Hkind Hfn HV s Hr Bs
             Hh1 HBs Hle Hsb Hlock Hin Huq (or_intror (ex_intro _ k0 (conj Hk0 Hc0))) (fun _ => Hfo)).
  Qed.

  Lemma fetch_ok_run_shift s R : fetch_ok_run P pay fetch s (2 + R) ->
    fetch_ok_run P pay fetch (sync_rounds P pay fetch 2 s) R.
  Proof.
    intros H r Hr. specialize (H (2 + r)%nat ltac:(lia)). rewrite (sync_rounds_add P pay fetch 2) in H. exact H.
  Qed.

  (* progress from a weak lockstep state: the first honest leader among V .. V+nb gets block n
     stored by everybody, by a new proposal or by the forced re-proposal (H-FETCH over the rounds) *)
  Theorem progress_from_wlockstep (Bs : Z) : Bs + 1 < U64 -> forall nb s V n,
    preach P s -> 0 < V -> p_first P + V + Z.of_nat nb + 2 < U64 -> V + Z.of_nat nb + 1 <= Bs ->
    (forall m, In m (g_soup s) -> msg_view (m_msg m) <= Bs) ->
    wlockstep s V n -> fetch_ok_run P pay fetch s (2 * (nb + 1)) ->
    (exists i, (i <= nb)%nat /\ hon (leader (V + Z.of_nat i)) = true) ->
    exists r, (1 <= r <= nb + 1)%nat /\
      forall k, hon k = true ->
        up (sync_rounds P pay fetch (2 * r) s) k /\
        n < r_store_next (n_live (g_node (sync_rounds P pay fetch (2 * r) s) k)).
  Proof.
    intros HBs.
    assert (Hhonest : forall nb s V n, preach P s -> 0 < V -> p_first P + V + Z.of_nat nb + 2 < U64 -> V + Z.of_nat nb + 1 <= Bs ->
              (forall m, In m (g_soup s) -> msg_view (m_msg m) <= Bs) ->
              wlockstep s V n -> fetch_ok_run P pay fetch s (2 * (nb + 1)) -> hon (leader V) = true ->
              forall k, hon k = true ->
                up (sync_rounds P pay fetch 2 s) k /\
                n < r_store_next (n_live (g_node (sync_rounds P pay fetch 2 s) k))).
    { intros nb s V n Hr HV Hh1 Hle Hsb (Hfn & Hlock & [HT0 _] & Hpend & _) Hfr EL k Hk.
      destruct (Hpend EL) as [(j & mv & Hjv & Hmv & Hjver & Himp & Hin & Huq)|(h & j & mv & Hjv & Hmv & Hjver & Himp & Hin & Huq)].
      - destruct (commit_new_block Bs s V n j mv HBs Hjv Hmv Hjver Himp Hfn HV Hr ltac:(lia) ltac:(lia) Hsb Hlock Hin Huq k Hk)
          as (A & _ & C). auto.
      - assert (Hfo : fetch_ok_at P fetch (sync_point P pay (sync_round P pay fetch s))).
        { exact (Hfr 1%nat ltac:(lia)). }
        destruct (commit_reproposal Bs s V n h j mv HBs Hjv Hmv Hjver Himp Hfn HV Hr ltac:(lia) ltac:(lia) Hsb Hlock HT0 Hin Huq Hfo k Hk)
          as (A & _ & C). auto. }
    induction nb as [|nb IH]; intros s V n Hr HV Hh1 Hle Hsb HLS Hfr (i & Hi & Hhi).
    - assert (i = 0%nat) by lia. subst i. rewrite Z.add_0_r in Hhi.
      exists 1%nat. split; [lia|]. intros k Hk. exact (Hhonest 0%nat s V n Hr HV Hh1 Hle Hsb HLS Hfr Hhi k Hk).
    - destruct (hon (leader V)) eqn:EL.
      + exists 1%nat. split; [lia|]. intros k Hk. exact (Hhonest (S nb) s V n Hr HV Hh1 Hle Hsb HLS Hfr EL k Hk).
      + destruct (wlockstep_timeout Bs s V n HBs Hr HV ltac:(lia) ltac:(lia) Hsb HLS EL) as (Hr2 & Hsb2 & HLS2).
        assert (Hex : exists i', (i' <= nb)%nat /\ hon (leader (V + 1 + Z.of_nat i')) = true).
        { destruct i as [|i']; [rewrite Z.add_0_r in Hhi; congruence|].
          exists i'. split; [lia|]. replace (V + 1 + Z.of_nat i') with (V + Z.of_nat (S i')) by lia. exact Hhi. }
        assert (Hfr2 : fetch_ok_run P pay fetch (sync_rounds P pay fetch 2 s) (2 * (nb + 1))).
        { apply fetch_ok_run_shift. replace (2 + 2 * (nb + 1))%nat with (2 * (S nb + 1))%nat by lia. exact Hfr. }
        destruct (IH _ (V + 1) n Hr2 ltac:(lia) ltac:(lia) ltac:(lia) Hsb2 HLS2 Hfr2 Hex) as (r & Hrr & Hall).
        exists (S r). split; [lia|]. intros k Hk.
        replace (2 * S r)%nat with (2 + 2 * r)%nat by lia. rewrite (sync_rounds_add P pay fetch 2).
        exact (Hall k Hk).
  Qed.
End Lockstep.
