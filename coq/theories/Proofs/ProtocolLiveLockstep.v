(* C06 on the protocol model, part 7: progress from a lockstep state.  A lockstep state: every
   honest node waits in view V with the blocks below n stored, nothing above block n-1 is voted
   or certified (tidy), and the network holds the one proposal of an honest leader of V for the
   new block n, or no verifying proposal for V if that leader is Byzantine.  A view with a
   Byzantine (silent) leader costs two rounds and leaves a lockstep state for the next view; a
   view with an honest leader commits block n within two rounds. *)
From Coq Require Import ZArith List Bool Lia.
From EC Require Import Lib.Outcome Lib.U64 Lib.ListW Lib.Obs Model.Msgs Model.Replica Model.ReplicaRun
  Model.Protocol Model.ProtocolSync Proofs.QCProofs Proofs.ProtocolLive Proofs.ProtocolLiveInv
  Proofs.ProtocolLiveCatch Proofs.ProtocolLiveNoStop.
From EC Require Import Proofs.ProtocolRefinesAbs Proofs.ProtocolRefinesStep.
From EC Require Import Proofs.ProtocolLiveCommitStep Proofs.ProtocolLiveCommitLock Proofs.ProtocolLiveCommit
  Proofs.ProtocolLiveTimeoutStep Proofs.ProtocolLiveTimeoutLock Proofs.ProtocolLiveTidy Proofs.ProtocolLiveTimeout.
Import ListNotations.
Open Scope Z_scope.

Section Lockstep.
  Variable P : params.
  Hypothesis HP : params_ok P.
  Variable pay : Z -> Z.
  Variable fetch : gstate -> Z -> option cqc.
  Hypothesis Henv : env_ok P pay.
  Notation hon := (honestb P).
  Notation cfg := (pcfg P).
  Notation leader := (cleader (pcfg P 0)).

  Definition noprop (s : gstate) (V : Z) : Prop :=
    forall m p' j' mv', In m (g_soup s) -> m_msg m = MProposal p' j' ->
      justification_view (E := unit) true j' = Ok mv' -> vnum mv' = V ->
      justification_verify (p_g P) (p_e P) (p_C P) j' = Ok tt -> False.
  Definition tidy (s : gstate) (n : Z) : Prop :=
    (forall q, gq (cfg 0) hon (g_soup s) q -> hnum (cprop (qmsg q)) < n) /\
    (forall k, hon k = true -> tidy_node P n (n_live (g_node s k))).
  Definition lockstep (s : gstate) (V n : Z) : Prop :=
    p_first P <= n /\ lock P s V n /\ tidy s n /\
    (hon (leader V) = true -> pending P pay s V n) /\
    (hon (leader V) = false -> noprop s V).

  (* a view with a Byzantine leader: two rounds later the next view, in lockstep *)
  Lemma lockstep_timeout Bs s V n : Bs + 1 < U64 -> preach P s -> 0 < V ->
    p_first P + V + 2 < U64 -> V + 1 <= Bs -> (forall m, In m (g_soup s) -> msg_view (m_msg m) <= Bs) ->
    lockstep s V n -> hon (leader V) = false ->
    let s2 := sync_rounds P pay fetch 2 s in
    preach P s2 /\ (forall m, In m (g_soup s2) -> msg_view (m_msg m) <= Bs) /\ lockstep s2 (V + 1) n.
  Proof.
    intros HBs Hr HV Hh1 Hle Hsb (Hfn & Hlock & [HT0 HX] & _ & Hnp) HL. cbv zeta. specialize (Hnp HL).
    destruct (timeout_two_rounds_post P HP pay fetch Henv V n HV s Hr Bs Hh1 HBs Hle Hsb Hlock Hnp)
      as (Hr2 & Hsb2 & Hlock2 & Hhon & Hbyz).
    destruct (timeout_two_rounds_tidy P HP pay fetch Henv V n HV s Hr Bs Hh1 HBs Hle Hsb Hlock Hnp HT0 HX)
      as (HT02 & HX2 & HTM2).
    split; [exact Hr2|]. split; [exact Hsb2|].
    split; [exact Hfn|]. split; [exact Hlock2|]. split; [split; assumption|]. split; [|exact Hbyz].
    intros HL'. destruct (Hhon HL') as (tq & p & EV & Hver & Hkt & Hp & Hin & Huq).
    assert (Htv : tqc_verify (p_g P) (p_e P) (p_C P) tq = Ok tt) by (apply justification_verify_iff in Hver; exact Hver).
    unfold proposal_payload in Hp.
    destruct (get_implied_block (E := unit) true (p_C P) (p_first P) (JTimeout tq)) as [[n' oh]| |] eqn:Ei; try discriminate.
    destruct (implied_tidy P HP n _ tq Hr2 Htv Hkt HT02) with (n' := n') (oh := oh) as [-> ->]; [|exact Hfn|exact Ei|].
    { intros h m Hh Hm Etv. apply (HTM2 h m Hh Hm). rewrite Etv. exact EV. }
    inversion Hp; subst p.
    exists (JTimeout tq), {| vgen := vgen (tqview tq); vepoch := vepoch (tqview tq); vnum := V + 1 |}.
    split.
    { unfold justification_view, num_next, u64_add. rewrite EV.
      assert (H : (V + 1 <? U64) = true) by (apply Z.ltb_lt; lia). rewrite H. reflexivity. }
    split; [reflexivity|]. split; [exact Hver|]. split; [exact Ei|]. split; [exact Hin|].
    intros m p' j' mv' Hin' Em Ek Esg Ejv EV' Ever. exact (Huq m p' j' mv' Hin' Em Ek Esg Ejv EV' Ever).
  Qed.

  (* the commit theorem for a new block *)
  Lemma commit_new_block Bs s V n j mv : Bs + 1 < U64 ->
    justification_view (E := unit) true j = Ok mv -> vnum mv = V ->
    justification_verify (p_g P) (p_e P) (p_C P) j = Ok tt ->
    get_implied_block (E := unit) true (p_C P) (p_first P) j = Ok (n, None) ->
    p_first P <= n -> 0 < V -> preach P s -> p_first P + V + 2 < U64 -> V + 1 <= Bs ->
    (forall m, In m (g_soup s) -> msg_view (m_msg m) <= Bs) -> lock P s V n ->
    In {| m_key := leader V; m_sig_ok := true; m_msg := MProposal (Some (pay n)) j |} (g_soup s) ->
    uniq_prop P V j (Some (pay n)) (g_soup s) ->
    forall k, hon k = true ->
      up (sync_rounds P pay fetch 2 s) k /\ V < hview (sync_rounds P pay fetch 2 s) k /\
      n < r_store_next (n_live (g_node (sync_rounds P pay fetch 2 s) k)).
  Proof.
    intros HBs Hjv Hmv Hjver Himp Hfn HV Hr Hh1 Hle Hsb Hlock Hin Huq.
    assert (Hkind : (@None Z = None /\ Some (pay n) = Some (pay n) /\ p_pok P n (pay n) = true /\ p_psize P (pay n) <= p_maxpay P) \/
                    (@None Z = Some (pay n) /\ Some (pay n) = None)).
    { left. destruct Henv as (Hpok & Hsz & _). auto. }
    exact (commit_two_rounds P HP pay fetch Henv V n j mv (Some (pay n)) (pay n) None Hjv Hmv Hjver Himp Hkind Hfn HV s Hr Bs
             Hh1 HBs Hle Hsb Hlock Hin Huq (or_introl eq_refl) (fun H => False_ind _ (H eq_refl))).
  Qed.

  (* progress: the first honest leader among V .. V+nb gets block n stored by everybody *)
  Theorem progress_from_lockstep (Bs : Z) : Bs + 1 < U64 -> forall nb s V n,
    preach P s -> 0 < V -> p_first P + V + Z.of_nat nb + 2 < U64 -> V + Z.of_nat nb + 1 <= Bs ->
    (forall m, In m (g_soup s) -> msg_view (m_msg m) <= Bs) ->
    lockstep s V n ->
    (exists i, (i <= nb)%nat /\ hon (leader (V + Z.of_nat i)) = true) ->
    exists r, (1 <= r <= nb + 1)%nat /\
      forall k, hon k = true ->
        up (sync_rounds P pay fetch (2 * r) s) k /\
        n < r_store_next (n_live (g_node (sync_rounds P pay fetch (2 * r) s) k)).
  Proof.
    intros HBs. induction nb as [|nb IH]; intros s V n Hr HV Hh1 Hle Hsb HLS (i & Hi & Hhi).
    - assert (i = 0%nat) by lia. subst i. rewrite Z.add_0_r in Hhi.
      destruct HLS as (Hfn & Hlock & _ & Hpend & _).
      destruct (Hpend Hhi) as (j & mv & Hjv & Hmv & Hjver & Himp & Hin & Huq).
      exists 1%nat. split; [lia|]. intros k Hk.
      destruct (commit_new_block Bs s V n j mv HBs Hjv Hmv Hjver Himp Hfn HV Hr ltac:(lia) ltac:(lia) Hsb Hlock Hin Huq k Hk)
        as (A & _ & C). auto.
    - destruct (hon (leader V)) eqn:EL.
      + destruct HLS as (Hfn & Hlock & _ & Hpend & _).
        destruct (Hpend EL) as (j & mv & Hjv & Hmv & Hjver & Himp & Hin & Huq).
        exists 1%nat. split; [lia|]. intros k Hk.
        destruct (commit_new_block Bs s V n j mv HBs Hjv Hmv Hjver Himp Hfn HV Hr ltac:(lia) ltac:(lia) Hsb Hlock Hin Huq k Hk)
          as (A & _ & C). auto.
      + destruct (lockstep_timeout Bs s V n HBs Hr HV ltac:(lia) ltac:(lia) Hsb HLS EL) as (Hr2 & Hsb2 & HLS2).
        assert (Hex : exists i', (i' <= nb)%nat /\ hon (leader (V + 1 + Z.of_nat i')) = true).
        { destruct i as [|i']; [rewrite Z.add_0_r in Hhi; congruence|].
          exists i'. split; [lia|]. replace (V + 1 + Z.of_nat i') with (V + Z.of_nat (S i')) by lia. exact Hhi. }
        destruct (IH _ (V + 1) n Hr2 ltac:(lia) ltac:(lia) ltac:(lia) Hsb2 HLS2 Hex) as (r & Hrr & Hall).
        exists (S r). split; [lia|]. intros k Hk.
        replace (2 * S r)%nat with (2 + 2 * r)%nat by lia. rewrite (sync_rounds_add P pay fetch 2).
        exact (Hall k Hk).
  Qed.
End Lockstep.
