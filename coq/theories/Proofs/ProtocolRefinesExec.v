(* An executable scheduler for Model/Protocol.v, proved sound w.r.t. [pstep]: it is used to
   exhibit concrete reachable states (non-vacuity examples) by computation. *)
From Coq Require Import ZArith List Bool Lia.
From EC Require Import Lib.Outcome Lib.U64 Lib.ListW Lib.Obs Model.Msgs Model.Replica Model.ReplicaRun
  Model.Protocol.
Import ListNotations.
Open Scope Z_scope.

Inductive xop :=
| XDeliver (k : Z) (i : nat)                       (* the i-th message of the soup to node k *)
| XTimer (k : Z)
| XCrash (k : Z) (i : option nat) (j : nat) (applied : bool)   (* crash while handling soup[i] / the timer *)
| XRestart (k : Z)
| XPropose (k : Z) (p : option Z).

Definition xstep (P : params) (s : gstate) (o : xop) : option gstate :=
  match o with
  | XDeliver k i =>
      if honestb P k && n_alive (g_node s k) then
        match nth_error (g_soup s) i with
        | Some m => Some (absorb s k (node_input (pcfg P k) (g_node s k) (IMsg m)))
        | None => None
        end
      else None
  | XTimer k =>
      if honestb P k && n_alive (g_node s k)
      then Some (absorb s k (node_input (pcfg P k) (g_node s k) ITimer)) else None
  | XCrash k i j applied =>
      if honestb P k && n_alive (g_node s k) then
        match i with
        | Some i0 =>
            match nth_error (g_soup s) i0 with
            | Some m => option_map (absorb s k) (node_crash (pcfg P k) (g_node s k) (IMsg m) j applied)
            | None => None
            end
        | None => option_map (absorb s k) (node_crash (pcfg P k) (g_node s k) ITimer j applied)
        end
      else None
  | XRestart k =>
      if honestb P k then Some (absorb s k (node_restart (pcfg P k) (g_node s k))) else None
  | XPropose k p =>
      if honestb P k && n_alive (g_node s k) then
        match n_notify (g_node s k) with
        | Some j => Some (add_msg s {| m_key := k; m_sig_ok := true; m_msg := MProposal p j |})
        | None => None
        end
      else None
  end.

Lemma xstep_sound P s o s' : xstep P s o = Some s' -> pstep P s s'.
Proof.
  destruct o as [k i|k|k i j applied|k|k p]; cbn [xstep].
  - destruct (honestb P k && n_alive (g_node s k)) eqn:E; [|discriminate].
    apply andb_true_iff in E. destruct E as [E1 E2].
    destruct (nth_error (g_soup s) i) as [m|] eqn:En; [|discriminate].
    intros H; inversion H; subst. apply PDeliver; auto. eapply nth_error_In; eauto.
  - destruct (honestb P k && n_alive (g_node s k)) eqn:E; [|discriminate].
    apply andb_true_iff in E. destruct E as [E1 E2].
    intros H; inversion H; subst. apply PTimer; auto.
  - destruct (honestb P k && n_alive (g_node s k)) eqn:E; [|discriminate].
    apply andb_true_iff in E. destruct E as [E1 E2]. destruct i as [i0|].
    + destruct (nth_error (g_soup s) i0) as [m|] eqn:En; [|discriminate].
      destruct (node_crash (pcfg P k) (g_node s k) (IMsg m) j applied) as [x|] eqn:Ec; [|discriminate].
      intros H; inversion H; subst. eapply PCrash; eauto. cbn. eapply nth_error_In; eauto.
    + destruct (node_crash (pcfg P k) (g_node s k) ITimer j applied) as [x|] eqn:Ec; [|discriminate].
      intros H; inversion H; subst. eapply PCrash; eauto. exact I.
  - destruct (honestb P k) eqn:E; [|discriminate].
    intros H; inversion H; subst. apply PRestart; auto.
  - destruct (honestb P k && n_alive (g_node s k)) eqn:E; [|discriminate].
    apply andb_true_iff in E. destruct E as [E1 E2].
    destruct (n_notify (g_node s k)) as [j|] eqn:En; [|discriminate].
    intros H; inversion H; subst. apply PPropose; auto.
Qed.

Fixpoint xrun (P : params) (s : gstate) (ops : list xop) : option gstate :=
  match ops with
  | [] => Some s
  | o :: rest => match xstep P s o with Some s' => xrun P s' rest | None => None end
  end.

Lemma xrun_reach P ops : forall s s', preach P s -> xrun P s ops = Some s' -> preach P s'.
Proof.
  induction ops as [|o ops IH]; intros s s' Hr H; cbn [xrun] in H.
  - inversion H; subst. exact Hr.
  - destruct (xstep P s o) as [s1|] eqn:E; [|discriminate].
    apply (IH s1 s'); [|exact H]. eapply PReachStep; [exact Hr|]. eapply xstep_sound; exact E.
Qed.

(* ---------- a concrete committee: four validators of weight 1, nobody Byzantine ---------- *)
Definition ex_C : committee := [ {| mkey := 1; mweight := 1 |}; {| mkey := 2; mweight := 1 |};
                                 {| mkey := 3; mweight := 1 |}; {| mkey := 4; mweight := 1 |} ].
Definition ex_P : params :=
  {| p_g := 7; p_e := 1; p_C := ex_C; p_first := 0; p_maxpay := 100; p_psize := fun _ => 1;
     p_pok := fun _ _ => true; p_byz := fun _ => false |}.

(* observation of a state: per node (view, phase, alive, next block), and the logs' sizes *)
Definition ex_obs (s : gstate) :=
  (map (fun k => (r_view (n_live (g_node s k)), phase_code (r_phase (n_live (g_node s k))),
                  n_alive (g_node s k), r_store_next (n_live (g_node s k)))) [1; 2; 3; 4],
   length (g_soup s), length (g_plog s), g_qlog s).
