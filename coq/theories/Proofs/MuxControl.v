(* C14: control-state invariant of the endpoint: every reusable stream carries at most one transient
   stream at a time; open transient streams per capability <= min(local limit, peer limit). *)
From Coq Require Import ZArith List Bool Lia.
From EC Require Import Lib.Outcome Lib.Obs Model.MuxHeader Model.Mux Proofs.MuxProofs Proofs.MuxRefine.
Import ListNotations.
Open Scope Z_scope.

Definition same (k : Z) (i : nat) (k' : Z) (i' : nat) : Prop := (k =? 0) = (k' =? 0) /\ i = i'.

Lemma same_or_other : forall k i k' i', same k i k' i' \/ other k i k' i'.
Proof.
  intros k i k' i'. unfold same, other. destruct (Bool.bool_dec (k =? 0) (k' =? 0)); destruct (Nat.eq_dec i i'); auto.
Qed.

Lemma same_not_other : forall k i k' i', same k i k' i' -> other k i k' i' -> False.
Proof. intros k i k' i' [H1 H2] [H|H]; auto. Qed.

Lemma nth_error_upd_nth_same : forall A (f : A -> A) (l : list A) n, nth_error (upd_nth n f l) n = option_map f (nth_error l n).
Proof.
  intros A f. induction l as [|x l IH]; intros n; [destruct n; reflexivity|]. destruct n; cbn [upd_nth nth_error option_map]; [reflexivity|apply IH].
Qed.

Lemma get_upd_same : forall e k i f k' i', same k i k' i' ->
  get_stream (upd_stream e k i f) k' i' = option_map f (get_stream e k' i').
Proof.
  intros e k i f k' i' [H ->]. unfold get_stream, upd_stream, set_table, table. rewrite <- H.
  destruct (k =? 0); cbn [e_acc e_con set_acc set_con]; apply nth_error_upd_nth_same.
Qed.

Lemma qs_upd_stream : forall e k i f, e_qs (upd_stream e k i f) = e_qs e.
Proof. intros. unfold upd_stream, set_table. destruct (k =? 0); reflexivity. Qed.
Lemma slots_upd_stream : forall e k i f, e_slots (upd_stream e k i f) = e_slots e.
Proof. intros. unfold upd_stream, set_table. destruct (k =? 0); reflexivity. Qed.

Definition live (r : slotrec) : bool := sl_r r || sl_w r.
Definition bkey (q : queue) : bool * Z := (q_kind q =? 0, q_cap q).

Record K (e : endpoint) : Prop := mkK {
  K1 : NoDup (map sl_id (e_slots e));
  K2 : NoDup (map bkey (e_qs e));
  K3 : forall q i, In q (e_qs e) -> In i (q_idle q) ->
         exists s, get_stream e (q_kind q) i = Some s /\ s_wph s = WQueue /\ s_cap s = q_cap q /\
                   ((q_kind q =? 0) = true -> s_rph s = RReady);
  K3n : forall q, In q (e_qs e) -> NoDup (q_idle q);
  K4p : forall q x r, In q (e_qs e) -> In x (q_pend q) -> In r (e_slots e) -> sl_id r = x -> sl_kind r = q_kind q;
  K4j : forall k i s x r, get_stream e k i = Some s -> s_wph s = WJoin x -> In r (e_slots e) -> sl_id r = x ->
         (sl_kind r =? 0) = (k =? 0);
  K4e : forall q x, In q (e_qs e) -> In x (q_pend q) -> In x (map sl_id (e_slots e));
  K4je : forall k i s x, get_stream e k i = Some s -> s_wph s = WJoin x -> In x (map sl_id (e_slots e));
  K5 : forall r i, In r (e_slots e) -> sl_sid r = Some i ->
         exists s, get_stream e (sl_kind r) i = Some s /\ (sl_w r = true -> s_wph s = WApp) /\ (sl_r r = true -> s_rph s = RApp);
  K5n : forall r, In r (e_slots e) -> sl_sid r = None -> live r = false;
  K6 : forall r1 r2 i, In r1 (e_slots e) -> In r2 (e_slots e) -> sl_sid r1 = Some i -> sl_sid r2 = Some i ->
         (sl_kind r1 =? 0) = (sl_kind r2 =? 0) -> live r1 = true -> live r2 = true -> sl_id r1 = sl_id r2 }.

(* ---- a change of one stream ---- *)
Lemma K_upd_stream : forall e k i s f,
  K e -> get_stream e k i = Some s ->
  (forall q, In q (e_qs e) -> In i (q_idle q) -> (q_kind q =? 0) = (k =? 0) ->
     s_wph (f s) = WQueue /\ s_cap (f s) = s_cap s /\ (s_rph s = RReady -> s_rph (f s) = RReady)) ->
  (forall x, s_wph (f s) = WJoin x -> s_wph s = WJoin x \/
     (In x (map sl_id (e_slots e)) /\ forall r, In r (e_slots e) -> sl_id r = x -> (sl_kind r =? 0) = (k =? 0))) ->
  (forall r, In r (e_slots e) -> sl_sid r = Some i -> (sl_kind r =? 0) = (k =? 0) ->
     (sl_w r = true -> s_wph (f s) = WApp) /\ (sl_r r = true -> s_rph (f s) = RApp)) ->
  K (upd_stream e k i f).
Proof.
  intros e k i s f HK E Hq Hj Hs. destruct HK as [k1 k2 k3 k3n k4p k4j k4e k4je k5 k5n k6].
  constructor; rewrite ?qs_upd_stream, ?slots_upd_stream; try assumption.
  - intros q i' Hin Hi'. destruct (k3 q i' Hin Hi') as (s0 & E0 & W0 & C0 & R0).
    destruct (same_or_other k i (q_kind q) i') as [Hsm|Hot].
    + rewrite (get_upd_same _ _ _ _ _ _ Hsm). destruct Hsm as [Hk ->]. 
      assert (s0 = s). { unfold get_stream, table in *. rewrite <- Hk in E0. congruence. } subst s0.
      rewrite E0. cbn [option_map]. exists (f s). destruct (Hq q Hin Hi' (eq_sym Hk)) as (A & B & C).
      split; [reflexivity|]. split; [exact A|]. split; [congruence|]. intros Hk0. apply C, R0, Hk0.
    + rewrite (get_upd_other _ _ _ _ _ _ Hot). exists s0. auto.
  - intros k' i' s' x r Eg Hw Hin Hid.
    destruct (same_or_other k i k' i') as [Hsm|Hot].
    + rewrite (get_upd_same _ _ _ _ _ _ Hsm) in Eg. destruct Hsm as [Hk ->].
      assert (E' : get_stream e k' i' = Some s). { unfold get_stream, table in *. rewrite <- Hk. exact E. }
      rewrite E' in Eg. cbn [option_map] in Eg. inversion Eg; subst s'.
      destruct (Hj x Hw) as [Hold|[_ Hnew]].
      * apply (k4j k' i' s x r E' Hold Hin Hid).
      * rewrite <- Hk. apply Hnew; assumption.
    + rewrite (get_upd_other _ _ _ _ _ _ Hot) in Eg. eapply k4j; eassumption.
  - intros k' i' s' x Eg Hw.
    destruct (same_or_other k i k' i') as [Hsm|Hot].
    + rewrite (get_upd_same _ _ _ _ _ _ Hsm) in Eg. destruct Hsm as [Hk ->].
      assert (E' : get_stream e k' i' = Some s). { unfold get_stream, table in *. rewrite <- Hk. exact E. }
      rewrite E' in Eg. cbn [option_map] in Eg. inversion Eg; subst s'.
      destruct (Hj x Hw) as [Hold|[Hnew _]]; [eapply k4je; eassumption|exact Hnew].
    + rewrite (get_upd_other _ _ _ _ _ _ Hot) in Eg. eapply k4je; eassumption.
  - intros r i' Hin Hsid. destruct (k5 r i' Hin Hsid) as (s0 & E0 & W0 & R0).
    destruct (same_or_other k i (sl_kind r) i') as [Hsm|Hot].
    + rewrite (get_upd_same _ _ _ _ _ _ Hsm). destruct Hsm as [Hk ->].
      assert (s0 = s). { unfold get_stream, table in *. rewrite <- Hk in E0. congruence. } subst s0.
      rewrite E0. cbn [option_map]. exists (f s). split; [reflexivity|]. apply Hs; [exact Hin|exact Hsid|symmetry; exact Hk].
    + rewrite (get_upd_other _ _ _ _ _ _ Hot). exists s0. auto.
Qed.

(* streams changes that keep the phases and the capability *)
Definition sctl (s : rstream) := (s_cap s, s_rph s, s_wph s).

Lemma K_upd_neutral : forall e k i f, K e -> (forall s, sctl (f s) = sctl s) -> K (upd_stream e k i f).
Proof.
  intros e k i f HK Hf. destruct (get_stream e k i) as [s|] eqn:E; [|rewrite upd_stream_none by exact E; exact HK].
  pose proof (Hf s) as Hs. unfold sctl in Hs. inversion Hs as [[Hc Hr Hw]].
  apply (K_upd_stream e k i s f HK E).
  - intros q Hin Hi Hk. destruct (K3 e HK q i Hin Hi) as (s0 & E0 & W0 & C0 & R0).
    assert (s0 = s). { unfold get_stream, table in *. rewrite Hk in E0. congruence. } subst s0.
    rewrite Hw, Hr. auto.
  - intros x Hx. left. congruence.
  - intros r Hin Hsid Hk. destruct (K5 e HK r i Hin Hsid) as (s0 & E0 & W0 & R0).
    assert (s0 = s). { unfold get_stream, table in *. rewrite Hk in E0. congruence. } subst s0.
    rewrite Hw, Hr. auto.
Qed.
Lemma K_same : forall e e', e_slots e' = e_slots e -> e_qs e' = e_qs e -> e_acc e' = e_acc e -> e_con e' = e_con e ->
  K e -> K e'.
Proof.
  intros e e' H1 H2 H3 H4 HK.
  assert (Hg : forall k i, get_stream e' k i = get_stream e k i) by (intros; unfold get_stream, table; rewrite H3, H4; reflexivity).
  destruct HK as [k1 k2 k3 k3n k4p k4j k4e k4je k5 k5n k6].
  constructor; rewrite ?H1, ?H2; try assumption.
  - intros q i Hin Hi. rewrite Hg. apply k3; assumption.
  - intros k i s x r Eg. rewrite Hg in Eg. eapply k4j; eassumption.
  - intros k i s x Eg. rewrite Hg in Eg. eapply k4je; eassumption.
  - intros r i Hin Hs. rewrite Hg. apply k5; assumption.
Qed.

Ltac ksame e := intros; eapply (K_same e); [| | | |eassumption]; reflexivity.

Lemma K_set_d : forall e x, K e -> K (set_d e x). Proof. intros e; ksame e. Qed.
Lemma K_set_events : forall e x, K e -> K (set_events e x). Proof. intros e; ksame e. Qed.
Lemma K_set_out : forall e x l, K e -> K (set_out e x l). Proof. intros e; ksame e. Qed.
Lemma K_set_fail : forall e x, K e -> K (set_fail e x). Proof. intros e; ksame e. Qed.
Lemma K_set_gone : forall e, K e -> K (set_gone e). Proof. intros e; ksame e. Qed.
Lemma K_add_event : forall e ev, K e -> K (add_event e ev). Proof. intros e; ksame e. Qed.
Lemma K_release : forall e f, K e -> K (release e f). Proof. intros e; ksame e. Qed.
Lemma K_skip : forall e s, K e -> K (skip e s). Proof. intros e; ksame e. Qed.
Lemma K_emit : forall e h d, K e -> K (emit e h d).
Proof. intros e h d HK. unfold emit. destruct (e_gone e); [apply K_set_fail; exact HK|]. destruct d; apply K_set_out; exact HK. Qed.
Lemma K_emit_frames : forall ps e k i, K e -> K (emit_frames e k i ps).
Proof. unfold emit_frames. induction ps as [|p ps IH]; intros e k i HK; cbn [fold_left]; [exact HK|]. apply IH. apply K_emit. exact HK. Qed.
Lemma K_emit_data : forall ps e k i, K e -> K (emit_data e k i ps).
Proof. intros ps e k i HK. unfold emit_data. apply K_upd_neutral; [apply K_emit_frames; exact HK|intros s; reflexivity]. Qed.
Lemma K_fold_release : forall rel e, K e -> K (fold_left release rel e).
Proof. induction rel as [|f rel IH]; intros e HK; cbn [fold_left]; [exact HK|]. apply IH, K_release, HK. Qed.

Lemma K_upd_const_neutral : forall e k i s s', K e -> get_stream e k i = Some s -> sctl s' = sctl s ->
  K (upd_stream e k i (fun _ => s')).
Proof.
  intros e k i s s' HK E Hs.
  unfold sctl in Hs. inversion Hs as [[Hc Hr Hw]].
  apply (K_upd_stream e k i s (fun _ => s') HK E).
  - intros q Hin Hi Hk. destruct (K3 e HK q i Hin Hi) as (s0 & E0 & W0 & C0 & R0).
    assert (s0 = s). { unfold get_stream, table in *. rewrite Hk in E0. congruence. } subst s0.
    rewrite Hw, Hr. auto.
  - intros x Hx. left. congruence.
  - intros r Hin Hsid Hk. destruct (K5 e HK r i Hin Hsid) as (s0 & E0 & W0 & R0).
    assert (s0 = s). { unfold get_stream, table in *. rewrite Hk in E0. congruence. } subst s0.
    rewrite Hw, Hr. auto.
Qed.

Lemma K_deliver : forall e k i f, K e -> K (deliver e k i f).
Proof. intros e k i f HK. unfold deliver. apply K_upd_neutral; [exact HK|]. intros s. reflexivity. Qed.

(* ---- queues ---- *)
Lemma in_upd_queue : forall e k cap g q', In q' (e_qs (upd_queue e k cap g)) ->
  exists q, In q (e_qs e) /\ q' = (if (q_kind q =? k) && (q_cap q =? cap) then g q else q).
Proof.
  intros e k cap g q' H. unfold upd_queue in H. cbn [set_qs e_qs] in H. apply in_map_iff in H.
  destruct H as (q & Hq & Hin). exists q. split; [exact Hin|symmetry; exact Hq].
Qed.

Lemma K_upd_queue : forall e k cap g,
  K e ->
  (forall q, In q (e_qs e) -> q_kind q = k -> q_cap q = cap ->
     q_kind (g q) = k /\ q_cap (g q) = cap /\
     NoDup (q_idle (g q)) /\
     (forall i, In i (q_idle (g q)) -> In i (q_idle q) \/
        exists s, get_stream e k i = Some s /\ s_wph s = WQueue /\ s_cap s = cap /\ ((k =? 0) = true -> s_rph s = RReady)) /\
     (forall x, In x (q_pend (g q)) -> In x (q_pend q) \/
        (In x (map sl_id (e_slots e)) /\ forall r, In r (e_slots e) -> sl_id r = x -> sl_kind r = k))) ->
  K (upd_queue e k cap g).
Proof.
  intros e k cap g HK Hg. destruct HK as [k1 k2 k3 k3n k4p k4j k4e k4je k5 k5n k6].
  assert (Hgs : forall k' i', get_stream (upd_queue e k cap g) k' i' = get_stream e k' i') by reflexivity.
  assert (Hcase : forall q', In q' (e_qs (upd_queue e k cap g)) ->
            In q' (e_qs e) \/ exists q, In q (e_qs e) /\ q_kind q = k /\ q_cap q = cap /\ q' = g q).
  { intros q' H. destruct (in_upd_queue _ _ _ _ _ H) as (q & Hin & ->).
    destruct ((q_kind q =? k) && (q_cap q =? cap)) eqn:Em; [|left; exact Hin].
    apply andb_prop in Em. destruct Em as [E1 E2]. apply Z.eqb_eq in E1, E2. right. exists q. auto. }
  constructor; try assumption.
  - (* keys *)
    unfold upd_queue. cbn [set_qs e_qs]. rewrite map_map.
    replace (map (fun x => bkey (if (q_kind x =? k) && (q_cap x =? cap) then g x else x)) (e_qs e)) with (map bkey (e_qs e)); [exact k2|].
    apply map_ext_in. intros q Hin. destruct ((q_kind q =? k) && (q_cap q =? cap)) eqn:Em; [|reflexivity].
    apply andb_prop in Em. destruct Em as [E1 E2]. apply Z.eqb_eq in E1, E2.
    destruct (Hg q Hin E1 E2) as (A & B & _). unfold bkey. rewrite A, B, E1, E2. reflexivity.
  - intros q' i Hin Hi. rewrite Hgs. destruct (Hcase q' Hin) as [Hold|(q & Hq & Ek & Ec & ->)]; [apply k3; assumption|].
    destruct (Hg q Hq Ek Ec) as (A & B & _ & Hidle & _). rewrite A, B.
    destruct (Hidle i Hi) as [Hio|Hnew].
    + destruct (k3 q i Hq Hio) as (s & E & W & C & R). exists s. rewrite <- Ek, <- Ec. auto.
    + exact Hnew.
  - intros q' Hin. destruct (Hcase q' Hin) as [Hold|(q & Hq & Ek & Ec & ->)]; [apply k3n; assumption|].
    destruct (Hg q Hq Ek Ec) as (_ & _ & Hnd & _). exact Hnd.
  - intros q' x r Hin Hx Hr Hid. change (e_slots (upd_queue e k cap g)) with (e_slots e) in Hr.
    destruct (Hcase q' Hin) as [Hold|(q & Hq & Ek & Ec & ->)]; [eapply k4p; eassumption|].
    destruct (Hg q Hq Ek Ec) as (A & _ & _ & _ & Hp). rewrite A.
    destruct (Hp x Hx) as [Hxo|[_ Hnew]]; [rewrite <- Ek; eapply k4p; eassumption|apply Hnew; assumption].
  - intros q' x Hin Hx. change (e_slots (upd_queue e k cap g)) with (e_slots e).
    destruct (Hcase q' Hin) as [Hold|(q & Hq & Ek & Ec & ->)]; [eapply k4e; eassumption|].
    destruct (Hg q Hq Ek Ec) as (_ & _ & _ & _ & Hp).
    destruct (Hp x Hx) as [Hxo|[Hnew _]]; [eapply k4e; eassumption|exact Hnew].
Qed.
(* ---- slots ---- *)
Lemma in_upd_slot : forall e x g r', In r' (e_slots (upd_slot e x g)) ->
  exists r, In r (e_slots e) /\ r' = (if sl_id r =? x then g r else r).
Proof.
  intros e x g r' H. unfold upd_slot in H. cbn [set_slots e_slots] in H. apply in_map_iff in H.
  destruct H as (r & Hr & Hin). exists r. split; [exact Hin|symmetry; exact Hr].
Qed.

Lemma K_upd_slot : forall e x g,
  K e ->
  (forall r, sl_id (g r) = sl_id r /\ sl_kind (g r) = sl_kind r) ->
  (forall r, In r (e_slots e) -> sl_id r = x ->
      (sl_sid (g r) = None -> live (g r) = false) /\
      (forall i, sl_sid (g r) = Some i ->
         exists s, get_stream e (sl_kind r) i = Some s /\ (sl_w (g r) = true -> s_wph s = WApp) /\ (sl_r (g r) = true -> s_rph s = RApp)) /\
      (forall i, sl_sid (g r) = Some i -> live (g r) = true ->
         (sl_sid r = Some i /\ live r = true) \/
         (forall r2, In r2 (e_slots e) -> sl_id r2 <> x -> sl_sid r2 = Some i -> (sl_kind r2 =? 0) = (sl_kind r =? 0) -> live r2 = false))) ->
  K (upd_slot e x g).
Proof.
  intros e x g HK Hid Hg. destruct HK as [k1 k2 k3 k3n k4p k4j k4e k4je k5 k5n k6].
  assert (Hgs : forall k' i', get_stream (upd_slot e x g) k' i' = get_stream e k' i') by reflexivity.
  assert (Hids : map sl_id (e_slots (upd_slot e x g)) = map sl_id (e_slots e)).
  { unfold upd_slot. cbn [set_slots e_slots]. rewrite map_map. apply map_ext. intros r. destruct (sl_id r =? x); [apply Hid|reflexivity]. }
  assert (Hcase : forall r', In r' (e_slots (upd_slot e x g)) ->
            exists r, In r (e_slots e) /\ sl_id r' = sl_id r /\ sl_kind r' = sl_kind r /\
                      ((sl_id r <> x /\ r' = r) \/ (sl_id r = x /\ r' = g r))).
  { intros r' H. destruct (in_upd_slot _ _ _ _ H) as (r & Hin & ->). exists r. split; [exact Hin|].
    destruct (sl_id r =? x) eqn:Ex.
    - apply Z.eqb_eq in Ex. destruct (Hid r) as [A B]. split; [exact A|]. split; [exact B|]. right. auto.
    - apply Z.eqb_neq in Ex. split; [reflexivity|]. split; [reflexivity|]. left. auto. }
  constructor; rewrite ?Hids; try assumption.
  - intros q xx r' Hq Hx Hr' Hidr. destruct (Hcase r' Hr') as (r & Hin & A & B & _). rewrite B. eapply k4p; try eassumption. congruence.
  - intros k i s xx r' Eg Hw Hr' Hidr. destruct (Hcase r' Hr') as (r & Hin & A & B & _). rewrite B. eapply k4j; try eassumption. congruence.
  - intros r' i Hr' Hs. rewrite Hgs. destruct (Hcase r' Hr') as (r & Hin & A & B & [[Hne ->]|[He ->]]).
    + apply k5; assumption.
    + destruct (Hg r Hin He) as (_ & H5 & _). rewrite B. apply H5. exact Hs.
  - intros r' Hr' Hs. destruct (Hcase r' Hr') as (r & Hin & A & B & [[Hne ->]|[He ->]]).
    + apply k5n; assumption.
    + destruct (Hg r Hin He) as (H5n & _). apply H5n. exact Hs.
  - intros r1' r2' i Hr1 Hr2 Hs1 Hs2 Hk Hl1 Hl2.
    destruct (Hcase r1' Hr1) as (r1 & Hin1 & A1 & B1 & C1). destruct (Hcase r2' Hr2) as (r2 & Hin2 & A2 & B2 & C2).
    rewrite A1, A2. rewrite B1, B2 in Hk.
    destruct C1 as [[Hne1 ->]|[He1 ->]]; destruct C2 as [[Hne2 ->]|[He2 ->]].
    + eapply k6; eassumption.
    + destruct (Hg r2 Hin2 He2) as (_ & _ & H6). destruct (H6 i Hs2 Hl2) as [[Hs2' Hl2']|Hno].
      * eapply k6; eassumption.
      * rewrite (Hno r1 Hin1 Hne1 Hs1 Hk) in Hl1. discriminate.
    + destruct (Hg r1 Hin1 He1) as (_ & _ & H6). destruct (H6 i Hs1 Hl1) as [[Hs1' Hl1']|Hno].
      * eapply k6; eassumption.
      * rewrite (Hno r2 Hin2 Hne2 Hs2 (eq_sym Hk)) in Hl2. discriminate.
    + congruence.
Qed.

(* a record is determined by its id *)
Lemma slot_unique : forall e r1 r2, K e -> In r1 (e_slots e) -> In r2 (e_slots e) -> sl_id r1 = sl_id r2 -> r1 = r2.
Proof.
  intros e r1 r2 HK. pose proof (K1 e HK) as Hnd. induction (e_slots e) as [|r l IH]; intros H1 H2 Hid; [destruct H1|].
  cbn [map] in Hnd. inversion Hnd as [|? ? Hni Hnd']; subst.
  destruct H1 as [->|H1]; destruct H2 as [->|H2]; try reflexivity.
  - exfalso. apply Hni. rewrite Hid. apply in_map. exact H2.
  - exfalso. apply Hni. rewrite <- Hid. apply in_map. exact H1.
  - apply IH; assumption.
Qed.

(* dropping a half, or bookkeeping of the write offset *)
Lemma K_upd_slot_weaken : forall e x g, K e ->
  (forall r, sl_id (g r) = sl_id r /\ sl_kind (g r) = sl_kind r /\ sl_sid (g r) = sl_sid r /\
             (sl_r (g r) = true -> sl_r r = true) /\ (sl_w (g r) = true -> sl_w r = true)) ->
  K (upd_slot e x g).
Proof.
  intros e x g HK Hg. apply K_upd_slot; [exact HK|intros r; destruct (Hg r) as (A & B & _); auto|].
  intros r Hin Hx. destruct (Hg r) as (A & B & C & D & E).
  assert (Hlive : live (g r) = true -> live r = true).
  { unfold live. intros H. apply orb_prop in H. destruct H as [H|H]; [rewrite (D H)|rewrite (E H), orb_true_r]; reflexivity. }
  split; [|split].
  - intros Hs. rewrite C in Hs. pose proof (K5n e HK r Hin Hs) as Hl. destruct (live (g r)) eqn:El; [|reflexivity].
    rewrite (Hlive eq_refl) in Hl. discriminate.
  - intros i Hs. rewrite C in Hs. destruct (K5 e HK r i Hin Hs) as (s & E0 & W0 & R0). exists s. auto.
  - intros i Hs Hl. left. rewrite C in Hs. auto.
Qed.
Lemma K_complete_read : forall e k i p, K e -> K (complete_read e k i p).
Proof.
  intros e k i p HK. unfold complete_read. apply K_add_event.
  apply K_upd_slot_weaken; [|intros r; cbn; repeat split; auto]. apply K_upd_neutral; [exact HK|]. intros s. reflexivity.
Qed.

Lemma K_read_iter : forall e k i s p e', K e -> get_stream e k i = Some s -> read_iter e k i s p = Some e' -> K e'.
Proof.
  intros e k i s p e' HK E H. unfold read_iter in H. destruct (read_iter_s s p) as [|s' rel done] eqn:Er; [discriminate|].
  inversion H; subst e'. clear H.
  assert (Hm : K (fold_left release rel (upd_stream e k i (fun _ => s')))).
  { apply K_fold_release. apply (K_upd_const_neutral e k i s s' HK E).
    destruct (read_iter_s_ctl _ _ _ _ _ Er) as (A & B & C). unfold sctl. congruence. }
  destruct done; [|exact Hm]. destruct (s_pread s'); [|exact Hm]. apply K_complete_read. exact Hm.
Qed.

Lemma get_same_table : forall e k k' i, (k =? 0) = (k' =? 0) -> get_stream e k i = get_stream e k' i.
Proof. intros e k k' i H. unfold get_stream, table. rewrite H. reflexivity. Qed.

Lemma not_in_idle : forall e k i s q, K e -> get_stream e k i = Some s -> s_wph s <> WQueue ->
  In q (e_qs e) -> (q_kind q =? 0) = (k =? 0) -> ~ In i (q_idle q).
Proof.
  intros e k i s q HK E Hw Hin Hk Hi. destruct (K3 e HK q i Hin Hi) as (s0 & E0 & W0 & _).
  rewrite (get_same_table e _ _ i Hk) in E0. congruence.
Qed.

Lemma no_w_slot : forall e k i s r, K e -> get_stream e k i = Some s -> s_wph s <> WApp ->
  In r (e_slots e) -> sl_sid r = Some i -> (sl_kind r =? 0) = (k =? 0) -> sl_w r = false.
Proof.
  intros e k i s r HK E Hw Hin Hs Hk. destruct (K5 e HK r i Hin Hs) as (s0 & E0 & W0 & _).
  rewrite (get_same_table e _ _ i Hk) in E0. destruct (sl_w r); [|reflexivity]. exfalso. apply Hw. rewrite <- (W0 eq_refl). congruence.
Qed.

Lemma no_r_slot : forall e k i s r, K e -> get_stream e k i = Some s -> s_rph s <> RApp ->
  In r (e_slots e) -> sl_sid r = Some i -> (sl_kind r =? 0) = (k =? 0) -> sl_r r = false.
Proof.
  intros e k i s r HK E Hw Hin Hs Hk. destruct (K5 e HK r i Hin Hs) as (s0 & E0 & _ & R0).
  rewrite (get_same_table e _ _ i Hk) in E0. destruct (sl_r r); [|reflexivity]. exfalso. apply Hw. rewrite <- (R0 eq_refl). congruence.
Qed.

(* ---- push(): a stream in state WQueue enters the queue of its capability ---- *)
Lemma K_enqueue : forall e k i s, K e -> get_stream e k i = Some s -> s_wph s = WQueue ->
  ((k =? 0) = true -> s_rph s = RReady) ->
  (forall q, In q (e_qs e) -> q_kind q = k -> ~ In i (q_idle q)) ->
  K (enqueue_idle e k (s_cap s) i).
Proof.
  intros e k i s HK E Hw Hr Hni. unfold enqueue_idle. apply K_upd_queue; [exact HK|].
  intros q Hin Ek Ec. cbn [q_kind q_cap q_idle q_pend]. split; [exact Ek|]. split; [exact Ec|]. split; [|split].
  - assert (H : NoDup (q_idle q ++ [i])).
    { pose proof (K3n e HK q Hin) as Hnd. specialize (Hni q Hin Ek).
      induction (q_idle q) as [|a l IH]; cbn [app]; [constructor; [intros []|constructor]|].
      inversion Hnd as [|? ? Ha Hl]; subst. constructor.
      - intros Hx. apply in_app_or in Hx. destruct Hx as [Hx|[Hx|[]]]; [exact (Ha Hx)|]. apply Hni. left. symmetry. exact Hx.
      - apply IH; [intros Hx; apply Hni; right; exact Hx|exact Hl]. }
    exact H.
  - intros i' Hi'. apply in_app_or in Hi'. destruct Hi' as [Hi'|[<-|[]]]; [left; exact Hi'|]. right. exists s. auto.
  - intros x Hx. left. exact Hx.
Qed.

(* ---- a matched pair (idle stream, waiting open) leaves its queue ---- *)
Lemma queue_by_key : forall e q q', K e -> In q (e_qs e) -> In q' (e_qs e) -> bkey q = bkey q' -> q = q'.
Proof.
  intros e q q' HK. pose proof (K2 e HK) as Hnd. induction (e_qs e) as [|a l IH]; intros H1 H2 Hk; [destruct H1|].
  cbn [map] in Hnd. inversion Hnd as [|? ? Hni Hnd']; subst.
  destruct H1 as [->|H1]; destruct H2 as [->|H2]; try reflexivity.
  - exfalso. apply Hni. rewrite Hk. apply in_map. exact H2.
  - exfalso. apply Hni. rewrite <- Hk. apply in_map. exact H1.
  - apply IH; assumption.
Qed.

Lemma K_pop : forall e q0 i idle x pend, K e -> In q0 (e_qs e) -> q_idle q0 = i :: idle -> q_pend q0 = x :: pend ->
  let e' := upd_queue e (q_kind q0) (q_cap q0) (fun _ => mkQueue (q_kind q0) (q_cap q0) idle pend) in
  K e' /\
  (forall q', In q' (e_qs e') -> (q_kind q' =? 0) = (q_kind q0 =? 0) -> ~ In i (q_idle q')).
Proof.
  intros e q0 i idle x pend HK Hin0 Hi Hp e'.
  assert (Hq0 : forall q, In q (e_qs e) -> q_kind q = q_kind q0 -> q_cap q = q_cap q0 -> q = q0).
  { intros q Hin Ek Ec. apply (queue_by_key e q q0 HK Hin Hin0). unfold bkey. rewrite Ek, Ec. reflexivity. }
  pose proof (K3n e HK q0 Hin0) as Hnd. rewrite Hi in Hnd. inversion Hnd as [|? ? Hni Hnd']; subst.
  split.
  - apply K_upd_queue; [exact HK|]. intros q Hin Ek Ec. rewrite (Hq0 q Hin Ek Ec). cbn [q_kind q_cap q_idle q_pend].
    split; [reflexivity|]. split; [reflexivity|]. split; [exact Hnd'|]. split.
    + intros i' Hi'. left. rewrite Hi. right. exact Hi'.
    + intros x' Hx'. left. rewrite Hp. right. exact Hx'.
  - intros q' Hin' Hk Hi'. destruct (in_upd_queue _ _ _ _ _ Hin') as (q & Hin & ->).
    destruct ((q_kind q =? q_kind q0) && (q_cap q =? q_cap q0)) eqn:Em.
    + cbn [q_idle] in Hi'. exact (Hni Hi').
    + (* another queue of the same table holding i would have the same capability: the same queue *)
      destruct (K3 e HK q i Hin Hi') as (s & E & _ & C & _).
      assert (Hi0 : In i (q_idle q0)) by (rewrite Hi; left; reflexivity).
      destruct (K3 e HK q0 i Hin0 Hi0) as (s0 & E0 & _ & C0 & _).
      rewrite (get_same_table e _ _ i Hk) in E. assert (s = s0) by congruence. subst s0.
      assert (q = q0). { apply (queue_by_key e q q0 HK Hin Hin0). unfold bkey. rewrite Hk. congruence. }
      subst q. rewrite !Z.eqb_refl in Em. discriminate.
Qed.
(* ---- hand-over of a reusable stream to a waiting open() ---- *)
Lemma K_handover : forall e k i s x, K e -> get_stream e k i = Some s ->
  s_wph s <> WApp -> s_rph s <> RApp ->
  (forall q, In q (e_qs e) -> (q_kind q =? 0) = (k =? 0) -> ~ In i (q_idle q)) ->
  (forall r, In r (e_slots e) -> sl_id r = x -> (sl_kind r =? 0) = (k =? 0)) ->
  K (handover e k i x).
Proof.
  intros e k i s x HK E Hw Hr Hni Hkc. unfold handover. apply K_add_event.
  set (f := fun s => g_reader (set_wph (set_rph s RApp) WApp)).
  assert (H1 : K (upd_stream e k i f)).
  { apply (K_upd_stream e k i s f HK E).
    - intros q Hin Hi Hk. exfalso. exact (Hni q Hin Hk Hi).
    - intros y Hy. discriminate.
    - intros r Hin Hs Hk. split; reflexivity. }
  apply K_upd_slot; [exact H1|intros r; split; reflexivity|].
  intros r Hin Hx. rewrite slots_upd_stream in Hin. cbn [sl_sid sl_r sl_w sl_kind live].
  split; [discriminate|]. split.
  - intros i' Hi'. inversion Hi'; subst i'. exists (f s). split; [|split; reflexivity].
    rewrite (get_same_table _ _ k i (Hkc r Hin Hx)). rewrite (get_upd_same e k i f k i (conj eq_refl eq_refl)), E. reflexivity.
  - intros i' Hi' _. inversion Hi'; subst i'. right. intros r2 Hin2 Hne Hs2 Hk2. rewrite slots_upd_stream in Hin2.
    assert (Hk2' : (sl_kind r2 =? 0) = (k =? 0)) by (rewrite Hk2; apply Hkc; assumption).
    unfold live. rewrite (no_r_slot e k i s r2 HK E Hr Hin2 Hs2 Hk2'), (no_w_slot e k i s r2 HK E Hw Hin2 Hs2 Hk2'). reflexivity.
Qed.

(* ---- after send_close ---- *)
Lemma K_after_close : forall e k i s, K e -> get_stream e k i = Some s -> s_wph s = WApp ->
  (forall r, In r (e_slots e) -> sl_sid r = Some i -> (sl_kind r =? 0) = (k =? 0) -> sl_w r = false) ->
  K (after_close e k i).
Proof.
  intros e k i s HK E Hw Hnw. unfold after_close. rewrite E.
  assert (Hni : forall q, In q (e_qs e) -> (q_kind q =? 0) = (k =? 0) -> ~ In i (q_idle q)).
  { intros q Hin Hk. apply (not_in_idle e k i s q HK E); [rewrite Hw; discriminate|exact Hin|exact Hk]. }
  assert (Hgen : forall w, (forall y, w <> WJoin y) ->
            K (upd_stream e k i (fun s => set_wph s w))).
  { intros w Hwj. apply (K_upd_stream e k i s _ HK E).
    - intros q Hin Hi Hk. exfalso. exact (Hni q Hin Hk Hi).
    - intros y Hy. cbn [set_wph s_wph] in Hy. exfalso. exact (Hwj y Hy).
    - intros r Hin Hs Hk. cbn [set_wph s_wph s_rph]. split.
      + intros Hwr. rewrite (Hnw r Hin Hs Hk) in Hwr. discriminate.
      + intros Hrr. destruct (K5 e HK r i Hin Hs) as (s0 & E0 & _ & R0).
        rewrite (get_same_table e _ _ i Hk) in E0. assert (s0 = s) by congruence. subst s0. exact (R0 Hrr). }
  destruct (k =? 0) eqn:Ek0.
  - apply Hgen. intros y; discriminate.
  - set (e1 := upd_stream e k i (fun s => set_wph s WQueue)).
    assert (E1 : get_stream e1 k i = Some (set_wph s WQueue)).
    { unfold e1. rewrite (get_upd_same e k i _ k i (conj eq_refl eq_refl)), E. reflexivity. }
    change (s_cap s) with (s_cap (set_wph s WQueue)).
    apply (K_enqueue e1 k i (set_wph s WQueue)); [apply Hgen; intros y; discriminate|exact E1|reflexivity| |].
    + intros Hx. rewrite Ek0 in Hx. discriminate Hx.
    + intros q Hin Ekq. unfold e1 in Hin. rewrite qs_upd_stream in Hin. apply Hni; [exact Hin|rewrite Ekq; exact Ek0].
Qed.

Lemma get_emit_frames : forall ps e k i k' i', get_stream (emit_frames e k i ps) k' i' = get_stream e k' i'.
Proof.
  unfold emit_frames. induction ps as [|p ps IH]; intros e k i k' i'; cbn [fold_left]; [reflexivity|]. rewrite IH. apply get_emit.
Qed.
Lemma slots_emit : forall e h d, e_slots (emit e h d) = e_slots e.
Proof. intros. unfold emit. destruct (e_gone e); [reflexivity|]. destruct d; reflexivity. Qed.
Lemma qs_emit : forall e h d, e_qs (emit e h d) = e_qs e.
Proof. intros. unfold emit. destruct (e_gone e); [reflexivity|]. destruct d; reflexivity. Qed.
Lemma slots_emit_frames : forall ps e k i, e_slots (emit_frames e k i ps) = e_slots e.
Proof. unfold emit_frames. induction ps as [|p ps IH]; intros e k i; cbn [fold_left]; [reflexivity|]. rewrite IH. apply slots_emit. Qed.
Lemma slots_emit_data : forall ps e k i, e_slots (emit_data e k i ps) = e_slots e.
Proof. intros. unfold emit_data. rewrite slots_upd_stream. apply slots_emit_frames. Qed.
Lemma get_emit_data_same : forall ps e k i, get_stream (emit_data e k i ps) k i =
  option_map (fun s => g_sent s ps) (get_stream e k i).
Proof. intros. unfold emit_data. rewrite (get_upd_same _ k i _ k i (conj eq_refl eq_refl)), get_emit_frames. reflexivity. Qed.
Lemma get_emit_data_other : forall ps e k i k' i', other k i k' i' -> get_stream (emit_data e k i ps) k' i' = get_stream e k' i'.
Proof. intros. unfold emit_data. rewrite get_upd_other by assumption. apply get_emit_frames. Qed.

Lemma K_send_close : forall e k i s, K e -> get_stream e k i = Some s -> s_wph s = WApp ->
  (forall r, In r (e_slots e) -> sl_sid r = Some i -> (sl_kind r =? 0) = (k =? 0) -> sl_w r = false) ->
  K (send_close e k i).
Proof.
  intros e k i s HK E Hw Hnw. unfold send_close. rewrite E.
  set (e1 := match s_wbuf s with [] => e | b => emit_data e k i [b] end).
  assert (H1 : K e1) by (unfold e1; destruct (s_wbuf s); [exact HK|apply K_emit_data; exact HK]).
  assert (G1 : exists s1, get_stream e1 k i = Some s1 /\ s_wph s1 = WApp).
  { unfold e1. destruct (s_wbuf s); [exists s; auto|]. rewrite get_emit_data_same, E. cbn [option_map]. eexists. split; [reflexivity|exact Hw]. }
  destruct G1 as (s1 & G1 & Hw1).
  assert (S1 : e_slots e1 = e_slots e) by (unfold e1; destruct (s_wbuf s); [reflexivity|apply slots_emit_data]).
  set (e2 := upd_stream e1 k i (fun s => set_wbuf s [])).
  assert (H2 : K e2) by (apply K_upd_neutral; [exact H1|intros s0; reflexivity]).
  assert (G2 : get_stream e2 k i = Some (set_wbuf s1 [])).
  { unfold e2. rewrite (get_upd_same e1 k i _ k i (conj eq_refl eq_refl)), G1. reflexivity. }
  set (e3 := emit e2 _ None).
  apply (K_after_close e3 k i (set_wbuf s1 [])).
  - apply K_emit. exact H2.
  - unfold e3. rewrite get_emit. exact G2.
  - exact Hw1.
  - intros r Hin. assert (Hin' : In r (e_slots e)).
    { unfold e3 in Hin. rewrite slots_emit in Hin. unfold e2 in Hin. rewrite slots_upd_stream, S1 in Hin. exact Hin. }
    apply Hnw. exact Hin'.
Qed.

(* ---- internal transitions ---- *)
Lemma K_stream_step : forall e k i e', K e -> stream_step e k i = Some e' -> K e'.
Proof.
  intros e k i e' HK H. unfold stream_step in H. destruct (get_stream e k i) as [s|] eqn:E; [|discriminate].
  assert (Hmain : (match s_rph s, s_wph s with
                   | RReady, WWaitOpen => Some (enqueue_idle (upd_stream e k i (fun s => set_wph s WQueue)) k (s_cap s) i)
                   | RReady, WJoin slot => Some (handover e k i slot)
                   | _, _ => None
                   end) = Some e' -> K e').
  { intros Hm. destruct (s_rph s) eqn:Er; try discriminate. destruct (s_wph s) eqn:Ew; try discriminate; inversion Hm; subst e'.
    - (* WWaitOpen -> WQueue, enters its queue *)
      assert (Hni : forall q, In q (e_qs e) -> (q_kind q =? 0) = (k =? 0) -> ~ In i (q_idle q)).
      { intros q Hin Hk. apply (not_in_idle e k i s q HK E); [rewrite Ew; discriminate|exact Hin|exact Hk]. }
      set (e1 := upd_stream e k i (fun s => set_wph s WQueue)).
      assert (H1 : K e1).
      { apply (K_upd_stream e k i s _ HK E).
        - intros q Hin Hi Hk. exfalso. exact (Hni q Hin Hk Hi).
        - intros y Hy. discriminate.
        - intros r Hin Hs Hk. cbn [set_wph s_wph s_rph]. split.
          + intros Hwr. rewrite (no_w_slot e k i s r HK E) in Hwr; try assumption; [discriminate|rewrite Ew; discriminate].
          + intros Hrr. rewrite (no_r_slot e k i s r HK E) in Hrr; try assumption; [discriminate|rewrite Er; discriminate]. }
      change (s_cap s) with (s_cap (set_wph s WQueue)).
      apply (K_enqueue e1 k i (set_wph s WQueue)); [exact H1| |reflexivity| |].
      + unfold e1. rewrite (get_upd_same e k i _ k i (conj eq_refl eq_refl)), E. reflexivity.
      + intros _. exact Er.
      + intros q Hin Ekq. unfold e1 in Hin. rewrite qs_upd_stream in Hin. apply Hni; [exact Hin|rewrite Ekq; reflexivity].
    - (* WJoin -> hand-over *)
      apply (K_handover e k i s slot HK E); [rewrite Ew; discriminate|rewrite Er; discriminate| |].
      + intros q Hin Hk. apply (not_in_idle e k i s q HK E); [rewrite Ew; discriminate|exact Hin|exact Hk].
      + intros r Hin Hid. apply (K4j e HK k i s slot r E Ew Hin Hid). }
  assert (Hdisc : forall f t, s_rph s = RDiscard -> s_inq s = f :: t ->
            K (release (upd_stream e k i (fun _ => if fkind f =? FK_OPEN then g_open_seen (set_rph (set_inq s t) RReady) else set_inq s t)) f)).
  { intros f t Er Eq. apply K_release.
    set (s2 := if fkind f =? FK_OPEN then g_open_seen (set_rph (set_inq s t) RReady) else set_inq s t).
    assert (Hc : s_cap s2 = s_cap s /\ s_wph s2 = s_wph s) by (unfold s2; destruct (fkind f =? FK_OPEN); split; reflexivity).
    destruct Hc as [Hc Hw2].
    apply (K_upd_stream e k i s (fun _ => s2) HK E).
    - intros q Hin Hi Hk. destruct (K3 e HK q i Hin Hi) as (s0 & E0 & W0 & C0 & R0).
      rewrite (get_same_table e _ _ i Hk) in E0. assert (s0 = s) by congruence. subst s0.
      split; [congruence|]. split; [exact Hc|]. intros Hrr. rewrite Er in Hrr. discriminate.
    - intros y Hy. left. congruence.
    - intros r Hin Hs Hk. split.
      + intros Hwr. destruct (K5 e HK r i Hin Hs) as (s0 & E0 & W0 & _).
        rewrite (get_same_table e _ _ i Hk) in E0. assert (s0 = s) by congruence. subst s0. rewrite Hw2. exact (W0 Hwr).
      + intros Hrr. rewrite (no_r_slot e k i s r HK E) in Hrr; try assumption; [discriminate|rewrite Er; discriminate]. }
  destruct (s_rph s) eqn:Er; destruct (s_inq s) as [|f t] eqn:Eq; destruct (s_pread s) as [p|] eqn:Ep;
    try (eapply K_read_iter; eassumption); try (apply Hmain; exact H); try discriminate;
    try (inversion H; subst e'; apply Hdisc; reflexivity).
Qed.

Lemma get_upd_queue : forall e k c g k' i', get_stream (upd_queue e k c g) k' i' = get_stream e k' i'.
Proof. reflexivity. Qed.

Lemma K_pop_push : forall e q i idle x pend, K e -> In q (e_qs e) -> q_idle q = i :: idle -> q_pend q = x :: pend ->
  K (upd_stream (emit (upd_queue e (q_kind q) (q_cap q) (fun _ => mkQueue (q_kind q) (q_cap q) idle pend)) (mk_header FK_OPEN (kind_bits (q_kind q)) i) None)
                (q_kind q) i (fun s0 => g_push (set_wph s0 (WJoin x)) x)).
Proof.
  intros e q i idle x pend HK Hin Ei Ep.
  destruct (K_pop e q i idle x pend HK Hin Ei Ep) as [H1 Hni].
  set (e1 := upd_queue e (q_kind q) (q_cap q) (fun _ => mkQueue (q_kind q) (q_cap q) idle pend)) in *.
  set (e2 := emit e1 (mk_header FK_OPEN (kind_bits (q_kind q)) i) None) in *.
  assert (H2 : K e2) by (apply K_emit; exact H1).
  assert (Hi : In i (q_idle q)) by (rewrite Ei; left; reflexivity).
  assert (Hx : In x (q_pend q)) by (rewrite Ep; left; reflexivity).
  destruct (K3 e HK q i Hin Hi) as (s & E & W & C & R).
  assert (E2 : get_stream e2 (q_kind q) i = Some s) by (unfold e2; rewrite get_emit; exact E).
  assert (S2 : e_slots e2 = e_slots e) by (unfold e2, emit; destruct (e_gone e1); reflexivity).
  assert (Q2 : e_qs e2 = e_qs e1) by (unfold e2, emit; destruct (e_gone e1); reflexivity).
  assert (Hkc : forall r, In r (e_slots e2) -> sl_id r = x -> sl_kind r = q_kind q).
  { intros r Hr Hid. rewrite S2 in Hr. apply (K4p e HK q x r Hin Hx Hr Hid). }
  assert (Hni2 : forall q', In q' (e_qs e2) -> (q_kind q' =? 0) = (q_kind q =? 0) -> ~ In i (q_idle q')).
  { intros q' Hq'. rewrite Q2 in Hq'. apply Hni. exact Hq'. }
  apply (K_upd_stream e2 (q_kind q) i s _ H2 E2).
  + intros q' Hq' Hi' Hk'. exfalso. apply (Hni2 q' Hq'); [exact Hk'|exact Hi'].
  + intros y Hy. cbn [g_push set_g set_wph s_wph] in Hy. inversion Hy; subst y. right. split.
    * rewrite S2. apply (K4e e HK q x Hin Hx).
    * intros r Hr Hid. rewrite (Hkc r Hr Hid). reflexivity.
  + intros r Hr Hs Hk. rewrite S2 in Hr. cbn [g_push set_g set_wph s_wph s_rph]. split.
    * intros Hwr. rewrite (no_w_slot e (q_kind q) i s r HK E) in Hwr; try assumption; [discriminate|rewrite W; discriminate].
    * intros Hrr. destruct (K5 e HK r i Hr Hs) as (s0 & E0 & _ & R0).
      rewrite (get_same_table e _ _ i Hk) in E0. assert (s0 = s) by congruence. subst s0. exact (R0 Hrr).
Qed.

Lemma K_queue_step : forall e q e', K e -> In q (e_qs e) -> queue_step e q = Some e' -> K e'.
Proof.
  intros e q e' HK Hin H. unfold queue_step in H. destruct (q_idle q) as [|i idle] eqn:Ei; [discriminate|].
  destruct (q_pend q) as [|x pend] eqn:Ep; [discriminate|].
  destruct (K_pop e q i idle x pend HK Hin Ei Ep) as [H1 Hni].
  set (e1 := upd_queue e (q_kind q) (q_cap q) (fun _ => mkQueue (q_kind q) (q_cap q) idle pend)) in *.
  set (e2 := emit e1 (mk_header FK_OPEN (kind_bits (q_kind q)) i) None) in *.
  assert (H2 : K e2) by (apply K_emit; exact H1).
  assert (Hi : In i (q_idle q)) by (rewrite Ei; left; reflexivity).
  assert (Hx : In x (q_pend q)) by (rewrite Ep; left; reflexivity).
  destruct (K3 e HK q i Hin Hi) as (s & E & W & C & R).
  assert (E2 : get_stream e2 (q_kind q) i = Some s) by (unfold e2; rewrite get_emit; exact E).
  assert (S2 : e_slots e2 = e_slots e) by (unfold e2, emit; destruct (e_gone e1); reflexivity).
  assert (Q2 : e_qs e2 = e_qs e1) by (unfold e2, emit; destruct (e_gone e1); reflexivity).
  assert (Hkc : forall r, In r (e_slots e2) -> sl_id r = x -> sl_kind r = q_kind q).
  { intros r Hr Hid. rewrite S2 in Hr. apply (K4p e HK q x r Hin Hx Hr Hid). }
  assert (Hni2 : forall q', In q' (e_qs e2) -> (q_kind q' =? 0) = (q_kind q =? 0) -> ~ In i (q_idle q')).
  { intros q' Hq'. rewrite Q2 in Hq'. apply Hni. exact Hq'. }
  set (f3 := fun s0 : rstream => g_push (set_wph s0 (WJoin x)) x).
  set (e3 := upd_stream e2 (q_kind q) i f3) in *.
  assert (H3 : K e3).
  { apply (K_upd_stream e2 (q_kind q) i s _ H2 E2).
    + intros q' Hq' Hi' Hk'. exfalso. apply (Hni2 q' Hq'); [exact Hk'|exact Hi'].
    + intros y Hy. cbn [f3 g_push set_g set_wph s_wph] in Hy. inversion Hy; subst y. right. split.
      * rewrite S2. apply (K4e e HK q x Hin Hx).
      * intros r Hr Hid. rewrite (Hkc r Hr Hid). reflexivity.
    + intros r Hr Hs Hk. rewrite S2 in Hr. cbn [f3 g_push set_g set_wph s_wph s_rph]. split.
      * intros Hwr. rewrite (no_w_slot e (q_kind q) i s r HK E) in Hwr; try assumption; [discriminate|rewrite W; discriminate].
      * intros Hrr. destruct (K5 e HK r i Hr Hs) as (s0 & E0 & _ & R0).
        rewrite (get_same_table e _ _ i Hk) in E0. assert (s0 = s) by congruence. subst s0. exact (R0 Hrr). }
  assert (E3 : get_stream e3 (q_kind q) i = Some (f3 s)).
  { unfold e3. rewrite (get_upd_same e2 _ i _ _ i (conj eq_refl eq_refl)), E2. reflexivity. }
  destruct (q_kind q =? 0) eqn:Ek; inversion H; subst e'; [|exact H3].
  apply (K_handover e3 (q_kind q) i (f3 s) x H3 E3).
  - cbn. discriminate.
  - cbn [f3 g_push set_g set_wph s_rph]. rewrite (R eq_refl). discriminate.
  - intros q' Hq' Hk'. unfold e3 in Hq'. rewrite qs_upd_stream in Hq'. apply Hni2; [exact Hq'|rewrite Hk', Ek; reflexivity].
  - intros r Hr Hid. unfold e3 in Hr. rewrite slots_upd_stream in Hr. rewrite (Hkc r Hr Hid). rewrite Ek. reflexivity.
Qed.
Lemma K_drain_step : forall e k i e', K e -> drain_step e k i = Some e' -> K e'.
Proof.
  intros e k i e' HK H. unfold drain_step in H. destruct (get_stream e k i) as [s|] eqn:E; [|discriminate].
  destruct (s_rph s); try discriminate. destruct (s_pread s) as [p|]; [|discriminate].
  destruct (read_iter e k i s p) as [e1|] eqn:Er; inversion H; subst e'.
  - eapply K_read_iter; eassumption.
  - apply K_complete_read. exact HK.
Qed.

Lemma K_streams_pass : forall n e k i, K e -> K (fst (streams_pass e k n i)).
Proof.
  induction n as [|n IH]; intros e k i HK; cbn [streams_pass]; [exact HK|].
  destruct (stream_step e k i) as [e'|] eqn:E.
  - specialize (IH e' k (S i) (K_stream_step _ _ _ _ HK E)). destruct (streams_pass e' k n (S i)) as [e'' b]. exact IH.
  - apply IH. exact HK.
Qed.

Lemma K_drain_pass : forall n e k i, K e -> K (fst (drain_pass e k n i)).
Proof.
  induction n as [|n IH]; intros e k i HK; cbn [drain_pass]; [exact HK|].
  destruct (drain_step e k i) as [e'|] eqn:E.
  - specialize (IH e' k (S i) (K_drain_step _ _ _ _ HK E)). destruct (drain_pass e' k n (S i)) as [e'' b]. exact IH.
  - apply IH. exact HK.
Qed.

Lemma K_queues_pass : forall qs e, K e -> K (fst (queues_pass e qs)).
Proof.
  induction qs as [|[k cap] qs IH]; intros e HK; cbn [queues_pass]; [exact HK|].
  destruct (find _ (e_qs e)) as [q|] eqn:Ef; [|apply IH; exact HK].
  destruct (queue_step e q) as [e'|] eqn:E; [|apply IH; exact HK].
  apply find_some in Ef. destruct Ef as [Hin _].
  specialize (IH e' (K_queue_step _ _ _ HK Hin E)). destruct (queues_pass e' qs) as [e'' b]. exact IH.
Qed.

Lemma K_disp_run : forall fuel e, K e -> K (fst (disp_run fuel e)).
Proof.
  induction fuel as [|fuel IH]; intros e HK; cbn [disp_run]; [exact HK|].
  destruct (dstep _ _ _ _) as [|d|d k i f|d code]; cbn [fst].
  - exact HK.
  - specialize (IH (set_d e d) (K_set_d _ _ HK)). destruct (disp_run fuel (set_d e d)) as [e' b]. exact IH.
  - apply K_deliver, K_set_d, HK.
  - apply K_set_fail, K_set_d, HK.
Qed.

Lemma K_ep_round : forall e, K e -> K (fst (ep_round e)).
Proof.
  intros e HK. unfold ep_round. destruct (e_fail e).
  - pose proof (K_drain_pass (length (e_acc e)) e 0 0%nat HK) as P1.
    destruct (drain_pass e 0 (length (e_acc e)) 0) as [e2 p2]. cbn [fst] in P1.
    pose proof (K_drain_pass (length (e_con e2)) e2 1 0%nat P1) as P2.
    destruct (drain_pass e2 1 (length (e_con e2)) 0) as [e3 p3]. exact P2.
  - pose proof (K_disp_run 4 e HK) as P1. destruct (disp_run 4 e) as [e1 p1]. cbn [fst] in P1.
    pose proof (K_streams_pass (length (e_acc e1)) e1 0 0%nat P1) as P2.
    destruct (streams_pass e1 0 (length (e_acc e1)) 0) as [e2 p2]. cbn [fst] in P2.
    pose proof (K_streams_pass (length (e_con e2)) e2 1 0%nat P2) as P3.
    destruct (streams_pass e2 1 (length (e_con e2)) 0) as [e3 p3]. cbn [fst] in P3.
    pose proof (K_queues_pass (map (fun q => (q_kind q, q_cap q)) (e_qs e3)) e3 P3) as P4.
    destruct (queues_pass e3 _) as [e4 p4]. exact P4.
Qed.

(* ---- application operations ---- *)
Lemma K_slot_op : forall e o r, K e -> In r (e_slots e) -> K (slot_op e o r).
Proof.
  intros e o r HK Hin. unfold slot_op. destruct (sl_sid r) as [i|] eqn:Es; [|apply K_skip; exact HK].
  destruct (get_stream e (sl_kind r) i) as [s|] eqn:E; [|apply K_skip; exact HK].
  (* the other records of the list never hold the same half of the same stream *)
  assert (Hexcl : forall r2, In r2 (e_slots e) -> sl_id r2 <> sl_id r -> sl_sid r2 = Some i -> (sl_kind r2 =? 0) = (sl_kind r =? 0) ->
            live r = true -> live r2 = false).
  { intros r2 Hin2 Hne Hs2 Hk2 Hl. destruct (live r2) eqn:El2; [|reflexivity]. exfalso. apply Hne.
    apply (K6 e HK r2 r i Hin2 Hin Hs2 Es Hk2 El2 Hl). }
  destruct o; try exact HK.
  - (* write *) destruct (sl_w r); [|apply K_skip; exact HK]. unfold op_write. destruct (write_all _ _ _) as [frames buf].
    apply K_upd_slot_weaken; [|intros r0; cbn; repeat split; auto]. apply K_upd_neutral; [apply K_emit_data; exact HK|intros s0; reflexivity].
  - (* flush *) destruct (sl_w r); [|apply K_skip; exact HK]. unfold op_flush. destruct (s_wbuf s); [exact HK|].
    apply K_upd_neutral; [apply K_emit_data; exact HK|intros s0; reflexivity].
  - (* read *) destruct (sl_r r && negb _); [|apply K_skip; exact HK]. unfold op_read. apply K_upd_neutral; [exact HK|intros s0; reflexivity].
  - (* dropw *) destruct (sl_w r) eqn:Ew; [|apply K_skip; exact HK]. unfold op_dropw.
    set (g := fun r0 => mkSlot (sl_id r0) (sl_kind r0) (sl_sid r0) (sl_r r0) false (sl_woff r0) (sl_g r0)).
    assert (H1 : K (upd_slot e (sl_id r) g)) by (apply K_upd_slot_weaken; [exact HK|intros r0; cbn; repeat split; auto; intros Hx; discriminate Hx]).
    destruct (K5 e HK r i Hin Es) as (s0 & E0 & W0 & _). assert (s0 = s) by congruence. subst s0.
    apply (K_send_close (upd_slot e (sl_id r) g) (sl_kind r) i s H1 E (W0 Ew)).
    intros r' Hr' Hs' Hk'. destruct (in_upd_slot _ _ _ _ Hr') as (r0 & Hin0 & ->).
    destruct (sl_id r0 =? sl_id r) eqn:Ex; [reflexivity|]. apply Z.eqb_neq in Ex.
    assert (Hl : live r = true) by (unfold live; rewrite Ew; apply orb_true_r).
    pose proof (Hexcl r0 Hin0 Ex Hs' Hk' Hl) as Hl0. unfold live in Hl0. apply orb_false_elim in Hl0. tauto.
  - (* dropr *) destruct (sl_r r) eqn:Er; cbn [andb]; [|apply K_skip; exact HK]. destruct (negb _); [|apply K_skip; exact HK]. unfold op_dropr.
    set (g := fun r0 => mkSlot (sl_id r0) (sl_kind r0) (sl_sid r0) false (sl_w r0) (sl_woff r0) (sl_g r0)).
    set (e1 := upd_slot e (sl_id r) g).
    assert (H1 : K e1) by (apply K_upd_slot_weaken; [exact HK|intros r0; cbn; repeat split; auto; intros Hx; discriminate Hx]).
    set (e2 := match s_cache s with Some f => release e1 f | None => e1 end).
    assert (H2 : K e2) by (unfold e2; destruct (s_cache s); [apply K_release|]; exact H1).
    assert (S2 : e_slots e2 = e_slots e1) by (unfold e2; destruct (s_cache s); reflexivity).
    assert (Q2 : e_qs e2 = e_qs e) by (unfold e2; destruct (s_cache s); reflexivity).
    assert (G2 : forall k' i', get_stream e2 k' i' = get_stream e k' i') by (intros; unfold e2; destruct (s_cache s); reflexivity).
    destruct (K5 e HK r i Hin Es) as (s0 & E0 & _ & R0). assert (s0 = s) by congruence. subst s0. specialize (R0 Er).
    apply (K_upd_stream e2 (sl_kind r) i s _ H2); [rewrite G2; exact E| | |].
    + intros q Hq Hi Hk. rewrite Q2 in Hq. destruct (K3 e HK q i Hq Hi) as (s0 & E3 & W0' & C0 & _).
      rewrite (get_same_table e _ _ i Hk) in E3. assert (s0 = s) by congruence. subst s0.
      cbn. split; [exact W0'|]. split; [reflexivity|]. intros Hrr. rewrite R0 in Hrr. discriminate.
    + intros y Hy. left. exact Hy.
    + intros r' Hr' Hs' Hk'. rewrite S2 in Hr'. destruct (in_upd_slot _ _ _ _ Hr') as (r0 & Hin0 & ->). cbn [set_closed set_cache set_rph s_wph s_rph].
      destruct (sl_id r0 =? sl_id r) eqn:Ex.
      * cbn [g sl_w sl_r]. apply Z.eqb_eq in Ex. rewrite (slot_unique e r0 r HK Hin0 Hin Ex). split; [|discriminate].
        intros Hw. destruct (K5 e HK r i Hin Es) as (s0 & E5 & W0' & _). assert (s0 = s) by congruence. subst s0. exact (W0' Hw).
      * apply Z.eqb_neq in Ex. assert (Hl : live r = true) by (unfold live; rewrite Er; reflexivity).
        assert (Hs0 : sl_sid r0 = Some i) by exact Hs'. assert (Hk0 : (sl_kind r0 =? 0) = (sl_kind r =? 0)) by exact Hk'.
        pose proof (Hexcl r0 Hin0 Ex Hs0 Hk0 Hl) as Hl0. unfold live in Hl0. apply orb_false_elim in Hl0. destruct Hl0 as [A B].
        rewrite A, B. split; discriminate.
Qed.
(* ---- open(): a fresh slot waits in the queue of its capability ---- *)
Lemma K_op_open : forall e kind cap slot, K e -> ~ In slot (map sl_id (e_slots e)) -> K (op_open e kind cap slot).
Proof.
  intros e kind cap slot HK Hfresh. unfold op_open.
  set (new := mkSlot slot kind None false false 0 (mkLG [] O false)).
  set (e1 := set_slots e (e_slots e ++ [new])).
  assert (Hin1 : forall r, In r (e_slots e1) -> In r (e_slots e) \/ r = new).
  { intros r Hr. unfold e1 in Hr. cbn [set_slots e_slots] in Hr. apply in_app_or in Hr. destruct Hr as [Hr|[Hr|[]]]; auto. }
  assert (Hids : forall x, In x (map sl_id (e_slots e)) -> In x (map sl_id (e_slots e1))).
  { intros x Hx. unfold e1. cbn [set_slots e_slots]. rewrite map_app. apply in_or_app. left. exact Hx. }
  assert (H1 : K e1).
  { destruct HK as [k1 k2 k3 k3n k4p k4j k4e k4je k5 k5n k6].
    assert (Hg : forall k i, get_stream e1 k i = get_stream e k i) by reflexivity.
    constructor; try assumption.
    - unfold e1. cbn [set_slots e_slots]. rewrite map_app. cbn [map sl_id new].
      clear -k1 Hfresh. induction (map sl_id (e_slots e)) as [|a l IH]; cbn [app]; [constructor; [intros []|constructor]|].
      inversion k1 as [|? ? Ha Hl]; subst. constructor.
      + intros Hx. apply in_app_or in Hx. destruct Hx as [Hx|[Hx|[]]]; [exact (Ha Hx)|]. apply Hfresh. left. symmetry. exact Hx.
      + apply IH; [exact Hl|]. intros Hx. apply Hfresh. right. exact Hx.
    - intros q x r Hq Hx Hr Hid. destruct (Hin1 r Hr) as [Hold| ->]; [eapply k4p; eassumption|].
      exfalso. apply Hfresh. cbn [new sl_id] in Hid. subst x. eapply k4e; eassumption.
    - intros k i s x r Eg Hw Hr Hid. destruct (Hin1 r Hr) as [Hold| ->]; [eapply k4j; eassumption|].
      exfalso. apply Hfresh. cbn [new sl_id] in Hid. subst x. eapply k4je; eassumption.
    - intros q x Hq Hx. apply Hids. eapply k4e; eassumption.
    - intros k i s x Eg Hw. apply Hids. eapply k4je; eassumption.
    - intros r i Hr Hs. destruct (Hin1 r Hr) as [Hold| ->]; [apply k5; assumption|discriminate].
    - intros r Hr Hs. destruct (Hin1 r Hr) as [Hold| ->]; [apply k5n; assumption|reflexivity].
    - intros r1 r2 i Hr1 Hr2 Hs1 Hs2 Hk Hl1 Hl2.
      destruct (Hin1 r1 Hr1) as [Ho1| ->]; [|discriminate]. destruct (Hin1 r2 Hr2) as [Ho2| ->]; [|discriminate].
      eapply k6; eassumption. }
  apply K_upd_queue; [exact H1|]. intros q Hq Ek Ec. cbn [q_kind q_cap q_idle q_pend].
  split; [exact Ek|]. split; [exact Ec|]. split; [apply (K3n e1 H1 q Hq)|]. split.
  - intros i Hi. left. exact Hi.
  - intros x Hx. apply in_app_or in Hx. destruct Hx as [Hx|[<-|[]]]; [left; exact Hx|]. right. split.
    + unfold e1. cbn [set_slots e_slots]. rewrite map_app. apply in_or_app. right. left. reflexivity.
    + intros r Hr Hid. destruct (Hin1 r Hr) as [Hold| ->]; [|reflexivity].
      exfalso. apply Hfresh. rewrite <- Hid. apply in_map. exact Hold.
Qed.

(* ---- start of Mux::run ---- *)
Lemma NoDup_app_disj : forall A (l1 l2 : list A), NoDup l1 -> NoDup l2 -> (forall x, In x l1 -> ~ In x l2) -> NoDup (l1 ++ l2).
Proof.
  intros A l1 l2 H1 H2 Hd. induction H1 as [|a l Ha Hl IH]; cbn [app]; [exact H2|].
  constructor.
  - intros Hx. apply in_app_or in Hx. destruct Hx as [Hx|Hx]; [exact (Ha Hx)|]. apply (Hd a (or_introl eq_refl) Hx).
  - apply IH. intros x Hx. apply Hd. right. exact Hx.
Qed.

Lemma ksorted_nodup_tag : forall (b : bool) (kd : Z) m, ksorted m ->
  NoDup (map bkey (map (fun p => mkQueue kd (fst p) [] []) m)).
Proof.
  intros b kd m Hs. induction Hs as [|a l Hl IH Ha]; cbn [map]; [constructor|].
  constructor; [|exact IH]. intros Hx. rewrite map_map in Hx. apply in_map_iff in Hx. destruct Hx as (p & Hp & Hin).
  unfold bkey in Hp. cbn [q_kind q_cap] in Hp. inversion Hp as [Hc].
  rewrite Forall_forall in Ha. specialize (Ha p Hin). unfold klt in Ha. lia.
Qed.

Lemma get_new_stream : forall l i s, nth_error (map new_stream l) i = Some s -> exists c, s = new_stream c.
Proof.
  intros l i s H. apply nth_error_In in H. apply in_map_iff in H. destruct H as (c & <- & _). exists c. reflexivity.
Qed.

Lemma get_send_close_other : forall e k i k' i', other k i k' i' -> get_stream (send_close e k i) k' i' = get_stream e k' i'.
Proof.
  intros e k i k' i' Ho. unfold send_close. destruct (get_stream e k i) as [s|] eqn:E; [|reflexivity].
  unfold after_close.
  set (e1 := match s_wbuf s with [] => e | b => emit_data e k i [b] end).
  assert (G1 : get_stream e1 k' i' = get_stream e k' i').
  { unfold e1. destruct (s_wbuf s); [reflexivity|apply get_emit_data_other; exact Ho]. }
  set (e3 := emit (upd_stream e1 k i (fun s0 => set_wbuf s0 [])) _ None).
  assert (G3 : get_stream e3 k' i' = get_stream e k' i').
  { unfold e3. rewrite get_emit, get_upd_other by exact Ho. exact G1. }
  destruct (get_stream e3 k i) as [s3|]; [|exact G3].
  destruct (k =? 0) eqn:Ek.
  - rewrite get_upd_other by exact Ho. exact G3.
  - rewrite get_enqueue_idle. rewrite get_upd_other by exact Ho. exact G3.
Qed.

Lemma slots_send_close : forall e k i, e_slots (send_close e k i) = e_slots e.
Proof.
  intros e k i. unfold send_close. destruct (get_stream e k i) as [s|]; [|reflexivity]. unfold after_close.
  set (e1 := match s_wbuf s with [] => e | b => emit_data e k i [b] end).
  assert (S1 : e_slots e1 = e_slots e) by (unfold e1; destruct (s_wbuf s); [reflexivity|apply slots_emit_data]).
  set (e3 := emit _ _ None).
  assert (S3 : e_slots e3 = e_slots e) by (unfold e3; rewrite slots_emit, slots_upd_stream; exact S1).
  destruct (get_stream e3 k i); [|exact S3]. destruct (k =? 0).
  - rewrite slots_upd_stream. exact S3.
  - unfold enqueue_idle, upd_queue. cbn [set_qs e_slots]. rewrite slots_upd_stream. exact S3.
Qed.

Lemma K_initial_close : forall n e k i, K e -> e_slots e = [] ->
  (forall j s, (i <= j)%nat -> get_stream e k j = Some s -> s_wph s = WApp) ->
  K (initial_close e k n i) /\ e_slots (initial_close e k n i) = [] /\
  (forall k' j, (k' =? 0) <> (k =? 0) -> get_stream (initial_close e k n i) k' j = get_stream e k' j).
Proof.
  induction n as [|n IH]; intros e k i HK Hs Hw; cbn [initial_close]; [auto|].
  assert (H1 : K (send_close e k i)).
  { destruct (get_stream e k i) as [s|] eqn:E.
    - apply (K_send_close e k i s HK E (Hw i s (le_n _) E)). intros r Hr. rewrite Hs in Hr. destruct Hr.
    - unfold send_close. rewrite E. exact HK. }
  destruct (IH (send_close e k i) k (S i) H1) as (A & B & C).
  - rewrite slots_send_close. exact Hs.
  - intros j s Hj Ej. rewrite get_send_close_other in Ej by (right; lia). apply (Hw j s); [lia|exact Ej].
  - split; [exact A|]. split; [exact B|]. intros k' j Hk. rewrite C by exact Hk. apply get_send_close_other. left. congruence.
Qed.

Lemma K_ep_init : forall c acc con pacc pcon, K (ep_init c acc con pacc pcon).
Proof.
  intros c acc con pacc pcon. unfold ep_init.
  set (qs := _ ++ _). set (e0 := mkEp c (init_d c) [] [] qs [] [] false [] [] None).
  assert (Hqs : NoDup (map bkey qs)).
  { unfold qs. rewrite map_app. apply NoDup_app_disj.
    - apply (ksorted_nodup_tag true 0). apply bt_of_list_sorted.
    - apply (ksorted_nodup_tag false 1). apply bt_of_list_sorted.
    - intros x H1 H2. rewrite map_map in H1, H2. apply in_map_iff in H1, H2.
      destruct H1 as (p1 & <- & _). destruct H2 as (p2 & Hp & _). unfold bkey in Hp. cbn in Hp. discriminate. }
  assert (Hqe : forall q, In q qs -> q_idle q = [] /\ q_pend q = []).
  { intros q Hq. unfold qs in Hq. apply in_app_or in Hq. destruct Hq as [Hq|Hq]; apply in_map_iff in Hq; destruct Hq as (p & <- & _); auto. }
  assert (Hbase : forall sa sc, let e1 := set_con (set_acc e0 (map new_stream sa)) (map new_stream sc) in K e1).
  { intros sa sc e1.
    assert (Hnew : forall k i s, get_stream e1 k i = Some s -> exists cc, s = new_stream cc).
    { intros k i s H. unfold get_stream, table, e1 in H. destruct (k =? 0); cbn [set_con set_acc e_acc e_con] in H; eapply get_new_stream; exact H. }
    constructor; cbn [e1 set_con set_acc e_slots e_qs e0 map].
    - constructor.
    - exact Hqs.
    - intros q i Hq Hi. destruct (Hqe q Hq) as [A _]. rewrite A in Hi. destruct Hi.
    - intros q Hq. destruct (Hqe q Hq) as [A _]. rewrite A. constructor.
    - intros q x r _ _ [].
    - intros k i s x r _ _ [].
    - intros q x Hq Hx. destruct (Hqe q Hq) as [_ B]. rewrite B in Hx. destruct Hx.
    - intros k i s x Eg Hw. destruct (Hnew k i s Eg) as (cc & ->). discriminate.
    - intros r i [].
    - intros r [].
    - intros r1 r2 i []. }
  assert (H0 : K e0) by (apply (Hbase [] [])).
  destruct (negb _); [apply K_set_fail; exact H0|]. destruct (_ || _); [apply K_set_fail; exact H0|].
  set (sa := expand _). set (sc := expand _).
  pose proof (Hbase sa sc) as H1. cbv zeta in H1. set (e1 := set_con _ _) in *.
  assert (Hw : forall k j s, get_stream e1 k j = Some s -> s_wph s = WApp).
  { intros k j s H. unfold get_stream, table, e1 in H. destruct (k =? 0); cbn [set_con set_acc e_acc e_con] in H;
      destruct (get_new_stream _ _ _ H) as (cc & ->); reflexivity. }
  destruct (K_initial_close (length (map new_stream sa)) e1 0 0%nat H1 eq_refl) as (A & B & C).
  { intros j s _ E. eapply Hw; exact E. }
  destruct (K_initial_close (length (map new_stream sc)) (initial_close e1 0 (length (map new_stream sa)) 0) 1 0%nat A B) as (A2 & _ & _).
  { intros j s _ E. rewrite C in E by (cbn; discriminate). eapply Hw; exact E. }
  exact A2.
Qed.
(* ---- the two-sided system ---- *)
Definition KS (s : sys) : Prop := K (sA s) /\ K (sB s).

Lemma find_slot_in : forall e x r, find_slot e x = Some r -> In r (e_slots e).
Proof. intros e x r H. unfold find_slot in H. apply find_some in H. tauto. Qed.

Lemma find_slot_none : forall e x, find_slot e x = None -> ~ In x (map sl_id (e_slots e)).
Proof.
  intros e x H Hin. unfold find_slot in H. apply in_map_iff in Hin. destruct Hin as (r & Hid & Hr).
  pose proof (find_none _ _ H r Hr) as Hn. cbn in Hn. rewrite Hid, Z.eqb_refl in Hn. discriminate.
Qed.

Lemma KS_apply_op : forall s o, KS s -> KS (apply_op s o).
Proof.
  intros s o [HA HB]. unfold apply_op, raw_feed. destruct o; cbn [op_slot].
  - destruct (find_slot (sA s) slot) eqn:FA; destruct (find_slot (sB s) slot) eqn:FB; cbn [orb];
      try (split; cbn [sA sB]; [exact HA|apply K_skip; exact HB]).
    destruct (negb _ || _); [split; cbn [sA sB]; [exact HA|apply K_skip; exact HB]|].
    destruct (side =? 0); split; cbn [sA sB]; try assumption; apply K_op_open; try assumption; apply find_slot_none; assumption.
  - destruct (find_slot (sA s) slot) eqn:FA; [|destruct (find_slot (sB s) slot) eqn:FB]; split; cbn [sA sB]; try assumption;
      try (apply K_slot_op; [assumption|eapply find_slot_in; eassumption]); apply K_skip; exact HB.
  - destruct (find_slot (sA s) slot) eqn:FA; [|destruct (find_slot (sB s) slot) eqn:FB]; split; cbn [sA sB]; try assumption;
      try (apply K_slot_op; [assumption|eapply find_slot_in; eassumption]); apply K_skip; exact HB.
  - destruct (find_slot (sA s) slot) eqn:FA; [|destruct (find_slot (sB s) slot) eqn:FB]; split; cbn [sA sB]; try assumption;
      try (apply K_slot_op; [assumption|eapply find_slot_in; eassumption]); apply K_skip; exact HB.
  - destruct (find_slot (sA s) slot) eqn:FA; [|destruct (find_slot (sB s) slot) eqn:FB]; split; cbn [sA sB]; try assumption;
      try (apply K_slot_op; [assumption|eapply find_slot_in; eassumption]); apply K_skip; exact HB.
  - destruct (find_slot (sA s) slot) eqn:FA; [|destruct (find_slot (sB s) slot) eqn:FB]; split; cbn [sA sB]; try assumption;
      try (apply K_slot_op; [assumption|eapply find_slot_in; eassumption]); apply K_skip; exact HB.
  - destruct (s_raw s); split; cbn [sA sB]; try assumption. apply K_set_d. exact HB.
  - destruct (s_raw s); split; cbn [sA sB]; try assumption. apply K_set_d. exact HB.
  - destruct (s_raw s); split; cbn [sA sB]; try assumption. apply K_set_gone, K_set_d. exact HB.
Qed.

Lemma KS_transfer : forall s, KS s -> KS (transfer s).
Proof.
  intros s [HA HB]. unfold transfer. destruct (s_raw s); split; cbn [sA sB]; try assumption.
  - apply K_set_out. exact HB.
  - apply K_set_out. destruct (e_out (sB s)); [exact HA|apply K_set_d; exact HA].
  - apply K_set_out. destruct (e_out (sA s)); [exact HB|apply K_set_d; exact HB].
Qed.

Lemma K_disp_burst : forall fuel e e', K e -> disp_burst fuel e = Some e' -> K e'.
Proof.
  induction fuel as [|fuel IH]; intros e e' HK H; cbn [disp_burst] in H; [discriminate|].
  destruct (dstep _ _ _ _) as [|d|d k i f|d code].
  - discriminate.
  - apply (IH (set_d e d) e'); [apply K_set_d; exact HK|exact H].
  - apply (IH (deliver (set_d e d) k i f) e'); [apply K_deliver, K_set_d; exact HK|exact H].
  - inversion H; subst e'. apply K_set_fail, K_set_d, HK.
Qed.

Lemma K_raw_round : forall e, K e -> K (fst (raw_round e)).
Proof.
  intros e HK. unfold raw_round. destruct (e_fail e); [apply K_ep_round; exact HK|].
  destruct (disp_burst (burst_fuel e) e) as [e'|] eqn:E; [cbn [fst]; eapply K_disp_burst; eassumption|apply K_ep_round; exact HK].
Qed.

Lemma KS_settle_round : forall s, KS s -> KS (fst (settle_round s)).
Proof.
  intros s HS. unfold settle_round. pose proof (KS_transfer s HS) as [HA HB]. set (s1 := transfer s) in *.
  pose proof (K_ep_round (sA s1) HA) as PA. pose proof (K_ep_round (sB s1) HB) as PB. pose proof (K_raw_round (sB s1) HB) as PR.
  destruct (s_raw s1).
  - destruct (raw_round (sB s1)) as [b pb]. cbn [fst]. split; cbn [sA sB]; assumption.
  - destruct (ep_round (sB s1)) as [b pb]. destruct (ep_round (sA s1)) as [a pa]. cbn [fst]. split; cbn [sA sB]; assumption.
Qed.

Lemma KS_iter_until : forall p s, KS s -> KS (fst (iter_until p s)).
Proof.
  induction p as [p IH|p IH|]; intros s HS; cbn [iter_until].
  - pose proof (KS_settle_round s HS) as P0. destruct (settle_round s) as [s0 c0]. cbn [fst] in P0.
    destruct c0; [|exact P0].
    pose proof (IH s0 P0) as P1. destruct (iter_until p s0) as [s1 c]. cbn [fst] in P1.
    destruct c; [|exact P1].
    pose proof (IH s1 P1) as P2. destruct (iter_until p s1) as [s2 c2]. exact P2.
  - pose proof (IH s HS) as P1. destruct (iter_until p s) as [s1 c]. cbn [fst] in P1.
    destruct c; [|exact P1].
    pose proof (IH s1 P1) as P2. destruct (iter_until p s1) as [s2 c2]. exact P2.
  - apply KS_settle_round. exact HS.
Qed.

Lemma KS_step_sys : forall s o, KS s -> KS (step_sys s o).
Proof.
  intros s o [HA HB]. unfold step_sys, settle. apply KS_iter_until. apply KS_apply_op.
  unfold clear_obs. split; cbn [sA sB]; apply K_set_events, K_set_out; assumption.
Qed.

Lemma K_dummy : K dummy_ep.
Proof.
  assert (Hg : forall k i, get_stream dummy_ep k i = None).
  { intros k i. unfold get_stream, table, dummy_ep. cbn [e_acc e_con]. destruct (k =? 0); destruct i; reflexivity. }
  constructor; cbn [dummy_ep e_slots e_qs map].
  - constructor.
  - constructor.
  - intros q i [].
  - intros q [].
  - intros q x r [].
  - intros k i s x r _ _ [].
  - intros q x [].
  - intros k i s x H. rewrite Hg in H. discriminate.
  - intros r i [].
  - intros r [].
  - intros r1 r2 i [].
Qed.

Theorem reachable_K : forall raw a b s, reachable raw a b s -> K (sA s) /\ K (sB s).
Proof.
  intros raw a b s [ops ->].
  assert (H0 : KS (sys_start raw a b)).
  { unfold sys_start, settle. apply KS_iter_until. unfold sys_init. split; cbn [sA sB]; [|apply K_ep_init].
    destruct raw; [apply K_dummy|apply K_ep_init]. }
  revert H0. generalize (sys_start raw a b). induction ops as [|o ops IH]; intros s0 H0; cbn [fold_left]; [exact H0|].
  apply IH. apply KS_step_sys. exact H0.
Qed.

(* ---- at most one transient stream per reusable stream ---- *)
Theorem one_transient_per_stream : forall e r1 r2 i, K e ->
  In r1 (e_slots e) -> In r2 (e_slots e) -> sl_sid r1 = Some i -> sl_sid r2 = Some i ->
  (sl_kind r1 =? 0) = (sl_kind r2 =? 0) -> live r1 = true -> live r2 = true -> r1 = r2.
Proof.
  intros e r1 r2 i HK H1 H2 S1 S2 Hk L1 L2. apply (slot_unique e r1 r2 HK H1 H2). eapply K6; eassumption.
Qed.

(* ---- open transient streams per capability ---- *)
Definition slot_on (e : endpoint) (k c : Z) (r : slotrec) : bool :=
  live r && Bool.eqb (sl_kind r =? 0) (k =? 0) &&
  match sl_sid r with
  | Some i => match get_stream e k i with Some s => s_cap s =? c | None => false end
  | None => false
  end.
Definition open_transient (e : endpoint) (k c : Z) : list slotrec := filter (slot_on e k c) (e_slots e).

Fixpoint cap_pos (c : Z) (t : list rstream) (n : nat) : list nat :=
  match t with
  | [] => []
  | s :: t' => (if s_cap s =? c then [n] else []) ++ cap_pos c t' (S n)
  end.

Lemma cap_pos_length : forall c t n, length (cap_pos c t n) = count_occ Z.eq_dec (map s_cap t) c.
Proof.
  intros c. induction t as [|s t IH]; intros n; [reflexivity|]. cbn [cap_pos map count_occ]. rewrite app_length, IH.
  destruct (Z.eq_dec (s_cap s) c) as [->|Hne]; [rewrite Z.eqb_refl; reflexivity|].
  apply Z.eqb_neq in Hne. rewrite Hne. reflexivity.
Qed.

Lemma cap_pos_in : forall c t n j s, nth_error t j = Some s -> s_cap s = c -> In (n + j)%nat (cap_pos c t n).
Proof.
  intros c. induction t as [|s0 t IH]; intros n j s H Hc; [destruct j; discriminate|].
  cbn [cap_pos]. apply in_or_app. destruct j as [|j]; cbn [nth_error] in H.
  - inversion H; subst s0. left. rewrite Hc, Z.eqb_refl. left. lia.
  - right. replace (n + S j)%nat with (S n + j)%nat by lia. eapply IH; eassumption.
Qed.

Lemma NoDup_map_inj : forall A B (f : A -> B) (l : list A), NoDup l ->
  (forall x y, In x l -> In y l -> f x = f y -> x = y) -> NoDup (map f l).
Proof.
  intros A B f l H. induction H as [|a l Ha Hl IH]; intros Hinj; cbn [map]; [constructor|].
  constructor.
  - intros Hx. apply in_map_iff in Hx. destruct Hx as (y & Hy & Hin).
    assert (y = a) by (apply Hinj; [right; exact Hin|left; reflexivity|exact Hy]). subst y. exact (Ha Hin).
  - apply IH. intros x y Hx Hy. apply Hinj; right; assumption.
Qed.

Theorem open_le_streams : forall e k c, K e ->
  (length (open_transient e k c) <= count_occ Z.eq_dec (map s_cap (table e k)) c)%nat.
Proof.
  intros e k c HK. rewrite <- (cap_pos_length c (table e k) 0).
  set (idx := fun r => match sl_sid r with Some i => i | None => O end).
  rewrite <- (map_length idx (open_transient e k c)).
  apply NoDup_incl_length.
  - apply NoDup_map_inj.
    + unfold open_transient. apply NoDup_filter. apply (NoDup_map_inv sl_id). apply (K1 e HK).
    + intros x y Hx Hy Hxy. unfold open_transient in Hx, Hy. apply filter_In in Hx, Hy.
      destruct Hx as [Hx Fx]. destruct Hy as [Hy Fy]. unfold slot_on in Fx, Fy.
      apply andb_prop in Fx, Fy. destruct Fx as [Fx Fx3]. destruct Fy as [Fy Fy3].
      apply andb_prop in Fx, Fy. destruct Fx as [Fx1 Fx2]. destruct Fy as [Fy1 Fy2].
      apply Bool.eqb_prop in Fx2, Fy2. unfold idx in Hxy.
      destruct (sl_sid x) as [ix|] eqn:Sx; [|discriminate]. destruct (sl_sid y) as [iy|] eqn:Sy; [|discriminate]. subst iy.
      apply (one_transient_per_stream e x y ix HK Hx Hy Sx Sy); [congruence|exact Fx1|exact Fy1].
  - intros i Hi. apply in_map_iff in Hi. destruct Hi as (r & <- & Hr). unfold open_transient in Hr. apply filter_In in Hr.
    destruct Hr as [Hr Fr]. unfold slot_on in Fr. apply andb_prop in Fr. destruct Fr as [_ Fr]. unfold idx.
    destruct (sl_sid r) as [i|]; [|discriminate]. destruct (get_stream e k i) as [s|] eqn:E; [|discriminate].
    apply Z.eqb_eq in Fr. apply (cap_pos_in c (table e k) 0 i s E Fr).
Qed.
(* ---- the capability table never changes after the handshake ---- *)
Lemma map_cap_new : forall l, map s_cap (map new_stream l) = l.
Proof. induction l as [|c l IH]; [reflexivity|]. cbn [map new_stream s_cap]. rewrite IH. reflexivity. Qed.

Lemma ep_init_caps : forall c acc con pacc pcon,
  tcaps (ep_init c acc con pacc pcon) = ([], []) \/
  tcaps (ep_init c acc con pacc pcon) = (expand (alloc (bt_of_list acc) pcon), expand (alloc (bt_of_list con) pacc)).
Proof.
  intros c acc con pacc pcon. unfold ep_init.
  set (qs := _ ++ _). set (e0 := mkEp c (init_d c) [] [] qs [] [] false [] [] None).
  destruct (negb _); [left; reflexivity|]. destruct (_ || _); [left; reflexivity|]. right.
  set (sa := map new_stream _). set (sc := map new_stream _). set (e1 := set_con (set_acc e0 sa) sc).
  pose proof (pres_initial_close (length sa) e1 0 0%nat) as P1.
  pose proof (pres_initial_close (length sc) (initial_close e1 0 (length sa) 0) 1 0%nat) as P2.
  destruct (pres_trans _ _ _ P1 P2) as (_ & _ & _ & Ht & _). rewrite Ht.
  unfold tcaps, e1, sa, sc. cbn [set_con set_acc e_acc e_con]. rewrite !map_cap_new. reflexivity.
Qed.

Lemma reachable_caps : forall raw a b s, reachable raw a b s ->
  tcaps (sB s) = tcaps (sB (sys_init raw a b)) /\ tcaps (sA s) = tcaps (sA (sys_init raw a b)).
Proof.
  intros raw a b s [ops ->].
  assert (P : spres (sys_init raw a b) (fold_left step_sys ops (sys_start raw a b))).
  { eapply spres_trans; [apply spres_settle|apply spres_fold]. }
  destruct P as [(_ & _ & _ & At & _) (_ & _ & _ & Bt & _)]. split; assumption.
Qed.

Lemma count_table_bound : forall e k c mine peer, ksorted mine ->
  (tcaps e = ([], []) \/ (k =? 0) = true /\ fst (tcaps e) = expand (alloc mine peer) \/
                         (k =? 0) = false /\ snd (tcaps e) = expand (alloc mine peer)) ->
  Z.of_nat (count_occ Z.eq_dec (map s_cap (table e k)) c) <= Z.max 0 (Z.min (lookup_def mine c) (lookup_def peer c)).
Proof.
  intros e k c mine peer Hs H. unfold table. unfold tcaps in H.
  destruct H as [H|[[Hk H]|[Hk H]]].
  - inversion H as [[Ha Hc]]. destruct (k =? 0); rewrite ?Hc, ?Ha; change (count_occ Z.eq_dec [] c) with 0%nat; lia.
  - rewrite Hk. cbn [fst] in H. rewrite H, (streams_per_capability mine peer c Hs). lia.
  - rewrite Hk. cbn [snd] in H. rewrite H, (streams_per_capability mine peer c Hs). lia.
Qed.

(* C14 open_streams_bounded for the composed system: in every reachable state, the transient streams
   the application of B holds on queue kind k (0 = accept, otherwise connect) of capability c, each of
   them on its own reusable stream, number at most min(B's limit, the limit announced by the peer) *)
Theorem open_streams_bounded : forall raw a b s k c, reachable raw a b s ->
  Z.of_nat (length (open_transient (sB s) k c)) <=
  Z.max 0 (Z.min (lookup_def (bt_of_list (if k =? 0 then sd_acc b else sd_con b)) c)
                 (lookup_def (if k =? 0 then (if raw then sd_con a else bt_of_list (sd_con a))
                              else (if raw then sd_acc a else bt_of_list (sd_acc a))) c)).
Proof.
  intros raw a b s k c Hr. destruct (reachable_K raw a b s Hr) as [_ HB]. destruct (reachable_caps raw a b s Hr) as [Hc _].
  pose proof (open_le_streams (sB s) k c HB) as Hle.
  eapply Z.le_trans; [apply Nat2Z.inj_le; exact Hle|].
  apply count_table_bound; [apply bt_of_list_sorted|]. rewrite Hc. unfold sys_init. cbn [sB].
  destruct (ep_init_caps (sd_cfg b) (sd_acc b) (sd_con b) (if raw then sd_acc a else bt_of_list (sd_acc a)) (if raw then sd_con a else bt_of_list (sd_con a))) as [H|H];
    [left; exact H|right]. rewrite H. cbn [fst snd]. destruct (k =? 0); [left|right]; split; reflexivity.
Qed.

Theorem open_streams_bounded_A : forall a b s k c, reachable false a b s ->
  Z.of_nat (length (open_transient (sA s) k c)) <=
  Z.max 0 (Z.min (lookup_def (bt_of_list (if k =? 0 then sd_acc a else sd_con a)) c)
                 (lookup_def (bt_of_list (if k =? 0 then sd_con b else sd_acc b)) c)).
Proof.
  intros a b s k c Hr. destruct (reachable_K false a b s Hr) as [HA _]. destruct (reachable_caps false a b s Hr) as [_ Hc].
  pose proof (open_le_streams (sA s) k c HA) as Hle.
  eapply Z.le_trans; [apply Nat2Z.inj_le; exact Hle|].
  destruct (k =? 0) eqn:Ek.
  - apply count_table_bound; [apply bt_of_list_sorted|]. rewrite Hc. unfold sys_init. cbn [sA].
    destruct (ep_init_caps (sd_cfg a) (sd_acc a) (sd_con a) (bt_of_list (sd_acc b)) (bt_of_list (sd_con b))) as [H|H];
      [left; exact H|right; left]. rewrite H. split; [exact Ek|reflexivity].
  - apply count_table_bound; [apply bt_of_list_sorted|]. rewrite Hc. unfold sys_init. cbn [sA].
    destruct (ep_init_caps (sd_cfg a) (sd_acc a) (sd_con a) (bt_of_list (sd_acc b)) (bt_of_list (sd_con b))) as [H|H];
      [left; exact H|right; right]. rewrite H. split; [exact Ek|reflexivity].
Qed.
