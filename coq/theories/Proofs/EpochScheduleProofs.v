(* Proofs about Model/EpochSchedule.v (property C08, dynamic validator schedules). *)
From Coq Require Import ZArith List Bool Lia.
From EC Require Import Lib.Outcome Lib.Obs Model.BlockStore Model.EpochSchedule Proofs.BlockStoreProofs.
Import ListNotations.
Open Scope Z_scope.

(* ====================================================================== *)
(* Part 1: the block store under a changing epoch map refines the block   *)
(* store under the relation "every (epoch, committee) the map ever held". *)
(* ====================================================================== *)

Definition cseen (c : dcfg) (d : dstate) : cfg := cfg_of c (seen d).

Definition cfg_le (c1 c2 : cfg) : Prop :=
  cap c2 = cap c1 /\ first_block c2 = first_block c1 /\
  forall kv, In kv (epochs c1) -> In kv (epochs c2).

Lemma cfg_le_refl : forall c, cfg_le c c.
Proof. intros c. repeat split; auto. Qed.

Lemma verified_le : forall c1 c2 b, cfg_le c1 c2 -> verified c1 b = true -> verified c2 b = true.
Proof. intros c1 c2 b (_ & Hf & Hs). apply verified_mono; assumption. Qed.

Lemma verify_ok_verified : forall c b, verify c b = Ok tt <-> verified c b = true.
Proof.
  intros c b. unfold verified. destruct (verify c b) as [[]| |]; split; intros H; try reflexivity; discriminate.
Qed.

Lemma Forall_impl' : forall (A : Type) (P Q : A -> Prop) l, (forall x, P x -> Q x) -> Forall P l -> Forall Q l.
Proof. intros A P Q l H F. rewrite Forall_forall in *. auto. Qed.

Lemma sinv_le : forall c1 c2 s, cfg_le c1 c2 -> sinv c1 s -> sinv c2 s.
Proof.
  intros c1 c2 s L I. pose proof L as (Hc & Hf & Hs). destruct I. constructor; try assumption.
  - rewrite Hc. assumption.
  - eapply Forall_impl'; [|eassumption]. intros b. apply verified_le. exact L.
Qed.

Lemma minv_le : forall c1 c2 m, cfg_le c1 c2 -> minv c1 m -> minv c2 m.
Proof.
  intros c1 c2 m L I. destruct I. constructor; try assumption.
  - eapply sinv_le; eassumption.
  - unfold calls_ok in *. eapply Forall_impl'; [|eassumption]. intros kb. apply verified_le. exact L.
  - unfold calls_ok in *. eapply Forall_impl'; [|eassumption]. intros kb. apply verified_le. exact L.
  - eapply Forall_impl'; [|eassumption]. intros e. apply verified_le. exact L.
Qed.

(* a block-store step under a smaller relation is the same step under a bigger one, or nothing *)
Lemma mstep_le : forall c1 c2 m s, cfg_le c1 c2 ->
  mstep c1 m s = mstep c2 m s \/ mstep c1 m s = m.
Proof.
  intros c1 c2 m s L. pose proof L as (Hc & Hf & Hs). destruct s; cbn [mstep]; try rewrite Hc; auto.
  destruct (verify c1 b) as [[]| |] eqn:E; auto.
  left. apply verify_ok_verified in E. apply (verified_le _ _ _ L) in E. apply verify_ok_verified in E.
  rewrite E. reflexivity.
Qed.

Lemma mstep_le_not_call : forall c1 c2 m s, cap c2 = cap c1 ->
  (forall id b, s <> Call id b) -> mstep c1 m s = mstep c2 m s.
Proof.
  intros c1 c2 m s Hc Hn. destruct s; cbn [mstep]; try rewrite Hc; auto. exfalso. eapply Hn. reflexivity.
Qed.

(* sanity of the inputs: ranges published by the persistence layer are ranges (H-ENG); a pending
   schedule activates after the block it was asked about *)
Definition ksane (d : dstate) (k : dstepk) : Prop :=
  match k with
  | DS s => step_sane s
  | DEnvPersist p _ => bs_wf p
  | UTick (Some (_, a)) => tick_head d < a /\ 0 < a
  | _ => True
  end.

Fixpoint drun_sane (c : dcfg) (d : dstate) (ks : list dstepk) : Prop :=
  match ks with
  | [] => True
  | k :: ks' => ksane d k /\ drun_sane c (dstep c d k) ks'
  end.

Definition view_sub (d : dstate) : Prop := forall kv, In kv (em_view (emap d)) -> In kv (seen d).

Record dinv (c : dcfg) (d : dstate) : Prop := {
  di_m : minv (cseen c d) (dm d);
  di_view : view_sub d
}.

Lemma view_le : forall c d, view_sub d -> cfg_le (cfg_view c d) (cseen c d).
Proof. intros c d H. repeat split. exact H. Qed.

Lemma seen_le : forall c d d', (forall kv, In kv (seen d) -> In kv (seen d')) -> cfg_le (cseen c d) (cseen c d').
Proof. intros c d d' H. repeat split. exact H. Qed.

(* generic block-store step *)
Lemma ds_generic : forall c d s m', dinv c d -> step_sane s ->
  m' = mstep (cfg_view c d) (dm d) s -> minv (cseen c d) m'.
Proof.
  intros c d s m' [Im Iv] Hs ->.
  destruct (mstep_le _ _ (dm d) s (view_le c d Iv)) as [E|E]; rewrite E.
  - apply mstep_inv; assumption.
  - exact Im.
Qed.

Lemma dinv_same : forall c d d', seen d' = seen d -> emap d' = emap d -> dm d' = dm d ->
  dinv c d -> dinv c d'.
Proof.
  intros c d d' Hs He Hm [Im Iv]. constructor.
  - unfold cseen. rewrite Hs, Hm. exact Im.
  - unfold view_sub. rewrite Hs, He. exact Iv.
Qed.

Lemma dstep_inv : forall c d k, dinv c d -> ksane d k -> dinv c (dstep c d k).
Proof.
  intros c d k I Hk. pose proof I as [Im Iv]. destruct k as [s|p e| |sched act|ans].
  - (* DS *) cbn [ksane] in Hk.
    assert (G : forall d', seen d' = seen d -> emap d' = emap d ->
                dm d' = mstep (cfg_view c d) (dm d) s -> dinv c d').
    { intros d' Hs He Hm. constructor.
      - unfold cseen. rewrite Hs. rewrite Hm. eapply ds_generic; eauto.
      - unfold view_sub. rewrite Hs, He. exact Iv. }
    destruct s; cbn [dstep]; try (apply G; reflexivity).
    (* Restart *)
    destruct (bs_verify (env (dm d))) eqn:E; [|exact I].
    constructor; cbn [dm seen emap].
    + unfold cseen. cbn [seen].
      set (c' := cfg_of c (em_view (start_map c) ++ seen d)).
      assert (L : cfg_le (cseen c d) c').
      { repeat split. intros kv H. cbn [epochs cfg_of]. apply in_or_app. right. exact H. }
      rewrite (mstep_le_not_call (cfg_view c d) c' (dm d) Restart); [|reflexivity|intros; discriminate].
      apply mstep_inv; [|exact Hk]. eapply minv_le; eassumption.
    + unfold view_sub. cbn [emap seen]. intros kv H. apply in_or_app. left. exact H.
  - (* DEnvPersist *) cbn [dstep ksane] in *. constructor; cbn [dm seen emap].
    + unfold cseen. cbn [seen].
      rewrite (mstep_le_not_call (cfg_view c d) (cfg_of c (seen d)) (dm d) (EnvPersist p));
        [|reflexivity|intros; discriminate].
      apply mstep_inv; assumption.
    + exact Iv.
  - (* UWake *) cbn [dstep]. destruct (ust d); try exact I.
    destruct (alive (dm d) && (dfirst_block c <=? bs_next (env (dm d)))); [|exact I].
    apply (dinv_same c d); try reflexivity. exact I.
  - (* UInit *) cbn [dstep]. destruct (ust d); try exact I.
    destruct (alive (dm d)); [|exact I]. destruct (init_head c d) as [hd cur].
    constructor; cbn [dm seen emap].
    + eapply minv_le; [|exact Im]. repeat split. intros kv H. cbn [epochs cfg_of]. apply in_or_app. right. exact H.
    + unfold view_sub. cbn [emap seen]. intros kv H. apply in_or_app. left. exact H.
  - (* UTick *) cbn [dstep]. destruct (ust d); try exact I.
    destruct (alive (dm d)); [|exact I].
    destruct (em_last (emap d)); [|apply (dinv_same c d); try reflexivity; exact I].
    destruct (e_act e <? tick_head d); [|exact I].
    destruct ans as [[s a]|]; [|exact I].
    destruct (a =? 0); [apply (dinv_same c d); try reflexivity; exact I|].
    constructor; cbn [dm seen emap].
    + eapply minv_le; [|exact Im]. repeat split. intros kv H. cbn [epochs cfg_of]. apply in_or_app. right. exact H.
    + unfold view_sub. cbn [emap seen]. intros kv H. apply in_or_app. left. exact H.
Qed.

Lemma drun_inv : forall c ks d, dinv c d -> drun_sane c d ks -> dinv c (drun c d ks).
Proof.
  intros c ks. induction ks as [|k ks IH]; intros d I Hs.
  - exact I.
  - change (drun c d (k :: ks)) with (drun c (dstep c d k) ks). destruct Hs as [Hk Hs].
    apply IH; [|exact Hs]. apply dstep_inv; assumption.
Qed.

Lemma dinit_inv : forall c p e, start_ok p -> dinv c (dinit c p e).
Proof.
  intros c p e [Hv H0]. constructor.
  - cbn [dinit dm]. apply init_minv. apply bs_verify_wf; assumption.
  - unfold view_sub. cbn [dinit emap seen]. auto.
Qed.

Definition dreachable (c : dcfg) (d : dstate) : Prop :=
  exists p0 e0 ks, start_ok p0 /\ drun_sane c (dinit c p0 e0) ks /\ d = drun c (dinit c p0 e0) ks.

Lemma dreachable_inv : forall c d, dreachable c d -> dinv c d.
Proof. intros c d (p0 & e0 & ks & H0 & Hs & ->). apply drun_inv; [apply dinit_inv; exact H0 | exact Hs]. Qed.

(* each dynamic step is a block-store step under the relation seen afterwards, or leaves the store alone *)
Lemma dstep_refines : forall c d k, dinv c d ->
  dm (dstep c d k) = dm d \/
  exists s, (k = DS s \/ exists p e, k = DEnvPersist p e /\ s = EnvPersist p) /\
            dm (dstep c d k) = mstep (cseen c (dstep c d k)) (dm d) s.
Proof.
  intros c d k [Im Iv]. destruct k as [s|p e| |sched act|ans].
  - assert (G : forall d', seen d' = seen d -> dm d' = mstep (cfg_view c d) (dm d) s ->
                dm d' = dm d \/ exists s0, (DS s = DS s0 \/ exists p e, DS s = DEnvPersist p e /\ s0 = EnvPersist p) /\
                  dm d' = mstep (cseen c d') (dm d) s0).
    { intros d' Hs Hm. destruct (mstep_le _ _ (dm d) s (view_le c d Iv)) as [E|E].
      - right. exists s. split; [left; reflexivity|].
        unfold cseen. rewrite Hs. rewrite Hm. exact E.
      - left. rewrite Hm. exact E. }
    destruct s; cbn [dstep]; try (apply G; reflexivity).
    destruct (bs_verify (env (dm d))) eqn:E; [|left; reflexivity].
    right. exists Restart. split; [left; reflexivity|].
    cbn [dm]. apply mstep_le_not_call; [reflexivity|intros; discriminate].
  - right. exists (EnvPersist p). split; [right; exists p, e; split; reflexivity|].
    cbn [dstep dm]. reflexivity.
  - left. cbn [dstep]. destruct (ust d); try reflexivity.
    destruct (alive (dm d) && (dfirst_block c <=? bs_next (env (dm d)))); reflexivity.
  - left. cbn [dstep]. destruct (ust d); try reflexivity.
    destruct (alive (dm d)); [|reflexivity]. destruct (init_head c d). reflexivity.
  - left. cbn [dstep]. destruct (ust d); try reflexivity.
    destruct (alive (dm d)); [|reflexivity].
    destruct (em_last (emap d)); [|reflexivity].
    destruct (e_act e <? tick_head d); [|reflexivity].
    destruct ans as [[s a]|]; [|reflexivity].
    destruct (a =? 0); reflexivity.
Qed.

Lemma seen_mono_step : forall c d k kv, In kv (seen d) -> In kv (seen (dstep c d k)).
Proof.
  intros c d k kv H. destruct k as [s|p e| |sched act|ans].
  - destruct s; cbn [dstep]; try exact H.
    destruct (bs_verify (env (dm d))); [|exact H]. cbn [seen]. apply in_or_app. right. exact H.
  - exact H.
  - cbn [dstep]. destruct (ust d); try exact H.
    destruct (alive (dm d) && (dfirst_block c <=? bs_next (env (dm d)))); exact H.
  - cbn [dstep]. destruct (ust d); try exact H.
    destruct (alive (dm d)); [|exact H]. destruct (init_head c d). cbn [seen]. apply in_or_app. right. exact H.
  - cbn [dstep]. destruct (ust d); try exact H.
    destruct (alive (dm d)); [|exact H].
    destruct (em_last (emap d)); [|exact H].
    destruct (e_act e <? tick_head d); [|exact H].
    destruct ans as [[s a]|]; [|exact H].
    destruct (a =? 0); [exact H|]. cbn [seen]. apply in_or_app. right. exact H.
Qed.

(* the store before the step satisfies the invariant under the relation seen after it *)
Lemma dinv_next : forall c d k, dinv c d -> minv (cseen c (dstep c d k)) (dm d).
Proof.
  intros c d k [Im _]. eapply minv_le; [|exact Im]. apply seen_le. intros kv. apply seen_mono_step.
Qed.

(* the ghost relation is the history of the map *)
Lemma seen_step : forall c d k kv, In kv (seen (dstep c d k)) ->
  In kv (seen d) \/ In kv (em_view (emap (dstep c d k))).
Proof.
  intros c d k kv H. destruct k as [s|p e| |sched act|ans].
  - destruct s; cbn [dstep] in *; try (left; exact H).
    destruct (bs_verify (env (dm d))); [|left; exact H].
    cbn [seen emap] in *. apply in_app_or in H. tauto.
  - left. exact H.
  - left. cbn [dstep] in H. destruct (ust d); try exact H.
    destruct (alive (dm d) && (dfirst_block c <=? bs_next (env (dm d)))); exact H.
  - cbn [dstep] in *. destruct (ust d); try (left; exact H).
    destruct (alive (dm d)); [|left; exact H]. destruct (init_head c d).
    cbn [seen emap] in *. apply in_app_or in H. tauto.
  - cbn [dstep] in *. destruct (ust d); try (left; exact H).
    destruct (alive (dm d)); [|left; exact H].
    destruct (em_last (emap d)); [|left; exact H].
    destruct (e_act e <? tick_head d); [|left; exact H].
    destruct ans as [[s a]|]; [|left; exact H].
    destruct (a =? 0); [left; exact H|].
    cbn [seen emap] in *. apply in_app_or in H. tauto.
Qed.

Lemma seen_history : forall c ks d kv, In kv (seen (drun c d ks)) ->
  In kv (seen d) \/ exists ks1 ks2, ks = ks1 ++ ks2 /\ In kv (em_view (emap (drun c d ks1))).
Proof.
  intros c ks. induction ks as [|k ks IH]; intros d kv H.
  - left. exact H.
  - change (drun c d (k :: ks)) with (drun c (dstep c d k) ks) in H.
    destruct (IH _ _ H) as [H1|(ks1 & ks2 & -> & H1)].
    + destruct (seen_step _ _ _ _ H1) as [H2|H2]; [left; exact H2|].
      right. exists [k], ks. split; [reflexivity|exact H2].
    + right. exists (k :: ks1), ks2. split; [reflexivity|exact H1].
Qed.

(* what a queue_block call is checked against: the schedule stored under the epoch of the
   block's own certificate, at the moment of the call *)
Lemma call_accepts : forall c d id b,
  dm (dstep c d (DS (Call id b))) <> dm d ->
  verified (cfg_view c d) b = true.
Proof.
  intros c d id b H. cbn [dstep with_dm dm mstep] in H. apply verify_ok_verified.
  destruct (verify (cfg_view c d) b) as [[]| |]; try reflexivity; exfalso; apply H; reflexivity.
Qed.

Lemma em_view_In : forall m e s, In (e, s) (em_view m) <-> exists x, In x m /\ e_epoch x = e /\ e_sched x = s.
Proof.
  intros m e s. unfold em_view. rewrite in_map_iff. split.
  - intros (x & Hx & Hin). inversion Hx. exists x. auto.
  - intros (x & Hin & <- & <-). exists x. auto.
Qed.

(* ====================================================================== *)
(* Part 2: the epoch map                                                  *)
(* ====================================================================== *)

(* consecutive epochs, increasing activations, expiration(e) + 1 = activation(e + 1), the newest
   entry open-ended *)
Fixpoint chain (m : list entry) : Prop :=
  match m with
  | [] => True
  | x :: m' =>
      match m' with
      | [] => e_exp x = None
      | y :: _ => e_epoch y = e_epoch x + 1 /\ e_act x < e_act y /\ e_exp x = Some (e_act y - 1) /\ chain m'
      end
  end.

Fixpoint epochs_from (k : Z) (m : list entry) : Prop :=
  match m with
  | [] => True
  | x :: m' => e_epoch x = k /\ epochs_from (k + 1) m'
  end.

Fixpoint upd_last (v : option Z) (m : list entry) : list entry :=
  match m with
  | [] => []
  | x :: m' =>
      match m' with
      | [] => [{| e_epoch := e_epoch x; e_sched := e_sched x; e_act := e_act x; e_exp := v |}]
      | _ :: _ => x :: upd_last v m'
      end
  end.

Lemma chain_epochs_from : forall m, chain m -> match m with [] => True | x :: _ => epochs_from (e_epoch x) m end.
Proof.
  induction m as [|x m IH]; intros H; [exact I|].
  cbn [epochs_from]. split; [reflexivity|]. destruct m as [|y m']; [exact I|].
  cbn [chain] in H. destruct H as (He & _ & _ & Hc). specialize (IH Hc). cbn beta iota in IH.
  rewrite <- He. exact IH.
Qed.

Lemma chain_tl : forall x m, chain (x :: m) -> chain m.
Proof. intros x m H. destruct m as [|y m']; [exact I|]. cbn [chain] in H. tauto. Qed.

Lemma em_last_app : forall m x, em_last (m ++ [x]) = Some x.
Proof.
  induction m as [|y m IH]; intros x; [reflexivity|].
  cbn [app]. destruct (m ++ [x]) eqn:E.
  - destruct m; discriminate.
  - change (em_last (y :: e :: l)) with (em_last (e :: l)). rewrite <- E. apply IH.
Qed.

Lemma em_last_epoch : forall m k le, epochs_from k m -> em_last m = Some le ->
  e_epoch le = k + Z.of_nat (length m) - 1.
Proof.
  induction m as [|x m IH]; intros k le He Hl; [discriminate|].
  cbn [epochs_from] in He. destruct He as [Hx He]. destruct m as [|y m'].
  - cbn in Hl. inversion Hl; subst. cbn [length]. lia.
  - change (em_last (x :: y :: m')) with (em_last (y :: m')) in Hl.
    rewrite (IH _ _ He Hl). cbn [length]. lia.
Qed.

Lemma insert_append : forall m k x, epochs_from k m -> e_epoch x = k + Z.of_nat (length m) ->
  em_insert x m = m ++ [x].
Proof.
  induction m as [|y m IH]; intros k x He Hx; [reflexivity|].
  cbn [epochs_from] in He. destruct He as [Hy He]. cbn [em_insert app length] in *.
  destruct (e_epoch x <? e_epoch y) eqn:E1; [apply Z.ltb_lt in E1; lia|].
  destruct (e_epoch x =? e_epoch y) eqn:E2; [apply Z.eqb_eq in E2; lia|].
  f_equal. apply (IH (k + 1)); [exact He|lia].
Qed.

Lemma set_exp_append : forall m k cur v x, epochs_from k m -> k + Z.of_nat (length m) = cur + 1 ->
  e_epoch x = cur + 1 -> em_set_exp cur v (m ++ [x]) = upd_last v m ++ [x].
Proof.
  induction m as [|y m IH]; intros k cur v x He Hk Hx.
  - cbn. destruct (e_epoch x =? cur) eqn:E; [apply Z.eqb_eq in E; lia|reflexivity].
  - cbn [epochs_from] in He. destruct He as [Hy He]. cbn [length] in Hk.
    destruct m as [|z m'].
    + cbn [length] in Hk. cbn [app upd_last]. unfold em_set_exp. cbn [map].
      destruct (e_epoch y =? cur) eqn:E; [|apply Z.eqb_neq in E; lia].
      destruct (e_epoch x =? cur) eqn:E2; [apply Z.eqb_eq in E2; lia|reflexivity].
    + change (upd_last v (y :: z :: m')) with (y :: upd_last v (z :: m')).
      cbn [app]. unfold em_set_exp. cbn [map]. fold (em_set_exp cur v ((z :: m') ++ [x])).
      destruct (e_epoch y =? cur) eqn:E; [apply Z.eqb_eq in E; cbn [length] in Hk; lia|].
      f_equal. apply (IH (k + 1)); [exact He| |exact Hx]. cbn [length] in *. lia.
Qed.

Lemma chain_extend : forall m le x, chain m -> em_last m = Some le ->
  e_epoch x = e_epoch le + 1 -> e_act le < e_act x -> e_exp x = None ->
  chain (upd_last (Some (e_act x - 1)) m ++ [x]).
Proof.
  induction m as [|y m IH]; intros le x Hc Hl Hx Ha Hn; [discriminate|].
  destruct m as [|z m'].
  - cbn in Hl. inversion Hl; subst. cbn [upd_last app chain]. cbn [e_epoch e_act e_exp]. auto.
  - change (em_last (y :: z :: m')) with (em_last (z :: m')) in Hl.
    cbn [chain] in Hc. destruct Hc as (He & Hlt & Hexp & Hc).
    specialize (IH le x Hc Hl Hx Ha Hn).
    change (upd_last (Some (e_act x - 1)) (y :: z :: m')) with (y :: upd_last (Some (e_act x - 1)) (z :: m')).
    cbn [app]. destruct (upd_last (Some (e_act x - 1)) (z :: m') ++ [x]) as [|w r] eqn:E.
    + destruct m'; cbn in E; [discriminate|]. destruct m'; discriminate.
    + assert (Hw : e_epoch w = e_epoch z /\ e_act w = e_act z).
      { destruct m' as [|u m'']; cbn in E; inversion E; subst; auto. }
      destruct Hw as [Hw1 Hw2].
      change (e_epoch w = e_epoch y + 1 /\ e_act y < e_act w /\ e_exp y = Some (e_act w - 1) /\ chain (w :: r)).
      split; [lia|]. split; [lia|]. split; [rewrite Hw2; exact Hexp|exact IH].
Qed.

(* ranges of a chain are disjoint *)
Lemma chain_later : forall m x y, chain (x :: m) -> In y m ->
  e_act x < e_act y /\ exists v, e_exp x = Some v /\ v < e_act y.
Proof.
  induction m as [|z m IH]; intros x y Hc Hin; [contradiction|].
  cbn [chain] in Hc. destruct Hc as (He & Hlt & Hexp & Hc). destruct Hin as [->|Hin].
  - split; [exact Hlt|]. exists (e_act y - 1). split; [exact Hexp|lia].
  - destruct (IH z y Hc Hin) as [H1 _]. split; [lia|]. exists (e_act z - 1). split; [exact Hexp|lia].
Qed.

Lemma chain_range_unique : forall m x y n, chain m -> In x m -> In y m ->
  in_range x n = true -> in_range y n = true -> x = y.
Proof.
  induction m as [|z m IH]; intros x y n Hc Hx Hy Rx Ry; [contradiction|].
  assert (K : forall a b, In b m -> in_range z n = true -> in_range b n = true -> a = z -> False).
  { intros a b Hb Rz Rb _. destruct (chain_later _ _ _ Hc Hb) as [_ (v & Hv & Hlt)].
    unfold in_range in Rz, Rb. rewrite Hv in Rz. apply andb_true_iff in Rz, Rb.
    destruct Rz as [_ Rz]. destruct Rb as [Rb _]. apply Z.leb_le in Rz, Rb. lia. }
  destruct Hx as [<-|Hx]; destruct Hy as [<-|Hy].
  - reflexivity.
  - exfalso. eapply (K z y); eauto.
  - exfalso. eapply (K z x); eauto.
  - apply (IH x y n); try assumption. eapply chain_tl; exact Hc.
Qed.

(* epoch_for_block (hence verify_payload's check) decides "n lies in the range stored for e" *)
Lemma epoch_for_block_spec : forall m n e, chain m ->
  (epoch_for_block n m = Some e <-> exists x, In x m /\ e_epoch x = e /\ in_range x n = true).
Proof.
  intros m n e Hc. unfold epoch_for_block. split.
  - destruct (find (fun x => in_range x n) m) as [x|] eqn:E; [|discriminate].
    intros H. inversion H. apply find_some in E. exists x. tauto.
  - intros (x & Hin & He & Hr). destruct (find (fun x => in_range x n) m) as [y|] eqn:E.
    + apply find_some in E. destruct E as [Hy Ry].
      rewrite (chain_range_unique m x y n Hc Hin Hy Hr Ry) in He. cbn. rewrite He. reflexivity.
    + exfalso. eapply find_none in E; [|exact Hin]. cbn in E. congruence.
Qed.

(* the task's invariant *)
Definition uinv (c : dcfg) (d : dstate) : Prop :=
  match ust d with
  | UOff => emap d = start_map c /\ dgenesis_sched c <> None
  | UWait | UStart => emap d = [] /\ dgenesis_sched c = None
  | URun cur => dgenesis_sched c = None /\ chain (emap d) /\
                exists k, epochs_from k (emap d) /\ emap d <> [] /\ k + Z.of_nat (length (emap d)) = cur + 1
  | UDead => False
  end.

Lemma start_uinv : forall c p d, emap d = start_map c -> ust d = start_ust c p -> uinv c d.
Proof.
  intros c p d Hm Hu. unfold uinv. rewrite Hu. unfold start_ust, start_map in *.
  destruct (dgenesis_sched c) eqn:G.
  - split; [exact Hm | discriminate].
  - destruct ((0 <? dfirst_block c) && (bs_next p <? dfirst_block c)); split; auto.
Qed.

Lemma uinv_chain : forall c d, uinv c d -> chain (emap d).
Proof.
  intros c d H. unfold uinv in H. destruct (ust d).
  - destruct H as [-> _]. unfold start_map. destruct (dgenesis_sched c); cbn; auto.
  - destruct H as [-> _]. exact I.
  - destruct H as [-> _]. exact I.
  - tauto.
  - contradiction.
Qed.

Lemma em_last_nonempty : forall m, m <> [] -> exists le, em_last m = Some le.
Proof.
  induction m as [|y m IH]; intros H; [contradiction|]. destruct m as [|z m'].
  - exists y. reflexivity.
  - change (em_last (y :: z :: m')) with (em_last (z :: m')). apply IH. discriminate.
Qed.

Lemma urun_last : forall c d cur, uinv c d -> ust d = URun cur -> exists le, em_last (emap d) = Some le.
Proof.
  intros c d cur U Eu. unfold uinv in U. rewrite Eu in U. destruct U as (_ & _ & k & _ & Hne & _).
  apply em_last_nonempty. exact Hne.
Qed.

(* what a successful iteration does to the map *)
Definition prune (head : Z) (m : list entry) : list entry :=
  match nth_error m 2 with
  | Some x => if e_act x <? head then tl m else m
  | None => m
  end.

Lemma tick_map : forall c d cur s a, uinv c d -> ust d = URun cur -> alive (dm d) = true ->
  tick_asks d = Some (tick_head d) -> 0 < a ->
  let x := {| e_epoch := cur + 1; e_sched := s; e_act := a; e_exp := None |} in
  emap (dstep c d (UTick (Some (s, a)))) = prune (tick_head d) (upd_last (Some (a - 1)) (emap d) ++ [x]) /\
  ust (dstep c d (UTick (Some (s, a)))) = URun (cur + 1).
Proof.
  intros c d cur s a U Hu Ha Hask Hpos x. subst x. unfold uinv in U. rewrite Hu in U.
  destruct U as (_ & Hc & k & Hk & Hne & Hlen).
  unfold tick_asks in Hask. rewrite Hu, Ha in Hask. cbn [dstep]. rewrite Hu, Ha.
  destruct (em_last (emap d)) as [le|] eqn:El; [|discriminate].
  cbn [andb] in Hask. destruct (e_act le <? tick_head d) eqn:Eg; [|discriminate].
  destruct (a =? 0) eqn:E0; [apply Z.eqb_eq in E0; lia|].
  cbn [emap ust]. split; [|reflexivity].
  set (x := {| e_epoch := cur + 1; e_sched := s; e_act := a; e_exp := None |}).
  rewrite (insert_append (emap d) k x Hk) by (cbn [e_epoch x]; lia).
  rewrite (set_exp_append (emap d) k cur (Some (a - 1)) x Hk Hlen) by reflexivity.
  reflexivity.
Qed.

Lemma upd_last_length : forall v m, length (upd_last v m) = length m.
Proof.
  intros v. induction m as [|x m IH]; [reflexivity|]. destruct m as [|y m']; [reflexivity|].
  change (upd_last v (x :: y :: m')) with (x :: upd_last v (y :: m')). cbn [length] in *. rewrite IH. reflexivity.
Qed.

Lemma epochs_from_app : forall m k x, epochs_from k m -> e_epoch x = k + Z.of_nat (length m) ->
  epochs_from k (m ++ [x]).
Proof.
  induction m as [|y m IH]; intros k x He Hx; cbn [app epochs_from length] in *.
  - split; [lia|exact I].
  - destruct He as [Hy He]. split; [exact Hy|]. apply IH; [exact He|lia].
Qed.

Lemma upd_last_epochs : forall v m k, epochs_from k m -> epochs_from k (upd_last v m).
Proof.
  intros v. induction m as [|x m IH]; intros k He; [exact I|]. destruct m as [|y m'].
  - cbn in *. tauto.
  - change (upd_last v (x :: y :: m')) with (x :: upd_last v (y :: m')).
    cbn [epochs_from] in *. destruct He as [Hx He]. split; [exact Hx|]. apply IH. exact He.
Qed.

Lemma dstep_uinv : forall c d k, uinv c d -> ksane d k -> uinv c (dstep c d k).
Proof.
  intros c d k U Hk. destruct k as [s|p e| |sched act|ans].
  - destruct s; cbn [dstep]; try exact U.
    destruct (bs_verify (env (dm d))); [|exact U].
    apply (start_uinv c (env (dm d))); reflexivity.
  - exact U.
  - cbn [dstep]. destruct (ust d) eqn:Eu; try exact U.
    destruct (alive (dm d) && (dfirst_block c <=? bs_next (env (dm d)))); [|exact U].
    unfold uinv in *. rewrite Eu in U. cbn [with_ust ust emap]. exact U.
  - cbn [dstep]. destruct (ust d) eqn:Eu; try exact U.
    destruct (alive (dm d)); [|exact U]. destruct (init_head c d) as [hd cur].
    unfold uinv in *. rewrite Eu in U. destruct U as [Hm Hg]. cbn [ust emap]. rewrite Hm.
    cbn [em_insert]. split; [exact Hg|]. split; [reflexivity|].
    exists cur. cbn [epochs_from e_epoch length]. repeat split; try discriminate; lia.
  - destruct ans as [[s a]|].
    + cbn [ksane] in Hk. destruct Hk as [Hh Hpos].
      destruct (ust d) as [| | |cur|] eqn:Eu; try (cbn [dstep]; rewrite Eu; exact U).
      destruct (alive (dm d)) eqn:Ea; [|cbn [dstep]; rewrite Eu, Ea; exact U].
      destruct (tick_asks d) as [n|] eqn:Eask.
      * assert (n = tick_head d) as ->.
        { unfold tick_asks in Eask. rewrite Eu in Eask. destruct (em_last (emap d)); [|discriminate].
          destruct (alive (dm d) && (e_act e <? tick_head d)); inversion Eask. reflexivity. }
        destruct (tick_map c d cur s a U Eu Ea Eask Hpos) as [Hm Hu'].
        pose proof U as U0. unfold uinv in U0. rewrite Eu in U0.
        destruct U0 as (Hg & Hc & k & Hk & Hne & Hlen).
        assert (Hle : exists le, em_last (emap d) = Some le /\ e_act le < tick_head d).
        { unfold tick_asks in Eask. rewrite Eu, Ea in Eask. destruct (em_last (emap d)) as [le|]; [|discriminate].
          cbn [andb] in Eask. destruct (e_act le <? tick_head d) eqn:Eg; [|discriminate].
          exists le. split; [reflexivity|]. apply Z.ltb_lt. exact Eg. }
        destruct Hle as (le & Hl & Hlt).
        set (x := {| e_epoch := cur + 1; e_sched := s; e_act := a; e_exp := None |}) in *.
        pose proof (em_last_epoch _ _ _ Hk Hl) as Hlee.
        assert (Hc2 : chain (upd_last (Some (a - 1)) (emap d) ++ [x])).
        { apply (chain_extend (emap d) le x Hc Hl); cbn [e_epoch e_act e_exp x]; try reflexivity; lia. }
        assert (He2 : epochs_from k (upd_last (Some (a - 1)) (emap d) ++ [x])).
        { apply epochs_from_app; [apply upd_last_epochs; exact Hk|]. rewrite upd_last_length. cbn [e_epoch x]. lia. }
        assert (Hl2 : length (upd_last (Some (a - 1)) (emap d) ++ [x]) = S (length (emap d))).
        { rewrite app_length, upd_last_length. cbn [length]. lia. }
        unfold uinv. rewrite Hu', Hm. split; [exact Hg|].
        remember (upd_last (Some (a - 1)) (emap d) ++ [x]) as m2 eqn:Em2.
        unfold prune. destruct (nth_error m2 2) as [z|] eqn:En.
        -- destruct (e_act z <? tick_head d).
           ++ destruct m2 as [|y1 m2']; [discriminate|]. cbn [tl]. split; [eapply chain_tl; exact Hc2|].
              cbn [epochs_from] in He2. destruct He2 as [Hy1 He2]. exists (k + 1).
              split; [exact He2|]. split.
              ** intros ->. destruct (emap d); cbn in Hl2; try discriminate; try contradiction.
              ** cbn [length] in Hl2. lia.
           ++ split; [exact Hc2|]. exists k. split; [exact He2|]. split; [intros ->; discriminate|]. lia.
        -- split; [exact Hc2|]. exists k. split; [exact He2|]. split; [intros ->; discriminate|]. lia.
      * (* not asked: nothing changes *)
        assert (dstep c d (UTick (Some (s, a))) = d) as ->; [|exact U].
        cbn [dstep]. rewrite Eu, Ea. unfold tick_asks in Eask. rewrite Eu, Ea in Eask.
        destruct (urun_last c d cur U Eu) as [le El]. rewrite El in *.
        cbn [andb] in Eask. destruct (e_act le <? tick_head d); [discriminate|reflexivity].
    + (* no pending schedule *)
      cbn [dstep]. destruct (ust d) as [| | |cur|] eqn:Eu; try exact U.
      destruct (alive (dm d)); [|exact U].
      destruct (urun_last c d cur U Eu) as [le El]. rewrite El.
      destruct (e_act le <? tick_head d); exact U.
Qed.

Lemma drun_uinv : forall c ks d, uinv c d -> drun_sane c d ks -> uinv c (drun c d ks).
Proof.
  intros c ks. induction ks as [|k ks IH]; intros d U Hs; [exact U|].
  change (drun c d (k :: ks)) with (drun c (dstep c d k) ks). destruct Hs as [Hk Hs].
  apply IH; [|exact Hs]. apply dstep_uinv; assumption.
Qed.

Lemma dreachable_uinv : forall c d, dreachable c d -> uinv c d.
Proof.
  intros c d (p0 & e0 & ks & H0 & Hs & ->). apply drun_uinv; [|exact Hs].
  apply (start_uinv c p0); reflexivity.
Qed.

(* pruning: an epoch leaves the map only when its whole range is behind the durable head *)
Lemma prune_safe : forall c d ans x, uinv c d -> ksane d (UTick ans) -> In x (emap d) ->
  ~ In (e_epoch x) (map e_epoch (emap (dstep c d (UTick ans)))) ->
  exists v, e_exp x = Some v /\ v < tick_head d.
Proof.
  intros c d ans x U Hk Hin Hout.
  assert (Same : dstep c d (UTick ans) = d -> False).
  { intros E. rewrite E in Hout. apply Hout. apply in_map. exact Hin. }
  destruct ans as [[s a]|].
  - cbn [ksane] in Hk. destruct Hk as [Hh Hpos].
    destruct (ust d) as [| | |cur|] eqn:Eu; try (exfalso; apply Same; cbn [dstep]; rewrite Eu; reflexivity).
    destruct (alive (dm d)) eqn:Ea; [|exfalso; apply Same; cbn [dstep]; rewrite Eu, Ea; reflexivity].
    destruct (tick_asks d) as [n|] eqn:Eask.
    + assert (n = tick_head d) as ->.
      { unfold tick_asks in Eask. rewrite Eu in Eask. destruct (em_last (emap d)); [|discriminate].
        destruct (alive (dm d) && (e_act e <? tick_head d)); inversion Eask. reflexivity. }
      destruct (tick_map c d cur s a U Eu Ea Eask Hpos) as [Hm _]. rewrite Hm in Hout.
      unfold uinv in U. rewrite Eu in U. destruct U as (Hg & Hc & k & Hk & Hne & Hlen).
      set (xn := {| e_epoch := cur + 1; e_sched := s; e_act := a; e_exp := None |}) in *.
      (* epochs of upd_last v m are those of m *)
      assert (Hep : forall v m, map e_epoch (upd_last v m) = map e_epoch m).
      { intros v. induction m as [|y m IH]; [reflexivity|]. destruct m as [|z m']; [reflexivity|].
        change (upd_last v (y :: z :: m')) with (y :: upd_last v (z :: m')). cbn [map] in *. rewrite IH. reflexivity. }
      unfold prune in Hout.
      remember (upd_last (Some (a - 1)) (emap d) ++ [xn]) as m2 eqn:Em2.
      assert (Hall : In (e_epoch x) (map e_epoch m2)).
      { rewrite Em2, map_app, Hep. apply in_or_app. left. apply in_map. exact Hin. }
      destruct (nth_error m2 2) as [z|] eqn:En; [|contradiction].
      destruct (e_act z <? tick_head d) eqn:Ez; [|contradiction]. apply Z.ltb_lt in Ez.
      (* m2 = y1 :: y2 :: z :: _ ; x is the entry of emap d with y1's epoch *)
      destruct (emap d) as [|y1 m] eqn:Em; [contradiction|].
      destruct m as [|y2 m'].
      { (* one entry: m2 has two, no third *) cbn in Em2. subst m2. discriminate. }
      destruct m' as [|y3 m''].
      { (* two entries: the third is the new one, activation above the head *)
        cbn in Em2. subst m2. cbn in En. inversion En; subst z. cbn [e_act xn] in Ez. lia. }
      (* three or more *)
      change (upd_last (Some (a - 1)) (y1 :: y2 :: y3 :: m'')) with (y1 :: y2 :: upd_last (Some (a - 1)) (y3 :: m'')) in Em2.
      cbn [app] in Em2.
      assert (Hz : e_act z = e_act y3).
      { subst m2. destruct m'' as [|y4 m3]; cbn in En; inversion En; reflexivity. }
      subst m2. cbn [tl map] in Hout, Hall.
      destruct Hall as [Hy1|Hrest]; [|contradiction].
      cbn [chain] in Hc. destruct Hc as (He12 & Hlt12 & Hexp1 & He23 & Hlt23 & _).
      (* x has y1's epoch, hence is y1 (epochs are distinct) *)
      assert (x = y1) as ->.
      { destruct Hin as [<-|Hin]; [reflexivity|]. exfalso.
        cbn [epochs_from] in Hk. destruct Hk as [Hk1 Hk2].
        assert (G : forall m j y, epochs_from j m -> In y m -> j <= e_epoch y).
        { induction m as [|w m IHm]; intros j y Hj Hy; [contradiction|]. cbn [epochs_from] in Hj.
          destruct Hj as [Hw Hj]. destruct Hy as [<-|Hy]; [lia|]. specialize (IHm _ _ Hj Hy). lia. }
        specialize (G (y2 :: y3 :: m'') (k + 1) x Hk2 Hin). lia. }
      exists (e_act y2 - 1). split; [exact Hexp1|]. lia.
    + exfalso. apply Same. cbn [dstep]. rewrite Eu, Ea. unfold tick_asks in Eask. rewrite Eu, Ea in Eask.
      destruct (urun_last c d cur U Eu) as [le El]. rewrite El in *.
      cbn [andb] in Eask. destruct (e_act le <? tick_head d); [discriminate|reflexivity].
  - exfalso. apply Same. cbn [dstep]. destruct (ust d) as [| | |cur|] eqn:Eu; try reflexivity.
    destruct (alive (dm d)); [|reflexivity].
    destruct (urun_last c d cur U Eu) as [le El]. rewrite El.
    destruct (e_act le <? tick_head d); reflexivity.
Qed.

Lemma bs_head_le_next : forall p, bs_head p <= bs_next p.
Proof.
  intros p. unfold bs_head, bs_next. destruct (blast p); [lia|].
  destruct (bfirst p =? 0) eqn:E; [apply Z.eqb_eq in E; lia | lia].
Qed.

(* ... hence no block of a pruned epoch's range can be queued any more *)
Lemma prune_behind_queue : forall c d ans x n, dinv c d -> uinv c d -> ksane d (UTick ans) ->
  In x (emap d) -> ~ In (e_epoch x) (map e_epoch (emap (dstep c d (UTick ans)))) ->
  in_range x n = true -> n < qnext (ms (dm d)).
Proof.
  intros c d ans x n I U Hk Hin Hout Hr.
  destruct (prune_safe c d ans x U Hk Hin Hout) as (v & Hv & Hlt).
  unfold in_range in Hr. rewrite Hv in Hr. apply andb_true_iff in Hr. destruct Hr as [_ Hr]. apply Z.leb_le in Hr.
  pose proof (bs_head_le_next (persisted (ms (dm d)))) as H1.
  pose proof (i_pq _ _ (mi_store _ _ (di_m _ _ I))) as H2. unfold pnext, tick_head in *. lia.
Qed.

Lemma chain_nth : forall m i x y, chain m -> nth_error m i = Some x -> nth_error m (S i) = Some y ->
  e_epoch y = e_epoch x + 1 /\ e_act x < e_act y /\ e_exp x = Some (e_act y - 1).
Proof.
  induction m as [|z m IH]; intros i x y Hc Hx Hy; [destruct i; discriminate|].
  destruct i as [|i].
  - cbn in Hx. inversion Hx; subst z. destruct m as [|w m']; [discriminate|]. cbn in Hy. inversion Hy; subst w.
    cbn [chain] in Hc. tauto.
  - cbn [nth_error] in Hx, Hy. apply (IH i x y); try assumption. eapply chain_tl; exact Hc.
Qed.

Lemma chain_last_open : forall m le, chain m -> em_last m = Some le -> e_exp le = None.
Proof.
  induction m as [|z m IH]; intros le Hc Hl; [discriminate|]. destruct m as [|w m'].
  - cbn in Hl. inversion Hl; subst. exact Hc.
  - change (em_last (z :: w :: m')) with (em_last (w :: m')) in Hl. apply (IH le); [|exact Hl].
    eapply chain_tl; exact Hc.
Qed.
