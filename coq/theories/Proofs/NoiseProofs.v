(* Proofs for C13: buffer, transport and stream lemmas. *)
From Coq Require Import ZArith List Bool Arith Lia.
From EC Require Import Lib.Obs Lib.Outcome Model.Noise.
Import ListNotations.
Open Scope nat_scope.

(* ------------------------------------------------------------------------- *)
(* lists *)
Lemma firstn_len_le {A} (l : list A) n : n <= length l -> length (firstn n l) = n.
Proof. intros. rewrite firstn_length. lia. Qed.

Lemma length0_nil {A} (l : list A) : length l = 0 -> l = [].
Proof. destruct l; simpl; [reflexivity|discriminate]. Qed.

Lemma concat_snoc {A} (ls : list (list A)) (x : list A) : concat (ls ++ [x]) = concat ls ++ x.
Proof. rewrite concat_app. simpl. rewrite app_nil_r. reflexivity. Qed.

Lemma nth_error_snoc {A} (l : list A) (x : A) i y :
  nth_error (l ++ [x]) i = Some y ->
  (i < length l /\ nth_error l i = Some y) \/ (i = length l /\ y = x).
Proof.
  intros H. destruct (Nat.lt_ge_cases i (length l)) as [Hlt|Hge].
  - left. split; [assumption|]. rewrite nth_error_app1 in H by assumption. exact H.
  - right. rewrite nth_error_app2 in H by assumption.
    destruct (i - length l) as [|k] eqn:E.
    + simpl in H. inversion H. split; [lia|reflexivity].
    + simpl in H. destruct k; discriminate.
Qed.

(* l1 is pointwise below l2 -> l1 is a prefix of l2 *)
Lemma pointwise_prefix {A} (l1 l2 : list A) :
  (forall i x, nth_error l1 i = Some x -> nth_error l2 i = Some x) -> exists r, l2 = l1 ++ r.
Proof.
  revert l2. induction l1 as [|a l1 IH]; intros l2 H.
  - exists l2. reflexivity.
  - destruct l2 as [|b l2].
    + specialize (H 0 a eq_refl). discriminate.
    + pose proof (H 0 a eq_refl) as H0. simpl in H0. inversion H0; subst b.
      destruct (IH l2) as [r Hr].
      * intros i x Hi. exact (H (S i) x Hi).
      * exists r. simpl. rewrite Hr. reflexivity.
Qed.

(* ------------------------------------------------------------------------- *)
(* u16 little endian *)
Lemma dec16_le16 n : (Z.of_nat n <= 65535)%Z -> dec16 (le16 n) = n.
Proof.
  intros H. unfold dec16, le16. cbn [fst snd].
  rewrite (Z.mod_small (Z.of_nat n) 65536) by lia.
  rewrite Z.add_comm, <- Z.div_mod by lia. apply Nat2Z.id.
Qed.

(* ------------------------------------------------------------------------- *)
(* bytes.rs *)
Lemma buf_size_data_le b : length (b_data b) <= buf_size b.
Proof. unfold buf_size. lia. Qed.

Lemma buf_push_spec b buf :
  let n := Nat.min (buf_capacity b) (length buf) in
  buf_push b buf =
    ({| b_pre := b_pre b; b_data := b_data b ++ firstn n buf; b_post := skipn n (b_post b) |}, n).
Proof. reflexivity. Qed.

Lemma buf_push_size b buf : buf_size (fst (buf_push b buf)) = buf_size b.
Proof.
  unfold buf_push, buf_size, buf_capacity. cbn [fst b_pre b_data b_post].
  rewrite app_length, firstn_length, skipn_length. lia.
Qed.

Lemma buf_take_ok b n : n <= length (b_data b) ->
  buf_take b n = Ok {| b_pre := b_pre b ++ firstn n (b_data b); b_data := skipn n (b_data b); b_post := b_post b |}.
Proof. intros H. unfold buf_take, buf_len. apply Nat.leb_le in H. rewrite H. reflexivity. Qed.

Lemma buf_take_size b n b' : buf_take b n = Ok b' -> buf_size b' = buf_size b.
Proof.
  unfold buf_take, buf_len. destruct (n <=? length (b_data b)) eqn:E; [|discriminate].
  apply Nat.leb_le in E. intros H; inversion H; subst b'. unfold buf_size. cbn [b_pre b_data b_post].
  rewrite app_length, firstn_length, skipn_length. lia.
Qed.

Lemma buf_extend_ok b n : n <= length (b_post b) ->
  buf_extend b n = Ok {| b_pre := b_pre b; b_data := b_data b ++ firstn n (b_post b); b_post := skipn n (b_post b) |}.
Proof. intros H. unfold buf_extend, buf_capacity. apply Nat.leb_le in H. rewrite H. reflexivity. Qed.

Lemma buf_write_cap_ok b off bytes : off + length bytes <= length (b_post b) ->
  buf_write_cap b off bytes =
    Ok {| b_pre := b_pre b; b_data := b_data b;
          b_post := firstn off (b_post b) ++ bytes ++ skipn (off + length bytes) (b_post b) |}.
Proof. intros H. unfold buf_write_cap, buf_capacity. apply Nat.leb_le in H. rewrite H. reflexivity. Qed.

Lemma buf_set_prefix2_ok b p : 2 <= length (b_post b) ->
  buf_set_prefix2 b p =
    Ok {| b_pre := b_pre b; b_data := b_data b; b_post := fst p :: snd p :: skipn 2 (b_post b) |}.
Proof.
  intros H. unfold buf_set_prefix2. destruct (b_post b) as [|x [|y l]]; simpl in H; try lia. reflexivity.
Qed.

Lemma buf_prefix2_ok b : 2 <= length (b_data b) -> buf_prefix2 b = Ok (hdr (b_data b)).
Proof.
  intros H. unfold buf_prefix2, hdr. destruct (b_data b) as [|x [|y l]]; simpl in H; try lia. reflexivity.
Qed.

(* as_mut_capacity()[..k] = bytes; extend(k) *)
Lemma buf_fill_ok b bytes : length bytes <= length (b_post b) ->
  exists b', buf_fill b bytes = Ok b' /\
             b_pre b' = b_pre b /\ b_data b' = b_data b ++ bytes /\
             length (b_post b') = length (b_post b) - length bytes.
Proof.
  intros H. unfold buf_fill. rewrite buf_write_cap_ok by (simpl; lia). cbn [bind].
  rewrite buf_extend_ok.
  2:{ cbn [b_post]. rewrite !app_length. cbn [firstn length]. lia. }
  eexists. split; [reflexivity|]. cbn [b_pre b_data b_post firstn app plus].
  split; [reflexivity|]. split.
  - f_equal. rewrite firstn_app, Nat.sub_diag, firstn_all. cbn [firstn]. apply app_nil_r.
  - rewrite skipn_app, Nat.sub_diag, skipn_all. cbn [skipn app]. rewrite skipn_length. reflexivity.
Qed.

(* write_message into capacity[2..], set_prefix, extend: the frame buffer then holds header ++ ct *)
Lemma frame_build fr0 ct h : b_data fr0 = [] -> 2 + length ct <= length (b_post fr0) ->
  h = le16 (length ct) ->
  exists fr3, build_frame fr0 ct = Ok fr3 /\
              b_data fr3 = fst h :: snd h :: ct /\ b_pre fr3 = b_pre fr0 /\ buf_size fr3 = buf_size fr0.
Proof.
  intros Hd Hc ->. unfold build_frame. rewrite buf_write_cap_ok by lia. cbn [bind].
  assert (Hl2 : length (firstn 2 (b_post fr0)) = 2) by (apply firstn_len_le; lia).
  rewrite buf_set_prefix2_ok.
  2:{ cbn [b_post]. rewrite app_length. lia. }
  cbn [bind b_pre b_data b_post].
  assert (Hs : skipn 2 (firstn 2 (b_post fr0) ++ ct ++ skipn (2 + length ct) (b_post fr0))
               = ct ++ skipn (2 + length ct) (b_post fr0)).
  { rewrite skipn_app, Hl2, Nat.sub_diag.
    rewrite (skipn_all2 (n := 2) (firstn 2 (b_post fr0))) by lia. reflexivity. }
  rewrite Hs. rewrite buf_extend_ok.
  2:{ cbn [b_post length]. rewrite app_length. pose proof (skipn_length (2 + length ct) (b_post fr0)). lia. }
  eexists. split; [reflexivity|]. split; [|split].
  - cbn [b_data b_post]. rewrite Hd. cbn [app].
    change (2 + length ct) with (S (S (length ct))) at 1. rewrite !firstn_cons. f_equal. f_equal.
    rewrite firstn_app, Nat.sub_diag, firstn_all. cbn [firstn]. apply app_nil_r.
  - reflexivity.
  - unfold buf_size. cbn [b_pre b_data b_post]. rewrite Hd.
    rewrite app_length, firstn_length, skipn_length. cbn [length].
    rewrite app_length, skipn_length. lia.
Qed.

Lemma buf_reset_size b : buf_size (buf_reset b) = buf_size b.
Proof. unfold buf_reset, buf_size. cbn [b_pre b_data b_post length]. rewrite !app_length. lia. Qed.

Lemma buf_reset_post_len b : length (b_post (buf_reset b)) = buf_size b.
Proof. unfold buf_reset, buf_size. cbn [b_post]. rewrite !app_length. lia. Qed.

(* ------------------------------------------------------------------------- *)
(* the scripted transport *)
Definition C1 (n : net) : Prop := n_rin n ++ n_chan n = n_hist n.

Lemma inner_write_spec n buf n1 r : inner_write n buf = (n1, r) ->
  n_rin n1 = n_rin n /\ n_cut n1 = n_cut n /\
  match r with
  | PReady k => k <= length buf /\ n_hist n1 = n_hist n ++ firstn k buf /\
                n_chan n1 = (if n_cut n then n_chan n else n_chan n ++ firstn k buf)
  | _ => n_hist n1 = n_hist n /\ n_chan n1 = n_chan n
  end.
Proof.
  unfold inner_write. destruct (n_wscript n) as [|[| |k] s]; intros H; inversion H; subst; clear H;
    cbn [n_rin n_cut n_hist n_chan set_w]; repeat split; try reflexivity; try lia.
Qed.

Lemma inner_ctl_spec code n n1 r : inner_ctl code n = (n1, r) ->
  n_rin n1 = n_rin n /\ n_cut n1 = n_cut n /\ n_hist n1 = n_hist n /\ n_chan n1 = n_chan n.
Proof.
  unfold inner_ctl. destruct (n_wscript n) as [|[| |k] s]; intros H; inversion H; subst; clear H;
    cbn [n_rin n_cut n_hist n_chan set_w]; repeat split; reflexivity.
Qed.

Lemma inner_shutdown_spec n n1 r : inner_shutdown n = (n1, r) ->
  n_rin n1 = n_rin n /\ n_cut n1 = n_cut n /\ n_hist n1 = n_hist n /\ n_chan n1 = n_chan n.
Proof.
  unfold inner_shutdown. destruct (inner_ctl 2 n) as [n2 r2] eqn:E. apply inner_ctl_spec in E.
  destruct r2; intros H; inversion H; subst; clear H; cbn [n_rin n_cut n_hist n_chan]; exact E.
Qed.

Lemma inner_read_spec n cap n1 res : inner_read n cap = (n1, res) ->
  n_hist n1 = n_hist n /\ n_cut n1 = n_cut n /\
  match res with
  | PReady bytes => length bytes <= cap /\ n_rin n1 = n_rin n ++ bytes /\ n_chan n = bytes ++ n_chan n1
  | _ => n_rin n1 = n_rin n /\ n_chan n1 = n_chan n
  end.
Proof.
  unfold inner_read.
  assert (D : forall s m n1 res,
    match n_chan n with
    | [] => if n_closed n then (set_r n s [OL [OZ 3; zn cap; OZ 0]], PReady [])
            else (set_r n s [OL [OZ 3; zn cap; OZ (-1)]], PPending)
    | _ =>
        let bytes := firstn (Nat.min m cap) (n_chan n) in
        ({| n_wscript := n_wscript n; n_rscript := s; n_hist := n_hist n;
            n_chan := skipn (Nat.min m cap) (n_chan n); n_rin := n_rin n ++ bytes;
            n_cut := n_cut n; n_closed := n_closed n;
            n_log := n_log n ++ [OL [OZ 3; zn cap; zn (length bytes)]] |}, PReady bytes)
    end = (n1, res) ->
    n_hist n1 = n_hist n /\ n_cut n1 = n_cut n /\
    match res with
    | PReady bytes => length bytes <= cap /\ n_rin n1 = n_rin n ++ bytes /\ n_chan n = bytes ++ n_chan n1
    | _ => n_rin n1 = n_rin n /\ n_chan n1 = n_chan n
    end).
  { intros s m n2 res2. destruct (n_chan n) as [|x l] eqn:Ec.
    - destruct (n_closed n); intros H; inversion H; subst; clear H;
        cbn [n_rin n_cut n_hist n_chan set_r length]; rewrite ?app_nil_r, ?Ec; repeat split; try reflexivity; lia.
    - cbv zeta. intros H; inversion H; subst; clear H. cbn [n_rin n_cut n_hist n_chan].
      repeat split; try reflexivity.
      + rewrite firstn_length. lia.
      + symmetry. apply firstn_skipn. }
  destruct (n_rscript n) as [|[| |k] s]; intros H.
  - exact (D _ _ _ _ H).
  - inversion H; subst; clear H. cbn [n_rin n_cut n_hist n_chan set_r]. repeat split; reflexivity.
  - inversion H; subst; clear H. cbn [n_rin n_cut n_hist n_chan set_r]. repeat split; reflexivity.
  - exact (D _ _ _ _ H).
Qed.

(* ------------------------------------------------------------------------- *)
Definition frame (c : list Z) : list Z := fst (le16 (length c)) :: snd (le16 (length c)) :: c.
Definition wire (cs : list (list Z)) : list Z := concat (map frame cs).

Lemma wire_snoc cs c : wire (cs ++ [c]) = wire cs ++ frame c.
Proof. unfold wire. rewrite map_app. cbn [map]. apply concat_snoc. Qed.

Lemma wire_app a b : wire (a ++ b) = wire a ++ wire b.
Proof. unfold wire. rewrite map_app. apply concat_app. Qed.

Section Proofs.
  Variable enc : nat -> list Z -> list Z.
  Variable dec : nat -> list Z -> option (list Z).
  Variable PC : nat.
  Hypothesis PC_pos : 1 <= PC.
  Hypothesis PC_max : (Z.of_nat PC + 16 <= 65535)%Z.
  Hypothesis enc_len : forall n p, length (enc n p) = length p + 16.

  (* ciphertexts of the payloads ps, the first under nonce i *)
  Fixpoint encs (i : nat) (ps : list (list Z)) : list (list Z) :=
    match ps with [] => [] | p :: r => enc i p :: encs (S i) r end.

  Lemma encs_snoc ps : forall i p, encs i (ps ++ [p]) = encs i ps ++ [enc (i + length ps) p].
  Proof.
    induction ps as [|q ps IH]; intros i p; cbn [encs app length].
    - rewrite Nat.add_0_r. reflexivity.
    - rewrite IH. replace (S i + length ps) with (i + S (length ps)) by lia. reflexivity.
  Qed.

  Lemma encs_length ps : forall i, length (encs i ps) = length ps.
  Proof. induction ps; intros; cbn [encs length]; auto. Qed.

  Lemma encs_nth ps : forall i k p, nth_error ps k = Some p -> nth_error (encs i ps) k = Some (enc (i + k) p).
  Proof.
    induction ps as [|q ps IH]; intros i k p H; destruct k; cbn [nth_error encs] in *; try discriminate.
    - inversion H. rewrite Nat.add_0_r. reflexivity.
    - rewrite (IH (S i) k p H). replace (S i + k) with (i + S k) by lia. reflexivity.
  Qed.

  Definition netw (n n' : net) : Prop :=
    n_rin n' = n_rin n /\ n_cut n' = n_cut n /\ (n_cut n = false -> C1 n -> C1 n').

  Lemma netw_refl n : netw n n.
  Proof. repeat split; auto. Qed.
  Lemma netw_trans a b c : netw a b -> netw b c -> netw a c.
  Proof.
    intros (H1 & H2 & H3) (K1 & K2 & K3). repeat split; try congruence.
    intros Hc Hx. apply K3; [congruence|]. apply H3; assumption.
  Qed.

  Lemma inner_write_netw n buf n1 r : inner_write n buf = (n1, r) -> netw n n1.
  Proof.
    intros H. apply inner_write_spec in H. destruct H as (H1 & H2 & H3).
    repeat split; try assumption. intros Hc Hx. unfold C1 in *. rewrite H1.
    destruct r as [k| |e].
    - destruct H3 as (_ & Hh & Hch). rewrite Hh, Hch, Hc, app_assoc, Hx. reflexivity.
    - destruct H3 as (Hh & Hch). rewrite Hh, Hch. exact Hx.
    - destruct H3 as (Hh & Hch). rewrite Hh, Hch. exact Hx.
  Qed.

  (* writer invariant: sizes, the wire is the in-order concatenation of whole frames, accepted bytes *)
  Definition WI (w : wst) (n : net) (acc : list Z) : Prop :=
    buf_size (w_payload w) = PC /\ b_pre (w_payload w) = [] /\ buf_size (w_frame w) = FC PC /\
    n_hist n ++ b_data (w_frame w) = wire (encs 0 (w_sent w)) /\
    acc = concat (w_sent w) ++ b_data (w_payload w) /\
    Forall (fun p => 1 <= length p <= PC) (w_sent w).

  Lemma WI_hist w n n' acc : WI w n acc -> n_hist n' = n_hist n -> WI w n' acc.
  Proof. unfold WI. intros H E. rewrite E. exact H. Qed.

  Lemma flush_frame_spec : forall fuel w n acc,
    WI w n acc -> buf_len (w_frame w) < fuel ->
    exists w' n' r, flush_frame fuel w n = Ok (w', n', r) /\ WI w' n' acc /\ netw n n' /\
      w_payload w' = w_payload w /\ w_sent w' = w_sent w /\
      (forall u, r = PReady u -> b_data (w_frame w') = []).
  Proof.
    induction fuel as [|f IH]; intros w n acc HW Hf; [lia|].
    cbn [flush_frame]. destruct (buf_len (w_frame w) =? 0) eqn:E0.
    - apply Nat.eqb_eq in E0. exists w, n, (PReady tt).
      split; [reflexivity|]. split; [exact HW|]. split; [apply netw_refl|].
      split; [reflexivity|]. split; [reflexivity|]. intros _ _. apply length0_nil. exact E0.
    - apply Nat.eqb_neq in E0. unfold buf_as_slice.
      destruct (inner_write n (b_data (w_frame w))) as [n1 r] eqn:Ew.
      pose proof (inner_write_netw _ _ _ _ Ew) as Hn.
      apply inner_write_spec in Ew. destruct Ew as (_ & _ & Hr).
      pose proof HW as HW0.
      destruct HW as (S1 & S2 & S3 & W1 & W2 & W3).
      destruct r as [k| |e].
      + destruct Hr as (Hk & Hh & _).
        destruct (k =? 0) eqn:Ek.
        * apply Nat.eqb_eq in Ek. subst k. exists w, n1, (PErr EWriteZero).
          split; [reflexivity|]. split.
          { apply (WI_hist w n n1 acc HW0). rewrite Hh. cbn [firstn]. apply app_nil_r. }
          split; [exact Hn|]. split; [reflexivity|]. split; [reflexivity|]. intros; discriminate.
        * apply Nat.eqb_neq in Ek. rewrite (buf_take_ok _ k Hk). cbn [bind].
          set (w2 := {| w_payload := w_payload w; w_frame := _; w_sent := w_sent w |}).
          destruct (IH w2 n1 acc) as (w' & n' & r & Hrun & HW' & Hn' & Hp & Hs & Hd).
          { unfold w2, WI. cbn [w_payload w_frame w_sent b_data].
            split; [exact S1|]. split; [exact S2|]. split.
            { erewrite buf_take_size; [exact S3|apply buf_take_ok; exact Hk]. }
            split; [|split; [exact W2|exact W3]].
            rewrite Hh, <- app_assoc, firstn_skipn. exact W1. }
          { unfold w2, buf_len in *. cbn [w_frame b_data]. rewrite skipn_length. lia. }
          exists w', n', r. split; [exact Hrun|]. split; [exact HW'|].
          split; [eapply netw_trans; eassumption|].
          split; [exact Hp|]. split; [exact Hs|exact Hd].
      + destruct Hr as (Hh & _). exists w, n1, PPending. split; [reflexivity|].
        split; [exact (WI_hist w n n1 acc HW0 Hh)|].
        split; [exact Hn|]. split; [reflexivity|]. split; [reflexivity|]. intros; discriminate.
      + destruct Hr as (Hh & _). exists w, n1, (PErr e). split; [reflexivity|].
        split; [exact (WI_hist w n n1 acc HW0 Hh)|].
        split; [exact Hn|]. split; [reflexivity|]. split; [reflexivity|]. intros; discriminate.
  Qed.

  Lemma FC_val : FC PC = PC + 18.
  Proof. unfold FC, AUTH, LENF. lia. Qed.

  Lemma poll_flush_payload_spec w n acc : WI w n acc ->
    exists w' n' r, poll_flush_payload enc w n = Ok (w', n', r) /\ WI w' n' acc /\ netw n n' /\
      (forall u, r = PReady u -> b_data (w_payload w') = [] /\
         (b_data (w_payload w) = [] -> b_data (w_frame w') = b_data (w_frame w) /\ n_hist n' = n_hist n)).
  Proof.
    intros HW. unfold poll_flush_payload. destruct (buf_len (w_payload w) =? 0) eqn:E0.
    - apply Nat.eqb_eq in E0. exists w, n, (PReady tt).
      split; [reflexivity|]. split; [exact HW|]. split; [apply netw_refl|].
      intros _ _. split; [apply length0_nil; exact E0|]. intros _. split; reflexivity.
    - apply Nat.eqb_neq in E0. unfold poll_flush_frame.
      destruct (flush_frame_spec (S (buf_len (w_frame w))) w n acc HW ltac:(lia))
        as (w1 & n1 & r & Hrun & HW1 & Hn1 & Hp & Hs & Hd).
      rewrite Hrun. cbn [bind].
      destruct r as [u| |e].
      2:{ exists w1, n1, PPending. split; [reflexivity|]. split; [exact HW1|]. split; [exact Hn1|]. intros; discriminate. }
      2:{ exists w1, n1, (PErr e). split; [reflexivity|]. split; [exact HW1|]. split; [exact Hn1|]. intros; discriminate. }
      specialize (Hd u eq_refl).
      destruct HW1 as (S1 & S2 & S3 & W1 & W2 & W3).
      pose proof (buf_reset_post_len (w_frame w1)) as Hcap. rewrite S3, FC_val in Hcap.
      unfold buf_capacity, buf_as_slice, LENF, AUTH, MAXMSG.
      pose proof (buf_size_data_le (w_payload w1)) as Hpl. rewrite S1 in Hpl.
      destruct (length (b_post (buf_reset (w_frame w1))) <? 2) eqn:E1; [apply Nat.ltb_lt in E1; lia|].
      destruct ((Z.to_nat 65535 <? length (b_data (w_payload w1)) + 16)
                || (length (b_post (buf_reset (w_frame w1))) - 2 <? length (b_data (w_payload w1)) + 16)) eqn:E2.
      { apply orb_true_iff in E2. destruct E2 as [E2|E2]; apply Nat.ltb_lt in E2; lia. }
      set (pl := b_data (w_payload w1)) in *.
      set (ct := enc (length (w_sent w1)) pl).
      assert (Hct : length ct = length pl + 16) by apply enc_len.
      destruct (frame_build (buf_reset (w_frame w1)) ct (le16 (length ct)))
        as (fr3 & Hfr & Hfd & _ & Hfs); [reflexivity|lia|reflexivity|].
      fold ct. rewrite Hfr.
      cbn [bind]. unfold buf_len. rewrite (buf_take_ok (w_payload w1) (length (b_data (w_payload w1)))) by lia.
      cbn [bind].
      eexists _, n1, (PReady tt). split; [reflexivity|]. split.
      + unfold WI. cbn [w_payload w_frame w_sent]. repeat split.
        * rewrite buf_reset_size. unfold buf_size. cbn [b_pre b_data b_post].
          rewrite app_length, firstn_length, skipn_length. unfold buf_size in S1. rewrite S2 in *. cbn [length] in *. lia.
        * rewrite Hfs, buf_reset_size. exact S3.
        * rewrite Hfd, encs_snoc, wire_snoc. rewrite Hd, app_nil_r in W1. rewrite W1. reflexivity.
        * cbn [buf_reset b_data]. rewrite app_nil_r, concat_snoc. rewrite W2. reflexivity.
        * apply Forall_app. split; [exact W3|]. constructor; [|constructor].
          unfold buf_len in E0. rewrite <- Hp in E0. unfold pl in *. lia.
      + split; [exact Hn1|]. intros _ _. split; [reflexivity|]. intros Hnil.
        exfalso. unfold buf_len in E0. rewrite Hnil in E0. cbn in E0. lia.
  Qed.

  Definition ready_n (r : pr nat) : nat := match r with PReady k => k | _ => 0 end.

  Lemma poll_write_spec w n acc buf : WI w n acc ->
    exists w' n' r, poll_write enc w n buf = Ok (w', n', r) /\
      WI w' n' (acc ++ firstn (ready_n r) buf) /\ netw n n' /\
      (forall k, r = PReady k -> (k = 0 <-> buf = []) /\ k <= length buf) /\
      (buf = [] -> w' = w /\ n' = n).
  Proof.
    intros HW. unfold poll_write. destruct buf as [|b0 buf'].
    { exists w, n, (PReady 0). split; [reflexivity|]. cbn [ready_n firstn]. rewrite app_nil_r.
      split; [exact HW|]. split; [apply netw_refl|]. split.
      - intros k Hk. inversion Hk. split; [tauto|]. cbn; lia.
      - auto. }
    cbv beta iota. set (buf := b0 :: buf').
    match goal with |- context [bind ?X _] =>
    assert (Hstep : exists w1 n1 r1, X = Ok (w1, n1, r1) /\ WI w1 n1 acc /\ netw n n1 /\
      (forall u, r1 = PReady u -> 1 <= buf_capacity (w_payload w1))) end.
    { destruct (buf_capacity (w_payload w) =? 0) eqn:Ec.
      - destruct (poll_flush_payload_spec w n acc HW) as (w1 & n1 & r1 & Hr & HW1 & Hn1 & Hd).
        exists w1, n1, r1. split; [exact Hr|]. split; [exact HW1|]. split; [exact Hn1|].
        intros u Hu. destruct (Hd u Hu) as (Hnil & _).
        destruct HW1 as (S1 & S2 & _). unfold buf_size in S1. unfold buf_capacity.
        rewrite S2, Hnil in S1. cbn [length] in S1. lia.
      - apply Nat.eqb_neq in Ec. exists w, n, (PReady tt). split; [reflexivity|].
        split; [exact HW|]. split; [apply netw_refl|]. intros; lia. }
    destruct Hstep as (w1 & n1 & r1 & Hr & HW1 & Hn1 & Hcap). rewrite Hr. cbn [bind].
    destruct r1 as [u| |e].
    2:{ exists w1, n1, PPending. split; [reflexivity|]. cbn [ready_n firstn]. rewrite app_nil_r.
        split; [exact HW1|]. split; [exact Hn1|]. split; [intros; discriminate|intros; discriminate]. }
    2:{ exists w1, n1, (PErr e). split; [reflexivity|]. cbn [ready_n firstn]. rewrite app_nil_r.
        split; [exact HW1|]. split; [exact Hn1|]. split; [intros; discriminate|intros; discriminate]. }
    specialize (Hcap u eq_refl). rewrite buf_push_spec. cbv zeta.
    set (k := Nat.min (buf_capacity (w_payload w1)) (length buf)).
    assert (Hk : 1 <= k /\ k <= length buf) by (unfold k, buf; cbn [length]; lia).
    destruct (k =? 0) eqn:Ek; [apply Nat.eqb_eq in Ek; lia|].
    eexists _, n1, (PReady k). split; [reflexivity|]. split.
    - destruct HW1 as (S1 & S2 & S3 & W1 & W2 & W3). unfold WI. cbn [w_payload w_frame w_sent b_pre b_data ready_n].
      split.
      { pose proof (buf_push_size (w_payload w1) buf) as Hs. rewrite buf_push_spec in Hs. cbn [fst] in Hs.
        fold k in Hs. rewrite Hs. exact S1. }
      split; [exact S2|]. split; [exact S3|]. split; [exact W1|]. split; [|exact W3].
      rewrite W2, app_assoc. reflexivity.
    - split; [exact Hn1|]. split.
      + intros k' Hk'. inversion Hk'. subst k'. split; [|lia]. split; [lia|discriminate].
      + discriminate.
  Qed.

  Definition last_ok (last : net -> net * pr unit) : Prop :=
    forall n n1 r, last n = (n1, r) ->
      n_rin n1 = n_rin n /\ n_cut n1 = n_cut n /\ n_hist n1 = n_hist n /\ n_chan n1 = n_chan n.

  Lemma last_netw last n n1 r : last_ok last -> last n = (n1, r) -> netw n n1 /\ n_hist n1 = n_hist n.
  Proof.
    intros HL H. destruct (HL _ _ _ H) as (H1 & H2 & H3 & H4). split; [|exact H3].
    split; [exact H1|]. split; [exact H2|]. intros _ Hc. unfold C1 in *. rewrite H1, H3, H4. exact Hc.
  Qed.

  Lemma poll_flush_with_spec last w n acc : last_ok last -> WI w n acc ->
    exists w' n' r, poll_flush_with enc last w n = Ok (w', n', r) /\ WI w' n' acc /\ netw n n' /\
      (forall u, r = PReady u -> b_data (w_payload w') = [] /\ b_data (w_frame w') = []).
  Proof.
    intros HL HW. unfold poll_flush_with.
    destruct (poll_flush_payload_spec w n acc HW) as (w1 & n1 & r1 & Hr & HW1 & Hn1 & Hd).
    rewrite Hr. cbn [bind]. destruct r1 as [u| |e].
    2:{ exists w1, n1, PPending. split; [reflexivity|]. split; [exact HW1|]. split; [exact Hn1|]. intros; discriminate. }
    2:{ exists w1, n1, (PErr e). split; [reflexivity|]. split; [exact HW1|]. split; [exact Hn1|]. intros; discriminate. }
    destruct (Hd u eq_refl) as (Hnil & _). unfold poll_flush_frame.
    destruct (flush_frame_spec (S (buf_len (w_frame w1))) w1 n1 acc HW1 ltac:(lia))
      as (w2 & n2 & r2 & Hr2 & HW2 & Hn2 & Hp2 & Hs2 & Hd2).
    rewrite Hr2. cbn [bind]. destruct r2 as [u2| |e].
    2:{ exists w2, n2, PPending. split; [reflexivity|]. split; [exact HW2|].
        split; [eapply netw_trans; eassumption|]. intros; discriminate. }
    2:{ exists w2, n2, (PErr e). split; [reflexivity|]. split; [exact HW2|].
        split; [eapply netw_trans; eassumption|]. intros; discriminate. }
    destruct (last n2) as [n3 r3] eqn:El. destruct (last_netw _ _ _ _ HL El) as (Hn3 & Hh3).
    exists w2, n3, r3. split; [reflexivity|]. split; [exact (WI_hist _ _ _ _ HW2 Hh3)|].
    split; [eapply netw_trans; [eapply netw_trans|]; eassumption|].
    intros u3 _. split; [rewrite Hp2; exact Hnil|exact (Hd2 u2 eq_refl)].
  Qed.

  Lemma flush_last_ok : last_ok inner_flush.
  Proof. intros n n1 r H. exact (inner_ctl_spec _ _ _ _ H). Qed.
  Lemma shutdown_last_ok : last_ok inner_shutdown.
  Proof. intros n n1 r H. exact (inner_shutdown_spec _ _ _ H). Qed.

  (* ----------------------------------------------------------------------- *)
  (* reader *)
  Definition rawframe (e : Z * Z * list Z * list Z) : list Z :=
    let '(h, c, _) := e in fst h :: snd h :: c.
  Definition plain (e : Z * Z * list Z * list Z) : list Z := snd e.
  Definition ctext (e : Z * Z * list Z * list Z) : list Z := snd (fst e).

  Definition netr (n n' : net) : Prop :=
    n_hist n' = n_hist n /\ n_cut n' = n_cut n /\ (C1 n -> C1 n').
  Lemma netr_refl n : netr n n.
  Proof. repeat split; auto. Qed.
  Lemma netr_trans a b c : netr a b -> netr b c -> netr a c.
  Proof. intros (H1 & H2 & H3) (K1 & K2 & K3). repeat split; try congruence. auto. Qed.

  Lemma inner_read_netr n cap n1 res : inner_read n cap = (n1, res) -> netr n n1.
  Proof.
    intros H. apply inner_read_spec in H. destruct H as (H1 & H2 & H3).
    split; [exact H1|]. split; [exact H2|]. unfold C1. intros Hc. rewrite H1.
    destruct res as [bytes| |e].
    - destruct H3 as (_ & Hr & Hch). rewrite Hr, <- app_assoc, <- Hch. exact Hc.
    - destruct H3 as (Hr & Hch). rewrite Hr, Hch. exact Hc.
    - destruct H3 as (Hr & Hch). rewrite Hr, Hch. exact Hc.
  Qed.

  Definition RI (r : rst) (n : net) (del : list Z) : Prop :=
    n_rin n = concat (map rawframe (r_got r)) ++ b_data (r_frame r) /\
    del ++ b_data (r_payload r) = concat (map plain (r_got r)) /\
    (forall i h c p, nth_error (r_got r) i = Some (h, c, p) -> dec i c = Some p /\ length c = dec16 h).

  Lemma RI_rin r n n' del : RI r n del -> n_rin n' = n_rin n -> RI r n' del.
  Proof. unfold RI. intros H E. rewrite E. exact H. Qed.

  Lemma frame_complete_spec fr : exists c, frame_complete fr = Ok c /\
    (forall L, c = Some L -> 2 + L <= buf_len fr /\ L = dec16 (hdr (b_data fr))).
  Proof.
    unfold frame_complete, LENF. destruct (2 <=? buf_len fr) eqn:E.
    - apply Nat.leb_le in E. unfold buf_len in E. rewrite (buf_prefix2_ok fr E). cbn [bind].
      destruct (2 + dec16 (hdr (b_data fr)) <=? buf_len fr) eqn:E2.
      + apply Nat.leb_le in E2. eexists. split; [reflexivity|]. intros L HL. inversion HL. subst L. auto.
      + eexists. split; [reflexivity|]. intros; discriminate.
    - eexists. split; [reflexivity|]. intros; discriminate.
  Qed.

  Lemma read_frame_spec : forall fuel r n del,
    RI r n del -> buf_capacity (r_frame r) < fuel ->
    exists r' n' res, read_frame fuel r n = Ok (r', n', res) /\ RI r' n' del /\ netr n n' /\
      r_payload r' = r_payload r /\ r_got r' = r_got r /\
      (forall L, res = PReady (Some L) ->
         2 + L <= buf_len (r_frame r') /\ L = dec16 (hdr (b_data (r_frame r')))).
  Proof.
    induction fuel as [|f IH]; intros r n del HR Hf; [lia|].
    cbn [read_frame]. destruct (frame_complete_spec (r_frame r)) as (c & Hc & HcL). rewrite Hc. cbn [bind].
    destruct c as [L|].
    { exists r, n, (PReady (Some L)). split; [reflexivity|]. split; [exact HR|]. split; [apply netr_refl|].
      split; [reflexivity|]. split; [reflexivity|]. intros L' HL'. inversion HL'. subst L'. apply HcL. reflexivity. }
    destruct (inner_read n (buf_capacity (r_frame r))) as [n1 res] eqn:Er.
    pose proof (inner_read_netr _ _ _ _ Er) as Hn.
    apply inner_read_spec in Er. destruct Er as (_ & _ & Hres).
    destruct res as [bytes| |e].
    - destruct Hres as (Hlen & Hrin & _).
      destruct (length bytes =? 0) eqn:E0.
      + apply Nat.eqb_eq in E0. apply length0_nil in E0. subst bytes. rewrite app_nil_r in Hrin.
        exists r, n1, (PReady None). split; [reflexivity|]. split; [exact (RI_rin _ _ _ _ HR Hrin)|].
        split; [exact Hn|]. split; [reflexivity|]. split; [reflexivity|]. intros; discriminate.
      + apply Nat.eqb_neq in E0.
        destruct (buf_fill_ok (r_frame r) bytes) as (fr2 & Hfill & _ & Hfd & Hfp); [exact Hlen|].
        rewrite Hfill. cbn [bind].
        set (r2 := {| r_payload := r_payload r; r_frame := fr2; r_got := r_got r |}).
        destruct (IH r2 n1 del) as (r' & n' & res & Hrun & HR' & Hn' & Hp & Hg & HL).
        { destruct HR as (R1 & R2 & R3). unfold r2, RI. cbn [r_payload r_frame r_got].
          split; [|split; [exact R2|exact R3]]. rewrite Hrin, R1, Hfd, app_assoc. reflexivity. }
        { unfold r2, buf_capacity in *. cbn [r_frame]. lia. }
        exists r', n', res. split; [exact Hrun|]. split; [exact HR'|].
        split; [eapply netr_trans; eassumption|]. split; [exact Hp|]. split; [exact Hg|exact HL].
    - destruct Hres as (Hrin & _). exists r, n1, PPending. split; [reflexivity|].
      split; [exact (RI_rin _ _ _ _ HR Hrin)|]. split; [exact Hn|].
      split; [reflexivity|]. split; [reflexivity|]. intros; discriminate.
    - destruct Hres as (Hrin & _). exists r, n1, (PErr e). split; [reflexivity|].
      split; [exact (RI_rin _ _ _ _ HR Hrin)|]. split; [exact Hn|].
      split; [reflexivity|]. split; [reflexivity|]. intros; discriminate.
  Qed.

  Lemma poll_read_payload_spec r n del : RI r n del ->
    exists r' n' res, poll_read_payload dec r n = Ok (r', n', res) /\ RI r' n' del /\ netr n n'.
  Proof.
    intros HR. unfold poll_read_payload. destruct (0 <? buf_len (r_payload r)) eqn:E0.
    { exists r, n, (PReady tt). split; [reflexivity|]. split; [exact HR|apply netr_refl]. }
    apply Nat.ltb_ge in E0. assert (Hpd : b_data (r_payload r) = []) by (apply length0_nil; unfold buf_len in E0; lia).
    unfold poll_read_frame.
    destruct (read_frame_spec (S (buf_capacity (r_frame r))) r n del HR ltac:(lia))
      as (r1 & n1 & res & Hrun & HR1 & Hn1 & Hp & Hg & HL).
    rewrite Hrun. cbn [bind]. destruct res as [[L|]| |e].
    2:{ exists r1, n1, (PReady tt). split; [reflexivity|]. split; [exact HR1|exact Hn1]. }
    2:{ exists r1, n1, PPending. split; [reflexivity|]. split; [exact HR1|exact Hn1]. }
    2:{ exists r1, n1, (PErr e). split; [reflexivity|]. split; [exact HR1|exact Hn1]. }
    destruct (HL L eq_refl) as (HL1 & HL2). unfold LENF, buf_as_slice.
    destruct (buf_len (r_frame r1) <? 2 + L) eqn:E1; [apply Nat.ltb_lt in E1; lia|].
    set (d := b_data (r_frame r1)) in *.
    set (c := firstn L (skipn 2 d)).
    set (bad := {| r_payload := buf_reset (r_payload r1); r_frame := r_frame r1; r_got := r_got r1 |}).
    destruct HR1 as (R1 & R2 & R3).
    assert (HRbad : RI bad n1 del).
    { unfold bad, RI. cbn [r_payload r_frame r_got buf_reset b_data]. split; [exact R1|].
      split; [|exact R3]. rewrite <- R2, Hp, Hpd. reflexivity. }
    destruct (MAXMSG <? length c).
    { exists bad, n1, (PErr EInvalidData). split; [reflexivity|]. split; [exact HRbad|exact Hn1]. }
    destruct (dec (length (r_got r1)) c) as [p|] eqn:Ed.
    2:{ exists bad, n1, (PErr EInvalidData). split; [reflexivity|]. split; [exact HRbad|exact Hn1]. }
    destruct (buf_capacity (buf_reset (r_payload r1)) <? length p) eqn:E2.
    { exists bad, n1, (PErr EInvalidData). split; [reflexivity|]. split; [exact HRbad|exact Hn1]. }
    apply Nat.ltb_ge in E2. unfold buf_capacity in E2.
    destruct (buf_fill_ok (buf_reset (r_payload r1)) p E2) as (pl2 & Hfill & _ & Hfd & _).
    unfold buf_fill in Hfill. rewrite buf_write_cap_ok in Hfill by (cbn [plus]; exact E2). cbn [bind] in Hfill.
    rewrite buf_write_cap_ok by (cbn [plus]; exact E2). cbn [bind].
    unfold buf_len in HL1. fold d in HL1.
    rewrite (buf_take_ok (r_frame r1) (2 + L)) by exact HL1. cbn [bind].
    rewrite Hfill. cbn [bind].
    eexists _, n1, (PReady tt). split; [reflexivity|]. split; [|exact Hn1].
    unfold RI. cbn [r_payload r_frame r_got buf_shift b_data].
    assert (Hclen : length c = L).
    { unfold c. rewrite firstn_length, skipn_length. lia. }
    assert (Hraw : rawframe (hdr d, c, p) = firstn (2 + L) d).
    { unfold rawframe, hdr, c. cbn [fst snd]. destruct d as [|x [|y d']]; cbn [length] in HL1; try lia.
      reflexivity. }
    split; [|split].
    - rewrite map_app. cbn [map]. rewrite concat_snoc. fold d. rewrite Hraw, <- app_assoc, firstn_skipn. exact R1.
    - rewrite map_app. cbn [map]. rewrite concat_snoc. unfold plain at 2. cbn [snd].
      rewrite Hfd. cbn [buf_reset b_data app]. rewrite <- R2, Hp, Hpd, app_nil_r. reflexivity.
    - intros i h c' p' Hi. apply nth_error_snoc in Hi. destruct Hi as [(_ & Hi)|(Hi & He)].
      + exact (R3 i h c' p' Hi).
      + injection He as Hh Hc' Hp'. subst h c' p' i. split; [exact Ed|]. rewrite Hclen. exact HL2.
  Qed.

  Definition ready_l (r : pr (list Z)) : list Z := match r with PReady o => o | _ => [] end.

  Lemma poll_read_spec r n del cap : RI r n del ->
    exists r' n' res, poll_read dec r n cap = Ok (r', n', res) /\ RI r' n' (del ++ ready_l res) /\ netr n n' /\
      length (ready_l res) <= cap.
  Proof.
    intros HR. unfold poll_read.
    destruct (poll_read_payload_spec r n del HR) as (r1 & n1 & res & Hrun & HR1 & Hn1).
    rewrite Hrun. cbn [bind]. destruct res as [u| |e].
    2:{ exists r1, n1, PPending. split; [reflexivity|]. cbn [ready_l]. rewrite app_nil_r.
        split; [exact HR1|]. split; [exact Hn1|cbn; lia]. }
    2:{ exists r1, n1, (PErr e). split; [reflexivity|]. cbn [ready_l]. rewrite app_nil_r.
        split; [exact HR1|]. split; [exact Hn1|cbn; lia]. }
    unfold buf_as_slice, buf_len.
    set (k := Nat.min cap (length (b_data (r_payload r1)))).
    rewrite (buf_take_ok (r_payload r1) k) by (unfold k; lia). cbn [bind].
    eexists _, n1, (PReady _). split; [reflexivity|]. cbn [ready_l]. split; [|split; [exact Hn1|]].
    - destruct HR1 as (R1 & R2 & R3). unfold RI. cbn [r_payload r_frame r_got b_data].
      split; [exact R1|]. split; [|exact R3]. rewrite <- app_assoc, firstn_skipn. exact R2.
    - rewrite firstn_length. unfold k. lia.
  Qed.

  (* ----------------------------------------------------------------------- *)
  (* the simulation: every operation list, every script, every tampering function *)
  Definition Inv (s : sim) : Prop :=
    WI (s_w s) (s_net s) (s_accepted s) /\ RI (s_r s) (s_net s) (s_delivered s) /\
    (s_flushed s = true -> b_data (w_payload (s_w s)) = [] /\ b_data (w_frame (s_w s)) = []).
  Definition UInv (s : sim) : Prop := n_cut (s_net s) = false /\ C1 (s_net s).

  Lemma step_spec s o : Inv s ->
    exists s' ob, step enc dec s o = Ok (s', ob) /\ Inv s' /\ (is_tamper o = false -> UInv s -> UInv s').
  Proof.
    intros (HW & HR & HF). destruct o as [bytes sc|sc|sc|cap sc|f]; cbn [step].
    - set (n0 := with_scripts (s_net s) sc []).
      assert (HW0 : WI (s_w s) n0 (s_accepted s)) by (apply (WI_hist _ _ _ _ HW); reflexivity).
      destruct (poll_write_spec (s_w s) n0 (s_accepted s) bytes HW0) as (w' & n' & r & Hrun & HW' & Hn & _ & He).
      rewrite Hrun. cbn [bind]. eexists _, _. split; [reflexivity|]. cbn [fst].
      destruct Hn as (Hn1 & Hn2 & Hn3).
      split; [split; [|split]|]; cbn [s_w s_r s_net s_accepted s_delivered s_flushed].
      + exact HW'.
      + apply (RI_rin _ _ _ _ HR). rewrite Hn1. reflexivity.
      + destruct bytes as [|b0 bs]; [|discriminate]. destruct (He eq_refl) as (-> & ->). exact HF.
      + intros _ (U1 & U2). unfold UInv. cbn [s_net]. split; [rewrite Hn2; exact U1|]. apply Hn3; [exact U1|exact U2].
    - set (n0 := with_scripts (s_net s) sc []).
      assert (HW0 : WI (s_w s) n0 (s_accepted s)) by (apply (WI_hist _ _ _ _ HW); reflexivity).
      destruct (poll_flush_with_spec inner_flush (s_w s) n0 (s_accepted s) flush_last_ok HW0)
        as (w' & n' & r & Hrun & HW' & Hn & Hd).
      unfold poll_flush. rewrite Hrun. cbn [bind]. eexists _, _. split; [reflexivity|]. cbn [fst].
      destruct Hn as (Hn1 & Hn2 & Hn3).
      split; [split; [|split]|]; cbn [s_w s_r s_net s_accepted s_delivered s_flushed].
      + exact HW'.
      + apply (RI_rin _ _ _ _ HR). rewrite Hn1. reflexivity.
      + destruct r as [u| |e]; cbn [is_ready]; try discriminate. intros _. exact (Hd u eq_refl).
      + intros _ (U1 & U2). unfold UInv. cbn [s_net]. split; [rewrite Hn2; exact U1|]. apply Hn3; [exact U1|exact U2].
    - set (n0 := with_scripts (s_net s) sc []).
      assert (HW0 : WI (s_w s) n0 (s_accepted s)) by (apply (WI_hist _ _ _ _ HW); reflexivity).
      destruct (poll_flush_with_spec inner_shutdown (s_w s) n0 (s_accepted s) shutdown_last_ok HW0)
        as (w' & n' & r & Hrun & HW' & Hn & Hd).
      unfold poll_shutdown. rewrite Hrun. cbn [bind]. eexists _, _. split; [reflexivity|]. cbn [fst].
      destruct Hn as (Hn1 & Hn2 & Hn3).
      split; [split; [|split]|]; cbn [s_w s_r s_net s_accepted s_delivered s_flushed].
      + exact HW'.
      + apply (RI_rin _ _ _ _ HR). rewrite Hn1. reflexivity.
      + destruct r as [u| |e]; cbn [is_ready]; try discriminate. intros _. exact (Hd u eq_refl).
      + intros _ (U1 & U2). unfold UInv. cbn [s_net]. split; [rewrite Hn2; exact U1|]. apply Hn3; [exact U1|exact U2].
    - set (n0 := with_scripts (s_net s) [] sc).
      assert (HR0 : RI (s_r s) n0 (s_delivered s)) by (apply (RI_rin _ _ _ _ HR); reflexivity).
      destruct (poll_read_spec (s_r s) n0 (s_delivered s) cap HR0) as (r' & n' & res & Hrun & HR' & Hn & _).
      rewrite Hrun. cbn [bind]. eexists _, _. split; [reflexivity|]. cbn [fst].
      destruct Hn as (Hn1 & Hn2 & Hn3).
      split; [split; [|split]|]; cbn [s_w s_r s_net s_accepted s_delivered s_flushed].
      + apply (WI_hist _ _ _ _ HW). rewrite Hn1. reflexivity.
      + exact HR'.
      + exact HF.
      + intros _ (U1 & U2). unfold UInv. cbn [s_net]. split; [rewrite Hn2; exact U1|]. apply Hn3. exact U2.
    - destruct (f (n_hist (s_net s)) (length (n_rin (s_net s))) (n_chan (s_net s))) as [chan' cut].
      eexists _, _. split; [reflexivity|]. cbn [fst].
      split; [split; [|split]|]; cbn [s_w s_r s_net s_accepted s_delivered s_flushed].
      + apply (WI_hist _ _ _ _ HW). reflexivity.
      + apply (RI_rin _ _ _ _ HR). reflexivity.
      + exact HF.
      + cbn [is_tamper]. discriminate.
  Qed.

  Definition untampered (ops : list op) : bool := forallb (fun o => negb (is_tamper o)) ops.

  Lemma run_spec : forall ops s, Inv s ->
    exists s', run enc dec s ops = Ok s' /\ Inv s' /\ (untampered ops = true -> UInv s -> UInv s').
  Proof.
    induction ops as [|o ops IH]; intros s HI.
    - exists s. split; [reflexivity|]. split; [exact HI|]. auto.
    - cbn [run]. destruct (step_spec s o HI) as (s1 & ob & Hs & HI1 & HU1). rewrite Hs. cbn [bind fst].
      destruct (IH s1 HI1) as (s' & Hr & HI' & HU'). exists s'. split; [exact Hr|]. split; [exact HI'|].
      cbn [untampered forallb]. intros Hu U. apply andb_true_iff in Hu. destruct Hu as (Ho & Hops).
      apply HU'; [exact Hops|]. apply HU1; [|exact U]. destruct (is_tamper o); [discriminate|reflexivity].
  Qed.

  Lemma buf_new_size cap : buf_size (buf_new cap) = cap.
  Proof. unfold buf_size, buf_new. cbn [b_pre b_data b_post length]. rewrite repeat_length. reflexivity. Qed.

  Lemma Inv_init : Inv (sim_init PC) /\ UInv (sim_init PC).
  Proof.
    split; [split; [|split]|].
    - unfold WI, sim_init, w_init. cbn [s_w s_net s_accepted w_payload w_frame w_sent net_init n_hist].
      rewrite !buf_new_size. repeat split. constructor.
    - unfold RI, sim_init, r_init. cbn [s_r s_net s_delivered r_payload r_frame r_got net_init n_rin].
      repeat split; destruct i; discriminate.
    - cbn. discriminate.
    - split; reflexivity.
  Qed.

  (* ----------------------------------------------------------------------- *)
  (* consequences of the invariants *)

  Definition authentic (s : sim) : Prop :=
    forall i h c p, nth_error (r_got (s_r s)) i = Some (h, c, p) -> dec i c = Some p ->
                    nth_error (w_sent (s_w s)) i = Some p.

  Lemma nth_error_map_inv {A B} (f : A -> B) l : forall i y,
    nth_error (map f l) i = Some y -> exists x, nth_error l i = Some x /\ y = f x.
  Proof.
    induction l as [|a l IH]; intros [|i] y H; cbn [map nth_error] in *; try discriminate.
    - inversion H. eauto.
    - apply IH. exact H.
  Qed.

  Lemma authentic_prefix s : Inv s -> authentic s ->
    exists rest, w_sent (s_w s) = map plain (r_got (s_r s)) ++ rest.
  Proof.
    intros (_ & (_ & _ & R3) & _) HA. apply pointwise_prefix. intros i x Hx.
    apply nth_error_map_inv in Hx. destruct Hx as ([[h c] p] & He & ->).
    cbn [plain snd]. apply (HA i h c p He). apply (R3 i h c p He).
  Qed.

  Lemma delivered_prefix s : Inv s -> authentic s ->
    exists rest, s_accepted s = s_delivered s ++ rest.
  Proof.
    intros HI HA. destruct (authentic_prefix s HI HA) as (rest & Hrest).
    destruct HI as ((_ & _ & _ & _ & W2 & _) & (_ & R2 & _) & _).
    exists (b_data (r_payload (s_r s)) ++ concat rest ++ b_data (w_payload (s_w s))).
    rewrite W2, Hrest, concat_app, <- R2, <- !app_assoc. reflexivity.
  Qed.

  (* --- untampered transport: the frames the reader parses are the writer's frames --- *)
  Hypothesis dec_enc : forall n p, dec n (enc n p) = Some p.

  Definition small (c : list Z) : Prop := (Z.of_nat (length c) <= 65535)%Z.

  Lemma app_eq_len {A} (a b x y : list A) : length a = length b -> a ++ x = b ++ y -> a = b /\ x = y.
  Proof.
    revert b. induction a as [|u a IH]; intros [|v b] Hl H; cbn [length app] in *; try discriminate.
    - auto.
    - injection H as -> H. destruct (IH b ltac:(lia) H) as (-> & ->). auto.
  Qed.

  Lemma parse_unique : forall (got : list (Z * Z * list Z * list Z)) cts rest,
    Forall (fun e => length (ctext e) = dec16 (fst (fst e))) got -> Forall small cts ->
    concat (map rawframe got) ++ rest = wire cts ->
    map ctext got = firstn (length got) cts /\ length got <= length cts /\
    rest = wire (skipn (length got) cts).
  Proof.
    induction got as [|[[h c] p] got IH]; intros cts rest Hg Hc H.
    - cbn in *. auto with arith.
    - inversion Hg as [|? ? Hh Hg']; subst. cbn [ctext fst snd] in Hh.
      destruct cts as [|c' cts]; [discriminate|].
      inversion Hc as [|? ? Hs Hc']; subst.
      change (fst h :: snd h :: (c ++ concat (map rawframe got)) ++ rest
              = fst (le16 (length c')) :: snd (le16 (length c')) :: c' ++ wire cts) in H.
      injection H as H0 H1 H2.
      assert (Hhe : h = le16 (length c')) by (rewrite (surjective_pairing h), (surjective_pairing (le16 (length c'))), H0, H1; reflexivity).
      assert (Hl : length c = length c') by (rewrite Hh, Hhe; apply dec16_le16; exact Hs).
      rewrite <- !app_assoc in H2. destruct (app_eq_len _ _ _ _ Hl H2) as (-> & H3).
      destruct (IH cts rest Hg' Hc' H3) as (I1 & I2 & I3).
      cbn [map length firstn skipn ctext fst snd]. rewrite I1. split; [reflexivity|]. split; [lia|exact I3].
  Qed.

  Lemma encs_small ps : Forall (fun p => 1 <= length p <= PC) ps -> forall i, Forall small (encs i ps).
  Proof.
    induction 1 as [|p ps Hp _ IH]; intros i; cbn [encs]; constructor; [|apply IH].
    unfold small. rewrite enc_len. lia.
  Qed.

  Lemma nth_error_firstn_lt {A} (l : list A) : forall k i, i < k -> nth_error (firstn k l) i = nth_error l i.
  Proof.
    induction l as [|a l IH]; intros [|k] [|i] H; cbn [firstn nth_error]; try lia; try reflexivity.
    apply IH. lia.
  Qed.

  Lemma got_forall s : Inv s ->
    Forall (fun e => length (ctext e) = dec16 (fst (fst e))) (r_got (s_r s)).
  Proof.
    intros (_ & (_ & _ & R3) & _). apply Forall_forall. intros [[h c] p] Hin.
    apply In_nth_error in Hin. destruct Hin as (i & Hi). cbn [ctext fst snd]. apply (R3 i h c p Hi).
  Qed.

  Lemma untampered_parse s : Inv s -> UInv s ->
    let got := r_got (s_r s) in let cts := encs 0 (w_sent (s_w s)) in
    map ctext got = firstn (length got) cts /\ length got <= length cts /\
    b_data (r_frame (s_r s)) ++ n_chan (s_net s) ++ b_data (w_frame (s_w s)) = wire (skipn (length got) cts).
  Proof.
    intros HI (_ & U2). pose proof (got_forall s HI) as Hg.
    destruct HI as ((_ & _ & _ & W1 & _ & W3) & (R1 & _ & _) & _). cbv zeta.
    apply parse_unique; [exact Hg|apply encs_small; exact W3|].
    rewrite <- W1, <- U2, R1, <- !app_assoc. reflexivity.
  Qed.

  Lemma untampered_authentic s : Inv s -> UInv s -> authentic s.
  Proof.
    intros HI HU i h c p Hi Hd. destruct (untampered_parse s HI HU) as (P1 & P2 & _).
    assert (Hlt : i < length (r_got (s_r s))) by (apply nth_error_Some; congruence).
    assert (Hc : nth_error (encs 0 (w_sent (s_w s))) i = Some c).
    { rewrite <- (nth_error_firstn_lt _ (length (r_got (s_r s))) i Hlt), <- P1.
      erewrite map_nth_error; [|exact Hi]. reflexivity. }
    rewrite encs_length in P2.
    destruct (nth_error (w_sent (s_w s)) i) as [q|] eqn:Eq.
    - rewrite (encs_nth _ 0 i q Eq) in Hc. injection Hc as <-. cbn [plus] in Hd.
      rewrite dec_enc in Hd. exact Hd.
    - apply nth_error_None in Eq. lia.
  Qed.

  Lemma wire_nil_inv cs : wire cs = [] -> cs = [].
  Proof. destruct cs; [reflexivity|discriminate]. Qed.

  Lemma flushed_drained_complete s : Inv s -> UInv s -> s_flushed s = true ->
    n_chan (s_net s) = [] -> b_data (r_frame (s_r s)) = [] -> b_data (r_payload (s_r s)) = [] ->
    s_delivered s = s_accepted s.
  Proof.
    intros HI HU Hf Hc Hrf Hrp.
    destruct (untampered_parse s HI HU) as (_ & P2 & P3).
    destruct (authentic_prefix s HI (untampered_authentic s HI HU)) as (rest & Hrest).
    destruct HI as ((_ & _ & _ & _ & W2 & _) & (_ & R2 & _) & HF).
    destruct (HF Hf) as (Hwp & Hwf). rewrite Hc, Hrf, Hwf in P3. cbn [app] in P3.
    symmetry in P3. apply wire_nil_inv in P3.
    rewrite encs_length in P2.
    assert (Hlen : length (w_sent (s_w s)) <= length (r_got (s_r s))).
    { destruct (Nat.le_gt_cases (length (w_sent (s_w s))) (length (r_got (s_r s)))) as [|Hgt]; [assumption|].
      exfalso. apply (f_equal (@length _)) in P3. rewrite skipn_length, encs_length in P3. cbn in P3. lia. }
    assert (Hr : rest = []).
    { apply (f_equal (@length _)) in Hrest. rewrite app_length, map_length in Hrest.
      apply length0_nil. lia. }
    rewrite W2, Hwp, Hrest, Hr, !app_nil_r, <- R2, Hrp, app_nil_r. reflexivity.
  Qed.
End Proofs.

(* ------------------------------------------------------------------------- *)
(* the toy AEAD satisfies the Section hypotheses *)
Lemma le_bytes_length k : forall z, length (le_bytes k z) = k.
Proof. induction k; intros; cbn [le_bytes length]; auto. Qed.

Lemma toy_tag_length n p : length (toy_tag n p) = 16.
Proof. unfold toy_tag. rewrite app_length, !le_bytes_length. reflexivity. Qed.

Lemma toy_enc_len n p : length (toy_enc n p) = length p + 16.
Proof. unfold toy_enc. rewrite app_length, toy_tag_length. reflexivity. Qed.

Lemma list_eqb_refl l : list_eqb l l = true.
Proof. induction l; cbn [list_eqb]; [reflexivity|]. rewrite Z.eqb_refl. exact IHl. Qed.

Lemma toy_dec_enc n p : toy_dec n (toy_enc n p) = Some p.
Proof.
  unfold toy_dec. rewrite toy_enc_len.
  destruct (length p + 16 <? 16) eqn:E; [apply Nat.ltb_lt in E; lia|].
  replace (length p + 16 - 16) with (length p) by lia. unfold toy_enc.
  rewrite firstn_app, Nat.sub_diag, firstn_all. cbn [firstn]. rewrite app_nil_r.
  rewrite skipn_app, Nat.sub_diag, skipn_all. cbn [skipn app].
  rewrite list_eqb_refl. reflexivity.
Qed.

(* ------------------------------------------------------------------------- *)
(* packaging for Properties/C13.v *)
Definition pc_ok (PC : nat) : Prop := 1 <= PC /\ (Z.of_nat PC + 16 <= 65535)%Z.
Definition aead_len (enc : nat -> list Z -> list Z) : Prop :=
  forall n p, length (enc n p) = length p + 16.
Definition aead_correct (enc : nat -> list Z -> list Z) (dec : nat -> list Z -> option (list Z)) : Prop :=
  forall n p, dec n (enc n p) = Some p.

Lemma real_pc_ok : pc_ok MAX_PAYLOAD_LEN.
Proof. unfold pc_ok, MAX_PAYLOAD_LEN. split; lia. Qed.

Lemma reachable_inv enc dec PC : pc_ok PC -> aead_len enc ->
  forall ops s, run enc dec (sim_init PC) ops = Ok s ->
  Inv enc dec PC s /\ (untampered ops = true -> UInv s).
Proof.
  intros (H1 & H2) HL ops s Hr.
  destruct (run_spec enc dec PC H1 H2 HL ops (sim_init PC) (proj1 (Inv_init enc dec PC)))
    as (s' & Hr' & HI & HU).
  rewrite Hr in Hr'. injection Hr' as <-. split; [exact HI|]. intros Hu. apply HU; [exact Hu|exact (proj2 (Inv_init enc dec PC))].
Qed.

(* no panic, no fuel exhaustion; the buffers keep their size (begin <= end <= capacity is built
   into the representation, a violation would be a Panic) *)
Lemma c13_safe enc dec PC : pc_ok PC -> aead_len enc ->
  forall ops, exists s, run enc dec (sim_init PC) ops = Ok s /\
    buf_size (w_payload (s_w s)) = PC /\ buf_size (w_frame (s_w s)) = FC PC /\
    b_pre (w_payload (s_w s)) = [].
Proof.
  intros (H1 & H2) HL ops.
  destruct (run_spec enc dec PC H1 H2 HL ops (sim_init PC) (proj1 (Inv_init enc dec PC)))
    as (s' & Hr' & ((S1 & S2 & S3 & _) & _) & _).
  exists s'. auto.
Qed.

Lemma c13_poll_write enc dec PC : pc_ok PC -> aead_len enc ->
  forall ops s bytes sc, run enc dec (sim_init PC) ops = Ok s ->
  exists w' n' r, poll_write enc (s_w s) (with_scripts (s_net s) sc []) bytes = Ok (w', n', r) /\
    forall k, r = PReady k -> (k = 0 <-> bytes = []) /\ k <= length bytes.
Proof.
  intros Hpc HL ops s bytes sc Hr. destruct (reachable_inv enc dec PC Hpc HL ops s Hr) as ((HW & _) & _).
  destruct Hpc as (H1 & H2).
  destruct (poll_write_spec enc dec PC H1 H2 HL (s_w s) (with_scripts (s_net s) sc []) (s_accepted s) bytes)
    as (w' & n' & r & Hrun & _ & _ & Hk & _).
  { apply (WI_hist enc PC _ _ _ _ HW). reflexivity. }
  exists w', n', r. split; [exact Hrun|exact Hk].
Qed.

Lemma c13_frames enc dec PC : pc_ok PC -> aead_len enc ->
  forall ops s, run enc dec (sim_init PC) ops = Ok s ->
  let payloads := w_sent (s_w s) in
  n_hist (s_net s) ++ b_data (w_frame (s_w s)) = wire (encs enc 0 payloads) /\
  Forall (fun p => 1 <= length p <= PC) payloads /\
  Forall (fun c => (Z.of_nat (length c) <= 65535)%Z) (encs enc 0 payloads) /\
  s_accepted s = concat payloads ++ b_data (w_payload (s_w s)).
Proof.
  intros Hpc HL ops s Hr. destruct (reachable_inv enc dec PC Hpc HL ops s Hr) as (((_ & _ & _ & W1 & W2 & W3) & _) & _).
  destruct Hpc as (H1 & H2). cbv zeta. split; [exact W1|]. split; [exact W3|]. split; [|exact W2].
  exact (encs_small enc PC H1 H2 HL _ W3 0).
Qed.

Lemma c13_tamper enc dec PC : pc_ok PC -> aead_len enc ->
  forall ops s, run enc dec (sim_init PC) ops = Ok s -> authentic dec s ->
  exists rest, s_accepted s = s_delivered s ++ rest.
Proof.
  intros Hpc HL ops s Hr HA. destruct (reachable_inv enc dec PC Hpc HL ops s Hr) as (HI & _).
  exact (delivered_prefix enc dec PC s HI HA).
Qed.

Lemma c13_fifo enc dec PC : pc_ok PC -> aead_len enc -> aead_correct enc dec ->
  forall ops s, untampered ops = true -> run enc dec (sim_init PC) ops = Ok s ->
  (exists rest, s_accepted s = s_delivered s ++ rest) /\
  (s_flushed s = true -> n_chan (s_net s) = [] -> b_data (r_frame (s_r s)) = [] ->
   b_data (r_payload (s_r s)) = [] -> s_delivered s = s_accepted s).
Proof.
  intros Hpc HL HC ops s Hu Hr. destruct (reachable_inv enc dec PC Hpc HL ops s Hr) as (HI & HU).
  specialize (HU Hu). destruct Hpc as (H1 & H2). split.
  - apply (delivered_prefix enc dec PC s HI). exact (untampered_authentic enc dec PC H1 H2 HL HC s HI HU).
  - exact (flushed_drained_complete enc dec PC H1 H2 HL HC s HI HU).
Qed.

(* genuine frames moved around (replay, reordering, deletion) are rejected because the nonce is the
   frame index: if the ciphertext accepted at position i is the writer's j-th ciphertext and the AEAD
   binds the nonce, then i = j and the plaintext is the writer's i-th payload *)
Lemma c13_nonce_binding enc dec : aead_correct enc dec ->
  (forall n c p, dec n c = Some p -> c = enc n p) ->
  (forall n n' p p', enc n p = enc n' p' -> n = n' /\ p = p') ->
  forall i j q p, dec i (enc j q) = Some p -> i = j /\ p = q.
Proof.
  intros HC Hinj Hnon i j q p H. apply Hinj in H. apply Hnon in H. destruct H as (-> & ->). auto.
Qed.

(* ------------------------------------------------------------------------- *)
(* a decryption failure is permanent: the frame is not consumed and the nonce does not advance *)
Lemma inner_read_err n cap n1 e : inner_read n cap = (n1, PErr e) -> e = ETransport.
Proof.
  unfold inner_read. destruct (n_rscript n) as [|[| |k] s]; destruct (n_chan n); destruct (n_closed n);
    intros H; inversion H; reflexivity.
Qed.

Lemma read_frame_result : forall fuel r n r' n' res, read_frame fuel r n = Ok (r', n', res) ->
  match res with
  | PReady (Some L) => frame_complete (r_frame r') = Ok (Some L) /\ r_payload r' = r_payload r /\ r_got r' = r_got r
  | PErr e => e = ETransport
  | _ => True
  end.
Proof.
  induction fuel as [|f IH]; intros r n r' n' res H; cbn [read_frame] in H.
  - destruct (frame_complete (r_frame r)) as [[L|]| |] eqn:Ec; cbn [bind] in H; try discriminate.
    inversion H; subst. auto.
  - destruct (frame_complete (r_frame r)) as [[L|]| |] eqn:Ec; cbn [bind] in H; try discriminate.
    { inversion H; subst. auto. }
    destruct (inner_read n (buf_capacity (r_frame r))) as [n1 [bytes| |e]] eqn:Er.
    + destruct (length bytes =? 0).
      * inversion H; subst. exact I.
      * destruct (buf_fill (r_frame r) bytes) as [fr2| |] eqn:Ef; cbn [bind] in H; try discriminate.
        specialize (IH _ _ _ _ _ H). destruct res as [[L|]| |e]; auto.
    + inversion H; subst. exact I.
    + inversion H; subst. exact (inner_read_err _ _ _ _ Er).
Qed.

Definition stuck (dec : nat -> list Z -> option (list Z)) (r : rst) : Prop :=
  b_pre (r_payload r) = [] /\ b_data (r_payload r) = [] /\
  exists L, frame_complete (r_frame r) = Ok (Some L) /\
    buf_len (r_frame r) <? LENF + L = false /\
    let c := firstn L (skipn LENF (buf_as_slice (r_frame r))) in
    (MAXMSG <? length c = true \/
     (MAXMSG <? length c = false /\
      match dec (length (r_got r)) c with
      | None => True
      | Some p => buf_capacity (buf_reset (r_payload r)) <? length p = true
      end)).

Lemma buf_reset_idem b : b_pre b = [] -> b_data b = [] -> buf_reset b = b.
Proof. destruct b as [pre data post]. cbn. intros -> ->. reflexivity. Qed.

Lemma poll_read_payload_err dec r n r' n' :
  poll_read_payload dec r n = Ok (r', n', PErr EInvalidData) -> stuck dec r'.
Proof.
  unfold poll_read_payload. destruct (0 <? buf_len (r_payload r)); [intros H; inversion H|].
  unfold poll_read_frame.
  destruct (read_frame (S (buf_capacity (r_frame r))) r n) as [[[r1 n1] res]| |] eqn:Er; cbn [bind]; try discriminate.
  pose proof (read_frame_result _ _ _ _ _ _ Er) as Hres.
  destruct res as [[L|]| |e].
  2:{ intros H; inversion H. }
  2:{ intros H; inversion H. }
  2:{ intros H; inversion H; subst. discriminate. }
  destruct Hres as (Hc & _ & _).
  destruct (buf_len (r_frame r1) <? LENF + L) eqn:E1; [discriminate|].
  set (c := firstn L (skipn LENF (buf_as_slice (r_frame r1)))).
  assert (Hbad : forall X : Prop,
    (stuck dec {| r_payload := buf_reset (r_payload r1); r_frame := r_frame r1; r_got := r_got r1 |} -> X) ->
    (MAXMSG <? length c = true \/
     (MAXMSG <? length c = false /\
      match dec (length (r_got r1)) c with
      | None => True
      | Some p => buf_capacity (buf_reset (r_payload r1)) <? length p = true
      end)) -> X).
  { intros X HX Hd. apply HX. unfold stuck. cbn [r_payload r_frame r_got].
    split; [reflexivity|]. split; [reflexivity|]. exists L. split; [exact Hc|]. split; [exact E1|].
    fold c. rewrite (buf_reset_idem (buf_reset (r_payload r1))) by reflexivity. exact Hd. }
  destruct (MAXMSG <? length c) eqn:E2.
  { intros H; inversion H; subst. apply (Hbad _ (fun x => x)). left. reflexivity. }
  destruct (dec (length (r_got r1)) c) as [p|] eqn:Ed.
  2:{ intros H; inversion H; subst. apply (Hbad _ (fun x => x)). right. split; [reflexivity|exact I]. }
  destruct (buf_capacity (buf_reset (r_payload r1)) <? length p) eqn:E3.
  { intros H; inversion H; subst. apply (Hbad _ (fun x => x)). right. split; reflexivity. }
  destruct (buf_write_cap (buf_reset (r_payload r1)) 0 p); cbn [bind]; try discriminate.
  destruct (buf_take (r_frame r1) (LENF + L)); cbn [bind]; try discriminate.
  destruct (buf_extend _ (length p)); cbn [bind]; discriminate.
Qed.

Lemma stuck_poll_read_payload dec r : stuck dec r ->
  forall n, poll_read_payload dec r n = Ok (r, n, PErr EInvalidData).
Proof.
  intros (Hpre & Hdat & L & Hc & E1 & Hd) n. unfold poll_read_payload, buf_len. rewrite Hdat. change (0 <? length (@nil Z)) with false. cbv iota.
  unfold poll_read_frame. cbn [read_frame]. rewrite Hc. cbn [bind]. unfold buf_len in E1. unfold buf_len. rewrite E1.
  cbv zeta in Hd. rewrite (buf_reset_idem (r_payload r) Hpre Hdat) in *.
  assert (Hr : {| r_payload := r_payload r; r_frame := r_frame r; r_got := r_got r |} = r) by (destruct r; reflexivity).
  destruct Hd as [Hd|(Hd1 & Hd2)].
  - rewrite Hd, Hr. reflexivity.
  - rewrite Hd1. destruct (dec (length (r_got r)) _) as [p|].
    + rewrite Hd2, Hr. reflexivity.
    + rewrite Hr. reflexivity.
Qed.

Lemma c13_decrypt_error_sticky dec r n cap r' n' :
  poll_read dec r n cap = Ok (r', n', PErr EInvalidData) ->
  forall n2 cap2, poll_read dec r' n2 cap2 = Ok (r', n2, PErr EInvalidData).
Proof.
  unfold poll_read at 1.
  destruct (poll_read_payload dec r n) as [[[r1 n1] res]| |] eqn:E; cbn [bind]; try discriminate.
  destruct res as [u| |e].
  - destruct (buf_take _ _); cbn [bind]; intros H; inversion H.
  - intros H; inversion H.
  - intros H; inversion H; subst. apply poll_read_payload_err in E.
    intros n2 cap2. unfold poll_read. rewrite (stuck_poll_read_payload dec r' E n2). reflexivity.
Qed.

(* poll_read never puts more than buf.remaining() bytes into the caller's buffer, and plaintext that is
   already buffered is handed out before the transport is touched: no transport read, no new frame
   decrypted, and never an empty (end-of-stream looking) result while decrypted bytes are waiting *)
Lemma c13_poll_read_bounded dec r n cap r' n' out :
  poll_read dec r n cap = Ok (r', n', PReady out) ->
  length out <= cap /\
  (0 < cap -> 0 < buf_len (r_payload r) ->
   out = firstn (Nat.min cap (buf_len (r_payload r))) (buf_as_slice (r_payload r)) /\
   out <> [] /\ r_got r' = r_got r /\ r_frame r' = r_frame r /\ n' = n).
Proof.
  unfold poll_read.
  destruct (poll_read_payload dec r n) as [[[r1 n1] res]| |] eqn:E; cbn [bind]; try discriminate.
  destruct res as [u| |e].
  - destruct (buf_take _ _) as [p1| |] eqn:T; cbn [bind]; intros H; inversion H; subst; clear H.
    split.
    + rewrite firstn_length. lia.
    + intros Hc Hl. unfold poll_read_payload in E.
      destruct (Nat.ltb_spec 0 (buf_len (r_payload r))) as [_|Hn]; [|lia].
      inversion E; subst; clear E. cbn [r_got r_frame].
      repeat split; try reflexivity.
      intros Hnil. apply (f_equal (@length Z)) in Hnil.
      rewrite firstn_length in Hnil. unfold buf_as_slice, buf_len in *. cbn [length] in Hnil. lia.
  - intros H; inversion H.
  - intros H; inversion H.
Qed.

(* truncation inside a frame: the payload buffer is empty, the frame buffer holds no complete frame
   (possibly part of one) and the transport reports end of file (a read of 0 bytes) - poll_read then
   returns Ready(Ok) with 0 bytes, i.e. a clean end of stream after the bytes of the complete frames
   (the behaviour of the code, stated as is); nothing is decrypted, the partial frame stays *)
Lemma c13_read_eof_mid_frame dec r n cap n1 :
  buf_len (r_payload r) = 0 -> frame_complete (r_frame r) = Ok None ->
  inner_read n (buf_capacity (r_frame r)) = (n1, PReady []) ->
  exists r', poll_read dec r n cap = Ok (r', n1, PReady []) /\
    r_got r' = r_got r /\ r_frame r' = r_frame r /\ b_data (r_payload r') = [].
Proof.
  intros Hp Hfc Hin. unfold poll_read, poll_read_payload. rewrite Hp. cbn [Nat.ltb Nat.leb].
  unfold poll_read_frame. cbn [read_frame]. rewrite Hfc. cbn [bind]. rewrite Hin.
  cbn [length Nat.eqb bind]. rewrite Hp, Nat.min_0_r. unfold buf_take. rewrite Hp.
  cbn [Nat.leb bind firstn skipn]. eexists. split; [reflexivity|].
  cbn [r_got r_frame r_payload b_data]. repeat split; try reflexivity.
  unfold buf_len in Hp. destruct (b_data (r_payload r)); [reflexivity|discriminate].
Qed.

(* a complete frame whose ciphertext does not decrypt under the current nonce (= number of frames
   accepted so far) is rejected in the same call: InvalidData, nothing delivered, the transport is not
   touched, the nonce does not advance and the frame is not skipped *)
Lemma frame_complete_some fr L : frame_complete fr = Ok (Some L) -> LENF + L <= buf_len fr.
Proof.
  unfold frame_complete. destruct (LENF <=? buf_len fr); [|discriminate].
  destruct (buf_prefix2 fr) as [p| |]; cbn [bind]; try discriminate.
  destruct (Nat.leb_spec (LENF + dec16 p) (buf_len fr)) as [Hle|Hgt]; intros H; inversion H; subst.
  exact Hle.
Qed.

Lemma c13_bad_frame_rejected dec r n cap L :
  buf_len (r_payload r) = 0 -> frame_complete (r_frame r) = Ok (Some L) ->
  dec (length (r_got r)) (firstn L (skipn LENF (buf_as_slice (r_frame r)))) = None ->
  exists r', poll_read dec r n cap = Ok (r', n, PErr EInvalidData) /\
    r_got r' = r_got r /\ r_frame r' = r_frame r /\ b_data (r_payload r') = [].
Proof.
  intros Hp Hfc Hdec. pose proof (frame_complete_some _ _ Hfc) as Hle.
  unfold poll_read, poll_read_payload. rewrite Hp. change (0 <? 0) with false. cbv iota.
  unfold poll_read_frame. cbn [read_frame]. rewrite Hfc. cbn [bind].
  destruct (Nat.ltb_spec (buf_len (r_frame r)) (LENF + L)) as [Hlt|_]; [lia|].
  rewrite Hdec.
  match goal with |- context [MAXMSG <? ?x] => destruct (MAXMSG <? x) end; cbn [bind]; eexists; (split; [reflexivity|]);
    cbn [r_got r_frame r_payload buf_reset b_data]; repeat split; reflexivity.
Qed.

(* a complete frame that decrypts under the current nonce is consumed in the same call: the first
   min(remaining, |p|) bytes of its plaintext are handed out, the rest stays buffered, the nonce
   advances by one and the transport is not touched *)
Lemma c13_good_frame_delivered dec r n cap L p :
  buf_len (r_payload r) = 0 -> frame_complete (r_frame r) = Ok (Some L) ->
  length (firstn L (skipn LENF (buf_as_slice (r_frame r)))) <= MAXMSG ->
  dec (length (r_got r)) (firstn L (skipn LENF (buf_as_slice (r_frame r)))) = Some p ->
  length p <= buf_size (r_payload r) ->
  exists r', poll_read dec r n cap = Ok (r', n, PReady (firstn (Nat.min cap (length p)) p)) /\
    length (r_got r') = S (length (r_got r)) /\
    b_data (r_payload r') = skipn (Nat.min cap (length p)) p.
Proof.
  intros Hp Hfc Hmax Hdec Hcap. pose proof (frame_complete_some _ _ Hfc) as Hle.
  unfold poll_read, poll_read_payload. rewrite Hp. change (0 <? 0) with false. cbv iota.
  unfold poll_read_frame. cbn [read_frame]. rewrite Hfc. cbn [bind].
  destruct (Nat.ltb_spec (buf_len (r_frame r)) (LENF + L)) as [Hlt|_]; [lia|].
  destruct (Nat.ltb_spec MAXMSG (length (firstn L (skipn LENF (buf_as_slice (r_frame r))))))
    as [Hgt|_]; [lia|].
  rewrite Hdec.
  assert (Hc0 : buf_capacity (buf_reset (r_payload r)) = buf_size (r_payload r)).
  { unfold buf_capacity, buf_reset, buf_size. cbn [b_post]. rewrite !app_length. lia. }
  destruct (Nat.ltb_spec (buf_capacity (buf_reset (r_payload r))) (length p)) as [Hgt|_]; [lia|].
  unfold buf_write_cap. cbn [Nat.add].
  destruct (Nat.leb_spec (length p) (buf_capacity (buf_reset (r_payload r)))) as [_|Hgt]; [|lia].
  cbn [bind]. unfold buf_take at 1.
  destruct (Nat.leb_spec (LENF + L) (buf_len (r_frame r))) as [_|Hgt]; [|lia].
  cbn [bind]. unfold buf_extend, buf_capacity at 1. cbn [b_post b_pre b_data firstn app].
  match goal with |- context [length p <=? ?x] =>
    destruct (Nat.leb_spec (length p) x) as [_|Hgt];
      [|rewrite app_length in Hgt; lia] end.
  cbn [bind r_payload r_frame r_got]. unfold buf_len, buf_as_slice. cbn [b_data buf_reset app].
  rewrite firstn_app, Nat.sub_diag, firstn_all. cbn [firstn]. rewrite app_nil_r.
  unfold buf_take, buf_len. cbn [b_data b_pre b_post].
  destruct (Nat.leb_spec (Nat.min cap (length p)) (length p)) as [_|Hgt]; [|lia].
  cbn [bind]. eexists. split; [reflexivity|]. cbn [r_got r_payload b_data].
  split; [rewrite app_length; cbn [length]; lia|reflexivity].
Qed.

(* the reader's side of the framing, for every operation list including arbitrary tampering and with
   no assumption on dec: the bytes the reader took from the transport are exactly the frames it
   accepted followed by its frame buffer; what it delivered, followed by its payload buffer, is exactly
   the concatenation of the plaintexts of the accepted frames in order; and the i-th accepted frame is
   one whose ciphertext (of the announced length) decrypts under nonce i to that plaintext *)
Lemma c13_reader_frames enc dec PC : pc_ok PC -> aead_len enc ->
  forall ops s, run enc dec (sim_init PC) ops = Ok s ->
  n_rin (s_net s) = concat (map rawframe (r_got (s_r s))) ++ b_data (r_frame (s_r s)) /\
  s_delivered s ++ b_data (r_payload (s_r s)) = concat (map plain (r_got (s_r s))) /\
  (forall i h c p, nth_error (r_got (s_r s)) i = Some (h, c, p) ->
     dec i c = Some p /\ length c = dec16 h).
Proof.
  intros Hpc HL ops s Hr.
  destruct (reachable_inv enc dec PC Hpc HL ops s Hr) as ((_ & HR & _) & _). exact HR.
Qed.
