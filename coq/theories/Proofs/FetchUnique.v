(* C19: under the contract "one live request per block number" (which run_block_fetcher provides:
   Proofs/FetcherProofs.v) no request ever overrides or removes another request's queue entry. *)
From Coq Require Import ZArith List Bool Arith Lia.
From EC Require Import Lib.Obs Model.Fetch Proofs.FetchProofs.
Import ListNotations.
Open Scope Z_scope.

Definition num_of (st : rstate) : option Z :=
  match st with RInsert n _ | RWait n _ => Some n | _ => None end.

(* no two running requesters want the same number *)
Definition uniq (s : state) : Prop :=
  forall r1 r2 n, num_of (r_st (s_reqs s r1)) = Some n -> num_of (r_st (s_reqs s r2)) = Some n -> r1 = r2.

(* the environment starts a request for n only if nobody is requesting n *)
Definition env_ok (s : state) (a : action) : Prop :=
  match a with
  | EReq r n => forall r', num_of (r_st (s_reqs s r')) <> Some n
  | _ => True
  end.

Inductive oreach : state -> Prop :=
| oreach_init : oreach init
| oreach_step : forall s a s', oreach s -> env_ok s a -> step s a = Some s' -> oreach s'.

Lemma oreach_reachable : forall s, oreach s -> reachable s.
Proof. induction 1; [apply reachable_init|eapply reachable_step; eassumption]. Qed.

(* every queue entry belongs to the requester that waits on it *)
Definition owner (s : state) : Prop :=
  forall n r a, In (n, (r, a)) (s_q s) -> r_st (s_reqs s r) = RWait n a.

Lemma in_qremove : forall n q k c, In (k, c) (qremove n q) -> In (k, c) q /\ k <> n.
Proof.
  intros n q k c. induction q as [|[k0 c0] q IH]; cbn [qremove]; [intros []|].
  destruct (Z.eqb_spec k0 n) as [->|Hne].
  - intros H. destruct (IH H). split; [right; assumption|assumption].
  - intros [E|H]; [injection E as <- <-; split; [left; reflexivity|assumption]|].
    destruct (IH H). split; [right; assumption|assumption].
Qed.

Lemma num_step : forall s a s' r n, step s a = Some s' ->
  num_of (r_st (s_reqs s' r)) = Some n ->
  num_of (r_st (s_reqs s r)) = Some n \/ a = EReq r n.
Proof.
  intros s a s' r n Hstep H.
  destruct a; inv_step Hstep; try (left; exact H);
    cbn [s_reqs set_req set_peer] in H; unfold upd in H;
    match type of H with context [Nat.eqb r ?y] => destruct (Nat.eqb_spec r y) as [->|] end;
    try (left; exact H); cbn [r_st num_of] in H; try discriminate H;
    try (left; match goal with E : r_st (s_reqs s _) = _ |- _ => rewrite E end; exact H).
  right. congruence.
Qed.

Lemma uniq_step : forall s a s', uniq s -> env_ok s a -> step s a = Some s' -> uniq s'.
Proof.
  intros s a s' Hu Hok Hstep r1 r2 n H1 H2.
  destruct (num_step _ _ _ _ _ Hstep H1) as [O1|E1], (num_step _ _ _ _ _ Hstep H2) as [O2|E2].
  - exact (Hu _ _ _ O1 O2).
  - subst a. exfalso. exact (Hok r1 O1).
  - subst a. exfalso. exact (Hok r2 O2).
  - congruence.
Qed.

Lemma owner_step : forall s a s', reachable s -> owner s -> step s a = Some s' -> owner s'.
Proof.
  intros s a s' Hr Ho Hstep n r att Hin.
  destruct (reachable_inv s Hr) as (_ & (_ & Hnd & _) & _).
  destruct (places_parts s Hnd) as (_ & _ & _ & _ & Hq & _).
  assert (Hqs : forall k c, In (k, c) (s_q s) -> In c (map snd (s_q s))) by (intros k c H; apply (in_map snd) in H; exact H).
  destruct a; inv_step Hstep;
    cbn [s_q s_reqs set_req set_peer] in *; try (exact (Ho _ _ _ Hin)).
  - (* EReq *) specialize (Ho _ _ _ Hin). unfold upd. destruct (Nat.eqb_spec r r0) as [->|]; [congruence|exact Ho].
  - (* ECancel *) specialize (Ho _ _ _ Hin). unfold upd. destruct (Nat.eqb_spec r r0) as [->|]; [congruence|exact Ho].
  - specialize (Ho _ _ _ Hin). unfold upd. destruct (Nat.eqb_spec r r0) as [->|]; [cbn [r_st]; congruence|exact Ho].
  - specialize (Ho _ _ _ Hin). unfold upd. destruct (Nat.eqb_spec r r0) as [->|]; [congruence|exact Ho].
  - (* RIns *)
    unfold qinsert in Hin. destruct Hin as [E|Hin].
    + injection E as <- <- <-. unfold upd. rewrite Nat.eqb_refl. reflexivity.
    + apply in_qremove in Hin. destruct Hin as [Hin _]. specialize (Ho _ _ _ Hin).
      unfold upd. destruct (Nat.eqb_spec r r0) as [->|]; [congruence|exact Ho].
  - (* RWakeSent *)
    pose proof (Ho _ _ _ Hin) as Ho'. unfold upd. destruct (Nat.eqb_spec r r0) as [->|]; [|exact Ho'].
    exfalso. rewrite Ho' in *. match goal with E : RWait _ _ = RWait _ _ |- _ => injection E as <- <- end.
    match goal with E : chan_mem _ _ = true |- _ => apply chan_mem_in in E; destruct (Hq _ (Hqs _ _ Hin)) as (_ & A & _); exact (A E) end.
  - (* RWakeDropped *)
    pose proof (Ho _ _ _ Hin) as Ho'. unfold upd. destruct (Nat.eqb_spec r r0) as [->|]; [|exact Ho'].
    exfalso. rewrite Ho' in *. match goal with E : RWait _ _ = RWait _ _ |- _ => injection E as <- <- end.
    match goal with E : chan_mem _ _ = true |- _ => apply chan_mem_in in E; destruct (Hq _ (Hqs _ _ Hin)) as (_ & _ & A); exact (A E) end.
  - (* RWakeCancel *)
    apply in_qremove in Hin. destruct Hin as [Hin Hne]. pose proof (Ho _ _ _ Hin) as Ho'.
    unfold upd. destruct (Nat.eqb_spec r r0) as [->|]; [|exact Ho']. exfalso. congruence.
  - (* ATake *) apply in_qremove in Hin. exact (Ho _ _ _ (proj1 Hin)).
Qed.

Lemma oreach_inv : forall s, oreach s -> uniq s /\ owner s.
Proof.
  induction 1 as [|s a s' Hs [Hu Ho] Hok Hstep].
  - split; [intros r1 r2 n H; cbn in H; discriminate|intros n r a []].
  - split; [eapply uniq_step; eassumption|eapply owner_step; [apply oreach_reachable|..]; eassumption].
Qed.

(* With one live request per number, request() never overrides an entry (the `insert` finds the key
   absent) and the cancellation removes only the requester's own entry. *)
Theorem no_override : forall s r n att, oreach s -> r_st (s_reqs s r) = RInsert n att ->
  qlookup n (s_q s) = None.
Proof.
  intros s r n att Hs Hr. destruct (oreach_inv s Hs) as [Hu Ho].
  destruct (qlookup n (s_q s)) as [[r' a']|] eqn:E; [|reflexivity]. exfalso.
  apply qlookup_in in E. specialize (Ho _ _ _ E).
  assert (r' = r) by (eapply Hu; [rewrite Ho|rewrite Hr]; reflexivity). subst r'. congruence.
Qed.

Theorem cancel_removes_own_entry_only : forall s r n att c, oreach s -> r_st (s_reqs s r) = RWait n att ->
  qlookup n (s_q s) = Some c -> c = (r, att).
Proof.
  intros s r n att [r' a'] Hs Hr E. destruct (oreach_inv s Hs) as [Hu Ho].
  apply qlookup_in in E. specialize (Ho _ _ _ E).
  assert (r' = r) by (eapply Hu; [rewrite Ho|rewrite Hr]; reflexivity). subst r'. congruence.
Qed.
